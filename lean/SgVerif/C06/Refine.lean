/-
C06 — the refinement: the implementation model (Sync/Model.lean: ConditionVariableImpl + MutexImpl composed as the
one-simcall path of s4u_ConditionVariable.cpp / s4u_Mutex.cpp) simulates the abstract condition variable of
C06/Spec.lean step by step, with the same answers, for every history.  Core only.
-/
import SgVerif.C06.Lemmas
import SgVerif.C06.Model
import SgVerif.C04.Lemmas
namespace SgVerif.C06
open SgVerif.Sync

/-- the acquisition record of a blocked locker: registered (`waited`), depth 1, carrying the result of its call -/
def concM (x : Aid × Res) : MAcq := { issuer := x.1, depth := 1, waited := true, res := x.2 }
/-- the acquisition record of a condition-variable waiter on the one-simcall path: registered -/
def concW (x : AWaiter) : CAcq := { issuer := x.issuer, mutex := x.mutex, waited := true, timed := x.timed }

/-- `Abs w s`: the abstract state `s` is what the kernel objects of `w` mean -/
structure Abs (w : World) (s : ASt) : Prop where
  nrec : ∀ m, (w.mutexes m).recursive = false
  own : ∀ m, (w.mutexes m).owner = (s.mx m).owner
  mq : ∀ m, (w.mutexes m).queue = (s.mx m).queue.map concM
  cq : ∀ c, (w.conds c).queue = (s.cv c).map concW

theorem abs_init : Abs w0 ASt.init := by
  constructor <;> intro _ <;> rfl

theorem abs_upd_mutex {w w' : World} {s s' : ASt} (h : Abs w s) (m : Nat) {mu : Mutex} {am : AMutex}
    (hwm : w'.mutexes = upd w.mutexes m mu) (hwc : w'.conds = w.conds)
    (hsm : s'.mx = upd s.mx m am) (hsc : s'.cv = s.cv)
    (hr : mu.recursive = false) (ho : mu.owner = am.owner) (hq : mu.queue = am.queue.map concM) : Abs w' s' := by
  refine ⟨?_, ?_, ?_, ?_⟩
  · intro m'; rw [hwm]
    by_cases e : m' = m
    · subst e; simpa using hr
    · simpa [upd_ne _ _ e] using h.nrec m'
  · intro m'; rw [hwm, hsm]
    by_cases e : m' = m
    · subst e; simpa using ho
    · simpa [upd_ne _ _ e] using h.own m'
  · intro m'; rw [hwm, hsm]
    by_cases e : m' = m
    · subst e; simpa using hq
    · simpa [upd_ne _ _ e] using h.mq m'
  · intro c; rw [hwc, hsc]; exact h.cq c

theorem abs_upd_cond {w w' : World} {s s' : ASt} (h : Abs w s) (c : Nat) (q : List AWaiter)
    (hwm : w'.mutexes = w.mutexes) (hwc : w'.conds = upd w.conds c { queue := q.map concW })
    (hsm : s'.mx = s.mx) (hsc : s'.cv = upd s.cv c q) : Abs w' s' := by
  refine ⟨?_, ?_, ?_, ?_⟩
  · intro m; rw [hwm]; exact h.nrec m
  · intro m; rw [hwm, hsm]; exact h.own m
  · intro m; rw [hwm, hsm]; exact h.mq m
  · intro c'; rw [hwc, hsc]
    by_cases e : c' = c
    · subst e; simp
    · simpa [upd_ne _ _ e] using h.cq c'

/-! ### the mutex side -/

theorem lock_nonrec_free {M : Mutex} (a : Aid) (r : Res) (hr : M.recursive = false) (ho : M.owner = none) :
    M.lock a r = ({ M with owner := some a, depth := 1 }, some r) := by
  simp [Mutex.lock, Mutex.lockAsync, Mutex.waitFor, hr, ho]

theorem lock_nonrec_busy {M : Mutex} (a x : Aid) (r : Res) (hr : M.recursive = false) (ho : M.owner = some x)
    (hx : x ≠ a) :
    M.lock a r = ({ M with queue := M.queue ++ [{ issuer := a, depth := 1, waited := true, res := r }] }, none) := by
  simp [Mutex.lock, Mutex.lockAsync, Mutex.waitFor, hr, ho, hx, SgVerif.C04.markLast_append]

/-- `lock_async(a)->wait_for(a, -1)` (Mutex::lock, and the re-lock at the end of a condition-variable wait) is the
abstract acquire -/
theorem sim_acquire {w : World} {s : ASt} (h : Abs w s) (a : Aid) (m : Nat) (r : Res)
    (hno : (s.mx m).owner ≠ some a) :
    Abs { w with mutexes := upd w.mutexes m ((w.mutexes m).lock a r).1 } (s.acquire a m r).1 ∧
    optOut a ((w.mutexes m).lock a r).2 = (s.acquire a m r).2 := by
  cases ho : (s.mx m).owner with
  | none =>
    have hco : (w.mutexes m).owner = none := by rw [h.own, ho]
    rw [lock_nonrec_free a r (h.nrec m) hco]
    have hacq : s.acquire a m r =
        ({ s with mx := upd s.mx m { (s.mx m) with owner := some a }, blk := upd s.blk a none }, [(a, r)]) := by
      unfold ASt.acquire; simp only [ho]
    rw [hacq]
    exact ⟨abs_upd_mutex h m rfl rfl rfl rfl (h.nrec m) rfl (h.mq m), rfl⟩
  | some x =>
    have hx : x ≠ a := fun e => hno (by rw [ho, e])
    have hco : (w.mutexes m).owner = some x := by rw [h.own, ho]
    rw [lock_nonrec_busy a x r (h.nrec m) hco hx]
    have hacq : s.acquire a m r =
        ({ s with mx := upd s.mx m { (s.mx m) with queue := (s.mx m).queue ++ [(a, r)] },
                  blk := upd s.blk a (some (.mx m)) }, []) := by
      unfold ASt.acquire; simp only [ho]
    rw [hacq]
    refine ⟨abs_upd_mutex h m rfl rfl rfl rfl (h.nrec m) (h.own m) ?_, rfl⟩
    simp [h.mq m, concM]

/-- `MutexImpl::unlock` by the owner is the abstract release -/
theorem sim_release {w : World} {s : ASt} (h : Abs w s) (a : Aid) (m : Nat) (ho : (s.mx m).owner = some a) :
    ∃ mu fin, (w.mutexes m).unlock a = .ok (mu, fin) ∧
      Abs { w with mutexes := upd w.mutexes m mu } (s.release m).1 ∧
      fin.toList = (s.release m).2 := by
  have hco : (w.mutexes m).owner = some a := by rw [h.own, ho]
  have hd : ¬ ((w.mutexes m).recursive = true ∧ 1 < (w.mutexes m).depth) := by simp [h.nrec m]
  cases hq : (s.mx m).queue with
  | nil =>
    have hcq : (w.mutexes m).queue = [] := by rw [h.mq, hq]; rfl
    have hrel : s.release m = ({ s with mx := upd s.mx m { owner := none, queue := [] } }, []) := by
      unfold ASt.release; simp only [hq]
    refine ⟨_, _, SgVerif.C04.unlock_free hco hd hcq, ?_, ?_⟩
    · rw [hrel]
      exact abs_upd_mutex h m rfl rfl rfl rfl (h.nrec m) rfl hcq
    · rw [hrel]; rfl
  | cons x rest =>
    have hcq : (w.mutexes m).queue = concM x :: rest.map concM := by rw [h.mq, hq]; rfl
    have hrel : s.release m =
        ({ s with mx := upd s.mx m { owner := some x.1, queue := rest }, blk := upd s.blk x.1 none }, [x]) := by
      unfold ASt.release; simp only [hq]
    refine ⟨_, _, SgVerif.C04.unlock_handoff hco hd hcq, ?_, ?_⟩
    · rw [hrel]
      exact abs_upd_mutex h m rfl rfl rfl rfl (h.nrec m) rfl rfl
    · rw [hrel]; simp [concM]

/-! ### the steps of the implementation model, computed -/

theorem wstep_lock (w : World) (a : Aid) (m : Nat) :
    w.step (.lock a m) = .ok ({ w with mutexes := upd w.mutexes m ((w.mutexes m).lock a .unit).1 },
                              optOut a ((w.mutexes m).lock a .unit).2) := rfl

theorem wstep_tryLock (w : World) (a : Aid) (m : Nat) :
    w.step (.tryLock a m) = .ok ({ w with mutexes := upd w.mutexes m ((w.mutexes m).tryLock a).1 },
                                 [(a, .flag ((w.mutexes m).tryLock a).2)]) := rfl

theorem wstep_unlock_ok {w : World} {a : Aid} {m : Nat} {mu : Mutex} {fin : Option (Aid × Res)}
    (hu : (w.mutexes m).unlock a = .ok (mu, fin)) :
    w.step (.unlock a m) = .ok ({ w with mutexes := upd w.mutexes m mu }, fin.toList ++ [(a, .unit)]) := by
  have : w.step (.unlock a m) =
      match (w.mutexes m).unlock a with
      | .error e => .error e
      | .ok (mu, fin) => .ok ({ w with mutexes := upd w.mutexes m mu },
                              (match fin with | some o => [o] | none => []) ++ [(a, .unit)]) := rfl
  rw [this, hu]
  cases fin <;> rfl

theorem wstep_unlock_err {w : World} {a : Aid} {m : Nat} {e : Err} (hu : (w.mutexes m).unlock a = .error e) :
    w.step (.unlock a m) = .error e := by
  have : w.step (.unlock a m) =
      match (w.mutexes m).unlock a with
      | .error e => .error e
      | .ok (mu, fin) => .ok ({ w with mutexes := upd w.mutexes m mu },
                              (match fin with | some o => [o] | none => []) ++ [(a, .unit)]) := rfl
  rw [this, hu]

theorem wstep_signal (w : World) (a : Aid) (c : Nat) :
    w.step (.signal a c) = .ok ((condSignal w c).1, (condSignal w c).2 ++ [(a, .unit)]) := rfl

theorem wstep_broadcast (w : World) (a : Aid) (c : Nat) :
    w.step (.broadcast a c) = .ok ((condBroadcast w c).1, (condBroadcast w c).2 ++ [(a, .unit)]) := rfl

theorem wstep_timeout (w : World) (a : Aid) (c : Nat) : w.step (.condTimeout a c) = condTimeoutStep w a c := rfl

theorem condRelock_eq (w : World) (a : Aid) (m : Nat) (t : Bool) :
    condRelock w a m t = ({ w with mutexes := upd w.mutexes m ((w.mutexes m).lock a (.flag t)).1 },
                          optOut a ((w.mutexes m).lock a (.flag t)).2) := rfl

theorem markC_fresh (a : Aid) (m : Nat) (timed : Bool) (q : List CAcq) (hq : ∀ x ∈ q, x.issuer ≠ a) :
    markC a timed (q ++ [{ issuer := a, mutex := m }]) = q ++ [{ issuer := a, mutex := m, waited := true, timed := timed }] := by
  induction q with
  | nil => simp [markC]
  | cons x xs ih =>
    have hx : x.issuer ≠ a := hq x (by simp)
    simp only [List.cons_append, markC, hx, if_false]
    rw [ih (fun y hy => hq y (by simp [hy]))]

theorem wstep_condWait (w : World) (a : Aid) (c m : Nat) (t : Bool) :
    w.step (.condWait a c m t) =
      match condAcquireAsync w a c m with
      | .error e => .error e
      | .ok (w1, o) => .ok ({ w1 with conds := upd w1.conds c { queue := markC a t (w1.conds c).queue } }, o) := rfl

theorem wstep_condWait_ok {w : World} {a : Aid} {c m : Nat} {t : Bool} {mu : Mutex} {fin : Option (Aid × Res)}
    (hu : (w.mutexes m).unlock a = .ok (mu, fin)) :
    w.step (.condWait a c m t) =
      .ok ({ w with mutexes := upd w.mutexes m mu,
                    conds := upd w.conds c { queue := markC a t ((w.conds c).queue ++ [{ issuer := a, mutex := m }]) } },
           fin.toList) := by
  rw [wstep_condWait]
  simp only [condAcquireAsync, hu, upd_same, upd_upd]
  cases fin <;> rfl

theorem wstep_condWait_err {w : World} {a : Aid} {c m : Nat} {t : Bool} {e : Err}
    (hu : (w.mutexes m).unlock a = .error e) : w.step (.condWait a c m t) = .error e := by
  rw [wstep_condWait]
  simp only [condAcquireAsync, hu]

theorem condBroadcastN_nil (n : Nat) (w : World) (c : Nat) (h : (w.conds c).queue = []) :
    condBroadcastN n w c = (w, []) := by
  cases n <;> simp [condBroadcastN, h]

theorem condBroadcastN_succ (n : Nat) (w : World) (c : Nat) (h : (w.conds c).queue.isEmpty = false) :
    condBroadcastN (n + 1) w c =
      ((condBroadcastN n (condSignal w c).1 c).1, (condSignal w c).2 ++ (condBroadcastN n (condSignal w c).1 c).2) := by
  simp only [condBroadcastN, h, Bool.false_eq_true, if_false]

theorem find_conc (a : Aid) (ws : List AWaiter) :
    (ws.map concW).find? (fun q => decide (q.issuer = a ∧ q.waited = true ∧ q.timed = true)) =
      (ws.find? (fun x => decide (x.issuer = a ∧ x.timed = true))).map concW := by
  induction ws with
  | nil => rfl
  | cons x xs ih =>
    simp only [List.map_cons, List.find?_cons]
    by_cases hp : x.issuer = a ∧ x.timed = true
    · have h1 : decide ((concW x).issuer = a ∧ (concW x).waited = true ∧ (concW x).timed = true) = true := by
        simpa [concW] using hp
      have h2 : decide (x.issuer = a ∧ x.timed = true) = true := by simpa using hp
      rw [h1, h2]; rfl
    · have h1 : decide ((concW x).issuer = a ∧ (concW x).waited = true ∧ (concW x).timed = true) = false := by
        simpa [concW] using hp
      have h2 : decide (x.issuer = a ∧ x.timed = true) = false := by simpa using hp
      rw [h1, h2]; exact ih

theorem eraseC_conc (a : Aid) (ws : List AWaiter) : eraseC a (ws.map concW) = (eraseW a ws).map concW := by
  induction ws with
  | nil => rfl
  | cons x xs ih =>
    simp only [List.map_cons, eraseC, eraseW]
    by_cases hx : x.issuer = a
    · simp [concW, hx]
    · simp [concW, hx, ih]

/-! ### notify: pop the head, re-lock -/

theorem sim_signal {w : World} {s : ASt} (h : Abs w s) (c : Nat) (x : AWaiter) (rest : List AWaiter)
    (hq : s.cv c = x :: rest) (hown : (s.mx x.mutex).owner ≠ some x.issuer) :
    Abs (condSignal w c).1 (({ s with cv := upd s.cv c rest } : ASt).acquire x.issuer x.mutex (.flag false)).1 ∧
    (condSignal w c).2 = (({ s with cv := upd s.cv c rest } : ASt).acquire x.issuer x.mutex (.flag false)).2 := by
  have hcq : (w.conds c).queue = concW x :: rest.map concW := by rw [h.cq, hq]; rfl
  have h1 : Abs { w with conds := upd w.conds c { queue := rest.map concW } } { s with cv := upd s.cv c rest } :=
    abs_upd_cond h c rest rfl rfl rfl rfl
  have hcs : condSignal w c =
      condRelock { w with conds := upd w.conds c { queue := rest.map concW } } x.issuer x.mutex false := by
    simp [condSignal, hcq, concW]
  rw [hcs, condRelock_eq]
  exact sim_acquire h1 x.issuer x.mutex (.flag false) hown

theorem sim_wakeList (c : Nat) : ∀ (ws : List AWaiter) (n : Nat) {w : World} {s : ASt}, Abs w s → AInv s →
    s.cv c = ws → ws.length ≤ n →
    Abs (condBroadcastN n w c).1 (s.wakeList c ws).1 ∧ (condBroadcastN n w c).2 = (s.wakeList c ws).2
  | [], n, w, s, h, _, hq, _ => by
    have hcq : (w.conds c).queue = [] := by rw [h.cq, hq]; rfl
    rw [condBroadcastN_nil n w c hcq]
    exact ⟨h, rfl⟩
  | _ :: _, 0, _, _, _, _, _, hl => by simp at hl
  | x :: rest, n + 1, w, s, h, hi, hq, hl => by
    have hcq : (w.conds c).queue = concW x :: rest.map concW := by rw [h.cq, hq]; rfl
    have hxm : x ∈ s.cv c := by rw [hq]; simp
    obtain ⟨ha, ho⟩ := sim_signal h c x rest hq (hi.own c x hxm)
    have hi1 := ainv_pop_acquire (.flag false) hi hq
    have hq1 : (({ s with cv := upd s.cv c rest } : ASt).acquire x.issuer x.mutex (.flag false)).1.cv c = rest := by
      rw [acquire_cv]; simp
    obtain ⟨hb, hob⟩ := sim_wakeList c rest n ha hi1 hq1 (by simpa using hl)
    rw [condBroadcastN_succ n w c (by rw [hcq]; rfl)]
    simp only [ASt.wakeList]
    exact ⟨hb, by rw [ho, hob]⟩

/-! ### one event -/

/-- **Simulation**: every step of the abstract machine is the step of the implementation model on the corresponding
kernel event, with the same answers in the same order, and the states stay related. -/
theorem sim_step {w : World} {s s' : ASt} {e : CEv} {o : Outs} (h : Abs w s) (hi : AInv s)
    (hs : astep s e = .ok (s', o)) : ∃ w', w.step e.toEv = .ok (w', o) ∧ Abs w' s' := by
  cases e with
  | lock a m =>
    simp only [astep] at hs
    split at hs
    · simp at hs
    · split at hs
      · simp at hs
      · rename_i hno
        simp only [Except.ok.injEq] at hs
        obtain ⟨h1, h2⟩ := sim_acquire h a m .unit hno
        rw [hs] at h1 h2
        exact ⟨_, by rw [CEv.toEv, wstep_lock, h2], h1⟩
  | tryLock a m =>
    simp only [astep] at hs
    split at hs
    · simp at hs
    · split at hs
      · rename_i hown
        simp only [Except.ok.injEq, Prod.mk.injEq] at hs
        obtain ⟨rfl, rfl⟩ := hs
        have hco : (w.mutexes m).owner = none := by rw [h.own, hown]
        have ht : (w.mutexes m).tryLock a = ({ w.mutexes m with owner := some a, depth := 1 }, true) := by
          simp [Mutex.tryLock, hco]
        refine ⟨_, by rw [CEv.toEv, wstep_tryLock, ht], ?_⟩
        exact abs_upd_mutex h m rfl rfl rfl rfl (h.nrec m) rfl (h.mq m)
      · rename_i x hown
        simp only [Except.ok.injEq, Prod.mk.injEq] at hs
        obtain ⟨rfl, rfl⟩ := hs
        have hco : (w.mutexes m).owner = some x := by rw [h.own, hown]
        have ht : (w.mutexes m).tryLock a = (w.mutexes m, false) := by
          simp [Mutex.tryLock, hco, h.nrec m]
        refine ⟨_, by rw [CEv.toEv, wstep_tryLock, ht], ?_⟩
        refine ⟨?_, ?_, ?_, h.cq⟩
        · intro m'; by_cases e : m' = m
          · subst e; simpa using h.nrec m'
          · simpa [upd_ne _ _ e] using h.nrec m'
        · intro m'; by_cases e : m' = m
          · subst e; simpa using h.own m'
          · simpa [upd_ne _ _ e] using h.own m'
        · intro m'; by_cases e : m' = m
          · subst e; simpa using h.mq m'
          · simpa [upd_ne _ _ e] using h.mq m'
  | unlock a m =>
    simp only [astep] at hs
    split at hs
    · simp at hs
    · split at hs
      · simp at hs
      · rename_i hown
        have hown : (s.mx m).owner = some a := by simpa using hown
        simp only [Except.ok.injEq, Prod.mk.injEq] at hs
        obtain ⟨rfl, rfl⟩ := hs
        obtain ⟨mu, fin, hu, ha, ho⟩ := sim_release h a m hown
        exact ⟨_, by rw [CEv.toEv, wstep_unlock_ok hu, ho], ha⟩
  | wait a c m timed =>
    simp only [astep] at hs
    split at hs
    · simp at hs
    · rename_i hb
      split at hs
      · simp at hs
      · rename_i hown
        have hown : (s.mx m).owner = some a := by simpa using hown
        simp only [Except.ok.injEq, Prod.mk.injEq] at hs
        obtain ⟨rfl, rfl⟩ := hs
        have hout := out_of_unblocked hi (by simpa using hb)
        obtain ⟨mu, fin, hu, ha, ho⟩ := sim_release h a m hown
        have hfresh : ∀ x ∈ (w.conds c).queue, x.issuer ≠ a := by
          intro x hx
          rw [h.cq] at hx
          obtain ⟨y, hy, rfl⟩ := List.mem_map.mp hx
          exact hout.cv c y hy
        refine ⟨_, by rw [CEv.toEv, wstep_condWait_ok hu, ho], ?_⟩
        refine abs_upd_cond ha c ((s.release m).1.cv c ++ [{ issuer := a, mutex := m, timed := timed }]) rfl ?_ rfl rfl
        rw [markC_fresh a m timed _ hfresh, release_cv, h.cq]
        simp [concW]
  | notifyOne a c =>
    simp only [astep] at hs
    split at hs
    · simp at hs
    · split at hs
      · rename_i hq
        simp only [Except.ok.injEq, Prod.mk.injEq] at hs
        obtain ⟨rfl, rfl⟩ := hs
        have hcq : (w.conds c).queue = [] := by rw [h.cq, hq]; rfl
        exact ⟨w, by rw [CEv.toEv, wstep_signal]; simp [condSignal, hcq], h⟩
      · rename_i x rest hq
        simp only [Except.ok.injEq, Prod.mk.injEq] at hs
        obtain ⟨rfl, rfl⟩ := hs
        have hxm : x ∈ s.cv c := by rw [hq]; simp
        obtain ⟨ha, ho⟩ := sim_signal h c x rest hq (hi.own c x hxm)
        exact ⟨_, by rw [CEv.toEv, wstep_signal, ho], ha⟩
  | notifyAll a c =>
    simp only [astep] at hs
    split at hs
    · simp at hs
    · simp only [Except.ok.injEq, Prod.mk.injEq] at hs
      obtain ⟨rfl, rfl⟩ := hs
      have hlen : (s.cv c).length ≤ (w.conds c).queue.length := by rw [h.cq]; simp
      obtain ⟨ha, ho⟩ := sim_wakeList c (s.cv c) (w.conds c).queue.length h hi rfl hlen
      exact ⟨_, by rw [CEv.toEv, wstep_broadcast, condBroadcast, ho], ha⟩
  | timeout a c =>
    simp only [astep] at hs
    split at hs
    · simp at hs
    · rename_i x hf
      simp only [Except.ok.injEq] at hs
      have hxm := List.mem_of_find?_eq_some hf
      have hxa : x.issuer = a := by
        have := List.find?_some hf
        simp only [decide_eq_true_eq] at this
        exact this.1
      have hown : (s.mx x.mutex).owner ≠ some a := by rw [← hxa]; exact hi.own c x hxm
      have h1 : Abs { w with conds := upd w.conds c { queue := (eraseW a (s.cv c)).map concW } }
          { s with cv := upd s.cv c (eraseW a (s.cv c)) } := abs_upd_cond h c _ rfl rfl rfl rfl
      obtain ⟨ha, ho⟩ := sim_acquire h1 a x.mutex (.flag true) hown
      rw [hs] at ha ho
      have hct : condTimeoutStep w a c =
          .ok (condRelock { w with conds := upd w.conds c { queue := (eraseW a (s.cv c)).map concW } } a x.mutex true) := by
        unfold condTimeoutStep
        rw [h.cq, find_conc, hf, eraseC_conc]
        rfl
      exact ⟨_, by rw [CEv.toEv, wstep_timeout, hct, condRelock_eq, ho], ha⟩

/-- the error branches agree too: the ownership assertion of wait/unlock, and a timer event without armed timer -/
theorem sim_step_err {w : World} {s : ASt} {e : CEv} {err : Err} (h : Abs w s) (hs : astep s e = .error err)
    (hne : err ≠ .illFormed) : w.step e.toEv = .error err := by
  cases e with
  | lock a m =>
    simp only [astep] at hs
    split at hs
    · simp only [Except.error.injEq] at hs; exact absurd hs.symm hne
    · split at hs
      · simp only [Except.error.injEq] at hs; exact absurd hs.symm hne
      · simp at hs
  | tryLock a m =>
    simp only [astep] at hs
    split at hs
    · simp only [Except.error.injEq] at hs; exact absurd hs.symm hne
    · split at hs <;> simp at hs
  | unlock a m =>
    simp only [astep] at hs
    split at hs
    · simp only [Except.error.injEq] at hs; exact absurd hs.symm hne
    · split at hs
      · rename_i hown
        simp only [Except.error.injEq] at hs
        subst hs
        have hco : (w.mutexes m).owner ≠ some a := by rw [h.own]; exact hown
        rw [CEv.toEv, wstep_unlock_err (SgVerif.C04.unlock_notOwner hco)]
      · simp at hs
  | wait a c m timed =>
    simp only [astep] at hs
    split at hs
    · simp only [Except.error.injEq] at hs; exact absurd hs.symm hne
    · split at hs
      · rename_i hown
        simp only [Except.error.injEq] at hs
        subst hs
        have hco : (w.mutexes m).owner ≠ some a := by rw [h.own]; exact hown
        rw [CEv.toEv, wstep_condWait_err (SgVerif.C04.unlock_notOwner hco)]
      · simp at hs
  | notifyOne a c =>
    simp only [astep] at hs
    split at hs
    · simp only [Except.error.injEq] at hs; exact absurd hs.symm hne
    · split at hs <;> simp at hs
  | notifyAll a c =>
    simp only [astep] at hs
    split at hs
    · simp only [Except.error.injEq] at hs; exact absurd hs.symm hne
    · simp at hs
  | timeout a c =>
    simp only [astep] at hs
    split at hs
    · rename_i hf
      simp only [Except.error.injEq] at hs
      subst hs
      rw [CEv.toEv, wstep_timeout]
      unfold condTimeoutStep
      rw [h.cq, find_conc, hf]
      rfl
    · simp at hs

/-! ### whole histories -/

theorem sim_run (es : List CEv) : ∀ {w : World} {s s' : ASt} {o : Outs}, Abs w s → AInv s →
    arun s es = .ok (s', o) → ∃ w', w.run (es.map CEv.toEv) = .ok (w', o) ∧ Abs w' s' ∧ AInv s' := by
  induction es with
  | nil =>
    intro w s s' o h hi hr
    simp [arun] at hr
    obtain ⟨rfl, rfl⟩ := hr
    exact ⟨w, rfl, h, hi⟩
  | cons e es ih =>
    intro w s s' o h hi hr
    simp only [arun] at hr
    split at hr
    · simp at hr
    · rename_i s1 o1 he
      split at hr
      · simp at hr
      · rename_i s2 o2 hr2
        simp only [Except.ok.injEq, Prod.mk.injEq] at hr
        obtain ⟨rfl, rfl⟩ := hr
        obtain ⟨w1, hw1, ha1⟩ := sim_step h hi he
        obtain ⟨w2, hw2, ha2, hi2⟩ := ih ha1 (ainv_step hi he) hr2
        exact ⟨w2, by simp only [List.map_cons, World.run, hw1, hw2], ha2, hi2⟩

/-- an event is in the domain in state `s`: issued by an actor that is not blocked, and not the re-lock of a mutex by
its owner -/
def WellFormed (s : ASt) (e : CEv) : Prop := astep s e ≠ .error .illFormed

/-- conversely, what the implementation model does on a well-formed event is what the abstract machine does -/
theorem sim_step_conv {w w' : World} {s : ASt} {e : CEv} {o : Outs} (h : Abs w s) (hi : AInv s)
    (hwf : WellFormed s e) (hw : w.step e.toEv = .ok (w', o)) : ∃ s', astep s e = .ok (s', o) ∧ Abs w' s' := by
  cases hs : astep s e with
  | error err =>
    have hne : err ≠ .illFormed := fun e' => hwf (by rw [hs, e'])
    rw [sim_step_err h hs hne] at hw
    cases hw
  | ok r =>
    obtain ⟨s', o'⟩ := r
    obtain ⟨w1, hw1, ha⟩ := sim_step h hi hs
    rw [hw] at hw1
    simp only [Except.ok.injEq, Prod.mk.injEq] at hw1
    obtain ⟨rfl, rfl⟩ := hw1
    exact ⟨s', rfl, ha⟩

/-- `Reach w s`: some history of S4U calls leads the abstract machine from its initial state to `s` and the
implementation model from `w0` to `w`, with the same answers -/
def Reach (w : World) (s : ASt) : Prop :=
  ∃ es o, arun ASt.init es = .ok (s, o) ∧ w0.run (es.map CEv.toEv) = .ok (w, o)

theorem reach_abs {w : World} {s : ASt} (hr : Reach w s) : Abs w s ∧ AInv s := by
  obtain ⟨es, o, h1, h2⟩ := hr
  obtain ⟨w1, hw1, ha, hi⟩ := sim_run es abs_init ainv_init h1
  rw [h2] at hw1
  simp only [Except.ok.injEq, Prod.mk.injEq] at hw1
  rw [hw1.1]
  exact ⟨ha, hi⟩

end SgVerif.C06
