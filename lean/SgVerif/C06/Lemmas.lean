/-
C06 — the invariant of the abstract condition-variable machine (C06/Spec.lean) over every history: an actor sits in at
most one queue (that of the object `blk` says), queues are duplicate-free, a condition-variable waiter does not own the
mutex it waits with, a free mutex has no blocked locker.  Core only.
-/
import SgVerif.C06.Spec
namespace SgVerif.C06
open SgVerif.Sync

@[simp] theorem upd_same {β : Type} (f : Nat → β) (i : Nat) (v : β) : upd f i v i = v := by simp [upd]
theorem upd_ne {β : Type} (f : Nat → β) {i j : Nat} (v : β) (h : j ≠ i) : upd f i v j = f j := by simp [upd, h]
theorem upd_upd {β : Type} (f : Nat → β) (i : Nat) (v v' : β) : upd (upd f i v) i v' = upd f i v' := by
  funext j; simp only [upd]; split <;> rfl

/-- actor `a` is in no queue -/
structure Out (s : ASt) (a : Aid) : Prop where
  cv : ∀ c x, x ∈ s.cv c → x.issuer ≠ a
  mx : ∀ m x, x ∈ (s.mx m).queue → x.1 ≠ a

structure AInv (s : ASt) : Prop where
  cvLoc : ∀ c x, x ∈ s.cv c → s.blk x.issuer = some (.cv c)
  mxLoc : ∀ m x, x ∈ (s.mx m).queue → s.blk x.1 = some (.mx m)
  cvNd : ∀ c, ((s.cv c).map (·.issuer)).Nodup
  mxNd : ∀ m, ((s.mx m).queue.map (·.1)).Nodup
  own : ∀ c x, x ∈ s.cv c → (s.mx x.mutex).owner ≠ some x.issuer
  free : ∀ m, (s.mx m).owner = none → (s.mx m).queue = []

theorem ainv_init : AInv ASt.init := by
  constructor <;> simp [ASt.init]

theorem out_of_unblocked {s : ASt} {a : Aid} (hi : AInv s) (hb : s.blk a = none) : Out s a := by
  constructor
  · intro c x hx e
    have := hi.cvLoc c x hx
    rw [e, hb] at this; cases this
  · intro m x hx e
    have := hi.mxLoc m x hx
    rw [e, hb] at this; cases this

/-! ### acquire -/

theorem acquire_cv (s : ASt) (a : Aid) (m : Nat) (r : Res) : (s.acquire a m r).1.cv = s.cv := by
  unfold ASt.acquire; split <;> rfl

theorem ainv_acquire {s : ASt} {a : Aid} (m : Nat) (r : Res) (hi : AInv s) (ho : Out s a) :
    AInv (s.acquire a m r).1 := by
  unfold ASt.acquire
  split
  · rename_i hown
    refine ⟨?_, ?_, hi.cvNd, ?_, ?_, ?_⟩
    · intro c x hx
      simp only [upd_ne _ _ (ho.cv c x hx)]
      exact hi.cvLoc c x hx
    · intro m' x hx
      have hx' : x ∈ (s.mx m').queue := by
        by_cases e : m' = m
        · subst e; simpa using hx
        · simpa [upd_ne _ _ e] using hx
      simp only [upd_ne _ _ (ho.mx m' x hx')]
      exact hi.mxLoc m' x hx'
    · intro m'
      by_cases e : m' = m
      · subst e; simpa using hi.mxNd m'
      · simpa [upd_ne _ _ e] using hi.mxNd m'
    · intro c x hx
      by_cases e : x.mutex = m
      · simp only [e, upd_same]
        intro h; injection h with h; exact ho.cv c x hx h.symm
      · simp only [upd_ne _ _ e]; exact hi.own c x hx
    · intro m' h
      by_cases e : m' = m
      · subst e; simp at h
      · simp only [upd_ne _ _ e] at h ⊢; exact hi.free m' h
  · rename_i o hown
    refine ⟨?_, ?_, hi.cvNd, ?_, ?_, ?_⟩
    · intro c x hx
      simp only [upd_ne _ _ (ho.cv c x hx)]
      exact hi.cvLoc c x hx
    · intro m' x hx
      by_cases e : m' = m
      · subst e
        simp only [upd_same, List.mem_append, List.mem_singleton] at hx
        rcases hx with hx | rfl
        · simp only [upd_ne _ _ (ho.mx m' x hx)]; exact hi.mxLoc m' x hx
        · simp
      · simp only [upd_ne _ _ e] at hx
        simp only [upd_ne _ _ (ho.mx m' x hx)]; exact hi.mxLoc m' x hx
    · intro m'
      by_cases e : m' = m
      · subst e
        simp only [upd_same, List.map_append, List.map_cons, List.map_nil]
        rw [List.nodup_append]
        refine ⟨hi.mxNd m', by simp, ?_⟩
        intro y hy z hz
        simp only [List.mem_singleton] at hz; subst hz
        obtain ⟨x, hx, rfl⟩ := List.mem_map.mp hy
        exact ho.mx m' x hx
      · simpa [upd_ne _ _ e] using hi.mxNd m'
    · intro c x hx
      by_cases e : x.mutex = m
      · simp only [e, upd_same]; rw [← e]; exact hi.own c x hx
      · simp only [upd_ne _ _ e]; exact hi.own c x hx
    · intro m' h
      by_cases e : m' = m
      · subst e; simp only [upd_same] at h; rw [hown] at h; cases h
      · simp only [upd_ne _ _ e] at h ⊢; exact hi.free m' h

/-- acquiring never takes a mutex away from its owner -/
theorem acquire_owner_keep (s : ASt) (a : Aid) (m : Nat) (r : Res) (m' : Nat) (b : Aid)
    (h : (s.mx m').owner = some b) : ((s.acquire a m r).1.mx m').owner = some b := by
  unfold ASt.acquire
  split
  · rename_i hown
    by_cases e : m' = m
    · subst e; rw [hown] at h; cases h
    · simpa [upd_ne _ _ e] using h
  · by_cases e : m' = m
    · subst e; simpa using h
    · simpa [upd_ne _ _ e] using h

/-- whoever is answered by an acquire is the new owner, and is not blocked any more -/
theorem acquire_out (s : ASt) (a : Aid) (m : Nat) (r : Res) :
    ∀ x ∈ (s.acquire a m r).2, x = (a, r) ∧ (s.mx m).owner = none ∧ ((s.acquire a m r).1.mx m).owner = some a ∧
      (s.acquire a m r).1.blk a = none := by
  intro x hx
  unfold ASt.acquire at hx ⊢
  split at hx
  · rename_i hown
    simp only [List.mem_singleton] at hx
    simp [hx, hown]
  · simp at hx

/-- … and who is not answered waits at the tail of the mutex FIFO -/
theorem acquire_queued (s : ASt) (a : Aid) (m : Nat) (r : Res) (o : Aid) (h : (s.mx m).owner = some o) :
    (s.acquire a m r).2 = [] ∧ ((s.acquire a m r).1.mx m).queue = (s.mx m).queue ++ [(a, r)] ∧
      ((s.acquire a m r).1.mx m).owner = some o ∧ (s.acquire a m r).1.blk a = some (.mx m) := by
  unfold ASt.acquire
  simp [h]

theorem acquire_free (s : ASt) (a : Aid) (m : Nat) (r : Res) (h : (s.mx m).owner = none) :
    (s.acquire a m r).2 = [(a, r)] ∧ ((s.acquire a m r).1.mx m).queue = (s.mx m).queue ∧
      ((s.acquire a m r).1.mx m).owner = some a ∧ (s.acquire a m r).1.blk a = none := by
  unfold ASt.acquire
  simp [h]

/-! ### release -/

theorem release_cv (s : ASt) (m : Nat) : (s.release m).1.cv = s.cv := by
  unfold ASt.release; split <;> rfl

theorem ainv_release {s : ASt} (m : Nat) (hi : AInv s) : AInv (s.release m).1 := by
  unfold ASt.release
  split
  · rename_i hq
    refine ⟨hi.cvLoc, ?_, hi.cvNd, ?_, ?_, ?_⟩
    · intro m' x hx
      by_cases e : m' = m
      · subst e; simp at hx
      · simp only [upd_ne _ _ e] at hx; exact hi.mxLoc m' x hx
    · intro m'
      by_cases e : m' = m
      · subst e; simp
      · simpa [upd_ne _ _ e] using hi.mxNd m'
    · intro c x hx
      by_cases e : x.mutex = m
      · simp [e]
      · simp only [upd_ne _ _ e]; exact hi.own c x hx
    · intro m' h
      by_cases e : m' = m
      · subst e; simp
      · simp only [upd_ne _ _ e] at h ⊢; exact hi.free m' h
  · rename_i x rest hq
    have hxm : x ∈ (s.mx m).queue := by rw [hq]; simp
    have hbx := hi.mxLoc m x hxm
    have hnd := hi.mxNd m
    rw [hq] at hnd
    simp only [List.map_cons, List.nodup_cons] at hnd
    refine ⟨?_, ?_, hi.cvNd, ?_, ?_, ?_⟩
    · intro c y hy
      have hne : y.issuer ≠ x.1 := by
        intro e
        have := hi.cvLoc c y hy
        rw [e, hbx] at this; cases this
      simp only [upd_ne _ _ hne]; exact hi.cvLoc c y hy
    · intro m' y hy
      by_cases e : m' = m
      · subst e
        simp only [upd_same] at hy
        have hne : y.1 ≠ x.1 := fun e => hnd.1 (e ▸ List.mem_map_of_mem hy)
        simp only [upd_ne _ _ hne]
        exact hi.mxLoc m' y (by rw [hq]; exact List.mem_cons_of_mem _ hy)
      · simp only [upd_ne _ _ e] at hy
        have hne : y.1 ≠ x.1 := by
          intro e'
          have := hi.mxLoc m' y hy
          rw [e', hbx] at this
          injection this with this; injection this with this; exact e this.symm
        simp only [upd_ne _ _ hne]; exact hi.mxLoc m' y hy
    · intro m'
      by_cases e : m' = m
      · subst e; simpa using hnd.2
      · simpa [upd_ne _ _ e] using hi.mxNd m'
    · intro c y hy
      by_cases e : y.mutex = m
      · simp only [e, upd_same]
        intro h; injection h with h
        have := hi.cvLoc c y hy
        rw [← h, hbx] at this; cases this
      · simp only [upd_ne _ _ e]; exact hi.own c y hy
    · intro m' h
      by_cases e : m' = m
      · subst e; simp at h
      · simp only [upd_ne _ _ e] at h ⊢; exact hi.free m' h

/-- releasing only removes actors from queues -/
theorem out_release {s : ASt} {a : Aid} (m : Nat) (ho : Out s a) : Out (s.release m).1 a := by
  constructor
  · intro c x hx; rw [release_cv] at hx; exact ho.cv c x hx
  · intro m' x hx
    unfold ASt.release at hx
    split at hx
    · by_cases e : m' = m
      · subst e; simp at hx
      · simp only [upd_ne _ _ e] at hx; exact ho.mx m' x hx
    · rename_i y rest hq
      by_cases e : m' = m
      · subst e
        simp only [upd_same] at hx
        exact ho.mx m' x (by rw [hq]; exact List.mem_cons_of_mem _ hx)
      · simp only [upd_ne _ _ e] at hx; exact ho.mx m' x hx

/-- after a release the new owner (if any) was a blocked locker -/
theorem release_owner {s : ASt} {a : Aid} (m : Nat) (ho : Out s a) : ((s.release m).1.mx m).owner ≠ some a := by
  unfold ASt.release
  split
  · simp
  · rename_i x rest hq
    simp only [upd_same]
    intro h; injection h with h
    exact ho.mx m x (by rw [hq]; simp) h

/-- whoever is answered by a release was the head of the mutex FIFO and is the new owner -/
theorem release_out (s : ASt) (m : Nat) : ∀ x ∈ (s.release m).2,
    (∃ rest, (s.mx m).queue = x :: rest) ∧ ((s.release m).1.mx m).owner = some x.1 ∧ (s.release m).1.blk x.1 = none := by
  intro x hx
  unfold ASt.release at hx ⊢
  split at hx
  · simp at hx
  · rename_i y rest hq
    simp only [List.mem_singleton] at hx
    subst hx
    simp [hq]

/-! ### the waiters' queue -/

/-- a waiter enters the queue of `c` (it is in no queue, and does not own `m`) -/
theorem ainv_cvpush {s : ASt} {a : Aid} (c m : Nat) (t : Bool) (hi : AInv s) (ho : Out s a)
    (hown : (s.mx m).owner ≠ some a) :
    AInv { s with cv := upd s.cv c (s.cv c ++ [{ issuer := a, mutex := m, timed := t }]),
                  blk := upd s.blk a (some (.cv c)) } := by
  refine ⟨?_, ?_, ?_, hi.mxNd, ?_, hi.free⟩
  · intro c' x hx
    by_cases e : c' = c
    · subst e
      simp only [upd_same, List.mem_append, List.mem_singleton] at hx
      rcases hx with hx | rfl
      · simp only [upd_ne _ _ (ho.cv c' x hx)]; exact hi.cvLoc c' x hx
      · simp
    · simp only [upd_ne _ _ e] at hx
      simp only [upd_ne _ _ (ho.cv c' x hx)]; exact hi.cvLoc c' x hx
  · intro m' x hx
    simp only [upd_ne _ _ (ho.mx m' x hx)]; exact hi.mxLoc m' x hx
  · intro c'
    by_cases e : c' = c
    · subst e
      simp only [upd_same, List.map_append, List.map_cons, List.map_nil]
      rw [List.nodup_append]
      refine ⟨hi.cvNd c', by simp, ?_⟩
      intro y hy z hz
      simp only [List.mem_singleton] at hz; subst hz
      obtain ⟨x, hx, rfl⟩ := List.mem_map.mp hy
      exact ho.cv c' x hx
    · simpa [upd_ne _ _ e] using hi.cvNd c'
  · intro c' x hx
    by_cases e : c' = c
    · subst e
      simp only [upd_same, List.mem_append, List.mem_singleton] at hx
      rcases hx with hx | rfl
      · exact hi.own c' x hx
      · exact hown
    · simp only [upd_ne _ _ e] at hx; exact hi.own c' x hx

/-- waiters leave the queue of `c` (whatever `blk` says of them: the invariant is one-directional) -/
theorem ainv_cvshrink {s : ASt} (c : Nat) (q : List AWaiter) (hi : AInv s) (hsub : ∀ y ∈ q, y ∈ s.cv c)
    (hnd : (q.map (·.issuer)).Nodup) : AInv { s with cv := upd s.cv c q } := by
  refine ⟨?_, hi.mxLoc, ?_, hi.mxNd, ?_, hi.free⟩
  · intro c' x hx
    by_cases e : c' = c
    · subst e; simp only [upd_same] at hx; exact hi.cvLoc c' x (hsub x hx)
    · simp only [upd_ne _ _ e] at hx; exact hi.cvLoc c' x hx
  · intro c'
    by_cases e : c' = c
    · subst e; simpa using hnd
    · simpa [upd_ne _ _ e] using hi.cvNd c'
  · intro c' x hx
    by_cases e : c' = c
    · subst e; simp only [upd_same] at hx; exact hi.own c' x (hsub x hx)
    · simp only [upd_ne _ _ e] at hx; exact hi.own c' x hx

/-- the waiter `x` of `c`, once taken out of the queue of `c`, is in no queue -/
theorem out_removed {s : ASt} {c : Nat} {x : AWaiter} (q : List AWaiter) (hi : AInv s) (hx : x ∈ s.cv c)
    (hq : ∀ y ∈ q, y ∈ s.cv c ∧ y.issuer ≠ x.issuer) : Out { s with cv := upd s.cv c q } x.issuer := by
  have hbx := hi.cvLoc c x hx
  constructor
  · intro c' y hy
    by_cases e : c' = c
    · subst e; simp only [upd_same] at hy; exact (hq y hy).2
    · simp only [upd_ne _ _ e] at hy
      intro e'
      have := hi.cvLoc c' y hy
      rw [e', hbx] at this
      injection this with this; injection this with this; exact e this.symm
  · intro m y hy e'
    have := hi.mxLoc m y hy
    rw [e', hbx] at this; cases this

theorem eraseW_mem {a : Aid} {q : List AWaiter} {x : AWaiter} (h : x ∈ eraseW a q) : x ∈ q := by
  induction q with
  | nil => simp [eraseW] at h
  | cons y ys ih =>
    simp only [eraseW] at h
    split at h
    · exact List.mem_cons_of_mem _ h
    · rcases List.mem_cons.mp h with rfl | h'
      · exact List.mem_cons_self
      · exact List.mem_cons_of_mem _ (ih h')

theorem eraseW_nodup {a : Aid} {q : List AWaiter} (hnd : (q.map (·.issuer)).Nodup) :
    ((eraseW a q).map (·.issuer)).Nodup ∧ ∀ y ∈ eraseW a q, y.issuer ≠ a := by
  induction q with
  | nil => simp [eraseW]
  | cons x xs ih =>
    simp only [List.map_cons, List.nodup_cons] at hnd
    simp only [eraseW]
    split
    · rename_i hx
      refine ⟨hnd.2, ?_⟩
      intro y hy e
      exact hnd.1 (by rw [hx, ← e]; exact List.mem_map_of_mem hy)
    · rename_i hx
      obtain ⟨h1, h2⟩ := ih hnd.2
      refine ⟨?_, ?_⟩
      · simp only [List.map_cons, List.nodup_cons]
        refine ⟨?_, h1⟩
        intro hm
        obtain ⟨y, hy, hye⟩ := List.mem_map.mp hm
        exact hnd.1 (by rw [← hye]; exact List.mem_map_of_mem (eraseW_mem hy))
      · intro y hy
        rcases List.mem_cons.mp hy with rfl | hy
        · exact hx
        · exact h2 y hy

/-! ### one event, whole histories -/

theorem ainv_wakeList {c : Nat} : ∀ (ws : List AWaiter) {s : ASt}, AInv s → s.cv c = ws → AInv (s.wakeList c ws).1
  | [], _, hi, _ => hi
  | x :: rest, s, hi, hq => by
    simp only [ASt.wakeList]
    have hxm : x ∈ s.cv c := by rw [hq]; simp
    have hnd := hi.cvNd c
    rw [hq] at hnd
    simp only [List.map_cons, List.nodup_cons] at hnd
    have hsub : ∀ y ∈ rest, y ∈ s.cv c := fun y hy => by rw [hq]; exact List.mem_cons_of_mem _ hy
    have h1 := ainv_cvshrink c rest hi hsub hnd.2
    have ho := out_removed rest hi hxm (fun y hy => ⟨hsub y hy, fun e => hnd.1 (e ▸ List.mem_map_of_mem hy)⟩)
    have h2 := ainv_acquire x.mutex (.flag false) h1 ho
    exact ainv_wakeList rest h2 (by rw [acquire_cv]; simp)

theorem ainv_step {s s' : ASt} {e : CEv} {o : Outs} (hi : AInv s) (h : astep s e = .ok (s', o)) : AInv s' := by
  cases e with
  | lock a m =>
    simp only [astep] at h
    split at h
    · simp at h
    · rename_i hb
      split at h
      · simp at h
      · simp only [Except.ok.injEq] at h
        have h1 : s' = (s.acquire a m .unit).1 := by rw [h]
        rw [h1]
        exact ainv_acquire m .unit hi (out_of_unblocked hi (by simpa using hb))
  | tryLock a m =>
    simp only [astep] at h
    split at h
    · simp at h
    · rename_i hb
      have ho := out_of_unblocked hi (by simpa using hb)
      split at h
      · rename_i hown
        simp only [Except.ok.injEq, Prod.mk.injEq] at h
        obtain ⟨rfl, -⟩ := h
        refine ⟨hi.cvLoc, ?_, hi.cvNd, ?_, ?_, ?_⟩
        · intro m' x hx
          by_cases e : m' = m
          · subst e; simp only [upd_same] at hx; exact hi.mxLoc m' x hx
          · simp only [upd_ne _ _ e] at hx; exact hi.mxLoc m' x hx
        · intro m'
          by_cases e : m' = m
          · subst e; simpa using hi.mxNd m'
          · simpa [upd_ne _ _ e] using hi.mxNd m'
        · intro c x hx
          by_cases e : x.mutex = m
          · simp only [e, upd_same]
            intro h; injection h with h; exact ho.cv c x hx h.symm
          · simp only [upd_ne _ _ e]; exact hi.own c x hx
        · intro m' h
          by_cases e : m' = m
          · subst e; simp at h
          · simp only [upd_ne _ _ e] at h ⊢; exact hi.free m' h
      · simp only [Except.ok.injEq, Prod.mk.injEq] at h
        obtain ⟨rfl, -⟩ := h
        exact hi
  | unlock a m =>
    simp only [astep] at h
    split at h
    · simp at h
    · split at h
      · simp at h
      · simp only [Except.ok.injEq, Prod.mk.injEq] at h
        obtain ⟨rfl, -⟩ := h
        exact ainv_release m hi
  | wait a c m timed =>
    simp only [astep] at h
    split at h
    · simp at h
    · rename_i hb
      split at h
      · simp at h
      · simp only [Except.ok.injEq, Prod.mk.injEq] at h
        obtain ⟨rfl, -⟩ := h
        have ho := out_of_unblocked hi (by simpa using hb)
        exact ainv_cvpush c m timed (ainv_release m hi) (out_release m ho) (release_owner m ho)
  | notifyOne a c =>
    simp only [astep] at h
    split at h
    · simp at h
    · split at h
      · simp only [Except.ok.injEq, Prod.mk.injEq] at h
        obtain ⟨rfl, -⟩ := h
        exact hi
      · rename_i x rest hq
        simp only [Except.ok.injEq, Prod.mk.injEq] at h
        obtain ⟨rfl, -⟩ := h
        have hxm : x ∈ s.cv c := by rw [hq]; simp
        have hnd := hi.cvNd c
        rw [hq] at hnd
        simp only [List.map_cons, List.nodup_cons] at hnd
        have hsub : ∀ y ∈ rest, y ∈ s.cv c := fun y hy => by rw [hq]; exact List.mem_cons_of_mem _ hy
        have h1 := ainv_cvshrink c rest hi hsub hnd.2
        have ho := out_removed rest hi hxm (fun y hy => ⟨hsub y hy, fun e => hnd.1 (e ▸ List.mem_map_of_mem hy)⟩)
        exact ainv_acquire x.mutex (.flag false) h1 ho
  | notifyAll a c =>
    simp only [astep] at h
    split at h
    · simp at h
    · simp only [Except.ok.injEq, Prod.mk.injEq] at h
      obtain ⟨rfl, -⟩ := h
      exact ainv_wakeList _ hi rfl
  | timeout a c =>
    simp only [astep] at h
    split at h
    · simp at h
    · rename_i x hf
      simp only [Except.ok.injEq] at h
      have h1 : s' = (({ s with cv := upd s.cv c (eraseW a (s.cv c)) } : ASt).acquire a x.mutex (.flag true)).1 := by
        rw [h]
      rw [h1]
      have hxm := List.mem_of_find?_eq_some hf
      have hxa : x.issuer = a := by
        have := List.find?_some hf
        simp only [decide_eq_true_eq] at this
        exact this.1
      obtain ⟨n1, n2⟩ := eraseW_nodup (a := a) (hi.cvNd c)
      have h1 := ainv_cvshrink c (eraseW a (s.cv c)) hi (fun y hy => eraseW_mem hy) n1
      have ho := out_removed (eraseW a (s.cv c)) hi hxm (fun y hy => ⟨eraseW_mem hy, by rw [hxa]; exact n2 y hy⟩)
      rw [hxa] at ho
      exact ainv_acquire x.mutex (.flag true) h1 ho

theorem ainv_run (es : List CEv) : ∀ {s s' : ASt} {o : Outs}, AInv s → arun s es = .ok (s', o) → AInv s' := by
  induction es with
  | nil => intro s s' o hi h; simp [arun] at h; obtain ⟨rfl, -⟩ := h; exact hi
  | cons e es ih =>
    intro s s' o hi h
    simp only [arun] at h
    split at h
    · simp at h
    · rename_i s1 o1 he
      split at h
      · simp at h
      · rename_i s2 o2 hr
        simp only [Except.ok.injEq, Prod.mk.injEq] at h
        obtain ⟨rfl, -⟩ := h
        exact ih (ainv_step hi he) hr

theorem ainv_pop_acquire {s : ASt} {c : Nat} {x : AWaiter} {rest : List AWaiter} (r : Res) (hi : AInv s)
    (hq : s.cv c = x :: rest) :
    AInv (({ s with cv := upd s.cv c rest } : ASt).acquire x.issuer x.mutex r).1 := by
  have hxm : x ∈ s.cv c := by rw [hq]; simp
  have hnd := hi.cvNd c
  rw [hq] at hnd
  simp only [List.map_cons, List.nodup_cons] at hnd
  have hsub : ∀ y ∈ rest, y ∈ s.cv c := fun y hy => by rw [hq]; exact List.mem_cons_of_mem _ hy
  have h1 := ainv_cvshrink c rest hi hsub hnd.2
  have ho := out_removed rest hi hxm (fun y hy => ⟨hsub y hy, fun e => hnd.1 (e ▸ List.mem_map_of_mem hy)⟩)
  exact ainv_acquire x.mutex r h1 ho


/-! ### who is answered, and what it owns then

`waitsFor` = the mutex a blocked actor is waiting for (C06/Spec.lean). -/

theorem find_unique {l : List AWaiter} {x : AWaiter} (hnd : (l.map (·.issuer)).Nodup) (hx : x ∈ l) :
    l.find? (fun y => decide (y.issuer = x.issuer)) = some x := by
  induction l with
  | nil => simp at hx
  | cons y ys ih =>
    simp only [List.map_cons, List.nodup_cons] at hnd
    simp only [List.find?_cons]
    rcases List.mem_cons.mp hx with rfl | hx
    · simp
    · have : y.issuer ≠ x.issuer := fun e => hnd.1 (e ▸ List.mem_map_of_mem hx)
      simp [this, ih hnd.2 hx]

theorem waitsFor_cv {s : ASt} (hi : AInv s) {c : Nat} {x : AWaiter} (hx : x ∈ s.cv c) :
    s.waitsFor x.issuer = some x.mutex := by
  unfold ASt.waitsFor
  rw [hi.cvLoc c x hx]
  simp [find_unique (hi.cvNd c) hx]

theorem waitsFor_mx {s : ASt} (hi : AInv s) {m : Nat} {x : Aid × Res} (hx : x ∈ (s.mx m).queue) :
    s.waitsFor x.1 = some m := by
  unfold ASt.waitsFor
  rw [hi.mxLoc m x hx]

theorem waitsFor_none {s : ASt} {a : Aid} (hb : s.blk a = none) : s.waitsFor a = none := by
  unfold ASt.waitsFor
  rw [hb]

theorem acquire_queue_mono (s : ASt) (a : Aid) (m : Nat) (r : Res) (m' : Nat) (y : Aid × Res)
    (h : y ∈ (s.mx m').queue) : y ∈ ((s.acquire a m r).1.mx m').queue := by
  unfold ASt.acquire
  split
  · by_cases e : m' = m
    · subst e; simpa using h
    · simpa [upd_ne _ _ e] using h
  · by_cases e : m' = m
    · subst e; simp [h]
    · simpa [upd_ne _ _ e] using h

theorem wakeList_owner_keep (c m' : Nat) (b : Aid) : ∀ (ws : List AWaiter) (s : ASt), (s.mx m').owner = some b →
    ((s.wakeList c ws).1.mx m').owner = some b
  | [], _, h => h
  | x :: rest, s, h => by
    simp only [ASt.wakeList]
    exact wakeList_owner_keep c m' b rest _ (acquire_owner_keep _ x.issuer x.mutex (.flag false) m' b h)

theorem wakeList_queue_mono (c m' : Nat) (y : Aid × Res) : ∀ (ws : List AWaiter) (s : ASt), y ∈ (s.mx m').queue →
    y ∈ ((s.wakeList c ws).1.mx m').queue
  | [], _, h => h
  | x :: rest, s, h => by
    simp only [ASt.wakeList]
    exact wakeList_queue_mono c m' y rest _ (acquire_queue_mono _ x.issuer x.mutex (.flag false) m' y h)

/-- after waking the whole queue of `c`, that queue is empty and the other queues are untouched -/
theorem wakeList_cv (c : Nat) : ∀ (ws : List AWaiter) (s : ASt), s.cv c = ws →
    (s.wakeList c ws).1.cv c = [] ∧ ∀ c', c' ≠ c → (s.wakeList c ws).1.cv c' = s.cv c'
  | [], _, h => ⟨h, fun _ _ => rfl⟩
  | x :: rest, s, _ => by
    simp only [ASt.wakeList]
    obtain ⟨h1, h2⟩ := wakeList_cv c rest
      (({ s with cv := upd s.cv c rest } : ASt).acquire x.issuer x.mutex (.flag false)).1 (by rw [acquire_cv]; simp)
    refine ⟨h1, ?_⟩
    intro c' hc
    rw [h2 c' hc, acquire_cv]
    simp [upd_ne _ _ hc]

/-- notify_all answers only waiters of that moment, each with `false` (no timeout), each owning its mutex at the end -/
theorem wakeList_outs (c : Nat) : ∀ (ws : List AWaiter) (s : ASt), AInv s → s.cv c = ws →
    ∀ y ∈ (s.wakeList c ws).2, ∃ x ∈ ws, y = (x.issuer, .flag false) ∧
      ((s.wakeList c ws).1.mx x.mutex).owner = some x.issuer
  | [], _, _, _ => by intro y hy; simp [ASt.wakeList] at hy
  | x :: rest, s, hi, hq => by
    intro y hy
    simp only [ASt.wakeList, List.mem_append] at hy ⊢
    rcases hy with hy | hy
    · obtain ⟨h1, -, h3, -⟩ := acquire_out _ x.issuer x.mutex (.flag false) y hy
      exact ⟨x, by simp, h1, wakeList_owner_keep c x.mutex x.issuer rest _ h3⟩
    · obtain ⟨x', hx', h1, h2⟩ := wakeList_outs c rest _ (ainv_pop_acquire (.flag false) hi hq)
        (by rw [acquire_cv]; simp) y hy
      exact ⟨x', List.mem_cons_of_mem _ hx', h1, h2⟩

/-- notify_all reaches every waiter of that moment: it returns owning its mutex, or sits in the FIFO of its mutex
with its (non-timeout) result attached -/
theorem wakeList_all (c : Nat) : ∀ (ws : List AWaiter) (s : ASt), AInv s → s.cv c = ws →
    ∀ x ∈ ws, ((x.issuer, Res.flag false) ∈ (s.wakeList c ws).2 ∧
        ((s.wakeList c ws).1.mx x.mutex).owner = some x.issuer) ∨
      (x.issuer, Res.flag false) ∈ ((s.wakeList c ws).1.mx x.mutex).queue
  | [], _, _, _ => by intro x hx; simp at hx
  | x0 :: rest, s, hi, hq => by
    intro x hx
    simp only [ASt.wakeList, List.mem_append]
    rcases List.mem_cons.mp hx with rfl | hx
    · cases hown : (({ s with cv := upd s.cv c rest } : ASt).mx x.mutex).owner with
      | none =>
        obtain ⟨h1, -, h3, -⟩ := acquire_free _ x.issuer x.mutex (.flag false) hown
        left
        exact ⟨Or.inl (by rw [h1]; simp), wakeList_owner_keep c x.mutex x.issuer rest _ h3⟩
      | some o =>
        obtain ⟨-, h2, -, -⟩ := acquire_queued _ x.issuer x.mutex (.flag false) o hown
        right
        exact wakeList_queue_mono c x.mutex _ rest _ (by rw [h2]; simp)
    · rcases wakeList_all c rest _ (ainv_pop_acquire (.flag false) hi hq) (by rw [acquire_cv]; simp) x hx with h | h
      · exact Or.inl ⟨Or.inr h.1, h.2⟩
      · exact Or.inr h

/-- **Whoever is answered while blocked owns, in the resulting state, the mutex it was waiting for** — the mutex of its
`lock`, or the mutex of its condition-variable wait: a woken or timed-out waiter returns only once it has re-acquired
its mutex (at once when the mutex is free — then nobody is queued on it, `AInv.free` — else by the hand-off of an
unlock, after having queued at the tail of the mutex FIFO). -/
theorem awake_owner {s s' : ASt} {e : CEv} {o : Outs} (hi : AInv s) (hs : astep s e = .ok (s', o)) :
    ∀ y ∈ o, ∀ m, s.waitsFor y.1 = some m → (s'.mx m).owner = some y.1 := by
  intro y hy m hm
  cases e with
  | lock a m0 =>
    simp only [astep] at hs
    split at hs
    · simp at hs
    · rename_i hb
      split at hs
      · simp at hs
      · simp only [Except.ok.injEq] at hs
        have ho : o = (s.acquire a m0 .unit).2 := by rw [hs]
        rw [ho] at hy
        obtain ⟨h1, -⟩ := acquire_out _ _ _ _ y hy
        rw [h1, waitsFor_none (by simpa using hb)] at hm
        cases hm
  | tryLock a m0 =>
    simp only [astep] at hs
    split at hs
    · simp at hs
    · rename_i hb
      have hbn : s.blk a = none := by simpa using hb
      split at hs <;>
      · simp only [Except.ok.injEq, Prod.mk.injEq] at hs
        obtain ⟨-, rfl⟩ := hs
        simp only [List.mem_singleton] at hy
        rw [hy, waitsFor_none hbn] at hm
        cases hm
  | unlock a m0 =>
    simp only [astep] at hs
    split at hs
    · simp at hs
    · rename_i hb
      split at hs
      · simp at hs
      · simp only [Except.ok.injEq, Prod.mk.injEq] at hs
        obtain ⟨rfl, rfl⟩ := hs
        rcases List.mem_append.mp hy with hy | hy
        · obtain ⟨⟨rest, hq⟩, h2, -⟩ := release_out s m0 y hy
          have := waitsFor_mx hi (m := m0) (x := y) (by rw [hq]; simp)
          rw [this] at hm
          injection hm with hm; subst hm
          exact h2
        · simp only [List.mem_singleton] at hy
          rw [hy, waitsFor_none (by simpa using hb)] at hm
          cases hm
  | wait a c m0 timed =>
    simp only [astep] at hs
    split at hs
    · simp at hs
    · split at hs
      · simp at hs
      · simp only [Except.ok.injEq, Prod.mk.injEq] at hs
        obtain ⟨rfl, rfl⟩ := hs
        obtain ⟨⟨rest, hq⟩, h2, -⟩ := release_out s m0 y hy
        have := waitsFor_mx hi (m := m0) (x := y) (by rw [hq]; simp)
        rw [this] at hm
        injection hm with hm; subst hm
        exact h2
  | notifyOne a c =>
    simp only [astep] at hs
    split at hs
    · simp at hs
    · rename_i hb
      have hbn : s.blk a = none := by simpa using hb
      split at hs
      · simp only [Except.ok.injEq, Prod.mk.injEq] at hs
        obtain ⟨-, rfl⟩ := hs
        simp only [List.mem_singleton] at hy
        rw [hy, waitsFor_none hbn] at hm
        cases hm
      · rename_i x rest hq
        simp only [Except.ok.injEq, Prod.mk.injEq] at hs
        obtain ⟨rfl, rfl⟩ := hs
        rcases List.mem_append.mp hy with hy | hy
        · obtain ⟨h1, -, h3, -⟩ := acquire_out _ _ _ _ y hy
          have := waitsFor_cv hi (c := c) (x := x) (by rw [hq]; simp)
          rw [h1] at hm ⊢
          rw [this] at hm
          injection hm with hm; subst hm
          exact h3
        · simp only [List.mem_singleton] at hy
          rw [hy, waitsFor_none hbn] at hm
          cases hm
  | notifyAll a c =>
    simp only [astep] at hs
    split at hs
    · simp at hs
    · rename_i hb
      simp only [Except.ok.injEq, Prod.mk.injEq] at hs
      obtain ⟨rfl, rfl⟩ := hs
      rcases List.mem_append.mp hy with hy | hy
      · obtain ⟨x, hx, h1, h2⟩ := wakeList_outs c (s.cv c) s hi rfl y hy
        have := waitsFor_cv hi hx
        rw [h1] at hm ⊢
        rw [this] at hm
        injection hm with hm; subst hm
        exact h2
      · simp only [List.mem_singleton] at hy
        rw [hy, waitsFor_none (by simpa using hb)] at hm
        cases hm
  | timeout a c =>
    simp only [astep] at hs
    split at hs
    · simp at hs
    · rename_i x hf
      simp only [Except.ok.injEq] at hs
      have hxm := List.mem_of_find?_eq_some hf
      have hxa : x.issuer = a := by
        have := List.find?_some hf
        simp only [decide_eq_true_eq] at this
        exact this.1
      have ho : o = (({ s with cv := upd s.cv c (eraseW a (s.cv c)) } : ASt).acquire a x.mutex (.flag true)).2 := by
        rw [hs]
      have hs' : s' = (({ s with cv := upd s.cv c (eraseW a (s.cv c)) } : ASt).acquire a x.mutex (.flag true)).1 := by
        rw [hs]
      rw [ho] at hy
      obtain ⟨h1, -, h3, -⟩ := acquire_out _ _ _ _ y hy
      have := waitsFor_cv hi hxm
      rw [h1] at hm ⊢
      rw [← hxa, this] at hm
      injection hm with hm; subst hm
      rw [hs']; exact h3

/-! ### the order in which notify_all queues the waiters on their mutexes -/

theorem acquire_mx_other (s : ASt) (a : Aid) (m : Nat) (r : Res) (m' : Nat) (h : m' ≠ m) :
    (s.acquire a m r).1.mx m' = s.mx m' := by
  unfold ASt.acquire
  split <;> simp [upd_ne _ _ h]

/-- after notify_all, the FIFO of every mutex `m` = its old FIFO followed by the woken waiters that wait with `m`, in
waiting order — minus the first of them when `m` was free (that one takes it and returns); and a busy mutex keeps its
owner -/
theorem wakeList_queue (c m : Nat) : ∀ (ws : List AWaiter) (s : ASt),
    ((s.wakeList c ws).1.mx m).queue =
      (s.mx m).queue ++ (((ws.filter (fun x => decide (x.mutex = m))).map (fun x => (x.issuer, Res.flag false))).drop
        (if (s.mx m).owner = none then 1 else 0))
  | [], s => by simp [ASt.wakeList]
  | x :: rest, s => by
    simp only [ASt.wakeList]
    rw [wakeList_queue c m rest]
    by_cases hxm : x.mutex = m
    · subst hxm
      cases hown : (s.mx x.mutex).owner with
      | none =>
        have hf : (({ s with cv := upd s.cv c rest } : ASt).mx x.mutex).owner = none := hown
        obtain ⟨-, h2, h3, -⟩ := acquire_free _ x.issuer x.mutex (.flag false) hf
        rw [h2, h3]
        simp
      | some o =>
        have hf : (({ s with cv := upd s.cv c rest } : ASt).mx x.mutex).owner = some o := hown
        obtain ⟨-, h2, h3, -⟩ := acquire_queued _ x.issuer x.mutex (.flag false) o hf
        rw [h2, h3]
        simp
    · have hne : m ≠ x.mutex := fun e => hxm e.symm
      rw [acquire_mx_other _ x.issuer x.mutex (.flag false) m hne]
      simp [hxm]

end SgVerif.C06
