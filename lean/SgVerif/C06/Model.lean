/-
C06 — condition variables.  The executable model is the shared one (SgVerif/Sync/Model.lean):
  condAcquireAsync  = ConditionVariableImpl::acquire_async (assert ownership, unlock the mutex, enqueue)
  condSignal        = ConditionVariableImpl::signal  (pop the head; if its simcall is registered, finish())
  condBroadcast     = ConditionVariableImpl::broadcast (`while (not empty) signal()`)
  condRelock        = the end of ConditionVariableAcquisitionImpl::finish() on the CONDVAR_NOMC path:
                      `mutex->lock_async(issuer)->wait_for(issuer, -1)` — the waiter queues FIFO behind current lockers
  World.step (.condWait / .condTimeout / .signal / .broadcast / .condAsync / .condWaitMC)
This file only adds the small world used by the examples.  No Mathlib.
-/
import SgVerif.Sync.Model
namespace SgVerif.C06
open SgVerif.Sync

/-- a world with non-recursive mutexes, empty semaphores and condition variables -/
def w0 : World :=
  { mutexes := fun _ => { recursive := false }, sems := fun _ => { value := 0 }, conds := fun _ => {},
    bars := fun _ => { expected := 1 }, hgrant := fun _ => false }

/-- observable summary of cond c / mutex m after a history: (cond queue, mutex owner, mutex queue, outputs) -/
def observe (evs : List Ev) (c m : Nat) : Option (List Aid × Option Aid × List Aid × Outs) :=
  (w0.run evs).toOption.map fun r =>
    (((r.1.conds c).queue.map (·.issuer)), (r.1.mutexes m).owner, ((r.1.mutexes m).queue.map (·.issuer)), r.2)

end SgVerif.C06
