/-
C06 — Condition variable semantics.

Every theorem below is about the transliterated kernel functions at an ARBITRARY world state (any number of actors,
condition variables and mutexes, any queues), hence for every history that leads to that state.
notify_one/notify_all are single simcalls, so "the waiters at that moment" is the queue in the state they run in.
Timeouts: "the timeout action of a's wait finishes" is the explicit input event `condTimeout` (the clock is not in the
model; the correspondence driver feeds the event at call + t exactly).  MC split path: CONDVAR_ASYNC_LOCK /
CONDVAR_WAIT / MUTEX_WAIT are modelled and checked by correspondence (no timeout under MC: `mc_timeout_` not modelled).
-/
import SgVerif.C06.Model
import SgVerif.C04.Lemmas
namespace SgVerif.C06
open SgVerif.Sync

@[simp] theorem upd_same {β : Type} (f : Nat → β) (i : Nat) (v : β) : upd f i v i = v := by simp [upd]

theorem waitFor_some {m : Mutex} {a : Aid} {r r' : Res} (h : (m.waitFor a r).2 = some r') :
    r' = r ∧ m.owner = some a ∧ (m.waitFor a r).1 = m := by
  unfold Mutex.waitFor at h ⊢
  split at h
  · rename_i ho
    simp only [Option.some.injEq] at h
    simp [h, ho]
  · simp at h

theorem condRelock_conds (w : World) (a : Aid) (m : Nat) (t : Bool) : (condRelock w a m t).1.conds = w.conds := by
  simp [condRelock]

/-- notify_one with nobody waiting is lost: no state change at all, nobody answered -/
theorem notify_one_lost_if_none (w : World) (c : Nat) (h : (w.conds c).queue = []) : condSignal w c = (w, []) := by
  simp [condSignal, h]

/-- notify_one removes exactly the head of the queue — the longest waiter, since waits are appended at the tail
(`wait_enqueues_at_tail`) — and leaves the others in order. -/
theorem notify_one_wakes_longest_waiter (w : World) (c : Nat) (acq : CAcq) (rest : List CAcq)
    (h : (w.conds c).queue = acq :: rest) : ((condSignal w c).1.conds c).queue = rest := by
  simp only [condSignal, h]
  split
  · rw [condRelock_conds]; simp
  · simp

theorem wait_enqueues_at_tail (w w' : World) (a : Aid) (c m : Nat) (o : Outs)
    (h : condAcquireAsync w a c m = .ok (w', o)) :
    (w'.conds c).queue = (w.conds c).queue ++ [{ issuer := a, mutex := m }] := by
  unfold condAcquireAsync at h
  split at h
  · simp at h
  · simp only [Except.ok.injEq, Prod.mk.injEq] at h
    obtain ⟨rfl, -⟩ := h
    simp

/-- a wait on a mutex the caller does not own is the assertion failure -/
theorem wait_requires_ownership (w : World) (a : Aid) (c m : Nat) (h : (w.mutexes m).owner ≠ some a) :
    condAcquireAsync w a c m = .error .assertNotOwner := by
  simp [condAcquireAsync, SgVerif.C04.unlock_notOwner h]

theorem broadcastN_empties (n : Nat) : ∀ (w : World) (c : Nat), (w.conds c).queue.length ≤ n →
    ((condBroadcastN n w c).1.conds c).queue = [] := by
  induction n with
  | zero => intro w c h; simp only [condBroadcastN]; exact List.eq_nil_of_length_eq_zero (by omega)
  | succ n ih =>
    intro w c h
    simp only [condBroadcastN]
    split
    · rename_i he; simpa using he
    · rename_i he
      cases hq : (w.conds c).queue with
      | nil => simp [hq] at he
      | cons acq rest =>
        have h1 := notify_one_wakes_longest_waiter w c acq rest hq
        have : ((condSignal w c).1.conds c).queue.length ≤ n := by
          rw [h1]; rw [hq] at h; simp at h; omega
        exact ih (condSignal w c).1 c this

/-- notify_all wakes every actor waiting at that moment: afterwards the queue is empty -/
theorem notify_all_empties_queue (w : World) (c : Nat) : ((condBroadcast w c).1.conds c).queue = [] :=
  broadcastN_empties _ w c (Nat.le_refl _)

theorem condSignal_outs_from_queue (w : World) (c : Nat) :
    ∀ x ∈ (condSignal w c).2, x.1 ∈ (w.conds c).queue.map (·.issuer) ∧ x.2 = .flag false := by
  intro x hx
  unfold condSignal at hx
  split at hx
  · simp at hx
  · rename_i acq rest hq
    split at hx
    · simp only [condRelock, optOut] at hx
      split at hx
      · rename_i r hr
        simp only [List.mem_singleton] at hx
        subst hx
        have := (waitFor_some (by simpa [Mutex.lock] using hr)).1
        simp [hq, this]
      · simp at hx
    · simp at hx

theorem broadcastN_outs (n : Nat) : ∀ (w : World) (c : Nat),
    ∀ x ∈ (condBroadcastN n w c).2, x.1 ∈ (w.conds c).queue.map (·.issuer) ∧ x.2 = .flag false := by
  induction n with
  | zero => intro w c x hx; simp [condBroadcastN] at hx
  | succ n ih =>
    intro w c x hx
    simp only [condBroadcastN] at hx
    split at hx
    · simp at hx
    · cases hq : (w.conds c).queue with
      | nil => rename_i he; simp [hq] at he
      | cons acq rest =>
        simp only [List.mem_append] at hx
        rcases hx with hx | hx
        · have := condSignal_outs_from_queue w c x hx
          rw [hq] at this; exact this
        · have h1 := notify_one_wakes_longest_waiter w c acq rest hq
          have := ih (condSignal w c).1 c x hx
          rw [h1] at this
          exact ⟨by simp only [List.map_cons, List.mem_cons]; exact .inr this.1, this.2⟩

/-- notify_all wakes ONLY actors waiting at that moment (and none of them reports a timeout) -/
theorem notify_all_wakes_only_current_waiters (w : World) (c : Nat) :
    ∀ x ∈ (condBroadcast w c).2, x.1 ∈ (w.conds c).queue.map (·.issuer) ∧ x.2 = .flag false :=
  broadcastN_outs _ w c

/-- A woken or timed-out waiter returns only after re-acquiring its mutex: whenever the re-lock at the end of
finish() answers the waiter, the waiter is the owner of its mutex in the resulting state. -/
theorem wait_returns_holding_mutex (w : World) (a : Aid) (m : Nat) (t : Bool) :
    ∀ x ∈ (condRelock w a m t).2, x = (a, .flag t) ∧ ((condRelock w a m t).1.mutexes m).owner = some a := by
  intro x hx
  simp only [condRelock, optOut] at hx ⊢
  split at hx
  · rename_i r hr
    have h3 := waitFor_some (by simpa [Mutex.lock] using hr)
    simp only [List.mem_singleton] at hx
    refine ⟨by rw [hx, h3.1], ?_⟩
    simp only [upd_same, Mutex.lock]
    rw [h3.2.2]
    exact h3.2.1
  · simp at hx

/-- ... and when it is not answered now it is queued FIFO behind the current lockers of a busy mutex, registered, and
will be answered (with its timeout flag) by the hand-off of MutexImpl::unlock (C04 `handoff_to_head`). -/
theorem relock_queues_behind_lockers (w : World) (a o : Aid) (m : Nat) (t : Bool)
    (ho : (w.mutexes m).owner = some o) (hne : o ≠ a)
    (hq : (w.mutexes m).queue.any (fun q => decide (q.issuer = a)) = false) :
    (condRelock w a m t).2 = [] ∧
    ((condRelock w a m t).1.mutexes m).queue =
      (w.mutexes m).queue ++ [{ issuer := a, depth := 1, waited := true, res := .flag t }] := by
  have hl := SgVerif.C04.lock_queue ho hne hq
  have hne' : ¬ (some o = some a) := by simpa using hne
  have hm := SgVerif.C04.markLast_append a (.flag t) (w.mutexes m).queue 1 false .unit
  unfold condRelock Mutex.lock
  rw [hl]
  simp only [Mutex.waitFor, ho, hne', if_false, optOut, upd_same, hm, and_self]

/-- wait_for reports a timeout iff its timer fired before a notification: the timer event answers with `true` and
removes the waiter from the queue (a later notify cannot reach it); notifications answer with `false`
(`notify_all_wakes_only_current_waiters`, `condSignal_outs_from_queue`); the timer event exists only for an
acquisition that is still in the queue, i.e. not notified. -/
theorem wait_for_timeout_iff (w w' : World) (a : Aid) (c : Nat) (o : Outs)
    (h : condTimeoutStep w a c = .ok (w', o)) :
    (∃ q ∈ (w.conds c).queue, q.issuer = a ∧ q.waited = true ∧ q.timed = true) ∧
    (w'.conds c).queue = eraseC a (w.conds c).queue ∧ (∀ x ∈ o, x.2 = .flag true) := by
  unfold condTimeoutStep at h
  split at h
  · simp at h
  · rename_i acq hf
    simp only [Except.ok.injEq] at h
    have hmem := List.mem_of_find?_eq_some hf
    have hp := List.find?_some hf
    simp only [decide_eq_true_eq] at hp
    have hw : w' = (condRelock { w with conds := upd w.conds c { queue := eraseC a (w.conds c).queue } } a acq.mutex true).1 := by
      rw [h]
    have ho : o = (condRelock { w with conds := upd w.conds c { queue := eraseC a (w.conds c).queue } } a acq.mutex true).2 := by
      rw [h]
    refine ⟨⟨acq, hmem, hp.1, hp.2.1, hp.2.2⟩, ?_, ?_⟩
    · rw [hw, condRelock_conds]; simp
    · intro x hx
      rw [ho] at hx
      have := wait_returns_holding_mutex _ a acq.mutex true x hx
      rw [this.1]

theorem step_condTimeout (w : World) (a : Aid) (c : Nat) : w.step (.condTimeout a c) = condTimeoutStep w a c := rfl

/-! ### non-vacuity (concrete histories through World.run) -/

/-- signal with no waiter is lost; then 1 and 2 wait; notify_one wakes 1 (the longest waiter), who re-acquires the
free mutex; 2 still waits -/
example : observe [.signal 0 0, .lock 1 0, .condWait 1 0 0 false, .lock 2 0, .condWait 2 0 0 false, .signal 0 0] 0 0 =
    some ([2], some 1, [], [(0, .unit), (1, .unit), (2, .unit), (1, .flag false), (0, .unit)]) := by decide

/-- broadcast with two waiters while a third actor (3) holds the mutex: both queue behind it in waiting order and
return only at the hand-offs -/
example : observe [.lock 1 0, .condWait 1 0 0 false, .lock 2 0, .condWait 2 0 0 true, .lock 3 0, .broadcast 0 0,
                   .unlock 3 0] 0 0 =
    some ([], some 1, [2], [(1, .unit), (2, .unit), (3, .unit), (0, .unit), (1, .flag false), (3, .unit)]) := by decide

/-- a timed wait whose timer fires: timeout reported, after re-acquiring the mutex -/
example : observe [.lock 1 0, .condWait 1 0 0 true, .condTimeout 1 0, .signal 0 0] 0 0 =
    some ([], some 1, [], [(1, .unit), (1, .flag true), (0, .unit)]) := by decide

end SgVerif.C06
