/-
C06 — Condition variable semantics.

Part 1 (older, step level): theorems about the transliterated kernel functions at an ARBITRARY world state (any number of actors,
condition variables and mutexes, any queues), hence for every history that leads to that state.
notify_one/notify_all are single simcalls, so "the waiters at that moment" is the queue in the state they run in.
Timeouts: "the timeout action of a's wait finishes" is the explicit input event `condTimeout` (the clock is not in the
model; the correspondence driver feeds the event at call + t exactly).  MC split path: CONDVAR_ASYNC_LOCK /
CONDVAR_WAIT / MUTEX_WAIT are modelled and checked by correspondence (no timeout under MC: `mc_timeout_` not modelled).

Part 2 (history level, end of the file): REFINEMENT to the abstract condition variable of C06/Spec.lean (state: per
condition variable the FIFO of waiters with their mutexes; per mutex its owner and the FIFO of blocked lockers).
`cond_refines_spec`: every history of lock / try_lock / unlock / wait / wait_for / notify_one / notify_all / timer events
accepted by the abstract machine is executed by the implementation model with the same answers in the same order and
related states (`Abs`), and the invariant `AInv` holds (`impl_step_is_spec_step`, `spec_error_is_impl_error`: the
converse direction and the error branches).  On top of it, at EVERY state reached by a history:
`notify_one_wakes_exactly_head`, `notify_all_wakes_exactly_current_waiters`, `notify_all_mutex_fifo_order`,
`timeout_wakes_only_its_waiter`,
`wait_returns_holding_mutex_hist` (whoever is answered while blocked owns the mutex it waited for),
`free_mutex_has_no_waiter` (a waiter that re-acquires a free mutex overtakes nobody).
Domain: non-recursive mutexes (world `w0`); events of blocked actors and the re-lock of a mutex by its owner are outside
(`illFormed` in the abstract machine).
-/
import SgVerif.C06.Refine
namespace SgVerif.C06
open SgVerif.Sync

theorem waitFor_some {m : Mutex} {a : Aid} {r r' : Res} {g : Bool} (h : (m.waitFor a r g).2 = some r') :
    r' = r ∧ g = true ∧ (m.waitFor a r g).1 = m := by
  unfold Mutex.waitFor at h ⊢
  split at h
  · rename_i hg
    simp only [Option.some.injEq] at h
    simp [h, hg]
  · simp at h

/-- a granted `lock_async` made its caller the owner (free mutex, or recursive mutex already owned by the caller) -/
theorem lockAsync_granted_owner (m : Mutex) (a : Aid) (h : (m.lockAsync a).2 = true) :
    (m.lockAsync a).1.owner = some a := by
  unfold Mutex.lockAsync at h ⊢
  repeat' split
  all_goals simp_all

theorem condRelock_conds (w : World) (a : Aid) (m : Nat) (t : Bool) : (condRelock w a m t).1.conds = w.conds := by
  simp [condRelock]

/-- notify_one with nobody waiting is lost: no state change at all, nobody answered -/
theorem notify_one_lost_if_none (w : World) (c : Nat) (h : (w.conds c).queue = []) : condSignal w c = (w, []) := by
  simp [condSignal, h]

/-- notify_one removes exactly the head of the queue — the longest waiter, since waits are appended at the tail
(`wait_enqueues_at_tail`) — and leaves the others in order. -/
theorem notify_one_wakes_longest_waiter (w : World) (c : Nat) (acq : CAcq) (rest : List CAcq)
    (h : (w.conds c).queue = acq :: rest) : ((condSignal w c).1.conds c).queue = rest := by
  simp only [condSignal, h]
  split
  · rw [condRelock_conds]; simp
  · simp

theorem wait_enqueues_at_tail (w w' : World) (a : Aid) (c m : Nat) (o : Outs)
    (h : condAcquireAsync w a c m = .ok (w', o)) :
    (w'.conds c).queue = (w.conds c).queue ++ [{ issuer := a, mutex := m }] := by
  unfold condAcquireAsync at h
  split at h
  · simp at h
  · simp only [Except.ok.injEq, Prod.mk.injEq] at h
    obtain ⟨rfl, -⟩ := h
    simp

/-- a wait on a mutex the caller does not own is the assertion failure -/
theorem wait_requires_ownership (w : World) (a : Aid) (c m : Nat) (h : (w.mutexes m).owner ≠ some a) :
    condAcquireAsync w a c m = .error .assertNotOwner := by
  simp [condAcquireAsync, SgVerif.C04.unlock_notOwner h]

theorem broadcastN_empties (n : Nat) : ∀ (w : World) (c : Nat), (w.conds c).queue.length ≤ n →
    ((condBroadcastN n w c).1.conds c).queue = [] := by
  induction n with
  | zero => intro w c h; simp only [condBroadcastN]; exact List.eq_nil_of_length_eq_zero (by omega)
  | succ n ih =>
    intro w c h
    simp only [condBroadcastN]
    split
    · rename_i he; simpa using he
    · rename_i he
      cases hq : (w.conds c).queue with
      | nil => simp [hq] at he
      | cons acq rest =>
        have h1 := notify_one_wakes_longest_waiter w c acq rest hq
        have : ((condSignal w c).1.conds c).queue.length ≤ n := by
          rw [h1]; rw [hq] at h; simp at h; omega
        exact ih (condSignal w c).1 c this

/-- notify_all wakes every actor waiting at that moment: afterwards the queue is empty -/
theorem notify_all_empties_queue (w : World) (c : Nat) : ((condBroadcast w c).1.conds c).queue = [] :=
  broadcastN_empties _ w c (Nat.le_refl _)

theorem condSignal_outs_from_queue (w : World) (c : Nat) :
    ∀ x ∈ (condSignal w c).2, x.1 ∈ (w.conds c).queue.map (·.issuer) ∧ x.2 = .flag false := by
  intro x hx
  unfold condSignal at hx
  split at hx
  · simp at hx
  · rename_i acq rest hq
    split at hx
    · simp only [condRelock, optOut] at hx
      split at hx
      · rename_i r hr
        simp only [List.mem_singleton] at hx
        subst hx
        have := (waitFor_some (by simpa [Mutex.lock] using hr)).1
        simp [hq, this]
      · simp at hx
    · simp at hx

theorem broadcastN_outs (n : Nat) : ∀ (w : World) (c : Nat),
    ∀ x ∈ (condBroadcastN n w c).2, x.1 ∈ (w.conds c).queue.map (·.issuer) ∧ x.2 = .flag false := by
  induction n with
  | zero => intro w c x hx; simp [condBroadcastN] at hx
  | succ n ih =>
    intro w c x hx
    simp only [condBroadcastN] at hx
    split at hx
    · simp at hx
    · cases hq : (w.conds c).queue with
      | nil => rename_i he; simp [hq] at he
      | cons acq rest =>
        simp only [List.mem_append] at hx
        rcases hx with hx | hx
        · have := condSignal_outs_from_queue w c x hx
          rw [hq] at this; exact this
        · have h1 := notify_one_wakes_longest_waiter w c acq rest hq
          have := ih (condSignal w c).1 c x hx
          rw [h1] at this
          exact ⟨by simp only [List.map_cons, List.mem_cons]; exact .inr this.1, this.2⟩

/-- notify_all wakes ONLY actors waiting at that moment (and none of them reports a timeout) -/
theorem notify_all_wakes_only_current_waiters (w : World) (c : Nat) :
    ∀ x ∈ (condBroadcast w c).2, x.1 ∈ (w.conds c).queue.map (·.issuer) ∧ x.2 = .flag false :=
  broadcastN_outs _ w c

/-- A woken or timed-out waiter returns only after re-acquiring its mutex: whenever the re-lock at the end of
finish() answers the waiter, the waiter is the owner of its mutex in the resulting state. -/
theorem wait_returns_holding_mutex (w : World) (a : Aid) (m : Nat) (t : Bool) :
    ∀ x ∈ (condRelock w a m t).2, x = (a, .flag t) ∧ ((condRelock w a m t).1.mutexes m).owner = some a := by
  intro x hx
  simp only [condRelock, optOut] at hx ⊢
  split at hx
  · rename_i r hr
    have h3 := waitFor_some (by simpa [Mutex.lock] using hr)
    simp only [List.mem_singleton] at hx
    refine ⟨by rw [hx, h3.1], ?_⟩
    simp only [upd_same, Mutex.lock]
    rw [h3.2.2]
    exact lockAsync_granted_owner _ _ h3.2.1
  · simp at hx

/-- ... and when it is not answered now it is queued FIFO behind the current lockers of a busy mutex, registered, and
will be answered (with its timeout flag) by the hand-off of MutexImpl::unlock (C04 `handoff_to_head`). -/
theorem relock_queues_behind_lockers (w : World) (a o : Aid) (m : Nat) (t : Bool)
    (ho : (w.mutexes m).owner = some o) (hne : o ≠ a)
    (hq : (w.mutexes m).queue.any (fun q => decide (q.issuer = a)) = false) :
    (condRelock w a m t).2 = [] ∧
    ((condRelock w a m t).1.mutexes m).queue =
      (w.mutexes m).queue ++ [{ issuer := a, depth := 1, waited := true, res := .flag t }] := by
  have hl := SgVerif.C04.lock_queue ho hne hq
  have hne' : ¬ (some o = some a) := by simpa using hne
  have hm := SgVerif.C04.markLast_append a (.flag t) (w.mutexes m).queue 1 false .unit
  unfold condRelock Mutex.lock
  rw [hl]
  simp only [Mutex.waitFor, Bool.false_eq_true, if_false, optOut, upd_same, hm, and_self]

/-- wait_for reports a timeout iff its timer fired before a notification: the timer event answers with `true` and
removes the waiter from the queue (a later notify cannot reach it); notifications answer with `false`
(`notify_all_wakes_only_current_waiters`, `condSignal_outs_from_queue`); the timer event exists only for an
acquisition that is still in the queue, i.e. not notified. -/
theorem wait_for_timeout_iff (w w' : World) (a : Aid) (c : Nat) (o : Outs)
    (h : condTimeoutStep w a c = .ok (w', o)) :
    (∃ q ∈ (w.conds c).queue, q.issuer = a ∧ q.waited = true ∧ q.timed = true) ∧
    (w'.conds c).queue = eraseC a (w.conds c).queue ∧ (∀ x ∈ o, x.2 = .flag true) := by
  unfold condTimeoutStep at h
  split at h
  · simp at h
  · rename_i acq hf
    simp only [Except.ok.injEq] at h
    have hmem := List.mem_of_find?_eq_some hf
    have hp := List.find?_some hf
    simp only [decide_eq_true_eq] at hp
    have hw : w' = (condRelock { w with conds := upd w.conds c { queue := eraseC a (w.conds c).queue } } a acq.mutex true).1 := by
      rw [h]
    have ho : o = (condRelock { w with conds := upd w.conds c { queue := eraseC a (w.conds c).queue } } a acq.mutex true).2 := by
      rw [h]
    refine ⟨⟨acq, hmem, hp.1, hp.2.1, hp.2.2⟩, ?_, ?_⟩
    · rw [hw, condRelock_conds]; simp
    · intro x hx
      rw [ho] at hx
      have := wait_returns_holding_mutex _ a acq.mutex true x hx
      rw [this.1]

theorem step_condTimeout (w : World) (a : Aid) (c : Nat) : w.step (.condTimeout a c) = condTimeoutStep w a c := rfl

/-! ### non-vacuity (concrete histories through World.run) -/

/-- signal with no waiter is lost; then 1 and 2 wait; notify_one wakes 1 (the longest waiter), who re-acquires the
free mutex; 2 still waits -/
example : observe [.signal 0 0, .lock 1 0, .condWait 1 0 0 false, .lock 2 0, .condWait 2 0 0 false, .signal 0 0] 0 0 =
    some ([2], some 1, [], [(0, .unit), (1, .unit), (2, .unit), (1, .flag false), (0, .unit)]) := by decide

/-- broadcast with two waiters while a third actor (3) holds the mutex: both queue behind it in waiting order and
return only at the hand-offs -/
example : observe [.lock 1 0, .condWait 1 0 0 false, .lock 2 0, .condWait 2 0 0 true, .lock 3 0, .broadcast 0 0,
                   .unlock 3 0] 0 0 =
    some ([], some 1, [2], [(1, .unit), (2, .unit), (3, .unit), (0, .unit), (1, .flag false), (3, .unit)]) := by decide

/-- a timed wait whose timer fires: timeout reported, after re-acquiring the mutex -/
example : observe [.lock 1 0, .condWait 1 0 0 true, .condTimeout 1 0, .signal 0 0] 0 0 =
    some ([], some 1, [], [(1, .unit), (1, .flag true), (0, .unit)]) := by decide

/-! ## Part 2 — refinement to the abstract condition variable, whole histories -/

/-- **Refinement, every history.**  Whatever history the abstract condition-variable machine accepts, the
implementation model (ConditionVariableImpl + MutexImpl as composed by the S4U calls) executes it with the same answers
in the same order; the kernel state it reaches means the abstract state reached (`Abs`: queues are the FIFOs of
waiters/lockers, every acquisition registered); and the invariant `AInv` holds there. -/
theorem cond_refines_spec (es : List CEv) (s : ASt) (o : Outs) (h : arun ASt.init es = .ok (s, o)) :
    ∃ w, w0.run (es.map CEv.toEv) = .ok (w, o) ∧ Abs w s ∧ AInv s :=
  sim_run es abs_init ainv_init h

/-- converse direction, at every reached state: what the implementation does on an event of the domain is what the
abstract machine does (same answers), and the states stay related -/
theorem impl_step_is_spec_step {w w' : World} {s : ASt} (hr : Reach w s) (e : CEv) (o : Outs)
    (hwf : WellFormed s e) (hw : w.step e.toEv = .ok (w', o)) :
    ∃ s', astep s e = .ok (s', o) ∧ Abs w' s' ∧ AInv s' := by
  obtain ⟨ha, hi⟩ := reach_abs hr
  obtain ⟨s', hs, ha'⟩ := sim_step_conv ha hi hwf hw
  exact ⟨s', hs, ha', ainv_step hi hs⟩

/-- the error branches agree: ownership assertion of wait / unlock, timer event without an armed timer -/
theorem spec_error_is_impl_error {w : World} {s : ASt} (hr : Reach w s) (e : CEv) (err : Err)
    (hs : astep s e = .error err) (hne : err ≠ .illFormed) : w.step e.toEv = .error err :=
  sim_step_err (reach_abs hr).1 hs hne

/-- **notify_one wakes exactly the head**, after every history: the longest waiter leaves the queue (the others keep
their order, other condition variables are untouched); it returns now (`false` = no timeout) iff its mutex is free, and
then it owns it; otherwise nobody but the notifier is answered and the waiter is at the TAIL of the FIFO of its mutex,
registered, with its result attached (it returns at the hand-off, `wait_returns_holding_mutex_hist`). -/
theorem notify_one_wakes_exactly_head {w : World} {s : ASt} (hr : Reach w s) (a : Aid) (c : Nat)
    (hb : s.blk a = none) (x : AWaiter) (rest : List AWaiter) (hq : s.cv c = x :: rest) :
    ∃ w' o, w.step (.signal a c) = .ok (w', o) ∧
      (w'.conds c).queue = rest.map concW ∧ (∀ c', c' ≠ c → (w'.conds c').queue = (w.conds c').queue) ∧
      ((w.mutexes x.mutex).owner = none →
        o = [(x.issuer, .flag false), (a, .unit)] ∧ (w'.mutexes x.mutex).owner = some x.issuer ∧
        (w'.mutexes x.mutex).queue = (w.mutexes x.mutex).queue) ∧
      (∀ b, (w.mutexes x.mutex).owner = some b →
        o = [(a, .unit)] ∧ (w'.mutexes x.mutex).owner = some b ∧
        (w'.mutexes x.mutex).queue = (w.mutexes x.mutex).queue ++ [concM (x.issuer, .flag false)]) := by
  obtain ⟨ha, hi⟩ := reach_abs hr
  have hs : astep s (.notifyOne a c) =
      .ok ((({ s with cv := upd s.cv c rest } : ASt).acquire x.issuer x.mutex (.flag false)).1,
           (({ s with cv := upd s.cv c rest } : ASt).acquire x.issuer x.mutex (.flag false)).2 ++ [(a, .unit)]) := by
    simp [astep, hb, hq]
  obtain ⟨w', hw, ha'⟩ := sim_step ha hi hs
  refine ⟨w', _, hw, ?_, ?_, ?_, ?_⟩
  · rw [ha'.cq, acquire_cv]; simp
  · intro c' hc
    rw [ha'.cq, acquire_cv, ha.cq]
    simp [upd_ne _ _ hc]
  · intro hfree
    have hf : (({ s with cv := upd s.cv c rest } : ASt).mx x.mutex).owner = none := by
      rw [← hfree, ha.own]
    obtain ⟨h1, h2, h3, -⟩ := acquire_free _ x.issuer x.mutex (.flag false) hf
    refine ⟨by rw [h1]; rfl, by rw [ha'.own, h3], ?_⟩
    rw [ha'.mq, h2, ha.mq]
  · intro b hbusy
    have hf : (({ s with cv := upd s.cv c rest } : ASt).mx x.mutex).owner = some b := by
      rw [← hbusy, ha.own]
    obtain ⟨h1, h2, h3, -⟩ := acquire_queued _ x.issuer x.mutex (.flag false) b hf
    refine ⟨by rw [h1]; rfl, by rw [ha'.own, h3], ?_⟩
    rw [ha'.mq, h2, ha.mq]
    simp

/-- **notify_all wakes exactly the waiters of that moment**, after every history: the queue is empty afterwards (other
condition variables untouched); besides the notifier only waiters of that moment are answered, each with `false` and
each owning its mutex; and EVERY waiter of that moment either returned that way or sits in the FIFO of its mutex,
registered, with its `false` result attached. -/
theorem notify_all_wakes_exactly_current_waiters {w : World} {s : ASt} (hr : Reach w s) (a : Aid) (c : Nat)
    (hb : s.blk a = none) :
    ∃ w' o, w.step (.broadcast a c) = .ok (w', o) ∧
      (w'.conds c).queue = [] ∧ (∀ c', c' ≠ c → (w'.conds c').queue = (w.conds c').queue) ∧
      (∀ y ∈ o, y = (a, .unit) ∨
        ∃ x ∈ s.cv c, y = (x.issuer, .flag false) ∧ (w'.mutexes x.mutex).owner = some x.issuer) ∧
      (∀ x ∈ s.cv c, ((x.issuer, Res.flag false) ∈ o ∧ (w'.mutexes x.mutex).owner = some x.issuer) ∨
        concM (x.issuer, .flag false) ∈ (w'.mutexes x.mutex).queue) := by
  obtain ⟨ha, hi⟩ := reach_abs hr
  have hs : astep s (.notifyAll a c) = .ok ((s.wakeList c (s.cv c)).1, (s.wakeList c (s.cv c)).2 ++ [(a, .unit)]) := by
    simp [astep, hb]
  obtain ⟨w', hw, ha'⟩ := sim_step ha hi hs
  obtain ⟨hc1, hc2⟩ := wakeList_cv c (s.cv c) s rfl
  refine ⟨w', _, hw, ?_, ?_, ?_, ?_⟩
  · rw [ha'.cq, hc1]; rfl
  · intro c' hc; rw [ha'.cq, hc2 c' hc, ha.cq]
  · intro y hy
    rcases List.mem_append.mp hy with hy | hy
    · obtain ⟨x, hx, h1, h2⟩ := wakeList_outs c (s.cv c) s hi rfl y hy
      exact .inr ⟨x, hx, h1, by rw [ha'.own, h2]⟩
    · exact .inl (by simpa using hy)
  · intro x hx
    rcases wakeList_all c (s.cv c) s hi rfl x hx with h | h
    · exact .inl ⟨List.mem_append_left _ h.1, by rw [ha'.own, h.2]⟩
    · right
      rw [ha'.mq]
      exact List.mem_map_of_mem h

/-- **notify_all queues the waiters on their mutexes in waiting order**, after every history: the FIFO of every mutex `m`
becomes its old FIFO followed by the woken waiters that wait with `m`, in the order they were waiting on the condition
variable (registered, `false` attached) — minus the first of them when `m` was free: that one takes the mutex and
returns.  With `free_mutex_has_no_waiter` and the FIFO hand-off of C04 this is "every woken waiter re-acquires its mutex
through the mutex FIFO". -/
theorem notify_all_mutex_fifo_order {w w' : World} {s : ASt} (hr : Reach w s) (a : Aid) (c : Nat)
    (hb : s.blk a = none) (o : Outs) (hw : w.step (.broadcast a c) = .ok (w', o)) (m : Nat) :
    (w'.mutexes m).queue = (w.mutexes m).queue ++
      (((s.cv c).filter (fun x => decide (x.mutex = m))).map (fun x => concM (x.issuer, .flag false))).drop
        (if (w.mutexes m).owner = none then 1 else 0) := by
  obtain ⟨ha, hi⟩ := reach_abs hr
  have hs : astep s (.notifyAll a c) = .ok ((s.wakeList c (s.cv c)).1, (s.wakeList c (s.cv c)).2 ++ [(a, .unit)]) := by
    simp [astep, hb]
  obtain ⟨w1, hw1, ha'⟩ := sim_step ha hi hs
  have hw1' : w.step (.broadcast a c) = .ok (w1, (s.wakeList c (s.cv c)).2 ++ [(a, .unit)]) := hw1
  rw [hw] at hw1'
  simp only [Except.ok.injEq, Prod.mk.injEq] at hw1'
  rw [hw1'.1, ha'.mq, wakeList_queue, ha.mq, ha.own, List.map_append, List.map_drop, List.map_map]
  rfl

/-- **the timer event wakes only its own waiter**, after every history: it leaves the queue (the others keep their
order), and re-acquires its mutex exactly like a notified waiter, with the result `true` (timeout) -/
theorem timeout_wakes_only_its_waiter {w : World} {s : ASt} (hr : Reach w s) (a : Aid) (c : Nat) (x : AWaiter)
    (hf : (s.cv c).find? (fun y => y.issuer = a ∧ y.timed) = some x) :
    ∃ w' o, w.step (.condTimeout a c) = .ok (w', o) ∧
      (w'.conds c).queue = (eraseW a (s.cv c)).map concW ∧
      ((w.mutexes x.mutex).owner = none → o = [(a, .flag true)] ∧ (w'.mutexes x.mutex).owner = some a) ∧
      (∀ b, (w.mutexes x.mutex).owner = some b →
        o = [] ∧ (w'.mutexes x.mutex).queue = (w.mutexes x.mutex).queue ++ [concM (a, .flag true)]) := by
  obtain ⟨ha, hi⟩ := reach_abs hr
  have hs : astep s (.timeout a c) =
      .ok ((({ s with cv := upd s.cv c (eraseW a (s.cv c)) } : ASt).acquire a x.mutex (.flag true)).1,
           (({ s with cv := upd s.cv c (eraseW a (s.cv c)) } : ASt).acquire a x.mutex (.flag true)).2) := by
    simp only [astep, hf]
    try rfl
  obtain ⟨w', hw, ha'⟩ := sim_step ha hi hs
  refine ⟨w', _, hw, ?_, ?_, ?_⟩
  · rw [ha'.cq, acquire_cv]; simp
  · intro hfree
    have hf' : (({ s with cv := upd s.cv c (eraseW a (s.cv c)) } : ASt).mx x.mutex).owner = none := by
      rw [← hfree, ha.own]
    obtain ⟨h1, -, h3, -⟩ := acquire_free _ a x.mutex (.flag true) hf'
    exact ⟨h1, by rw [ha'.own, h3]⟩
  · intro b hbusy
    have hf' : (({ s with cv := upd s.cv c (eraseW a (s.cv c)) } : ASt).mx x.mutex).owner = some b := by
      rw [← hbusy, ha.own]
    obtain ⟨h1, h2, -, -⟩ := acquire_queued _ a x.mutex (.flag true) b hf'
    refine ⟨h1, ?_⟩
    rw [ha'.mq, h2, ha.mq]
    simp

/-- **Every woken or timed-out waiter returns only after re-acquiring its mutex**, after every history and for every
event of the domain: whoever is answered by the step while it was blocked — in a condition variable (notified or timed
out) or in a mutex FIFO (plain `lock`, or a waiter that was re-locking) — is the owner, in the resulting kernel state,
of the mutex it was waiting for. -/
theorem wait_returns_holding_mutex_hist {w w' : World} {s : ASt} (hr : Reach w s) (e : CEv) (o : Outs)
    (hwf : WellFormed s e) (hw : w.step e.toEv = .ok (w', o)) :
    ∀ y ∈ o, ∀ m, s.waitsFor y.1 = some m → (w'.mutexes m).owner = some y.1 := by
  obtain ⟨ha, hi⟩ := reach_abs hr
  obtain ⟨s', hs, ha'⟩ := sim_step_conv ha hi hwf hw
  intro y hy m hm
  rw [ha'.own]
  exact awake_owner hi hs y hy m hm

/-- through the mutex FIFO: after every history a free mutex has no blocked locker — so a waiter that finds its mutex
free and takes it overtakes nobody; a waiter that finds it busy queues at the tail (`notify_one_wakes_exactly_head`,
`timeout_wakes_only_its_waiter`) and is served by the FIFO hand-off of C04 -/
theorem free_mutex_has_no_waiter {w : World} {s : ASt} (hr : Reach w s) (m : Nat)
    (h : (w.mutexes m).owner = none) : (w.mutexes m).queue = [] := by
  obtain ⟨ha, hi⟩ := reach_abs hr
  rw [ha.mq, hi.free m (by rw [← ha.own]; exact h)]
  rfl

/-- in a reached state the queues of the implementation are exactly the abstract FIFOs, every acquisition registered:
no actor is in two queues, no queue has a duplicate, no waiter owns the mutex it waits with -/
theorem reached_state_shape {w : World} {s : ASt} (hr : Reach w s) :
    (∀ c, (w.conds c).queue = (s.cv c).map concW) ∧ (∀ m, (w.mutexes m).queue = (s.mx m).queue.map concM) ∧
    (∀ c, ((s.cv c).map (·.issuer)).Nodup) ∧ (∀ c x, x ∈ s.cv c → (w.mutexes x.mutex).owner ≠ some x.issuer) := by
  obtain ⟨ha, hi⟩ := reach_abs hr
  exact ⟨ha.cq, ha.mq, hi.cvNd, fun c x hx => by rw [ha.own]; exact hi.own c x hx⟩

/-! ### non-vacuity of Part 2 -/

/-- two waiters (the second timed) while actor 3 holds the mutex, notify_all, unlock: the abstract machine accepts the
history (so `Reach` is inhabited at each prefix and the hypotheses `blk a = none` hold for the notifier), both waiters
queue on the mutex in waiting order, the first returns at the hand-off … -/
example : aobserve [.lock 1 0, .wait 1 0 0 false, .lock 2 0, .wait 2 0 0 true, .lock 3 0, .notifyAll 0 0, .unlock 3 0] 0 0 =
    some ([], some 1, [2], [(1, .unit), (2, .unit), (3, .unit), (0, .unit), (1, .flag false), (3, .unit)]) := by
  decide

/-- … and the implementation model gives the same observation on the corresponding kernel events -/
example : observe ([.lock 1 0, .wait 1 0 0 false, .lock 2 0, .wait 2 0 0 true, .lock 3 0, .notifyAll 0 0,
      .unlock 3 0].map CEv.toEv) 0 0 =
    aobserve [.lock 1 0, .wait 1 0 0 false, .lock 2 0, .wait 2 0 0 true, .lock 3 0, .notifyAll 0 0, .unlock 3 0] 0 0 := by
  decide

/-- a timed waiter whose timer fires while the mutex is held: it queues on the mutex; it returns `true` (timeout) only
at the hand-off, owning the mutex -/
example : aobserve [.lock 1 0, .wait 1 0 0 true, .lock 2 0, .timeout 1 0, .unlock 2 0] 0 0 =
    some ([], some 1, [], [(1, .unit), (2, .unit), (1, .flag true), (2, .unit)]) := by decide

/-- events outside the domain are refused by the abstract machine: a blocked actor calling, a re-lock by the owner -/
example : (aobserve [.lock 1 0, .wait 1 0 0 false, .notifyOne 1 0] 0 0).isNone = true ∧
    (aobserve [.lock 1 0, .lock 1 0] 0 0).isNone = true := by decide

end SgVerif.C06
