import SgVerif.Sched.Model
import SgVerif.Sched.Lemmas
import SgVerif.Sched.Demo
/-!
C02 — the outcome does not depend on the context factory or on the number of worker threads.

Statement at full strength (properties.jsonl): for programs whose actors share no unsynchronised memory, the simulation
produces the same observable results whichever factory (thread, raw, boost) runs the actors and whatever
contexts/nthreads ∈ {1,2,4}, contexts/synchro ∈ {futex, posix, busy_wait}.

What is PROVED here, on the round model of `SgVerif/Sched/Model.lean`, for every system (any actor code, any kernel
handlers), every state, every permutation / partition / per-sub-round scheduling policy: a factory only chooses the ORDER
(or interleaving over worker threads) in which the slices of `actors_to_run_` execute; the state after the slices, the
sequence of simcalls maestro answers, the whole sub-round and the whole run do not depend on that choice.
With C49 (each element of the array is processed exactly once by the Parmap) this is C02 for the modelled round.
NOT modelled (and so not proved): the context-switch code of the raw/boost factories, thread parking (semaphores /
futexes), the Parmap protocol itself (C49).
The one place where the real code breaks the slice abstraction IS modelled (`Cfg.cleanupInSlice`): the cancel loop of
`cleanup_from_self` runs in the dying actor's context, so the order between two actors that end in the same sub-round is
the threads' order.  Consequently (a), (a'), (b) are full strength; (c)/(d) are `_partial` for today's code (FINDING
`parallel-cleanup-cancel-order`, `cleanup_race_counterexample`) and full strength for the repaired code.
-/
namespace SgVerif.C02
open SgVerif.Sched

variable {S : Sys}

/-- C02(a) the state after the slices of a sub-round does not depend on the order in which they execute:
    slices touch disjoint local states. -/
theorem subround_order_irrelevant (s : St S) (π : List Aid) (h : π.Perm s.toRun) :
    afterSlices { s with toRun := [] } π = afterSlices { s with toRun := [] } s.toRun :=
  afterSlices_perm _ h

/-- C02(a') … nor on how the run list is partitioned over worker threads (each thread executes its chunk; the chunks
    in any order; by (a) also any order inside a chunk). -/
theorem subround_partition_irrelevant (s : St S) (parts : List (List Aid)) (ran : List Aid)
    (h : parts.flatten.Perm ran) : parts.foldl afterSlices s = afterSlices s ran := by
  have hflat : ∀ (ps : List (List Aid)) (t : St S), ps.foldl afterSlices t = afterSlices t ps.flatten := by
    intro ps
    induction ps with
    | nil => intro t; rfl
    | cons p ps ih => intro t; simp only [List.foldl_cons, List.flatten_cons, afterSlices_append]; exact ih _
  rw [hflat]; exact afterSlices_perm _ h

/-- C02(b) the simcalls of a sub-round are answered in the order of `actors_that_ran_`, each actor's own request,
    whatever order `π` the slices ran in. -/
theorem thatRan_order_fixed (s : St S) (ran π : List Aid) (hn : ran.Nodup) (h : π.Perm ran) :
    answered (afterSlices s π) ran = ran.map fun a => (a, (S.slice a (s.loc a) (s.ans a)).2) := by
  have hnπ : π.Nodup := h.nodup_iff.mpr hn
  simp only [answered]
  apply filterMap_all_some
  intro a ha
  rw [afterSlices_pend s π hnπ a (h.mem_iff.mpr ha)]
  rfl

/-- order-insensitivity of the cancel loops that the dying actors of one sub-round run in their own contexts -/
def CleanupInsensitive (S : Sys) (c : Cfg) (α : Addr) : Prop :=
  ∀ (s : St S) (l1 l2 : List Aid), l1.Perm l2 → selfCleanups c α s l1 = selfCleanups c α s l2

/-- C02(c) a whole sub-round (slices in any order, then maestro alone) equals the serial sub-round — provided the
    cancel loop of `cleanup_from_self` is run by maestro (`cleanupInSlice = false`, props/C02/proposed_fix.diff) or is
    order-insensitive. -/
theorem subroundWith_perm (c : Cfg) (α : Addr) (hC : c.cleanupInSlice = true → CleanupInsensitive S c α)
    (s : St S) (π : List Aid) (h : π.Perm s.toRun) : subroundWith c α π s = subround c α s := by
  simp only [subround, subroundWith, afterSlices_perm _ h]
  cases hc : c.cleanupInSlice with
  | false => rfl
  | true => simp only [if_true]; rw [hC hc _ _ _ h]

/-
Full-strength statement of C02(d), FALSE on the code as it is today (`Cfg.current.cleanupInSlice = true`):

    theorem round_deterministic : ∀ (S : Sys) α p (hp : ∀ n l, (p n l).Perm l) fuel (s : St S),
        runWith Cfg.current α p fuel s = run Cfg.current α fuel s

see `cleanup_race_counterexample` (replayed on the library: corpus case `dying-owners-same-subround`, nthreads=4).
-/

/-- C02(d) `round_deterministic_partial`: whatever order the factory / the worker threads pick in each sub-round, the run
    is the serial run — under the order-insensitivity hypothesis above when the cancel loop runs in actor context.
    Missing for full strength on today's code: that hypothesis, which the real `cancel` does not satisfy. -/
theorem round_deterministic_partial (c : Cfg) (α : Addr) (hC : c.cleanupInSlice = true → CleanupInsensitive S c α)
    (p : Policy) (hp : ∀ n l, (p n l).Perm l) :
    ∀ (fuel : Nat) (s : St S), runWith c α p fuel s = run c α fuel s := by
  intro fuel
  induction fuel with
  | zero => intro s; rfl
  | succ n ih =>
    intro s
    simp only [run, runWith]
    cases hs : s.toRun with
    | nil =>
      simp only
      cases S.advance s.k with
      | none => rfl
      | some r => exact ih _
    | cons a t =>
      simp only
      have h1 : subroundWith c α (p n (a :: t)) s = subroundWith c α (a :: t) s := by
        have := subroundWith_perm c α hC s (p n (a :: t)) (hs ▸ hp n (a :: t))
        rw [this, subround, hs]
      rw [h1]; exact ih _

/-- C02(d) at FULL STRENGTH for the code with props/C02/proposed_fix.diff (cancel loop run by maestro in
    `cleanup_from_kernel`, i.e. in run-list order): no hypothesis. -/
theorem round_deterministic_repaired (α : Addr) (p : Policy) (hp : ∀ n l, (p n l).Perm l) (fuel : Nat) (s : St S) :
    runWith Cfg.repaired α p fuel s = run Cfg.repaired α fuel s :=
  round_deterministic_partial Cfg.repaired α (fun h => by cases h) p hp fuel s

/-- TODAY's code: actors 0 and 4 end in the same sub-round, each owning activities on which other actors are blocked.
    If the threads run 0's slice first, maestro later sees the wake-ups 1, 2, 3; if they run 4's first, 3, 1, 2. -/
theorem cleanup_race_counterexample :
    (subroundWith Cfg.current Demo.layoutA [0, 4] (Demo.st0 false [0, 4])).toRun = [1, 2, 3] ∧
    (subroundWith Cfg.current Demo.layoutA [4, 0] (Demo.st0 false [0, 4])).toRun = [3, 1, 2] := by decide

/-- the same instance with the cancel loop run by maestro: both thread orders give the run-list order -/
example : (subroundWith Cfg.repaired Demo.layoutA [0, 4] (Demo.st0 false [0, 4])).toRun = [1, 2, 3] ∧
    (subroundWith Cfg.repaired Demo.layoutA [4, 0] (Demo.st0 false [0, 4])).toRun = [1, 2, 3] := by decide

/-! non-vacuity: on the demo system, three actors run in a different order; the state really changes and both sides agree -/
open Demo in
example : (subroundWith Cfg.repaired layoutA [3, 1, 2] (st0 false [1, 2, 3])).k.log = [101, 102, 103]
    ∧ (subroundWith Cfg.repaired layoutA [3, 1, 2] (st0 false [1, 2, 3])).toRun = [1, 2, 3]
    ∧ (subroundWith Cfg.repaired layoutA [3, 1, 2] (st0 false [1, 2, 3])).loc 2 = [1] := by decide

open Demo in
example : answered (afterSlices (st0 false []) [2, 3, 1]) [1, 2, 3] = [(1, 2), (2, 3), (3, 4)] := by decide

end SgVerif.C02
