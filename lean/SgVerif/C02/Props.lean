import SgVerif.Sched.Model
import SgVerif.Sched.Lemmas
import SgVerif.Sched.Demo
/-!
C02 — the outcome does not depend on the context factory or on the number of worker threads.

Statement at full strength (properties.jsonl): for programs whose actors share no unsynchronised memory, the simulation
produces the same observable results whichever factory (thread, raw, boost) runs the actors and whatever
contexts/nthreads ∈ {1,2,4}, contexts/synchro ∈ {futex, posix, busy_wait}.

What is PROVED here, on the round model of `SgVerif/Sched/Model.lean`, for every system (any actor code, any kernel
handlers), every state, every permutation / partition / per-sub-round scheduling policy: a factory only chooses the ORDER
(or interleaving over worker threads) in which the slices of `actors_to_run_` execute; the state after the slices, the
sequence of simcalls maestro answers, the whole sub-round and the whole run do not depend on that choice.
With C49 (each element of the array is processed exactly once by the Parmap) this is C02 for the modelled round.
NOT modelled (and so not proved): the context-switch code of the raw/boost factories, thread parking (semaphores /
futexes), the Parmap protocol itself (C49), and the cancel loop of `cleanup_from_self`, which the real code runs in the
dying actor's context under `destruction_mutex` (the model lets maestro run it in `actors_that_ran_` order).
All theorems are full-strength for the model; none is `_partial`.
-/
namespace SgVerif.C02
open SgVerif.Sched

variable {S : Sys}

/-- C02(a) the state after the slices of a sub-round does not depend on the order in which they execute:
    slices touch disjoint local states. -/
theorem subround_order_irrelevant (s : St S) (π : List Aid) (h : π.Perm s.toRun) :
    afterSlices { s with toRun := [] } π = afterSlices { s with toRun := [] } s.toRun :=
  afterSlices_perm _ h

/-- C02(a') … nor on how the run list is partitioned over worker threads (each thread executes its chunk; the chunks
    in any order; by (a) also any order inside a chunk). -/
theorem subround_partition_irrelevant (s : St S) (parts : List (List Aid)) (ran : List Aid)
    (h : parts.flatten.Perm ran) : parts.foldl afterSlices s = afterSlices s ran := by
  have hflat : ∀ (ps : List (List Aid)) (t : St S), ps.foldl afterSlices t = afterSlices t ps.flatten := by
    intro ps
    induction ps with
    | nil => intro t; rfl
    | cons p ps ih => intro t; simp only [List.foldl_cons, List.flatten_cons, afterSlices_append]; exact ih _
  rw [hflat]; exact afterSlices_perm _ h

/-- C02(b) the simcalls of a sub-round are answered in the order of `actors_that_ran_`, each actor's own request,
    whatever order `π` the slices ran in. -/
theorem thatRan_order_fixed (s : St S) (ran π : List Aid) (hn : ran.Nodup) (h : π.Perm ran) :
    answered (afterSlices s π) ran = ran.map fun a => (a, (S.slice a (s.loc a) (s.ans a)).2) := by
  have hnπ : π.Nodup := h.nodup_iff.mpr hn
  simp only [answered]
  apply filterMap_all_some
  intro a ha
  rw [afterSlices_pend s π hnπ a (h.mem_iff.mpr ha)]
  rfl

/-- C02(c) a whole sub-round (slices in any order, then maestro alone) equals the serial sub-round -/
theorem subroundWith_perm (c : Cfg) (α : Addr) (s : St S) (π : List Aid) (h : π.Perm s.toRun) :
    subroundWith c α π s = subround c α s := by
  simp only [subround, subroundWith, afterSlices_perm _ h]

/-- C02(d) `round_deterministic`: whatever order the factory / the worker threads pick in each sub-round, the run is
    the serial run. -/
theorem round_deterministic (c : Cfg) (α : Addr) (p : Policy) (hp : ∀ n l, (p n l).Perm l) :
    ∀ (fuel : Nat) (s : St S), runWith c α p fuel s = run c α fuel s := by
  intro fuel
  induction fuel with
  | zero => intro s; rfl
  | succ n ih =>
    intro s
    simp only [run, runWith]
    cases hs : s.toRun with
    | nil =>
      simp only
      cases S.advance s.k with
      | none => rfl
      | some r => exact ih _
    | cons a t =>
      simp only
      have h1 : subroundWith c α (p n (a :: t)) s = subroundWith c α (a :: t) s := by
        have := subroundWith_perm c α s (p n (a :: t)) (hs ▸ hp n (a :: t))
        rw [this, subround, hs]
      rw [h1]; exact ih _

/-! non-vacuity: on the demo system, three actors run in a different order; the state really changes and both sides agree -/
open Demo in
example : (subroundWith Cfg.repaired layoutA [3, 1, 2] (st0 false [1, 2, 3])).k.log = [101, 102, 103]
    ∧ (subroundWith Cfg.repaired layoutA [3, 1, 2] (st0 false [1, 2, 3])).toRun = [1, 2, 3]
    ∧ (subroundWith Cfg.repaired layoutA [3, 1, 2] (st0 false [1, 2, 3])).loc 2 = [1] := by decide

open Demo in
example : answered (afterSlices (st0 false []) [2, 3, 1]) [1, 2, 3] = [(1, 2), (2, 3), (3, 4)] := by decide

end SgVerif.C02
