import SgVerif.C30.Closure2
/-
C30 — the (un)serialize walk versus the MPI typemap: segments, `Spec.bytesOf` of placements, the objects of
hvector / vector / contiguous / resized / indexed / hindexed incl. the contiguous shortcuts.
-/
set_option linter.unusedSimpArgs false
set_option linter.unusedVariables false
set_option linter.unnecessarySeqFocus false
namespace SgVerif.C30
open Spec

/-! ############ (was WalkA.lean) ############ -/
/-
C30 — the (un)serialize walk versus the MPI typemap: segments of consecutive bytes, `Spec.bytesOf` of placements.
-/

/-- `len` consecutive byte offsets starting at `p` -/
def seg (p len : Int) : List Int := (Spec.range len).map (· + p)

theorem byteRange_eq_seg (p len : Int) : byteRange p len = seg p len := by
  simp only [byteRange, seg, Spec.range, List.map_map]
  congr 1; funext k; simp only [Function.comp]; omega

theorem upto_eq_range (n : Int) : upto n = Spec.range n := rfl

theorem seg_nil (p len : Int) (h : len ≤ 0) : seg p len = [] := by simp [seg, range_nil len h]

theorem seg_map_add (p len d : Int) : (seg p len).map (· + d) = seg (p + d) len := by
  simp only [seg, List.map_map]; congr 1; funext x; simp only [Function.comp]; omega

theorem range_add (a b : Int) (ha : 0 ≤ a) (hb : 0 ≤ b) :
    Spec.range (a + b) = Spec.range a ++ (Spec.range b).map (· + a) := by
  have h : (a + b).toNat = a.toNat + b.toNat := by omega
  simp only [Spec.range, h, List.range_add, List.map_append, List.map_map]
  congr 1
  apply List.map_congr_left
  intro k _
  simp only [Function.comp]; omega

theorem seg_append (p a b : Int) (ha : 0 ≤ a) (hb : 0 ≤ b) : seg p a ++ seg (p + a) b = seg p (a + b) := by
  simp only [seg, range_add a b ha hb, List.map_append, List.map_map]
  congr 1
  apply List.map_congr_left
  intro k _
  simp only [Function.comp]; omega

/-- `n` segments of length `b` placed one after the other form one segment -/
theorem seg_flat (p b : Int) (hb : 0 ≤ b) : ∀ n : Int, (Spec.range n).flatMap (fun i => seg (p + i * b) b) = seg p (n * b) := by
  have nat : ∀ k : Nat, (Spec.range (k : Int)).flatMap (fun i => seg (p + i * b) b) = seg p ((k : Int) * b) := by
    intro k
    induction k with
    | zero => simp [Spec.range, seg]
    | succ k ih =>
      have e : ((k + 1 : Nat) : Int) = (k : Int) + 1 := by omega
      have r1 : Spec.range 1 = [0] := rfl
      rw [e, range_add k 1 (by omega) (by omega), List.flatMap_append, ih, r1]
      simp only [List.map_cons, List.map_nil, List.flatMap_cons, List.flatMap_nil, List.append_nil, Int.zero_add]
      have hk : 0 ≤ (k : Int) * b := Int.mul_nonneg (by omega) hb
      rw [seg_append p _ b hk hb]
      congr 1; ring
  intro n
  by_cases hn : 0 ≤ n
  · have := nat n.toNat
    rwa [Int.toNat_of_nonneg hn] at this
  · have : n * b ≤ 0 := Int.mul_nonpos_of_nonpos_of_nonneg (by omega) hb
    rw [range_nil n (by omega), seg_nil _ _ this]; rfl

/-! ### `Spec.bytesOf` -/

theorem bytesOf_def (l : Layout) (cnt : Int) :
    bytesOf l cnt = (Spec.range cnt).flatMap (fun k => l.bytes.map (· + k * l.extent)) := rfl

/-- a layout whose typemap is one run of `size` bytes starting at its lb, with extent = size -/
def IsRun (l : Layout) : Prop := l.bytes = seg l.lb l.size ∧ l.extent = l.size

theorem run_bytesOf (l : Layout) (h : IsRun l) (cnt base : Int) :
    (bytesOf l cnt).map (· + base) = seg (base + l.lb) (cnt * l.size) := by
  obtain ⟨h1, h2⟩ := h
  have hs : 0 ≤ l.size := by simp only [Layout.size]; omega
  rw [bytesOf_def, h1, h2]
  have : (fun k => (seg l.lb l.size).map (· + k * l.size)) = (fun k => seg (l.lb + k * l.size) l.size) := by
    funext k; rw [seg_map_add]
  rw [this, seg_flat l.lb l.size hs cnt, seg_map_add]
  congr 1; ring

/-- a non-derived object that satisfies the spec is a run at 0 -/
theorem natural_isRun {o : Obj} {l : Layout} (h : Rel1 o l) (hd : o.info.derived = false) : IsRun l := by
  obtain ⟨a, b, c⟩ := h.nat hd
  refine ⟨?_, ?_⟩
  · rw [c, a, ← h.size]; simp [seg]
  · rw [← h.size]; exact (h.natural hd).2.2.2

/-- the walk clause: (un)serialize of `count` elements at `base` visits exactly the typemap's offsets, in typemap order -/
def W (o : Obj) (l : Layout) : Prop := ∀ count base, walk o count base = (bytesOf l count).map (· + base)

/-- one block of a Type_Hvector / Type_Hindexed / Type_Struct: memcpy for a non-derived old type, recursive serialize otherwise -/
def blockB (old : Obj) (bl p : Int) : List Int :=
  if !old.info.derived then byteRange p (bl * old.info.size) else walk old bl p

theorem blockB_eq {o : Obj} {l : Layout} (h : Rel1 o l) (hw : W o l) (bl p : Int) :
    blockB o bl p = (bytesOf l bl).map (· + p) := by
  unfold blockB
  cases hd : o.info.derived with
  | true => simp only [Bool.not_true, Bool.false_eq_true, if_false]; exact hw bl p
  | false =>
    simp only [Bool.not_false, if_true]
    have hr := natural_isRun h hd
    rw [run_bytesOf l hr, byteRange_eq_seg, (h.nat hd).1, ← h.size]
    congr 1; ring

/-- MPI: `bl` copies at `D + j * extent` are the typemap of `bl` consecutive elements, shifted by `D` -/
theorem blockCopies_bytes (l : Layout) (D bl : Int) :
    (blockCopies D bl l.extent).flatMap (fun d => l.bytes.map (· + d)) = (bytesOf l bl).map (· + D) := by
  simp only [blockCopies, bytesOf_def, List.flatMap_map, List.map_flatMap, List.map_map]
  congr 1; funext j; congr 1; funext x; simp only [Function.comp]; omega

/-- typemap of a type made of blocks: `X.flatMap (fun a => blockCopies (D a) (B a) e)` placements of `l` -/
theorem place_blocks_bytes {α : Type} (X : List α) (D B : α → Int) (l : Layout) :
    (place (X.flatMap (fun a => blockCopies (D a) (B a) l.extent)) l).bytes =
      X.flatMap (fun a => (bytesOf l (B a)).map (· + D a)) := by
  simp only [place, List.flatMap_assoc, blockCopies_bytes]

/-- `bytesOf` of a layout whose typemap is a list of blocks -/
theorem bytesOf_blocks {α : Type} (X : List α) (F : α → List Int) (l : Layout) (hb : l.bytes = X.flatMap F) (cnt base : Int) :
    (bytesOf l cnt).map (· + base) =
      (Spec.range cnt).flatMap (fun j => X.flatMap (fun a => (F a).map (· + (base + j * l.extent)))) := by
  rw [bytesOf_def, hb]
  simp only [List.map_flatMap, List.map_map]
  congr 1; funext j; congr 1; funext a
  apply List.map_congr_left
  intro x _
  simp only [Function.comp]; omega


/-! ############ (was WalkB.lean) ############ -/
/-
C30 — walk = typemap for the objects each constructor builds (class objects and the "contiguous" shortcuts of
create_hvector / create_vector / create_contiguous; create_resized).
-/

theorem walk_plain (i : Info) (cnt base : Int) : walk (.plain i) cnt base = seg (base + i.lb) (cnt * i.size) := by
  rw [walk, byteRange_eq_seg]
theorem walk_contig (i : Info) (n : Int) (old : Obj) (cnt base : Int) :
    walk (.contig i n old) cnt base = seg (base + i.lb) (old.info.size * cnt * n) := by
  rw [walk, byteRange_eq_seg]
theorem walk_hvector (i : Info) (n bl S : Int) (old : Obj) (f : Bool) (cnt base : Int) :
    walk (.hvector i n bl S old f) cnt base =
      (Spec.range cnt).flatMap (fun j => (Spec.range n).flatMap (fun k => blockB old bl (base + j * i.extent + k * S))) := by
  rw [walk]; rfl
theorem walk_hindexed (i : Info) (blocks : List (Int × Int)) (old : Obj) (f : Bool) (cnt base : Int) :
    walk (.hindexed i blocks old f) cnt base =
      (Spec.range cnt).flatMap (fun j => blocks.flatMap (fun b => blockB old b.1 (base + j * i.extent + b.2))) := by
  rw [walk]; rfl
theorem walk_struct (i : Info) (blocks : Blocks) (cnt base : Int) :
    walk (.struct i blocks) cnt base = (Spec.range cnt).flatMap (fun j => walkBlocks blocks (base + j * i.extent)) := by
  rw [walk]; rfl
theorem walkBlocks_cons (bl d : Int) (old : Obj) (rest : Blocks) (elem : Int) :
    walkBlocks (.cons bl d old rest) elem = blockB old bl (elem + d) ++ walkBlocks rest elem := by
  rw [walkBlocks]; rfl
theorem walkBlocks_nil (elem : Int) : walkBlocks .nil elem = [] := by rw [walkBlocks]

theorem bytesOf_simple (l : Layout) (cnt base : Int) :
    (bytesOf l cnt).map (· + base) = (Spec.range cnt).flatMap (fun k => l.bytes.map (· + (base + k * l.extent))) := by
  rw [bytesOf_def]
  simp only [List.map_flatMap, List.map_map]
  congr 1; funext k
  apply List.map_congr_left
  intro x _
  simp only [Function.comp]; omega

/-- a Datatype / Type_Contiguous object whose MPI layout is a run -/
theorem plain_W (i : Info) (L : Layout) (hrel : Rel1 (.plain i) L) (hrun : IsRun L) : W (.plain i) L := by
  intro cnt base
  rw [walk_plain, run_bytesOf L hrun, ← hrel.lb, ← hrel.size]; rfl

theorem contig_W (i : Info) (n : Int) (old : Obj) (L : Layout) (hrel : Rel1 (.contig i n old) L) (hrun : IsRun L)
    (hs : i.size = n * old.info.size) : W (.contig i n old) L := by
  intro cnt base
  rw [walk_contig, run_bytesOf L hrun, ← hrel.lb, ← hrel.size]
  simp only [info_contig, hs]
  congr 1; ring

/-- what create_contiguous builds from a non-derived old type, when MPI's layout of the result is a run -/
theorem mkContiguous_run_W (count : Int) (old r : Obj) (lb : Int) (L : Layout) (hd : old.info.derived = false)
    (hr : mkContiguous count old lb = some r) (hrel : Rel1 r L) (hrun : IsRun L) : W r L := by
  unfold mkContiguous at hr
  simp only [hd, Bool.false_eq_true, if_false] at hr
  split at hr
  · injection hr with hr; subst hr
    exact contig_W _ _ _ L hrel hrun rfl
  · injection hr with hr; subst hr
    exact plain_W _ L hrel hrun

theorem dsHv_blocks (n bl S e : Int) : dsHv n bl S e = (Spec.range n).flatMap (fun i => blockCopies (i * S) bl e) := rfl

/-- Type_Hvector / Type_Vector object -/
theorem hv_obj_W (i : Info) (n bl S : Int) (o : Obj) (f : Bool) (l : Layout) (h : Rel1 o l) (hw : W o l)
    (hrel : Rel1 (.hvector i n bl S o f) (place (dsHv n bl S l.extent) l)) :
    W (.hvector i n bl S o f) (place (dsHv n bl S l.extent) l) := by
  intro cnt base
  have hb : (place (dsHv n bl S l.extent) l).bytes = (Spec.range n).flatMap (fun k => (bytesOf l bl).map (· + k * S)) := by
    rw [dsHv_blocks, place_blocks_bytes]
  rw [walk_hvector, bytesOf_blocks _ _ _ hb, ← hrel.ext]
  simp only [info_hvector, List.map_map]
  congr 1; funext j; congr 1; funext k
  rw [blockB_eq h hw]
  apply List.map_congr_left
  intro x _
  simp only [Function.comp]; omega

/-- MPI's layout of blocks that touch each other, over a non-derived old type, is one run -/
theorem hv_run (n bl S : Int) (o : Obj) (l : Layout) (h : Rel1 o l) (hd : o.info.derived = false) (hbl : 0 ≤ bl)
    (hS : S = bl * l.extent) (hn : 0 ≤ n) :
    (place (dsHv n bl S l.extent) l).bytes = seg 0 (n * (bl * o.info.size)) := by
  have hr := natural_isRun h hd
  have hs := h.size_nonneg
  have e4 := (h.natural hd).2.2.2
  rw [dsHv_blocks, place_blocks_bytes]
  have : (fun k => (bytesOf l bl).map (· + k * S)) = (fun k => seg (0 + k * (bl * o.info.size)) (bl * o.info.size)) := by
    funext k
    rw [run_bytesOf l hr, (h.nat hd).1, ← h.size, hS, e4]
    congr 1; ring
  rw [this, seg_flat 0 _ (Int.mul_nonneg hbl hs)]

theorem isRun_of (r : Obj) (L : Layout) (hrel : Rel1 r L) (T : Int) (hb : L.bytes = seg r.info.lb T)
    (hT : r.info.size = T) (he : r.info.ub = r.info.lb + T) : IsRun L := by
  refine ⟨by rw [hb, hrel.lb, ← hrel.size, hT], ?_⟩
  rw [← hrel.ext, ← hrel.size]; simp only [Info.extent]; omega

/-- `Datatype::create_hvector` -/
theorem mkHvector_walk (n bl S : Int) (o r : Obj) (l : Layout) (h : Rel1 o l) (hw : W o l) (hn : 0 ≤ n) (hS : 0 ≤ S)
    (hr : mkHvector n bl S o = some r) : W r (place (dsHv n bl S l.extent) l) := by
  have hrel := mkHvector_rel n bl S o r l h hn hS hr
  unfold mkHvector at hr
  split at hr
  · cases hr
  · rename_i hbl
    simp only [h.ext] at hr
    split at hr
    · injection hr with hr; subst hr
      exact hv_obj_W _ n bl S o false l h hw hrel
    · rename_i hc
      simp only [Bool.or_eq_true, bne_iff_ne, ne_eq, not_or, Bool.not_eq_true, Decidable.not_not] at hc
      obtain ⟨hd, hst⟩ := hc
      injection hr with hr; subst hr
      apply plain_W _ _ hrel
      apply isRun_of _ _ hrel (o.info.size * bl * n)
      · rw [hv_run n bl S o l h hd (by omega) hst hn]; simp only [info_plain]; congr 1; ring
      · rfl
      · simp only [info_plain]; omega

/-- `Datatype::create_vector` -/
theorem mkVector_walk (n bl st : Int) (o r : Obj) (l : Layout) (h : Rel1 o l) (hw : W o l) (hn : 0 ≤ n) (hS : 0 ≤ st)
    (hr : mkVector n bl st o = some r) : W r (place (dsHv n bl (st * l.extent) l.extent) l) := by
  have hrel := mkVector_rel n bl st o r l h hn hS hr
  unfold mkVector at hr
  split at hr
  · cases hr
  · rename_i hbl
    simp only [h.ext] at hr
    split at hr
    · injection hr with hr; subst hr
      exact hv_obj_W _ n bl _ o true l h hw hrel
    · rename_i hc
      simp only [Bool.or_eq_true, bne_iff_ne, ne_eq, not_or, Bool.not_eq_true, Decidable.not_not] at hc
      obtain ⟨hd, hst⟩ := hc
      have hrel' := hrel
      injection hr with hr; subst hr
      apply plain_W _ _ hrel
      apply isRun_of _ _ hrel (o.info.size * bl * n)
      · rw [hv_run n bl _ o l h hd (by omega) (by rw [hst]) hn]; simp only [info_plain]; congr 1; ring
      · rfl
      · have := hrel'.size
        have e1 := hrel'.lb
        have e2 := hrel'.ub
        simp only [info_plain] at this e1 e2 ⊢
        rw [hst]; ring

/-- `MPI_Type_contiguous` -/
theorem mkContiguous_walk (n : Int) (o r : Obj) (l : Layout) (h : Rel1 o l) (hw : W o l) (hn : 0 ≤ n)
    (hr : mkContiguous n o 0 = some r) : W r (place (dsHv n 1 l.extent l.extent) l) := by
  have hrel := mkContiguous_rel n o r l h hn hr
  cases hd : o.info.derived with
  | true =>
    have : mkHvector n 1 o.info.extent o = some r := by simpa [mkContiguous, hd] using hr
    rw [h.ext] at this
    exact mkHvector_walk n 1 _ o r l h hw hn h.ext_nonneg this
  | false =>
    apply mkContiguous_run_W n o r 0 _ hd hr hrel
    obtain ⟨g1, g2⟩ := mkContiguous_info n o r 0 hd hr
    obtain ⟨s1, _⟩ := mkContiguous_size n o r 0 hd hr
    apply isRun_of _ _ hrel (n * o.info.size)
    · rw [hv_run n 1 _ o l h hd (by omega) (by ring) hn, g1]; congr 1; ring
    · exact s1
    · rw [g1, g2]

/-- `Datatype::create_resized` -/
theorem mkResized_walk (o : Obj) (l : Layout) (lb ext : Int) (h : Rel1 o l) (hw : W o l) :
    W (mkResized o lb ext) ⟨l.bytes, lb, lb + ext⟩ := by
  intro cnt base
  have hm : ∀ p, blockB markerObj 1 p = [] := by
    intro p; simp [blockB, markerObj, byteRange]
  have r1 : Spec.range 1 = [0] := rfl
  have ho : ∀ p, blockB o 1 p = l.bytes.map (· + p) := by
    intro p
    rw [blockB_eq h hw, bytesOf_def, r1]
    simp only [List.flatMap_cons, List.flatMap_nil, List.append_nil, List.map_map]
    apply List.map_congr_left
    intro x _
    simp only [Function.comp]; omega
  rw [mkResized, walk_struct, bytesOf_simple]
  simp only [walkBlocks_cons, walkBlocks_nil, hm, ho, List.nil_append, List.append_nil, Layout.extent, Info.extent]
  congr 1; funext k
  apply List.map_congr_left
  intro x _
  omega


/-! ############ (was WalkC.lean) ############ -/
/-
C30 — walk = typemap for create_indexed / create_hindexed (Type_Indexed / Type_Hindexed objects and the contiguous
shortcut: blocks that chain form one run).
-/

/-- Type_Indexed / Type_Hindexed object: the stored blocks are `(bl, idx * scale)` -/
theorem idx_obj_W (i : Info) (bs : List (Int × Int)) (scale : Int) (o : Obj) (f : Bool) (l : Layout) (h : Rel1 o l)
    (hw : W o l)
    (hrel : Rel1 (.hindexed i (bs.map (fun b => (b.1, b.2 * scale))) o f) (place (dsIdx bs scale l.extent) l)) :
    W (.hindexed i (bs.map (fun b => (b.1, b.2 * scale))) o f) (place (dsIdx bs scale l.extent) l) := by
  intro cnt base
  have hb : (place (dsIdx bs scale l.extent) l).bytes = bs.flatMap (fun b => (bytesOf l b.1).map (· + b.2 * scale)) := by
    simp only [dsIdx]; rw [place_blocks_bytes]
  rw [walk_hindexed, bytesOf_blocks _ _ _ hb, ← hrel.ext]
  simp only [info_hindexed, List.map_map, List.flatMap_map]
  congr 1; funext j; congr 1; funext b
  rw [blockB_eq h hw]
  apply List.map_congr_left
  intro x _
  simp only [Function.comp]; omega

/-- the typemap bytes of one block over a natural (non-derived) old type of size `e`: a segment -/
theorem block_seg {o : Obj} {l : Layout} (h : Rel1 o l) (hd : o.info.derived = false) (bl D : Int) :
    (bytesOf l bl).map (· + D) = seg D (bl * o.info.size) := by
  rw [run_bytesOf l (natural_isRun h hd), (h.nat hd).1, ← h.size]; congr 1; ring

/-- create_indexed / create_hindexed over an old type with the natural bounds: when the loop ends with `contiguous`
    still set, the blocks placed so far form one run starting at lb (`acc` = the bytes before this suffix of the loop) -/
theorem idxLoop_run (scale csize e : Int) (he : 0 ≤ e) (hcs : ∀ x : Int, (csize * x) * scale = x * e) :
    ∀ (bs : List (Int × Int)) (s : Int) (st : Int × Int × Bool) (c : Bool) (acc : List Int), 0 ≤ s →
      ((st = (0, 0, true) ∧ s = 0) ∨
       (st.2.2 = false ∧ st.2.1 = st.1 + s * e ∧ ∀ b ∈ bs.head?, b.2 * scale = st.2.1)) →
      acc = seg st.1 (s * e) →
      ∀ r, idxLoop scale csize 0 e e bs s st c = some r → r.2.2.2 = true →
        acc ++ bs.flatMap (fun b => seg (b.2 * scale) (b.1 * e)) = seg r.2.1 (r.1 * e) := by
  intro bs
  induction bs with
  | nil =>
    intro s st c acc _ hst hacc r hr _
    simp only [idxLoop, Option.some.injEq] at hr
    subst hr
    simpa using hacc
  | cons b rest ih =>
    intro s st c acc hs hst hacc r hr hfin
    obtain ⟨bl, idx⟩ := b
    simp only [idxLoop] at hr
    split at hr
    · cases hr
    · rename_i hbl
      have hflag := idxLoop_flag _ _ _ _ _ _ _ _ _ _ hr hfin
      simp only [Bool.and_eq_true] at hflag
      have hchain := hflag.2
      have hble : 0 ≤ bl * e := Int.mul_nonneg (by omega) he
      have hse : 0 ≤ s * e := Int.mul_nonneg hs he
      have h1 : (bl - 1) * e = bl * e - e := by rw [Int.sub_mul, Int.one_mul]
      have h2 : (s + bl) * e = s * e + bl * e := Int.add_mul _ _ _
      have hnext : ∀ b ∈ rest.head?, b.2 * scale = idx * scale + bl * e := by
        intro b hb
        cases rest with
        | nil => simp at hb
        | cons b' r' =>
          simp only [List.head?_cons, Option.mem_def, Option.some.injEq] at hb
          subst hb
          simp only [List.head?_cons, Option.map_some, chainOk, beq_iff_eq] at hchain
          rw [← hchain, Int.add_mul, hcs]
      simp only [List.flatMap_cons, ← List.append_assoc]
      refine ih (s + bl) _ _ _ (by omega) ?_ ?_ r hr hfin
      · by_cases hpos : bl > 0
        · right
          unfold blockBounds
          simp only [hpos, if_true]
          rcases hst with ⟨rfl, rfl⟩ | ⟨hf, hub, hhead⟩
          · simp only [Bool.true_or, if_true]
            refine ⟨trivial, by omega, ?_⟩
            intro b hb
            rw [hnext b hb]; omega
          · have hidx : idx * scale = st.2.1 := hhead (bl, idx) (by simp)
            simp only [hf, Bool.false_or, decide_eq_true_eq]
            have hnl : ¬ (idx * scale + 0 < st.1) := by omega
            simp only [hnl, if_false]
            refine ⟨trivial, ?_, ?_⟩
            · split <;> omega
            · intro b hb
              rw [hnext b hb]
              split <;> omega
        · have hz : bl = 0 := by omega
          subst hz
          unfold blockBounds
          simp only [Int.lt_irrefl, gt_iff_lt, if_false]
          rcases hst with ⟨rfl, rfl⟩ | ⟨hf, hub, hhead⟩
          · left; exact ⟨rfl, by omega⟩
          · right
            have hidx : idx * scale = st.2.1 := hhead (0, idx) (by simp)
            refine ⟨hf, by omega, ?_⟩
            intro b hb
            rw [hnext b hb]; omega
      · -- the bytes: acc ++ this block = one segment from the (new) lb
        by_cases hpos : bl > 0
        · unfold blockBounds
          simp only [hpos, if_true]
          rcases hst with ⟨rfl, rfl⟩ | ⟨hf, hub, hhead⟩
          · simp only [Bool.true_or, if_true] at hacc ⊢
            rw [hacc, seg_nil _ _ (by omega), List.nil_append]
            congr 1 <;> ring
          · have hidx : idx * scale = st.2.1 := hhead (bl, idx) (by simp)
            simp only [hf, Bool.false_or, decide_eq_true_eq]
            have hnl : ¬ (idx * scale + 0 < st.1) := by omega
            simp only [hnl, if_false]
            rw [hacc, h2, ← seg_append st.1 (s * e) (bl * e) hse hble, hidx, hub]
        · have hz : bl = 0 := by omega
          subst hz
          unfold blockBounds
          simp only [Int.lt_irrefl, gt_iff_lt, if_false]
          rw [hacc, seg_nil _ (0 * e) (by omega), List.append_nil]
          congr 1; ring

/-- MPI's typemap of an indexed / hindexed type over a natural old type, as segments -/
theorem dsIdx_segs (bs : List (Int × Int)) (scale : Int) {o : Obj} {l : Layout} (h : Rel1 o l)
    (hd : o.info.derived = false) :
    (place (dsIdx bs scale l.extent) l).bytes = bs.flatMap (fun b => seg (b.2 * scale) (b.1 * o.info.size)) := by
  simp only [dsIdx]; rw [place_blocks_bytes]
  congr 1; funext b
  exact block_seg h hd b.1 _

/-- `Datatype::create_indexed` -/
theorem mkIndexed_walk (bs : List (Int × Int)) (o r : Obj) (l : Layout) (h : Rel1 o l) (hw : W o l)
    (hr : mkIndexed bs o = some r) : W r (place (dsIdx bs l.extent l.extent) l) := by
  have hrel := mkIndexed_rel bs o r l h hr
  unfold mkIndexed at hr
  simp only at hr
  split at hr
  · cases hr
  · rename_i size lb ub c heq
    have fin1 : some (Obj.hindexed ⟨size * o.info.size, lb, ub, true⟩ (bs.map (fun b => (b.1, b.2 * o.info.extent))) o true) = some r →
        W r (place (dsIdx bs l.extent l.extent) l) := by
      intro hr
      injection hr with hr; subst hr
      rw [h.ext] at hrel ⊢
      exact idx_obj_W _ bs _ o true l h hw hrel
    have fin2 : o.info.derived = false → c = true → mkContiguous size o lb = some r → W r (place (dsIdx bs l.extent l.extent) l) := by
      intro hd hc hr
      apply mkContiguous_run_W size o r lb _ hd hr hrel
      obtain ⟨g1, g2⟩ := mkContiguous_info size o r lb hd hr
      obtain ⟨s1, _⟩ := mkContiguous_size size o r lb hd hr
      obtain ⟨n1, n2, n3, n4⟩ := h.natural hd
      apply isRun_of _ _ hrel (size * o.info.size) _ s1 (by rw [g1, g2])
      rw [dsIdx_segs bs _ h hd, g1, n4]
      rw [n1, n2, n3, hc] at heq
      have := idxLoop_run o.info.size 1 o.info.size h.size_nonneg (fun x => by rw [Int.one_mul]) bs 0 (0, 0, true)
        true [] (by omega) (Or.inl ⟨rfl, rfl⟩) (by simp [seg_nil]) _ heq rfl
      simpa using this
    cases hd : o.info.derived with
    | true => simp only [hd, if_true, Bool.not_false] at hr; exact fin1 hr
    | false =>
      cases hc : c with
      | false => simp only [hd, hc, Bool.false_eq_true, if_false, Bool.not_false, if_true] at hr; exact fin1 hr
      | true =>
        simp only [hd, hc, Bool.false_eq_true, if_false, Bool.not_true] at hr
        exact fin2 hd hc hr

/-- `Datatype::create_hindexed` -/
theorem mkHindexed_walk (bs : List (Int × Int)) (o r : Obj) (l : Layout) (h : Rel1 o l) (hw : W o l)
    (hr : mkHindexed bs o = some r) : W r (place (dsIdx bs 1 l.extent) l) := by
  have hrel := mkHindexed_rel bs o r l h hr
  unfold mkHindexed at hr
  simp only at hr
  split at hr
  · cases hr
  · rename_i size lb ub c heq
    have hbs : bs.map (fun b => (b.1, b.2 * 1)) = bs := by simp
    have fin1 : some (Obj.hindexed ⟨size * o.info.size, lb, ub, true⟩ bs o false) = some r →
        W r (place (dsIdx bs 1 l.extent) l) := by
      intro hr
      injection hr with hr; subst hr
      have := idx_obj_W ⟨size * o.info.size, lb, ub, true⟩ bs 1 o false l h hw (by rw [hbs]; exact hrel)
      rwa [hbs] at this
    have fin2 : o.info.derived = false → c = true → mkContiguous size o lb = some r → W r (place (dsIdx bs 1 l.extent) l) := by
      intro hd hc hr
      apply mkContiguous_run_W size o r lb _ hd hr hrel
      obtain ⟨g1, g2⟩ := mkContiguous_info size o r lb hd hr
      obtain ⟨s1, _⟩ := mkContiguous_size size o r lb hd hr
      obtain ⟨n1, n2, n3, n4⟩ := h.natural hd
      apply isRun_of _ _ hrel (size * o.info.size) _ s1 (by rw [g1, g2])
      rw [dsIdx_segs bs _ h hd, g1]
      rw [n1, n2, n3, hc] at heq
      have := idxLoop_run 1 o.info.size o.info.size h.size_nonneg (fun x => by rw [Int.mul_one, Int.mul_comm]) bs 0
        (0, 0, true) true [] (by omega) (Or.inl ⟨rfl, rfl⟩) (by simp [seg_nil]) _ heq rfl
      simpa using this
    cases hd : o.info.derived with
    | true => simp only [hd, Bool.true_or, if_true, Bool.not_false] at hr; exact fin1 hr
    | false =>
      by_cases hlb : lb = 0
      · subst hlb
        cases hc : c with
        | false =>
          simp only [hd, hc, bne_self_eq_false, Bool.or_self, Bool.false_eq_true, if_false, Bool.not_false, if_true] at hr
          exact fin1 hr
        | true =>
          simp only [hd, hc, bne_self_eq_false, Bool.or_self, Bool.false_eq_true, if_false, Bool.not_true] at hr
          exact fin2 hd hc hr
      · have : (lb != 0) = true := by simpa using hlb
        simp only [hd, this, Bool.or_true, if_true, Bool.not_false] at hr
        exact fin1 hr


end SgVerif.C30
