import SgVerif.C30.Closure
/-
C30 — `Rel1` is preserved by create_hvector / create_vector / create_contiguous.
-/
set_option linter.unusedSimpArgs false
set_option linter.unusedVariables false
namespace SgVerif.C30
open Spec

@[simp] theorem info_plain (i : Info) : (Obj.plain i).info = i := rfl
@[simp] theorem info_contig (i : Info) (n : Int) (o : Obj) : (Obj.contig i n o).info = i := rfl
@[simp] theorem info_hvector (i : Info) (n bl s : Int) (o : Obj) (b : Bool) : (Obj.hvector i n bl s o b).info = i := rfl
@[simp] theorem info_hindexed (i : Info) (bs : List (Int × Int)) (o : Obj) (b : Bool) : (Obj.hindexed i bs o b).info = i := rfl
@[simp] theorem info_struct (i : Info) (bs : Blocks) : (Obj.struct i bs).info = i := rfl

/-! ### create_hvector / create_vector / create_contiguous -/

theorem ite_and_decide (n bl a b : Int) :
    (if (decide (n > 0) && decide (bl > 0)) = true then a else b) = if n > 0 ∧ bl > 0 then a else b := by
  by_cases h1 : n > 0 <;> by_cases h2 : bl > 0 <;> simp [h1, h2]

/-- `Datatype::create_hvector` (0 ≤ count, 0 ≤ stride) -/
theorem mkHvector_rel (n bl S : Int) (o r : Obj) (l : Layout) (h : Rel1 o l) (hn : 0 ≤ n) (hS : 0 ≤ S)
    (hr : mkHvector n bl S o = some r) : Rel1 r (place (dsHv n bl S l.extent) l) := by
  have hb := dsHv_bounds n bl S l.extent l hS h.ext_nonneg
  unfold mkHvector at hr
  split at hr
  · cases hr
  · rename_i hbl
    have hbl : 0 ≤ bl := by omega
    have hsz : (place (dsHv n bl S l.extent) l).size = o.info.size * bl * n := by
      rw [place_size, dsHv_length n bl S _ hn hbl, h.size]; ring
    simp only [h.ext, h.lb, h.ub, ite_and_decide] at hr
    split at hr
    · injection hr with hr; subst hr
      refine ⟨?_, ?_, place_le _ _ h.le, by simp only [info_plain, info_hvector]; rw [hsz], fun hd => by simp at hd⟩
      · simp only [info_hvector, hb.1]
      · simp only [info_hvector, hb.2]
    · rename_i hc
      simp only [Bool.or_eq_true, bne_iff_ne, ne_eq, not_or, Bool.not_eq_true, Decidable.not_not] at hc
      obtain ⟨hd, hst⟩ := hc
      obtain ⟨n1, n2, n3, n4⟩ := h.natural hd
      obtain ⟨m1, m2, _⟩ := h.nat hd
      injection hr with hr; subst hr
      refine ⟨?_, ?_, place_le _ _ h.le, by simp only [info_plain, info_hvector]; rw [hsz], fun hd => by simp at hd⟩
      · simp only [info_plain, hb.1, m1]; split <;> rfl
      · rw [info_plain, hb.2]; simp only [m2, hst, n4]
        by_cases c : n > 0 ∧ bl > 0
        · rw [if_pos c]; ring
        · rw [if_neg c]
          have : n = 0 ∨ bl = 0 := by omega
          rcases this with rfl | rfl <;> ring

theorem dsVec_eq (n bl st e : Int) :
    (Spec.range n).flatMap (fun i => (Spec.range bl).map (fun j => (i * st + j) * e)) = dsHv n bl (st * e) e := by
  simp only [dsHv]
  congr 1; funext i; congr 1; funext j; ring

/-- `Datatype::create_vector` (0 ≤ count, 0 ≤ stride) -/
theorem mkVector_rel (n bl st : Int) (o r : Obj) (l : Layout) (h : Rel1 o l) (hn : 0 ≤ n) (hS : 0 ≤ st)
    (hr : mkVector n bl st o = some r) : Rel1 r (place (dsHv n bl (st * l.extent) l.extent) l) := by
  have he := h.ext_nonneg
  have hb := dsHv_bounds n bl (st * l.extent) l.extent l (Int.mul_nonneg hS he) he
  unfold mkVector at hr
  split at hr
  · cases hr
  · rename_i hbl
    have hbl : 0 ≤ bl := by omega
    have hsz : (place (dsHv n bl (st * l.extent) l.extent) l).size = o.info.size * bl * n := by
      rw [place_size, dsHv_length n bl _ _ hn hbl, h.size]; ring
    simp only [h.ext, h.lb, h.ub, ite_and_decide] at hr
    split at hr
    · injection hr with hr; subst hr
      refine ⟨?_, ?_, place_le _ _ h.le, by simp only [info_plain, info_hvector]; rw [hsz], fun hd => by simp at hd⟩
      · simp only [info_hvector, hb.1]
      · simp only [info_hvector, hb.2]
        by_cases c : n > 0 ∧ bl > 0
        · rw [if_pos c, if_pos c]; ring
        · rw [if_neg c, if_neg c]
    · rename_i hc
      simp only [Bool.or_eq_true, bne_iff_ne, ne_eq, not_or, Bool.not_eq_true, Decidable.not_not] at hc
      obtain ⟨hd, hst⟩ := hc
      obtain ⟨n1, n2, n3, n4⟩ := h.natural hd
      obtain ⟨m1, m2, _⟩ := h.nat hd
      injection hr with hr; subst hr
      refine ⟨?_, ?_, place_le _ _ h.le, by simp only [info_plain, info_hvector]; rw [hsz], fun hd => by simp at hd⟩
      · simp only [info_plain, hb.1, m1]; split <;> rfl
      · rw [info_plain, hb.2]; simp only [m2, hst, n4]
        by_cases c : n > 0 ∧ bl > 0
        · rw [if_pos c]; ring
        · rw [if_neg c]
          have : n = 0 ∨ bl = 0 := by omega
          rcases this with rfl | rfl <;> ring

theorem dsContig_eq (n e : Int) : (Spec.range n).map (· * e) = dsHv n 1 e e := by
  have : Spec.range 1 = [0] := rfl
  simp only [dsHv, this, List.map_cons, List.map_nil]
  induction (Spec.range n) with
  | nil => rfl
  | cons a t ih => simp only [List.map_cons, List.flatMap_cons, ih, List.singleton_append]; congr 1; ring

/-- `Datatype::create_contiguous(count, old, lb)` over a non-derived old type: a run of `count` elements at `lb` -/
theorem mkContiguous_size (count : Int) (old r : Obj) (lb : Int) (hd : old.info.derived = false)
    (h : mkContiguous count old lb = some r) : r.info.size = count * old.info.size ∧ (r.info.derived = false → count ≤ 0) := by
  unfold mkContiguous at h
  simp only [hd, Bool.false_eq_true, if_false] at h
  split at h <;> (injection h with h; subst h; simp) <;> omega

/-- `MPI_Type_contiguous` (0 ≤ count) -/
theorem mkContiguous_rel (n : Int) (o r : Obj) (l : Layout) (h : Rel1 o l) (hn : 0 ≤ n)
    (hr : mkContiguous n o 0 = some r) : Rel1 r (place (dsHv n 1 l.extent l.extent) l) := by
  cases hd : o.info.derived with
  | true =>
    have : mkHvector n 1 o.info.extent o = some r := by simpa [mkContiguous, hd] using hr
    rw [h.ext] at this
    exact mkHvector_rel n 1 _ o r l h hn h.ext_nonneg this
  | false =>
    have hb := dsHv_bounds n 1 l.extent l.extent l h.ext_nonneg h.ext_nonneg
    obtain ⟨g1, g2⟩ := mkContiguous_info n o r 0 hd hr
    obtain ⟨s1, s2⟩ := mkContiguous_size n o r 0 hd hr
    obtain ⟨n1, n2, n3, n4⟩ := h.natural hd
    obtain ⟨m1, m2, _⟩ := h.nat hd
    have hsz : (place (dsHv n 1 l.extent l.extent) l).size = n * o.info.size := by
      rw [place_size, dsHv_length n 1 _ _ hn (by omega), h.size]; ring
    refine ⟨?_, ?_, place_le _ _ h.le, by rw [s1, hsz], ?_⟩
    · rw [g1, hb.1, m1]; split <;> rfl
    · rw [g2, hb.2, m2, n4]
      by_cases c : n > 0 ∧ (1 : Int) > 0
      · rw [if_pos c]; ring
      · rw [if_neg c]
        have : n = 0 := by omega
        subst this; ring
    · intro hnd
      have hn0 : n = 0 := by have := s2 hnd; omega
      have hz : r.info.size = 0 := by rw [s1, hn0]; ring
      have hnil := dsHv_nil n 1 l.extent l.extent (by omega)
      refine ⟨?_, ?_, nat_of_empty _ _ (by rw [s1, hsz]) hz⟩
      · rw [place_lb, hnil]; rfl
      · rw [place_ub, hnil, hz]; rfl

end SgVerif.C30
