import SgVerif.C30.WalkD
/-
C30 — walk = typemap for create_subarray with ndims ≥ 2: the chain vector → hvector … → hindexed(1) → resized that
the code builds selects the elements `Spec.subPositions` enumerates, in the same order.
-/
set_option linter.unusedSimpArgs false
set_option linter.unusedVariables false
set_option linter.unnecessarySeqFocus false
namespace SgVerif.C30
open Spec

/-- selected positions without the start offsets (dims slowest-varying first) -/
def qpos : List (Int × Int × Int) → List Int
  | [] => [0]
  | (_, sub, _) :: rest => (Spec.range sub).flatMap (fun k => (qpos rest).map (· + k * prodF (rest.map (·.1))))

/-- linear position of the first selected element -/
def qoff : List (Int × Int × Int) → Int
  | [] => 0
  | (_, _, start) :: rest => start * prodF (rest.map (·.1)) + qoff rest

theorem subPositions_q : ∀ ds : List (Int × Int × Int), subPositions ds = (qpos ds).map (· + qoff ds) := by
  intro ds
  induction ds with
  | nil => simp [subPositions, qpos, qoff]
  | cons d rest ih =>
    obtain ⟨sz, sub, start⟩ := d
    simp only [subPositions, qpos, qoff, ih, List.map_flatMap, List.map_map]
    congr 1; funext k
    apply List.map_congr_left
    intro p _
    simp only [Function.comp, prodF]; ring

/-- the typemap bytes of the elements at the linear positions `ps` -/
def bytesAt (l : Layout) (ps : List Int) : List Int := ps.flatMap (fun p => l.bytes.map (· + p * l.extent))

theorem bytesAt_map_add (l : Layout) (ps : List Int) (c : Int) :
    bytesAt l (ps.map (· + c)) = (bytesAt l ps).map (· + c * l.extent) := by
  simp only [bytesAt, List.flatMap_map, List.map_flatMap, List.map_map]
  congr 1; funext p
  apply List.map_congr_left
  intro x _
  simp only [Function.comp]; ring

theorem subL_bytes (dims : List (Int × Int × Int)) (c : Bool) (l : Layout) :
    (subL dims c l).bytes = bytesAt l (subPositions (if c then dims else dims.reverse)) := by
  simp only [subL, place, bytesAt, List.flatMap_map]

/-- one step of the hvector loop on the MPI side: `sub` copies of the positions so far at stride `size` -/
theorem hv1_bytes (sub S : Int) (T : Layout) :
    (place (dsHv sub 1 S T.extent) T).bytes = (Spec.range sub).flatMap (fun i => T.bytes.map (· + i * S)) := by
  have r1 : Spec.range 1 = [0] := rfl
  simp only [place, dsHv, r1, List.map_cons, List.map_nil, List.flatMap_assoc, List.flatMap_cons, List.flatMap_nil,
    List.append_nil]
  congr 1; funext i
  apply List.map_congr_left
  intro x _
  ring

theorem qpos_step (l : Layout) (sz sub st : Int) (dr : List (Int × Int × Int)) :
    (Spec.range sub).flatMap (fun i => (bytesAt l (qpos dr)).map (· + i * (prodF (dr.map (·.1)) * l.extent))) =
      bytesAt l (qpos ((sz, sub, st) :: dr)) := by
  simp only [qpos, bytesAt, List.flatMap_assoc, List.map_flatMap, List.flatMap_map, List.map_map]
  congr 1; funext i; congr 1; funext p
  apply List.map_congr_left
  intro x _
  simp only [Function.comp]; ring

/-- the hvector loop of create_subarray: invariant -/
theorem subarrayLoop_inv (l : Layout) : ∀ (rest : List (Int × Int × Int)) (tmp : Obj) (size lb : Int)
    (done : List (Int × Int × Int)) (T : Layout),
    Rel1 tmp T → W tmp T → T.bytes = bytesAt l (qpos done.reverse) → size = prodF (done.map (·.1)) →
    lb = qoff done.reverse → (∀ d ∈ done, 0 < d.1) → (∀ d ∈ rest, 0 < d.1 ∧ 0 ≤ d.2.1 ∧ 0 ≤ d.2.2) → 0 ≤ l.extent →
    ∀ res, subarrayLoop l.extent rest tmp size lb = some res →
      ∃ T', Rel1 res.1 T' ∧ W res.1 T' ∧ T'.bytes = bytesAt l (qpos (done ++ rest).reverse) ∧
        res.2.1 = prodF ((done ++ rest).map (·.1)) ∧ res.2.2 = qoff (done ++ rest).reverse := by
  intro rest
  induction rest with
  | nil =>
    intro tmp size lb done T hrel hw hb hs hl _ _ _ res h
    simp only [subarrayLoop, Option.some.injEq] at h
    subst h
    exact ⟨T, hrel, hw, by simpa using hb, by simpa using hs, by simpa using hl⟩
  | cons d rest ih =>
    intro tmp size lb done T hrel hw hb hs hl hdone hrest he res h
    obtain ⟨sz, sub, start⟩ := d
    simp only [subarrayLoop] at h
    split at h
    · cases h
    · rename_i nt hnt
      obtain ⟨hsz, hsub, hstart⟩ := hrest (sz, sub, start) (by simp)
      have hsize : 0 ≤ size := by
        rw [hs]; apply prodF_nonneg
        intro x hx
        obtain ⟨d, hd, rfl⟩ := List.mem_map.mp hx
        exact Int.le_of_lt (hdone d hd)
      have hS : 0 ≤ size * l.extent := Int.mul_nonneg hsize he
      have r1 := mkHvector_rel sub 1 _ tmp nt T hrel hsub hS hnt
      have w1 := mkHvector_walk sub 1 _ tmp nt T hrel hw hsub hS hnt
      have hb1 : (place (dsHv sub 1 (size * l.extent) T.extent) T).bytes =
          bytesAt l (qpos (done ++ [(sz, sub, start)]).reverse) := by
        rw [hv1_bytes, hb, hs, List.reverse_append, List.reverse_singleton, List.singleton_append]
        have : prodF (done.map (·.1)) = prodF (done.reverse.map (·.1)) := by rw [List.map_reverse, prodF_reverse]
        rw [this]
        exact qpos_step l sz sub start done.reverse
      have := ih nt (size * sz) (lb + size * start) (done ++ [(sz, sub, start)]) _ r1 w1 hb1
        (by rw [hs, List.map_append, prodF_append]; simp [prodF_cons, prodF_nil])
        (by
          rw [hl, hs, List.reverse_append, List.reverse_singleton, List.singleton_append]
          simp only [qoff]
          rw [List.map_reverse, prodF_reverse]; ring)
        (by
          intro d hd
          simp only [List.mem_append, List.mem_singleton] at hd
          rcases hd with hd | rfl
          · exact hdone d hd
          · exact hsz)
        (fun d hd => hrest d (by simp [hd])) he res h
      simpa [List.append_assoc] using this

theorem vec_bytes (l : Layout) (d0 d1 : Int × Int × Int) :
    (place (dsHv d1.2.1 d0.2.1 (d0.1 * l.extent) l.extent) l).bytes = bytesAt l (qpos [d1, d0]) := by
  obtain ⟨sz0, sub0, st0⟩ := d0
  obtain ⟨sz1, sub1, st1⟩ := d1
  simp only [place, dsHv, qpos, bytesAt, List.flatMap_assoc, List.flatMap_map, List.map_nil, List.map_cons, prodF_nil,
    prodF_cons, List.flatMap_cons, List.flatMap_nil, List.append_nil]
  congr 1; funext i; congr 1; funext j
  apply List.map_congr_left
  intro x _
  ring

/-- the body of create_subarray for ndims ≥ 2 -/
theorem subCore_walk (ds : List (Int × Int × Int)) (o r : Obj) (l : Layout) (h : Rel1 o l) (hw : W o l)
    (hchk : ∀ d ∈ ds, 0 < d.1 ∧ 0 ≤ d.2.1 ∧ 0 ≤ d.2.2) (hr : subCore ds o = some r) :
    W r ⟨bytesAt l (subPositions ds.reverse), 0, 0 + prodF (ds.map (·.1)) * l.extent⟩ := by
  unfold subCore at hr
  split at hr
  · rename_i sz0 sub0 st0 sz1 sub1 st1 rest
    simp only at hr
    split at hr
    · cases hr
    · rename_i v hv
      split at hr
      · cases hr
      · rename_i tmp size lb hloop
        split at hr
        · cases hr
        · rename_i hh hhe
          injection hr with hr
          obtain ⟨c0a, c0b, c0c⟩ := hchk (sz0, sub0, st0) (by simp)
          obtain ⟨c1a, c1b, c1c⟩ := hchk (sz1, sub1, st1) (by simp)
          have he := h.ext_nonneg
          rw [h.ext] at hloop hhe hr
          have rv := mkVector_rel sub1 sub0 sz0 o v l h c1b (by omega) hv
          have wv := mkVector_walk sub1 sub0 sz0 o v l h hw c1b (by omega) hv
          have hbv := vec_bytes l (sz0, sub0, st0) (sz1, sub1, st1)
          simp only at hbv
          obtain ⟨T', rT, wT, bT, sT, lT⟩ := subarrayLoop_inv l rest v (sz0 * sz1) (st0 + st1 * sz0)
            [(sz0, sub0, st0), (sz1, sub1, st1)] _ rv wv (by simpa using hbv)
            (by simp [prodF_cons, prodF_nil])
            (by simp [qoff, prodF_cons, prodF_nil]; ring)
            (by intro d hd; simp only [List.mem_cons, List.mem_nil_iff, or_false] at hd; rcases hd with rfl | rfl <;> assumption)
            (fun d hd => hchk d (by simp [hd])) he _ hloop
          simp only at rT wT bT sT lT
          have rh := mkHindexed_rel _ tmp hh T' rT hhe
          have wh := mkHindexed_walk _ tmp hh T' rT wT hhe
          have := mkResized_walk hh _ 0 (size * l.extent) rh wh
          rw [hr] at this
          have hbytes : (place (dsIdx [(1, lb * l.extent)] 1 T'.extent) T').bytes =
              bytesAt l (subPositions ((sz0, sub0, st0) :: (sz1, sub1, st1) :: rest).reverse) := by
            have r1 : Spec.range 1 = [0] := rfl
            rw [subPositions_q, bytesAt_map_add]
            simp only [place, dsIdx, blockCopies, r1, List.flatMap_cons, List.flatMap_nil, List.append_nil, List.map_cons,
              List.map_nil, bT, lT]
            have e : ((sz0, sub0, st0) :: (sz1, sub1, st1) :: rest) = [(sz0, sub0, st0), (sz1, sub1, st1)] ++ rest := rfl
            rw [e]
            apply List.map_congr_left
            intro x _
            ring
          rw [hbytes, sT] at this
          exact this
  · cases hr

/-- `MPI_Type_create_subarray`, any number of dimensions ≥ 1 -/
theorem mkSubarray_walk (dims : List (Int × Int × Int)) (c : Bool) (o r : Obj) (l : Layout) (h : Rel1 o l) (hw : W o l)
    (hr : mkSubarray dims c o = some r) : W r (subL dims c l) := by
  match dims, hr with
  | [], hr => simp [mkSubarray] at hr
  | [(sz, sub, start)], hr => exact mkSubarray1_walk sz sub start c o r l h hw hr
  | d1 :: d2 :: rest, hr =>
    rw [mkSubarray_ge2] at hr
    split at hr
    · cases hr
    · rename_i hany
      split at hr
      · cases hr
      · split at hr
        · cases hr
        · have hchk := checks_of_any _ hany
          have hc' : ∀ d ∈ (if c = true then (d1 :: d2 :: rest).reverse else d1 :: d2 :: rest), 0 < d.1 ∧ 0 ≤ d.2.1 ∧ 0 ≤ d.2.2 := by
            intro d hd
            cases c
            · exact hchk d (by simpa using hd)
            · simp only [if_true] at hd
              exact hchk d (List.mem_reverse.mp hd)
          have := subCore_walk _ o r l h hw hc' hr
          have e : subL (d1 :: d2 :: rest) c l =
              ⟨bytesAt l (subPositions (if c = true then (d1 :: d2 :: rest).reverse else d1 :: d2 :: rest).reverse), 0,
                0 + prodF ((if c = true then (d1 :: d2 :: rest).reverse else d1 :: d2 :: rest).map (·.1)) * l.extent⟩ := by
            cases c
            · simp only [subL, Bool.false_eq_true, if_false, place, bytesAt, List.flatMap_map, Int.zero_add]
            · simp only [subL, if_true, place, bytesAt, List.flatMap_map, Int.zero_add, List.reverse_reverse,
                List.map_reverse, prodF_reverse]
          rw [e]; exact this

end SgVerif.C30
