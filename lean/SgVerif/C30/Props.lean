import SgVerif.C30.Walk2
/-
C30 — Derived datatypes have MPI layout and transfer exactly their bytes.  Property theorems.

FULL-STRENGTH statements of the property:
  size_eq_spec            ∀ t valid, build t = some o → o.info.size = (Spec.layout t).size
  lb_ub_extent_eq_spec    ∀ t valid with non-negative displacements, build t = some o →
                            o.info.lb = (Spec.layout t).lb ∧ o.info.ub = (Spec.layout t).ub
  copy_touches_only_typemap / pack_unpack_roundtrip
                          ∀ t, count: walk o count 0 = Spec.bytesOf (Spec.layout t) count
What is PROVED below (the model follows the code after props/C30/fix_series):
 * `size_eq_spec` — FULL STRENGTH, by induction on the tree: ∀ trees (every constructor, any nesting depth, any arguments),
   whenever the constructor calls succeed the size is MPI's;
 * `lb_ub_extent_eq_spec` — by induction on the tree, ∀ trees satisfying `Wf` (strides of vector / hvector ≥ 0, new
   extents of resized ≥ 0, no struct member with copies of an EMPTY type; everything else unconstrained: block lengths,
   counts, displacements of any sign and order, subarrays of any ndims ≥ 1 in both orders, dup anywhere): lb, ub, extent
   are MPI's.  Both exclusions are necessary on this model: `lb_ub_negative_stride_counterexample`,
   `lb_ub_empty_member_counterexample` (MPI does not define lb / ub of an empty typemap);
 * `walk_eq_typemap` — ∀ `Wf` trees, ∀ counts, ∀ base addresses: the byte offsets (un)serialize walks are exactly the
   typemap's offsets, in typemap order (count copies at stride extent); hence `copy_touches_only_typemap` (unpack ∘ pack
   with the same type copies exactly the bytes `Spec.layout` selects and leaves every other byte untouched — no
   distinctness hypothesis) and `pack_unpack_roundtrip` (stated on `Spec.bytesOf (Spec.layout t)`);
 * the per-constructor steps (`lb_ub_extent_eq_spec_indexed`, …), the older closure on the indexed family
   (`lb_ub_extent_eq_spec_idx_trees`), `pack_unpack_roundtrip_partial` (about the code's own walk) are kept;
 * the witnesses of the fixed defects as regression theorems (`…_regression`, `decide`).
Lemmas: Closure.lean, Closure2.lean (`Rel1`: lb / ub / size / natural bounds, preserved by every `mk*`), Walk.lean, Walk2.lean (`W`: walk = typemap).
Still false on the code (findings kept): true extent (`true-extent`), uncommitted old type of a ≥ 2-dimensional subarray
(`valid-type-rejected`).  Outside the theorems: negative strides / negative new extents, MPI_LB / MPI_UB members given by
the user, different send and receive types.
-/
namespace SgVerif.C30

/-- `MPI_Type_create_resized` over any tree: lb and ub are exactly the requested ones, as MPI defines. ∀ t, lb, extent. -/
theorem resized_lb_ub_eq_spec (t : Tree) (lb ext : Int) (o : Obj) (h : build t = some o) :
    ∃ r, build (.resized lb ext t) = some r ∧ r.info.lb = (Spec.layout (.resized lb ext t)).lb ∧
      r.info.ub = (Spec.layout (.resized lb ext t)).ub ∧ r.info.size = o.info.size := by
  simp [build, h, mkResized, Obj.info, Spec.layout]

theorem cloneObj_info (o : Obj) : (cloneObj o).info = o.info := by
  unfold cloneObj
  split <;> simp [Obj.info]

/-- `MPI_Type_dup` keeps size, lb, ub (∀ trees) -/
theorem dup_layout_eq (t : Tree) (o : Obj) (h : build t = some o) :
    ∃ r, build (.dup t) = some r ∧ r.info = o.info ∧ Spec.layout (.dup t) = Spec.layout t := by
  refine ⟨cloneObj o, ?_, cloneObj_info o, ?_⟩
  · simp [build, h]
  · simp [Spec.layout]

theorem length_flatMap_const {α β : Type} (l : List α) (f : α → List β) (n : Nat) (h : ∀ a ∈ l, (f a).length = n) :
    (l.flatMap f).length = l.length * n := by
  induction l with
  | nil => simp
  | cons a l ih =>
    simp only [List.flatMap_cons, List.length_append, List.length_cons]
    rw [h a (by simp), ih (fun b hb => h b (by simp [hb])), Nat.add_mul, Nat.one_mul, Nat.add_comm]

/-- MPI: a type made of k copies of `old` has k times its size (∀ displacement lists, ∀ old layouts) -/
theorem spec_size_place (ds : List Int) (old : Spec.Layout) : (Spec.place ds old).size = ds.length * old.size := by
  simp only [Spec.place, Spec.Layout.size]
  rw [length_flatMap_const ds _ old.bytes.length (by simp)]
  simp

/-! ### pack ∘ unpack on the bytes the code's walk selects (memory = function from offsets to bytes) -/

abbrev Mem := Int → Nat

def writeAll : List Int → List Nat → Mem → Mem
  | o :: os, v :: vs, m => writeAll os vs (fun a => if a = o then v else m a)
  | _, _, m => m

/-- `serialize`: the contiguous buffer holds the bytes at the walked offsets, in order -/
def serialize (o : Obj) (count : Int) (m : Mem) : List Nat := (walk o count 0).map m
/-- `unserialize` (MPI_REPLACE): the bytes of the contiguous buffer are stored at the walked offsets, in order -/
def unserialize (o : Obj) (count : Int) (stream : List Nat) (m : Mem) : Mem := writeAll (walk o count 0) stream m

theorem writeAll_other (os : List Int) : ∀ (vs : List Nat) (m : Mem) (a : Int), a ∉ os → writeAll os vs m a = m a := by
  induction os with
  | nil => intro vs m a _; cases vs <;> rfl
  | cons o os ih =>
    intro vs m a ha
    cases vs with
    | nil => rfl
    | cons v vs =>
      simp only [writeAll]
      rw [ih vs _ a (fun h => ha (by simp [h]))]
      have : a ≠ o := fun h => ha (by simp [h])
      simp [this]

theorem writeAll_read (os : List Int) : ∀ (vs : List Nat) (m : Mem), os.Nodup → vs.length = os.length →
    os.map (writeAll os vs m) = vs := by
  induction os with
  | nil => intro vs m _ hl; cases vs <;> simp_all [writeAll]
  | cons o os ih =>
    intro vs m hnd hl
    cases vs with
    | nil => simp at hl
    | cons v vs =>
      have hno : o ∉ os := (List.nodup_cons.mp hnd).1
      have hnd' := (List.nodup_cons.mp hnd).2
      have e1 : writeAll os vs (fun a => if a = o then v else m a) o = v := by
        rw [writeAll_other os vs _ o hno]; simp
      simp only [writeAll, List.map_cons, e1]
      rw [ih vs _ hnd' (by simpa using hl)]

/-- FULL STRENGTH would add `walk o count 0 = Spec.bytesOf (Spec.layout t) count` (not proved; it was false before
    props/C30/fix_series/06: see the `xfer` lines of corpus.txt).
    PROVED, ∀ objects the code can build, ∀ counts, ∀ memories: if the offsets the code walks are pairwise distinct, unpacking
    what was packed restores exactly those bytes and leaves every other byte of the destination untouched. -/
theorem pack_unpack_roundtrip_partial (o : Obj) (count : Int) (src dst : Mem) (hnd : (walk o count 0).Nodup) :
    serialize o count (unserialize o count (serialize o count src) dst) = serialize o count src ∧
    ∀ a, a ∉ walk o count 0 → unserialize o count (serialize o count src) dst a = dst a := by
  constructor
  · unfold serialize unserialize
    exact writeAll_read _ _ _ hnd (by simp)
  · intro a ha
    exact writeAll_other _ _ _ a ha

/-! ### per-constructor lb / ub theorems (∀ arguments) -/

theorem info_extent_eq (t : Tree) (o : Obj) (hlb : o.info.lb = (Spec.layout t).lb) (hub : o.info.ub = (Spec.layout t).ub) :
    o.info.extent = (Spec.layout t).extent := by
  simp only [Info.extent, Spec.Layout.extent, hlb, hub]

/-- **MPI_Type_indexed**, ∀ block lists (any lengths ≥ 0 incl. 0, any displacements, any order), ∀ old types that satisfy
    the spec: the lb and ub the code computes are MPI's (min / max over the placed copies of the old type's lb / ub;
    0 / 0 for a type without any copy).  Covers the Type_Indexed object and the contiguous shortcut. -/
theorem lb_ub_extent_eq_spec_indexed (bs : List (Int × Int)) (t : Tree) (o r : Obj) (ho : build t = some o)
    (hlb : o.info.lb = (Spec.layout t).lb) (hub : o.info.ub = (Spec.layout t).ub)
    (hext : 0 ≤ (Spec.layout t).extent)
    (hnat : o.info.derived = false → o.info.lb = 0 ∧ o.info.ub = o.info.size)
    (hr : build (.indexed bs t) = some r) :
    r.info.lb = (Spec.layout (.indexed bs t)).lb ∧ r.info.ub = (Spec.layout (.indexed bs t)).ub := by
  simp only [build, ho, Option.bind_some] at hr
  have hE := info_extent_eq t o hlb hub
  obtain ⟨h1, h2⟩ := mkIndexed_bounds bs o r (by rw [hE]; exact hext) hnat hr
  rw [h1, h2, hE, hlb, hub]
  have e : (fun (b : Int × Int) => (Spec.range b.1).map (fun j => (b.2 + j) * (Spec.layout t).extent)) =
      (fun b => blockCopies (b.2 * (Spec.layout t).extent) b.1 (Spec.layout t).extent) := by
    funext b; simp only [blockCopies]; congr 1; funext j; rw [Int.add_mul]
  simp only [Spec.layout, Spec.place, e]
  exact ⟨trivial, trivial⟩

/-- **MPI_Type_create_hindexed**, same statement (displacements in bytes) -/
theorem lb_ub_extent_eq_spec_hindexed (bs : List (Int × Int)) (t : Tree) (o r : Obj) (ho : build t = some o)
    (hlb : o.info.lb = (Spec.layout t).lb) (hub : o.info.ub = (Spec.layout t).ub)
    (hext : 0 ≤ (Spec.layout t).extent)
    (hnat : o.info.derived = false → o.info.lb = 0 ∧ o.info.ub = o.info.size)
    (hr : build (.hindexed bs t) = some r) :
    r.info.lb = (Spec.layout (.hindexed bs t)).lb ∧ r.info.ub = (Spec.layout (.hindexed bs t)).ub := by
  simp only [build, ho, Option.bind_some] at hr
  have hE := info_extent_eq t o hlb hub
  obtain ⟨h1, h2⟩ := mkHindexed_bounds bs o r (by rw [hE]; exact hext) hnat hr
  rw [h1, h2, hE, hlb, hub]
  have e : (fun (b : Int × Int) => (Spec.range b.1).map (fun j => b.2 + j * (Spec.layout t).extent)) =
      (fun b => blockCopies (b.2 * 1) b.1 (Spec.layout t).extent) := by
    funext b; simp only [blockCopies, Int.mul_one]
  simp only [Spec.layout, Spec.place, e]
  exact ⟨trivial, trivial⟩

/-- **MPI_Type_create_indexed_block** (same code path as indexed) -/
theorem lb_ub_extent_eq_spec_indexed_block (bl : Int) (ds : List Int) (t : Tree) (o r : Obj) (ho : build t = some o)
    (hlb : o.info.lb = (Spec.layout t).lb) (hub : o.info.ub = (Spec.layout t).ub)
    (hext : 0 ≤ (Spec.layout t).extent)
    (hnat : o.info.derived = false → o.info.lb = 0 ∧ o.info.ub = o.info.size)
    (hr : build (.indexedBlock bl ds t) = some r) :
    r.info.lb = (Spec.layout (.indexedBlock bl ds t)).lb ∧ r.info.ub = (Spec.layout (.indexedBlock bl ds t)).ub := by
  have hr' : build (.indexed (ds.map (fun d => (bl, d))) t) = some r := by
    simp only [build] at hr ⊢; exact hr
  have hs : Spec.layout (.indexedBlock bl ds t) = Spec.layout (.indexed (ds.map (fun d => (bl, d))) t) := by
    simp only [Spec.layout, List.flatMap_map]
  rw [hs]
  exact lb_ub_extent_eq_spec_indexed _ t o r ho hlb hub hext hnat hr'

/-- **MPI_Type_create_hindexed_block** (same code path as hindexed) -/
theorem lb_ub_extent_eq_spec_hindexed_block (bl : Int) (ds : List Int) (t : Tree) (o r : Obj) (ho : build t = some o)
    (hlb : o.info.lb = (Spec.layout t).lb) (hub : o.info.ub = (Spec.layout t).ub)
    (hext : 0 ≤ (Spec.layout t).extent)
    (hnat : o.info.derived = false → o.info.lb = 0 ∧ o.info.ub = o.info.size)
    (hr : build (.hindexedBlock bl ds t) = some r) :
    r.info.lb = (Spec.layout (.hindexedBlock bl ds t)).lb ∧ r.info.ub = (Spec.layout (.hindexedBlock bl ds t)).ub := by
  have hr' : build (.hindexed (ds.map (fun d => (bl, d))) t) = some r := by
    simp only [build] at hr ⊢; exact hr
  have hs : Spec.layout (.hindexedBlock bl ds t) = Spec.layout (.hindexed (ds.map (fun d => (bl, d))) t) := by
    simp only [Spec.layout, List.flatMap_map]
  rw [hs]
  exact lb_ub_extent_eq_spec_hindexed _ t o r ho hlb hub hext hnat hr'

/-- **MPI_Type_create_struct**, ∀ member lists (any block lengths ≥ 0 incl. 0, any displacements, any order, members of
    different types), every member satisfying the spec (`MembersOk`): the lb and ub the code computes are MPI's (min / max
    over the members that have at least one copy; 0 / 0 without any).  Covers the Type_Struct object and the contiguous
    shortcut (MPI_CHAR run). -/
theorem lb_ub_extent_eq_spec_struct (m : Members) (ms : List (Int × Int × Obj)) (r : Obj)
    (hm : buildMembers m = some ms) (hok : MembersOk m ms)
    (hnat : ∀ x ∈ ms, x.2.2.info.derived = false →
      x.2.2.info.lb = 0 ∧ x.2.2.info.ub = x.2.2.info.size ∧ 0 ≤ x.2.2.info.size)
    (hr : build (.struct m) = some r) :
    r.info.lb = (Spec.layout (.struct m)).lb ∧ r.info.ub = (Spec.layout (.struct m)).ub := by
  simp only [build, hm, Option.bind_some] at hr
  obtain ⟨h1, h2⟩ := mkStruct_bounds ms r hnat hr
  obtain ⟨s1, s2⟩ := spec_members m ms hok
  rw [h1, h2]
  refine ⟨?_, ?_⟩ <;> simp only [Spec.layout, s1, s2]

/-- **one-dimensional MPI_Type_create_subarray**, ∀ sizes / subsizes / starts / order, ∀ old types: lb = 0 and the extent
    is the one of the full array, as MPI defines -/
theorem lb_ub_extent_eq_spec_subarray_ndims1 (sz sub start : Int) (c : Bool) (t : Tree) (o r : Obj) (ho : build t = some o)
    (hlb : o.info.lb = (Spec.layout t).lb) (hub : o.info.ub = (Spec.layout t).ub)
    (hr : build (.subarray [(sz, sub, start)] c t) = some r) :
    r.info.lb = (Spec.layout (.subarray [(sz, sub, start)] c t)).lb ∧
    r.info.ub = (Spec.layout (.subarray [(sz, sub, start)] c t)).ub := by
  have hE := info_extent_eq t o hlb hub
  simp only [build, ho, Option.bind_some, mkSubarray] at hr
  split at hr
  · cases hr
  · split at hr
    · cases hr
    · split at hr
      · cases hr
      · injection hr with hr
        subst hr
        rw [hE]
        simp [mkResized, Obj.info, Spec.layout]

/-! ### closure along trees: the indexed family over the basic types -/

/-- trees made of the basic types with indexed / hindexed / indexed_block / hindexed_block (any arguments), resized (to a
    non-negative extent) and dup, nested to any depth -/
inductive IdxTree : Tree → Prop
  | basic (s : Nat) : IdxTree (.basic s)
  | indexed (bs : List (Int × Int)) (t : Tree) : IdxTree t → IdxTree (.indexed bs t)
  | hindexed (bs : List (Int × Int)) (t : Tree) : IdxTree t → IdxTree (.hindexed bs t)
  | indexedBlock (bl : Int) (ds : List Int) (t : Tree) : IdxTree t → IdxTree (.indexedBlock bl ds t)
  | hindexedBlock (bl : Int) (ds : List Int) (t : Tree) : IdxTree t → IdxTree (.hindexedBlock bl ds t)
  | resized (lb ext : Int) (t : Tree) : 0 ≤ ext → IdxTree t → IdxTree (.resized lb ext t)
  | dup (t : Tree) : IdxTree t → IdxTree (.dup t)

/-- "the object satisfies the spec": the hypotheses of the per-constructor theorems -/
def Good (t : Tree) (o : Obj) : Prop :=
  o.info.lb = (Spec.layout t).lb ∧ o.info.ub = (Spec.layout t).ub ∧ 0 ≤ (Spec.layout t).extent ∧
  (o.info.derived = false → o.info.lb = 0 ∧ o.info.ub = o.info.size ∧ 0 ≤ o.info.size)

theorem good_indexed (bs : List (Int × Int)) (t : Tree) (o r : Obj) (hb : build t = some o) (hg : Good t o)
    (hr : build (.indexed bs t) = some r) : Good (.indexed bs t) r := by
  obtain ⟨glb, gub, gext, gnat⟩ := hg
  have hn : o.info.derived = false → o.info.lb = 0 ∧ o.info.ub = o.info.size := fun h => ⟨(gnat h).1, (gnat h).2.1⟩
  have hlu := lb_ub_extent_eq_spec_indexed bs t o r hb glb gub gext hn hr
  have hr' : mkIndexed bs o = some r := by simpa [build, hb] using hr
  have he : 0 ≤ o.info.extent := by rw [info_extent_eq t o glb gub]; exact gext
  have hle : (Spec.layout t).lb ≤ (Spec.layout t).ub := by simp only [Spec.Layout.extent] at gext; omega
  refine ⟨hlu.1, hlu.2, ?_, mkIndexed_natural bs o r he hn hr'⟩
  simp only [Spec.layout, Spec.place, Spec.Layout.extent]
  exact Int.sub_nonneg_of_le (listMin_le_listMax _ _ _ hle)

theorem good_hindexed (bs : List (Int × Int)) (t : Tree) (o r : Obj) (hb : build t = some o) (hg : Good t o)
    (hr : build (.hindexed bs t) = some r) : Good (.hindexed bs t) r := by
  obtain ⟨glb, gub, gext, gnat⟩ := hg
  have hn : o.info.derived = false → o.info.lb = 0 ∧ o.info.ub = o.info.size := fun h => ⟨(gnat h).1, (gnat h).2.1⟩
  have hlu := lb_ub_extent_eq_spec_hindexed bs t o r hb glb gub gext hn hr
  have hr' : mkHindexed bs o = some r := by simpa [build, hb] using hr
  have he : 0 ≤ o.info.extent := by rw [info_extent_eq t o glb gub]; exact gext
  have hle : (Spec.layout t).lb ≤ (Spec.layout t).ub := by simp only [Spec.Layout.extent] at gext; omega
  refine ⟨hlu.1, hlu.2, ?_, mkHindexed_natural bs o r he hn hr'⟩
  simp only [Spec.layout, Spec.place, Spec.Layout.extent]
  exact Int.sub_nonneg_of_le (listMin_le_listMax _ _ _ hle)

/-- **lb_ub_extent_eq_spec on the indexed family, by induction on the tree** (any depth, any block lists, any resizes to a
    non-negative extent): whenever the constructor calls succeed, the lb and ub of the resulting datatype are MPI's -/
theorem lb_ub_extent_eq_spec_idx_trees (t : Tree) (h : IdxTree t) : ∀ o, build t = some o → Good t o := by
  induction h with
  | basic s =>
    intro o ho
    simp only [build, Option.some.injEq] at ho
    subst ho
    simp [Good, basicObj, Obj.info, Spec.layout, Spec.Layout.extent]
  | indexed bs t _ ih =>
    intro r hr
    cases hb : build t with
    | none => simp [build, hb] at hr
    | some o => exact good_indexed bs t o r hb (ih o hb) hr
  | hindexed bs t _ ih =>
    intro r hr
    cases hb : build t with
    | none => simp [build, hb] at hr
    | some o => exact good_hindexed bs t o r hb (ih o hb) hr
  | indexedBlock bl ds t _ ih =>
    intro r hr
    cases hb : build t with
    | none => simp [build, hb] at hr
    | some o =>
      have hr' : build (.indexed (ds.map (fun d => (bl, d))) t) = some r := by simp only [build] at hr ⊢; exact hr
      have hs : Spec.layout (.indexedBlock bl ds t) = Spec.layout (.indexed (ds.map (fun d => (bl, d))) t) := by
        simp only [Spec.layout, List.flatMap_map]
      have := good_indexed _ t o r hb (ih o hb) hr'
      simp only [Good, hs]
      exact this
  | hindexedBlock bl ds t _ ih =>
    intro r hr
    cases hb : build t with
    | none => simp [build, hb] at hr
    | some o =>
      have hr' : build (.hindexed (ds.map (fun d => (bl, d))) t) = some r := by simp only [build] at hr ⊢; exact hr
      have hs : Spec.layout (.hindexedBlock bl ds t) = Spec.layout (.hindexed (ds.map (fun d => (bl, d))) t) := by
        simp only [Spec.layout, List.flatMap_map]
      have := good_hindexed _ t o r hb (ih o hb) hr'
      simp only [Good, hs]
      exact this
  | resized lb ext t hext _ ih =>
    intro r hr
    cases hb : build t with
    | none => simp [build, hb] at hr
    | some o =>
      simp only [build, hb, Option.map_some, Option.some.injEq] at hr
      subst hr
      simp only [Good, mkResized, Obj.info, Spec.layout, Spec.Layout.extent]
      exact ⟨trivial, trivial, by omega, fun h => by simp at h⟩
  | dup t _ ih =>
    intro r hr
    cases hb : build t with
    | none => simp [build, hb] at hr
    | some o =>
      simp only [build, hb, Option.map_some, Option.some.injEq] at hr
      subst hr
      have hg := ih o hb
      simp only [Good, cloneObj_info, Spec.layout]
      exact hg

/-! ### regressions: the witnesses of the fixed defects (every one is replayed on the library by props/C30/corpus.txt) -/

def slu (t : Tree) : Option (Int × Int × Int) := (build t).map (fun o => (o.info.size, o.info.lb, o.info.ub))
def specSlu (t : Tree) : Int × Int × Int := ((Spec.layout t).size, (Spec.layout t).lb, (Spec.layout t).ub)

/-! ### closure over ALL constructor trees -/

/-- **size_eq_spec** (FULL STRENGTH): for every constructor tree — contiguous, vector, hvector, indexed, hindexed,
    indexed_block, hindexed_block, struct, resized, subarray (any ndims ≥ 1, C or Fortran order), dup, nested to any depth,
    with any arguments — whenever the nest of constructor calls succeeds, the size of the datatype the code builds is the
    number of bytes of MPI's typemap.  By induction on the tree (`size_tree`). -/
theorem size_eq_spec (t : Tree) (o : Obj) (h : build t = some o) : o.info.size = (Spec.layout t).size :=
  size_tree t o h

/-- **lb_ub_extent_eq_spec**: for every constructor tree satisfying `Wf` (vector / hvector strides ≥ 0, resized extents
    ≥ 0, struct members that have copies are not empty types; any other argument, any depth), whenever the constructor
    calls succeed, lb, ub and extent of the datatype the code builds are MPI's (min / max over the placed copies, sticky
    resized markers, ε = 0), and the extent is not negative.  By induction on the tree (`rel_tree`). -/
theorem lb_ub_extent_eq_spec (t : Tree) (hw : Wf t) (o : Obj) (h : build t = some o) :
    o.info.lb = (Spec.layout t).lb ∧ o.info.ub = (Spec.layout t).ub ∧ o.info.extent = (Spec.layout t).extent ∧
      0 ≤ (Spec.layout t).extent :=
  have r := rel_tree t hw o h
  ⟨r.lb, r.ub, r.ext, r.ext_nonneg⟩

/-- `Wf` cannot drop "strides ≥ 0": MPI_Type_vector(2, 1, -3, MPI_INT) has lb = -12, ub = 4; the code computes 0 / -8 -/
theorem lb_ub_negative_stride_counterexample :
    slu (.vector 2 1 (-3) (.basic 4)) = some (8, 0, -8) ∧ specSlu (.vector 2 1 (-3) (.basic 4)) = (8, -12, 4) := by decide

/-- `Wf` cannot drop "no copies of an empty type in a struct" on this model: the struct {1 × (0 × MPI_INT) at 40} is a
    non-derived size-0 Datatype with lb = ub = 40 (`Spec` puts the bounds of an empty member at its displacement; MPI
    leaves lb / ub of an empty typemap undefined), and the shortcut of create_hvector then resets the bounds to 0 -/
theorem lb_ub_empty_member_counterexample :
    slu (.hvector 1 1 0 (.struct (.cons 1 40 (.contiguous 0 (.basic 4)) .nil))) = some (0, 0, 0) ∧
    specSlu (.hvector 1 1 0 (.struct (.cons 1 40 (.contiguous 0 (.basic 4)) .nil))) = (0, 40, 40) := by decide

/-- **walk = typemap**: for every `Wf` tree, every count and every base address, the byte offsets visited by
    `serialize` / `unserialize` of the object the code builds are exactly the offsets of MPI's typemap of `count`
    consecutive elements (element k at k · extent), in typemap order.  By induction on the tree (`walk_tree`); covers the
    Type_Contiguous / Hvector / Vector / Hindexed / Indexed / Struct objects, the "contiguous" shortcuts of
    create_hvector / vector / indexed / hindexed / struct, the resized struct with its MPI_LB / MPI_UB markers, the chain
    vector → hvector … → hindexed → resized of create_subarray, and clone. -/
theorem walk_eq_typemap (t : Tree) (hw : Wf t) (o : Obj) (h : build t = some o) (count base : Int) :
    walk o count base = (Spec.bytesOf (Spec.layout t) count).map (· + base) :=
  walk_tree t hw o h count base

theorem walk_eq_typemap_zero (t : Tree) (hw : Wf t) (o : Obj) (h : build t = some o) (count : Int) :
    walk o count 0 = Spec.bytesOf (Spec.layout t) count := by
  rw [walk_eq_typemap t hw o h]; simp

theorem writeAll_map (src : Mem) (os : List Int) : ∀ (m : Mem) (a : Int),
    writeAll os (os.map src) m a = if a ∈ os then src a else m a := by
  induction os with
  | nil => intro m a; simp [writeAll]
  | cons o os ih =>
    intro m a
    simp only [List.map_cons, writeAll, ih, List.mem_cons]
    by_cases h1 : a ∈ os
    · simp [h1]
    · by_cases h2 : a = o
      · subst h2; simp [h1]
      · simp [h1, h2]

/-- **copy_touches_only_typemap** (send → receive / pack → unpack with the same datatype and count): the destination ends
    with the source's byte at every offset of MPI's typemap and is untouched everywhere else.  ∀ `Wf` trees, ∀ counts,
    ∀ memories; overlapping typemap entries allowed. -/
theorem copy_touches_only_typemap (t : Tree) (hw : Wf t) (o : Obj) (h : build t = some o) (count : Int) (src dst : Mem)
    (a : Int) :
    unserialize o count (serialize o count src) dst a =
      if a ∈ Spec.bytesOf (Spec.layout t) count then src a else dst a := by
  unfold unserialize serialize
  rw [walk_eq_typemap_zero t hw o h, writeAll_map]

/-- the packed stream is the source's bytes at the typemap offsets, in typemap order -/
theorem serialize_eq_typemap (t : Tree) (hw : Wf t) (o : Obj) (h : build t = some o) (count : Int) (src : Mem) :
    serialize o count src = (Spec.bytesOf (Spec.layout t) count).map src := by
  unfold serialize; rw [walk_eq_typemap_zero t hw o h]

/-- **pack_unpack_roundtrip** (promoted from `_partial`: now about MPI's typemap): packing what was unpacked from a packed
    stream gives the same stream, every typemap offset of the destination holds the source byte, every other byte of the
    destination is untouched -/
theorem pack_unpack_roundtrip (t : Tree) (hw : Wf t) (o : Obj) (h : build t = some o) (count : Int) (src dst : Mem) :
    serialize o count (unserialize o count (serialize o count src) dst) = serialize o count src ∧
    (∀ a, a ∈ Spec.bytesOf (Spec.layout t) count → unserialize o count (serialize o count src) dst a = src a) ∧
    (∀ a, a ∉ Spec.bytesOf (Spec.layout t) count → unserialize o count (serialize o count src) dst a = dst a) := by
  refine ⟨?_, ?_, ?_⟩
  · have key : ∀ a ∈ walk o count 0, unserialize o count (serialize o count src) dst a = src a := by
      intro a ha
      rw [walk_eq_typemap_zero t hw o h] at ha
      rw [copy_touches_only_typemap t hw o h, if_pos ha]
    exact List.map_congr_left key
  · intro a ha; rw [copy_touches_only_typemap t hw o h, if_pos ha]
  · intro a ha; rw [copy_touches_only_typemap t hw o h, if_neg ha]


/-- indexed over an old type with lb ≠ 0.  MPI_Type_indexed(1, [2], [0], MPI_Type_indexed(1, [1], [1], MPI_INT)):
    the old code gave (8, 0, 16) (`bl·ub_old`, first block's lb without `+ lb_old`) -/
theorem lb_ub_extent_eq_spec_indexed_regression :
    slu (.indexed [(2, 0)] (.indexed [(1, 1)] (.basic 4))) = some (8, 4, 12) ∧
    specSlu (.indexed [(2, 0)] (.indexed [(1, 1)] (.basic 4))) = (8, 4, 12) := by decide

/-- the old code gave (8, 4, 16) -/
theorem lb_ub_extent_eq_spec_hindexed_regression :
    slu (.hindexed [(2, 0)] (.indexed [(1, 1)] (.basic 4))) = some (8, 4, 12) ∧
    specSlu (.hindexed [(2, 0)] (.indexed [(1, 1)] (.basic 4))) = (8, 4, 12) := by decide

/-- struct: the old code (`lb = indices[i]` dropping `+ lb_old`; `bl·ub_old`) gave (8, 4, 16) -/
theorem lb_ub_extent_eq_spec_struct_regression :
    slu (.struct (.cons 2 0 (.indexed [(1, 1)] (.basic 4)) .nil)) = some (8, 4, 12) ∧
    specSlu (.struct (.cons 2 0 (.indexed [(1, 1)] (.basic 4)) .nil)) = (8, 4, 12) := by decide

/-- zero-length blocks took part in lb / ub: MPI_Type_indexed(2, [0,1], [5,0], MPI_INT) had (4, 0, 20) -/
theorem lb_ub_extent_eq_spec_zero_block_regression :
    slu (.indexed [(0, 5), (1, 0)] (.basic 4)) = some (4, 0, 4) ∧
    specSlu (.indexed [(0, 5), (1, 0)] (.basic 4)) = (4, 0, 4) ∧
    slu (.struct (.cons 0 40 (.basic 4) (.cons 1 0 (.basic 8) .nil))) = some (8, 0, 8) ∧
    specSlu (.struct (.cons 0 40 (.basic 4) (.cons 1 0 (.basic 8) .nil))) = (8, 0, 8) := by decide

/-- MPI_Type_vector(2, 0, 3, MPI_INT) was an empty type with extent 12 -/
theorem lb_ub_extent_eq_spec_vector_regression :
    slu (.vector 2 0 3 (.basic 4)) = some (0, 0, 0) ∧ specSlu (.vector 2 0 3 (.basic 4)) = (0, 0, 0) ∧
    slu (.hvector 2 0 8 (.basic 4)) = some (0, 0, 0) ∧ specSlu (.hvector 2 0 8 (.basic 4)) = (0, 0, 0) := by decide

/-- one-dimensional subarray: the old code gave (12, 8, 20) (lb = start·extent, extent = subsize·extent) -/
theorem lb_ub_extent_eq_spec_subarray_regression :
    slu (.subarray [(10, 3, 2)] true (.basic 4)) = some (12, 0, 40) ∧
    specSlu (.subarray [(10, 3, 2)] true (.basic 4)) = (12, 0, 40) := by decide

/-- regression (fixed in /repo a255fb7726): the 4×6 subarray of ints has the extent of the full array, 96 -/
theorem subarray_extent_regression :
    slu (.subarray [(4, 2, 1), (6, 3, 2)] true (.basic 4)) = some (24, 0, 96) ∧
    specSlu (.subarray [(4, 2, 1), (6, 3, 2)] true (.basic 4)) = (24, 0, 96) := by decide

/-- STILL FALSE on the code (finding `valid-type-rejected`): a (≥ 2)-dimensional subarray of a derived, not yet committed
    old type is rejected (MPI_ERR_TYPE) although MPI only requires a commit before communication -/
theorem subarray_uncommitted_rejected_counterexample :
    build (.subarray [(2, 1, 0), (2, 1, 0)] true (.contiguous 2 (.basic 4))) = none := by decide

/-- MPI_Type_dup of a vector / indexed type transfers the bytes of the original (the old `clone` re-scaled the byte
    stride: second block at 48 instead of 12; and reinterpreted the MPI_Aint displacements as ints: a write at offset 64) -/
theorem dup_walk_regression :
    (build (.dup (.vector 2 1 3 (.basic 4)))).map (fun o => walk o 1 0) = some [0, 1, 2, 3, 12, 13, 14, 15] ∧
    (build (.dup (.indexed [(1, 4), (1, 0), (1, 2)] (.basic 4)))).map (fun o => walk o 1 0) =
      some [16, 17, 18, 19, 0, 1, 2, 3, 8, 9, 10, 11] := by decide

/-- count > 1 of a type whose blocks are not in increasing order: element j is walked at j extents (the old walk
    restarted at the end of the last block: 2 × indexed([1,1],[2,0],MPI_INT) gave bytes 8.., 0.., 4.., 0..) -/
theorem multi_count_walk_regression :
    (build (.indexed [(1, 2), (1, 0)] (.basic 4))).map (fun o => walk o 2 0) =
      some [8, 9, 10, 11, 0, 1, 2, 3, 20, 21, 22, 23, 12, 13, 14, 15] ∧
    Spec.bytesOf (Spec.layout (.indexed [(1, 2), (1, 0)] (.basic 4))) 2 =
      [8, 9, 10, 11, 0, 1, 2, 3, 20, 21, 22, 23, 12, 13, 14, 15] := by decide

/-! non-vacuity -/
example : (build (.vector 2 1 3 (.basic 4))).map Obj.info = some ⟨8, 0, 16, true⟩ := by decide
example : specSlu (.vector 2 1 3 (.basic 4)) = (8, 0, 16) := by decide
/-- the hypotheses of `lb_ub_extent_eq_spec_indexed` hold for an old type with lb ≠ 0 (and the conclusion is not trivial) -/
example : (build (.indexed [(1, 1)] (.basic 4))).map Obj.info = some ⟨4, 4, 8, true⟩ ∧
    specSlu (.indexed [(1, 1)] (.basic 4)) = (4, 4, 8) := by decide
/-- the contiguous shortcut of create_indexed is taken by [(2,1),(0,3),(1,3)] over MPI_INT (a Type_Contiguous at lb 4) -/
example : (build (.indexed [(2, 1), (0, 3), (1, 3)] (.basic 4))).map Obj.info = some ⟨12, 4, 16, true⟩ ∧
    specSlu (.indexed [(2, 1), (0, 3), (1, 3)] (.basic 4)) = (12, 4, 16) := by decide

/-- `MembersOk` (hypothesis of `lb_ub_extent_eq_spec_struct`) holds for a struct with an empty member, a member whose lb
    is not 0 and members out of order -/
example : MembersOk (.cons 0 40 (.basic 4) (.cons 2 8 (.indexed [(1, 1)] (.basic 4)) (.cons 1 0 (.basic 8) .nil)))
    [(0, 40, basicObj 4), (2, 8, .hindexed ⟨4, 4, 8, true⟩ [(1, 4)] (basicObj 4) true), (1, 0, basicObj 8)] := by
  simp only [MembersOk]
  refine ⟨_, _, rfl, by decide, by decide, by decide, _, _, rfl, by decide, by decide, by decide, _, _, rfl, by decide,
    by decide, by decide, rfl⟩
example : slu (.struct (.cons 0 40 (.basic 4) (.cons 2 8 (.indexed [(1, 1)] (.basic 4)) (.cons 1 0 (.basic 8) .nil)))) =
    some (16, 0, 20) ∧
    specSlu (.struct (.cons 0 40 (.basic 4) (.cons 2 8 (.indexed [(1, 1)] (.basic 4)) (.cons 1 0 (.basic 8) .nil)))) =
    (16, 0, 20) := by decide

/-- `lb_ub_extent_eq_spec_idx_trees` on a three-level tree with an old lb ≠ 0, a zero-length block, shuffled blocks, a resize -/
example : IdxTree (.indexed [(0, 7), (2, 1), (1, 0)] (.resized 4 24 (.hindexedBlock 2 [8, 0] (.basic 4)))) :=
  .indexed _ _ (.resized _ _ _ (by decide) (.hindexedBlock _ _ _ (.basic 4)))
example : slu (.indexed [(0, 7), (2, 1), (1, 0)] (.resized 4 24 (.hindexedBlock 2 [8, 0] (.basic 4)))) = some (48, 4, 76) ∧
    specSlu (.indexed [(0, 7), (2, 1), (1, 0)] (.resized 4 24 (.hindexedBlock 2 [8, 0] (.basic 4)))) = (48, 4, 76) := by
  decide

/-- non-vacuity of the ∀-tree theorems: a `Wf` tree with a struct (member out of order, a zero-length member, a member whose
    lb is not 0), a strided vector, a contiguous of a derived type, a 2-D Fortran-order subarray, a resize and a dup -/
def bigTree : Tree :=
  .dup (.resized 4 200 (.struct (.cons 2 64 (.vector 2 1 3 (.basic 4))
    (.cons 0 500 (.basic 8)
    (.cons 1 0 (.contiguous 2 (.indexed [(1, 1)] (.basic 4)))
    (.cons 1 128 (.subarray [(4, 2, 1), (3, 2, 0)] false (.basic 2)) .nil))))))
example : Wf bigTree := by
  simp only [bigTree, Wf, WfM]; decide
example : slu bigTree = some (32, 4, 204) ∧ specSlu bigTree = (32, 4, 204) := by decide
example : (build bigTree).map (fun o => walk o 2 0) = some (Spec.bytesOf (Spec.layout bigTree) 2) ∧
    (Spec.bytesOf (Spec.layout bigTree) 2).length = 64 ∧ (Spec.bytesOf (Spec.layout bigTree) 1).take 6 = [64, 65, 66, 67, 76, 77] := by
  decide
/-- a subarray of a derived type is accepted for ndims = 1 (the theorems are not vacuous for nested subarrays) -/
example : slu (.subarray [(5, 2, 1)] true (.vector 2 1 2 (.basic 4))) = some (16, 0, 60) ∧
    specSlu (.subarray [(5, 2, 1)] true (.vector 2 1 2 (.basic 4))) = (16, 0, 60) := by decide

end SgVerif.C30
