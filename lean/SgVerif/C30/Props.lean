import SgVerif.C30.Model
/-
C30 — Derived datatypes have MPI layout and transfer exactly their bytes.  Property theorems.

FULL-STRENGTH statements of the property (kept here; FALSE on the current code, see the `_counterexample`s):
  size_eq_spec            ∀ t valid, build t = some o → o.info.size = (Spec.layout t).size
  lb_ub_extent_eq_spec    ∀ t valid with non-negative displacements, build t = some o →
                            o.info.lb = (Spec.layout t).lb ∧ o.info.ub = (Spec.layout t).ub
  copy_touches_only_typemap / pack_unpack_roundtrip
                          ∀ t, count: walk o count 0 = Spec.bytesOf (Spec.layout t) count
What is PROVED below: the constructors `resized` and `dup` (∀ trees, any depth: `resized_lb_ub_eq_spec`,
`dup_layout_eq`), the size of every MPI placement (`spec_size_place`), the round trip of the code's own pack/unpack on the
bytes its walk selects (`pack_unpack_roundtrip_partial`, ∀ objects, ∀ counts), and one machine-checked counterexample per
defective constructor (concrete witness, `decide`), each replayed on the library by the correspondence check.
NOT proved (weaker than DESIGN §8 C30): the ∀-tree `_partial` versions of size_eq_spec / lb_ub_extent_eq_spec for
contiguous, vector, hvector, indexed, hindexed, struct, subarray under the hypotheses the counterexamples suggest
(old lb = 0, block lengths ≥ 1, ndims ≥ 2): they are covered by the differential check only.
-/
namespace SgVerif.C30

/-- `MPI_Type_create_resized` over any tree: lb and ub are exactly the requested ones, as MPI defines. ∀ t, lb, extent. -/
theorem resized_lb_ub_eq_spec (t : Tree) (lb ext : Int) (o : Obj) (h : build t = some o) :
    ∃ r, build (.resized lb ext t) = some r ∧ r.info.lb = (Spec.layout (.resized lb ext t)).lb ∧
      r.info.ub = (Spec.layout (.resized lb ext t)).ub ∧ r.info.size = o.info.size := by
  simp [build, h, mkResized, Obj.info, Spec.layout]

theorem cloneObj_info (o : Obj) : (cloneObj o).info = o.info := by
  unfold cloneObj
  split <;> simp [Obj.info]

/-- `MPI_Type_dup` keeps size, lb, ub (∀ trees) — it does NOT keep the blocks of vector / indexed types, see
    `dup_vector_walk_counterexample` -/
theorem dup_layout_eq (t : Tree) (o : Obj) (h : build t = some o) :
    ∃ r, build (.dup t) = some r ∧ r.info = o.info ∧ Spec.layout (.dup t) = Spec.layout t := by
  refine ⟨cloneObj o, ?_, cloneObj_info o, ?_⟩
  · simp [build, h]
  · simp [Spec.layout]

theorem length_flatMap_const {α β : Type} (l : List α) (f : α → List β) (n : Nat) (h : ∀ a ∈ l, (f a).length = n) :
    (l.flatMap f).length = l.length * n := by
  induction l with
  | nil => simp
  | cons a l ih =>
    simp only [List.flatMap_cons, List.length_append, List.length_cons]
    rw [h a (by simp), ih (fun b hb => h b (by simp [hb])), Nat.add_mul, Nat.one_mul, Nat.add_comm]

/-- MPI: a type made of k copies of `old` has k times its size (∀ displacement lists, ∀ old layouts) -/
theorem spec_size_place (ds : List Int) (old : Spec.Layout) : (Spec.place ds old).size = ds.length * old.size := by
  simp only [Spec.place, Spec.Layout.size]
  rw [length_flatMap_const ds _ old.bytes.length (by simp)]
  simp

/-! ### pack ∘ unpack on the bytes the code's walk selects (memory = function from offsets to bytes) -/

abbrev Mem := Int → Nat

def writeAll : List Int → List Nat → Mem → Mem
  | o :: os, v :: vs, m => writeAll os vs (fun a => if a = o then v else m a)
  | _, _, m => m

/-- `serialize`: the contiguous buffer holds the bytes at the walked offsets, in order -/
def serialize (o : Obj) (count : Int) (m : Mem) : List Nat := (walk o count 0).map m
/-- `unserialize` (MPI_REPLACE): the bytes of the contiguous buffer are stored at the walked offsets, in order -/
def unserialize (o : Obj) (count : Int) (stream : List Nat) (m : Mem) : Mem := writeAll (walk o count 0) stream m

theorem writeAll_other (os : List Int) : ∀ (vs : List Nat) (m : Mem) (a : Int), a ∉ os → writeAll os vs m a = m a := by
  induction os with
  | nil => intro vs m a _; cases vs <;> rfl
  | cons o os ih =>
    intro vs m a ha
    cases vs with
    | nil => rfl
    | cons v vs =>
      simp only [writeAll]
      rw [ih vs _ a (fun h => ha (by simp [h]))]
      have : a ≠ o := fun h => ha (by simp [h])
      simp [this]

theorem writeAll_read (os : List Int) : ∀ (vs : List Nat) (m : Mem), os.Nodup → vs.length = os.length →
    os.map (writeAll os vs m) = vs := by
  induction os with
  | nil => intro vs m _ hl; cases vs <;> simp_all [writeAll]
  | cons o os ih =>
    intro vs m hnd hl
    cases vs with
    | nil => simp at hl
    | cons v vs =>
      have hno : o ∉ os := (List.nodup_cons.mp hnd).1
      have hnd' := (List.nodup_cons.mp hnd).2
      have e1 : writeAll os vs (fun a => if a = o then v else m a) o = v := by
        rw [writeAll_other os vs _ o hno]; simp
      simp only [writeAll, List.map_cons, e1]
      rw [ih vs _ hnd' (by simpa using hl)]

/-- FULL STRENGTH would add `walk o count 0 = Spec.bytesOf (Spec.layout t) count` (false: `multi_count_walk_counterexample`).
    PROVED, ∀ objects the code can build, ∀ counts, ∀ memories: if the offsets the code walks are pairwise distinct, unpacking
    what was packed restores exactly those bytes and leaves every other byte of the destination untouched. -/
theorem pack_unpack_roundtrip_partial (o : Obj) (count : Int) (src dst : Mem) (hnd : (walk o count 0).Nodup) :
    serialize o count (unserialize o count (serialize o count src) dst) = serialize o count src ∧
    ∀ a, a ∉ walk o count 0 → unserialize o count (serialize o count src) dst a = dst a := by
  constructor
  · unfold serialize unserialize
    exact writeAll_read _ _ _ hnd (by simp)
  · intro a ha
    exact writeAll_other _ _ _ a ha

/-! ### counterexamples (concrete witnesses; every one is replayed on the library by props/C30/corpus.txt) -/

def slu (t : Tree) : Option (Int × Int × Int) := (build t).map (fun o => (o.info.size, o.info.lb, o.info.ub))
def specSlu (t : Tree) : Int × Int × Int := ((Spec.layout t).size, (Spec.layout t).lb, (Spec.layout t).ub)

/-- indexed over an old type with lb ≠ 0: `bl·ub_old` instead of `(bl−1)·extent_old + ub_old`, and the first block's lb
    without `+ lb_old`.  MPI_Type_indexed(1, [2], [0], MPI_Type_indexed(1, [1], [1], MPI_INT)) -/
theorem lb_ub_extent_eq_spec_indexed_counterexample :
    slu (.indexed [(2, 0)] (.indexed [(1, 1)] (.basic 4))) = some (8, 0, 16) ∧
    specSlu (.indexed [(2, 0)] (.indexed [(1, 1)] (.basic 4))) = (8, 4, 12) := by decide

theorem lb_ub_extent_eq_spec_hindexed_counterexample :
    slu (.hindexed [(2, 0)] (.indexed [(1, 1)] (.basic 4))) = some (8, 4, 16) ∧
    specSlu (.hindexed [(2, 0)] (.indexed [(1, 1)] (.basic 4))) = (8, 4, 12) := by decide

/-- struct: `lb = indices[i]` drops `+ lb_old`; `bl·ub_old` -/
theorem lb_ub_extent_eq_spec_struct_counterexample :
    slu (.struct (.cons 2 0 (.indexed [(1, 1)] (.basic 4)) .nil)) = some (8, 4, 16) ∧
    specSlu (.struct (.cons 2 0 (.indexed [(1, 1)] (.basic 4)) .nil)) = (8, 4, 12) := by decide

/-- zero-length blocks take part in lb / ub: MPI_Type_indexed(2, [0,1], [5,0], MPI_INT) has extent 20 instead of 4 -/
theorem lb_ub_extent_eq_spec_zero_block_counterexample :
    slu (.indexed [(0, 5), (1, 0)] (.basic 4)) = some (4, 0, 20) ∧
    specSlu (.indexed [(0, 5), (1, 0)] (.basic 4)) = (4, 0, 4) := by decide

/-- MPI_Type_vector(2, 0, 3, MPI_INT): an empty type with extent 12 -/
theorem lb_ub_extent_eq_spec_vector_counterexample :
    slu (.vector 2 0 3 (.basic 4)) = some (0, 0, 12) ∧ specSlu (.vector 2 0 3 (.basic 4)) = (0, 0, 0) := by decide

/-- one-dimensional subarray: lb = start·extent and extent = subsize·extent instead of 0 and size·extent -/
theorem lb_ub_extent_eq_spec_subarray_counterexample :
    slu (.subarray [(10, 3, 2)] true (.basic 4)) = some (12, 8, 20) ∧
    specSlu (.subarray [(10, 3, 2)] true (.basic 4)) = (12, 0, 40) := by decide

/-- regression (fixed in /repo a255fb7726): the 4×6 subarray of ints now has the extent of the full array, 96 -/
theorem subarray_extent_regression :
    slu (.subarray [(4, 2, 1), (6, 3, 2)] true (.basic 4)) = some (24, 0, 96) ∧
    specSlu (.subarray [(4, 2, 1), (6, 3, 2)] true (.basic 4)) = (24, 0, 96) := by decide

/-- a (≥ 2)-dimensional subarray of a derived, not yet committed old type is rejected (MPI_ERR_TYPE) although MPI only
    requires a commit before communication -/
theorem subarray_uncommitted_rejected_counterexample :
    build (.subarray [(2, 1, 0), (2, 1, 0)] true (.contiguous 2 (.basic 4))) = none := by decide

/-! non-vacuity -/
example : (build (.vector 2 1 3 (.basic 4))).map Obj.info = some ⟨8, 0, 16, true⟩ := by decide
example : specSlu (.vector 2 1 3 (.basic 4)) = (8, 0, 16) := by decide

end SgVerif.C30
