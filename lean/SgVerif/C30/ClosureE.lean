import SgVerif.C30.ClosureD
/-
C30 — `Rel1` is preserved by create_subarray (ndims ≥ 1, both orders).
-/
set_option linter.unusedSimpArgs false
set_option linter.unusedVariables false
set_option linter.unnecessarySeqFocus false
namespace SgVerif.C30
open Spec

def prodF (xs : List Int) : Int := xs.foldl (· * ·) 1

theorem foldl_mul (xs : List Int) : ∀ a : Int, xs.foldl (· * ·) a = a * prodF xs := by
  induction xs with
  | nil => intro a; simp [prodF]
  | cons x t ih => intro a; simp only [prodF, List.foldl_cons]; rw [ih (a * x), ih (1 * x)]; ring

theorem prodF_nil : prodF [] = 1 := rfl
theorem prodF_cons (x : Int) (xs : List Int) : prodF (x :: xs) = x * prodF xs := by
  simp only [prodF, List.foldl_cons]; rw [foldl_mul]; simp [prodF]
theorem prodF_append (xs ys : List Int) : prodF (xs ++ ys) = prodF xs * prodF ys := by
  induction xs with
  | nil => simp [prodF_nil]
  | cons x t ih => simp only [List.cons_append, prodF_cons, ih]; ring
theorem prodF_reverse (xs : List Int) : prodF xs.reverse = prodF xs := by
  induction xs with
  | nil => rfl
  | cons x t ih => simp only [List.reverse_cons, prodF_append, prodF_cons, prodF_nil, ih]; ring
theorem prodF_nonneg (xs : List Int) (h : ∀ x ∈ xs, 0 ≤ x) : 0 ≤ prodF xs := by
  induction xs with
  | nil => simp [prodF_nil]
  | cons x t ih =>
    rw [prodF_cons]
    exact Int.mul_nonneg (h x (by simp)) (ih (fun y hy => h y (by simp [hy])))

theorem subPositions_length : ∀ (ds : List (Int × Int × Int)), (∀ d ∈ ds, 0 ≤ d.2.1) →
    ((subPositions ds).length : Int) = prodF (ds.map (·.2.1)) := by
  intro ds
  induction ds with
  | nil => intro _; simp [subPositions, prodF_nil]
  | cons d rest ih =>
    intro h
    obtain ⟨sz, sub, start⟩ := d
    have hsub : 0 ≤ sub := h (sz, sub, start) (by simp)
    have ihr := ih (fun y hy => h y (by simp [hy]))
    have key : ∀ (xs : List Int) (f : Int → Int → Int),
        (xs.flatMap (fun k => (subPositions rest).map (f k))).length = xs.length * (subPositions rest).length := by
      intro xs f
      induction xs with
      | nil => simp
      | cons a t iha => simp only [List.flatMap_cons, List.length_append, List.length_map, iha, List.length_cons]; ring
    simp only [subPositions, List.map_cons, prodF_cons]
    rw [key]
    push_cast
    rw [ihr, range_length, if_pos hsub]

/-- the body of create_subarray for ndims ≥ 2 (after the argument checks), dimensions in traversal order -/
def subCore (ds : List (Int × Int × Int)) (old : Obj) : Option Obj :=
  match ds with
  | (sz0, sub0, st0) :: (sz1, sub1, st1) :: rest =>
    let extent := old.info.extent
    match mkVector sub1 sub0 sz0 old with
    | none => none
    | some v =>
      match subarrayLoop extent rest v (sz0 * sz1) (st0 + st1 * sz0) with
      | none => none
      | some (tmp, size, lb) =>
        match mkHindexed [(1, lb * extent)] tmp with
        | none => none
        | some h => some (mkResized h 0 (size * extent))
  | _ => none

theorem mkSubarray_ge2 (d1 d2 : Int × Int × Int) (rest : List (Int × Int × Int)) (c : Bool) (old : Obj) :
    mkSubarray (d1 :: d2 :: rest) c old =
      if (d1 :: d2 :: rest).any (fun d => d.1 ≤ 0 || d.2.1 < 0 || d.2.2 < 0) then none else
      if !old.isCommitted then none else
      if (d1 :: d2 :: rest).any (fun d => d.2.1 > d.1 || d.2.2 + d.2.1 > d.1) then none else
      subCore (if c then (d1 :: d2 :: rest).reverse else (d1 :: d2 :: rest)) old := by
  unfold mkSubarray subCore
  rfl

theorem subarrayLoop_size (e : Int) : ∀ (rest : List (Int × Int × Int)) (tmp : Obj) (size lb : Int) res,
    subarrayLoop e rest tmp size lb = some res →
      res.1.info.size = tmp.info.size * prodF (rest.map (·.2.1)) ∧ res.2.1 = size * prodF (rest.map (·.1)) := by
  intro rest
  induction rest with
  | nil =>
    intro tmp size lb res h
    simp only [subarrayLoop, Option.some.injEq] at h
    subst h
    simp [prodF_nil]
  | cons d rest ih =>
    intro tmp size lb res h
    obtain ⟨sz, sub, start⟩ := d
    simp only [subarrayLoop] at h
    split at h
    · cases h
    · rename_i nt hnt
      obtain ⟨a, b⟩ := ih _ _ _ _ h
      obtain ⟨s, _, _⟩ := mkHvector_size _ _ _ _ _ hnt
      simp only [List.map_cons, prodF_cons]
      rw [a, b, s]
      exact ⟨by ring, by ring⟩

theorem subCore_out (ds : List (Int × Int × Int)) (old r : Obj) (hr : subCore ds old = some r) :
    ∃ h, r = mkResized h 0 (prodF (ds.map (·.1)) * old.info.extent) ∧
      h.info.size = old.info.size * prodF (ds.map (·.2.1)) := by
  unfold subCore at hr
  split at hr
  · rename_i sz0 sub0 st0 sz1 sub1 st1 rest
    simp only at hr
    split at hr
    · cases hr
    · rename_i v hv
      split at hr
      · cases hr
      · rename_i tmp size lb hloop
        split at hr
        · cases hr
        · rename_i h hh
          injection hr with hr
          obtain ⟨v1, _, _⟩ := mkVector_size _ _ _ _ _ hv
          obtain ⟨l1, l2⟩ := subarrayLoop_size _ _ _ _ _ _ hloop
          obtain ⟨h1, _, _⟩ := mkHindexed_size _ _ _ hh
          refine ⟨h, ?_, ?_⟩
          · rw [← hr]
            simp only [List.map_cons, prodF_cons] at l2 ⊢
            rw [l2]
            congr 1; ring
          · simp only [List.map_cons, prodF_cons, List.sum_cons, List.map_nil, List.sum_nil] at h1 l1 ⊢
            rw [h1, l1, v1]; ring
  · cases hr

/-- MPI's layout of a subarray from the layout of the old type -/
def subL (dims : List (Int × Int × Int)) (c : Bool) (o : Layout) : Layout :=
  let ds := if c then dims else dims.reverse
  ⟨(place ((subPositions ds).map (· * o.extent)) o).bytes, 0, prodF (dims.map (·.1)) * o.extent⟩

theorem layout_subarray (dims : List (Int × Int × Int)) (c : Bool) (t : Tree) :
    layout (.subarray dims c t) = subL dims c (layout t) := by
  simp only [layout, subL, prodF]

theorem subL_size (dims : List (Int × Int × Int)) (c : Bool) (o : Layout) (h : ∀ d ∈ dims, 0 ≤ d.2.1) :
    (subL dims c o).size = prodF (dims.map (·.2.1)) * o.size := by
  have hp := place_size ((subPositions (if c then dims else dims.reverse)).map (· * o.extent)) o
  simp only [subL, Layout.size, List.length_map] at hp ⊢
  rw [hp]
  cases c with
  | true => simp only [if_true]; rw [subPositions_length dims h]
  | false =>
    simp only [Bool.false_eq_true, if_false]
    rw [subPositions_length dims.reverse (fun d hd => h d (List.mem_reverse.mp hd)), List.map_reverse, prodF_reverse]

theorem checks_of_any (dims : List (Int × Int × Int))
    (h : ¬ (dims.any (fun d => d.1 ≤ 0 || d.2.1 < 0 || d.2.2 < 0) = true)) :
    ∀ d ∈ dims, 0 < d.1 ∧ 0 ≤ d.2.1 ∧ 0 ≤ d.2.2 := by
  intro d hd
  simp only [List.any_eq_true, not_exists, not_and, Bool.or_eq_true, decide_eq_true_eq, not_or] at h
  have := h d hd
  omega

/-- the shape of what create_subarray returns: the last call is create_resized(·, 0, Π sizes · extent) of a type
    with Π subsizes elements; the arguments passed the checks -/
theorem mkSubarray_out (dims : List (Int × Int × Int)) (c : Bool) (o r : Obj) (hr : mkSubarray dims c o = some r) :
    (∀ d ∈ dims, 0 < d.1 ∧ 0 ≤ d.2.1 ∧ 0 ≤ d.2.2) ∧ ∃ hh, r = mkResized hh 0 (prodF (dims.map (·.1)) * o.info.extent) ∧
      hh.info.size = o.info.size * prodF (dims.map (·.2.1)) := by
  match dims, hr with
  | [], hr => simp [mkSubarray] at hr
  | [(sz, sub, start)], hr =>
    simp only [mkSubarray] at hr
    split at hr
    · cases hr
    · rename_i hany
      split at hr
      · cases hr
      · split at hr
        · cases hr
        · rename_i hh hhe
          injection hr with hr
          obtain ⟨h1, _, _⟩ := mkHindexed_size _ _ _ hhe
          refine ⟨checks_of_any _ hany, hh, ?_, ?_⟩
          · rw [← hr]; simp only [List.map_cons, List.map_nil, prodF_cons, prodF_nil]; congr 1; ring
          · simp only [List.map_cons, List.map_nil, prodF_cons, prodF_nil, List.sum_cons, List.sum_nil] at h1 ⊢
            rw [h1]; ring
  | d1 :: d2 :: rest, hr =>
    rw [mkSubarray_ge2] at hr
    split at hr
    · cases hr
    · rename_i hany
      split at hr
      · cases hr
      · split at hr
        · cases hr
        · obtain ⟨hh, e1, e2⟩ := subCore_out _ _ _ hr
          refine ⟨checks_of_any _ hany, hh, ?_, ?_⟩
          · rw [e1]; cases c <;> simp only [if_true, Bool.false_eq_true, if_false, List.map_reverse, prodF_reverse]
          · rw [e2]; cases c <;> simp only [if_true, Bool.false_eq_true, if_false, List.map_reverse, prodF_reverse]

/-- `MPI_Type_create_subarray` (ndims ≥ 1, C or Fortran order) -/
theorem mkSubarray_rel (dims : List (Int × Int × Int)) (c : Bool) (o r : Obj) (l : Layout) (h : Rel1 o l)
    (hr : mkSubarray dims c o = some r) : Rel1 r (subL dims c l) := by
  obtain ⟨hchk, hh, e1, e2⟩ := mkSubarray_out dims c o r hr
  have hsub : ∀ d ∈ dims, 0 ≤ d.2.1 := fun d hd => (hchk d hd).2.1
  have hP : 0 ≤ prodF (dims.map (·.1)) := prodF_nonneg _ (by
    intro x hx
    obtain ⟨d, hd, rfl⟩ := List.mem_map.mp hx
    exact Int.le_of_lt (hchk d hd).1)
  have hsz := subL_size dims c l hsub
  have hlay : subL dims c l = ⟨(subL dims c l).bytes, 0, 0 + prodF (dims.map (·.1)) * l.extent⟩ := by
    simp only [subL, Int.zero_add]
  rw [hlay, e1, h.ext]
  apply mkResized_rel
  · simp only [Layout.size] at hsz
    rw [e2, hsz, h.size]; simp only [Layout.size]; ring
  · exact Int.mul_nonneg hP h.ext_nonneg

end SgVerif.C30
