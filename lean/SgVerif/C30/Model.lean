/-
C30 — executable model of SMPI derived datatypes (src/smpi/mpi/smpi_datatype.cpp `Datatype::create_*`,
src/smpi/bindings/smpi_pmpi_type.cpp, src/smpi/mpi/smpi_datatype_derived.cpp `Type_*::serialize/unserialize`,
`Datatype::copy/pack/unpack`) and, separately, the MPI standard's definition (`Spec`: typemap, lb, ub).

`Tree`   = what the user asks for (nest of MPI_Type_* constructor calls over basic types)
`build`  = what the code constructs: an `Obj` (which C++ class, which size/lb/ub/flags, which stored blocks), following every
           branch of `create_*` (contiguous -> hvector for derived old types, "contiguous" shortcuts, ...)
`walk`   = the byte offsets visited, in order, by `serialize` / `unserialize` of that object (same pointer arithmetic in both)
`Spec.layout` = MPI-4.0 §5.1: typemap (as byte offsets, in typemap order), lb, ub (ε = 0), resized overrides.
All arithmetic in `Int` (the values exercised are far from the int / MPI_Aint limits).
-/
namespace SgVerif.C30

structure Info where
  size : Int
  lb : Int
  ub : Int
  derived : Bool          -- flags_ & DT_FLAG_DERIVED
  deriving DecidableEq, Repr, Inhabited

def Info.extent (i : Info) : Int := i.ub - i.lb

/-! ## user-level constructor trees -/

mutual
inductive Tree where
  | basic (size : Nat)                                         -- MPI_CHAR (1), MPI_SHORT (2), MPI_INT (4), MPI_DOUBLE (8)
  | contiguous (n : Int) (t : Tree)
  | vector (n bl stride : Int) (t : Tree)
  | hvector (n bl stride : Int) (t : Tree)
  | indexed (blocks : List (Int × Int)) (t : Tree)             -- (blocklength, displacement in extents)
  | hindexed (blocks : List (Int × Int)) (t : Tree)            -- (blocklength, displacement in bytes)
  | indexedBlock (bl : Int) (disps : List Int) (t : Tree)
  | hindexedBlock (bl : Int) (disps : List Int) (t : Tree)
  | struct (m : Members)
  | resized (lb extent : Int) (t : Tree)
  | subarray (dims : List (Int × Int × Int)) (orderC : Bool) (t : Tree)   -- (size, subsize, start) per dimension
  | dup (t : Tree)
inductive Members where
  | nil
  | cons (bl disp : Int) (t : Tree) (rest : Members)
end

/-! ## what the code builds -/

mutual
inductive Obj where
  /-- predefined datatype / `new Datatype(size, lb, ub, flags)`: base-class serialize (memcpy of count*size from +lb) -/
  | plain (i : Info)
  /-- `Type_Contiguous(size, lb, ub, flags, block_count, old_type)` -/
  | contig (i : Info) (count : Int) (old : Obj)
  /-- `Type_Hvector` / `Type_Vector` (stride already in bytes); `isVec` = the object is a Type_Vector -/
  | hvector (i : Info) (count bl stride : Int) (old : Obj) (isVec : Bool)
  /-- `Type_Hindexed` / `Type_Indexed` (indices already in bytes); `isIdx` = the object is a Type_Indexed -/
  | hindexed (i : Info) (blocks : List (Int × Int)) (old : Obj) (isIdx : Bool)
  /-- `Type_Struct` -/
  | struct (i : Info) (blocks : Blocks)
inductive Blocks where
  | nil
  | cons (bl disp : Int) (o : Obj) (rest : Blocks)
end

def Obj.info : Obj → Info
  | .plain i => i
  | .contig i _ _ => i
  | .hvector i _ _ _ _ _ => i
  | .hindexed i _ _ _ => i
  | .struct i _ => i

def basicObj (size : Nat) : Obj := .plain ⟨size, 0, size, false⟩
/-- MPI_LB / MPI_UB: CREATE_MPI_DATATYPE_NULL (size 0, lb 0, ub 0) -/
def markerObj : Obj := .plain ⟨0, 0, 0, false⟩

/-- `Datatype::create_hvector` -/
def mkHvector (count bl stride : Int) (old : Obj) : Option Obj :=
  if bl < 0 then none else
  let o := old.info
  let lb := if count > 0 then o.lb else 0
  let ub := if count > 0 then (count - 1) * stride + (bl - 1) * o.extent + o.ub else 0
  if o.derived || stride != bl * o.extent then
    some (.hvector ⟨o.size * bl * count, lb, ub, true⟩ count bl stride old false)
  else
    -- "the data are contiguous": plain Datatype, DT_FLAG_CONTIGUOUS | DT_FLAG_DERIVED
    some (.plain ⟨o.size * bl * count, 0, o.size * bl * count, true⟩)

/-- `Datatype::create_contiguous(count, old_type, lb, new_type)` -/
def mkContiguous (count : Int) (old : Obj) (lb : Int) : Option Obj :=
  let o := old.info
  if o.derived then mkHvector count 1 o.extent old      -- the `lb` argument is dropped on this path
  else if count > 0 then some (.contig ⟨count * o.size, lb, lb + count * o.size, true⟩ count old)
  else some (.plain ⟨count * o.size, lb, lb + count * o.size, false⟩)

/-- `Datatype::create_vector` -/
def mkVector (count bl stride : Int) (old : Obj) : Option Obj :=
  if bl < 0 then none else
  let o := old.info
  let lb := if count > 0 then o.lb else 0
  let ub := if count > 0 then ((count - 1) * stride + bl - 1) * o.extent + o.ub else 0
  if o.derived || stride != bl then
    -- Type_Vector: Type_Hvector with stride * old_type->get_extent()
    some (.hvector ⟨o.size * bl * count, lb, ub, true⟩ count bl (stride * o.extent) old true)
  else
    some (.plain ⟨o.size * bl * count, 0, o.size * ((count - 1) * stride + bl), true⟩)

/-- the `for` loop of create_indexed / create_hindexed (`scale` = extent for indexed, 1 for hindexed; `csize` = what
    the contiguity test multiplies the block length with: 1 for indexed (indices in extents), old size for hindexed) -/
def idxLoop (scale csize oldLb oldUb : Int) : List (Int × Int) → Int → Int → Int → Bool → Option (Int × Int × Int × Bool)
  | [], s, lb, ub, c => some (s, lb, ub, c)
  | (bl, idx) :: rest, s, lb, ub, c =>
    if bl < 0 then none else
    let lb := if idx * scale + oldLb < lb then idx * scale + oldLb else lb
    let ub := if idx * scale + bl * oldUb > ub then idx * scale + bl * oldUb else ub
    let c := match rest with
      | (_, idx') :: _ => if idx + csize * bl != idx' then false else c
      | [] => c
    idxLoop scale csize oldLb oldUb rest (s + bl) lb ub c

/-- `Datatype::create_indexed` -/
def mkIndexed (blocks : List (Int × Int)) (old : Obj) : Option Obj :=
  let o := old.info
  let (lb0, ub0) := match blocks with
    | (bl0, idx0) :: _ => (idx0 * o.extent, idx0 * o.extent + bl0 * o.ub)     -- no `+ old_type->lb()` here
    | [] => (0, 0)
  match idxLoop o.extent 1 o.lb o.ub blocks 0 lb0 ub0 true with
  | none => none
  | some (size, lb, ub, contiguous) =>
    let contiguous := if o.derived then false else contiguous
    if !contiguous then
      some (.hindexed ⟨size * o.size, lb, ub, true⟩ (blocks.map (fun b => (b.1, b.2 * o.extent))) old true)
    else mkContiguous size old lb

/-- `Datatype::create_hindexed` -/
def mkHindexed (blocks : List (Int × Int)) (old : Obj) : Option Obj :=
  let o := old.info
  let (lb0, ub0) := match blocks with
    | (bl0, idx0) :: _ => (idx0 + o.lb, idx0 + bl0 * o.ub)
    | [] => (0, 0)
  match idxLoop 1 o.size o.lb o.ub blocks 0 lb0 ub0 true with
  | none => none
  | some (size, lb, ub, contiguous) =>
    let contiguous := if o.derived || lb != 0 then false else contiguous
    if !contiguous then some (.hindexed ⟨size * o.size, lb, ub, true⟩ blocks old false)
    else mkContiguous size old lb

def Blocks.toList : Blocks → List (Int × Int × Obj)
  | .nil => []
  | .cons bl d o rest => (bl, d, o) :: rest.toList

def Blocks.ofList : List (Int × Int × Obj) → Blocks
  | [] => .nil
  | (bl, d, o) :: rest => .cons bl d o (Blocks.ofList rest)

/-- the `for` loop of create_struct (no MPI_LB / MPI_UB members: those only come from create_resized, which builds the
    Type_Struct directly) -/
def structLoop : List (Int × Int × Obj) → Int → Int → Int → Bool → Option (Int × Int × Int × Bool)
  | [], s, lb, ub, c => some (s, lb, ub, c)
  | (bl, idx, old) :: rest, s, lb, ub, c =>
    if bl < 0 then none else
    let o := old.info
    let c := if o.derived then false else c
    let lb := if idx + o.lb < lb then idx else lb                       -- `lb = indices[i]` (drops `+ lb`)
    let ub := if idx + bl * o.ub > ub then idx + bl * o.ub else ub
    let c := match rest with
      | (_, idx', _) :: _ => if idx + o.size * bl != idx' then false else c
      | [] => c
    structLoop rest (s + bl * o.size) lb ub c

/-- `Datatype::create_struct` -/
def mkStruct (members : List (Int × Int × Obj)) : Option Obj :=
  let (lb0, ub0) := match members with
    | (bl0, idx0, old0) :: _ => (idx0 + old0.info.lb, idx0 + bl0 * old0.info.ub)
    | [] => (0, 0)
  match structLoop members 0 lb0 ub0 true with
  | none => none
  | some (size, lb, ub, contiguous) =>
    if !contiguous then some (.struct ⟨size, lb, ub, true⟩ (Blocks.ofList members))
    else mkContiguous size (basicObj 1) lb                               -- MPI_CHAR

/-- `Datatype::create_resized`: a Type_Struct {MPI_LB at lb, oldtype at 0, MPI_UB at lb+extent} built directly -/
def mkResized (old : Obj) (lb extent : Int) : Obj :=
  .struct ⟨old.info.size, lb, lb + extent, true⟩
    (.cons 1 lb markerObj (.cons 1 0 old (.cons 1 (lb + extent) markerObj .nil)))

/-- `is_valid()` = DT_FLAG_COMMITED.  Predefined types (and their dups) carry it; every `create_*` result lacks it until
    MPI_Type_commit (which a user only owes before communicating).  In this model only predefined types are committed:
    a non-derived `plain` object of positive size is a predefined type. -/
def Obj.isCommitted : Obj → Bool
  | .plain i => !i.derived && i.size > 0
  | _ => false

/-- the hvector loop of create_subarray over the remaining dimensions (already in traversal order) -/
def subarrayLoop (extent : Int) : List (Int × Int × Int) → Obj → Int → Int → Option (Obj × Int × Int)
  | [], tmp, size, lb => some (tmp, size, lb)
  | (sz, sub, start) :: rest, tmp, size, lb =>
    match mkHvector sub 1 (size * extent) tmp with
    | none => none
    | some nt => subarrayLoop extent rest nt (size * sz) (lb + size * start)

/-- `PMPI_Type_create_subarray` + `Datatype::create_subarray` (ndims ≥ 1; ndims = 0 gives MPI_DATATYPE_NULL) -/
def mkSubarray (dims : List (Int × Int × Int)) (orderC : Bool) (old : Obj) : Option Obj :=
  if dims.any (fun d => d.1 ≤ 0 || d.2.1 < 0 || d.2.2 < 0) then none else      -- CHECK_NEGATIVE_OR_ZERO / CHECK_NEGATIVE
  match dims with
  | [] => none
  | [(_, sub, start)] => mkContiguous sub old (start * old.info.extent)
  | _ =>
    if !old.isCommitted then none else                                           -- `not oldtype->is_valid()`: MPI_ERR_TYPE
    if dims.any (fun d => d.2.1 > d.1 || d.2.2 + d.2.1 > d.1) then none else    -- MPI_ERR_ARG
    let ds := if orderC then dims.reverse else dims
    match ds with
    | (sz0, sub0, st0) :: (sz1, sub1, st1) :: rest =>
      let extent := old.info.extent
      match mkVector sub1 sub0 sz0 old with
      | none => none
      | some v =>
        match subarrayLoop extent rest v (sz0 * sz1) (st0 + st1 * sz0) with
        | none => none
        | some (tmp, size, lb) =>
          match mkHindexed [(1, lb * extent)] tmp with
          | none => none
          | some h => some (mkResized h 0 (size * extent))
    | _ => none

/-- `MPI_Type_dup` = `datatype->clone()`: same size / lb / ub / flags.  `Type_Vector::clone` passes the stored stride (already
    in bytes) as the `int stride` of the Type_Vector constructor, which multiplies it by the old extent again;
    `Type_Indexed::clone` passes `(int*)block_indices_`: the MPI_Aint array is read as ints (little endian: entry 2j is
    the low half of index j, entry 2j+1 its high half = 0 for non-negative indices) and scaled by the old extent again. -/
def cloneObj : Obj → Obj
  | .hvector i n bl stride old true => .hvector i n bl (stride * old.info.extent) old true
  | .hindexed i blocks old true =>
    let ds := blocks.map (·.2)
    let garbled := (List.range blocks.length).map (fun k => if k % 2 == 0 then ds.getD (k / 2) 0 else 0)
    .hindexed i ((blocks.map (·.1)).zip (garbled.map (· * old.info.extent))) old true
  | o => o

mutual
/-- the object the nest of constructor calls produces; `none` = one of the calls returned an error code -/
def build : Tree → Option Obj
  | .basic s => some (basicObj s)
  | .contiguous n t => if n < 0 then none else (build t).bind (fun o => mkContiguous n o 0)
  | .vector n bl st t => if n < 0 then none else (build t).bind (mkVector n bl st)
  | .hvector n bl st t => if n < 0 then none else (build t).bind (mkHvector n bl st)
  | .indexed bs t => (build t).bind (mkIndexed bs)
  | .hindexed bs t => (build t).bind (mkHindexed bs)
  | .indexedBlock bl ds t => (build t).bind (mkIndexed (ds.map (fun d => (bl, d))))
  | .hindexedBlock bl ds t => (build t).bind (mkHindexed (ds.map (fun d => (bl, d))))
  | .struct m => (buildMembers m).bind mkStruct
  | .resized lb ext t => (build t).map (fun o => mkResized o lb ext)
  | .subarray dims c t => (build t).bind (mkSubarray dims c)
  | .dup t => (build t).map cloneObj
def buildMembers : Members → Option (List (Int × Int × Obj))
  | .nil => some []
  | .cons bl d t rest =>
    match build t, buildMembers rest with
    | some o, some r => some ((bl, d, o) :: r)
    | _, _ => none
end

/-! ## serialize / unserialize: the byte offsets visited, in order -/

def Blocks.isNil : Blocks → Bool
  | .nil => true
  | .cons _ _ _ _ => false

/-- `block_indices_[0]` -/
def Blocks.firstDisp : Blocks → Int
  | .nil => 0
  | .cons _ d _ _ => d

def byteRange (start len : Int) : List Int := (List.range len.toNat).map (fun (k : Nat) => start + (k : Int))

mutual
/-- offsets (relative to the user buffer) read by `o->serialize(buf + base, contiguous, count)` in the order they
    are stored in the contiguous buffer; `unserialize` visits the same offsets in the same order (writing). -/
def walk : Obj → Int → Int → List Int
  | .plain i, count, base => byteRange (base + i.lb) (count * i.size)
  | .contig i n old, count, base => byteRange (base + i.lb) (old.info.size * count * n)
  | .hvector _ n bl stride old _, count, base => hvWalk old bl stride n (n * count).toNat 0 base
  | .hindexed _ blocks old _, count, base =>
    match blocks with
    | [] => []
    | (_, d0) :: _ => hiWalk old blocks count.toNat base (base + d0)
  | .struct _ blocks, count, base => stWalk blocks count.toNat base (base + blocks.firstDisp)
termination_by o _ _ => (sizeOf o, 0, 0)
/-- `for (i = 0; i < block_count_ * count; i++)` of Type_Hvector; `i` = iterations done, `p` = noncontiguous_buf_char -/
def hvWalk (old : Obj) (bl stride n : Int) : Nat → Int → Int → List Int
  | 0, _, _ => []
  | fuel + 1, i, p =>
    let blk := if !old.info.derived then byteRange p (bl * old.info.size) else walk old bl p
    let p' := if (i + 1) % n == 0 then p + bl * old.info.size else p + stride
    blk ++ hvWalk old bl stride n fuel (i + 1) p'
termination_by fuel _ _ => (sizeOf old, fuel + 1, 0)
/-- outer `for (j < count)` of Type_Hindexed; `iter` = noncontiguous_buf_iter, `p` = noncontiguous_buf_char -/
def hiWalk (old : Obj) (blocks : List (Int × Int)) : Nat → Int → Int → List Int
  | 0, _, _ => []
  | fuel + 1, iter, p =>
    let (bytes, p') := hiBlocks old blocks iter p
    bytes ++ hiWalk old blocks fuel p' p'
termination_by fuel _ _ => (sizeOf old, fuel + 1, 0)
/-- inner `for (i < block_count_)`: returns the bytes and the final noncontiguous_buf_char -/
def hiBlocks (old : Obj) : List (Int × Int) → Int → Int → List Int × Int
  | [], _, p => ([], p)
  | (bl, _) :: rest, iter, p =>
    let blk := if !old.info.derived then byteRange p (bl * old.info.size) else walk old bl p
    if rest.isEmpty then (blk, p + bl * old.info.extent)
    else
      let r := hiBlocks old rest iter (iter + (rest.headD (0, 0)).2)
      (blk ++ r.1, r.2)
termination_by bs _ _ => (sizeOf old, 0, bs.length + 1)
def stWalk (blocks : Blocks) : Nat → Int → Int → List Int
  | 0, _, _ => []
  | fuel + 1, iter, p =>
    let (bytes, p') := stBlocks blocks iter p
    bytes ++ stWalk blocks fuel p' p'
termination_by fuel _ _ => (sizeOf blocks, fuel + 1, 0)
def stBlocks : Blocks → Int → Int → List Int × Int
  | .nil, _, p => ([], p)
  | .cons bl _ old rest, iter, p =>
    let blk := if !old.info.derived then byteRange p (bl * old.info.size) else walk old bl p
    if rest.isNil then (blk, p + bl * old.info.extent)
    else
      let r := stBlocks rest iter (iter + rest.firstDisp)
      (blk ++ r.1, r.2)
termination_by bs _ _ => (sizeOf bs, 0, 0)
end

/-! ## the MPI standard (spec) -/

namespace Spec

structure Layout where
  bytes : List Int      -- byte offsets of the typemap entries, in typemap order
  lb : Int
  ub : Int
  deriving DecidableEq, Repr, Inhabited

def Layout.extent (l : Layout) : Int := l.ub - l.lb
def Layout.size (l : Layout) : Int := l.bytes.length

def listMin : List Int → Int
  | [] => 0
  | x :: xs => xs.foldl min x
def listMax : List Int → Int
  | [] => 0
  | x :: xs => xs.foldl max x

/-- a type made of copies of `old` placed at displacements `ds` (MPI-4.0 §5.1.2; lb/ub markers of `old` travel with
    each copy, §5.1.7): lb = min (d + lb_old), ub = max (d + ub_old), ε = 0; no copy at all: empty typemap, lb = ub = 0 -/
def place (ds : List Int) (old : Layout) : Layout :=
  ⟨ds.flatMap (fun d => old.bytes.map (· + d)), listMin (ds.map (· + old.lb)), listMax (ds.map (· + old.ub))⟩

def range (n : Int) : List Int := (List.range n.toNat).map (fun (k : Nat) => (k : Int))

/-- index tuples of the selected sub-block in storage order, as linear element positions in the full array.
    `dims` is given slowest-varying dimension first. -/
def subPositions : List (Int × Int × Int) → List Int
  | [] => [0]
  | (_, sub, start) :: rest =>
    let inner := subPositions rest
    let stride := (rest.map (·.1)).foldl (· * ·) 1
    (range sub).flatMap (fun k => inner.map (fun p => (start + k) * stride + p))

mutual
def layout : Tree → Layout
  | .basic s => ⟨range s, 0, s⟩
  | .contiguous n t => let o := layout t; place ((range n).map (· * o.extent)) o
  | .vector n bl st t =>
    let o := layout t
    place ((range n).flatMap (fun i => (range bl).map (fun j => (i * st + j) * o.extent))) o
  | .hvector n bl st t =>
    let o := layout t
    place ((range n).flatMap (fun i => (range bl).map (fun j => i * st + j * o.extent))) o
  | .indexed bs t =>
    let o := layout t
    place (bs.flatMap (fun b => (range b.1).map (fun j => (b.2 + j) * o.extent))) o
  | .hindexed bs t =>
    let o := layout t
    place (bs.flatMap (fun b => (range b.1).map (fun j => b.2 + j * o.extent))) o
  | .indexedBlock bl ds t =>
    let o := layout t
    place (ds.flatMap (fun d => (range bl).map (fun j => (d + j) * o.extent))) o
  | .hindexedBlock bl ds t =>
    let o := layout t
    place (ds.flatMap (fun d => (range bl).map (fun j => d + j * o.extent))) o
  | .struct m =>
    let parts := (layoutMembers m).filter (·.2)
    ⟨(layoutMembers m).flatMap (·.1.bytes), listMin (parts.map (·.1.lb)), listMax (parts.map (·.1.ub))⟩
  | .resized lb ext t => ⟨(layout t).bytes, lb, lb + ext⟩
  | .subarray dims c t =>
    let o := layout t
    let ds := if c then dims else dims.reverse
    let p := place ((subPositions ds).map (· * o.extent)) o
    ⟨p.bytes, 0, (dims.map (·.1)).foldl (· * ·) 1 * o.extent⟩
  | .dup t => layout t
/-- per member: its placed layout and whether it has at least one copy (bl > 0) -/
def layoutMembers : Members → List (Layout × Bool)
  | .nil => []
  | .cons bl d t rest =>
    let o := layout t
    (place ((range bl).map (fun j => d + j * o.extent)) o, decide (bl > 0)) :: layoutMembers rest
end

/-- true lower bound / true extent: of the data only (MPI-4.0 §5.1.8) -/
def trueLb (l : Layout) : Int := listMin l.bytes
def trueExtent (l : Layout) : Int := if l.bytes.isEmpty then 0 else listMax l.bytes + 1 - listMin l.bytes

/-- offsets of `count` consecutive elements starting at the buffer address: element k at k * extent -/
def bytesOf (l : Layout) (count : Int) : List Int :=
  (range count).flatMap (fun k => l.bytes.map (· + k * l.extent))

end Spec

end SgVerif.C30
