/-
C30 — executable model of SMPI derived datatypes (src/smpi/mpi/smpi_datatype.cpp `Datatype::create_*`,
src/smpi/bindings/smpi_pmpi_type.cpp, src/smpi/mpi/smpi_datatype_derived.cpp `Type_*::serialize/unserialize`,
`Datatype::copy/pack/unpack`) and, separately, the MPI standard's definition (`Spec`: typemap, lb, ub).

`Tree`   = what the user asks for (nest of MPI_Type_* constructor calls over basic types)
`build`  = what the code constructs: an `Obj` (which C++ class, which size/lb/ub/flags, which stored blocks), following every
           branch of `create_*` (contiguous -> hvector for derived old types, "contiguous" shortcuts, ...)
`walk`   = the byte offsets visited, in order, by `serialize` / `unserialize` of that object (same pointer arithmetic in both)
The model follows the code after props/C30/fix_series/01..07 (lb/ub of indexed / hindexed / struct blocks, zero-length
blocks, zero block length vectors, one-dimensional subarrays, the (un)serialize walk, clone of vector / indexed).
`Spec.layout` = MPI-4.0 §5.1: typemap (as byte offsets, in typemap order), lb, ub (ε = 0), resized overrides.
All arithmetic in `Int` (the values exercised are far from the int / MPI_Aint limits).
-/
namespace SgVerif.C30

structure Info where
  size : Int
  lb : Int
  ub : Int
  derived : Bool          -- flags_ & DT_FLAG_DERIVED
  deriving DecidableEq, Repr, Inhabited

def Info.extent (i : Info) : Int := i.ub - i.lb

/-! ## user-level constructor trees -/

mutual
inductive Tree where
  | basic (size : Nat)                                         -- MPI_CHAR (1), MPI_SHORT (2), MPI_INT (4), MPI_DOUBLE (8)
  | contiguous (n : Int) (t : Tree)
  | vector (n bl stride : Int) (t : Tree)
  | hvector (n bl stride : Int) (t : Tree)
  | indexed (blocks : List (Int × Int)) (t : Tree)             -- (blocklength, displacement in extents)
  | hindexed (blocks : List (Int × Int)) (t : Tree)            -- (blocklength, displacement in bytes)
  | indexedBlock (bl : Int) (disps : List Int) (t : Tree)
  | hindexedBlock (bl : Int) (disps : List Int) (t : Tree)
  | struct (m : Members)
  | resized (lb extent : Int) (t : Tree)
  | subarray (dims : List (Int × Int × Int)) (orderC : Bool) (t : Tree)   -- (size, subsize, start) per dimension
  | dup (t : Tree)
inductive Members where
  | nil
  | cons (bl disp : Int) (t : Tree) (rest : Members)
end

/-! ## what the code builds -/

mutual
inductive Obj where
  /-- predefined datatype / `new Datatype(size, lb, ub, flags)`: base-class serialize (memcpy of count*size from +lb) -/
  | plain (i : Info)
  /-- `Type_Contiguous(size, lb, ub, flags, block_count, old_type)` -/
  | contig (i : Info) (count : Int) (old : Obj)
  /-- `Type_Hvector` / `Type_Vector` (stride already in bytes); `isVec` = the object is a Type_Vector -/
  | hvector (i : Info) (count bl stride : Int) (old : Obj) (isVec : Bool)
  /-- `Type_Hindexed` / `Type_Indexed` (indices already in bytes); `isIdx` = the object is a Type_Indexed -/
  | hindexed (i : Info) (blocks : List (Int × Int)) (old : Obj) (isIdx : Bool)
  /-- `Type_Struct` -/
  | struct (i : Info) (blocks : Blocks)
inductive Blocks where
  | nil
  | cons (bl disp : Int) (o : Obj) (rest : Blocks)
end

def Obj.info : Obj → Info
  | .plain i => i
  | .contig i _ _ => i
  | .hvector i _ _ _ _ _ => i
  | .hindexed i _ _ _ => i
  | .struct i _ => i

def basicObj (size : Nat) : Obj := .plain ⟨size, 0, size, false⟩
/-- MPI_LB / MPI_UB: CREATE_MPI_DATATYPE_NULL (size 0, lb 0, ub 0) -/
def markerObj : Obj := .plain ⟨0, 0, 0, false⟩

/-- `Datatype::create_hvector` -/
def mkHvector (count bl stride : Int) (old : Obj) : Option Obj :=
  if bl < 0 then none else
  let o := old.info
  let lb := if count > 0 && bl > 0 then o.lb else 0                     -- `if(count>0 && block_length>0)`
  let ub := if count > 0 && bl > 0 then (count - 1) * stride + (bl - 1) * o.extent + o.ub else 0
  if o.derived || stride != bl * o.extent then
    some (.hvector ⟨o.size * bl * count, lb, ub, true⟩ count bl stride old false)
  else
    -- "the data are contiguous": plain Datatype, DT_FLAG_CONTIGUOUS | DT_FLAG_DERIVED
    some (.plain ⟨o.size * bl * count, 0, o.size * bl * count, true⟩)

/-- `Datatype::create_contiguous(count, old_type, lb, new_type)` -/
def mkContiguous (count : Int) (old : Obj) (lb : Int) : Option Obj :=
  let o := old.info
  if o.derived then mkHvector count 1 o.extent old      -- the `lb` argument is dropped on this path
  else if count > 0 then some (.contig ⟨count * o.size, lb, lb + count * o.size, true⟩ count old)
  else some (.plain ⟨count * o.size, lb, lb + count * o.size, false⟩)

/-- `Datatype::create_vector` -/
def mkVector (count bl stride : Int) (old : Obj) : Option Obj :=
  if bl < 0 then none else
  let o := old.info
  let lb := if count > 0 && bl > 0 then o.lb else 0                     -- `if(count>0 && block_length>0)`
  let ub := if count > 0 && bl > 0 then ((count - 1) * stride + bl - 1) * o.extent + o.ub else 0
  if o.derived || stride != bl then
    -- Type_Vector: Type_Hvector with stride * old_type->get_extent()
    some (.hvector ⟨o.size * bl * count, lb, ub, true⟩ count bl (stride * o.extent) old true)
  else
    some (.plain ⟨o.size * bl * count, 0, o.size * ((count - 1) * stride + bl), true⟩)

/-- one block (or struct member) of positive length in the lb/ub computation of create_indexed / create_hindexed /
    create_struct: `bl` copies of the old type at `disp + j * extent`, j = 0 .. bl-1:
      block_lb = disp + old->lb();  block_ub = disp + (bl - 1) * extent + old->ub();
      if (empty || block_lb < lb) lb = block_lb;  if (empty || block_ub > ub) ub = block_ub;  empty = false;
    blocks of length 0 are skipped.  State = (lb, ub, empty). -/
def blockBounds (disp bl oldLb oldUb oldExt : Int) (st : Int × Int × Bool) : Int × Int × Bool :=
  if bl > 0 then
    let blb := disp + oldLb
    let bub := disp + (bl - 1) * oldExt + oldUb
    (if st.2.2 || blb < st.1 then blb else st.1, if st.2.2 || bub > st.2.1 then bub else st.2.1, false)
  else st

/-- the contiguity test of the loops: `if ((i < count - 1) && (end_of_block_i != indices[i+1])) contiguous = false;` -/
def chainOk (blockEnd : Int) : Option Int → Bool
  | none => true
  | some next => blockEnd == next

/-- the `for` loop of create_indexed / create_hindexed (`scale` = extent for indexed, 1 for hindexed; `csize` = what
    the contiguity test multiplies the block length with: 1 for indexed (indices in extents), old size for hindexed).
    Accumulators: size (in elements), (lb, ub, empty), contiguous. -/
def idxLoop (scale csize oldLb oldUb oldExt : Int) :
    List (Int × Int) → Int → Int × Int × Bool → Bool → Option (Int × Int × Int × Bool)
  | [], s, st, c => some (s, st.1, st.2.1, c)
  | (bl, idx) :: rest, s, st, c =>
    if bl < 0 then none else
    -- indexed: (indices[i]+block_lengths[i]-1)*extent + ub  =  indices[i]*extent + (block_lengths[i]-1)*extent + ub
    idxLoop scale csize oldLb oldUb oldExt rest (s + bl) (blockBounds (idx * scale) bl oldLb oldUb oldExt st)
      (c && chainOk (idx + csize * bl) (rest.head?.map (·.2)))

/-- `Datatype::create_indexed` -/
def mkIndexed (blocks : List (Int × Int)) (old : Obj) : Option Obj :=
  let o := old.info
  match idxLoop o.extent 1 o.lb o.ub o.extent blocks 0 (0, 0, true) true with
  | none => none
  | some (size, lb, ub, contiguous) =>
    let contiguous := if o.derived then false else contiguous
    if !contiguous then
      some (.hindexed ⟨size * o.size, lb, ub, true⟩ (blocks.map (fun b => (b.1, b.2 * o.extent))) old true)
    else mkContiguous size old lb

/-- `Datatype::create_hindexed` -/
def mkHindexed (blocks : List (Int × Int)) (old : Obj) : Option Obj :=
  let o := old.info
  match idxLoop 1 o.size o.lb o.ub o.extent blocks 0 (0, 0, true) true with
  | none => none
  | some (size, lb, ub, contiguous) =>
    let contiguous := if o.derived || lb != 0 then false else contiguous
    if !contiguous then some (.hindexed ⟨size * o.size, lb, ub, true⟩ blocks old false)
    else mkContiguous size old lb

def Blocks.toList : Blocks → List (Int × Int × Obj)
  | .nil => []
  | .cons bl d o rest => (bl, d, o) :: rest.toList

def Blocks.ofList : List (Int × Int × Obj) → Blocks
  | [] => .nil
  | (bl, d, o) :: rest => .cons bl d o (Blocks.ofList rest)

/-- the `for` loop of create_struct (no MPI_LB / MPI_UB members: those only come from create_resized, which builds the
    Type_Struct directly).  Accumulators: size (bytes), (lb, ub, empty), contiguous. -/
def structLoop : List (Int × Int × Obj) → Int → Int × Int × Bool → Bool → Option (Int × Int × Int × Bool)
  | [], s, st, c => some (s, st.1, st.2.1, c)
  | (bl, idx, old) :: rest, s, st, c =>
    if bl < 0 then none else
    let o := old.info
    -- `if (old_types[i]->flags_ & DT_FLAG_DERIVED) contiguous=false;` then the lb/ub update, then the contiguity test
    structLoop rest (s + bl * o.size) (blockBounds idx bl o.lb o.ub o.extent st)
      (c && !o.derived && chainOk (idx + o.size * bl) (rest.head?.map (·.2.1)))

/-- `Datatype::create_struct` -/
def mkStruct (members : List (Int × Int × Obj)) : Option Obj :=
  match structLoop members 0 (0, 0, true) true with
  | none => none
  | some (size, lb, ub, contiguous) =>
    if !contiguous then some (.struct ⟨size, lb, ub, true⟩ (Blocks.ofList members))
    else mkContiguous size (basicObj 1) lb                               -- MPI_CHAR

/-- `Datatype::create_resized`: a Type_Struct {MPI_LB at lb, oldtype at 0, MPI_UB at lb+extent} built directly -/
def mkResized (old : Obj) (lb extent : Int) : Obj :=
  .struct ⟨old.info.size, lb, lb + extent, true⟩
    (.cons 1 lb markerObj (.cons 1 0 old (.cons 1 (lb + extent) markerObj .nil)))

/-- `is_valid()` = DT_FLAG_COMMITED.  Predefined types (and their dups) carry it; every `create_*` result lacks it until
    MPI_Type_commit (which a user only owes before communicating).  In this model only predefined types are committed:
    a non-derived `plain` object of positive size is a predefined type. -/
def Obj.isCommitted : Obj → Bool
  | .plain i => !i.derived && i.size > 0
  | _ => false

/-- the hvector loop of create_subarray over the remaining dimensions (already in traversal order) -/
def subarrayLoop (extent : Int) : List (Int × Int × Int) → Obj → Int → Int → Option (Obj × Int × Int)
  | [], tmp, size, lb => some (tmp, size, lb)
  | (sz, sub, start) :: rest, tmp, size, lb =>
    match mkHvector sub 1 (size * extent) tmp with
    | none => none
    | some nt => subarrayLoop extent rest nt (size * sz) (lb + size * start)

/-- `PMPI_Type_create_subarray` + `Datatype::create_subarray` (ndims ≥ 1; ndims = 0 gives MPI_DATATYPE_NULL) -/
def mkSubarray (dims : List (Int × Int × Int)) (orderC : Bool) (old : Obj) : Option Obj :=
  if dims.any (fun d => d.1 ≤ 0 || d.2.1 < 0 || d.2.2 < 0) then none else      -- CHECK_NEGATIVE_OR_ZERO / CHECK_NEGATIVE
  match dims with
  | [] => none
  | [(sz, sub, start)] =>
    -- ndims = 1: create_subarray without the `is_valid()` test: hindexed(1, [sub], [start*extent]) resized to [0, sz*extent)
    if sub > sz || start + sub > sz then none else                               -- MPI_ERR_ARG
    match mkHindexed [(sub, start * old.info.extent)] old with
    | none => none
    | some h => some (mkResized h 0 (sz * old.info.extent))
  | _ =>
    if !old.isCommitted then none else                                           -- `not oldtype->is_valid()`: MPI_ERR_TYPE
    if dims.any (fun d => d.2.1 > d.1 || d.2.2 + d.2.1 > d.1) then none else    -- MPI_ERR_ARG
    let ds := if orderC then dims.reverse else dims
    match ds with
    | (sz0, sub0, st0) :: (sz1, sub1, st1) :: rest =>
      let extent := old.info.extent
      match mkVector sub1 sub0 sz0 old with
      | none => none
      | some v =>
        match subarrayLoop extent rest v (sz0 * sz1) (st0 + st1 * sz0) with
        | none => none
        | some (tmp, size, lb) =>
          match mkHindexed [(1, lb * extent)] tmp with
          | none => none
          | some h => some (mkResized h 0 (size * extent))
    | _ => none

/-- `MPI_Type_dup` = `datatype->clone()`: same size / lb / ub / flags and the same blocks.  `Type_Vector::clone` and
    `Type_Indexed::clone` convert the stored byte stride / displacements back to extents of the old type (exact division;
    0 when the extent is 0) before calling the constructors, which scale them again. -/
def cloneObj : Obj → Obj
  | .hvector i n bl stride old true =>
    let e := old.info.extent
    .hvector i n bl ((if e != 0 then stride / e else 0) * e) old true
  | .hindexed i blocks old true =>
    let e := old.info.extent
    .hindexed i (blocks.map (fun b => (b.1, (if e != 0 then b.2 / e else 0) * e))) old true
  | o => o

mutual
/-- the object the nest of constructor calls produces; `none` = one of the calls returned an error code -/
def build : Tree → Option Obj
  | .basic s => some (basicObj s)
  | .contiguous n t => if n < 0 then none else (build t).bind (fun o => mkContiguous n o 0)
  | .vector n bl st t => if n < 0 then none else (build t).bind (mkVector n bl st)
  | .hvector n bl st t => if n < 0 then none else (build t).bind (mkHvector n bl st)
  | .indexed bs t => (build t).bind (mkIndexed bs)
  | .hindexed bs t => (build t).bind (mkHindexed bs)
  | .indexedBlock bl ds t => (build t).bind (mkIndexed (ds.map (fun d => (bl, d))))
  | .hindexedBlock bl ds t => (build t).bind (mkHindexed (ds.map (fun d => (bl, d))))
  | .struct m => (buildMembers m).bind mkStruct
  | .resized lb ext t => (build t).map (fun o => mkResized o lb ext)
  | .subarray dims c t => (build t).bind (mkSubarray dims c)
  | .dup t => (build t).map cloneObj
def buildMembers : Members → Option (List (Int × Int × Obj))
  | .nil => some []
  | .cons bl d t rest =>
    match build t, buildMembers rest with
    | some o, some r => some ((bl, d, o) :: r)
    | _, _ => none
end

/-! ## serialize / unserialize: the byte offsets visited, in order -/

def byteRange (start len : Int) : List Int := (List.range len.toNat).map (fun (k : Nat) => start + (k : Int))

/-- element indices `0 .. count-1` of a `for (j = 0; j < count; j++)` loop -/
def upto (n : Int) : List Int := (List.range n.toNat).map (fun (k : Nat) => (k : Int))

mutual
/-- offsets (relative to the user buffer) read by `o->serialize(buf + base, contiguous, count)` in the order they
    are stored in the contiguous buffer; `unserialize` visits the same offsets in the same order (writing).
    Type_Hvector / Type_Hindexed / Type_Struct: block i of element j is at `base + j * get_extent() + (i * stride | index_i)`;
    a block is a memcpy of `bl * size` bytes when the old type is not derived, `old->serialize(p, ., bl)` otherwise. -/
def walk : Obj → Int → Int → List Int
  | .plain i, count, base => byteRange (base + i.lb) (count * i.size)
  | .contig i n old, count, base => byteRange (base + i.lb) (old.info.size * count * n)
  | .hvector i n bl stride old _, count, base =>
    (upto count).flatMap (fun j => (upto n).flatMap (fun k =>
      let p := base + j * i.extent + k * stride
      if !old.info.derived then byteRange p (bl * old.info.size) else walk old bl p))
  | .hindexed i blocks old _, count, base =>
    (upto count).flatMap (fun j => blocks.flatMap (fun b =>
      let p := base + j * i.extent + b.2
      if !old.info.derived then byteRange p (b.1 * old.info.size) else walk old b.1 p))
  | .struct i blocks, count, base =>
    (upto count).flatMap (fun j => walkBlocks blocks (base + j * i.extent))
/-- inner `for (i < block_count_)` of Type_Struct for the element starting at `elem` -/
def walkBlocks : Blocks → Int → List Int
  | .nil, _ => []
  | .cons bl d old rest, elem =>
    (if !old.info.derived then byteRange (elem + d) (bl * old.info.size) else walk old bl (elem + d)) ++ walkBlocks rest elem
end

/-! ## the MPI standard (spec) -/

namespace Spec

structure Layout where
  bytes : List Int      -- byte offsets of the typemap entries, in typemap order
  lb : Int
  ub : Int
  deriving DecidableEq, Repr, Inhabited

def Layout.extent (l : Layout) : Int := l.ub - l.lb
def Layout.size (l : Layout) : Int := l.bytes.length

def listMin : List Int → Int
  | [] => 0
  | x :: xs => xs.foldl min x
def listMax : List Int → Int
  | [] => 0
  | x :: xs => xs.foldl max x

/-- a type made of copies of `old` placed at displacements `ds` (MPI-4.0 §5.1.2; lb/ub markers of `old` travel with
    each copy, §5.1.7): lb = min (d + lb_old), ub = max (d + ub_old), ε = 0; no copy at all: empty typemap, lb = ub = 0 -/
def place (ds : List Int) (old : Layout) : Layout :=
  ⟨ds.flatMap (fun d => old.bytes.map (· + d)), listMin (ds.map (· + old.lb)), listMax (ds.map (· + old.ub))⟩

def range (n : Int) : List Int := (List.range n.toNat).map (fun (k : Nat) => (k : Int))

/-- index tuples of the selected sub-block in storage order, as linear element positions in the full array.
    `dims` is given slowest-varying dimension first. -/
def subPositions : List (Int × Int × Int) → List Int
  | [] => [0]
  | (_, sub, start) :: rest =>
    let inner := subPositions rest
    let stride := (rest.map (·.1)).foldl (· * ·) 1
    (range sub).flatMap (fun k => inner.map (fun p => (start + k) * stride + p))

mutual
def layout : Tree → Layout
  | .basic s => ⟨range s, 0, s⟩
  | .contiguous n t => let o := layout t; place ((range n).map (· * o.extent)) o
  | .vector n bl st t =>
    let o := layout t
    place ((range n).flatMap (fun i => (range bl).map (fun j => (i * st + j) * o.extent))) o
  | .hvector n bl st t =>
    let o := layout t
    place ((range n).flatMap (fun i => (range bl).map (fun j => i * st + j * o.extent))) o
  | .indexed bs t =>
    let o := layout t
    place (bs.flatMap (fun b => (range b.1).map (fun j => (b.2 + j) * o.extent))) o
  | .hindexed bs t =>
    let o := layout t
    place (bs.flatMap (fun b => (range b.1).map (fun j => b.2 + j * o.extent))) o
  | .indexedBlock bl ds t =>
    let o := layout t
    place (ds.flatMap (fun d => (range bl).map (fun j => (d + j) * o.extent))) o
  | .hindexedBlock bl ds t =>
    let o := layout t
    place (ds.flatMap (fun d => (range bl).map (fun j => d + j * o.extent))) o
  | .struct m =>
    let parts := (layoutMembers m).filter (·.2)
    ⟨(layoutMembers m).flatMap (·.1.bytes), listMin (parts.map (·.1.lb)), listMax (parts.map (·.1.ub))⟩
  | .resized lb ext t => ⟨(layout t).bytes, lb, lb + ext⟩
  | .subarray dims c t =>
    let o := layout t
    let ds := if c then dims else dims.reverse
    let p := place ((subPositions ds).map (· * o.extent)) o
    ⟨p.bytes, 0, (dims.map (·.1)).foldl (· * ·) 1 * o.extent⟩
  | .dup t => layout t
/-- per member: its placed layout and whether it has at least one copy (bl > 0) -/
def layoutMembers : Members → List (Layout × Bool)
  | .nil => []
  | .cons bl d t rest =>
    let o := layout t
    (place ((range bl).map (fun j => d + j * o.extent)) o, decide (bl > 0)) :: layoutMembers rest
end

/-- true lower bound / true extent: of the data only (MPI-4.0 §5.1.8) -/
def trueLb (l : Layout) : Int := listMin l.bytes
def trueExtent (l : Layout) : Int := if l.bytes.isEmpty then 0 else listMax l.bytes + 1 - listMin l.bytes

/-- offsets of `count` consecutive elements starting at the buffer address: element k at k * extent -/
def bytesOf (l : Layout) (count : Int) : List Int :=
  (range count).flatMap (fun k => l.bytes.map (· + k * l.extent))

end Spec

end SgVerif.C30
