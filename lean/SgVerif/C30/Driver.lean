import SgVerif.C30.Model
import SgVerif.Common.Proto
/-
C30 driver.  Lines produced by props/C30/harness.cpp (real SMPI under smpirun):
  lay <tree>                     => <size> <lb> <extent> <true_lb> <true_extent>  |  err
  xfer <mode> <count> <tree>     => <rc> <segments | hex>     mode ∈ pack unpack sendrecv send bcast
Tree syntax (prefix): b<size> | c n T | v n bl st T | hv n bl st T | i k (bl idx)^k T | hi k (bl d)^k T | ib k bl idx^k T
  | hib k bl d^k T | s k (bl d T)^k | r lb ext T | sa k C|F (size sub start)^k T | d T
Model answer: `build` / `walk` (what the code computes).  Monitor: `Spec.layout` (MPI typemap, lb, ub, true extent) and
the bytes the typemap selects.
-/
open SgVerif.Proto
namespace SgVerif.C30

def takeInts : Nat → List String → Option (List Int × List String)
  | 0, ts => some ([], ts)
  | n + 1, t :: ts =>
    match t.toInt?, takeInts n ts with
    | some v, some (vs, rest) => some (v :: vs, rest)
    | _, _ => none
  | _ + 1, [] => none

def pairs : List Int → List (Int × Int)
  | a :: b :: r => (a, b) :: pairs r
  | _ => []
def triples : List Int → List (Int × Int × Int)
  | a :: b :: c :: r => (a, b, c) :: triples r
  | _ => []

mutual
partial def parseTree : List String → Option (Tree × List String)
  | [] => none
  | t :: ts =>
    if t.startsWith "b" then (t.drop 1).toString.toNat?.map (fun s => (Tree.basic s, ts))
    else match t with
    | "c" => do let ([n], r) ← takeInts 1 ts | none
                let (x, r) ← parseTree r
                pure (.contiguous n x, r)
    | "v" => do let ([n, bl, st], r) ← takeInts 3 ts | none
                let (x, r) ← parseTree r
                pure (.vector n bl st x, r)
    | "hv" => do let ([n, bl, st], r) ← takeInts 3 ts | none
                 let (x, r) ← parseTree r
                 pure (.hvector n bl st x, r)
    | "i" => do let ([k], r) ← takeInts 1 ts | none
                let (vs, r) ← takeInts (2 * k.toNat) r
                let (x, r) ← parseTree r
                pure (.indexed (pairs vs) x, r)
    | "hi" => do let ([k], r) ← takeInts 1 ts | none
                 let (vs, r) ← takeInts (2 * k.toNat) r
                 let (x, r) ← parseTree r
                 pure (.hindexed (pairs vs) x, r)
    | "ib" => do let ([k, bl], r) ← takeInts 2 ts | none
                 let (vs, r) ← takeInts k.toNat r
                 let (x, r) ← parseTree r
                 pure (.indexedBlock bl vs x, r)
    | "hib" => do let ([k, bl], r) ← takeInts 2 ts | none
                  let (vs, r) ← takeInts k.toNat r
                  let (x, r) ← parseTree r
                  pure (.hindexedBlock bl vs x, r)
    | "s" => do let ([k], r) ← takeInts 1 ts | none
                let (m, r) ← parseMembers k.toNat r
                pure (.struct m, r)
    | "r" => do let ([lb, ext], r) ← takeInts 2 ts | none
                let (x, r) ← parseTree r
                pure (.resized lb ext x, r)
    | "sa" => do let ([k], r) ← takeInts 1 ts | none
                 match r with
                 | o :: r =>
                   let (vs, r) ← takeInts (3 * k.toNat) r
                   let (x, r) ← parseTree r
                   pure (.subarray (triples vs) (o == "C") x, r)
                 | [] => none
    | "d" => do let (x, r) ← parseTree ts
                pure (.dup x, r)
    | _ => none
partial def parseMembers : Nat → List String → Option (Members × List String)
  | 0, ts => some (.nil, ts)
  | n + 1, ts => do
    let ([bl, d], r) ← takeInts 2 ts | none
    let (x, r) ← parseTree r
    let (m, r) ← parseMembers n r
    pure (.cons bl d x m, r)
end

/-- (size, lb, ub) the code computes / MPI defines -/
def codeSLU (t : Tree) : Option (Int × Int × Int) := (build t).map (fun o => (o.info.size, o.info.lb, o.info.ub))
def specSLU (t : Tree) : Int × Int × Int := let l := Spec.layout t; (l.size, l.lb, l.ub)

def agree (t : Tree) : Bool := codeSLU t == some (specSLU t)

mutual
/-- innermost subtree whose (size, lb, ub) differ between code and MPI although all its subtrees agree: constructor + reason -/
partial def culprit : Tree → Option String
  | .basic _ => none
  | .contiguous n t => (culprit t).orElse (fun _ => if agree (.contiguous n t) then none else some "contiguous-other")
  | .vector n bl st t => (culprit t).orElse (fun _ => if agree (.vector n bl st t) then none else
      some (if bl == 0 && n > 0 then "vector-zero-blocklength" else "vector-other"))
  | .hvector n bl st t => (culprit t).orElse (fun _ => if agree (.hvector n bl st t) then none else
      some (if bl == 0 && n > 0 then "vector-zero-blocklength" else "hvector-other"))
  | .indexed bs t => (culprit t).orElse (fun _ => if agree (.indexed bs t) then none else
      some ("indexed-" ++ idxReason (bs.map (·.1)) t))
  | .hindexed bs t => (culprit t).orElse (fun _ => if agree (.hindexed bs t) then none else
      some ("indexed-" ++ idxReason (bs.map (·.1)) t))
  | .indexedBlock bl ds t => (culprit t).orElse (fun _ => if agree (.indexedBlock bl ds t) then none else
      some ("indexed-" ++ idxReason (ds.map (fun _ => bl)) t))
  | .hindexedBlock bl ds t => (culprit t).orElse (fun _ => if agree (.hindexedBlock bl ds t) then none else
      some ("indexed-" ++ idxReason (ds.map (fun _ => bl)) t))
  | .struct m => (culpritM m).orElse (fun _ => if agree (.struct m) then none else
      some ("struct-" ++ (if membersAny (fun bl _ => bl == 0) m then "zero-length-block"
        else if membersAny (fun _ t => (Spec.layout t).lb != 0) m then "member-lb-nonzero" else "other")))
  | .resized lb e t => (culprit t).orElse (fun _ => if agree (.resized lb e t) then none else some "resized-other")
  | .subarray ds c t => (culprit t).orElse (fun _ => if agree (.subarray ds c t) then none else
      some (if ds.length == 1 then "subarray-ndims1" else "subarray-other"))
  | .dup t => (culprit t).orElse (fun _ => if agree (.dup t) then none else some "dup-other")
partial def culpritM : Members → Option String
  | .nil => none
  | .cons _ _ t rest => (culprit t).orElse (fun _ => culpritM rest)
partial def membersAny (p : Int → Tree → Bool) : Members → Bool
  | .nil => false
  | .cons bl _ t rest => p bl t || membersAny p rest
partial def idxReason (bls : List Int) (t : Tree) : String :=
  if bls.any (· == 0) then "zero-length-block"
  else if (Spec.layout t).lb != 0 then "old-lb-nonzero" else "other"
end

mutual
/-- argument validity per the MPI standard (counts, block lengths non-negative; subarray inside the array) -/
partial def validTree : Tree → Bool
  | .basic _ => true
  | .contiguous n t => n ≥ 0 && validTree t
  | .vector n bl _ t => n ≥ 0 && bl ≥ 0 && validTree t
  | .hvector n bl _ t => n ≥ 0 && bl ≥ 0 && validTree t
  | .indexed bs t => bs.all (·.1 ≥ 0) && validTree t
  | .hindexed bs t => bs.all (·.1 ≥ 0) && validTree t
  | .indexedBlock bl _ t => bl ≥ 0 && validTree t
  | .hindexedBlock bl _ t => bl ≥ 0 && validTree t
  | .struct m => validMembers m
  | .resized _ _ t => validTree t
  | .subarray ds _ t => !ds.isEmpty && ds.all (fun d => d.1 ≥ 1 && d.2.1 ≥ 0 && d.2.2 ≥ 0 && d.2.1 + d.2.2 ≤ d.1) && validTree t
  | .dup t => validTree t
partial def validMembers : Members → Bool
  | .nil => true
  | .cons bl _ t rest => bl ≥ 0 && validTree t && validMembers rest
end

def judgeLay (t : Tree) (a : List String) : Verdict :=
  let l := Spec.layout t
  let model : List String := match build t with
    | some o => [toString o.info.size, toString o.info.lb, toString o.info.extent, toString o.info.lb, toString o.info.extent]
    | none => ["err"]
  match a.mapM String.toInt? with
  | some [size, lb, ext, tlb, text] =>
    if (size, lb, ext) ≠ (l.size, l.lb, l.extent) then
      .monfail s!"key=layout-{(culprit t).getD "unlocated"} MPI: size {l.size} lb {l.lb} extent {l.extent}; library: size {size} lb {lb} extent {ext}"
    else if l.size > 0 ∧ (tlb, text) ≠ (Spec.trueLb l, Spec.trueExtent l) then
      .monfail s!"key=true-extent MPI: true_lb {Spec.trueLb l} true_extent {Spec.trueExtent l}; library: {tlb} {text}"
    else cmpAns model a
  | _ =>
    -- `err`: a constructor call returned an error code
    if a = ["err"] ∧ validTree t then
      .monfail s!"key=valid-type-rejected the constructor calls are valid MPI (size {l.size} lb {l.lb} extent {l.extent}) but the library returned an error (model of the code: {" ".intercalate model})"
    else cmpAns model a

/-- source pattern of the typed user buffer at offset `o` from the buffer pointer; contiguous stream byte `k` -/
def patTyped (o : Int) : Nat := ((o + 4096) * 37 + 11).toNat % 251
def patStream (k : Nat) : Nat := (k * 41 + 5) % 251

def hex2 (n : Nat) : String :=
  let d := "0123456789abcdef".toList
  String.ofList [d.getD (n / 16) '0', d.getD (n % 16) '0']

/-- insertion of (offset, byte) keeping the list sorted by offset; a later write to the same offset overrides -/
def insertSorted (o : Int) (b : Nat) : List (Int × Nat) → List (Int × Nat)
  | [] => [(o, b)]
  | (o', b') :: r => if o < o' then (o, b) :: (o', b') :: r else if o == o' then (o, b) :: r else (o', b') :: insertSorted o b r

def writesToMap (ws : List (Int × Nat)) : List (Int × Nat) := ws.foldl (fun m w => insertSorted w.1 w.2 m) []

/-- maximal runs `off:hex` -/
def segments : List (Int × Nat) → List String
  | [] => []
  | (o, b) :: r =>
    let rec go (start : Int) (next : Int) (acc : String) : List (Int × Nat) → List String
      | [] => [s!"{start}:{acc}"]
      | (o', b') :: r' => if o' == next then go start (next + 1) (acc ++ hex2 b') r'
                          else s!"{start}:{acc}" :: go o' (o' + 1) (hex2 b') r'
    go o (o + 1) (hex2 b) r

def answerOf (mode : String) (offs : List Int) : List String :=
  match mode with
  | "pack" => ["0", if offs.isEmpty then "-" else String.join (offs.map (fun o => hex2 (patTyped o)))]
  | "unpack" =>
    let ws := (List.range offs.length).zip offs |>.map (fun p => (p.2, patStream p.1))
    "0" :: segments (writesToMap ws)
  | _ => "0" :: segments (writesToMap (offs.map (fun o => (o, patTyped o))))

mutual
partial def hasDup : Tree → Bool
  | .basic _ => false
  | .contiguous _ t => hasDup t
  | .vector _ _ _ t => hasDup t
  | .hvector _ _ _ t => hasDup t
  | .indexed _ t => hasDup t
  | .hindexed _ t => hasDup t
  | .indexedBlock _ _ t => hasDup t
  | .hindexedBlock _ _ t => hasDup t
  | .struct m => hasDupM m
  | .resized _ _ t => hasDup t
  | .subarray _ _ t => hasDup t
  | .dup _ => true
partial def hasDupM : Members → Bool
  | .nil => false
  | .cons _ _ t rest => hasDup t || hasDupM rest
end

def hasDuplicates (l : List Int) : Bool :=
  let sorted := l.toArray.qsort (· < ·) |>.toList
  (sorted.zip (sorted.drop 1)).any (fun p => p.1 == p.2)

def judgeXfer (mode : String) (count : Int) (t : Tree) (a : List String) : Verdict :=
  let l := Spec.layout t
  let want := answerOf mode (Spec.bytesOf l count)
  let model := match build t with
    | some o => answerOf mode (walk o count 0)
    | none => ["err"]
  -- overlapping entries in a receive typemap are erroneous in MPI: no expectation, only model = library
  if mode ≠ "pack" ∧ hasDuplicates (Spec.bytesOf l count) then cmpAns model a else
  if a ≠ want then
    let one := match build t with
      | some o => answerOf mode (walk o 1 0) == answerOf mode (Spec.bytesOf l 1)
      | none => false
    let key := if a = ["err"] ∧ validTree t then "valid-type-rejected" else match culprit t with
      | some _ => "xfer-layout"
      | none => if hasDup t then "xfer-dup" else if count > 1 && one then "xfer-multi-count" else "xfer-walk"
    .monfail s!"key={key} {mode} count={count}: bytes selected by the MPI typemap give {" ".intercalate (want.take 12)} but the library gave {" ".intercalate (a.take 12)} (model of the code: {" ".intercalate (model.take 12)})"
  else cmpAns model a

def judge (q a : List String) : Verdict :=
  match q with
  | "lay" :: ts =>
    match parseTree ts with
    | some (t, []) => judgeLay t a
    | _ => .bad
  | "xfer" :: mode :: count :: ts =>
    match count.toInt?, parseTree ts with
    | some c, some (t, []) => judgeXfer mode c t a
    | _, _ => .bad
  | _ => .bad

end SgVerif.C30

def main : IO Unit := SgVerif.Proto.run SgVerif.C30.judge
