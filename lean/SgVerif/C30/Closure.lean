import SgVerif.C30.Lemmas
import Mathlib.Tactic.Ring
import Mathlib.Tactic.Linarith
/-
C30 — the relation `Rel1` between an object the code builds and an MPI layout (lb, ub, size, the natural bounds of a
non-derived type) and its preservation by every `mk*` function of the model: the induction steps of
`size_eq_spec` / `lb_ub_extent_eq_spec` for ALL constructor trees (Props.lean does the induction).
-/
set_option linter.unusedSimpArgs false
set_option linter.unusedVariables false
namespace SgVerif.C30
open Spec

/-- "the object satisfies the spec" (object / layout level, so that the chains of internal constructor calls of
    create_subarray can be followed too) -/
structure Rel1 (o : Obj) (l : Layout) : Prop where
  lb : o.info.lb = l.lb
  ub : o.info.ub = l.ub
  le : l.lb ≤ l.ub
  size : o.info.size = l.size
  nat : o.info.derived = false → l.lb = 0 ∧ l.ub = o.info.size ∧ l.bytes = Spec.range o.info.size

theorem Rel1.ext {o : Obj} {l : Layout} (h : Rel1 o l) : o.info.extent = l.extent := by
  simp only [Info.extent, Layout.extent, h.lb, h.ub]

theorem Rel1.ext_nonneg {o : Obj} {l : Layout} (h : Rel1 o l) : 0 ≤ l.extent := by
  have := h.le; simp only [Layout.extent]; omega

theorem Rel1.size_nonneg {o : Obj} {l : Layout} (h : Rel1 o l) : 0 ≤ o.info.size := by
  rw [h.size]; simp only [Layout.size]; omega

theorem Rel1.natural {o : Obj} {l : Layout} (h : Rel1 o l) (hd : o.info.derived = false) :
    o.info.lb = 0 ∧ o.info.ub = o.info.size ∧ o.info.extent = o.info.size ∧ l.extent = o.info.size := by
  obtain ⟨a, b, _⟩ := h.nat hd
  have e := h.ext
  refine ⟨by rw [h.lb, a], by rw [h.ub, b], ?_, ?_⟩
  · simp only [Info.extent, h.lb, h.ub, a, b]; omega
  · simp only [Layout.extent, a, b]; omega

theorem range_length (n : Int) : ((Spec.range n).length : Int) = if 0 ≤ n then n else 0 := by
  simp only [Spec.range, List.length_map, List.length_range]
  split <;> omega

theorem range_zero : Spec.range 0 = [] := rfl

/-- a type of size 0 has an empty typemap, which is `range 0` -/
theorem nat_of_empty (l : Layout) (s : Int) (hs : s = l.size) (h0 : s = 0) : l.bytes = Spec.range s := by
  subst h0
  simp only [Layout.size] at hs
  have : l.bytes.length = 0 := by omega
  rw [List.length_eq_zero_iff.mp this]; rfl

theorem basic_rel (s : Nat) : Rel1 (basicObj s) (layout (.basic s)) := by
  refine ⟨rfl, rfl, ?_, ?_, ?_⟩
  · simp [layout]
  · simp [layout, basicObj, Obj.info, Layout.size, Spec.range]
  · intro _; simp [layout, basicObj, Obj.info]

/-! ### size of a placement -/

theorem place_size (ds : List Int) (old : Layout) : (place ds old).size = ds.length * old.size := by
  simp only [place, Layout.size]
  have : ∀ (ds : List Int), (ds.flatMap (fun d => old.bytes.map (· + d))).length = ds.length * old.bytes.length := by
    intro ds
    induction ds with
    | nil => simp
    | cons d t ih => simp only [List.flatMap_cons, List.length_append, List.length_map, ih, List.length_cons]; ring
  rw [this]; push_cast; ring

theorem place_lb (ds : List Int) (old : Layout) : (place ds old).lb = listMin (ds.map (· + old.lb)) := rfl
theorem place_ub (ds : List Int) (old : Layout) : (place ds old).ub = listMax (ds.map (· + old.ub)) := rfl
theorem place_le (ds : List Int) (old : Layout) (h : old.lb ≤ old.ub) : (place ds old).lb ≤ (place ds old).ub :=
  listMin_le_listMax ds _ _ h

/-! ### the double loop of vector / hvector: `n` blocks of `bl` copies, block i at `i * S`, copy j at `+ j * e` -/

def dsHv (n bl S e : Int) : List Int := (Spec.range n).flatMap (fun i => (Spec.range bl).map (fun j => i * S + j * e))

theorem dsHv_length (n bl S e : Int) (hn : 0 ≤ n) (hbl : 0 ≤ bl) : ((dsHv n bl S e).length : Int) = n * bl := by
  have h : ∀ (xs : List Int), (xs.flatMap (fun i => (Spec.range bl).map (fun j => i * S + j * e))).length =
      xs.length * (Spec.range bl).length := by
    intro xs
    induction xs with
    | nil => simp
    | cons d t ih => simp only [List.flatMap_cons, List.length_append, List.length_map, ih, List.length_cons]; ring
  simp only [dsHv, h]
  push_cast
  rw [range_length, range_length]
  simp [hn, hbl]

theorem dsHv_nil (n bl S e : Int) (h : n ≤ 0 ∨ bl ≤ 0) : dsHv n bl S e = [] := by
  rcases h with h | h
  · simp [dsHv, range_nil n h]
  · simp [dsHv, range_nil bl h]

theorem mem_dsHv (n bl S e x : Int) : x ∈ dsHv n bl S e ↔ ∃ i j, 0 ≤ i ∧ i < n ∧ 0 ≤ j ∧ j < bl ∧ x = i * S + j * e := by
  simp only [dsHv, List.mem_flatMap, List.mem_map, mem_range]
  constructor
  · rintro ⟨i, ⟨hi0, hi1⟩, j, ⟨hj0, hj1⟩, rfl⟩; exact ⟨i, j, hi0, hi1, hj0, hj1, rfl⟩
  · rintro ⟨i, j, hi0, hi1, hj0, hj1, rfl⟩; exact ⟨i, ⟨hi0, hi1⟩, j, ⟨hj0, hj1⟩, rfl⟩

theorem dsHv_isMin (n bl S e L : Int) (hn : 0 < n) (hbl : 0 < bl) (hS : 0 ≤ S) (he : 0 ≤ e) :
    IsMin ((dsHv n bl S e).map (· + L)) L := by
  refine ⟨?_, ?_⟩
  · simp only [List.mem_map, mem_dsHv]
    exact ⟨0, ⟨0, 0, by omega, hn, by omega, hbl, by ring⟩, by ring⟩
  · intro x hx
    simp only [List.mem_map, mem_dsHv] at hx
    obtain ⟨_, ⟨i, j, hi0, _, hj0, _, rfl⟩, rfl⟩ := hx
    have := Int.mul_nonneg hi0 hS
    have := Int.mul_nonneg hj0 he
    omega

theorem dsHv_isMax (n bl S e U : Int) (hn : 0 < n) (hbl : 0 < bl) (hS : 0 ≤ S) (he : 0 ≤ e) :
    IsMax ((dsHv n bl S e).map (· + U)) ((n - 1) * S + (bl - 1) * e + U) := by
  refine ⟨?_, ?_⟩
  · simp only [List.mem_map, mem_dsHv]
    exact ⟨_, ⟨n - 1, bl - 1, by omega, by omega, by omega, by omega, rfl⟩, rfl⟩
  · intro x hx
    simp only [List.mem_map, mem_dsHv] at hx
    obtain ⟨_, ⟨i, j, _, hi1, _, hj1, rfl⟩, rfl⟩ := hx
    have : i * S ≤ (n - 1) * S := Int.mul_le_mul_of_nonneg_right (by omega) hS
    have : j * e ≤ (bl - 1) * e := Int.mul_le_mul_of_nonneg_right (by omega) he
    omega

/-- lb / ub of the MPI placement of the double loop -/
theorem dsHv_bounds (n bl S e : Int) (old : Layout) (hS : 0 ≤ S) (he : 0 ≤ e) :
    (place (dsHv n bl S e) old).lb = (if n > 0 ∧ bl > 0 then old.lb else 0) ∧
    (place (dsHv n bl S e) old).ub = (if n > 0 ∧ bl > 0 then (n - 1) * S + (bl - 1) * e + old.ub else 0) := by
  by_cases h : n > 0 ∧ bl > 0
  · simp only [h, and_self, if_true, place_lb, place_ub]
    exact ⟨isMin_unique _ _ (dsHv_isMin n bl S e _ h.1 h.2 hS he), isMax_unique _ _ (dsHv_isMax n bl S e _ h.1 h.2 hS he)⟩
  · have hnil := dsHv_nil n bl S e (by omega)
    simp only [h, if_false, place_lb, place_ub, hnil, List.map_nil, listMin, listMax]
    exact ⟨trivial, trivial⟩

end SgVerif.C30
