import SgVerif.C30.Lemmas
import Mathlib.Tactic.Ring
import Mathlib.Tactic.Linarith
/-
C30 — the relation `Rel1` between an object the code builds and an MPI layout (lb, ub, size, natural bounds of a non-derived
type) and its preservation by create_hvector / vector / contiguous / indexed / hindexed / resized / struct.
-/
set_option linter.unusedSimpArgs false
set_option linter.unusedVariables false
set_option linter.unnecessarySeqFocus false
namespace SgVerif.C30
open Spec

/-! ############ (was Closure.lean) ############ -/
/-
C30 — the relation `Rel1` between an object the code builds and an MPI layout (lb, ub, size, the natural bounds of a
non-derived type) and its preservation by every `mk*` function of the model: the induction steps of
`size_eq_spec` / `lb_ub_extent_eq_spec` for ALL constructor trees (Props.lean does the induction).
-/

/-- "the object satisfies the spec" (object / layout level, so that the chains of internal constructor calls of
    create_subarray can be followed too) -/
structure Rel1 (o : Obj) (l : Layout) : Prop where
  lb : o.info.lb = l.lb
  ub : o.info.ub = l.ub
  le : l.lb ≤ l.ub
  size : o.info.size = l.size
  nat : o.info.derived = false → l.lb = 0 ∧ l.ub = o.info.size ∧ l.bytes = Spec.range o.info.size

theorem Rel1.ext {o : Obj} {l : Layout} (h : Rel1 o l) : o.info.extent = l.extent := by
  simp only [Info.extent, Layout.extent, h.lb, h.ub]

theorem Rel1.ext_nonneg {o : Obj} {l : Layout} (h : Rel1 o l) : 0 ≤ l.extent := by
  have := h.le; simp only [Layout.extent]; omega

theorem Rel1.size_nonneg {o : Obj} {l : Layout} (h : Rel1 o l) : 0 ≤ o.info.size := by
  rw [h.size]; simp only [Layout.size]; omega

theorem Rel1.natural {o : Obj} {l : Layout} (h : Rel1 o l) (hd : o.info.derived = false) :
    o.info.lb = 0 ∧ o.info.ub = o.info.size ∧ o.info.extent = o.info.size ∧ l.extent = o.info.size := by
  obtain ⟨a, b, _⟩ := h.nat hd
  have e := h.ext
  refine ⟨by rw [h.lb, a], by rw [h.ub, b], ?_, ?_⟩
  · simp only [Info.extent, h.lb, h.ub, a, b]; omega
  · simp only [Layout.extent, a, b]; omega

theorem range_length (n : Int) : ((Spec.range n).length : Int) = if 0 ≤ n then n else 0 := by
  simp only [Spec.range, List.length_map, List.length_range]
  split <;> omega

theorem range_zero : Spec.range 0 = [] := rfl

/-- a type of size 0 has an empty typemap, which is `range 0` -/
theorem nat_of_empty (l : Layout) (s : Int) (hs : s = l.size) (h0 : s = 0) : l.bytes = Spec.range s := by
  subst h0
  simp only [Layout.size] at hs
  have : l.bytes.length = 0 := by omega
  rw [List.length_eq_zero_iff.mp this]; rfl

theorem basic_rel (s : Nat) : Rel1 (basicObj s) (layout (.basic s)) := by
  refine ⟨rfl, rfl, ?_, ?_, ?_⟩
  · simp [layout]
  · simp [layout, basicObj, Obj.info, Layout.size, Spec.range]
  · intro _; simp [layout, basicObj, Obj.info]

/-! ### size of a placement -/

theorem place_size (ds : List Int) (old : Layout) : (place ds old).size = ds.length * old.size := by
  simp only [place, Layout.size]
  have : ∀ (ds : List Int), (ds.flatMap (fun d => old.bytes.map (· + d))).length = ds.length * old.bytes.length := by
    intro ds
    induction ds with
    | nil => simp
    | cons d t ih => simp only [List.flatMap_cons, List.length_append, List.length_map, ih, List.length_cons]; ring
  rw [this]; push_cast; ring

theorem place_lb (ds : List Int) (old : Layout) : (place ds old).lb = listMin (ds.map (· + old.lb)) := rfl
theorem place_ub (ds : List Int) (old : Layout) : (place ds old).ub = listMax (ds.map (· + old.ub)) := rfl
theorem place_le (ds : List Int) (old : Layout) (h : old.lb ≤ old.ub) : (place ds old).lb ≤ (place ds old).ub :=
  listMin_le_listMax ds _ _ h

/-! ### the double loop of vector / hvector: `n` blocks of `bl` copies, block i at `i * S`, copy j at `+ j * e` -/

def dsHv (n bl S e : Int) : List Int := (Spec.range n).flatMap (fun i => (Spec.range bl).map (fun j => i * S + j * e))

theorem dsHv_length (n bl S e : Int) (hn : 0 ≤ n) (hbl : 0 ≤ bl) : ((dsHv n bl S e).length : Int) = n * bl := by
  have h : ∀ (xs : List Int), (xs.flatMap (fun i => (Spec.range bl).map (fun j => i * S + j * e))).length =
      xs.length * (Spec.range bl).length := by
    intro xs
    induction xs with
    | nil => simp
    | cons d t ih => simp only [List.flatMap_cons, List.length_append, List.length_map, ih, List.length_cons]; ring
  simp only [dsHv, h]
  push_cast
  rw [range_length, range_length]
  simp [hn, hbl]

theorem dsHv_nil (n bl S e : Int) (h : n ≤ 0 ∨ bl ≤ 0) : dsHv n bl S e = [] := by
  rcases h with h | h
  · simp [dsHv, range_nil n h]
  · simp [dsHv, range_nil bl h]

theorem mem_dsHv (n bl S e x : Int) : x ∈ dsHv n bl S e ↔ ∃ i j, 0 ≤ i ∧ i < n ∧ 0 ≤ j ∧ j < bl ∧ x = i * S + j * e := by
  simp only [dsHv, List.mem_flatMap, List.mem_map, mem_range]
  constructor
  · rintro ⟨i, ⟨hi0, hi1⟩, j, ⟨hj0, hj1⟩, rfl⟩; exact ⟨i, j, hi0, hi1, hj0, hj1, rfl⟩
  · rintro ⟨i, j, hi0, hi1, hj0, hj1, rfl⟩; exact ⟨i, ⟨hi0, hi1⟩, j, ⟨hj0, hj1⟩, rfl⟩

theorem dsHv_isMin (n bl S e L : Int) (hn : 0 < n) (hbl : 0 < bl) (hS : 0 ≤ S) (he : 0 ≤ e) :
    IsMin ((dsHv n bl S e).map (· + L)) L := by
  refine ⟨?_, ?_⟩
  · simp only [List.mem_map, mem_dsHv]
    exact ⟨0, ⟨0, 0, by omega, hn, by omega, hbl, by ring⟩, by ring⟩
  · intro x hx
    simp only [List.mem_map, mem_dsHv] at hx
    obtain ⟨_, ⟨i, j, hi0, _, hj0, _, rfl⟩, rfl⟩ := hx
    have := Int.mul_nonneg hi0 hS
    have := Int.mul_nonneg hj0 he
    omega

theorem dsHv_isMax (n bl S e U : Int) (hn : 0 < n) (hbl : 0 < bl) (hS : 0 ≤ S) (he : 0 ≤ e) :
    IsMax ((dsHv n bl S e).map (· + U)) ((n - 1) * S + (bl - 1) * e + U) := by
  refine ⟨?_, ?_⟩
  · simp only [List.mem_map, mem_dsHv]
    exact ⟨_, ⟨n - 1, bl - 1, by omega, by omega, by omega, by omega, rfl⟩, rfl⟩
  · intro x hx
    simp only [List.mem_map, mem_dsHv] at hx
    obtain ⟨_, ⟨i, j, _, hi1, _, hj1, rfl⟩, rfl⟩ := hx
    have : i * S ≤ (n - 1) * S := Int.mul_le_mul_of_nonneg_right (by omega) hS
    have : j * e ≤ (bl - 1) * e := Int.mul_le_mul_of_nonneg_right (by omega) he
    omega

/-- lb / ub of the MPI placement of the double loop -/
theorem dsHv_bounds (n bl S e : Int) (old : Layout) (hS : 0 ≤ S) (he : 0 ≤ e) :
    (place (dsHv n bl S e) old).lb = (if n > 0 ∧ bl > 0 then old.lb else 0) ∧
    (place (dsHv n bl S e) old).ub = (if n > 0 ∧ bl > 0 then (n - 1) * S + (bl - 1) * e + old.ub else 0) := by
  by_cases h : n > 0 ∧ bl > 0
  · simp only [h, and_self, if_true, place_lb, place_ub]
    exact ⟨isMin_unique _ _ (dsHv_isMin n bl S e _ h.1 h.2 hS he), isMax_unique _ _ (dsHv_isMax n bl S e _ h.1 h.2 hS he)⟩
  · have hnil := dsHv_nil n bl S e (by omega)
    simp only [h, if_false, place_lb, place_ub, hnil, List.map_nil, listMin, listMax]
    exact ⟨trivial, trivial⟩


/-! ############ (was ClosureB.lean) ############ -/
/-
C30 — `Rel1` is preserved by create_hvector / create_vector / create_contiguous.
-/

@[simp] theorem info_plain (i : Info) : (Obj.plain i).info = i := rfl
@[simp] theorem info_contig (i : Info) (n : Int) (o : Obj) : (Obj.contig i n o).info = i := rfl
@[simp] theorem info_hvector (i : Info) (n bl s : Int) (o : Obj) (b : Bool) : (Obj.hvector i n bl s o b).info = i := rfl
@[simp] theorem info_hindexed (i : Info) (bs : List (Int × Int)) (o : Obj) (b : Bool) : (Obj.hindexed i bs o b).info = i := rfl
@[simp] theorem info_struct (i : Info) (bs : Blocks) : (Obj.struct i bs).info = i := rfl

/-! ### create_hvector / create_vector / create_contiguous -/

theorem ite_and_decide (n bl a b : Int) :
    (if (decide (n > 0) && decide (bl > 0)) = true then a else b) = if n > 0 ∧ bl > 0 then a else b := by
  by_cases h1 : n > 0 <;> by_cases h2 : bl > 0 <;> simp [h1, h2]

/-- `Datatype::create_hvector` (0 ≤ count, 0 ≤ stride) -/
theorem mkHvector_rel (n bl S : Int) (o r : Obj) (l : Layout) (h : Rel1 o l) (hn : 0 ≤ n) (hS : 0 ≤ S)
    (hr : mkHvector n bl S o = some r) : Rel1 r (place (dsHv n bl S l.extent) l) := by
  have hb := dsHv_bounds n bl S l.extent l hS h.ext_nonneg
  unfold mkHvector at hr
  split at hr
  · cases hr
  · rename_i hbl
    have hbl : 0 ≤ bl := by omega
    have hsz : (place (dsHv n bl S l.extent) l).size = o.info.size * bl * n := by
      rw [place_size, dsHv_length n bl S _ hn hbl, h.size]; ring
    simp only [h.ext, h.lb, h.ub, ite_and_decide] at hr
    split at hr
    · injection hr with hr; subst hr
      refine ⟨?_, ?_, place_le _ _ h.le, by simp only [info_plain, info_hvector]; rw [hsz], fun hd => by simp at hd⟩
      · simp only [info_hvector, hb.1]
      · simp only [info_hvector, hb.2]
    · rename_i hc
      simp only [Bool.or_eq_true, bne_iff_ne, ne_eq, not_or, Bool.not_eq_true, Decidable.not_not] at hc
      obtain ⟨hd, hst⟩ := hc
      obtain ⟨n1, n2, n3, n4⟩ := h.natural hd
      obtain ⟨m1, m2, _⟩ := h.nat hd
      injection hr with hr; subst hr
      refine ⟨?_, ?_, place_le _ _ h.le, by simp only [info_plain, info_hvector]; rw [hsz], fun hd => by simp at hd⟩
      · simp only [info_plain, hb.1, m1]; split <;> rfl
      · rw [info_plain, hb.2]; simp only [m2, hst, n4]
        by_cases c : n > 0 ∧ bl > 0
        · rw [if_pos c]; ring
        · rw [if_neg c]
          have : n = 0 ∨ bl = 0 := by omega
          rcases this with rfl | rfl <;> ring

theorem dsVec_eq (n bl st e : Int) :
    (Spec.range n).flatMap (fun i => (Spec.range bl).map (fun j => (i * st + j) * e)) = dsHv n bl (st * e) e := by
  simp only [dsHv]
  congr 1; funext i; congr 1; funext j; ring

/-- `Datatype::create_vector` (0 ≤ count, 0 ≤ stride) -/
theorem mkVector_rel (n bl st : Int) (o r : Obj) (l : Layout) (h : Rel1 o l) (hn : 0 ≤ n) (hS : 0 ≤ st)
    (hr : mkVector n bl st o = some r) : Rel1 r (place (dsHv n bl (st * l.extent) l.extent) l) := by
  have he := h.ext_nonneg
  have hb := dsHv_bounds n bl (st * l.extent) l.extent l (Int.mul_nonneg hS he) he
  unfold mkVector at hr
  split at hr
  · cases hr
  · rename_i hbl
    have hbl : 0 ≤ bl := by omega
    have hsz : (place (dsHv n bl (st * l.extent) l.extent) l).size = o.info.size * bl * n := by
      rw [place_size, dsHv_length n bl _ _ hn hbl, h.size]; ring
    simp only [h.ext, h.lb, h.ub, ite_and_decide] at hr
    split at hr
    · injection hr with hr; subst hr
      refine ⟨?_, ?_, place_le _ _ h.le, by simp only [info_plain, info_hvector]; rw [hsz], fun hd => by simp at hd⟩
      · simp only [info_hvector, hb.1]
      · simp only [info_hvector, hb.2]
        by_cases c : n > 0 ∧ bl > 0
        · rw [if_pos c, if_pos c]; ring
        · rw [if_neg c, if_neg c]
    · rename_i hc
      simp only [Bool.or_eq_true, bne_iff_ne, ne_eq, not_or, Bool.not_eq_true, Decidable.not_not] at hc
      obtain ⟨hd, hst⟩ := hc
      obtain ⟨n1, n2, n3, n4⟩ := h.natural hd
      obtain ⟨m1, m2, _⟩ := h.nat hd
      injection hr with hr; subst hr
      refine ⟨?_, ?_, place_le _ _ h.le, by simp only [info_plain, info_hvector]; rw [hsz], fun hd => by simp at hd⟩
      · simp only [info_plain, hb.1, m1]; split <;> rfl
      · rw [info_plain, hb.2]; simp only [m2, hst, n4]
        by_cases c : n > 0 ∧ bl > 0
        · rw [if_pos c]; ring
        · rw [if_neg c]
          have : n = 0 ∨ bl = 0 := by omega
          rcases this with rfl | rfl <;> ring

theorem dsContig_eq (n e : Int) : (Spec.range n).map (· * e) = dsHv n 1 e e := by
  have : Spec.range 1 = [0] := rfl
  simp only [dsHv, this, List.map_cons, List.map_nil]
  induction (Spec.range n) with
  | nil => rfl
  | cons a t ih => simp only [List.map_cons, List.flatMap_cons, ih, List.singleton_append]; congr 1; ring

/-- `Datatype::create_contiguous(count, old, lb)` over a non-derived old type: a run of `count` elements at `lb` -/
theorem mkContiguous_size (count : Int) (old r : Obj) (lb : Int) (hd : old.info.derived = false)
    (h : mkContiguous count old lb = some r) : r.info.size = count * old.info.size ∧ (r.info.derived = false → count ≤ 0) := by
  unfold mkContiguous at h
  simp only [hd, Bool.false_eq_true, if_false] at h
  split at h <;> (injection h with h; subst h; simp) <;> omega

/-- `MPI_Type_contiguous` (0 ≤ count) -/
theorem mkContiguous_rel (n : Int) (o r : Obj) (l : Layout) (h : Rel1 o l) (hn : 0 ≤ n)
    (hr : mkContiguous n o 0 = some r) : Rel1 r (place (dsHv n 1 l.extent l.extent) l) := by
  cases hd : o.info.derived with
  | true =>
    have : mkHvector n 1 o.info.extent o = some r := by simpa [mkContiguous, hd] using hr
    rw [h.ext] at this
    exact mkHvector_rel n 1 _ o r l h hn h.ext_nonneg this
  | false =>
    have hb := dsHv_bounds n 1 l.extent l.extent l h.ext_nonneg h.ext_nonneg
    obtain ⟨g1, g2⟩ := mkContiguous_info n o r 0 hd hr
    obtain ⟨s1, s2⟩ := mkContiguous_size n o r 0 hd hr
    obtain ⟨n1, n2, n3, n4⟩ := h.natural hd
    obtain ⟨m1, m2, _⟩ := h.nat hd
    have hsz : (place (dsHv n 1 l.extent l.extent) l).size = n * o.info.size := by
      rw [place_size, dsHv_length n 1 _ _ hn (by omega), h.size]; ring
    refine ⟨?_, ?_, place_le _ _ h.le, by rw [s1, hsz], ?_⟩
    · rw [g1, hb.1, m1]; split <;> rfl
    · rw [g2, hb.2, m2, n4]
      by_cases c : n > 0 ∧ (1 : Int) > 0
      · rw [if_pos c]; ring
      · rw [if_neg c]
        have : n = 0 := by omega
        subst this; ring
    · intro hnd
      have hn0 : n = 0 := by have := s2 hnd; omega
      have hz : r.info.size = 0 := by rw [s1, hn0]; ring
      have hnil := dsHv_nil n 1 l.extent l.extent (by omega)
      refine ⟨?_, ?_, nat_of_empty _ _ (by rw [s1, hsz]) hz⟩
      · rw [place_lb, hnil]; rfl
      · rw [place_ub, hnil, hz]; rfl


/-! ############ (was ClosureC.lean) ############ -/
/-
C30 — `Rel1` is preserved by create_indexed / create_hindexed / create_struct / create_resized.
-/

/-- displacements of the copies of an indexed (scale = extent) / hindexed (scale = 1) type -/
def dsIdx (bs : List (Int × Int)) (scale e : Int) : List Int := bs.flatMap (fun b => blockCopies (b.2 * scale) b.1 e)

theorem blockCopies_length (d bl e : Int) (h : 0 ≤ bl) : ((blockCopies d bl e).length : Int) = bl := by
  simp only [blockCopies, List.length_map, range_length, h, if_true]

theorem dsIdx_length (scale e : Int) : ∀ (bs : List (Int × Int)), (∀ b ∈ bs, 0 ≤ b.1) →
    ((dsIdx bs scale e).length : Int) = (bs.map (·.1)).sum := by
  intro bs
  induction bs with
  | nil => intro _; rfl
  | cons b rest ih =>
    intro h
    simp only [dsIdx, List.flatMap_cons, List.length_append, List.map_cons, List.sum_cons]
    push_cast
    rw [blockCopies_length _ _ _ (h b (by simp))]
    have := ih (fun x hx => h x (by simp [hx]))
    simp only [dsIdx] at this
    rw [this]

theorem idxLoop_size (scale csize L U e : Int) :
    ∀ (bs : List (Int × Int)) (s : Int) (st : Int × Int × Bool) (c : Bool) r,
      idxLoop scale csize L U e bs s st c = some r → r.1 = s + (bs.map (·.1)).sum := by
  intro bs
  induction bs with
  | nil => intro s st c r hr; simp only [idxLoop, Option.some.injEq] at hr; subst hr; simp
  | cons b0 rest ih =>
    intro s st c r hr
    obtain ⟨bl, idx⟩ := b0
    simp only [idxLoop] at hr
    split at hr
    · cases hr
    · have := ih _ _ _ _ hr
      simp only [List.map_cons, List.sum_cons]
      omega

theorem mkHvector_size (n bl S : Int) (o r : Obj) (hr : mkHvector n bl S o = some r) :
    r.info.size = o.info.size * bl * n ∧ 0 ≤ bl ∧ r.info.derived = true := by
  unfold mkHvector at hr
  split at hr
  · cases hr
  · simp only at hr
    split at hr <;> (injection hr with hr; subst hr; simp; omega)

theorem mkVector_size (n bl S : Int) (o r : Obj) (hr : mkVector n bl S o = some r) :
    r.info.size = o.info.size * bl * n ∧ 0 ≤ bl ∧ r.info.derived = true := by
  unfold mkVector at hr
  split at hr
  · cases hr
  · simp only at hr
    split at hr <;> (injection hr with hr; subst hr; simp; omega)

/-- size of what create_contiguous builds (any old type, 0 ≤ count) -/
theorem mkContiguous_size' (count : Int) (old r : Obj) (lb : Int)
    (h : mkContiguous count old lb = some r) :
    r.info.size = count * old.info.size ∧ (r.info.derived = false → count ≤ 0) := by
  cases hd : old.info.derived with
  | false => exact mkContiguous_size count old r lb hd h
  | true =>
    have : mkHvector count 1 old.info.extent old = some r := by simpa [mkContiguous, hd] using h
    obtain ⟨a, _, c⟩ := mkHvector_size _ _ _ _ _ this
    exact ⟨by rw [a]; ring, fun x => by rw [c] at x; cases x⟩

theorem mkIndexed_size (bs : List (Int × Int)) (old r : Obj) (hr : mkIndexed bs old = some r) :
    r.info.size = (bs.map (·.1)).sum * old.info.size ∧ (∀ b ∈ bs, 0 ≤ b.1) ∧
      (r.info.derived = false → (bs.map (·.1)).sum ≤ 0) := by
  unfold mkIndexed at hr
  simp only at hr
  split at hr
  · cases hr
  · rename_i size lb ub c heq
    have hsz := idxLoop_size _ _ _ _ _ _ _ _ _ _ heq
    have hnn := idxLoop_nonneg _ _ _ _ _ _ _ _ _ _ heq
    simp only [Int.zero_add] at hsz
    have fin1 : ∀ blocks flag, some (Obj.hindexed ⟨size * old.info.size, lb, ub, true⟩ blocks old flag) = some r →
        r.info.size = (bs.map (·.1)).sum * old.info.size ∧ (∀ b ∈ bs, 0 ≤ b.1) ∧
          (r.info.derived = false → (bs.map (·.1)).sum ≤ 0) := by
      intro blocks flag hr
      injection hr with hr; subst hr
      exact ⟨by simp [hsz], hnn, fun h => by simp at h⟩
    have fin2 : mkContiguous size old lb = some r →
        r.info.size = (bs.map (·.1)).sum * old.info.size ∧ (∀ b ∈ bs, 0 ≤ b.1) ∧
          (r.info.derived = false → (bs.map (·.1)).sum ≤ 0) := by
      intro hr
      obtain ⟨a, b⟩ := mkContiguous_size' _ _ _ _ hr
      exact ⟨by rw [a, hsz], hnn, fun h => by rw [← hsz]; exact b h⟩
    split at hr <;> (try split at hr) <;> first | exact fin1 _ _ hr | exact fin2 hr

theorem mkHindexed_size (bs : List (Int × Int)) (old r : Obj) (hr : mkHindexed bs old = some r) :
    r.info.size = (bs.map (·.1)).sum * old.info.size ∧ (∀ b ∈ bs, 0 ≤ b.1) ∧
      (r.info.derived = false → (bs.map (·.1)).sum ≤ 0) := by
  unfold mkHindexed at hr
  simp only at hr
  split at hr
  · cases hr
  · rename_i size lb ub c heq
    have hsz := idxLoop_size _ _ _ _ _ _ _ _ _ _ heq
    have hnn := idxLoop_nonneg _ _ _ _ _ _ _ _ _ _ heq
    simp only [Int.zero_add] at hsz
    have fin1 : ∀ blocks flag, some (Obj.hindexed ⟨size * old.info.size, lb, ub, true⟩ blocks old flag) = some r →
        r.info.size = (bs.map (·.1)).sum * old.info.size ∧ (∀ b ∈ bs, 0 ≤ b.1) ∧
          (r.info.derived = false → (bs.map (·.1)).sum ≤ 0) := by
      intro blocks flag hr
      injection hr with hr; subst hr
      exact ⟨by simp [hsz], hnn, fun h => by simp at h⟩
    have fin2 : mkContiguous size old lb = some r →
        r.info.size = (bs.map (·.1)).sum * old.info.size ∧ (∀ b ∈ bs, 0 ≤ b.1) ∧
          (r.info.derived = false → (bs.map (·.1)).sum ≤ 0) := by
      intro hr
      obtain ⟨a, b⟩ := mkContiguous_size' _ _ _ _ hr
      exact ⟨by rw [a, hsz], hnn, fun h => by rw [← hsz]; exact b h⟩
    split at hr <;> (try split at hr) <;> first | exact fin1 _ _ hr | exact fin2 hr

theorem rel_hnat {o : Obj} {l : Layout} (h : Rel1 o l) :
    o.info.derived = false → o.info.lb = 0 ∧ o.info.ub = o.info.size := fun hd =>
  ⟨(h.natural hd).1, (h.natural hd).2.1⟩

/-- `Datatype::create_indexed` (any block list) -/
theorem mkIndexed_rel (bs : List (Int × Int)) (o r : Obj) (l : Layout) (h : Rel1 o l)
    (hr : mkIndexed bs o = some r) : Rel1 r (place (dsIdx bs l.extent l.extent) l) := by
  have he : 0 ≤ o.info.extent := by rw [h.ext]; exact h.ext_nonneg
  obtain ⟨b1, b2⟩ := mkIndexed_bounds bs o r he (rel_hnat h) hr
  obtain ⟨s1, s2, s3⟩ := mkIndexed_size bs o r hr
  rw [h.ext, h.lb] at b1
  rw [h.ext, h.ub] at b2
  have hsz : (place (dsIdx bs l.extent l.extent) l).size = r.info.size := by
    rw [place_size, dsIdx_length _ _ bs s2, s1, h.size]
  refine ⟨b1, b2, place_le _ _ h.le, hsz.symm, ?_⟩
  intro hd
  have hsum : (bs.map (·.1)).sum = 0 := by have := s3 hd; have := sum_fst_nonneg bs s2; omega
  have hz : r.info.size = 0 := by rw [s1, hsum]; ring
  have hnil : dsIdx bs l.extent l.extent = [] := copies_nil_of_sum_zero _ _ bs s2 (by omega)
  refine ⟨?_, ?_, nat_of_empty _ _ hsz.symm hz⟩
  · rw [place_lb, hnil]; rfl
  · rw [place_ub, hnil, hz]; rfl

/-- `Datatype::create_hindexed` (any block list) -/
theorem mkHindexed_rel (bs : List (Int × Int)) (o r : Obj) (l : Layout) (h : Rel1 o l)
    (hr : mkHindexed bs o = some r) : Rel1 r (place (dsIdx bs 1 l.extent) l) := by
  have he : 0 ≤ o.info.extent := by rw [h.ext]; exact h.ext_nonneg
  obtain ⟨b1, b2⟩ := mkHindexed_bounds bs o r he (rel_hnat h) hr
  obtain ⟨s1, s2, s3⟩ := mkHindexed_size bs o r hr
  rw [h.ext, h.lb] at b1
  rw [h.ext, h.ub] at b2
  have hsz : (place (dsIdx bs 1 l.extent) l).size = r.info.size := by
    rw [place_size, dsIdx_length _ _ bs s2, s1, h.size]
  refine ⟨b1, b2, place_le _ _ h.le, hsz.symm, ?_⟩
  intro hd
  have hsum : (bs.map (·.1)).sum = 0 := by have := s3 hd; have := sum_fst_nonneg bs s2; omega
  have hz : r.info.size = 0 := by rw [s1, hsum]; ring
  have hnil : dsIdx bs 1 l.extent = [] := copies_nil_of_sum_zero _ _ bs s2 (by omega)
  refine ⟨?_, ?_, nat_of_empty _ _ hsz.symm hz⟩
  · rw [place_lb, hnil]; rfl
  · rw [place_ub, hnil, hz]; rfl

/-- `Datatype::create_resized` (0 ≤ extent): only the size of the old type matters -/
theorem mkResized_rel (o : Obj) (bytes : List Int) (lb ext : Int) (hs : o.info.size = (bytes.length : Int))
    (hext : 0 ≤ ext) : Rel1 (mkResized o lb ext) ⟨bytes, lb, lb + ext⟩ := by
  refine ⟨rfl, rfl, by simp only; omega, by simp only [mkResized, info_struct, Layout.size]; exact hs,
    fun hd => by simp [mkResized] at hd⟩


/-! ############ (was ClosureD.lean) ############ -/
/-
C30 — `Rel1` is preserved by create_struct.
-/

/-- MPI's struct layout from the placed members (`Spec.layout (.struct m)`) -/
def structL (parts : List (Layout × Bool)) : Layout :=
  ⟨parts.flatMap (·.1.bytes), listMin ((parts.filter (·.2)).map (·.1.lb)), listMax ((parts.filter (·.2)).map (·.1.ub))⟩

theorem layout_struct (m : Members) : layout (.struct m) = structL (layoutMembers m) := by
  simp only [layout, structL]

/-- what `buildMembers` returns, member by member, satisfies the spec, and a member with copies is not an empty type -/
def MembersRel : Members → List (Int × Int × Obj) → Prop
  | .nil, ms => ms = []
  | .cons bl d t rest, ms => ∃ o ms', ms = (bl, d, o) :: ms' ∧ Rel1 o (layout t) ∧ (bl > 0 → 0 < o.info.size) ∧
      MembersRel rest ms'

theorem membersRel_ok : (m : Members) → (ms : List (Int × Int × Obj)) → MembersRel m ms → MembersOk m ms
  | .nil, ms, h => by simpa [MembersRel, MembersOk] using h
  | .cons bl d t rest, ms, h => by
    simp only [MembersRel] at h
    obtain ⟨o, ms', rfl, hrel, _, hrest⟩ := h
    simp only [MembersOk]
    exact ⟨o, ms', rfl, hrel.lb, hrel.ub, hrel.ext_nonneg, membersRel_ok rest ms' hrest⟩

/-- the object-level facts about the members -/
def MemFacts (ms : List (Int × Int × Obj)) : Prop :=
  ∀ x ∈ ms, (x.2.2.info.derived = false → x.2.2.info.lb = 0 ∧ x.2.2.info.ub = x.2.2.info.size ∧ 0 ≤ x.2.2.info.size) ∧
    0 ≤ x.2.2.info.size ∧ x.2.2.info.lb ≤ x.2.2.info.ub ∧ (x.1 > 0 → 0 < x.2.2.info.size)

theorem membersRel_facts : (m : Members) → (ms : List (Int × Int × Obj)) → MembersRel m ms → MemFacts ms
  | .nil, ms, h => by
    simp only [MembersRel] at h; subst h; intro x hx; simp at hx
  | .cons bl d t rest, ms, h => by
    simp only [MembersRel] at h
    obtain ⟨o, ms', rfl, hrel, hpos, hrest⟩ := h
    intro x hx
    simp only [List.mem_cons] at hx
    rcases hx with rfl | hx
    · refine ⟨fun hd => ⟨(hrel.natural hd).1, (hrel.natural hd).2.1, hrel.size_nonneg⟩, hrel.size_nonneg, ?_, hpos⟩
      simp only; rw [hrel.lb, hrel.ub]; exact hrel.le
    · exact membersRel_facts rest ms' hrest x hx

theorem structLoop_nonneg :
    ∀ (ms : List (Int × Int × Obj)) (s : Int) (st : Int × Int × Bool) (c : Bool) r,
      structLoop ms s st c = some r → ∀ x ∈ ms, 0 ≤ x.1 := by
  intro ms
  induction ms with
  | nil => intro s st c r _ x hx; simp at hx
  | cons m rest ih =>
    intro s st c r hr x hx
    obtain ⟨bl, idx, old⟩ := m
    simp only [structLoop] at hr
    split at hr
    · cases hr
    · simp only [List.mem_cons] at hx
      rcases hx with rfl | hx
      · simp only; omega
      · exact ih _ _ _ _ hr x hx

/-- total size the loop accumulates -/
def membersSize (ms : List (Int × Int × Obj)) : Int := (ms.map (fun m => m.1 * m.2.2.info.size)).sum

theorem mkStruct_size (ms : List (Int × Int × Obj)) (r : Obj) (hr : mkStruct ms = some r) :
    r.info.size = membersSize ms ∧ (∀ x ∈ ms, 0 ≤ x.1) ∧ (r.info.derived = false → membersSize ms ≤ 0) := by
  unfold mkStruct at hr
  split at hr
  · cases hr
  · rename_i size lb ub c heq
    have hsz := structLoop_size _ _ _ _ _ heq
    have hnn := structLoop_nonneg _ _ _ _ _ heq
    simp only [Int.zero_add] at hsz
    split at hr
    · injection hr with hr; subst hr
      exact ⟨by simp [hsz, membersSize], hnn, fun h => by simp at h⟩
    · obtain ⟨a, b⟩ := mkContiguous_size' _ _ _ _ hr
      have h1 : (basicObj 1).info.size = 1 := rfl
      rw [h1, Int.mul_one] at a
      exact ⟨by rw [a, hsz]; rfl, hnn, fun h => by have := b h; simp only [membersSize]; omega⟩

theorem membersSize_nonneg : ∀ (ms : List (Int × Int × Obj)), MemFacts ms → (∀ x ∈ ms, 0 ≤ x.1) → 0 ≤ membersSize ms := by
  intro ms
  induction ms with
  | nil => intro _ _; simp [membersSize]
  | cons x rest ih =>
    intro hf hn
    have h1 := (hf x (by simp)).2.1
    have h2 := hn x (by simp)
    have h3 := ih (fun y hy => hf y (by simp [hy])) (fun y hy => hn y (by simp [hy]))
    have := Int.mul_nonneg h2 h1
    simp only [membersSize, List.map_cons, List.sum_cons] at h3 ⊢
    omega

/-- a struct of total size 0 whose members with copies are not empty has no member with copies -/
theorem active_nil_of_size_zero : ∀ (ms : List (Int × Int × Obj)), MemFacts ms → (∀ x ∈ ms, 0 ≤ x.1) →
    membersSize ms ≤ 0 → activeMembers ms = [] := by
  intro ms
  induction ms with
  | nil => intro _ _ _; rfl
  | cons x rest ih =>
    intro hf hn hs
    have hfr : MemFacts rest := fun y hy => hf y (by simp [hy])
    have hnr : ∀ y ∈ rest, 0 ≤ y.1 := fun y hy => hn y (by simp [hy])
    have h1 := (hf x (by simp)).2.1
    have h2 := hn x (by simp)
    have h3 := membersSize_nonneg rest hfr hnr
    have h4 := Int.mul_nonneg h2 h1
    simp only [membersSize, List.map_cons, List.sum_cons] at h3 hs
    have hx : ¬ x.1 > 0 := by
      intro hpos
      have := (hf x (by simp)).2.2.2 hpos
      have : 0 < x.1 * x.2.2.info.size := Int.mul_pos hpos this
      omega
    have hrest := ih hfr hnr (by simp only [membersSize]; omega)
    simp only [activeMembers, List.filter_cons, hx, decide_false, Bool.false_eq_true, if_false] at hrest ⊢
    exact hrest

theorem active_le : ∀ (A : List (Int × Int × Obj)), (∀ x ∈ A, memberLb x ≤ memberUb x) →
    listMin (A.map memberLb) ≤ listMax (A.map memberUb) := by
  intro A h
  cases A with
  | nil => simp [listMin, listMax]
  | cons a t =>
    have h1 := (listMin_isMin ((a :: t).map memberLb) (by simp)).2 (memberLb a) (by simp)
    have h2 := (listMax_isMax ((a :: t).map memberUb) (by simp)).2 (memberUb a) (by simp)
    have := h a (by simp)
    omega

/-- MPI's size of a struct = what the loop accumulates -/
theorem structL_size : (m : Members) → (ms : List (Int × Int × Obj)) → MembersRel m ms → (∀ x ∈ ms, 0 ≤ x.1) →
    (structL (layoutMembers m)).size = membersSize ms
  | .nil, ms, h, _ => by
    simp only [MembersRel] at h; subst h; simp [structL, layoutMembers, membersSize, Layout.size]
  | .cons bl d t rest, ms, h, hn => by
    simp only [MembersRel] at h
    obtain ⟨o, ms', rfl, hrel, _, hrest⟩ := h
    have ih := structL_size rest ms' hrest (fun y hy => hn y (by simp [hy]))
    have hbl : 0 ≤ bl := hn (bl, d, o) (by simp)
    have hp := place_size ((Spec.range bl).map (fun j => d + j * (layout t).extent)) (layout t)
    simp only [structL, Layout.size, layoutMembers, List.flatMap_cons, List.length_append, membersSize, List.map_cons,
      List.sum_cons] at ih hp ⊢
    push_cast
    rw [ih, hp, List.length_map, range_length, if_pos hbl, hrel.size]
    simp only [Layout.size]

/-- `Datatype::create_struct` (any member list whose members satisfy the spec) -/
theorem mkStruct_rel (m : Members) (ms : List (Int × Int × Obj)) (r : Obj) (hm : MembersRel m ms)
    (hr : mkStruct ms = some r) : Rel1 r (structL (layoutMembers m)) := by
  have hf := membersRel_facts m ms hm
  have hnat : ∀ x ∈ ms, x.2.2.info.derived = false →
      x.2.2.info.lb = 0 ∧ x.2.2.info.ub = x.2.2.info.size ∧ 0 ≤ x.2.2.info.size := fun x hx => (hf x hx).1
  obtain ⟨b1, b2⟩ := mkStruct_bounds ms r hnat hr
  obtain ⟨p1, p2⟩ := spec_members m ms (membersRel_ok m ms hm)
  obtain ⟨s1, s2, s3⟩ := mkStruct_size ms r hr
  have hsz := structL_size m ms hm s2
  have hlb : r.info.lb = (structL (layoutMembers m)).lb := by rw [b1]; simp only [structL, p1]
  have hub : r.info.ub = (structL (layoutMembers m)).ub := by rw [b2]; simp only [structL, p2]
  refine ⟨hlb, hub, ?_, by rw [s1, hsz], ?_⟩
  · rw [← hlb, ← hub, b1, b2]
    apply active_le
    intro x hx
    have hxm : x ∈ ms := (List.mem_filter.mp hx).1
    have hxp : x.1 > 0 := by simpa using (List.mem_filter.mp hx).2
    obtain ⟨_, _, hle, _⟩ := hf x hxm
    have : 0 ≤ (x.1 - 1) * x.2.2.info.extent := Int.mul_nonneg (by omega) (by simp only [Info.extent]; omega)
    simp only [memberLb, memberUb]; omega
  · intro hd
    have hle := s3 hd
    have hact := active_nil_of_size_zero ms hf s2 hle
    have hz : r.info.size = 0 := by have := membersSize_nonneg ms hf s2; omega
    refine ⟨?_, ?_, nat_of_empty _ _ (by rw [s1, hsz]) hz⟩
    · rw [← hlb, b1, hact]; rfl
    · rw [← hub, b2, hact, hz]; rfl


end SgVerif.C30
