import SgVerif.C30.WalkA
/-
C30 — walk = typemap for the objects each constructor builds (class objects and the "contiguous" shortcuts of
create_hvector / create_vector / create_contiguous; create_resized).
-/
set_option linter.unusedSimpArgs false
set_option linter.unusedVariables false
set_option linter.unnecessarySeqFocus false
namespace SgVerif.C30
open Spec

theorem walk_plain (i : Info) (cnt base : Int) : walk (.plain i) cnt base = seg (base + i.lb) (cnt * i.size) := by
  rw [walk, byteRange_eq_seg]
theorem walk_contig (i : Info) (n : Int) (old : Obj) (cnt base : Int) :
    walk (.contig i n old) cnt base = seg (base + i.lb) (old.info.size * cnt * n) := by
  rw [walk, byteRange_eq_seg]
theorem walk_hvector (i : Info) (n bl S : Int) (old : Obj) (f : Bool) (cnt base : Int) :
    walk (.hvector i n bl S old f) cnt base =
      (Spec.range cnt).flatMap (fun j => (Spec.range n).flatMap (fun k => blockB old bl (base + j * i.extent + k * S))) := by
  rw [walk]; rfl
theorem walk_hindexed (i : Info) (blocks : List (Int × Int)) (old : Obj) (f : Bool) (cnt base : Int) :
    walk (.hindexed i blocks old f) cnt base =
      (Spec.range cnt).flatMap (fun j => blocks.flatMap (fun b => blockB old b.1 (base + j * i.extent + b.2))) := by
  rw [walk]; rfl
theorem walk_struct (i : Info) (blocks : Blocks) (cnt base : Int) :
    walk (.struct i blocks) cnt base = (Spec.range cnt).flatMap (fun j => walkBlocks blocks (base + j * i.extent)) := by
  rw [walk]; rfl
theorem walkBlocks_cons (bl d : Int) (old : Obj) (rest : Blocks) (elem : Int) :
    walkBlocks (.cons bl d old rest) elem = blockB old bl (elem + d) ++ walkBlocks rest elem := by
  rw [walkBlocks]; rfl
theorem walkBlocks_nil (elem : Int) : walkBlocks .nil elem = [] := by rw [walkBlocks]

theorem bytesOf_simple (l : Layout) (cnt base : Int) :
    (bytesOf l cnt).map (· + base) = (Spec.range cnt).flatMap (fun k => l.bytes.map (· + (base + k * l.extent))) := by
  rw [bytesOf_def]
  simp only [List.map_flatMap, List.map_map]
  congr 1; funext k
  apply List.map_congr_left
  intro x _
  simp only [Function.comp]; omega

/-- a Datatype / Type_Contiguous object whose MPI layout is a run -/
theorem plain_W (i : Info) (L : Layout) (hrel : Rel1 (.plain i) L) (hrun : IsRun L) : W (.plain i) L := by
  intro cnt base
  rw [walk_plain, run_bytesOf L hrun, ← hrel.lb, ← hrel.size]; rfl

theorem contig_W (i : Info) (n : Int) (old : Obj) (L : Layout) (hrel : Rel1 (.contig i n old) L) (hrun : IsRun L)
    (hs : i.size = n * old.info.size) : W (.contig i n old) L := by
  intro cnt base
  rw [walk_contig, run_bytesOf L hrun, ← hrel.lb, ← hrel.size]
  simp only [info_contig, hs]
  congr 1; ring

/-- what create_contiguous builds from a non-derived old type, when MPI's layout of the result is a run -/
theorem mkContiguous_run_W (count : Int) (old r : Obj) (lb : Int) (L : Layout) (hd : old.info.derived = false)
    (hr : mkContiguous count old lb = some r) (hrel : Rel1 r L) (hrun : IsRun L) : W r L := by
  unfold mkContiguous at hr
  simp only [hd, Bool.false_eq_true, if_false] at hr
  split at hr
  · injection hr with hr; subst hr
    exact contig_W _ _ _ L hrel hrun rfl
  · injection hr with hr; subst hr
    exact plain_W _ L hrel hrun

theorem dsHv_blocks (n bl S e : Int) : dsHv n bl S e = (Spec.range n).flatMap (fun i => blockCopies (i * S) bl e) := rfl

/-- Type_Hvector / Type_Vector object -/
theorem hv_obj_W (i : Info) (n bl S : Int) (o : Obj) (f : Bool) (l : Layout) (h : Rel1 o l) (hw : W o l)
    (hrel : Rel1 (.hvector i n bl S o f) (place (dsHv n bl S l.extent) l)) :
    W (.hvector i n bl S o f) (place (dsHv n bl S l.extent) l) := by
  intro cnt base
  have hb : (place (dsHv n bl S l.extent) l).bytes = (Spec.range n).flatMap (fun k => (bytesOf l bl).map (· + k * S)) := by
    rw [dsHv_blocks, place_blocks_bytes]
  rw [walk_hvector, bytesOf_blocks _ _ _ hb, ← hrel.ext]
  simp only [info_hvector, List.map_map]
  congr 1; funext j; congr 1; funext k
  rw [blockB_eq h hw]
  apply List.map_congr_left
  intro x _
  simp only [Function.comp]; omega

/-- MPI's layout of blocks that touch each other, over a non-derived old type, is one run -/
theorem hv_run (n bl S : Int) (o : Obj) (l : Layout) (h : Rel1 o l) (hd : o.info.derived = false) (hbl : 0 ≤ bl)
    (hS : S = bl * l.extent) (hn : 0 ≤ n) :
    (place (dsHv n bl S l.extent) l).bytes = seg 0 (n * (bl * o.info.size)) := by
  have hr := natural_isRun h hd
  have hs := h.size_nonneg
  have e4 := (h.natural hd).2.2.2
  rw [dsHv_blocks, place_blocks_bytes]
  have : (fun k => (bytesOf l bl).map (· + k * S)) = (fun k => seg (0 + k * (bl * o.info.size)) (bl * o.info.size)) := by
    funext k
    rw [run_bytesOf l hr, (h.nat hd).1, ← h.size, hS, e4]
    congr 1; ring
  rw [this, seg_flat 0 _ (Int.mul_nonneg hbl hs)]

theorem isRun_of (r : Obj) (L : Layout) (hrel : Rel1 r L) (T : Int) (hb : L.bytes = seg r.info.lb T)
    (hT : r.info.size = T) (he : r.info.ub = r.info.lb + T) : IsRun L := by
  refine ⟨by rw [hb, hrel.lb, ← hrel.size, hT], ?_⟩
  rw [← hrel.ext, ← hrel.size]; simp only [Info.extent]; omega

/-- `Datatype::create_hvector` -/
theorem mkHvector_walk (n bl S : Int) (o r : Obj) (l : Layout) (h : Rel1 o l) (hw : W o l) (hn : 0 ≤ n) (hS : 0 ≤ S)
    (hr : mkHvector n bl S o = some r) : W r (place (dsHv n bl S l.extent) l) := by
  have hrel := mkHvector_rel n bl S o r l h hn hS hr
  unfold mkHvector at hr
  split at hr
  · cases hr
  · rename_i hbl
    simp only [h.ext] at hr
    split at hr
    · injection hr with hr; subst hr
      exact hv_obj_W _ n bl S o false l h hw hrel
    · rename_i hc
      simp only [Bool.or_eq_true, bne_iff_ne, ne_eq, not_or, Bool.not_eq_true, Decidable.not_not] at hc
      obtain ⟨hd, hst⟩ := hc
      injection hr with hr; subst hr
      apply plain_W _ _ hrel
      apply isRun_of _ _ hrel (o.info.size * bl * n)
      · rw [hv_run n bl S o l h hd (by omega) hst hn]; simp only [info_plain]; congr 1; ring
      · rfl
      · simp only [info_plain]; omega

/-- `Datatype::create_vector` -/
theorem mkVector_walk (n bl st : Int) (o r : Obj) (l : Layout) (h : Rel1 o l) (hw : W o l) (hn : 0 ≤ n) (hS : 0 ≤ st)
    (hr : mkVector n bl st o = some r) : W r (place (dsHv n bl (st * l.extent) l.extent) l) := by
  have hrel := mkVector_rel n bl st o r l h hn hS hr
  unfold mkVector at hr
  split at hr
  · cases hr
  · rename_i hbl
    simp only [h.ext] at hr
    split at hr
    · injection hr with hr; subst hr
      exact hv_obj_W _ n bl _ o true l h hw hrel
    · rename_i hc
      simp only [Bool.or_eq_true, bne_iff_ne, ne_eq, not_or, Bool.not_eq_true, Decidable.not_not] at hc
      obtain ⟨hd, hst⟩ := hc
      have hrel' := hrel
      injection hr with hr; subst hr
      apply plain_W _ _ hrel
      apply isRun_of _ _ hrel (o.info.size * bl * n)
      · rw [hv_run n bl _ o l h hd (by omega) (by rw [hst]) hn]; simp only [info_plain]; congr 1; ring
      · rfl
      · have := hrel'.size
        have e1 := hrel'.lb
        have e2 := hrel'.ub
        simp only [info_plain] at this e1 e2 ⊢
        rw [hst]; ring

/-- `MPI_Type_contiguous` -/
theorem mkContiguous_walk (n : Int) (o r : Obj) (l : Layout) (h : Rel1 o l) (hw : W o l) (hn : 0 ≤ n)
    (hr : mkContiguous n o 0 = some r) : W r (place (dsHv n 1 l.extent l.extent) l) := by
  have hrel := mkContiguous_rel n o r l h hn hr
  cases hd : o.info.derived with
  | true =>
    have : mkHvector n 1 o.info.extent o = some r := by simpa [mkContiguous, hd] using hr
    rw [h.ext] at this
    exact mkHvector_walk n 1 _ o r l h hw hn h.ext_nonneg this
  | false =>
    apply mkContiguous_run_W n o r 0 _ hd hr hrel
    obtain ⟨g1, g2⟩ := mkContiguous_info n o r 0 hd hr
    obtain ⟨s1, _⟩ := mkContiguous_size n o r 0 hd hr
    apply isRun_of _ _ hrel (n * o.info.size)
    · rw [hv_run n 1 _ o l h hd (by omega) (by ring) hn, g1]; congr 1; ring
    · exact s1
    · rw [g1, g2]

/-- `Datatype::create_resized` -/
theorem mkResized_walk (o : Obj) (l : Layout) (lb ext : Int) (h : Rel1 o l) (hw : W o l) :
    W (mkResized o lb ext) ⟨l.bytes, lb, lb + ext⟩ := by
  intro cnt base
  have hm : ∀ p, blockB markerObj 1 p = [] := by
    intro p; simp [blockB, markerObj, byteRange]
  have r1 : Spec.range 1 = [0] := rfl
  have ho : ∀ p, blockB o 1 p = l.bytes.map (· + p) := by
    intro p
    rw [blockB_eq h hw, bytesOf_def, r1]
    simp only [List.flatMap_cons, List.flatMap_nil, List.append_nil, List.map_map]
    apply List.map_congr_left
    intro x _
    simp only [Function.comp]; omega
  rw [mkResized, walk_struct, bytesOf_simple]
  simp only [walkBlocks_cons, walkBlocks_nil, hm, ho, List.nil_append, List.append_nil, Layout.extent, Info.extent]
  congr 1; funext k
  apply List.map_congr_left
  intro x _
  omega

end SgVerif.C30
