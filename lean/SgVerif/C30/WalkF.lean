import SgVerif.C30.WalkE
/-
C30 — walk = typemap by induction over ALL constructor trees.
-/
set_option linter.unusedSimpArgs false
set_option linter.unusedVariables false
set_option linter.unnecessarySeqFocus false
namespace SgVerif.C30
open Spec

theorem basic_W (s : Nat) : W (basicObj s) (layout (.basic s)) :=
  plain_W _ _ (basic_rel s) (natural_isRun (basic_rel s) rfl)

mutual
theorem walk_tree : (t : Tree) → Wf t → (o : Obj) → build t = some o → W o (layout t)
  | .basic s, _, o, h => by
    simp only [build, Option.some.injEq] at h; subst h; exact basic_W s
  | .contiguous n t, w, o, h => by
    simp only [build] at h
    have w' : Wf t := by simpa [Wf] using w
    split at h
    · cases h
    · obtain ⟨o', h1, h2⟩ := bind_some _ _ _ h
      have := mkContiguous_walk n o' o _ (rel_tree t w' o' h1) (walk_tree t w' o' h1) (by omega) h2
      simp only [layout, dsContig_eq]; exact this
  | .vector n bl st t, w, o, h => by
    simp only [build] at h
    simp only [Wf] at w
    split at h
    · cases h
    · obtain ⟨o', h1, h2⟩ := bind_some _ _ _ h
      have := mkVector_walk n bl st o' o _ (rel_tree t w.2 o' h1) (walk_tree t w.2 o' h1) (by omega) w.1 h2
      simp only [layout, dsVec_eq]; exact this
  | .hvector n bl st t, w, o, h => by
    simp only [build] at h
    simp only [Wf] at w
    split at h
    · cases h
    · obtain ⟨o', h1, h2⟩ := bind_some _ _ _ h
      have := mkHvector_walk n bl st o' o _ (rel_tree t w.2 o' h1) (walk_tree t w.2 o' h1) (by omega) w.1 h2
      simp only [layout]; exact this
  | .indexed bs t, w, o, h => by
    simp only [build] at h
    have w' : Wf t := by simpa [Wf] using w
    obtain ⟨o', h1, h2⟩ := bind_some _ _ _ h
    have := mkIndexed_walk bs o' o _ (rel_tree t w' o' h1) (walk_tree t w' o' h1) h2
    simp only [layout, dsIdx_indexed]; exact this
  | .hindexed bs t, w, o, h => by
    simp only [build] at h
    have w' : Wf t := by simpa [Wf] using w
    obtain ⟨o', h1, h2⟩ := bind_some _ _ _ h
    have := mkHindexed_walk bs o' o _ (rel_tree t w' o' h1) (walk_tree t w' o' h1) h2
    simp only [layout, dsIdx_hindexed]; exact this
  | .indexedBlock bl ds t, w, o, h => by
    simp only [build] at h
    have w' : Wf t := by simpa [Wf] using w
    obtain ⟨o', h1, h2⟩ := bind_some _ _ _ h
    have := mkIndexed_walk _ o' o _ (rel_tree t w' o' h1) (walk_tree t w' o' h1) h2
    rw [layout_indexedBlock]
    simp only [layout, dsIdx_indexed]; exact this
  | .hindexedBlock bl ds t, w, o, h => by
    simp only [build] at h
    have w' : Wf t := by simpa [Wf] using w
    obtain ⟨o', h1, h2⟩ := bind_some _ _ _ h
    have := mkHindexed_walk _ o' o _ (rel_tree t w' o' h1) (walk_tree t w' o' h1) h2
    rw [layout_hindexedBlock]
    simp only [layout, dsIdx_hindexed]; exact this
  | .struct m, w, o, h => by
    simp only [build] at h
    have w' : WfM m := by simpa [Wf] using w
    obtain ⟨ms, h1, h2⟩ := bind_some _ _ _ h
    rw [layout_struct]
    exact mkStruct_walk m ms o (rel_members m w' ms h1) (walk_members m w' ms h1) h2
  | .resized lb ext t, w, o, h => by
    simp only [Wf] at w
    cases hb : build t with
    | none => simp [build, hb] at h
    | some o' =>
      simp only [build, hb, Option.map_some, Option.some.injEq] at h
      subst h
      simp only [layout]
      exact mkResized_walk o' _ lb ext (rel_tree t w.2 o' hb) (walk_tree t w.2 o' hb)
  | .subarray dims c t, w, o, h => by
    simp only [build] at h
    have w' : Wf t := by simpa [Wf] using w
    obtain ⟨o', h1, h2⟩ := bind_some _ _ _ h
    rw [layout_subarray]
    exact mkSubarray_walk dims c o' o _ (rel_tree t w' o' h1) (walk_tree t w' o' h1) h2
  | .dup t, w, o, h => by
    have w' : Wf t := by simpa [Wf] using w
    cases hb : build t with
    | none => simp [build, hb] at h
    | some o' =>
      simp only [build, hb, Option.map_some, Option.some.injEq] at h
      subst h
      rw [cloneObj_fix t o' hb]
      simp only [layout]
      exact walk_tree t w' o' hb
theorem walk_members : (m : Members) → WfM m → (ms : List (Int × Int × Obj)) → buildMembers m = some ms → MembersW m ms
  | .nil, _, ms, h => by
    simp only [buildMembers, Option.some.injEq] at h; subst h; simp [MembersW]
  | .cons bl d t rest, w, ms, h => by
    simp only [WfM] at w
    obtain ⟨_, w2, w3⟩ := w
    simp only [buildMembers] at h
    split at h
    · rename_i o r ho hr
      injection h with h
      simp only [MembersW]
      exact ⟨o, r, h.symm, rel_tree t w2 o ho, walk_tree t w2 o ho, walk_members rest w3 r hr⟩
    · cases h
end

end SgVerif.C30
