import SgVerif.C30.ClosureB
/-
C30 — `Rel1` is preserved by create_indexed / create_hindexed / create_struct / create_resized.
-/
set_option linter.unusedSimpArgs false
set_option linter.unusedVariables false
set_option linter.unnecessarySeqFocus false
namespace SgVerif.C30
open Spec

/-- displacements of the copies of an indexed (scale = extent) / hindexed (scale = 1) type -/
def dsIdx (bs : List (Int × Int)) (scale e : Int) : List Int := bs.flatMap (fun b => blockCopies (b.2 * scale) b.1 e)

theorem blockCopies_length (d bl e : Int) (h : 0 ≤ bl) : ((blockCopies d bl e).length : Int) = bl := by
  simp only [blockCopies, List.length_map, range_length, h, if_true]

theorem dsIdx_length (scale e : Int) : ∀ (bs : List (Int × Int)), (∀ b ∈ bs, 0 ≤ b.1) →
    ((dsIdx bs scale e).length : Int) = (bs.map (·.1)).sum := by
  intro bs
  induction bs with
  | nil => intro _; rfl
  | cons b rest ih =>
    intro h
    simp only [dsIdx, List.flatMap_cons, List.length_append, List.map_cons, List.sum_cons]
    push_cast
    rw [blockCopies_length _ _ _ (h b (by simp))]
    have := ih (fun x hx => h x (by simp [hx]))
    simp only [dsIdx] at this
    rw [this]

theorem idxLoop_size (scale csize L U e : Int) :
    ∀ (bs : List (Int × Int)) (s : Int) (st : Int × Int × Bool) (c : Bool) r,
      idxLoop scale csize L U e bs s st c = some r → r.1 = s + (bs.map (·.1)).sum := by
  intro bs
  induction bs with
  | nil => intro s st c r hr; simp only [idxLoop, Option.some.injEq] at hr; subst hr; simp
  | cons b0 rest ih =>
    intro s st c r hr
    obtain ⟨bl, idx⟩ := b0
    simp only [idxLoop] at hr
    split at hr
    · cases hr
    · have := ih _ _ _ _ hr
      simp only [List.map_cons, List.sum_cons]
      omega

theorem mkHvector_size (n bl S : Int) (o r : Obj) (hr : mkHvector n bl S o = some r) :
    r.info.size = o.info.size * bl * n ∧ 0 ≤ bl ∧ r.info.derived = true := by
  unfold mkHvector at hr
  split at hr
  · cases hr
  · simp only at hr
    split at hr <;> (injection hr with hr; subst hr; simp; omega)

theorem mkVector_size (n bl S : Int) (o r : Obj) (hr : mkVector n bl S o = some r) :
    r.info.size = o.info.size * bl * n ∧ 0 ≤ bl ∧ r.info.derived = true := by
  unfold mkVector at hr
  split at hr
  · cases hr
  · simp only at hr
    split at hr <;> (injection hr with hr; subst hr; simp; omega)

/-- size of what create_contiguous builds (any old type, 0 ≤ count) -/
theorem mkContiguous_size' (count : Int) (old r : Obj) (lb : Int)
    (h : mkContiguous count old lb = some r) :
    r.info.size = count * old.info.size ∧ (r.info.derived = false → count ≤ 0) := by
  cases hd : old.info.derived with
  | false => exact mkContiguous_size count old r lb hd h
  | true =>
    have : mkHvector count 1 old.info.extent old = some r := by simpa [mkContiguous, hd] using h
    obtain ⟨a, _, c⟩ := mkHvector_size _ _ _ _ _ this
    exact ⟨by rw [a]; ring, fun x => by rw [c] at x; cases x⟩

theorem mkIndexed_size (bs : List (Int × Int)) (old r : Obj) (hr : mkIndexed bs old = some r) :
    r.info.size = (bs.map (·.1)).sum * old.info.size ∧ (∀ b ∈ bs, 0 ≤ b.1) ∧
      (r.info.derived = false → (bs.map (·.1)).sum ≤ 0) := by
  unfold mkIndexed at hr
  simp only at hr
  split at hr
  · cases hr
  · rename_i size lb ub c heq
    have hsz := idxLoop_size _ _ _ _ _ _ _ _ _ _ heq
    have hnn := idxLoop_nonneg _ _ _ _ _ _ _ _ _ _ heq
    simp only [Int.zero_add] at hsz
    have fin1 : ∀ blocks flag, some (Obj.hindexed ⟨size * old.info.size, lb, ub, true⟩ blocks old flag) = some r →
        r.info.size = (bs.map (·.1)).sum * old.info.size ∧ (∀ b ∈ bs, 0 ≤ b.1) ∧
          (r.info.derived = false → (bs.map (·.1)).sum ≤ 0) := by
      intro blocks flag hr
      injection hr with hr; subst hr
      exact ⟨by simp [hsz], hnn, fun h => by simp at h⟩
    have fin2 : mkContiguous size old lb = some r →
        r.info.size = (bs.map (·.1)).sum * old.info.size ∧ (∀ b ∈ bs, 0 ≤ b.1) ∧
          (r.info.derived = false → (bs.map (·.1)).sum ≤ 0) := by
      intro hr
      obtain ⟨a, b⟩ := mkContiguous_size' _ _ _ _ hr
      exact ⟨by rw [a, hsz], hnn, fun h => by rw [← hsz]; exact b h⟩
    split at hr <;> (try split at hr) <;> first | exact fin1 _ _ hr | exact fin2 hr

theorem mkHindexed_size (bs : List (Int × Int)) (old r : Obj) (hr : mkHindexed bs old = some r) :
    r.info.size = (bs.map (·.1)).sum * old.info.size ∧ (∀ b ∈ bs, 0 ≤ b.1) ∧
      (r.info.derived = false → (bs.map (·.1)).sum ≤ 0) := by
  unfold mkHindexed at hr
  simp only at hr
  split at hr
  · cases hr
  · rename_i size lb ub c heq
    have hsz := idxLoop_size _ _ _ _ _ _ _ _ _ _ heq
    have hnn := idxLoop_nonneg _ _ _ _ _ _ _ _ _ _ heq
    simp only [Int.zero_add] at hsz
    have fin1 : ∀ blocks flag, some (Obj.hindexed ⟨size * old.info.size, lb, ub, true⟩ blocks old flag) = some r →
        r.info.size = (bs.map (·.1)).sum * old.info.size ∧ (∀ b ∈ bs, 0 ≤ b.1) ∧
          (r.info.derived = false → (bs.map (·.1)).sum ≤ 0) := by
      intro blocks flag hr
      injection hr with hr; subst hr
      exact ⟨by simp [hsz], hnn, fun h => by simp at h⟩
    have fin2 : mkContiguous size old lb = some r →
        r.info.size = (bs.map (·.1)).sum * old.info.size ∧ (∀ b ∈ bs, 0 ≤ b.1) ∧
          (r.info.derived = false → (bs.map (·.1)).sum ≤ 0) := by
      intro hr
      obtain ⟨a, b⟩ := mkContiguous_size' _ _ _ _ hr
      exact ⟨by rw [a, hsz], hnn, fun h => by rw [← hsz]; exact b h⟩
    split at hr <;> (try split at hr) <;> first | exact fin1 _ _ hr | exact fin2 hr

theorem rel_hnat {o : Obj} {l : Layout} (h : Rel1 o l) :
    o.info.derived = false → o.info.lb = 0 ∧ o.info.ub = o.info.size := fun hd =>
  ⟨(h.natural hd).1, (h.natural hd).2.1⟩

/-- `Datatype::create_indexed` (any block list) -/
theorem mkIndexed_rel (bs : List (Int × Int)) (o r : Obj) (l : Layout) (h : Rel1 o l)
    (hr : mkIndexed bs o = some r) : Rel1 r (place (dsIdx bs l.extent l.extent) l) := by
  have he : 0 ≤ o.info.extent := by rw [h.ext]; exact h.ext_nonneg
  obtain ⟨b1, b2⟩ := mkIndexed_bounds bs o r he (rel_hnat h) hr
  obtain ⟨s1, s2, s3⟩ := mkIndexed_size bs o r hr
  rw [h.ext, h.lb] at b1
  rw [h.ext, h.ub] at b2
  have hsz : (place (dsIdx bs l.extent l.extent) l).size = r.info.size := by
    rw [place_size, dsIdx_length _ _ bs s2, s1, h.size]
  refine ⟨b1, b2, place_le _ _ h.le, hsz.symm, ?_⟩
  intro hd
  have hsum : (bs.map (·.1)).sum = 0 := by have := s3 hd; have := sum_fst_nonneg bs s2; omega
  have hz : r.info.size = 0 := by rw [s1, hsum]; ring
  have hnil : dsIdx bs l.extent l.extent = [] := copies_nil_of_sum_zero _ _ bs s2 (by omega)
  refine ⟨?_, ?_, nat_of_empty _ _ hsz.symm hz⟩
  · rw [place_lb, hnil]; rfl
  · rw [place_ub, hnil, hz]; rfl

/-- `Datatype::create_hindexed` (any block list) -/
theorem mkHindexed_rel (bs : List (Int × Int)) (o r : Obj) (l : Layout) (h : Rel1 o l)
    (hr : mkHindexed bs o = some r) : Rel1 r (place (dsIdx bs 1 l.extent) l) := by
  have he : 0 ≤ o.info.extent := by rw [h.ext]; exact h.ext_nonneg
  obtain ⟨b1, b2⟩ := mkHindexed_bounds bs o r he (rel_hnat h) hr
  obtain ⟨s1, s2, s3⟩ := mkHindexed_size bs o r hr
  rw [h.ext, h.lb] at b1
  rw [h.ext, h.ub] at b2
  have hsz : (place (dsIdx bs 1 l.extent) l).size = r.info.size := by
    rw [place_size, dsIdx_length _ _ bs s2, s1, h.size]
  refine ⟨b1, b2, place_le _ _ h.le, hsz.symm, ?_⟩
  intro hd
  have hsum : (bs.map (·.1)).sum = 0 := by have := s3 hd; have := sum_fst_nonneg bs s2; omega
  have hz : r.info.size = 0 := by rw [s1, hsum]; ring
  have hnil : dsIdx bs 1 l.extent = [] := copies_nil_of_sum_zero _ _ bs s2 (by omega)
  refine ⟨?_, ?_, nat_of_empty _ _ hsz.symm hz⟩
  · rw [place_lb, hnil]; rfl
  · rw [place_ub, hnil, hz]; rfl

/-- `Datatype::create_resized` (0 ≤ extent): only the size of the old type matters -/
theorem mkResized_rel (o : Obj) (bytes : List Int) (lb ext : Int) (hs : o.info.size = (bytes.length : Int))
    (hext : 0 ≤ ext) : Rel1 (mkResized o lb ext) ⟨bytes, lb, lb + ext⟩ := by
  refine ⟨rfl, rfl, by simp only; omega, by simp only [mkResized, info_struct, Layout.size]; exact hs,
    fun hd => by simp [mkResized] at hd⟩

end SgVerif.C30
