import SgVerif.C30.Closure
/-
C30 — `Rel1` through create_subarray; the tree predicate `Wf`; the inductions over ALL constructor trees (`rel_tree`, `size_tree`).
-/
set_option linter.unusedSimpArgs false
set_option linter.unusedVariables false
set_option linter.unnecessarySeqFocus false
namespace SgVerif.C30
open Spec

/-! ############ (was ClosureE.lean) ############ -/
/-
C30 — `Rel1` is preserved by create_subarray (ndims ≥ 1, both orders).
-/

def prodF (xs : List Int) : Int := xs.foldl (· * ·) 1

theorem foldl_mul (xs : List Int) : ∀ a : Int, xs.foldl (· * ·) a = a * prodF xs := by
  induction xs with
  | nil => intro a; simp [prodF]
  | cons x t ih => intro a; simp only [prodF, List.foldl_cons]; rw [ih (a * x), ih (1 * x)]; ring

theorem prodF_nil : prodF [] = 1 := rfl
theorem prodF_cons (x : Int) (xs : List Int) : prodF (x :: xs) = x * prodF xs := by
  simp only [prodF, List.foldl_cons]; rw [foldl_mul]; simp [prodF]
theorem prodF_append (xs ys : List Int) : prodF (xs ++ ys) = prodF xs * prodF ys := by
  induction xs with
  | nil => simp [prodF_nil]
  | cons x t ih => simp only [List.cons_append, prodF_cons, ih]; ring
theorem prodF_reverse (xs : List Int) : prodF xs.reverse = prodF xs := by
  induction xs with
  | nil => rfl
  | cons x t ih => simp only [List.reverse_cons, prodF_append, prodF_cons, prodF_nil, ih]; ring
theorem prodF_nonneg (xs : List Int) (h : ∀ x ∈ xs, 0 ≤ x) : 0 ≤ prodF xs := by
  induction xs with
  | nil => simp [prodF_nil]
  | cons x t ih =>
    rw [prodF_cons]
    exact Int.mul_nonneg (h x (by simp)) (ih (fun y hy => h y (by simp [hy])))

theorem subPositions_length : ∀ (ds : List (Int × Int × Int)), (∀ d ∈ ds, 0 ≤ d.2.1) →
    ((subPositions ds).length : Int) = prodF (ds.map (·.2.1)) := by
  intro ds
  induction ds with
  | nil => intro _; simp [subPositions, prodF_nil]
  | cons d rest ih =>
    intro h
    obtain ⟨sz, sub, start⟩ := d
    have hsub : 0 ≤ sub := h (sz, sub, start) (by simp)
    have ihr := ih (fun y hy => h y (by simp [hy]))
    have key : ∀ (xs : List Int) (f : Int → Int → Int),
        (xs.flatMap (fun k => (subPositions rest).map (f k))).length = xs.length * (subPositions rest).length := by
      intro xs f
      induction xs with
      | nil => simp
      | cons a t iha => simp only [List.flatMap_cons, List.length_append, List.length_map, iha, List.length_cons]; ring
    simp only [subPositions, List.map_cons, prodF_cons]
    rw [key]
    push_cast
    rw [ihr, range_length, if_pos hsub]

/-- the body of create_subarray for ndims ≥ 2 (after the argument checks), dimensions in traversal order -/
def subCore (ds : List (Int × Int × Int)) (old : Obj) : Option Obj :=
  match ds with
  | (sz0, sub0, st0) :: (sz1, sub1, st1) :: rest =>
    let extent := old.info.extent
    match mkVector sub1 sub0 sz0 old with
    | none => none
    | some v =>
      match subarrayLoop extent rest v (sz0 * sz1) (st0 + st1 * sz0) with
      | none => none
      | some (tmp, size, lb) =>
        match mkHindexed [(1, lb * extent)] tmp with
        | none => none
        | some h => some (mkResized h 0 (size * extent))
  | _ => none

theorem mkSubarray_ge2 (d1 d2 : Int × Int × Int) (rest : List (Int × Int × Int)) (c : Bool) (old : Obj) :
    mkSubarray (d1 :: d2 :: rest) c old =
      if (d1 :: d2 :: rest).any (fun d => d.1 ≤ 0 || d.2.1 < 0 || d.2.2 < 0) then none else
      if !old.isCommitted then none else
      if (d1 :: d2 :: rest).any (fun d => d.2.1 > d.1 || d.2.2 + d.2.1 > d.1) then none else
      subCore (if c then (d1 :: d2 :: rest).reverse else (d1 :: d2 :: rest)) old := by
  unfold mkSubarray subCore
  rfl

theorem subarrayLoop_size (e : Int) : ∀ (rest : List (Int × Int × Int)) (tmp : Obj) (size lb : Int) res,
    subarrayLoop e rest tmp size lb = some res →
      res.1.info.size = tmp.info.size * prodF (rest.map (·.2.1)) ∧ res.2.1 = size * prodF (rest.map (·.1)) := by
  intro rest
  induction rest with
  | nil =>
    intro tmp size lb res h
    simp only [subarrayLoop, Option.some.injEq] at h
    subst h
    simp [prodF_nil]
  | cons d rest ih =>
    intro tmp size lb res h
    obtain ⟨sz, sub, start⟩ := d
    simp only [subarrayLoop] at h
    split at h
    · cases h
    · rename_i nt hnt
      obtain ⟨a, b⟩ := ih _ _ _ _ h
      obtain ⟨s, _, _⟩ := mkHvector_size _ _ _ _ _ hnt
      simp only [List.map_cons, prodF_cons]
      rw [a, b, s]
      exact ⟨by ring, by ring⟩

theorem subCore_out (ds : List (Int × Int × Int)) (old r : Obj) (hr : subCore ds old = some r) :
    ∃ h, r = mkResized h 0 (prodF (ds.map (·.1)) * old.info.extent) ∧
      h.info.size = old.info.size * prodF (ds.map (·.2.1)) := by
  unfold subCore at hr
  split at hr
  · rename_i sz0 sub0 st0 sz1 sub1 st1 rest
    simp only at hr
    split at hr
    · cases hr
    · rename_i v hv
      split at hr
      · cases hr
      · rename_i tmp size lb hloop
        split at hr
        · cases hr
        · rename_i h hh
          injection hr with hr
          obtain ⟨v1, _, _⟩ := mkVector_size _ _ _ _ _ hv
          obtain ⟨l1, l2⟩ := subarrayLoop_size _ _ _ _ _ _ hloop
          obtain ⟨h1, _, _⟩ := mkHindexed_size _ _ _ hh
          refine ⟨h, ?_, ?_⟩
          · rw [← hr]
            simp only [List.map_cons, prodF_cons] at l2 ⊢
            rw [l2]
            congr 1; ring
          · simp only [List.map_cons, prodF_cons, List.sum_cons, List.map_nil, List.sum_nil] at h1 l1 ⊢
            rw [h1, l1, v1]; ring
  · cases hr

/-- MPI's layout of a subarray from the layout of the old type -/
def subL (dims : List (Int × Int × Int)) (c : Bool) (o : Layout) : Layout :=
  let ds := if c then dims else dims.reverse
  ⟨(place ((subPositions ds).map (· * o.extent)) o).bytes, 0, prodF (dims.map (·.1)) * o.extent⟩

theorem layout_subarray (dims : List (Int × Int × Int)) (c : Bool) (t : Tree) :
    layout (.subarray dims c t) = subL dims c (layout t) := by
  simp only [layout, subL, prodF]

theorem subL_size (dims : List (Int × Int × Int)) (c : Bool) (o : Layout) (h : ∀ d ∈ dims, 0 ≤ d.2.1) :
    (subL dims c o).size = prodF (dims.map (·.2.1)) * o.size := by
  have hp := place_size ((subPositions (if c then dims else dims.reverse)).map (· * o.extent)) o
  simp only [subL, Layout.size, List.length_map] at hp ⊢
  rw [hp]
  cases c with
  | true => simp only [if_true]; rw [subPositions_length dims h]
  | false =>
    simp only [Bool.false_eq_true, if_false]
    rw [subPositions_length dims.reverse (fun d hd => h d (List.mem_reverse.mp hd)), List.map_reverse, prodF_reverse]

theorem checks_of_any (dims : List (Int × Int × Int))
    (h : ¬ (dims.any (fun d => d.1 ≤ 0 || d.2.1 < 0 || d.2.2 < 0) = true)) :
    ∀ d ∈ dims, 0 < d.1 ∧ 0 ≤ d.2.1 ∧ 0 ≤ d.2.2 := by
  intro d hd
  simp only [List.any_eq_true, not_exists, not_and, Bool.or_eq_true, decide_eq_true_eq, not_or] at h
  have := h d hd
  omega

/-- the shape of what create_subarray returns: the last call is create_resized(·, 0, Π sizes · extent) of a type
    with Π subsizes elements; the arguments passed the checks -/
theorem mkSubarray_out (dims : List (Int × Int × Int)) (c : Bool) (o r : Obj) (hr : mkSubarray dims c o = some r) :
    (∀ d ∈ dims, 0 < d.1 ∧ 0 ≤ d.2.1 ∧ 0 ≤ d.2.2) ∧ ∃ hh, r = mkResized hh 0 (prodF (dims.map (·.1)) * o.info.extent) ∧
      hh.info.size = o.info.size * prodF (dims.map (·.2.1)) := by
  match dims, hr with
  | [], hr => simp [mkSubarray] at hr
  | [(sz, sub, start)], hr =>
    simp only [mkSubarray] at hr
    split at hr
    · cases hr
    · rename_i hany
      split at hr
      · cases hr
      · split at hr
        · cases hr
        · rename_i hh hhe
          injection hr with hr
          obtain ⟨h1, _, _⟩ := mkHindexed_size _ _ _ hhe
          refine ⟨checks_of_any _ hany, hh, ?_, ?_⟩
          · rw [← hr]; simp only [List.map_cons, List.map_nil, prodF_cons, prodF_nil]; congr 1; ring
          · simp only [List.map_cons, List.map_nil, prodF_cons, prodF_nil, List.sum_cons, List.sum_nil] at h1 ⊢
            rw [h1]; ring
  | d1 :: d2 :: rest, hr =>
    rw [mkSubarray_ge2] at hr
    split at hr
    · cases hr
    · rename_i hany
      split at hr
      · cases hr
      · split at hr
        · cases hr
        · obtain ⟨hh, e1, e2⟩ := subCore_out _ _ _ hr
          refine ⟨checks_of_any _ hany, hh, ?_, ?_⟩
          · rw [e1]; cases c <;> simp only [if_true, Bool.false_eq_true, if_false, List.map_reverse, prodF_reverse]
          · rw [e2]; cases c <;> simp only [if_true, Bool.false_eq_true, if_false, List.map_reverse, prodF_reverse]

/-- `MPI_Type_create_subarray` (ndims ≥ 1, C or Fortran order) -/
theorem mkSubarray_rel (dims : List (Int × Int × Int)) (c : Bool) (o r : Obj) (l : Layout) (h : Rel1 o l)
    (hr : mkSubarray dims c o = some r) : Rel1 r (subL dims c l) := by
  obtain ⟨hchk, hh, e1, e2⟩ := mkSubarray_out dims c o r hr
  have hsub : ∀ d ∈ dims, 0 ≤ d.2.1 := fun d hd => (hchk d hd).2.1
  have hP : 0 ≤ prodF (dims.map (·.1)) := prodF_nonneg _ (by
    intro x hx
    obtain ⟨d, hd, rfl⟩ := List.mem_map.mp hx
    exact Int.le_of_lt (hchk d hd).1)
  have hsz := subL_size dims c l hsub
  have hlay : subL dims c l = ⟨(subL dims c l).bytes, 0, 0 + prodF (dims.map (·.1)) * l.extent⟩ := by
    simp only [subL, Int.zero_add]
  rw [hlay, e1, h.ext]
  apply mkResized_rel
  · simp only [Layout.size] at hsz
    rw [e2, hsz, h.size]; simp only [Layout.size]; ring
  · exact Int.mul_nonneg hP h.ext_nonneg


/-! ############ (was ClosureF.lean) ############ -/
/-
C30 — the induction over ALL constructor trees: `build t = some o → Rel1 o (Spec.layout t)`.
-/

mutual
/-- the trees of the property: any nest of the constructors, with non-negative strides (vector / hvector), non-negative
    new extents (resized), and no struct member that has copies (block length > 0) of an empty type (MPI does not define
    lb / ub of an empty typemap; see `lb_ub_empty_member_counterexample`).  Block lengths, counts, displacements of
    indexed / hindexed / struct members, subarray arguments are unconstrained (bad ones make `build` fail). -/
def Wf : Tree → Prop
  | .basic _ => True
  | .contiguous _ t => Wf t
  | .vector _ _ st t => 0 ≤ st ∧ Wf t
  | .hvector _ _ st t => 0 ≤ st ∧ Wf t
  | .indexed _ t => Wf t
  | .hindexed _ t => Wf t
  | .indexedBlock _ _ t => Wf t
  | .hindexedBlock _ _ t => Wf t
  | .struct m => WfM m
  | .resized _ ext t => 0 ≤ ext ∧ Wf t
  | .subarray _ _ t => Wf t
  | .dup t => Wf t
def WfM : Members → Prop
  | .nil => True
  | .cons bl _ t rest => (bl > 0 → (Spec.layout t).bytes ≠ []) ∧ Wf t ∧ WfM rest
end

theorem cloneObj_info_eq (o : Obj) : (cloneObj o).info = o.info := by
  unfold cloneObj
  split <;> simp

theorem rel1_of_info_eq (o o' : Obj) (l : Layout) (e : o'.info = o.info) (h : Rel1 o l) : Rel1 o' l := by
  obtain ⟨a, b, c, d, f⟩ := h
  exact ⟨by rw [e]; exact a, by rw [e]; exact b, c, by rw [e]; exact d, by rw [e]; exact f⟩

theorem dsIdx_indexed (bs : List (Int × Int)) (e : Int) :
    bs.flatMap (fun b => (Spec.range b.1).map (fun j => (b.2 + j) * e)) = dsIdx bs e e := by
  simp only [dsIdx, blockCopies]
  congr 1; funext b; congr 1; funext j; ring

theorem dsIdx_hindexed (bs : List (Int × Int)) (e : Int) :
    bs.flatMap (fun b => (Spec.range b.1).map (fun j => b.2 + j * e)) = dsIdx bs 1 e := by
  simp only [dsIdx, blockCopies, Int.mul_one]

theorem layout_indexedBlock (bl : Int) (ds : List Int) (t : Tree) :
    layout (.indexedBlock bl ds t) = layout (.indexed (ds.map (fun d => (bl, d))) t) := by
  simp only [layout, List.flatMap_map]

theorem layout_hindexedBlock (bl : Int) (ds : List Int) (t : Tree) :
    layout (.hindexedBlock bl ds t) = layout (.hindexed (ds.map (fun d => (bl, d))) t) := by
  simp only [layout, List.flatMap_map]

theorem bind_some {α β : Type} (x : Option α) (f : α → Option β) (r : β) (h : x.bind f = some r) :
    ∃ a, x = some a ∧ f a = some r := by
  cases x with
  | none => simp at h
  | some a => exact ⟨a, rfl, by simpa using h⟩

mutual
theorem rel_tree : (t : Tree) → Wf t → (o : Obj) → build t = some o → Rel1 o (layout t)
  | .basic s, _, o, h => by
    simp only [build, Option.some.injEq] at h; subst h; exact basic_rel s
  | .contiguous n t, w, o, h => by
    simp only [build] at h
    split at h
    · cases h
    · obtain ⟨o', h1, h2⟩ := bind_some _ _ _ h
      have ih := rel_tree t (by simpa [Wf] using w) o' h1
      have := mkContiguous_rel n o' o _ ih (by omega) h2
      simp only [layout, dsContig_eq]; exact this
  | .vector n bl st t, w, o, h => by
    simp only [build] at h
    simp only [Wf] at w
    split at h
    · cases h
    · obtain ⟨o', h1, h2⟩ := bind_some _ _ _ h
      have ih := rel_tree t w.2 o' h1
      have := mkVector_rel n bl st o' o _ ih (by omega) w.1 h2
      simp only [layout, dsVec_eq]; exact this
  | .hvector n bl st t, w, o, h => by
    simp only [build] at h
    simp only [Wf] at w
    split at h
    · cases h
    · obtain ⟨o', h1, h2⟩ := bind_some _ _ _ h
      have ih := rel_tree t w.2 o' h1
      have := mkHvector_rel n bl st o' o _ ih (by omega) w.1 h2
      simp only [layout]; exact this
  | .indexed bs t, w, o, h => by
    simp only [build] at h
    obtain ⟨o', h1, h2⟩ := bind_some _ _ _ h
    have ih := rel_tree t (by simpa [Wf] using w) o' h1
    have := mkIndexed_rel bs o' o _ ih h2
    simp only [layout, dsIdx_indexed]; exact this
  | .hindexed bs t, w, o, h => by
    simp only [build] at h
    obtain ⟨o', h1, h2⟩ := bind_some _ _ _ h
    have ih := rel_tree t (by simpa [Wf] using w) o' h1
    have := mkHindexed_rel bs o' o _ ih h2
    simp only [layout, dsIdx_hindexed]; exact this
  | .indexedBlock bl ds t, w, o, h => by
    simp only [build] at h
    obtain ⟨o', h1, h2⟩ := bind_some _ _ _ h
    have ih := rel_tree t (by simpa [Wf] using w) o' h1
    have := mkIndexed_rel _ o' o _ ih h2
    rw [layout_indexedBlock]
    simp only [layout, dsIdx_indexed]; exact this
  | .hindexedBlock bl ds t, w, o, h => by
    simp only [build] at h
    obtain ⟨o', h1, h2⟩ := bind_some _ _ _ h
    have ih := rel_tree t (by simpa [Wf] using w) o' h1
    have := mkHindexed_rel _ o' o _ ih h2
    rw [layout_hindexedBlock]
    simp only [layout, dsIdx_hindexed]; exact this
  | .struct m, w, o, h => by
    simp only [build] at h
    obtain ⟨ms, h1, h2⟩ := bind_some _ _ _ h
    have ih := rel_members m (by simpa [Wf] using w) ms h1
    rw [layout_struct]
    exact mkStruct_rel m ms o ih h2
  | .resized lb ext t, w, o, h => by
    simp only [Wf] at w
    cases hb : build t with
    | none => simp [build, hb] at h
    | some o' =>
      simp only [build, hb, Option.map_some, Option.some.injEq] at h
      subst h
      have ih := rel_tree t w.2 o' hb
      simp only [layout]
      exact mkResized_rel o' _ lb ext ih.size w.1
  | .subarray dims c t, w, o, h => by
    simp only [build] at h
    obtain ⟨o', h1, h2⟩ := bind_some _ _ _ h
    have ih := rel_tree t (by simpa [Wf] using w) o' h1
    rw [layout_subarray]
    exact mkSubarray_rel dims c o' o _ ih h2
  | .dup t, w, o, h => by
    cases hb : build t with
    | none => simp [build, hb] at h
    | some o' =>
      simp only [build, hb, Option.map_some, Option.some.injEq] at h
      subst h
      have ih := rel_tree t (by simpa [Wf] using w) o' hb
      simp only [layout]
      exact rel1_of_info_eq o' _ _ (cloneObj_info_eq o') ih
theorem rel_members : (m : Members) → WfM m → (ms : List (Int × Int × Obj)) → buildMembers m = some ms → MembersRel m ms
  | .nil, _, ms, h => by
    simp only [buildMembers, Option.some.injEq] at h; subst h; simp [MembersRel]
  | .cons bl d t rest, w, ms, h => by
    simp only [WfM] at w
    obtain ⟨w1, w2, w3⟩ := w
    simp only [buildMembers] at h
    split at h
    · rename_i o r ho hr
      injection h with h
      have ih1 := rel_tree t w2 o ho
      have ih2 := rel_members rest w3 r hr
      simp only [MembersRel]
      refine ⟨o, r, h.symm, ih1, ?_, ih2⟩
      intro hbl
      have hne := w1 hbl
      have hs := ih1.size
      simp only [Layout.size] at hs
      have : (layout t).bytes.length ≠ 0 := fun e => hne (List.length_eq_zero_iff.mp e)
      omega
    · cases h
end


/-! ############ (was ClosureG.lean) ############ -/
/-
C30 — `size_eq_spec` by induction over ALL constructor trees (no hypothesis on the arguments).
-/

def MembersSz : Members → List (Int × Int × Obj) → Prop
  | .nil, ms => ms = []
  | .cons bl d t rest, ms => ∃ o ms', ms = (bl, d, o) :: ms' ∧ o.info.size = (layout t).size ∧ MembersSz rest ms'

theorem structL_size' : (m : Members) → (ms : List (Int × Int × Obj)) → MembersSz m ms → (∀ x ∈ ms, 0 ≤ x.1) →
    (structL (layoutMembers m)).size = membersSize ms
  | .nil, ms, h, _ => by
    simp only [MembersSz] at h; subst h; simp [structL, layoutMembers, membersSize, Layout.size]
  | .cons bl d t rest, ms, h, hn => by
    simp only [MembersSz] at h
    obtain ⟨o, ms', rfl, hrel, hrest⟩ := h
    have ih := structL_size' rest ms' hrest (fun y hy => hn y (by simp [hy]))
    have hbl : 0 ≤ bl := hn (bl, d, o) (by simp)
    have hp := place_size ((Spec.range bl).map (fun j => d + j * (layout t).extent)) (layout t)
    simp only [structL, Layout.size, layoutMembers, List.flatMap_cons, List.length_append, membersSize, List.map_cons,
      List.sum_cons] at ih hp ⊢
    push_cast
    rw [ih, hp, List.length_map, range_length, if_pos hbl, hrel]
    simp only [Layout.size]

mutual
theorem size_tree : (t : Tree) → (o : Obj) → build t = some o → o.info.size = (layout t).size
  | .basic s, o, h => by
    simp only [build, Option.some.injEq] at h; subst h; exact (basic_rel s).size
  | .contiguous n t, o, h => by
    simp only [build] at h
    split at h
    · cases h
    · obtain ⟨o', h1, h2⟩ := bind_some _ _ _ h
      have ih := size_tree t o' h1
      obtain ⟨a, _⟩ := mkContiguous_size' _ _ _ _ h2
      simp only [layout, dsContig_eq]
      rw [a, place_size, dsHv_length _ _ _ _ (by omega) (by omega), ih]; ring
  | .vector n bl st t, o, h => by
    simp only [build] at h
    split at h
    · cases h
    · obtain ⟨o', h1, h2⟩ := bind_some _ _ _ h
      have ih := size_tree t o' h1
      obtain ⟨a, b, _⟩ := mkVector_size _ _ _ _ _ h2
      simp only [layout, dsVec_eq]
      rw [a, place_size, dsHv_length _ _ _ _ (by omega) b, ih]; ring
  | .hvector n bl st t, o, h => by
    simp only [build] at h
    split at h
    · cases h
    · obtain ⟨o', h1, h2⟩ := bind_some _ _ _ h
      have ih := size_tree t o' h1
      obtain ⟨a, b, _⟩ := mkHvector_size _ _ _ _ _ h2
      have e : layout (.hvector n bl st t) = place (dsHv n bl st (layout t).extent) (layout t) := by simp only [layout, dsHv]
      rw [e, a, place_size, dsHv_length _ _ _ _ (by omega) b, ih]; ring
  | .indexed bs t, o, h => by
    simp only [build] at h
    obtain ⟨o', h1, h2⟩ := bind_some _ _ _ h
    have ih := size_tree t o' h1
    obtain ⟨a, b, _⟩ := mkIndexed_size _ _ _ h2
    simp only [layout, dsIdx_indexed]
    rw [a, place_size, dsIdx_length _ _ _ b, ih]
  | .hindexed bs t, o, h => by
    simp only [build] at h
    obtain ⟨o', h1, h2⟩ := bind_some _ _ _ h
    have ih := size_tree t o' h1
    obtain ⟨a, b, _⟩ := mkHindexed_size _ _ _ h2
    simp only [layout, dsIdx_hindexed]
    rw [a, place_size, dsIdx_length _ _ _ b, ih]
  | .indexedBlock bl ds t, o, h => by
    simp only [build] at h
    obtain ⟨o', h1, h2⟩ := bind_some _ _ _ h
    have ih := size_tree t o' h1
    obtain ⟨a, b, _⟩ := mkIndexed_size _ _ _ h2
    rw [layout_indexedBlock]
    simp only [layout, dsIdx_indexed]
    rw [a, place_size, dsIdx_length _ _ _ b, ih]
  | .hindexedBlock bl ds t, o, h => by
    simp only [build] at h
    obtain ⟨o', h1, h2⟩ := bind_some _ _ _ h
    have ih := size_tree t o' h1
    obtain ⟨a, b, _⟩ := mkHindexed_size _ _ _ h2
    rw [layout_hindexedBlock]
    simp only [layout, dsIdx_hindexed]
    rw [a, place_size, dsIdx_length _ _ _ b, ih]
  | .struct m, o, h => by
    simp only [build] at h
    obtain ⟨ms, h1, h2⟩ := bind_some _ _ _ h
    have ih := size_members m ms h1
    obtain ⟨a, b, _⟩ := mkStruct_size ms o h2
    rw [layout_struct, a, structL_size' m ms ih b]
  | .resized lb ext t, o, h => by
    cases hb : build t with
    | none => simp [build, hb] at h
    | some o' =>
      simp only [build, hb, Option.map_some, Option.some.injEq] at h
      subst h
      have ih := size_tree t o' hb
      simp only [layout, mkResized, info_struct, Layout.size] at ih ⊢
      exact ih
  | .subarray dims c t, o, h => by
    simp only [build] at h
    obtain ⟨o', h1, h2⟩ := bind_some _ _ _ h
    have ih := size_tree t o' h1
    obtain ⟨hchk, hh, e1, e2⟩ := mkSubarray_out dims c o' o h2
    rw [layout_subarray, subL_size dims c _ (fun d hd => (hchk d hd).2.1), e1]
    simp only [mkResized, info_struct]
    rw [e2, ih]; ring
  | .dup t, o, h => by
    cases hb : build t with
    | none => simp [build, hb] at h
    | some o' =>
      simp only [build, hb, Option.map_some, Option.some.injEq] at h
      subst h
      have ih := size_tree t o' hb
      simp only [layout, cloneObj_info_eq]
      exact ih
theorem size_members : (m : Members) → (ms : List (Int × Int × Obj)) → buildMembers m = some ms → MembersSz m ms
  | .nil, ms, h => by
    simp only [buildMembers, Option.some.injEq] at h; subst h; simp [MembersSz]
  | .cons bl d t rest, ms, h => by
    simp only [buildMembers] at h
    split at h
    · rename_i o r ho hr
      injection h with h
      simp only [MembersSz]
      exact ⟨o, r, h.symm, size_tree t o ho, size_members rest r hr⟩
    · cases h
end


end SgVerif.C30
