import SgVerif.C30.ClosureE
/-
C30 — the induction over ALL constructor trees: `build t = some o → Rel1 o (Spec.layout t)`.
-/
set_option linter.unusedSimpArgs false
set_option linter.unusedVariables false
set_option linter.unnecessarySeqFocus false
namespace SgVerif.C30
open Spec

mutual
/-- the trees of the property: any nest of the constructors, with non-negative strides (vector / hvector), non-negative
    new extents (resized), and no struct member that has copies (block length > 0) of an empty type (MPI does not define
    lb / ub of an empty typemap; see `lb_ub_empty_member_counterexample`).  Block lengths, counts, displacements of
    indexed / hindexed / struct members, subarray arguments are unconstrained (bad ones make `build` fail). -/
def Wf : Tree → Prop
  | .basic _ => True
  | .contiguous _ t => Wf t
  | .vector _ _ st t => 0 ≤ st ∧ Wf t
  | .hvector _ _ st t => 0 ≤ st ∧ Wf t
  | .indexed _ t => Wf t
  | .hindexed _ t => Wf t
  | .indexedBlock _ _ t => Wf t
  | .hindexedBlock _ _ t => Wf t
  | .struct m => WfM m
  | .resized _ ext t => 0 ≤ ext ∧ Wf t
  | .subarray _ _ t => Wf t
  | .dup t => Wf t
def WfM : Members → Prop
  | .nil => True
  | .cons bl _ t rest => (bl > 0 → (Spec.layout t).bytes ≠ []) ∧ Wf t ∧ WfM rest
end

theorem cloneObj_info_eq (o : Obj) : (cloneObj o).info = o.info := by
  unfold cloneObj
  split <;> simp

theorem rel1_of_info_eq (o o' : Obj) (l : Layout) (e : o'.info = o.info) (h : Rel1 o l) : Rel1 o' l := by
  obtain ⟨a, b, c, d, f⟩ := h
  exact ⟨by rw [e]; exact a, by rw [e]; exact b, c, by rw [e]; exact d, by rw [e]; exact f⟩

theorem dsIdx_indexed (bs : List (Int × Int)) (e : Int) :
    bs.flatMap (fun b => (Spec.range b.1).map (fun j => (b.2 + j) * e)) = dsIdx bs e e := by
  simp only [dsIdx, blockCopies]
  congr 1; funext b; congr 1; funext j; ring

theorem dsIdx_hindexed (bs : List (Int × Int)) (e : Int) :
    bs.flatMap (fun b => (Spec.range b.1).map (fun j => b.2 + j * e)) = dsIdx bs 1 e := by
  simp only [dsIdx, blockCopies, Int.mul_one]

theorem layout_indexedBlock (bl : Int) (ds : List Int) (t : Tree) :
    layout (.indexedBlock bl ds t) = layout (.indexed (ds.map (fun d => (bl, d))) t) := by
  simp only [layout, List.flatMap_map]

theorem layout_hindexedBlock (bl : Int) (ds : List Int) (t : Tree) :
    layout (.hindexedBlock bl ds t) = layout (.hindexed (ds.map (fun d => (bl, d))) t) := by
  simp only [layout, List.flatMap_map]

theorem bind_some {α β : Type} (x : Option α) (f : α → Option β) (r : β) (h : x.bind f = some r) :
    ∃ a, x = some a ∧ f a = some r := by
  cases x with
  | none => simp at h
  | some a => exact ⟨a, rfl, by simpa using h⟩

mutual
theorem rel_tree : (t : Tree) → Wf t → (o : Obj) → build t = some o → Rel1 o (layout t)
  | .basic s, _, o, h => by
    simp only [build, Option.some.injEq] at h; subst h; exact basic_rel s
  | .contiguous n t, w, o, h => by
    simp only [build] at h
    split at h
    · cases h
    · obtain ⟨o', h1, h2⟩ := bind_some _ _ _ h
      have ih := rel_tree t (by simpa [Wf] using w) o' h1
      have := mkContiguous_rel n o' o _ ih (by omega) h2
      simp only [layout, dsContig_eq]; exact this
  | .vector n bl st t, w, o, h => by
    simp only [build] at h
    simp only [Wf] at w
    split at h
    · cases h
    · obtain ⟨o', h1, h2⟩ := bind_some _ _ _ h
      have ih := rel_tree t w.2 o' h1
      have := mkVector_rel n bl st o' o _ ih (by omega) w.1 h2
      simp only [layout, dsVec_eq]; exact this
  | .hvector n bl st t, w, o, h => by
    simp only [build] at h
    simp only [Wf] at w
    split at h
    · cases h
    · obtain ⟨o', h1, h2⟩ := bind_some _ _ _ h
      have ih := rel_tree t w.2 o' h1
      have := mkHvector_rel n bl st o' o _ ih (by omega) w.1 h2
      simp only [layout]; exact this
  | .indexed bs t, w, o, h => by
    simp only [build] at h
    obtain ⟨o', h1, h2⟩ := bind_some _ _ _ h
    have ih := rel_tree t (by simpa [Wf] using w) o' h1
    have := mkIndexed_rel bs o' o _ ih h2
    simp only [layout, dsIdx_indexed]; exact this
  | .hindexed bs t, w, o, h => by
    simp only [build] at h
    obtain ⟨o', h1, h2⟩ := bind_some _ _ _ h
    have ih := rel_tree t (by simpa [Wf] using w) o' h1
    have := mkHindexed_rel bs o' o _ ih h2
    simp only [layout, dsIdx_hindexed]; exact this
  | .indexedBlock bl ds t, w, o, h => by
    simp only [build] at h
    obtain ⟨o', h1, h2⟩ := bind_some _ _ _ h
    have ih := rel_tree t (by simpa [Wf] using w) o' h1
    have := mkIndexed_rel _ o' o _ ih h2
    rw [layout_indexedBlock]
    simp only [layout, dsIdx_indexed]; exact this
  | .hindexedBlock bl ds t, w, o, h => by
    simp only [build] at h
    obtain ⟨o', h1, h2⟩ := bind_some _ _ _ h
    have ih := rel_tree t (by simpa [Wf] using w) o' h1
    have := mkHindexed_rel _ o' o _ ih h2
    rw [layout_hindexedBlock]
    simp only [layout, dsIdx_hindexed]; exact this
  | .struct m, w, o, h => by
    simp only [build] at h
    obtain ⟨ms, h1, h2⟩ := bind_some _ _ _ h
    have ih := rel_members m (by simpa [Wf] using w) ms h1
    rw [layout_struct]
    exact mkStruct_rel m ms o ih h2
  | .resized lb ext t, w, o, h => by
    simp only [Wf] at w
    cases hb : build t with
    | none => simp [build, hb] at h
    | some o' =>
      simp only [build, hb, Option.map_some, Option.some.injEq] at h
      subst h
      have ih := rel_tree t w.2 o' hb
      simp only [layout]
      exact mkResized_rel o' _ lb ext ih.size w.1
  | .subarray dims c t, w, o, h => by
    simp only [build] at h
    obtain ⟨o', h1, h2⟩ := bind_some _ _ _ h
    have ih := rel_tree t (by simpa [Wf] using w) o' h1
    rw [layout_subarray]
    exact mkSubarray_rel dims c o' o _ ih h2
  | .dup t, w, o, h => by
    cases hb : build t with
    | none => simp [build, hb] at h
    | some o' =>
      simp only [build, hb, Option.map_some, Option.some.injEq] at h
      subst h
      have ih := rel_tree t (by simpa [Wf] using w) o' hb
      simp only [layout]
      exact rel1_of_info_eq o' _ _ (cloneObj_info_eq o') ih
theorem rel_members : (m : Members) → WfM m → (ms : List (Int × Int × Obj)) → buildMembers m = some ms → MembersRel m ms
  | .nil, _, ms, h => by
    simp only [buildMembers, Option.some.injEq] at h; subst h; simp [MembersRel]
  | .cons bl d t rest, w, ms, h => by
    simp only [WfM] at w
    obtain ⟨w1, w2, w3⟩ := w
    simp only [buildMembers] at h
    split at h
    · rename_i o r ho hr
      injection h with h
      have ih1 := rel_tree t w2 o ho
      have ih2 := rel_members rest w3 r hr
      simp only [MembersRel]
      refine ⟨o, r, h.symm, ih1, ?_, ih2⟩
      intro hbl
      have hne := w1 hbl
      have hs := ih1.size
      simp only [Layout.size] at hs
      have : (layout t).bytes.length ≠ 0 := fun e => hne (List.length_eq_zero_iff.mp e)
      omega
    · cases h
end

end SgVerif.C30
