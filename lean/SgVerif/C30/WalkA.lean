import SgVerif.C30.ClosureG
/-
C30 — the (un)serialize walk versus the MPI typemap: segments of consecutive bytes, `Spec.bytesOf` of placements.
-/
set_option linter.unusedSimpArgs false
set_option linter.unusedVariables false
set_option linter.unnecessarySeqFocus false
namespace SgVerif.C30
open Spec

/-- `len` consecutive byte offsets starting at `p` -/
def seg (p len : Int) : List Int := (Spec.range len).map (· + p)

theorem byteRange_eq_seg (p len : Int) : byteRange p len = seg p len := by
  simp only [byteRange, seg, Spec.range, List.map_map]
  congr 1; funext k; simp only [Function.comp]; omega

theorem upto_eq_range (n : Int) : upto n = Spec.range n := rfl

theorem seg_nil (p len : Int) (h : len ≤ 0) : seg p len = [] := by simp [seg, range_nil len h]

theorem seg_map_add (p len d : Int) : (seg p len).map (· + d) = seg (p + d) len := by
  simp only [seg, List.map_map]; congr 1; funext x; simp only [Function.comp]; omega

theorem range_add (a b : Int) (ha : 0 ≤ a) (hb : 0 ≤ b) :
    Spec.range (a + b) = Spec.range a ++ (Spec.range b).map (· + a) := by
  have h : (a + b).toNat = a.toNat + b.toNat := by omega
  simp only [Spec.range, h, List.range_add, List.map_append, List.map_map]
  congr 1
  apply List.map_congr_left
  intro k _
  simp only [Function.comp]; omega

theorem seg_append (p a b : Int) (ha : 0 ≤ a) (hb : 0 ≤ b) : seg p a ++ seg (p + a) b = seg p (a + b) := by
  simp only [seg, range_add a b ha hb, List.map_append, List.map_map]
  congr 1
  apply List.map_congr_left
  intro k _
  simp only [Function.comp]; omega

/-- `n` segments of length `b` placed one after the other form one segment -/
theorem seg_flat (p b : Int) (hb : 0 ≤ b) : ∀ n : Int, (Spec.range n).flatMap (fun i => seg (p + i * b) b) = seg p (n * b) := by
  have nat : ∀ k : Nat, (Spec.range (k : Int)).flatMap (fun i => seg (p + i * b) b) = seg p ((k : Int) * b) := by
    intro k
    induction k with
    | zero => simp [Spec.range, seg]
    | succ k ih =>
      have e : ((k + 1 : Nat) : Int) = (k : Int) + 1 := by omega
      have r1 : Spec.range 1 = [0] := rfl
      rw [e, range_add k 1 (by omega) (by omega), List.flatMap_append, ih, r1]
      simp only [List.map_cons, List.map_nil, List.flatMap_cons, List.flatMap_nil, List.append_nil, Int.zero_add]
      have hk : 0 ≤ (k : Int) * b := Int.mul_nonneg (by omega) hb
      rw [seg_append p _ b hk hb]
      congr 1; ring
  intro n
  by_cases hn : 0 ≤ n
  · have := nat n.toNat
    rwa [Int.toNat_of_nonneg hn] at this
  · have : n * b ≤ 0 := Int.mul_nonpos_of_nonpos_of_nonneg (by omega) hb
    rw [range_nil n (by omega), seg_nil _ _ this]; rfl

/-! ### `Spec.bytesOf` -/

theorem bytesOf_def (l : Layout) (cnt : Int) :
    bytesOf l cnt = (Spec.range cnt).flatMap (fun k => l.bytes.map (· + k * l.extent)) := rfl

/-- a layout whose typemap is one run of `size` bytes starting at its lb, with extent = size -/
def IsRun (l : Layout) : Prop := l.bytes = seg l.lb l.size ∧ l.extent = l.size

theorem run_bytesOf (l : Layout) (h : IsRun l) (cnt base : Int) :
    (bytesOf l cnt).map (· + base) = seg (base + l.lb) (cnt * l.size) := by
  obtain ⟨h1, h2⟩ := h
  have hs : 0 ≤ l.size := by simp only [Layout.size]; omega
  rw [bytesOf_def, h1, h2]
  have : (fun k => (seg l.lb l.size).map (· + k * l.size)) = (fun k => seg (l.lb + k * l.size) l.size) := by
    funext k; rw [seg_map_add]
  rw [this, seg_flat l.lb l.size hs cnt, seg_map_add]
  congr 1; ring

/-- a non-derived object that satisfies the spec is a run at 0 -/
theorem natural_isRun {o : Obj} {l : Layout} (h : Rel1 o l) (hd : o.info.derived = false) : IsRun l := by
  obtain ⟨a, b, c⟩ := h.nat hd
  refine ⟨?_, ?_⟩
  · rw [c, a, ← h.size]; simp [seg]
  · rw [← h.size]; exact (h.natural hd).2.2.2

/-- the walk clause: (un)serialize of `count` elements at `base` visits exactly the typemap's offsets, in typemap order -/
def W (o : Obj) (l : Layout) : Prop := ∀ count base, walk o count base = (bytesOf l count).map (· + base)

/-- one block of a Type_Hvector / Type_Hindexed / Type_Struct: memcpy for a non-derived old type, recursive serialize otherwise -/
def blockB (old : Obj) (bl p : Int) : List Int :=
  if !old.info.derived then byteRange p (bl * old.info.size) else walk old bl p

theorem blockB_eq {o : Obj} {l : Layout} (h : Rel1 o l) (hw : W o l) (bl p : Int) :
    blockB o bl p = (bytesOf l bl).map (· + p) := by
  unfold blockB
  cases hd : o.info.derived with
  | true => simp only [Bool.not_true, Bool.false_eq_true, if_false]; exact hw bl p
  | false =>
    simp only [Bool.not_false, if_true]
    have hr := natural_isRun h hd
    rw [run_bytesOf l hr, byteRange_eq_seg, (h.nat hd).1, ← h.size]
    congr 1; ring

/-- MPI: `bl` copies at `D + j * extent` are the typemap of `bl` consecutive elements, shifted by `D` -/
theorem blockCopies_bytes (l : Layout) (D bl : Int) :
    (blockCopies D bl l.extent).flatMap (fun d => l.bytes.map (· + d)) = (bytesOf l bl).map (· + D) := by
  simp only [blockCopies, bytesOf_def, List.flatMap_map, List.map_flatMap, List.map_map]
  congr 1; funext j; congr 1; funext x; simp only [Function.comp]; omega

/-- typemap of a type made of blocks: `X.flatMap (fun a => blockCopies (D a) (B a) e)` placements of `l` -/
theorem place_blocks_bytes {α : Type} (X : List α) (D B : α → Int) (l : Layout) :
    (place (X.flatMap (fun a => blockCopies (D a) (B a) l.extent)) l).bytes =
      X.flatMap (fun a => (bytesOf l (B a)).map (· + D a)) := by
  simp only [place, List.flatMap_assoc, blockCopies_bytes]

/-- `bytesOf` of a layout whose typemap is a list of blocks -/
theorem bytesOf_blocks {α : Type} (X : List α) (F : α → List Int) (l : Layout) (hb : l.bytes = X.flatMap F) (cnt base : Int) :
    (bytesOf l cnt).map (· + base) =
      (Spec.range cnt).flatMap (fun j => X.flatMap (fun a => (F a).map (· + (base + j * l.extent)))) := by
  rw [bytesOf_def, hb]
  simp only [List.map_flatMap, List.map_map]
  congr 1; funext j; congr 1; funext a
  apply List.map_congr_left
  intro x _
  simp only [Function.comp]; omega

end SgVerif.C30
