import SgVerif.C30.Walk
/-
C30 — walk = typemap for struct, subarray (any ndims), dup; the induction over ALL constructor trees (`walk_tree`).
-/
set_option linter.unusedSimpArgs false
set_option linter.unusedVariables false
set_option linter.unnecessarySeqFocus false
namespace SgVerif.C30
open Spec

/-! ############ (was WalkD.lean) ############ -/
/-
C30 — walk = typemap for create_struct (Type_Struct object and the MPI_CHAR contiguous shortcut), one-dimensional
create_subarray, MPI_Type_dup.
-/

/-- member by member: the object satisfies the spec and its walk is the typemap -/
def MembersW : Members → List (Int × Int × Obj) → Prop
  | .nil, ms => ms = []
  | .cons bl d t rest, ms => ∃ o ms', ms = (bl, d, o) :: ms' ∧ Rel1 o (layout t) ∧ W o (layout t) ∧ MembersW rest ms'

theorem ofList_cons (bl d : Int) (o : Obj) (ms : List (Int × Int × Obj)) :
    Blocks.ofList ((bl, d, o) :: ms) = .cons bl d o (Blocks.ofList ms) := rfl

theorem member_bytes (l : Layout) (bl d : Int) :
    (place ((Spec.range bl).map (fun j => d + j * l.extent)) l).bytes = (bytesOf l bl).map (· + d) := by
  have := blockCopies_bytes l d bl
  simp only [blockCopies] at this
  simp only [place]; exact this

theorem struct_blocks : (m : Members) → (ms : List (Int × Int × Obj)) → MembersW m ms → ∀ elem : Int,
    walkBlocks (Blocks.ofList ms) elem = ((layoutMembers m).flatMap (·.1.bytes)).map (· + elem)
  | .nil, ms, h, elem => by
    simp only [MembersW] at h; subst h
    simp [Blocks.ofList, walkBlocks_nil, layoutMembers]
  | .cons bl d t rest, ms, h, elem => by
    simp only [MembersW] at h
    obtain ⟨o, ms', rfl, hrel, hw, hrest⟩ := h
    have ih := struct_blocks rest ms' hrest elem
    rw [ofList_cons, walkBlocks_cons, ih, blockB_eq hrel hw]
    simp only [layoutMembers, List.flatMap_cons, List.map_append, member_bytes, List.map_map]
    congr 1
    apply List.map_congr_left
    intro x _
    simp only [Function.comp]; omega

theorem struct_obj_W (i : Info) (m : Members) (ms : List (Int × Int × Obj)) (hw : MembersW m ms)
    (hrel : Rel1 (.struct i (Blocks.ofList ms)) (structL (layoutMembers m))) :
    W (.struct i (Blocks.ofList ms)) (structL (layoutMembers m)) := by
  intro cnt base
  rw [walk_struct, bytesOf_simple, ← hrel.ext]
  simp only [info_struct]
  congr 1; funext j
  rw [struct_blocks m ms hw]
  rfl

/-- when `contiguous` survives the loop of create_struct, no member is derived -/
theorem structLoop_nd :
    ∀ (ms : List (Int × Int × Obj)) (s : Int) (st : Int × Int × Bool) (c : Bool) r,
      structLoop ms s st c = some r → r.2.2.2 = true → ∀ x ∈ ms, x.2.2.info.derived = false := by
  intro ms
  induction ms with
  | nil => intro s st c r _ _ x hx; simp at hx
  | cons m rest ih =>
    intro s st c r hr hc x hx
    obtain ⟨bl, idx, old⟩ := m
    simp only [structLoop] at hr
    split at hr
    · cases hr
    · have hflag := structLoop_flag _ _ _ _ _ hr hc
      simp only [Bool.and_eq_true, Bool.not_eq_true'] at hflag
      simp only [List.mem_cons] at hx
      rcases hx with rfl | hx
      · exact hflag.1.2
      · exact ih _ _ _ _ hr hc x hx

/-- MPI's typemap of a struct of non-derived members, as segments -/
theorem struct_segs : (m : Members) → (ms : List (Int × Int × Obj)) → MembersRel m ms →
    (∀ x ∈ ms, x.2.2.info.derived = false) →
    (layoutMembers m).flatMap (·.1.bytes) = ms.flatMap (fun x => seg x.2.1 (x.1 * x.2.2.info.size))
  | .nil, ms, h, _ => by
    simp only [MembersRel] at h; subst h; simp [layoutMembers]
  | .cons bl d t rest, ms, h, hnd => by
    simp only [MembersRel] at h
    obtain ⟨o, ms', rfl, hrel, _, hrest⟩ := h
    have ih := struct_segs rest ms' hrest (fun x hx => hnd x (by simp [hx]))
    have hd := hnd (bl, d, o) (by simp)
    simp only [layoutMembers, List.flatMap_cons, member_bytes, ih]
    rw [block_seg hrel hd]

/-- create_struct over members with the natural bounds: when the loop ends with `contiguous` still set, the bytes of
    the members form one run from lb -/
theorem structLoop_run :
    ∀ (ms : List (Int × Int × Obj)) (s : Int) (st : Int × Int × Bool) (c : Bool) (acc : List Int), 0 ≤ s →
      (∀ m ∈ ms, m.2.2.info.derived = false →
        m.2.2.info.lb = 0 ∧ m.2.2.info.ub = m.2.2.info.size ∧ 0 ≤ m.2.2.info.size) →
      ((st = (0, 0, true) ∧ s = 0) ∨
       (st.2.2 = false ∧ st.2.1 = st.1 + s ∧ ∀ b ∈ ms.head?, b.2.1 = st.2.1)) →
      acc = seg st.1 s →
      ∀ r, structLoop ms s st c = some r → r.2.2.2 = true →
        acc ++ ms.flatMap (fun x => seg x.2.1 (x.1 * x.2.2.info.size)) = seg r.2.1 r.1 := by
  intro ms
  induction ms with
  | nil =>
    intro s st c acc _ _ hst hacc r hr _
    simp only [structLoop, Option.some.injEq] at hr
    subst hr
    simpa using hacc
  | cons m rest ih =>
    intro s st c acc hs hnat hst hacc r hr hfin
    obtain ⟨bl, idx, old⟩ := m
    simp only [structLoop] at hr
    split at hr
    · cases hr
    · rename_i hbl
      have hflag := structLoop_flag _ _ _ _ _ hr hfin
      simp only [Bool.and_eq_true, Bool.not_eq_true'] at hflag
      obtain ⟨⟨_, hd⟩, hchain⟩ := hflag
      obtain ⟨hL, hU, hsz⟩ := hnat (bl, idx, old) (by simp) hd
      have hE : old.info.extent = old.info.size := by simp only [Info.extent, hL, hU]; omega
      rw [hL, hU, hE] at hr
      have hbs : 0 ≤ bl * old.info.size := Int.mul_nonneg (by omega) hsz
      have h1 : (bl - 1) * old.info.size = bl * old.info.size - old.info.size := by rw [Int.sub_mul, Int.one_mul]
      have h3 : old.info.size * bl = bl * old.info.size := Int.mul_comm _ _
      have hnext : ∀ b ∈ rest.head?, b.2.1 = idx + bl * old.info.size := by
        intro b hb
        cases rest with
        | nil => simp at hb
        | cons b' r' =>
          simp only [List.head?_cons, Option.mem_def, Option.some.injEq] at hb
          subst hb
          simp only [List.head?_cons, Option.map_some, chainOk, beq_iff_eq] at hchain
          rw [← hchain, h3]
      simp only [List.flatMap_cons, ← List.append_assoc]
      refine ih (s + bl * old.info.size) _ _ _ (by omega) (fun m hm => hnat m (by simp [hm])) ?_ ?_ r hr hfin
      · by_cases hpos : bl > 0
        · right
          unfold blockBounds
          simp only [hpos, if_true]
          rcases hst with ⟨rfl, rfl⟩ | ⟨hf, hub, hhead⟩
          · simp only [Bool.true_or, if_true]
            refine ⟨trivial, by omega, ?_⟩
            intro b hb
            rw [hnext b hb]; omega
          · have hidx : idx = st.2.1 := hhead (bl, idx, old) (by simp)
            simp only [hf, Bool.false_or, decide_eq_true_eq]
            have hnl : ¬ (idx + 0 < st.1) := by omega
            simp only [hnl, if_false]
            refine ⟨trivial, ?_, ?_⟩
            · split <;> omega
            · intro b hb
              rw [hnext b hb]
              split <;> omega
        · have hz : bl = 0 := by omega
          subst hz
          unfold blockBounds
          simp only [Int.lt_irrefl, gt_iff_lt, if_false]
          rcases hst with ⟨rfl, rfl⟩ | ⟨hf, hub, hhead⟩
          · left; exact ⟨rfl, by omega⟩
          · right
            have hidx : idx = st.2.1 := hhead (0, idx, old) (by simp)
            refine ⟨hf, by omega, ?_⟩
            intro b hb
            rw [hnext b hb]; omega
      · by_cases hpos : bl > 0
        · unfold blockBounds
          simp only [hpos, if_true]
          rcases hst with ⟨rfl, rfl⟩ | ⟨hf, hub, hhead⟩
          · simp only [Bool.true_or, if_true] at hacc ⊢
            rw [hacc, seg_nil _ _ (by omega), List.nil_append]
            congr 1 <;> ring
          · have hidx : idx = st.2.1 := hhead (bl, idx, old) (by simp)
            simp only [hf, Bool.false_or, decide_eq_true_eq]
            have hnl : ¬ (idx + 0 < st.1) := by omega
            simp only [hnl, if_false]
            rw [hacc, ← seg_append st.1 s (bl * old.info.size) hs hbs, hidx, hub]
        · have hz : bl = 0 := by omega
          subst hz
          unfold blockBounds
          simp only [Int.lt_irrefl, gt_iff_lt, if_false]
          rw [hacc, seg_nil _ (0 * old.info.size) (by omega), List.append_nil]
          congr 1; ring

/-- `Datatype::create_struct` -/
theorem mkStruct_walk (m : Members) (ms : List (Int × Int × Obj)) (r : Obj) (hm : MembersRel m ms) (hw : MembersW m ms)
    (hr : mkStruct ms = some r) : W r (structL (layoutMembers m)) := by
  have hrel := mkStruct_rel m ms r hm hr
  have hf := membersRel_facts m ms hm
  unfold mkStruct at hr
  split at hr
  · cases hr
  · rename_i size lb ub c heq
    cases hc : c with
    | false =>
      simp only [hc, Bool.not_false, if_true] at hr
      injection hr with hr; subst hr
      exact struct_obj_W _ m ms hw hrel
    | true =>
      simp only [hc, Bool.not_true, Bool.false_eq_true, if_false] at hr
      have hb : (basicObj 1).info.derived = false := rfl
      apply mkContiguous_run_W size (basicObj 1) r lb _ hb hr hrel
      obtain ⟨g1, g2⟩ := mkContiguous_info size (basicObj 1) r lb hb hr
      obtain ⟨s1, _⟩ := mkContiguous_size size (basicObj 1) r lb hb hr
      have h1 : (basicObj 1).info.size = 1 := rfl
      rw [h1, Int.mul_one] at s1 g2
      apply isRun_of _ _ hrel size _ s1 (by rw [g1, g2])
      rw [hc] at heq
      have hnd := structLoop_nd _ _ _ _ _ heq rfl
      have : (structL (layoutMembers m)).bytes = (layoutMembers m).flatMap (·.1.bytes) := rfl
      rw [this, struct_segs m ms hm hnd, g1]
      have := structLoop_run ms 0 (0, 0, true) true [] (by omega) (fun x hx => (hf x hx).1) (Or.inl ⟨rfl, rfl⟩)
        (by simp [seg_nil]) _ heq rfl
      simpa using this

/-! ### one-dimensional subarray -/

theorem flatMap_single {α β : Type} (f : α → β) : ∀ (l : List α), l.flatMap (fun x => [f x]) = l.map f := by
  intro l; induction l with
  | nil => rfl
  | cons a t ih => simp [List.flatMap_cons, ih]

theorem sub1_ds (sz sub start e : Int) :
    (subPositions [(sz, sub, start)]).map (· * e) = dsIdx [(sub, start * e)] 1 e := by
  simp only [subPositions, List.map_nil, List.foldl_nil, List.map_cons, dsIdx, List.flatMap_cons, List.flatMap_nil,
    List.append_nil, blockCopies]
  rw [flatMap_single, List.map_map]
  apply List.map_congr_left
  intro k _
  simp only [Function.comp]; ring

theorem mkSubarray1_walk (sz sub start : Int) (c : Bool) (o r : Obj) (l : Layout) (h : Rel1 o l) (hw : W o l)
    (hr : mkSubarray [(sz, sub, start)] c o = some r) : W r (subL [(sz, sub, start)] c l) := by
  simp only [mkSubarray] at hr
  split at hr
  · cases hr
  · split at hr
    · cases hr
    · split at hr
      · cases hr
      · rename_i hh hhe
        injection hr with hr
        rw [h.ext] at hhe hr
        have r1 := mkHindexed_rel _ o hh l h hhe
        have w1 := mkHindexed_walk _ o hh l h hw hhe
        have := mkResized_walk hh _ 0 (sz * l.extent) r1 w1
        rw [hr] at this
        have e : subL [(sz, sub, start)] c l =
            ⟨(place (dsIdx [(sub, start * l.extent)] 1 l.extent) l).bytes, 0, 0 + sz * l.extent⟩ := by
          have hrev : (if c = true then [(sz, sub, start)] else [(sz, sub, start)].reverse) = [(sz, sub, start)] := by
            cases c <;> rfl
          simp only [subL, hrev, sub1_ds, List.map_cons, List.map_nil, prodF_cons, prodF_nil]
          congr 1; ring
        rw [e]; exact this

/-! ### MPI_Type_dup: `clone` of what the constructors build is the same object -/

theorem clone_scale (x e : Int) : (if (e != 0) = true then x * e / e else 0) * e = x * e := by
  by_cases h : e = 0
  · subst h; simp
  · have : (e != 0) = true := by simpa using h
    rw [if_pos this, Int.mul_ediv_cancel _ h]

theorem clone_mkHvector (n bl S : Int) (o r : Obj) (hr : mkHvector n bl S o = some r) : cloneObj r = r := by
  unfold mkHvector at hr
  split at hr
  · cases hr
  · simp only at hr
    split at hr <;> (injection hr with hr; subst hr; rfl)

theorem clone_mkContiguous (n : Int) (o r : Obj) (lb : Int) (hr : mkContiguous n o lb = some r) : cloneObj r = r := by
  unfold mkContiguous at hr
  simp only at hr
  split at hr
  · exact clone_mkHvector _ _ _ _ _ hr
  · split at hr <;> (injection hr with hr; subst hr; rfl)

theorem clone_mkVector (n bl S : Int) (o r : Obj) (hr : mkVector n bl S o = some r) : cloneObj r = r := by
  unfold mkVector at hr
  split at hr
  · cases hr
  · simp only at hr
    split at hr
    · injection hr with hr; subst hr
      simp only [cloneObj, clone_scale]
    · injection hr with hr; subst hr; rfl

theorem clone_mkIndexed (bs : List (Int × Int)) (o r : Obj) (hr : mkIndexed bs o = some r) : cloneObj r = r := by
  unfold mkIndexed at hr
  simp only at hr
  split at hr
  · cases hr
  · have fin1 : ∀ i, some (Obj.hindexed i (bs.map (fun b => (b.1, b.2 * o.info.extent))) o true) = some r →
        cloneObj r = r := by
      intro i hr
      injection hr with hr; subst hr
      simp only [cloneObj, List.map_map]
      congr 1
      apply List.map_congr_left
      intro b _
      simp only [Function.comp, clone_scale]
    split at hr <;> (try split at hr) <;> first | exact fin1 _ hr | exact clone_mkContiguous _ _ _ _ hr

theorem clone_mkHindexed (bs : List (Int × Int)) (o r : Obj) (hr : mkHindexed bs o = some r) : cloneObj r = r := by
  unfold mkHindexed at hr
  simp only at hr
  split at hr
  · cases hr
  · have fin1 : ∀ i, some (Obj.hindexed i bs o false) = some r → cloneObj r = r := by
      intro i hr
      injection hr with hr; subst hr; rfl
    split at hr <;> (try split at hr) <;> first | exact fin1 _ hr | exact clone_mkContiguous _ _ _ _ hr

theorem clone_mkStruct (ms : List (Int × Int × Obj)) (r : Obj) (hr : mkStruct ms = some r) : cloneObj r = r := by
  unfold mkStruct at hr
  split at hr
  · cases hr
  · split at hr
    · injection hr with hr; subst hr; rfl
    · exact clone_mkContiguous _ _ _ _ hr

/-- every object `build` returns is a fixed point of `clone` (stored byte strides are multiples of the old extent) -/
theorem cloneObj_fix : (t : Tree) → (o : Obj) → build t = some o → cloneObj o = o
  | .basic s, o, h => by simp only [build, Option.some.injEq] at h; subst h; rfl
  | .contiguous n t, o, h => by
    simp only [build] at h
    split at h
    · cases h
    · obtain ⟨o', _, h2⟩ := bind_some _ _ _ h; exact clone_mkContiguous _ _ _ _ h2
  | .vector n bl st t, o, h => by
    simp only [build] at h
    split at h
    · cases h
    · obtain ⟨o', _, h2⟩ := bind_some _ _ _ h; exact clone_mkVector _ _ _ _ _ h2
  | .hvector n bl st t, o, h => by
    simp only [build] at h
    split at h
    · cases h
    · obtain ⟨o', _, h2⟩ := bind_some _ _ _ h; exact clone_mkHvector _ _ _ _ _ h2
  | .indexed bs t, o, h => by
    simp only [build] at h
    obtain ⟨o', _, h2⟩ := bind_some _ _ _ h; exact clone_mkIndexed _ _ _ h2
  | .hindexed bs t, o, h => by
    simp only [build] at h
    obtain ⟨o', _, h2⟩ := bind_some _ _ _ h; exact clone_mkHindexed _ _ _ h2
  | .indexedBlock bl ds t, o, h => by
    simp only [build] at h
    obtain ⟨o', _, h2⟩ := bind_some _ _ _ h; exact clone_mkIndexed _ _ _ h2
  | .hindexedBlock bl ds t, o, h => by
    simp only [build] at h
    obtain ⟨o', _, h2⟩ := bind_some _ _ _ h; exact clone_mkHindexed _ _ _ h2
  | .struct m, o, h => by
    simp only [build] at h
    obtain ⟨ms, _, h2⟩ := bind_some _ _ _ h; exact clone_mkStruct _ _ h2
  | .resized lb ext t, o, h => by
    cases hb : build t with
    | none => simp [build, hb] at h
    | some o' => simp only [build, hb, Option.map_some, Option.some.injEq] at h; subst h; rfl
  | .subarray dims c t, o, h => by
    simp only [build] at h
    obtain ⟨o', _, h2⟩ := bind_some _ _ _ h
    obtain ⟨_, hh, e1, _⟩ := mkSubarray_out dims c o' o h2
    rw [e1]; rfl
  | .dup t, o, h => by
    cases hb : build t with
    | none => simp [build, hb] at h
    | some o' =>
      simp only [build, hb, Option.map_some, Option.some.injEq] at h
      subst h
      rw [cloneObj_fix t o' hb, cloneObj_fix t o' hb]


/-! ############ (was WalkE.lean) ############ -/
/-
C30 — walk = typemap for create_subarray with ndims ≥ 2: the chain vector → hvector … → hindexed(1) → resized that
the code builds selects the elements `Spec.subPositions` enumerates, in the same order.
-/

/-- selected positions without the start offsets (dims slowest-varying first) -/
def qpos : List (Int × Int × Int) → List Int
  | [] => [0]
  | (_, sub, _) :: rest => (Spec.range sub).flatMap (fun k => (qpos rest).map (· + k * prodF (rest.map (·.1))))

/-- linear position of the first selected element -/
def qoff : List (Int × Int × Int) → Int
  | [] => 0
  | (_, _, start) :: rest => start * prodF (rest.map (·.1)) + qoff rest

theorem subPositions_q : ∀ ds : List (Int × Int × Int), subPositions ds = (qpos ds).map (· + qoff ds) := by
  intro ds
  induction ds with
  | nil => simp [subPositions, qpos, qoff]
  | cons d rest ih =>
    obtain ⟨sz, sub, start⟩ := d
    simp only [subPositions, qpos, qoff, ih, List.map_flatMap, List.map_map]
    congr 1; funext k
    apply List.map_congr_left
    intro p _
    simp only [Function.comp, prodF]; ring

/-- the typemap bytes of the elements at the linear positions `ps` -/
def bytesAt (l : Layout) (ps : List Int) : List Int := ps.flatMap (fun p => l.bytes.map (· + p * l.extent))

theorem bytesAt_map_add (l : Layout) (ps : List Int) (c : Int) :
    bytesAt l (ps.map (· + c)) = (bytesAt l ps).map (· + c * l.extent) := by
  simp only [bytesAt, List.flatMap_map, List.map_flatMap, List.map_map]
  congr 1; funext p
  apply List.map_congr_left
  intro x _
  simp only [Function.comp]; ring

theorem subL_bytes (dims : List (Int × Int × Int)) (c : Bool) (l : Layout) :
    (subL dims c l).bytes = bytesAt l (subPositions (if c then dims else dims.reverse)) := by
  simp only [subL, place, bytesAt, List.flatMap_map]

/-- one step of the hvector loop on the MPI side: `sub` copies of the positions so far at stride `size` -/
theorem hv1_bytes (sub S : Int) (T : Layout) :
    (place (dsHv sub 1 S T.extent) T).bytes = (Spec.range sub).flatMap (fun i => T.bytes.map (· + i * S)) := by
  have r1 : Spec.range 1 = [0] := rfl
  simp only [place, dsHv, r1, List.map_cons, List.map_nil, List.flatMap_assoc, List.flatMap_cons, List.flatMap_nil,
    List.append_nil]
  congr 1; funext i
  apply List.map_congr_left
  intro x _
  ring

theorem qpos_step (l : Layout) (sz sub st : Int) (dr : List (Int × Int × Int)) :
    (Spec.range sub).flatMap (fun i => (bytesAt l (qpos dr)).map (· + i * (prodF (dr.map (·.1)) * l.extent))) =
      bytesAt l (qpos ((sz, sub, st) :: dr)) := by
  simp only [qpos, bytesAt, List.flatMap_assoc, List.map_flatMap, List.flatMap_map, List.map_map]
  congr 1; funext i; congr 1; funext p
  apply List.map_congr_left
  intro x _
  simp only [Function.comp]; ring

/-- the hvector loop of create_subarray: invariant -/
theorem subarrayLoop_inv (l : Layout) : ∀ (rest : List (Int × Int × Int)) (tmp : Obj) (size lb : Int)
    (done : List (Int × Int × Int)) (T : Layout),
    Rel1 tmp T → W tmp T → T.bytes = bytesAt l (qpos done.reverse) → size = prodF (done.map (·.1)) →
    lb = qoff done.reverse → (∀ d ∈ done, 0 < d.1) → (∀ d ∈ rest, 0 < d.1 ∧ 0 ≤ d.2.1 ∧ 0 ≤ d.2.2) → 0 ≤ l.extent →
    ∀ res, subarrayLoop l.extent rest tmp size lb = some res →
      ∃ T', Rel1 res.1 T' ∧ W res.1 T' ∧ T'.bytes = bytesAt l (qpos (done ++ rest).reverse) ∧
        res.2.1 = prodF ((done ++ rest).map (·.1)) ∧ res.2.2 = qoff (done ++ rest).reverse := by
  intro rest
  induction rest with
  | nil =>
    intro tmp size lb done T hrel hw hb hs hl _ _ _ res h
    simp only [subarrayLoop, Option.some.injEq] at h
    subst h
    exact ⟨T, hrel, hw, by simpa using hb, by simpa using hs, by simpa using hl⟩
  | cons d rest ih =>
    intro tmp size lb done T hrel hw hb hs hl hdone hrest he res h
    obtain ⟨sz, sub, start⟩ := d
    simp only [subarrayLoop] at h
    split at h
    · cases h
    · rename_i nt hnt
      obtain ⟨hsz, hsub, hstart⟩ := hrest (sz, sub, start) (by simp)
      have hsize : 0 ≤ size := by
        rw [hs]; apply prodF_nonneg
        intro x hx
        obtain ⟨d, hd, rfl⟩ := List.mem_map.mp hx
        exact Int.le_of_lt (hdone d hd)
      have hS : 0 ≤ size * l.extent := Int.mul_nonneg hsize he
      have r1 := mkHvector_rel sub 1 _ tmp nt T hrel hsub hS hnt
      have w1 := mkHvector_walk sub 1 _ tmp nt T hrel hw hsub hS hnt
      have hb1 : (place (dsHv sub 1 (size * l.extent) T.extent) T).bytes =
          bytesAt l (qpos (done ++ [(sz, sub, start)]).reverse) := by
        rw [hv1_bytes, hb, hs, List.reverse_append, List.reverse_singleton, List.singleton_append]
        have : prodF (done.map (·.1)) = prodF (done.reverse.map (·.1)) := by rw [List.map_reverse, prodF_reverse]
        rw [this]
        exact qpos_step l sz sub start done.reverse
      have := ih nt (size * sz) (lb + size * start) (done ++ [(sz, sub, start)]) _ r1 w1 hb1
        (by rw [hs, List.map_append, prodF_append]; simp [prodF_cons, prodF_nil])
        (by
          rw [hl, hs, List.reverse_append, List.reverse_singleton, List.singleton_append]
          simp only [qoff]
          rw [List.map_reverse, prodF_reverse]; ring)
        (by
          intro d hd
          simp only [List.mem_append, List.mem_singleton] at hd
          rcases hd with hd | rfl
          · exact hdone d hd
          · exact hsz)
        (fun d hd => hrest d (by simp [hd])) he res h
      simpa [List.append_assoc] using this

theorem vec_bytes (l : Layout) (d0 d1 : Int × Int × Int) :
    (place (dsHv d1.2.1 d0.2.1 (d0.1 * l.extent) l.extent) l).bytes = bytesAt l (qpos [d1, d0]) := by
  obtain ⟨sz0, sub0, st0⟩ := d0
  obtain ⟨sz1, sub1, st1⟩ := d1
  simp only [place, dsHv, qpos, bytesAt, List.flatMap_assoc, List.flatMap_map, List.map_nil, List.map_cons, prodF_nil,
    prodF_cons, List.flatMap_cons, List.flatMap_nil, List.append_nil]
  congr 1; funext i; congr 1; funext j
  apply List.map_congr_left
  intro x _
  ring

/-- the body of create_subarray for ndims ≥ 2 -/
theorem subCore_walk (ds : List (Int × Int × Int)) (o r : Obj) (l : Layout) (h : Rel1 o l) (hw : W o l)
    (hchk : ∀ d ∈ ds, 0 < d.1 ∧ 0 ≤ d.2.1 ∧ 0 ≤ d.2.2) (hr : subCore ds o = some r) :
    W r ⟨bytesAt l (subPositions ds.reverse), 0, 0 + prodF (ds.map (·.1)) * l.extent⟩ := by
  unfold subCore at hr
  split at hr
  · rename_i sz0 sub0 st0 sz1 sub1 st1 rest
    simp only at hr
    split at hr
    · cases hr
    · rename_i v hv
      split at hr
      · cases hr
      · rename_i tmp size lb hloop
        split at hr
        · cases hr
        · rename_i hh hhe
          injection hr with hr
          obtain ⟨c0a, c0b, c0c⟩ := hchk (sz0, sub0, st0) (by simp)
          obtain ⟨c1a, c1b, c1c⟩ := hchk (sz1, sub1, st1) (by simp)
          have he := h.ext_nonneg
          rw [h.ext] at hloop hhe hr
          have rv := mkVector_rel sub1 sub0 sz0 o v l h c1b (by omega) hv
          have wv := mkVector_walk sub1 sub0 sz0 o v l h hw c1b (by omega) hv
          have hbv := vec_bytes l (sz0, sub0, st0) (sz1, sub1, st1)
          simp only at hbv
          obtain ⟨T', rT, wT, bT, sT, lT⟩ := subarrayLoop_inv l rest v (sz0 * sz1) (st0 + st1 * sz0)
            [(sz0, sub0, st0), (sz1, sub1, st1)] _ rv wv (by simpa using hbv)
            (by simp [prodF_cons, prodF_nil])
            (by simp [qoff, prodF_cons, prodF_nil]; ring)
            (by intro d hd; simp only [List.mem_cons, List.mem_nil_iff, or_false] at hd; rcases hd with rfl | rfl <;> assumption)
            (fun d hd => hchk d (by simp [hd])) he _ hloop
          simp only at rT wT bT sT lT
          have rh := mkHindexed_rel _ tmp hh T' rT hhe
          have wh := mkHindexed_walk _ tmp hh T' rT wT hhe
          have := mkResized_walk hh _ 0 (size * l.extent) rh wh
          rw [hr] at this
          have hbytes : (place (dsIdx [(1, lb * l.extent)] 1 T'.extent) T').bytes =
              bytesAt l (subPositions ((sz0, sub0, st0) :: (sz1, sub1, st1) :: rest).reverse) := by
            have r1 : Spec.range 1 = [0] := rfl
            rw [subPositions_q, bytesAt_map_add]
            simp only [place, dsIdx, blockCopies, r1, List.flatMap_cons, List.flatMap_nil, List.append_nil, List.map_cons,
              List.map_nil, bT, lT]
            have e : ((sz0, sub0, st0) :: (sz1, sub1, st1) :: rest) = [(sz0, sub0, st0), (sz1, sub1, st1)] ++ rest := rfl
            rw [e]
            apply List.map_congr_left
            intro x _
            ring
          rw [hbytes, sT] at this
          exact this
  · cases hr

/-- `MPI_Type_create_subarray`, any number of dimensions ≥ 1 -/
theorem mkSubarray_walk (dims : List (Int × Int × Int)) (c : Bool) (o r : Obj) (l : Layout) (h : Rel1 o l) (hw : W o l)
    (hr : mkSubarray dims c o = some r) : W r (subL dims c l) := by
  match dims, hr with
  | [], hr => simp [mkSubarray] at hr
  | [(sz, sub, start)], hr => exact mkSubarray1_walk sz sub start c o r l h hw hr
  | d1 :: d2 :: rest, hr =>
    rw [mkSubarray_ge2] at hr
    split at hr
    · cases hr
    · rename_i hany
      split at hr
      · cases hr
      · split at hr
        · cases hr
        · have hchk := checks_of_any _ hany
          have hc' : ∀ d ∈ (if c = true then (d1 :: d2 :: rest).reverse else d1 :: d2 :: rest), 0 < d.1 ∧ 0 ≤ d.2.1 ∧ 0 ≤ d.2.2 := by
            intro d hd
            cases c
            · exact hchk d (by simpa using hd)
            · simp only [if_true] at hd
              exact hchk d (List.mem_reverse.mp hd)
          have := subCore_walk _ o r l h hw hc' hr
          have e : subL (d1 :: d2 :: rest) c l =
              ⟨bytesAt l (subPositions (if c = true then (d1 :: d2 :: rest).reverse else d1 :: d2 :: rest).reverse), 0,
                0 + prodF ((if c = true then (d1 :: d2 :: rest).reverse else d1 :: d2 :: rest).map (·.1)) * l.extent⟩ := by
            cases c
            · simp only [subL, Bool.false_eq_true, if_false, place, bytesAt, List.flatMap_map, Int.zero_add]
            · simp only [subL, if_true, place, bytesAt, List.flatMap_map, Int.zero_add, List.reverse_reverse,
                List.map_reverse, prodF_reverse]
          rw [e]; exact this


/-! ############ (was WalkF.lean) ############ -/
/-
C30 — walk = typemap by induction over ALL constructor trees.
-/

theorem basic_W (s : Nat) : W (basicObj s) (layout (.basic s)) :=
  plain_W _ _ (basic_rel s) (natural_isRun (basic_rel s) rfl)

mutual
theorem walk_tree : (t : Tree) → Wf t → (o : Obj) → build t = some o → W o (layout t)
  | .basic s, _, o, h => by
    simp only [build, Option.some.injEq] at h; subst h; exact basic_W s
  | .contiguous n t, w, o, h => by
    simp only [build] at h
    have w' : Wf t := by simpa [Wf] using w
    split at h
    · cases h
    · obtain ⟨o', h1, h2⟩ := bind_some _ _ _ h
      have := mkContiguous_walk n o' o _ (rel_tree t w' o' h1) (walk_tree t w' o' h1) (by omega) h2
      simp only [layout, dsContig_eq]; exact this
  | .vector n bl st t, w, o, h => by
    simp only [build] at h
    simp only [Wf] at w
    split at h
    · cases h
    · obtain ⟨o', h1, h2⟩ := bind_some _ _ _ h
      have := mkVector_walk n bl st o' o _ (rel_tree t w.2 o' h1) (walk_tree t w.2 o' h1) (by omega) w.1 h2
      simp only [layout, dsVec_eq]; exact this
  | .hvector n bl st t, w, o, h => by
    simp only [build] at h
    simp only [Wf] at w
    split at h
    · cases h
    · obtain ⟨o', h1, h2⟩ := bind_some _ _ _ h
      have := mkHvector_walk n bl st o' o _ (rel_tree t w.2 o' h1) (walk_tree t w.2 o' h1) (by omega) w.1 h2
      simp only [layout]; exact this
  | .indexed bs t, w, o, h => by
    simp only [build] at h
    have w' : Wf t := by simpa [Wf] using w
    obtain ⟨o', h1, h2⟩ := bind_some _ _ _ h
    have := mkIndexed_walk bs o' o _ (rel_tree t w' o' h1) (walk_tree t w' o' h1) h2
    simp only [layout, dsIdx_indexed]; exact this
  | .hindexed bs t, w, o, h => by
    simp only [build] at h
    have w' : Wf t := by simpa [Wf] using w
    obtain ⟨o', h1, h2⟩ := bind_some _ _ _ h
    have := mkHindexed_walk bs o' o _ (rel_tree t w' o' h1) (walk_tree t w' o' h1) h2
    simp only [layout, dsIdx_hindexed]; exact this
  | .indexedBlock bl ds t, w, o, h => by
    simp only [build] at h
    have w' : Wf t := by simpa [Wf] using w
    obtain ⟨o', h1, h2⟩ := bind_some _ _ _ h
    have := mkIndexed_walk _ o' o _ (rel_tree t w' o' h1) (walk_tree t w' o' h1) h2
    rw [layout_indexedBlock]
    simp only [layout, dsIdx_indexed]; exact this
  | .hindexedBlock bl ds t, w, o, h => by
    simp only [build] at h
    have w' : Wf t := by simpa [Wf] using w
    obtain ⟨o', h1, h2⟩ := bind_some _ _ _ h
    have := mkHindexed_walk _ o' o _ (rel_tree t w' o' h1) (walk_tree t w' o' h1) h2
    rw [layout_hindexedBlock]
    simp only [layout, dsIdx_hindexed]; exact this
  | .struct m, w, o, h => by
    simp only [build] at h
    have w' : WfM m := by simpa [Wf] using w
    obtain ⟨ms, h1, h2⟩ := bind_some _ _ _ h
    rw [layout_struct]
    exact mkStruct_walk m ms o (rel_members m w' ms h1) (walk_members m w' ms h1) h2
  | .resized lb ext t, w, o, h => by
    simp only [Wf] at w
    cases hb : build t with
    | none => simp [build, hb] at h
    | some o' =>
      simp only [build, hb, Option.map_some, Option.some.injEq] at h
      subst h
      simp only [layout]
      exact mkResized_walk o' _ lb ext (rel_tree t w.2 o' hb) (walk_tree t w.2 o' hb)
  | .subarray dims c t, w, o, h => by
    simp only [build] at h
    have w' : Wf t := by simpa [Wf] using w
    obtain ⟨o', h1, h2⟩ := bind_some _ _ _ h
    rw [layout_subarray]
    exact mkSubarray_walk dims c o' o _ (rel_tree t w' o' h1) (walk_tree t w' o' h1) h2
  | .dup t, w, o, h => by
    have w' : Wf t := by simpa [Wf] using w
    cases hb : build t with
    | none => simp [build, hb] at h
    | some o' =>
      simp only [build, hb, Option.map_some, Option.some.injEq] at h
      subst h
      rw [cloneObj_fix t o' hb]
      simp only [layout]
      exact walk_tree t w' o' hb
theorem walk_members : (m : Members) → WfM m → (ms : List (Int × Int × Obj)) → buildMembers m = some ms → MembersW m ms
  | .nil, _, ms, h => by
    simp only [buildMembers, Option.some.injEq] at h; subst h; simp [MembersW]
  | .cons bl d t rest, w, ms, h => by
    simp only [WfM] at w
    obtain ⟨_, w2, w3⟩ := w
    simp only [buildMembers] at h
    split at h
    · rename_i o r ho hr
      injection h with h
      simp only [MembersW]
      exact ⟨o, r, h.symm, rel_tree t w2 o ho, walk_tree t w2 o ho, walk_members rest w3 r hr⟩
    · cases h
end


end SgVerif.C30
