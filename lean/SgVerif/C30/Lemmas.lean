import SgVerif.C30.Model
/-
C30 — lemmas for the per-constructor lb/ub theorems: minima / maxima of the placement lists of `Spec.place`, what one
block contributes, and the invariants of the `for` loops of create_indexed / create_hindexed / create_struct.
-/
set_option linter.unusedSimpArgs false
namespace SgVerif.C30
open Spec

/-! ### listMin / listMax are the least / greatest element -/

def IsMin (xs : List Int) (m : Int) : Prop := m ∈ xs ∧ ∀ x ∈ xs, m ≤ x
def IsMax (xs : List Int) (m : Int) : Prop := m ∈ xs ∧ ∀ x ∈ xs, x ≤ m

theorem foldl_min_spec (xs : List Int) : ∀ a : Int,
    (xs.foldl min a = a ∨ xs.foldl min a ∈ xs) ∧ xs.foldl min a ≤ a ∧ ∀ x ∈ xs, xs.foldl min a ≤ x := by
  induction xs with
  | nil => intro a; simp
  | cons y ys ih =>
    intro a
    simp only [List.foldl_cons]
    obtain ⟨h1, h2, h3⟩ := ih (min a y)
    have hm : min a y = a ∨ min a y = y := by
      simp only [Int.min_def]; split <;> simp
    have hma : min a y ≤ a := by simp only [Int.min_def]; split <;> omega
    have hmy : min a y ≤ y := by simp only [Int.min_def]; split <;> omega
    refine ⟨?_, Int.le_trans h2 hma, ?_⟩
    · rcases h1 with h | h
      · rw [h]
        rcases hm with e | e
        · left; exact e
        · right; rw [e]; simp
      · right; simp [h]
    · intro x hx
      simp only [List.mem_cons] at hx
      rcases hx with rfl | hx
      · exact Int.le_trans h2 hmy
      · exact h3 x hx

theorem foldl_max_spec (xs : List Int) : ∀ a : Int,
    (xs.foldl max a = a ∨ xs.foldl max a ∈ xs) ∧ a ≤ xs.foldl max a ∧ ∀ x ∈ xs, x ≤ xs.foldl max a := by
  induction xs with
  | nil => intro a; simp
  | cons y ys ih =>
    intro a
    simp only [List.foldl_cons]
    obtain ⟨h1, h2, h3⟩ := ih (max a y)
    have hm : max a y = a ∨ max a y = y := by
      simp only [Int.max_def]; split <;> simp
    have hma : a ≤ max a y := by simp only [Int.max_def]; split <;> omega
    have hmy : y ≤ max a y := by simp only [Int.max_def]; split <;> omega
    refine ⟨?_, Int.le_trans hma h2, ?_⟩
    · rcases h1 with h | h
      · rw [h]
        rcases hm with e | e
        · left; exact e
        · right; rw [e]; simp
      · right; simp [h]
    · intro x hx
      simp only [List.mem_cons] at hx
      rcases hx with rfl | hx
      · exact Int.le_trans hmy h2
      · exact h3 x hx

theorem listMin_isMin (xs : List Int) (h : xs ≠ []) : IsMin xs (listMin xs) := by
  cases xs with
  | nil => exact absurd rfl h
  | cons a t =>
    obtain ⟨h1, h2, h3⟩ := foldl_min_spec t a
    refine ⟨?_, ?_⟩
    · simp only [listMin, List.mem_cons]
      rcases h1 with e | e
      · left; exact e
      · right; exact e
    · intro x hx
      simp only [List.mem_cons] at hx
      rcases hx with rfl | hx
      · exact h2
      · exact h3 x hx

theorem listMax_isMax (xs : List Int) (h : xs ≠ []) : IsMax xs (listMax xs) := by
  cases xs with
  | nil => exact absurd rfl h
  | cons a t =>
    obtain ⟨h1, h2, h3⟩ := foldl_max_spec t a
    refine ⟨?_, ?_⟩
    · simp only [listMax, List.mem_cons]
      rcases h1 with e | e
      · left; exact e
      · right; exact e
    · intro x hx
      simp only [List.mem_cons] at hx
      rcases hx with rfl | hx
      · exact h2
      · exact h3 x hx

theorem isMin_unique (xs : List Int) (m : Int) (h : IsMin xs m) : listMin xs = m := by
  have hne : xs ≠ [] := by intro e; rw [e] at h; exact absurd h.1 (by simp)
  obtain ⟨g1, g2⟩ := listMin_isMin xs hne
  exact Int.le_antisymm (g2 m h.1) (h.2 _ g1)

theorem isMax_unique (xs : List Int) (m : Int) (h : IsMax xs m) : listMax xs = m := by
  have hne : xs ≠ [] := by intro e; rw [e] at h; exact absurd h.1 (by simp)
  obtain ⟨g1, g2⟩ := listMax_isMax xs hne
  exact Int.le_antisymm (h.2 _ g1) (g2 m h.1)

theorem isMin_append (A B : List Int) (a b : Int) (ha : IsMin A a) (hb : IsMin B b) :
    IsMin (A ++ B) (if b < a then b else a) := by
  obtain ⟨a1, a2⟩ := ha
  obtain ⟨b1, b2⟩ := hb
  by_cases h : b < a
  · simp only [h, if_true]
    refine ⟨by simp [b1], ?_⟩
    intro x hx
    simp only [List.mem_append] at hx
    rcases hx with hx | hx
    · have := a2 x hx; omega
    · exact b2 x hx
  · simp only [h, if_false]
    refine ⟨by simp [a1], ?_⟩
    intro x hx
    simp only [List.mem_append] at hx
    rcases hx with hx | hx
    · exact a2 x hx
    · have := b2 x hx; omega

theorem isMax_append (A B : List Int) (a b : Int) (ha : IsMax A a) (hb : IsMax B b) :
    IsMax (A ++ B) (if b > a then b else a) := by
  obtain ⟨a1, a2⟩ := ha
  obtain ⟨b1, b2⟩ := hb
  by_cases h : b > a
  · simp only [h, if_true]
    refine ⟨by simp [b1], ?_⟩
    intro x hx
    simp only [List.mem_append] at hx
    rcases hx with hx | hx
    · have := a2 x hx; omega
    · exact b2 x hx
  · simp only [h, if_false]
    refine ⟨by simp [a1], ?_⟩
    intro x hx
    simp only [List.mem_append] at hx
    rcases hx with hx | hx
    · exact a2 x hx
    · have := b2 x hx; omega

/-! ### one block: `bl` copies at `d + j * e`, j = 0 .. bl-1 -/

theorem mem_range (n x : Int) : x ∈ Spec.range n ↔ 0 ≤ x ∧ x < n := by
  simp only [Spec.range, List.mem_map, List.mem_range]
  constructor
  · rintro ⟨k, hk, rfl⟩; omega
  · rintro ⟨h0, h1⟩; exact ⟨x.toNat, by omega, by omega⟩

theorem range_nil (n : Int) (h : n ≤ 0) : Spec.range n = [] := by
  have : n.toNat = 0 := by omega
  simp [Spec.range, this]

/-- displacements of the copies of one block -/
def blockCopies (d bl e : Int) : List Int := (Spec.range bl).map (fun j => d + j * e)

theorem blockCopies_nil (d bl e : Int) (h : bl ≤ 0) : blockCopies d bl e = [] := by
  simp [blockCopies, range_nil bl h]

theorem blockCopies_ne_nil (d bl e : Int) (h : 0 < bl) : blockCopies d bl e ≠ [] := by
  intro hnil
  have : (0 : Int) ∈ Spec.range bl := (mem_range bl 0).mpr ⟨by omega, h⟩
  have h0 : d + 0 * e ∈ blockCopies d bl e := List.mem_map.mpr ⟨0, this, rfl⟩
  rw [hnil] at h0
  exact absurd h0 (by simp)

theorem block_isMin (d bl e L : Int) (hbl : 0 < bl) (he : 0 ≤ e) :
    IsMin ((blockCopies d bl e).map (· + L)) (d + L) := by
  refine ⟨?_, ?_⟩
  · simp only [blockCopies, List.map_map, List.mem_map, Function.comp]
    exact ⟨0, (mem_range bl 0).mpr ⟨by omega, hbl⟩, by simp⟩
  · intro x hx
    simp only [blockCopies, List.map_map, List.mem_map, Function.comp] at hx
    obtain ⟨j, hj, rfl⟩ := hx
    have hj' := (mem_range bl j).mp hj
    have : 0 ≤ j * e := Int.mul_nonneg hj'.1 he
    omega

theorem block_isMax (d bl e U : Int) (hbl : 0 < bl) (he : 0 ≤ e) :
    IsMax ((blockCopies d bl e).map (· + U)) (d + (bl - 1) * e + U) := by
  refine ⟨?_, ?_⟩
  · simp only [blockCopies, List.map_map, List.mem_map, Function.comp]
    exact ⟨bl - 1, (mem_range bl (bl - 1)).mpr ⟨by omega, by omega⟩, rfl⟩
  · intro x hx
    simp only [blockCopies, List.map_map, List.mem_map, Function.comp] at hx
    obtain ⟨j, hj, rfl⟩ := hx
    have hj' := (mem_range bl j).mp hj
    have : j * e ≤ (bl - 1) * e := Int.mul_le_mul_of_nonneg_right (by omega) he
    omega

/-! ### the lb/ub state of the loops -/

/-- the (lb, ub, empty) state describes the placement list `S` -/
def StOk (S : List Int) (L U : Int) (st : Int × Int × Bool) : Prop :=
  (st = (0, 0, true) ∧ S = []) ∨
  (st.2.2 = false ∧ S ≠ [] ∧ IsMin (S.map (· + L)) st.1 ∧ IsMax (S.map (· + U)) st.2.1)

theorem blockBounds_ok (S : List Int) (L U e d bl : Int) (he : 0 ≤ e) (st : Int × Int × Bool)
    (h : StOk S L U st) : StOk (S ++ blockCopies d bl e) L U (blockBounds d bl L U e st) := by
  by_cases hbl : bl > 0
  · have hmin := block_isMin d bl e L hbl he
    have hmax := block_isMax d bl e U hbl he
    have hne := blockCopies_ne_nil d bl e hbl
    unfold blockBounds
    simp only [hbl, if_true]
    rcases h with ⟨rfl, rfl⟩ | ⟨hf, hS, hmn, hmx⟩
    · right
      simp only [List.nil_append, Bool.true_or, if_true]
      exact ⟨trivial, hne, hmin, hmax⟩
    · right
      simp only [hf, Bool.false_or, List.map_append]
      refine ⟨trivial, by simp [hS], ?_, ?_⟩
      · have := isMin_append _ _ _ _ hmn hmin
        simpa [decide_eq_true_eq] using this
      · have := isMax_append _ _ _ _ hmx hmax
        simpa [decide_eq_true_eq] using this
  · have hnil := blockCopies_nil d bl e (by omega)
    unfold blockBounds
    simp only [hbl, if_false, hnil, List.append_nil]
    exact h

/-- reading lb / ub off a final state -/
theorem stOk_bounds (S : List Int) (L U : Int) (st : Int × Int × Bool) (h : StOk S L U st) :
    st.1 = listMin (S.map (· + L)) ∧ st.2.1 = listMax (S.map (· + U)) := by
  rcases h with ⟨rfl, rfl⟩ | ⟨_, _, hmn, hmx⟩
  · simp [listMin, listMax]
  · exact ⟨(isMin_unique _ _ hmn).symm, (isMax_unique _ _ hmx).symm⟩

/-! ### create_indexed / create_hindexed -/

theorem idxLoop_ok (scale csize L U e : Int) (he : 0 ≤ e) :
    ∀ (bs : List (Int × Int)) (s : Int) (st : Int × Int × Bool) (c : Bool) (S : List Int), StOk S L U st →
      ∀ r, idxLoop scale csize L U e bs s st c = some r →
        r.2.1 = listMin ((S ++ bs.flatMap (fun b => blockCopies (b.2 * scale) b.1 e)).map (· + L)) ∧
        r.2.2.1 = listMax ((S ++ bs.flatMap (fun b => blockCopies (b.2 * scale) b.1 e)).map (· + U)) ∧
        r.1 = s + (bs.map (·.1)).sum := by
  intro bs
  induction bs with
  | nil =>
    intro s st c S h r hr
    simp only [idxLoop, Option.some.injEq] at hr
    subst hr
    have := stOk_bounds S L U st h
    simpa using this
  | cons b rest ih =>
    intro s st c S h r hr
    obtain ⟨bl, idx⟩ := b
    simp only [idxLoop] at hr
    split at hr
    · cases hr
    · have h' := blockBounds_ok S L U e (idx * scale) bl he st h
      obtain ⟨r1, r2, r3⟩ := ih _ _ _ _ h' r hr
      simp only [List.flatMap_cons, List.map_cons, List.sum_cons]
      rw [← List.append_assoc]
      exact ⟨r1, r2, by rw [r3]; omega⟩

/-- the contiguity flag only goes down -/
theorem idxLoop_flag (scale csize L U e : Int) :
    ∀ (bs : List (Int × Int)) (s : Int) (st : Int × Int × Bool) (c : Bool) r,
      idxLoop scale csize L U e bs s st c = some r → r.2.2.2 = true → c = true := by
  intro bs
  induction bs with
  | nil => intro s st c r hr hc; simp only [idxLoop, Option.some.injEq] at hr; subst hr; exact hc
  | cons b rest ih =>
    intro s st c r hr hc
    obtain ⟨bl, idx⟩ := b
    simp only [idxLoop] at hr
    split at hr
    · cases hr
    · have := ih _ _ _ _ hr hc
      simp only [Bool.and_eq_true] at this
      exact this.1

/-- create_indexed / create_hindexed over an old type with the natural bounds (lb = 0, ub = extent = e: every
    non-derived type): when the loop ends with `contiguous` still set, the blocks form one run of `size` elements:
    ub = lb + size * e.  `hcs` relates the units of the contiguity test to bytes (indexed: csize = 1, scale = e;
    hindexed: csize = size = e, scale = 1). -/
theorem idxLoop_contig (scale csize e : Int) (he : 0 ≤ e) (hcs : ∀ x : Int, (csize * x) * scale = x * e) :
    ∀ (bs : List (Int × Int)) (s : Int) (st : Int × Int × Bool) (c : Bool), 0 ≤ s →
      ((st = (0, 0, true) ∧ s = 0) ∨
       (st.2.2 = false ∧ st.2.1 = st.1 + s * e ∧ ∀ b ∈ bs.head?, b.2 * scale = st.2.1)) →
      ∀ r, idxLoop scale csize 0 e e bs s st c = some r → r.2.2.2 = true → r.2.2.1 = r.2.1 + r.1 * e := by
  intro bs
  induction bs with
  | nil =>
    intro s st c _ hst r hr _
    simp only [idxLoop, Option.some.injEq] at hr
    subst hr
    rcases hst with ⟨rfl, rfl⟩ | ⟨_, h, _⟩
    · simp
    · exact h
  | cons b rest ih =>
    intro s st c hs hst r hr hfin
    obtain ⟨bl, idx⟩ := b
    simp only [idxLoop] at hr
    split at hr
    · cases hr
    · rename_i hbl
      have hflag := idxLoop_flag _ _ _ _ _ _ _ _ _ _ hr hfin
      simp only [Bool.and_eq_true] at hflag
      have hchain := hflag.2
      have hble : 0 ≤ bl * e := Int.mul_nonneg (by omega) he
      have hse : 0 ≤ s * e := Int.mul_nonneg hs he
      have h1 : (bl - 1) * e = bl * e - e := by rw [Int.sub_mul, Int.one_mul]
      have h2 : (s + bl) * e = s * e + bl * e := Int.add_mul _ _ _
      -- the head of the rest, if any, starts where this block ends
      have hnext : ∀ b ∈ rest.head?, b.2 * scale = idx * scale + bl * e := by
        intro b hb
        cases rest with
        | nil => simp at hb
        | cons b' r' =>
          simp only [List.head?_cons, Option.mem_def, Option.some.injEq] at hb
          subst hb
          simp only [List.head?_cons, Option.map_some, chainOk, beq_iff_eq] at hchain
          rw [← hchain, Int.add_mul, hcs]
      refine ih (s + bl) _ _ (by omega) ?_ r hr hfin
      by_cases hpos : bl > 0
      · right
        unfold blockBounds
        simp only [hpos, if_true]
        rcases hst with ⟨rfl, rfl⟩ | ⟨hf, hub, hhead⟩
        · simp only [Bool.true_or, if_true]
          refine ⟨trivial, by omega, ?_⟩
          intro b hb
          rw [hnext b hb]; omega
        · have hidx : idx * scale = st.2.1 := hhead (bl, idx) (by simp)
          simp only [hf, Bool.false_or, decide_eq_true_eq]
          have hnl : ¬ (idx * scale + 0 < st.1) := by omega
          simp only [hnl, if_false]
          refine ⟨trivial, ?_, ?_⟩
          · split <;> omega
          · intro b hb
            rw [hnext b hb]
            split <;> omega
      · have hz : bl = 0 := by omega
        subst hz
        unfold blockBounds
        simp only [Int.lt_irrefl, gt_iff_lt, if_false]
        rcases hst with ⟨rfl, rfl⟩ | ⟨hf, hub, hhead⟩
        · left; exact ⟨rfl, by omega⟩
        · right
          have hidx : idx * scale = st.2.1 := hhead (0, idx) (by simp)
          refine ⟨hf, by omega, ?_⟩
          intro b hb
          rw [hnext b hb]; omega

/-- what `mkContiguous` makes of a non-derived old type -/
theorem mkContiguous_info (count : Int) (old r : Obj) (lb : Int) (hd : old.info.derived = false)
    (h : mkContiguous count old lb = some r) :
    r.info.lb = lb ∧ r.info.ub = lb + count * old.info.size := by
  unfold mkContiguous at h
  simp only [hd, Bool.false_eq_true, if_false] at h
  split at h <;> (injection h with h; subst h; simp [Obj.info])

/-- `Datatype::create_indexed`: lb / ub are the least lower bound / greatest upper bound of the placed copies -/
theorem mkIndexed_bounds (bs : List (Int × Int)) (old r : Obj) (he : 0 ≤ old.info.extent)
    (hnat : old.info.derived = false → old.info.lb = 0 ∧ old.info.ub = old.info.size)
    (hr : mkIndexed bs old = some r) :
    r.info.lb = listMin ((bs.flatMap (fun b => blockCopies (b.2 * old.info.extent) b.1 old.info.extent)).map
      (· + old.info.lb)) ∧
    r.info.ub = listMax ((bs.flatMap (fun b => blockCopies (b.2 * old.info.extent) b.1 old.info.extent)).map
      (· + old.info.ub)) := by
  unfold mkIndexed at hr
  simp only at hr
  split at hr
  · cases hr
  · rename_i size lb ub c heq
    have hok := idxLoop_ok old.info.extent 1 old.info.lb old.info.ub old.info.extent he bs 0 (0, 0, true) true []
      (Or.inl ⟨rfl, rfl⟩) _ heq
    simp only [List.nil_append] at hok
    obtain ⟨h1, h2, _⟩ := hok
    cases hd : old.info.derived with
    | true => simp [hd] at hr; subst hr; exact ⟨h1, h2⟩
    | false =>
    cases hct : c with
    | false => simp [hd, hct] at hr; subst hr; exact ⟨h1, h2⟩
    | true =>
      simp [hd, hct] at hr
      rw [hct] at heq
      obtain ⟨hL, hU⟩ := hnat hd
      have hE : old.info.extent = old.info.size := by simp only [Info.extent, hL, hU]; omega
      obtain ⟨g1, g2⟩ := mkContiguous_info size old r lb hd hr
      refine ⟨by rw [g1]; exact h1, ?_⟩
      rw [g2, ← h2]
      rw [hL, hU, hE] at heq
      have := idxLoop_contig old.info.size 1 old.info.size (by omega) (fun x => by rw [Int.one_mul]) bs 0 (0, 0, true)
        true (by omega) (Or.inl ⟨rfl, rfl⟩) _ heq rfl
      simp only at this
      omega

/-- `Datatype::create_hindexed` -/
theorem mkHindexed_bounds (bs : List (Int × Int)) (old r : Obj) (he : 0 ≤ old.info.extent)
    (hnat : old.info.derived = false → old.info.lb = 0 ∧ old.info.ub = old.info.size)
    (hr : mkHindexed bs old = some r) :
    r.info.lb = listMin ((bs.flatMap (fun b => blockCopies (b.2 * 1) b.1 old.info.extent)).map (· + old.info.lb)) ∧
    r.info.ub = listMax ((bs.flatMap (fun b => blockCopies (b.2 * 1) b.1 old.info.extent)).map (· + old.info.ub)) := by
  unfold mkHindexed at hr
  simp only at hr
  split at hr
  · cases hr
  · rename_i size lb ub c heq
    have hok := idxLoop_ok 1 old.info.size old.info.lb old.info.ub old.info.extent he bs 0 (0, 0, true) true []
      (Or.inl ⟨rfl, rfl⟩) _ heq
    simp only [List.nil_append] at hok
    obtain ⟨h1, h2, _⟩ := hok
    cases hd : old.info.derived with
    | true => simp [hd] at hr; subst hr; exact ⟨h1, h2⟩
    | false =>
    cases hct : c with
    | false => simp [hd, hct] at hr; subst hr; exact ⟨h1, h2⟩
    | true =>
    by_cases hlb0 : lb = 0
    case neg => simp [hd, hlb0] at hr; subst hr; exact ⟨h1, h2⟩
    case pos =>
      simp [hd, hct, hlb0] at hr
      rw [← hlb0] at hr
      rw [hct] at heq
      obtain ⟨hL, hU⟩ := hnat hd
      have hE : old.info.extent = old.info.size := by simp only [Info.extent, hL, hU]; omega
      obtain ⟨g1, g2⟩ := mkContiguous_info size old r lb hd hr
      refine ⟨by rw [g1]; exact h1, ?_⟩
      rw [g2, ← h2]
      rw [hL, hU, hE] at heq
      have := idxLoop_contig 1 old.info.size old.info.size (by omega)
        (fun x => by rw [Int.mul_one, Int.mul_comm]) bs 0 (0, 0, true)
        true (by omega) (Or.inl ⟨rfl, rfl⟩) _ heq rfl
      simp only at this
      omega

/-! ### facts needed to chain the per-constructor theorems along a tree -/

/-- MPI's extent of a placement is not negative when the old extent is not -/
theorem listMin_le_listMax (D : List Int) (L U : Int) (h : L ≤ U) :
    listMin (D.map (· + L)) ≤ listMax (D.map (· + U)) := by
  cases D with
  | nil => simp [listMin, listMax]
  | cons d t =>
    have h1 := (listMin_isMin (((d :: t)).map (· + L)) (by simp)).2 (d + L) (by simp)
    have h2 := (listMax_isMax (((d :: t)).map (· + U)) (by simp)).2 (d + U) (by simp)
    omega

theorem idxLoop_nonneg (scale csize L U e : Int) :
    ∀ (bs : List (Int × Int)) (s : Int) (st : Int × Int × Bool) (c : Bool) r,
      idxLoop scale csize L U e bs s st c = some r → ∀ b ∈ bs, 0 ≤ b.1 := by
  intro bs
  induction bs with
  | nil => intro s st c r _ b hb; simp at hb
  | cons b0 rest ih =>
    intro s st c r hr b hb
    obtain ⟨bl, idx⟩ := b0
    simp only [idxLoop] at hr
    split at hr
    · cases hr
    · simp only [List.mem_cons] at hb
      rcases hb with rfl | hb
      · simp only; omega
      · exact ih _ _ _ _ hr b hb

theorem sum_fst_nonneg : ∀ (bs : List (Int × Int)), (∀ b ∈ bs, 0 ≤ b.1) → 0 ≤ (bs.map (·.1)).sum := by
  intro bs
  induction bs with
  | nil => intro _; simp
  | cons y ys ih =>
    intro h
    simp only [List.map_cons, List.sum_cons]
    have h1 := h y (by simp)
    have h2 := ih (fun x hx => h x (by simp [hx]))
    omega

theorem copies_nil_of_sum_zero (scale e : Int) : ∀ (bs : List (Int × Int)), (∀ b ∈ bs, 0 ≤ b.1) →
    (bs.map (·.1)).sum ≤ 0 → bs.flatMap (fun b => blockCopies (b.2 * scale) b.1 e) = [] := by
  intro bs
  induction bs with
  | nil => intro _ _; rfl
  | cons b rest ih =>
    intro hnn hs
    simp only [List.map_cons, List.sum_cons] at hs
    have hb : 0 ≤ b.1 := hnn b (by simp)
    have hrest : ∀ x ∈ rest, 0 ≤ x.1 := fun x hx => hnn x (by simp [hx])
    have hsum : 0 ≤ (rest.map (·.1)).sum := sum_fst_nonneg rest hrest
    simp only [List.flatMap_cons]
    rw [blockCopies_nil _ _ _ (by omega), ih hrest (by omega)]
    rfl

/-- a non-derived result of `mkContiguous` (count ≤ 0) -/
theorem mkContiguous_plain (count : Int) (old r : Obj) (lb : Int) (hd : old.info.derived = false)
    (h : mkContiguous count old lb = some r) (hr : r.info.derived = false) :
    count ≤ 0 ∧ r.info.size = count * old.info.size := by
  unfold mkContiguous at h
  simp only [hd, Bool.false_eq_true, if_false] at h
  split at h
  · injection h with h; subst h; simp [Obj.info] at hr
  · injection h with h; subst h; simp [Obj.info]; omega

/-- a non-derived result of create_indexed is an empty type with the natural bounds -/
theorem mkIndexed_natural (bs : List (Int × Int)) (old r : Obj) (he : 0 ≤ old.info.extent)
    (hnat : old.info.derived = false → old.info.lb = 0 ∧ old.info.ub = old.info.size)
    (hr : mkIndexed bs old = some r) (hnd : r.info.derived = false) :
    r.info.lb = 0 ∧ r.info.ub = r.info.size ∧ 0 ≤ r.info.size := by
  obtain ⟨b1, b2⟩ := mkIndexed_bounds bs old r he hnat hr
  unfold mkIndexed at hr
  simp only at hr
  split at hr
  · cases hr
  · rename_i size lb ub c heq
    have hsz := (idxLoop_ok old.info.extent 1 old.info.lb old.info.ub old.info.extent he bs 0 (0, 0, true) true []
      (Or.inl ⟨rfl, rfl⟩) _ heq).2.2
    have hnn := idxLoop_nonneg _ _ _ _ _ _ _ _ _ _ heq
    cases hd : old.info.derived with
    | true => simp [hd] at hr; subst hr; simp [Obj.info] at hnd
    | false =>
    cases hct : c with
    | false => simp [hd, hct] at hr; subst hr; simp [Obj.info] at hnd
    | true =>
      simp [hd, hct] at hr
      obtain ⟨g1, g2⟩ := mkContiguous_info size old r lb hd hr
      obtain ⟨p1, p2⟩ := mkContiguous_plain size old r lb hd hr hnd
      simp only at hsz
      have hnil := copies_nil_of_sum_zero old.info.extent old.info.extent bs hnn (by omega)
      rw [hnil] at b1
      simp only [List.map_nil, listMin] at b1
      have hlb : lb = 0 := by rw [← g1]; exact b1
      have hs0 : size = 0 := by
        have : 0 ≤ (bs.map (·.1)).sum := sum_fst_nonneg bs hnn
        omega
      rw [g2, p2, hs0, hlb]
      exact ⟨b1, by simp, by simp⟩

/-- a non-derived result of create_hindexed is an empty type with the natural bounds -/
theorem mkHindexed_natural (bs : List (Int × Int)) (old r : Obj) (he : 0 ≤ old.info.extent)
    (hnat : old.info.derived = false → old.info.lb = 0 ∧ old.info.ub = old.info.size)
    (hr : mkHindexed bs old = some r) (hnd : r.info.derived = false) :
    r.info.lb = 0 ∧ r.info.ub = r.info.size ∧ 0 ≤ r.info.size := by
  obtain ⟨b1, b2⟩ := mkHindexed_bounds bs old r he hnat hr
  unfold mkHindexed at hr
  simp only at hr
  split at hr
  · cases hr
  · rename_i size lb ub c heq
    have hsz := (idxLoop_ok 1 old.info.size old.info.lb old.info.ub old.info.extent he bs 0 (0, 0, true) true []
      (Or.inl ⟨rfl, rfl⟩) _ heq).2.2
    have hnn := idxLoop_nonneg _ _ _ _ _ _ _ _ _ _ heq
    cases hd : old.info.derived with
    | true => simp [hd] at hr; subst hr; simp [Obj.info] at hnd
    | false =>
    cases hct : c with
    | false => simp [hd, hct] at hr; subst hr; simp [Obj.info] at hnd
    | true =>
    by_cases hlb0 : lb = 0
    case neg => simp [hd, hlb0] at hr; subst hr; simp [Obj.info] at hnd
    case pos =>
      simp [hd, hct, hlb0] at hr
      rw [← hlb0] at hr
      obtain ⟨g1, g2⟩ := mkContiguous_info size old r lb hd hr
      obtain ⟨p1, p2⟩ := mkContiguous_plain size old r lb hd hr hnd
      simp only at hsz
      have hs0 : size = 0 := by
        have : 0 ≤ (bs.map (·.1)).sum := sum_fst_nonneg bs hnn
        omega
      rw [g2, p2, hs0, g1, hlb0]
      exact ⟨rfl, by simp, by simp⟩

/-! ### create_struct -/

/-- lb / ub of the copies of one member (block length > 0) -/
def memberLb (m : Int × Int × Obj) : Int := m.2.1 + m.2.2.info.lb
def memberUb (m : Int × Int × Obj) : Int := m.2.1 + (m.1 - 1) * m.2.2.info.extent + m.2.2.info.ub
/-- the members that have at least one copy -/
def activeMembers (ms : List (Int × Int × Obj)) : List (Int × Int × Obj) := ms.filter (fun m => decide (m.1 > 0))

/-- struct members have different old types: the state is described by the lists of the members' lower / upper bounds -/
def StOk2 (A B : List Int) (st : Int × Int × Bool) : Prop :=
  (st = (0, 0, true) ∧ A = [] ∧ B = []) ∨ (st.2.2 = false ∧ IsMin A st.1 ∧ IsMax B st.2.1)

theorem blockBounds_ok2 (A B : List Int) (L U e d bl : Int) (hbl : bl > 0) (st : Int × Int × Bool)
    (h : StOk2 A B st) : StOk2 (A ++ [d + L]) (B ++ [d + (bl - 1) * e + U]) (blockBounds d bl L U e st) := by
  have hmin : IsMin [d + L] (d + L) := ⟨by simp, by simp⟩
  have hmax : IsMax [d + (bl - 1) * e + U] (d + (bl - 1) * e + U) := ⟨by simp, by simp⟩
  unfold blockBounds
  simp only [hbl, if_true]
  rcases h with ⟨rfl, rfl, rfl⟩ | ⟨hf, hmn, hmx⟩
  · right
    simp only [List.nil_append, Bool.true_or, if_true]
    exact ⟨trivial, hmin, hmax⟩
  · right
    simp only [hf, Bool.false_or]
    refine ⟨trivial, ?_, ?_⟩
    · have := isMin_append _ _ _ _ hmn hmin
      simpa [decide_eq_true_eq] using this
    · have := isMax_append _ _ _ _ hmx hmax
      simpa [decide_eq_true_eq] using this

theorem stOk2_bounds (A B : List Int) (st : Int × Int × Bool) (h : StOk2 A B st) :
    st.1 = listMin A ∧ st.2.1 = listMax B := by
  rcases h with ⟨rfl, rfl, rfl⟩ | ⟨_, hmn, hmx⟩
  · simp [listMin, listMax]
  · exact ⟨(isMin_unique _ _ hmn).symm, (isMax_unique _ _ hmx).symm⟩

theorem structLoop_ok :
    ∀ (ms : List (Int × Int × Obj)) (s : Int) (st : Int × Int × Bool) (c : Bool) (A B : List Int), StOk2 A B st →
      ∀ r, structLoop ms s st c = some r →
        r.2.1 = listMin (A ++ (activeMembers ms).map memberLb) ∧
        r.2.2.1 = listMax (B ++ (activeMembers ms).map memberUb) := by
  intro ms
  induction ms with
  | nil =>
    intro s st c A B h r hr
    simp only [structLoop, Option.some.injEq] at hr
    subst hr
    have := stOk2_bounds A B st h
    simpa [activeMembers] using this
  | cons m rest ih =>
    intro s st c A B h r hr
    obtain ⟨bl, idx, old⟩ := m
    simp only [structLoop] at hr
    split at hr
    · cases hr
    · by_cases hbl : bl > 0
      · have h' := blockBounds_ok2 A B old.info.lb old.info.ub old.info.extent idx bl hbl st h
        obtain ⟨r1, r2⟩ := ih _ _ _ _ _ h' r hr
        have ha : activeMembers ((bl, idx, old) :: rest) = (bl, idx, old) :: activeMembers rest := by
          simp [activeMembers, List.filter_cons, hbl]
        rw [ha]
        simp only [List.map_cons, memberLb, memberUb]
        simp only [List.append_assoc, List.singleton_append, memberLb, memberUb] at r1 r2
        exact ⟨r1, r2⟩
      · have hst : blockBounds idx bl old.info.lb old.info.ub old.info.extent st = st := by
          unfold blockBounds; simp only [hbl, if_false]
        rw [hst] at hr
        obtain ⟨r1, r2⟩ := ih _ _ _ _ _ h r hr
        have ha : activeMembers ((bl, idx, old) :: rest) = activeMembers rest := by
          simp [activeMembers, List.filter_cons, hbl]
        rw [ha]
        exact ⟨r1, r2⟩

theorem structLoop_size :
    ∀ (ms : List (Int × Int × Obj)) (s : Int) (st : Int × Int × Bool) (c : Bool) r,
      structLoop ms s st c = some r → r.1 = s + (ms.map (fun m => m.1 * m.2.2.info.size)).sum := by
  intro ms
  induction ms with
  | nil => intro s st c r hr; simp only [structLoop, Option.some.injEq] at hr; subst hr; simp
  | cons m rest ih =>
    intro s st c r hr
    obtain ⟨bl, idx, old⟩ := m
    simp only [structLoop] at hr
    split at hr
    · cases hr
    · have := ih _ _ _ _ hr
      simp only [List.map_cons, List.sum_cons]
      omega

/-- the contiguity flag only goes down (and staying up needs a non-derived member that chains with the next one) -/
theorem structLoop_flag :
    ∀ (ms : List (Int × Int × Obj)) (s : Int) (st : Int × Int × Bool) (c : Bool) r,
      structLoop ms s st c = some r → r.2.2.2 = true → c = true := by
  intro ms
  induction ms with
  | nil => intro s st c r hr hc; simp only [structLoop, Option.some.injEq] at hr; subst hr; exact hc
  | cons m rest ih =>
    intro s st c r hr hc
    obtain ⟨bl, idx, old⟩ := m
    simp only [structLoop] at hr
    split at hr
    · cases hr
    · have := ih _ _ _ _ hr hc
      simp only [Bool.and_eq_true] at this
      exact this.1.1

/-- create_struct over members that all have the natural bounds (every non-derived type): when the loop ends with
    `contiguous` still set, the members form one run of `size` bytes: ub = lb + size -/
theorem structLoop_contig :
    ∀ (ms : List (Int × Int × Obj)) (s : Int) (st : Int × Int × Bool) (c : Bool), 0 ≤ s →
      (∀ m ∈ ms, m.2.2.info.derived = false →
        m.2.2.info.lb = 0 ∧ m.2.2.info.ub = m.2.2.info.size ∧ 0 ≤ m.2.2.info.size) →
      ((st = (0, 0, true) ∧ s = 0) ∨
       (st.2.2 = false ∧ st.2.1 = st.1 + s ∧ ∀ b ∈ ms.head?, b.2.1 = st.2.1)) →
      ∀ r, structLoop ms s st c = some r → r.2.2.2 = true → r.2.2.1 = r.2.1 + r.1 := by
  intro ms
  induction ms with
  | nil =>
    intro s st c _ _ hst r hr _
    simp only [structLoop, Option.some.injEq] at hr
    subst hr
    rcases hst with ⟨rfl, rfl⟩ | ⟨_, h, _⟩
    · simp
    · exact h
  | cons m rest ih =>
    intro s st c hs hnat hst r hr hfin
    obtain ⟨bl, idx, old⟩ := m
    simp only [structLoop] at hr
    split at hr
    · cases hr
    · rename_i hbl
      have hflag := structLoop_flag _ _ _ _ _ hr hfin
      simp only [Bool.and_eq_true, Bool.not_eq_true'] at hflag
      obtain ⟨⟨_, hd⟩, hchain⟩ := hflag
      obtain ⟨hL, hU, hsz⟩ := hnat (bl, idx, old) (by simp) hd
      have hE : old.info.extent = old.info.size := by simp only [Info.extent, hL, hU]; omega
      rw [hL, hU, hE] at hr
      have hbs : 0 ≤ bl * old.info.size := Int.mul_nonneg (by omega) hsz
      have h1 : (bl - 1) * old.info.size = bl * old.info.size - old.info.size := by rw [Int.sub_mul, Int.one_mul]
      have h3 : old.info.size * bl = bl * old.info.size := Int.mul_comm _ _
      have hnext : ∀ b ∈ rest.head?, b.2.1 = idx + bl * old.info.size := by
        intro b hb
        cases rest with
        | nil => simp at hb
        | cons b' r' =>
          simp only [List.head?_cons, Option.mem_def, Option.some.injEq] at hb
          subst hb
          simp only [List.head?_cons, Option.map_some, chainOk, beq_iff_eq] at hchain
          rw [← hchain, h3]
      refine ih (s + bl * old.info.size) _ _ (by omega) (fun m hm => hnat m (by simp [hm])) ?_ r hr hfin
      by_cases hpos : bl > 0
      · right
        unfold blockBounds
        simp only [hpos, if_true]
        rcases hst with ⟨rfl, rfl⟩ | ⟨hf, hub, hhead⟩
        · simp only [Bool.true_or, if_true]
          refine ⟨trivial, by omega, ?_⟩
          intro b hb
          rw [hnext b hb]; omega
        · have hidx : idx = st.2.1 := hhead (bl, idx, old) (by simp)
          simp only [hf, Bool.false_or, decide_eq_true_eq]
          have hnl : ¬ (idx + 0 < st.1) := by omega
          simp only [hnl, if_false]
          refine ⟨trivial, ?_, ?_⟩
          · split <;> omega
          · intro b hb
            rw [hnext b hb]
            split <;> omega
      · have hz : bl = 0 := by omega
        subst hz
        unfold blockBounds
        simp only [Int.lt_irrefl, gt_iff_lt, if_false]
        rcases hst with ⟨rfl, rfl⟩ | ⟨hf, hub, hhead⟩
        · left; exact ⟨rfl, by omega⟩
        · right
          have hidx : idx = st.2.1 := hhead (0, idx, old) (by simp)
          refine ⟨hf, by omega, ?_⟩
          intro b hb
          rw [hnext b hb]; omega

/-- `Datatype::create_struct` -/
theorem mkStruct_bounds (ms : List (Int × Int × Obj)) (r : Obj)
    (hnat : ∀ m ∈ ms, m.2.2.info.derived = false →
      m.2.2.info.lb = 0 ∧ m.2.2.info.ub = m.2.2.info.size ∧ 0 ≤ m.2.2.info.size)
    (hr : mkStruct ms = some r) :
    r.info.lb = listMin ((activeMembers ms).map memberLb) ∧ r.info.ub = listMax ((activeMembers ms).map memberUb) := by
  unfold mkStruct at hr
  split at hr
  · cases hr
  · rename_i size lb ub c heq
    have hok := structLoop_ok ms 0 (0, 0, true) true [] [] (Or.inl ⟨rfl, rfl, rfl⟩) _ heq
    simp only [List.nil_append] at hok
    obtain ⟨h1, h2⟩ := hok
    cases hct : c with
    | false => simp [hct] at hr; subst hr; exact ⟨h1, h2⟩
    | true =>
      simp [hct] at hr
      rw [hct] at heq
      have hb : (basicObj 1).info.derived = false := rfl
      obtain ⟨g1, g2⟩ := mkContiguous_info size (basicObj 1) r lb hb hr
      refine ⟨by rw [g1]; exact h1, ?_⟩
      rw [g2, ← h2]
      have := structLoop_contig ms 0 (0, 0, true) true (by omega) hnat (Or.inl ⟨rfl, rfl⟩) _ heq rfl
      simp only at this
      have hs1 : (basicObj 1).info.size = 1 := rfl
      rw [hs1]
      omega

/-- what `buildMembers` returns, member by member, satisfies the spec: lb, ub are MPI's and the extent is not negative -/
def MembersOk : Members → List (Int × Int × Obj) → Prop
  | .nil, ms => ms = []
  | .cons bl d t rest, ms => ∃ o ms', ms = (bl, d, o) :: ms' ∧ o.info.lb = (Spec.layout t).lb ∧
      o.info.ub = (Spec.layout t).ub ∧ 0 ≤ (Spec.layout t).extent ∧ MembersOk rest ms'

/-- MPI's per-member bounds (`Spec.layoutMembers`, members with at least one copy) are the ones the loop collects -/
theorem spec_members : (m : Members) → (ms : List (Int × Int × Obj)) → MembersOk m ms →
    ((Spec.layoutMembers m).filter (·.2)).map (·.1.lb) = (activeMembers ms).map memberLb ∧
    ((Spec.layoutMembers m).filter (·.2)).map (·.1.ub) = (activeMembers ms).map memberUb
  | .nil, ms, h => by
    simp only [MembersOk] at h
    subst h
    simp [Spec.layoutMembers, activeMembers]
  | .cons bl d t rest, ms, h => by
    simp only [MembersOk] at h
    obtain ⟨o, ms', rfl, hlb, hub, hext, hrest⟩ := h
    obtain ⟨i1, i2⟩ := spec_members rest ms' hrest
    have hE : o.info.extent = (Spec.layout t).extent := by simp only [Info.extent, Spec.Layout.extent, hlb, hub]
    by_cases hbl : bl > 0
    · have ha : activeMembers ((bl, d, o) :: ms') = (bl, d, o) :: activeMembers ms' := by
        simp [activeMembers, List.filter_cons, hbl]
      have hmin := isMin_unique _ _ (block_isMin d bl (Spec.layout t).extent (Spec.layout t).lb hbl hext)
      have hmax := isMax_unique _ _ (block_isMax d bl (Spec.layout t).extent (Spec.layout t).ub hbl hext)
      simp only [blockCopies] at hmin hmax
      rw [ha]
      simp only [Spec.layoutMembers, hbl, decide_true, List.filter_cons, if_true, List.map_cons, Spec.place,
        memberLb, memberUb, hmin, hmax, hE, hlb, hub, i1, i2]
      exact ⟨trivial, trivial⟩
    · have ha : activeMembers ((bl, d, o) :: ms') = activeMembers ms' := by
        simp [activeMembers, List.filter_cons, hbl]
      rw [ha]
      simp only [Spec.layoutMembers, hbl, decide_false, List.filter_cons, Bool.false_eq_true, if_false, i1, i2]
      exact ⟨trivial, trivial⟩

end SgVerif.C30
