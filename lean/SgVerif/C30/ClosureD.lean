import SgVerif.C30.ClosureC
/-
C30 — `Rel1` is preserved by create_struct.
-/
set_option linter.unusedSimpArgs false
set_option linter.unusedVariables false
set_option linter.unnecessarySeqFocus false
namespace SgVerif.C30
open Spec

/-- MPI's struct layout from the placed members (`Spec.layout (.struct m)`) -/
def structL (parts : List (Layout × Bool)) : Layout :=
  ⟨parts.flatMap (·.1.bytes), listMin ((parts.filter (·.2)).map (·.1.lb)), listMax ((parts.filter (·.2)).map (·.1.ub))⟩

theorem layout_struct (m : Members) : layout (.struct m) = structL (layoutMembers m) := by
  simp only [layout, structL]

/-- what `buildMembers` returns, member by member, satisfies the spec, and a member with copies is not an empty type -/
def MembersRel : Members → List (Int × Int × Obj) → Prop
  | .nil, ms => ms = []
  | .cons bl d t rest, ms => ∃ o ms', ms = (bl, d, o) :: ms' ∧ Rel1 o (layout t) ∧ (bl > 0 → 0 < o.info.size) ∧
      MembersRel rest ms'

theorem membersRel_ok : (m : Members) → (ms : List (Int × Int × Obj)) → MembersRel m ms → MembersOk m ms
  | .nil, ms, h => by simpa [MembersRel, MembersOk] using h
  | .cons bl d t rest, ms, h => by
    simp only [MembersRel] at h
    obtain ⟨o, ms', rfl, hrel, _, hrest⟩ := h
    simp only [MembersOk]
    exact ⟨o, ms', rfl, hrel.lb, hrel.ub, hrel.ext_nonneg, membersRel_ok rest ms' hrest⟩

/-- the object-level facts about the members -/
def MemFacts (ms : List (Int × Int × Obj)) : Prop :=
  ∀ x ∈ ms, (x.2.2.info.derived = false → x.2.2.info.lb = 0 ∧ x.2.2.info.ub = x.2.2.info.size ∧ 0 ≤ x.2.2.info.size) ∧
    0 ≤ x.2.2.info.size ∧ x.2.2.info.lb ≤ x.2.2.info.ub ∧ (x.1 > 0 → 0 < x.2.2.info.size)

theorem membersRel_facts : (m : Members) → (ms : List (Int × Int × Obj)) → MembersRel m ms → MemFacts ms
  | .nil, ms, h => by
    simp only [MembersRel] at h; subst h; intro x hx; simp at hx
  | .cons bl d t rest, ms, h => by
    simp only [MembersRel] at h
    obtain ⟨o, ms', rfl, hrel, hpos, hrest⟩ := h
    intro x hx
    simp only [List.mem_cons] at hx
    rcases hx with rfl | hx
    · refine ⟨fun hd => ⟨(hrel.natural hd).1, (hrel.natural hd).2.1, hrel.size_nonneg⟩, hrel.size_nonneg, ?_, hpos⟩
      simp only; rw [hrel.lb, hrel.ub]; exact hrel.le
    · exact membersRel_facts rest ms' hrest x hx

theorem structLoop_nonneg :
    ∀ (ms : List (Int × Int × Obj)) (s : Int) (st : Int × Int × Bool) (c : Bool) r,
      structLoop ms s st c = some r → ∀ x ∈ ms, 0 ≤ x.1 := by
  intro ms
  induction ms with
  | nil => intro s st c r _ x hx; simp at hx
  | cons m rest ih =>
    intro s st c r hr x hx
    obtain ⟨bl, idx, old⟩ := m
    simp only [structLoop] at hr
    split at hr
    · cases hr
    · simp only [List.mem_cons] at hx
      rcases hx with rfl | hx
      · simp only; omega
      · exact ih _ _ _ _ hr x hx

/-- total size the loop accumulates -/
def membersSize (ms : List (Int × Int × Obj)) : Int := (ms.map (fun m => m.1 * m.2.2.info.size)).sum

theorem mkStruct_size (ms : List (Int × Int × Obj)) (r : Obj) (hr : mkStruct ms = some r) :
    r.info.size = membersSize ms ∧ (∀ x ∈ ms, 0 ≤ x.1) ∧ (r.info.derived = false → membersSize ms ≤ 0) := by
  unfold mkStruct at hr
  split at hr
  · cases hr
  · rename_i size lb ub c heq
    have hsz := structLoop_size _ _ _ _ _ heq
    have hnn := structLoop_nonneg _ _ _ _ _ heq
    simp only [Int.zero_add] at hsz
    split at hr
    · injection hr with hr; subst hr
      exact ⟨by simp [hsz, membersSize], hnn, fun h => by simp at h⟩
    · obtain ⟨a, b⟩ := mkContiguous_size' _ _ _ _ hr
      have h1 : (basicObj 1).info.size = 1 := rfl
      rw [h1, Int.mul_one] at a
      exact ⟨by rw [a, hsz]; rfl, hnn, fun h => by have := b h; simp only [membersSize]; omega⟩

theorem membersSize_nonneg : ∀ (ms : List (Int × Int × Obj)), MemFacts ms → (∀ x ∈ ms, 0 ≤ x.1) → 0 ≤ membersSize ms := by
  intro ms
  induction ms with
  | nil => intro _ _; simp [membersSize]
  | cons x rest ih =>
    intro hf hn
    have h1 := (hf x (by simp)).2.1
    have h2 := hn x (by simp)
    have h3 := ih (fun y hy => hf y (by simp [hy])) (fun y hy => hn y (by simp [hy]))
    have := Int.mul_nonneg h2 h1
    simp only [membersSize, List.map_cons, List.sum_cons] at h3 ⊢
    omega

/-- a struct of total size 0 whose members with copies are not empty has no member with copies -/
theorem active_nil_of_size_zero : ∀ (ms : List (Int × Int × Obj)), MemFacts ms → (∀ x ∈ ms, 0 ≤ x.1) →
    membersSize ms ≤ 0 → activeMembers ms = [] := by
  intro ms
  induction ms with
  | nil => intro _ _ _; rfl
  | cons x rest ih =>
    intro hf hn hs
    have hfr : MemFacts rest := fun y hy => hf y (by simp [hy])
    have hnr : ∀ y ∈ rest, 0 ≤ y.1 := fun y hy => hn y (by simp [hy])
    have h1 := (hf x (by simp)).2.1
    have h2 := hn x (by simp)
    have h3 := membersSize_nonneg rest hfr hnr
    have h4 := Int.mul_nonneg h2 h1
    simp only [membersSize, List.map_cons, List.sum_cons] at h3 hs
    have hx : ¬ x.1 > 0 := by
      intro hpos
      have := (hf x (by simp)).2.2.2 hpos
      have : 0 < x.1 * x.2.2.info.size := Int.mul_pos hpos this
      omega
    have hrest := ih hfr hnr (by simp only [membersSize]; omega)
    simp only [activeMembers, List.filter_cons, hx, decide_false, Bool.false_eq_true, if_false] at hrest ⊢
    exact hrest

theorem active_le : ∀ (A : List (Int × Int × Obj)), (∀ x ∈ A, memberLb x ≤ memberUb x) →
    listMin (A.map memberLb) ≤ listMax (A.map memberUb) := by
  intro A h
  cases A with
  | nil => simp [listMin, listMax]
  | cons a t =>
    have h1 := (listMin_isMin ((a :: t).map memberLb) (by simp)).2 (memberLb a) (by simp)
    have h2 := (listMax_isMax ((a :: t).map memberUb) (by simp)).2 (memberUb a) (by simp)
    have := h a (by simp)
    omega

/-- MPI's size of a struct = what the loop accumulates -/
theorem structL_size : (m : Members) → (ms : List (Int × Int × Obj)) → MembersRel m ms → (∀ x ∈ ms, 0 ≤ x.1) →
    (structL (layoutMembers m)).size = membersSize ms
  | .nil, ms, h, _ => by
    simp only [MembersRel] at h; subst h; simp [structL, layoutMembers, membersSize, Layout.size]
  | .cons bl d t rest, ms, h, hn => by
    simp only [MembersRel] at h
    obtain ⟨o, ms', rfl, hrel, _, hrest⟩ := h
    have ih := structL_size rest ms' hrest (fun y hy => hn y (by simp [hy]))
    have hbl : 0 ≤ bl := hn (bl, d, o) (by simp)
    have hp := place_size ((Spec.range bl).map (fun j => d + j * (layout t).extent)) (layout t)
    simp only [structL, Layout.size, layoutMembers, List.flatMap_cons, List.length_append, membersSize, List.map_cons,
      List.sum_cons] at ih hp ⊢
    push_cast
    rw [ih, hp, List.length_map, range_length, if_pos hbl, hrel.size]
    simp only [Layout.size]

/-- `Datatype::create_struct` (any member list whose members satisfy the spec) -/
theorem mkStruct_rel (m : Members) (ms : List (Int × Int × Obj)) (r : Obj) (hm : MembersRel m ms)
    (hr : mkStruct ms = some r) : Rel1 r (structL (layoutMembers m)) := by
  have hf := membersRel_facts m ms hm
  have hnat : ∀ x ∈ ms, x.2.2.info.derived = false →
      x.2.2.info.lb = 0 ∧ x.2.2.info.ub = x.2.2.info.size ∧ 0 ≤ x.2.2.info.size := fun x hx => (hf x hx).1
  obtain ⟨b1, b2⟩ := mkStruct_bounds ms r hnat hr
  obtain ⟨p1, p2⟩ := spec_members m ms (membersRel_ok m ms hm)
  obtain ⟨s1, s2, s3⟩ := mkStruct_size ms r hr
  have hsz := structL_size m ms hm s2
  have hlb : r.info.lb = (structL (layoutMembers m)).lb := by rw [b1]; simp only [structL, p1]
  have hub : r.info.ub = (structL (layoutMembers m)).ub := by rw [b2]; simp only [structL, p2]
  refine ⟨hlb, hub, ?_, by rw [s1, hsz], ?_⟩
  · rw [← hlb, ← hub, b1, b2]
    apply active_le
    intro x hx
    have hxm : x ∈ ms := (List.mem_filter.mp hx).1
    have hxp : x.1 > 0 := by simpa using (List.mem_filter.mp hx).2
    obtain ⟨_, _, hle, _⟩ := hf x hxm
    have : 0 ≤ (x.1 - 1) * x.2.2.info.extent := Int.mul_nonneg (by omega) (by simp only [Info.extent]; omega)
    simp only [memberLb, memberUb]; omega
  · intro hd
    have hle := s3 hd
    have hact := active_nil_of_size_zero ms hf s2 hle
    have hz : r.info.size = 0 := by have := membersSize_nonneg ms hf s2; omega
    refine ⟨?_, ?_, nat_of_empty _ _ (by rw [s1, hsz]) hz⟩
    · rw [← hlb, b1, hact]; rfl
    · rw [← hub, b2, hact, hz]; rfl

end SgVerif.C30
