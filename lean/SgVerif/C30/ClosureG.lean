import SgVerif.C30.ClosureF
/-
C30 — `size_eq_spec` by induction over ALL constructor trees (no hypothesis on the arguments).
-/
set_option linter.unusedSimpArgs false
set_option linter.unusedVariables false
set_option linter.unnecessarySeqFocus false
namespace SgVerif.C30
open Spec

def MembersSz : Members → List (Int × Int × Obj) → Prop
  | .nil, ms => ms = []
  | .cons bl d t rest, ms => ∃ o ms', ms = (bl, d, o) :: ms' ∧ o.info.size = (layout t).size ∧ MembersSz rest ms'

theorem structL_size' : (m : Members) → (ms : List (Int × Int × Obj)) → MembersSz m ms → (∀ x ∈ ms, 0 ≤ x.1) →
    (structL (layoutMembers m)).size = membersSize ms
  | .nil, ms, h, _ => by
    simp only [MembersSz] at h; subst h; simp [structL, layoutMembers, membersSize, Layout.size]
  | .cons bl d t rest, ms, h, hn => by
    simp only [MembersSz] at h
    obtain ⟨o, ms', rfl, hrel, hrest⟩ := h
    have ih := structL_size' rest ms' hrest (fun y hy => hn y (by simp [hy]))
    have hbl : 0 ≤ bl := hn (bl, d, o) (by simp)
    have hp := place_size ((Spec.range bl).map (fun j => d + j * (layout t).extent)) (layout t)
    simp only [structL, Layout.size, layoutMembers, List.flatMap_cons, List.length_append, membersSize, List.map_cons,
      List.sum_cons] at ih hp ⊢
    push_cast
    rw [ih, hp, List.length_map, range_length, if_pos hbl, hrel]
    simp only [Layout.size]

mutual
theorem size_tree : (t : Tree) → (o : Obj) → build t = some o → o.info.size = (layout t).size
  | .basic s, o, h => by
    simp only [build, Option.some.injEq] at h; subst h; exact (basic_rel s).size
  | .contiguous n t, o, h => by
    simp only [build] at h
    split at h
    · cases h
    · obtain ⟨o', h1, h2⟩ := bind_some _ _ _ h
      have ih := size_tree t o' h1
      obtain ⟨a, _⟩ := mkContiguous_size' _ _ _ _ h2
      simp only [layout, dsContig_eq]
      rw [a, place_size, dsHv_length _ _ _ _ (by omega) (by omega), ih]; ring
  | .vector n bl st t, o, h => by
    simp only [build] at h
    split at h
    · cases h
    · obtain ⟨o', h1, h2⟩ := bind_some _ _ _ h
      have ih := size_tree t o' h1
      obtain ⟨a, b, _⟩ := mkVector_size _ _ _ _ _ h2
      simp only [layout, dsVec_eq]
      rw [a, place_size, dsHv_length _ _ _ _ (by omega) b, ih]; ring
  | .hvector n bl st t, o, h => by
    simp only [build] at h
    split at h
    · cases h
    · obtain ⟨o', h1, h2⟩ := bind_some _ _ _ h
      have ih := size_tree t o' h1
      obtain ⟨a, b, _⟩ := mkHvector_size _ _ _ _ _ h2
      have e : layout (.hvector n bl st t) = place (dsHv n bl st (layout t).extent) (layout t) := by simp only [layout, dsHv]
      rw [e, a, place_size, dsHv_length _ _ _ _ (by omega) b, ih]; ring
  | .indexed bs t, o, h => by
    simp only [build] at h
    obtain ⟨o', h1, h2⟩ := bind_some _ _ _ h
    have ih := size_tree t o' h1
    obtain ⟨a, b, _⟩ := mkIndexed_size _ _ _ h2
    simp only [layout, dsIdx_indexed]
    rw [a, place_size, dsIdx_length _ _ _ b, ih]
  | .hindexed bs t, o, h => by
    simp only [build] at h
    obtain ⟨o', h1, h2⟩ := bind_some _ _ _ h
    have ih := size_tree t o' h1
    obtain ⟨a, b, _⟩ := mkHindexed_size _ _ _ h2
    simp only [layout, dsIdx_hindexed]
    rw [a, place_size, dsIdx_length _ _ _ b, ih]
  | .indexedBlock bl ds t, o, h => by
    simp only [build] at h
    obtain ⟨o', h1, h2⟩ := bind_some _ _ _ h
    have ih := size_tree t o' h1
    obtain ⟨a, b, _⟩ := mkIndexed_size _ _ _ h2
    rw [layout_indexedBlock]
    simp only [layout, dsIdx_indexed]
    rw [a, place_size, dsIdx_length _ _ _ b, ih]
  | .hindexedBlock bl ds t, o, h => by
    simp only [build] at h
    obtain ⟨o', h1, h2⟩ := bind_some _ _ _ h
    have ih := size_tree t o' h1
    obtain ⟨a, b, _⟩ := mkHindexed_size _ _ _ h2
    rw [layout_hindexedBlock]
    simp only [layout, dsIdx_hindexed]
    rw [a, place_size, dsIdx_length _ _ _ b, ih]
  | .struct m, o, h => by
    simp only [build] at h
    obtain ⟨ms, h1, h2⟩ := bind_some _ _ _ h
    have ih := size_members m ms h1
    obtain ⟨a, b, _⟩ := mkStruct_size ms o h2
    rw [layout_struct, a, structL_size' m ms ih b]
  | .resized lb ext t, o, h => by
    cases hb : build t with
    | none => simp [build, hb] at h
    | some o' =>
      simp only [build, hb, Option.map_some, Option.some.injEq] at h
      subst h
      have ih := size_tree t o' hb
      simp only [layout, mkResized, info_struct, Layout.size] at ih ⊢
      exact ih
  | .subarray dims c t, o, h => by
    simp only [build] at h
    obtain ⟨o', h1, h2⟩ := bind_some _ _ _ h
    have ih := size_tree t o' h1
    obtain ⟨hchk, hh, e1, e2⟩ := mkSubarray_out dims c o' o h2
    rw [layout_subarray, subL_size dims c _ (fun d hd => (hchk d hd).2.1), e1]
    simp only [mkResized, info_struct]
    rw [e2, ih]; ring
  | .dup t, o, h => by
    cases hb : build t with
    | none => simp [build, hb] at h
    | some o' =>
      simp only [build, hb, Option.map_some, Option.some.injEq] at h
      subst h
      have ih := size_tree t o' hb
      simp only [layout, cloneObj_info_eq]
      exact ih
theorem size_members : (m : Members) → (ms : List (Int × Int × Obj)) → buildMembers m = some ms → MembersSz m ms
  | .nil, ms, h => by
    simp only [buildMembers, Option.some.injEq] at h; subst h; simp [MembersSz]
  | .cons bl d t rest, ms, h => by
    simp only [buildMembers] at h
    split at h
    · rename_i o r ho hr
      injection h with h
      simp only [MembersSz]
      exact ⟨o, r, h.symm, size_tree t o ho, size_members rest r hr⟩
    · cases h
end

end SgVerif.C30
