import SgVerif.C30.WalkC
/-
C30 — walk = typemap for create_struct (Type_Struct object and the MPI_CHAR contiguous shortcut), one-dimensional
create_subarray, MPI_Type_dup.
-/
set_option linter.unusedSimpArgs false
set_option linter.unusedVariables false
set_option linter.unnecessarySeqFocus false
namespace SgVerif.C30
open Spec

/-- member by member: the object satisfies the spec and its walk is the typemap -/
def MembersW : Members → List (Int × Int × Obj) → Prop
  | .nil, ms => ms = []
  | .cons bl d t rest, ms => ∃ o ms', ms = (bl, d, o) :: ms' ∧ Rel1 o (layout t) ∧ W o (layout t) ∧ MembersW rest ms'

theorem ofList_cons (bl d : Int) (o : Obj) (ms : List (Int × Int × Obj)) :
    Blocks.ofList ((bl, d, o) :: ms) = .cons bl d o (Blocks.ofList ms) := rfl

theorem member_bytes (l : Layout) (bl d : Int) :
    (place ((Spec.range bl).map (fun j => d + j * l.extent)) l).bytes = (bytesOf l bl).map (· + d) := by
  have := blockCopies_bytes l d bl
  simp only [blockCopies] at this
  simp only [place]; exact this

theorem struct_blocks : (m : Members) → (ms : List (Int × Int × Obj)) → MembersW m ms → ∀ elem : Int,
    walkBlocks (Blocks.ofList ms) elem = ((layoutMembers m).flatMap (·.1.bytes)).map (· + elem)
  | .nil, ms, h, elem => by
    simp only [MembersW] at h; subst h
    simp [Blocks.ofList, walkBlocks_nil, layoutMembers]
  | .cons bl d t rest, ms, h, elem => by
    simp only [MembersW] at h
    obtain ⟨o, ms', rfl, hrel, hw, hrest⟩ := h
    have ih := struct_blocks rest ms' hrest elem
    rw [ofList_cons, walkBlocks_cons, ih, blockB_eq hrel hw]
    simp only [layoutMembers, List.flatMap_cons, List.map_append, member_bytes, List.map_map]
    congr 1
    apply List.map_congr_left
    intro x _
    simp only [Function.comp]; omega

theorem struct_obj_W (i : Info) (m : Members) (ms : List (Int × Int × Obj)) (hw : MembersW m ms)
    (hrel : Rel1 (.struct i (Blocks.ofList ms)) (structL (layoutMembers m))) :
    W (.struct i (Blocks.ofList ms)) (structL (layoutMembers m)) := by
  intro cnt base
  rw [walk_struct, bytesOf_simple, ← hrel.ext]
  simp only [info_struct]
  congr 1; funext j
  rw [struct_blocks m ms hw]
  rfl

/-- when `contiguous` survives the loop of create_struct, no member is derived -/
theorem structLoop_nd :
    ∀ (ms : List (Int × Int × Obj)) (s : Int) (st : Int × Int × Bool) (c : Bool) r,
      structLoop ms s st c = some r → r.2.2.2 = true → ∀ x ∈ ms, x.2.2.info.derived = false := by
  intro ms
  induction ms with
  | nil => intro s st c r _ _ x hx; simp at hx
  | cons m rest ih =>
    intro s st c r hr hc x hx
    obtain ⟨bl, idx, old⟩ := m
    simp only [structLoop] at hr
    split at hr
    · cases hr
    · have hflag := structLoop_flag _ _ _ _ _ hr hc
      simp only [Bool.and_eq_true, Bool.not_eq_true'] at hflag
      simp only [List.mem_cons] at hx
      rcases hx with rfl | hx
      · exact hflag.1.2
      · exact ih _ _ _ _ hr hc x hx

/-- MPI's typemap of a struct of non-derived members, as segments -/
theorem struct_segs : (m : Members) → (ms : List (Int × Int × Obj)) → MembersRel m ms →
    (∀ x ∈ ms, x.2.2.info.derived = false) →
    (layoutMembers m).flatMap (·.1.bytes) = ms.flatMap (fun x => seg x.2.1 (x.1 * x.2.2.info.size))
  | .nil, ms, h, _ => by
    simp only [MembersRel] at h; subst h; simp [layoutMembers]
  | .cons bl d t rest, ms, h, hnd => by
    simp only [MembersRel] at h
    obtain ⟨o, ms', rfl, hrel, _, hrest⟩ := h
    have ih := struct_segs rest ms' hrest (fun x hx => hnd x (by simp [hx]))
    have hd := hnd (bl, d, o) (by simp)
    simp only [layoutMembers, List.flatMap_cons, member_bytes, ih]
    rw [block_seg hrel hd]

/-- create_struct over members with the natural bounds: when the loop ends with `contiguous` still set, the bytes of
    the members form one run from lb -/
theorem structLoop_run :
    ∀ (ms : List (Int × Int × Obj)) (s : Int) (st : Int × Int × Bool) (c : Bool) (acc : List Int), 0 ≤ s →
      (∀ m ∈ ms, m.2.2.info.derived = false →
        m.2.2.info.lb = 0 ∧ m.2.2.info.ub = m.2.2.info.size ∧ 0 ≤ m.2.2.info.size) →
      ((st = (0, 0, true) ∧ s = 0) ∨
       (st.2.2 = false ∧ st.2.1 = st.1 + s ∧ ∀ b ∈ ms.head?, b.2.1 = st.2.1)) →
      acc = seg st.1 s →
      ∀ r, structLoop ms s st c = some r → r.2.2.2 = true →
        acc ++ ms.flatMap (fun x => seg x.2.1 (x.1 * x.2.2.info.size)) = seg r.2.1 r.1 := by
  intro ms
  induction ms with
  | nil =>
    intro s st c acc _ _ hst hacc r hr _
    simp only [structLoop, Option.some.injEq] at hr
    subst hr
    simpa using hacc
  | cons m rest ih =>
    intro s st c acc hs hnat hst hacc r hr hfin
    obtain ⟨bl, idx, old⟩ := m
    simp only [structLoop] at hr
    split at hr
    · cases hr
    · rename_i hbl
      have hflag := structLoop_flag _ _ _ _ _ hr hfin
      simp only [Bool.and_eq_true, Bool.not_eq_true'] at hflag
      obtain ⟨⟨_, hd⟩, hchain⟩ := hflag
      obtain ⟨hL, hU, hsz⟩ := hnat (bl, idx, old) (by simp) hd
      have hE : old.info.extent = old.info.size := by simp only [Info.extent, hL, hU]; omega
      rw [hL, hU, hE] at hr
      have hbs : 0 ≤ bl * old.info.size := Int.mul_nonneg (by omega) hsz
      have h1 : (bl - 1) * old.info.size = bl * old.info.size - old.info.size := by rw [Int.sub_mul, Int.one_mul]
      have h3 : old.info.size * bl = bl * old.info.size := Int.mul_comm _ _
      have hnext : ∀ b ∈ rest.head?, b.2.1 = idx + bl * old.info.size := by
        intro b hb
        cases rest with
        | nil => simp at hb
        | cons b' r' =>
          simp only [List.head?_cons, Option.mem_def, Option.some.injEq] at hb
          subst hb
          simp only [List.head?_cons, Option.map_some, chainOk, beq_iff_eq] at hchain
          rw [← hchain, h3]
      simp only [List.flatMap_cons, ← List.append_assoc]
      refine ih (s + bl * old.info.size) _ _ _ (by omega) (fun m hm => hnat m (by simp [hm])) ?_ ?_ r hr hfin
      · by_cases hpos : bl > 0
        · right
          unfold blockBounds
          simp only [hpos, if_true]
          rcases hst with ⟨rfl, rfl⟩ | ⟨hf, hub, hhead⟩
          · simp only [Bool.true_or, if_true]
            refine ⟨trivial, by omega, ?_⟩
            intro b hb
            rw [hnext b hb]; omega
          · have hidx : idx = st.2.1 := hhead (bl, idx, old) (by simp)
            simp only [hf, Bool.false_or, decide_eq_true_eq]
            have hnl : ¬ (idx + 0 < st.1) := by omega
            simp only [hnl, if_false]
            refine ⟨trivial, ?_, ?_⟩
            · split <;> omega
            · intro b hb
              rw [hnext b hb]
              split <;> omega
        · have hz : bl = 0 := by omega
          subst hz
          unfold blockBounds
          simp only [Int.lt_irrefl, gt_iff_lt, if_false]
          rcases hst with ⟨rfl, rfl⟩ | ⟨hf, hub, hhead⟩
          · left; exact ⟨rfl, by omega⟩
          · right
            have hidx : idx = st.2.1 := hhead (0, idx, old) (by simp)
            refine ⟨hf, by omega, ?_⟩
            intro b hb
            rw [hnext b hb]; omega
      · by_cases hpos : bl > 0
        · unfold blockBounds
          simp only [hpos, if_true]
          rcases hst with ⟨rfl, rfl⟩ | ⟨hf, hub, hhead⟩
          · simp only [Bool.true_or, if_true] at hacc ⊢
            rw [hacc, seg_nil _ _ (by omega), List.nil_append]
            congr 1 <;> ring
          · have hidx : idx = st.2.1 := hhead (bl, idx, old) (by simp)
            simp only [hf, Bool.false_or, decide_eq_true_eq]
            have hnl : ¬ (idx + 0 < st.1) := by omega
            simp only [hnl, if_false]
            rw [hacc, ← seg_append st.1 s (bl * old.info.size) hs hbs, hidx, hub]
        · have hz : bl = 0 := by omega
          subst hz
          unfold blockBounds
          simp only [Int.lt_irrefl, gt_iff_lt, if_false]
          rw [hacc, seg_nil _ (0 * old.info.size) (by omega), List.append_nil]
          congr 1; ring

/-- `Datatype::create_struct` -/
theorem mkStruct_walk (m : Members) (ms : List (Int × Int × Obj)) (r : Obj) (hm : MembersRel m ms) (hw : MembersW m ms)
    (hr : mkStruct ms = some r) : W r (structL (layoutMembers m)) := by
  have hrel := mkStruct_rel m ms r hm hr
  have hf := membersRel_facts m ms hm
  unfold mkStruct at hr
  split at hr
  · cases hr
  · rename_i size lb ub c heq
    cases hc : c with
    | false =>
      simp only [hc, Bool.not_false, if_true] at hr
      injection hr with hr; subst hr
      exact struct_obj_W _ m ms hw hrel
    | true =>
      simp only [hc, Bool.not_true, Bool.false_eq_true, if_false] at hr
      have hb : (basicObj 1).info.derived = false := rfl
      apply mkContiguous_run_W size (basicObj 1) r lb _ hb hr hrel
      obtain ⟨g1, g2⟩ := mkContiguous_info size (basicObj 1) r lb hb hr
      obtain ⟨s1, _⟩ := mkContiguous_size size (basicObj 1) r lb hb hr
      have h1 : (basicObj 1).info.size = 1 := rfl
      rw [h1, Int.mul_one] at s1 g2
      apply isRun_of _ _ hrel size _ s1 (by rw [g1, g2])
      rw [hc] at heq
      have hnd := structLoop_nd _ _ _ _ _ heq rfl
      have : (structL (layoutMembers m)).bytes = (layoutMembers m).flatMap (·.1.bytes) := rfl
      rw [this, struct_segs m ms hm hnd, g1]
      have := structLoop_run ms 0 (0, 0, true) true [] (by omega) (fun x hx => (hf x hx).1) (Or.inl ⟨rfl, rfl⟩)
        (by simp [seg_nil]) _ heq rfl
      simpa using this

/-! ### one-dimensional subarray -/

theorem flatMap_single {α β : Type} (f : α → β) : ∀ (l : List α), l.flatMap (fun x => [f x]) = l.map f := by
  intro l; induction l with
  | nil => rfl
  | cons a t ih => simp [List.flatMap_cons, ih]

theorem sub1_ds (sz sub start e : Int) :
    (subPositions [(sz, sub, start)]).map (· * e) = dsIdx [(sub, start * e)] 1 e := by
  simp only [subPositions, List.map_nil, List.foldl_nil, List.map_cons, dsIdx, List.flatMap_cons, List.flatMap_nil,
    List.append_nil, blockCopies]
  rw [flatMap_single, List.map_map]
  apply List.map_congr_left
  intro k _
  simp only [Function.comp]; ring

theorem mkSubarray1_walk (sz sub start : Int) (c : Bool) (o r : Obj) (l : Layout) (h : Rel1 o l) (hw : W o l)
    (hr : mkSubarray [(sz, sub, start)] c o = some r) : W r (subL [(sz, sub, start)] c l) := by
  simp only [mkSubarray] at hr
  split at hr
  · cases hr
  · split at hr
    · cases hr
    · split at hr
      · cases hr
      · rename_i hh hhe
        injection hr with hr
        rw [h.ext] at hhe hr
        have r1 := mkHindexed_rel _ o hh l h hhe
        have w1 := mkHindexed_walk _ o hh l h hw hhe
        have := mkResized_walk hh _ 0 (sz * l.extent) r1 w1
        rw [hr] at this
        have e : subL [(sz, sub, start)] c l =
            ⟨(place (dsIdx [(sub, start * l.extent)] 1 l.extent) l).bytes, 0, 0 + sz * l.extent⟩ := by
          have hrev : (if c = true then [(sz, sub, start)] else [(sz, sub, start)].reverse) = [(sz, sub, start)] := by
            cases c <;> rfl
          simp only [subL, hrev, sub1_ds, List.map_cons, List.map_nil, prodF_cons, prodF_nil]
          congr 1; ring
        rw [e]; exact this

/-! ### MPI_Type_dup: `clone` of what the constructors build is the same object -/

theorem clone_scale (x e : Int) : (if (e != 0) = true then x * e / e else 0) * e = x * e := by
  by_cases h : e = 0
  · subst h; simp
  · have : (e != 0) = true := by simpa using h
    rw [if_pos this, Int.mul_ediv_cancel _ h]

theorem clone_mkHvector (n bl S : Int) (o r : Obj) (hr : mkHvector n bl S o = some r) : cloneObj r = r := by
  unfold mkHvector at hr
  split at hr
  · cases hr
  · simp only at hr
    split at hr <;> (injection hr with hr; subst hr; rfl)

theorem clone_mkContiguous (n : Int) (o r : Obj) (lb : Int) (hr : mkContiguous n o lb = some r) : cloneObj r = r := by
  unfold mkContiguous at hr
  simp only at hr
  split at hr
  · exact clone_mkHvector _ _ _ _ _ hr
  · split at hr <;> (injection hr with hr; subst hr; rfl)

theorem clone_mkVector (n bl S : Int) (o r : Obj) (hr : mkVector n bl S o = some r) : cloneObj r = r := by
  unfold mkVector at hr
  split at hr
  · cases hr
  · simp only at hr
    split at hr
    · injection hr with hr; subst hr
      simp only [cloneObj, clone_scale]
    · injection hr with hr; subst hr; rfl

theorem clone_mkIndexed (bs : List (Int × Int)) (o r : Obj) (hr : mkIndexed bs o = some r) : cloneObj r = r := by
  unfold mkIndexed at hr
  simp only at hr
  split at hr
  · cases hr
  · have fin1 : ∀ i, some (Obj.hindexed i (bs.map (fun b => (b.1, b.2 * o.info.extent))) o true) = some r →
        cloneObj r = r := by
      intro i hr
      injection hr with hr; subst hr
      simp only [cloneObj, List.map_map]
      congr 1
      apply List.map_congr_left
      intro b _
      simp only [Function.comp, clone_scale]
    split at hr <;> (try split at hr) <;> first | exact fin1 _ hr | exact clone_mkContiguous _ _ _ _ hr

theorem clone_mkHindexed (bs : List (Int × Int)) (o r : Obj) (hr : mkHindexed bs o = some r) : cloneObj r = r := by
  unfold mkHindexed at hr
  simp only at hr
  split at hr
  · cases hr
  · have fin1 : ∀ i, some (Obj.hindexed i bs o false) = some r → cloneObj r = r := by
      intro i hr
      injection hr with hr; subst hr; rfl
    split at hr <;> (try split at hr) <;> first | exact fin1 _ hr | exact clone_mkContiguous _ _ _ _ hr

theorem clone_mkStruct (ms : List (Int × Int × Obj)) (r : Obj) (hr : mkStruct ms = some r) : cloneObj r = r := by
  unfold mkStruct at hr
  split at hr
  · cases hr
  · split at hr
    · injection hr with hr; subst hr; rfl
    · exact clone_mkContiguous _ _ _ _ hr

/-- every object `build` returns is a fixed point of `clone` (stored byte strides are multiples of the old extent) -/
theorem cloneObj_fix : (t : Tree) → (o : Obj) → build t = some o → cloneObj o = o
  | .basic s, o, h => by simp only [build, Option.some.injEq] at h; subst h; rfl
  | .contiguous n t, o, h => by
    simp only [build] at h
    split at h
    · cases h
    · obtain ⟨o', _, h2⟩ := bind_some _ _ _ h; exact clone_mkContiguous _ _ _ _ h2
  | .vector n bl st t, o, h => by
    simp only [build] at h
    split at h
    · cases h
    · obtain ⟨o', _, h2⟩ := bind_some _ _ _ h; exact clone_mkVector _ _ _ _ _ h2
  | .hvector n bl st t, o, h => by
    simp only [build] at h
    split at h
    · cases h
    · obtain ⟨o', _, h2⟩ := bind_some _ _ _ h; exact clone_mkHvector _ _ _ _ _ h2
  | .indexed bs t, o, h => by
    simp only [build] at h
    obtain ⟨o', _, h2⟩ := bind_some _ _ _ h; exact clone_mkIndexed _ _ _ h2
  | .hindexed bs t, o, h => by
    simp only [build] at h
    obtain ⟨o', _, h2⟩ := bind_some _ _ _ h; exact clone_mkHindexed _ _ _ h2
  | .indexedBlock bl ds t, o, h => by
    simp only [build] at h
    obtain ⟨o', _, h2⟩ := bind_some _ _ _ h; exact clone_mkIndexed _ _ _ h2
  | .hindexedBlock bl ds t, o, h => by
    simp only [build] at h
    obtain ⟨o', _, h2⟩ := bind_some _ _ _ h; exact clone_mkHindexed _ _ _ h2
  | .struct m, o, h => by
    simp only [build] at h
    obtain ⟨ms, _, h2⟩ := bind_some _ _ _ h; exact clone_mkStruct _ _ h2
  | .resized lb ext t, o, h => by
    cases hb : build t with
    | none => simp [build, hb] at h
    | some o' => simp only [build, hb, Option.map_some, Option.some.injEq] at h; subst h; rfl
  | .subarray dims c t, o, h => by
    simp only [build] at h
    obtain ⟨o', _, h2⟩ := bind_some _ _ _ h
    obtain ⟨_, hh, e1, _⟩ := mkSubarray_out dims c o' o h2
    rw [e1]; rfl
  | .dup t, o, h => by
    cases hb : build t with
    | none => simp [build, hb] at h
    | some o' =>
      simp only [build, hb, Option.map_some, Option.some.injEq] at h
      subst h
      rw [cloneObj_fix t o' hb, cloneObj_fix t o' hb]

end SgVerif.C30
