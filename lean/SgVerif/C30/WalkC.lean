import SgVerif.C30.WalkB
/-
C30 — walk = typemap for create_indexed / create_hindexed (Type_Indexed / Type_Hindexed objects and the contiguous
shortcut: blocks that chain form one run).
-/
set_option linter.unusedSimpArgs false
set_option linter.unusedVariables false
set_option linter.unnecessarySeqFocus false
namespace SgVerif.C30
open Spec

/-- Type_Indexed / Type_Hindexed object: the stored blocks are `(bl, idx * scale)` -/
theorem idx_obj_W (i : Info) (bs : List (Int × Int)) (scale : Int) (o : Obj) (f : Bool) (l : Layout) (h : Rel1 o l)
    (hw : W o l)
    (hrel : Rel1 (.hindexed i (bs.map (fun b => (b.1, b.2 * scale))) o f) (place (dsIdx bs scale l.extent) l)) :
    W (.hindexed i (bs.map (fun b => (b.1, b.2 * scale))) o f) (place (dsIdx bs scale l.extent) l) := by
  intro cnt base
  have hb : (place (dsIdx bs scale l.extent) l).bytes = bs.flatMap (fun b => (bytesOf l b.1).map (· + b.2 * scale)) := by
    simp only [dsIdx]; rw [place_blocks_bytes]
  rw [walk_hindexed, bytesOf_blocks _ _ _ hb, ← hrel.ext]
  simp only [info_hindexed, List.map_map, List.flatMap_map]
  congr 1; funext j; congr 1; funext b
  rw [blockB_eq h hw]
  apply List.map_congr_left
  intro x _
  simp only [Function.comp]; omega

/-- the typemap bytes of one block over a natural (non-derived) old type of size `e`: a segment -/
theorem block_seg {o : Obj} {l : Layout} (h : Rel1 o l) (hd : o.info.derived = false) (bl D : Int) :
    (bytesOf l bl).map (· + D) = seg D (bl * o.info.size) := by
  rw [run_bytesOf l (natural_isRun h hd), (h.nat hd).1, ← h.size]; congr 1; ring

/-- create_indexed / create_hindexed over an old type with the natural bounds: when the loop ends with `contiguous`
    still set, the blocks placed so far form one run starting at lb (`acc` = the bytes before this suffix of the loop) -/
theorem idxLoop_run (scale csize e : Int) (he : 0 ≤ e) (hcs : ∀ x : Int, (csize * x) * scale = x * e) :
    ∀ (bs : List (Int × Int)) (s : Int) (st : Int × Int × Bool) (c : Bool) (acc : List Int), 0 ≤ s →
      ((st = (0, 0, true) ∧ s = 0) ∨
       (st.2.2 = false ∧ st.2.1 = st.1 + s * e ∧ ∀ b ∈ bs.head?, b.2 * scale = st.2.1)) →
      acc = seg st.1 (s * e) →
      ∀ r, idxLoop scale csize 0 e e bs s st c = some r → r.2.2.2 = true →
        acc ++ bs.flatMap (fun b => seg (b.2 * scale) (b.1 * e)) = seg r.2.1 (r.1 * e) := by
  intro bs
  induction bs with
  | nil =>
    intro s st c acc _ hst hacc r hr _
    simp only [idxLoop, Option.some.injEq] at hr
    subst hr
    simpa using hacc
  | cons b rest ih =>
    intro s st c acc hs hst hacc r hr hfin
    obtain ⟨bl, idx⟩ := b
    simp only [idxLoop] at hr
    split at hr
    · cases hr
    · rename_i hbl
      have hflag := idxLoop_flag _ _ _ _ _ _ _ _ _ _ hr hfin
      simp only [Bool.and_eq_true] at hflag
      have hchain := hflag.2
      have hble : 0 ≤ bl * e := Int.mul_nonneg (by omega) he
      have hse : 0 ≤ s * e := Int.mul_nonneg hs he
      have h1 : (bl - 1) * e = bl * e - e := by rw [Int.sub_mul, Int.one_mul]
      have h2 : (s + bl) * e = s * e + bl * e := Int.add_mul _ _ _
      have hnext : ∀ b ∈ rest.head?, b.2 * scale = idx * scale + bl * e := by
        intro b hb
        cases rest with
        | nil => simp at hb
        | cons b' r' =>
          simp only [List.head?_cons, Option.mem_def, Option.some.injEq] at hb
          subst hb
          simp only [List.head?_cons, Option.map_some, chainOk, beq_iff_eq] at hchain
          rw [← hchain, Int.add_mul, hcs]
      simp only [List.flatMap_cons, ← List.append_assoc]
      refine ih (s + bl) _ _ _ (by omega) ?_ ?_ r hr hfin
      · by_cases hpos : bl > 0
        · right
          unfold blockBounds
          simp only [hpos, if_true]
          rcases hst with ⟨rfl, rfl⟩ | ⟨hf, hub, hhead⟩
          · simp only [Bool.true_or, if_true]
            refine ⟨trivial, by omega, ?_⟩
            intro b hb
            rw [hnext b hb]; omega
          · have hidx : idx * scale = st.2.1 := hhead (bl, idx) (by simp)
            simp only [hf, Bool.false_or, decide_eq_true_eq]
            have hnl : ¬ (idx * scale + 0 < st.1) := by omega
            simp only [hnl, if_false]
            refine ⟨trivial, ?_, ?_⟩
            · split <;> omega
            · intro b hb
              rw [hnext b hb]
              split <;> omega
        · have hz : bl = 0 := by omega
          subst hz
          unfold blockBounds
          simp only [Int.lt_irrefl, gt_iff_lt, if_false]
          rcases hst with ⟨rfl, rfl⟩ | ⟨hf, hub, hhead⟩
          · left; exact ⟨rfl, by omega⟩
          · right
            have hidx : idx * scale = st.2.1 := hhead (0, idx) (by simp)
            refine ⟨hf, by omega, ?_⟩
            intro b hb
            rw [hnext b hb]; omega
      · -- the bytes: acc ++ this block = one segment from the (new) lb
        by_cases hpos : bl > 0
        · unfold blockBounds
          simp only [hpos, if_true]
          rcases hst with ⟨rfl, rfl⟩ | ⟨hf, hub, hhead⟩
          · simp only [Bool.true_or, if_true] at hacc ⊢
            rw [hacc, seg_nil _ _ (by omega), List.nil_append]
            congr 1 <;> ring
          · have hidx : idx * scale = st.2.1 := hhead (bl, idx) (by simp)
            simp only [hf, Bool.false_or, decide_eq_true_eq]
            have hnl : ¬ (idx * scale + 0 < st.1) := by omega
            simp only [hnl, if_false]
            rw [hacc, h2, ← seg_append st.1 (s * e) (bl * e) hse hble, hidx, hub]
        · have hz : bl = 0 := by omega
          subst hz
          unfold blockBounds
          simp only [Int.lt_irrefl, gt_iff_lt, if_false]
          rw [hacc, seg_nil _ (0 * e) (by omega), List.append_nil]
          congr 1; ring

/-- MPI's typemap of an indexed / hindexed type over a natural old type, as segments -/
theorem dsIdx_segs (bs : List (Int × Int)) (scale : Int) {o : Obj} {l : Layout} (h : Rel1 o l)
    (hd : o.info.derived = false) :
    (place (dsIdx bs scale l.extent) l).bytes = bs.flatMap (fun b => seg (b.2 * scale) (b.1 * o.info.size)) := by
  simp only [dsIdx]; rw [place_blocks_bytes]
  congr 1; funext b
  exact block_seg h hd b.1 _

/-- `Datatype::create_indexed` -/
theorem mkIndexed_walk (bs : List (Int × Int)) (o r : Obj) (l : Layout) (h : Rel1 o l) (hw : W o l)
    (hr : mkIndexed bs o = some r) : W r (place (dsIdx bs l.extent l.extent) l) := by
  have hrel := mkIndexed_rel bs o r l h hr
  unfold mkIndexed at hr
  simp only at hr
  split at hr
  · cases hr
  · rename_i size lb ub c heq
    have fin1 : some (Obj.hindexed ⟨size * o.info.size, lb, ub, true⟩ (bs.map (fun b => (b.1, b.2 * o.info.extent))) o true) = some r →
        W r (place (dsIdx bs l.extent l.extent) l) := by
      intro hr
      injection hr with hr; subst hr
      rw [h.ext] at hrel ⊢
      exact idx_obj_W _ bs _ o true l h hw hrel
    have fin2 : o.info.derived = false → c = true → mkContiguous size o lb = some r → W r (place (dsIdx bs l.extent l.extent) l) := by
      intro hd hc hr
      apply mkContiguous_run_W size o r lb _ hd hr hrel
      obtain ⟨g1, g2⟩ := mkContiguous_info size o r lb hd hr
      obtain ⟨s1, _⟩ := mkContiguous_size size o r lb hd hr
      obtain ⟨n1, n2, n3, n4⟩ := h.natural hd
      apply isRun_of _ _ hrel (size * o.info.size) _ s1 (by rw [g1, g2])
      rw [dsIdx_segs bs _ h hd, g1, n4]
      rw [n1, n2, n3, hc] at heq
      have := idxLoop_run o.info.size 1 o.info.size h.size_nonneg (fun x => by rw [Int.one_mul]) bs 0 (0, 0, true)
        true [] (by omega) (Or.inl ⟨rfl, rfl⟩) (by simp [seg_nil]) _ heq rfl
      simpa using this
    cases hd : o.info.derived with
    | true => simp only [hd, if_true, Bool.not_false] at hr; exact fin1 hr
    | false =>
      cases hc : c with
      | false => simp only [hd, hc, Bool.false_eq_true, if_false, Bool.not_false, if_true] at hr; exact fin1 hr
      | true =>
        simp only [hd, hc, Bool.false_eq_true, if_false, Bool.not_true] at hr
        exact fin2 hd hc hr

/-- `Datatype::create_hindexed` -/
theorem mkHindexed_walk (bs : List (Int × Int)) (o r : Obj) (l : Layout) (h : Rel1 o l) (hw : W o l)
    (hr : mkHindexed bs o = some r) : W r (place (dsIdx bs 1 l.extent) l) := by
  have hrel := mkHindexed_rel bs o r l h hr
  unfold mkHindexed at hr
  simp only at hr
  split at hr
  · cases hr
  · rename_i size lb ub c heq
    have hbs : bs.map (fun b => (b.1, b.2 * 1)) = bs := by simp
    have fin1 : some (Obj.hindexed ⟨size * o.info.size, lb, ub, true⟩ bs o false) = some r →
        W r (place (dsIdx bs 1 l.extent) l) := by
      intro hr
      injection hr with hr; subst hr
      have := idx_obj_W ⟨size * o.info.size, lb, ub, true⟩ bs 1 o false l h hw (by rw [hbs]; exact hrel)
      rwa [hbs] at this
    have fin2 : o.info.derived = false → c = true → mkContiguous size o lb = some r → W r (place (dsIdx bs 1 l.extent) l) := by
      intro hd hc hr
      apply mkContiguous_run_W size o r lb _ hd hr hrel
      obtain ⟨g1, g2⟩ := mkContiguous_info size o r lb hd hr
      obtain ⟨s1, _⟩ := mkContiguous_size size o r lb hd hr
      obtain ⟨n1, n2, n3, n4⟩ := h.natural hd
      apply isRun_of _ _ hrel (size * o.info.size) _ s1 (by rw [g1, g2])
      rw [dsIdx_segs bs _ h hd, g1]
      rw [n1, n2, n3, hc] at heq
      have := idxLoop_run 1 o.info.size o.info.size h.size_nonneg (fun x => by rw [Int.mul_one, Int.mul_comm]) bs 0
        (0, 0, true) true [] (by omega) (Or.inl ⟨rfl, rfl⟩) (by simp [seg_nil]) _ heq rfl
      simpa using this
    cases hd : o.info.derived with
    | true => simp only [hd, Bool.true_or, if_true, Bool.not_false] at hr; exact fin1 hr
    | false =>
      by_cases hlb : lb = 0
      · subst hlb
        cases hc : c with
        | false =>
          simp only [hd, hc, bne_self_eq_false, Bool.or_self, Bool.false_eq_true, if_false, Bool.not_false, if_true] at hr
          exact fin1 hr
        | true =>
          simp only [hd, hc, bne_self_eq_false, Bool.or_self, Bool.false_eq_true, if_false, Bool.not_true] at hr
          exact fin2 hd hc hr
      · have : (lb != 0) = true := by simpa using hlb
        simp only [hd, this, Bool.or_true, if_true, Bool.not_false] at hr
        exact fin1 hr

end SgVerif.C30
