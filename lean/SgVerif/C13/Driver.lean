import SgVerif.C13.Model
import SgVerif.Common.Proto
/-
C13 driver.  One line per case: `<mode> <n> <K:d>* | <op>* => <observation stream of the real run>` (see
props/C13/harness.cpp for the token grammar; props/C13/check.py rewrites `%a` clocks as `p/q`).

Trace *acceptance*: the driver replays the script on the model and lets the implementation's stream decide what the
property leaves open (the order of completions that fall on the same date, and on which side of an actor wake-up they
come); every signal the model emits must then appear, in the model's order, in the stream.  Independently of the model
the property's monitor (`monitor`) is evaluated on the stream alone.
-/
open SgVerif.Proto
namespace SgVerif.C13

def parseRat (s : String) : Option Rat :=
  match s.splitOn "/" with
  | [n, d] => match n.toInt?, d.toNat? with
    | some n, some d => if d = 0 then none else some ((n : Rat) / (d : Rat))
    | _, _ => none
  | [n] => n.toInt?.map (fun n => (n : Rat))
  | _ => none

inductive OpK where
  | succ | rem | res (f : Field) (guarded : Bool) | start | at_ | destroy
  deriving Repr

structure Op where
  k : OpK
  a : Nat := 0
  b : Nat := 0
  t : Rat := 0

def parseOp (tok : String) : Option Op :=
  match tok.splitOn ":" with
  | ["s", a, b] => do pure { k := .succ, a := ← a.toNat?, b := ← b.toNat? }
  | ["r", a, b] => do pure { k := .rem, a := ← a.toNat?, b := ← b.toNat? }
  | ["h", b] => do pure { k := .res .host true, b := ← b.toNat? }
  | ["f", b] => do pure { k := .res .src true, b := ← b.toNat? }
  | ["t", b] => do pure { k := .res .dst true, b := ← b.toNat? }
  | ["D!", b] => do pure { k := .res .host false, b := ← b.toNat? }
  | ["F!", b] => do pure { k := .res .src false, b := ← b.toNat? }
  | ["T!", b] => do pure { k := .res .dst false, b := ← b.toNat? }
  | ["g", b] => do pure { k := .start, b := ← b.toNat? }
  | ["@", t] => do pure { k := .at_, t := ((← t.toNat?) : Rat) / 1024 }
  | ["x", b] => do pure { k := .destroy, b := ← b.toNat? }
  | _ => none

def stChar : St → String
  | .inited => "I" | .starting => "G" | .started => "S" | .failed => "X" | .canceled => "C" | .finished => "F"

def charSt : String → Option St
  | "I" => some .inited | "G" => some .starting | "S" => some .started | "X" => some .failed
  | "C" => some .canceled | "F" => some .finished | _ => none

def parseKind : String → Option Kind
  | "E" => some .exec | "C" => some .comm | "I" => some .io | _ => none

structure Case where
  mode : String
  n : Nat
  kinds : List Kind
  durs : List Rat
  ops : List Op
  /-- loader modes: check.py's transcription of the API calls the loader makes -/
  lops : List Op := []

def parseCase (q : List String) : Option Case :=
  match q with
  | mode :: n :: rest => do
    let n ← n.toNat?
    let acts := rest.take n
    let kd ← acts.mapM fun t => match t.splitOn ":" with
      | [k, d] => do pure (← parseKind k, (← parseRat d) / 1024)
      | [k, d, _] => do pure (← parseKind k, (← parseRat d) / 1024)
      | _ => none
    match rest.drop n with
    | "|" :: ops => do
      if ops.contains "||" then
        let lops ← (ops.takeWhile (· ≠ "||")).mapM parseOp
        let ops ← ((ops.dropWhile (· ≠ "||")).drop 1).mapM parseOp
        pure { mode, n, kinds := kd.map (·.1), durs := kd.map (·.2), ops, lops }
      else
        let ops ← ops.mapM parseOp
        pure { mode, n, kinds := kd.map (·.1), durs := kd.map (·.2), ops }
    | _ => none
  | _ => none

def evTok : Ev → String
  | .start b t => s!"S{b}@{t.num}/{t.den}"
  | .veto b t => s!"V{b}@{t.num}/{t.den}"
  | .finish b t st => s!"F{b}@{t.num}/{t.den}:{stChar st}"

/-- the signals emitted between two states (oldest first) -/
def newEvents (s s' : Sys) : List String :=
  ((s'.trace.take (s'.trace.length - s.trace.length)).reverse).map evTok

def caseInit (c : Case) : Sys :=
  init c.n (fun i => (c.kinds[i]?).getD .exec) (fun i => (c.durs[i]?).getD 0) (fun _ => true)

/-- `o<i>=<c>[k|x]` or `o<i>@<t>` -/
inductive OTok where
  | op (i : Nat) (c : String) (flag : String)
  | wake (i : Nat) (t : Rat)

def parseOTok (tok : String) : Option OTok :=
  if !tok.startsWith "o" then none else
  let body := (tok.drop 1).toString
  match body.splitOn "=" with
  | [i, r] => do
    let i ← i.toNat?
    let c := (r.take 1).toString
    let flag := (r.drop 1).toString
    pure (.op i c flag)
  | _ => match body.splitOn "@" with
    | [i, t] => do pure (.wake (← i.toNat?) (← parseRat t))
    | _ => none

/-- `F<a>@<t>:<c>` -/
def parseFTok (tok : String) : Option (Nat × Rat × String) :=
  if !tok.startsWith "F" then none else
  match ((tok.drop 1).toString).splitOn "@" with
  | [a, r] => match r.splitOn ":" with
    | [t, c] => do pure (← a.toNat?, ← parseRat t, c)
    | _ => none
  | _ => none

def parseSVTok (tok : String) : Option (Bool × Nat × Rat) :=
  if tok.startsWith "S" || tok.startsWith "V" then
    match ((tok.drop 1).toString).splitOn "@" with
    | [a, t] => do pure (tok.startsWith "S", ← a.toNat?, ← parseRat t)
    | _ => none
  else none

def opLabel (o : Op) : Option Label :=
  match o.k with
  | .succ => some (.addSucc o.a o.b)
  | .rem => some (.remSucc o.a o.b)
  | .res f _ => some (.assign o.b f)
  | .start => some (.start o.b)
  | .at_ => none
  | .destroy => none

def opGuarded (o : Op) : Bool :=
  match o.k with
  | .rem => false
  | .res _ g => g
  | _ => true

structure Acc where
  sys : Sys
  next : Nat            -- index of the next op of the script
  expect : List String  -- signals the model emitted and the stream still has to show
  ended : Bool := false

/-- one token of the stream; `Except.error` = disagreement -/
def acceptTok (c : Case) (s : Acc) (tok : String) : Except String Acc :=
  match s.expect with
  | e :: rest => if e = tok then .ok { s with expect := rest } else .error s!"expected {e} got {tok}"
  | [] =>
    if s.ended then .error s!"token {tok} after the end" else
    if tok.startsWith "o" then
      match parseOTok tok with
      | none => .error s!"unparsable {tok}"
      | some (.wake i t) =>
        match c.ops[i]? with
        | some { k := .at_, t := t', .. } =>
          if i ≠ s.next then .error s!"op {i} out of order (model expects {s.next})"
          else if t ≠ t' then .error s!"actor woke at {t} instead of {t'}"
          else match step s.sys (.advance t) with
            | .ok s' => .ok { s with sys := s', next := i + 1 }
            | .error _ => .error s!"clock cannot jump to {t}: an activity should have completed before (model)"
        | _ => .error s!"op {i} is not a wake-up"
      | some (.op i ch flag) =>
        match c.ops[i]? with
        | none => .error s!"no op {i}"
        | some o =>
          if i ≠ s.next then .error s!"op {i} out of order (model expects {s.next})" else
          let stM := stChar (s.sys.acts o.b).state
          if stM ≠ ch then .error s!"state of {o.b} before op {i}: model {stM} impl {ch}" else
          if flag = "k" then
            if opGuarded o ∧ ¬ (s.sys.acts o.b).state.isOpen then .ok { s with next := i + 1 }
            else .error s!"op {i} skipped by the harness but the model state is open"
          else match opLabel o with
            | none => .error s!"op {i} is a wake-up"
            | some l =>
              let throws : Bool := match o.k with
                | .succ => s.sys.addSuccThrows o.a o.b
                | .rem => s.sys.remSuccThrows o.a o.b
                | _ => false
              if throws != (flag == "x") then .error s!"op {i}: exception model={throws} impl={flag}" else
              match step s.sys l with
              | .ok s' => .ok { sys := s', next := i + 1, expect := newEvents s.sys s' }
              | .error .assert => .error s!"op {i}: the model hits an xbt_assert, the implementation went on"
              | .error _ => .error s!"op {i}: outside the modelled domain"
    else if tok.startsWith "F" then
      match parseFTok tok with
      | none => .error s!"unparsable {tok}"
      | some (a, t, ch) =>
        if ch ≠ "F" then .error s!"completion of {a} in state {ch}" else
        match step s.sys (.complete a) with
        | .ok s' =>
          if s'.now ≠ t then .error s!"{a} finished at {t}, model date {s'.now}"
          else match newEvents s.sys s' with
            | e :: rest => if e = tok then .ok { s with sys := s', expect := rest }
                           else .error s!"completion of {a}: the model's first signal is {e}"
            | [] => .error "model emitted nothing"
        | .error _ => .error s!"completion of {a} at {t} is not enabled in the model"
    else if tok.startsWith "E@" then
      match parseRat ((tok.drop 2).toString) with
      | none => .error s!"unparsable {tok}"
      | some t =>
        if s.next ≠ c.ops.length then .error s!"run ended with script ops left (next {s.next})"
        else if (List.range s.sys.n).any (fun b => (s.sys.acts b).state = .started) then
          .error "run ended while the model still has a running activity"
        else if t ≠ s.sys.now then .error s!"run ended at {t}, model clock {s.sys.now}"
        else .ok { s with ended := true }
    else
      -- a successor's signal with nothing pending: a Comm just completed (its own on_completion signal comes last)
      let cands := (List.range s.sys.n).filterMap fun a =>
        if (s.sys.acts a).kind = .comm ∧ (s.sys.acts a).state = .started then
          match step s.sys (.complete a) with
          | .ok s' => (match newEvents s.sys s' with
            | e :: rest => if e = tok then some (s', rest) else none
            | [] => none)
          | .error _ => none
        else none
      match cands with
      | (s', rest) :: _ => .ok { s with sys := s', expect := rest }
      | [] => .error s!"unexpected signal {tok}"

def accept (c : Case) (s0 : Sys) (toks : List String) : Except String Sys := do
  let mut acc : Acc := { sys := s0, next := 0, expect := [] }
  for tok in toks do
    acc ← acceptTok c acc tok
  if !acc.ended then throw "stream has no end marker"
  if !acc.expect.isEmpty then throw s!"signals missing at the end: {acc.expect}"
  pure acc.sys

/-! ### model-only prediction (used when the implementation aborted: does the model hit an `xbt_assert` too?) -/

def earliest (s : Sys) : Option (Nat × Rat) :=
  (List.range s.n).foldl (fun best c =>
    if (s.acts c).state = .started then
      match finishDate (s.acts c), best with
      | some f, none => some (c, f)
      | some f, some (_, fb) => if f < fb then some (c, f) else best
      | none, _ => best
    else best) none

/-- completions first (lowest date, then lowest index), an actor wake-up at date `T` after the completions of date `T` -/
def predict (c : Case) : Nat → Sys → Nat → Except Err Sys
  | 0, s, _ => .ok s
  | fuel + 1, s, i =>
    match c.ops[i]? with
    | none =>
      match earliest s with
      | none => .ok s
      | some (a, _) => match step s (.complete a) with
        | .ok s' => predict c fuel s' i
        | .error e => .error e
    | some o =>
      match o.k with
      | .at_ =>
        match earliest s with
        | some (a, f) =>
          if f ≤ o.t then match step s (.complete a) with
            | .ok s' => predict c fuel s' i
            | .error e => .error e
          else match step s (.advance o.t) with
            | .ok s' => predict c fuel s' (i + 1)
            | .error e => .error e
        | none => match step s (.advance o.t) with
          | .ok s' => predict c fuel s' (i + 1)
          | .error e => .error e
      | _ =>
        if opGuarded o ∧ ¬ (s.acts o.b).state.isOpen then predict c fuel s (i + 1) else
        match opLabel o with
        | none => .error .misuse
        | some l => match step s l with
          | .ok s' => predict c fuel s' (i + 1)
          | .error e => .error e

/-! ### the property's monitor, evaluated on the stream alone -/

structure MAct where
  kind : Kind
  preds : List Nat := []
  host : Bool := false
  src : Bool := false
  dst : Bool := false
  tAssigned : Option Rat := none
  tReq : Option Rat := none
  asked : Bool := false           -- some `start()` call was scripted for it
  tStart : Option Rat := none
  tFinish : Option Rat := none

def MAct.assigned (x : MAct) : Bool :=
  match x.kind with
  | .comm => x.src && x.dst
  | _ => x.host

structure Mon where
  acts : List MAct
  /-- finish dates found anywhere in the stream (a Comm's on_completion signal follows its successors' on_start) -/
  fin : List (Nat × Rat) := []
  now : Rat := 0
  live : Bool := true       -- still inside the hypotheses of the liveness theorems
  fail : Option String := none

def Mon.upd (m : Mon) (b : Nat) (f : MAct → MAct) : Mon :=
  { m with acts := m.acts.mapIdx fun i x => if i = b then f x else x }

def maxOpt (a : Option Rat) (b : Rat) : Rat := match a with | some x => if x < b then b else x | none => b

/-- Kahn's algorithm with fuel: is the predecessor relation acyclic? -/
def acyclic (acts : List MAct) : Bool :=
  let n := acts.length
  let rec go (fuel : Nat) (done : List Nat) : Bool :=
    match fuel with
    | 0 => done.length = n
    | fuel + 1 =>
      let ready := (List.range n).filter fun b => !done.contains b &&
        (match acts[b]? with | some x => x.preds.all done.contains | none => false)
      if ready.isEmpty then done.length = n else go fuel (done ++ ready)
  go n []

def monTok (c : Case) (m : Mon) (tok : String) : Mon :=
  if m.fail.isSome then m else
  if tok.startsWith "o" then
    match parseOTok tok with
    | some (.wake _ t) => { m with now := t }
    | some (.op i ch flag) =>
      match c.ops[i]? with
      | none => m
      | some o =>
        let m := match o.k with | .start => m.upd o.b (fun x => { x with asked := true }) | _ => m
        if flag = "k" ∨ flag = "x" then m else
        match o.k with
        | .succ =>
          let lateEdge := match m.acts[o.a]? with | some x => x.tFinish.isSome | none => false
          let m := if lateEdge then { m with live := false } else m
          m.upd o.b (fun x => { x with preds := o.a :: x.preds })
        | .rem => { (m.upd o.b (fun x => { x with preds := x.preds.filter (· != o.a) })) with live := false }
        | .res f _ =>
          m.upd o.b fun x =>
            let y := match f with
              | .host => { x with host := true } | .src => { x with src := true } | .dst => { x with dst := true }
            { y with tAssigned := if y.assigned && !x.assigned then some m.now else x.tAssigned }
        | .start =>
          if ch = "I" ∨ ch = "G" then m.upd o.b (fun x => { x with tReq := match x.tReq with | some t => some t | none => some m.now })
          else m
        | .at_ => m
        | .destroy => m
    | none => m
  else if tok.startsWith "F" then
    match parseFTok tok with
    | some (a, t, _) => { (m.upd a (fun x => { x with tFinish := some t })) with now := t }
    | none => m
  else if tok.startsWith "S" then
    match parseSVTok tok with
    | some (_, b, t) =>
      match m.acts[b]? with
      | none => m
      | some x =>
        -- every predecessor finished, not later than this start
        let finOf := fun (a : Nat) => match m.acts[a]? with
          | some y => (match y.tFinish with
            | some tf => some tf
            | none => if y.kind = .comm then (m.fin.find? (·.1 = a)).map (·.2) else none)
          | none => none
        let bad := x.preds.filter fun a => match finOf a with | some tf => t < tf | none => true
        if !bad.isEmpty then { m with fail := some s!"activity {b} started at {t} before its predecessor(s) {bad} finished" }
        else if !x.assigned then { m with fail := some s!"activity {b} started at {t} without being assigned" }
        else if x.tStart.isSome then { m with fail := some s!"activity {b} started twice" }
        else
          let m := m.upd b (fun x => { x with tStart := some t })
          if m.live then
            -- start date = latest of (predecessor finishes, assignment, own start request)
            let mx := x.preds.foldl (fun acc a => match finOf a with
              | some tf => some (maxOpt acc tf) | none => acc) (none : Option Rat)
            let mx := match x.tAssigned with | some q => some (maxOpt mx q) | none => mx
            let mx := match x.tReq with | some q => some (maxOpt mx q) | none => mx
            match mx with
            | some q => if q = t then m else
                { m with fail := some s!"activity {b} started at {t}, but its predecessors/assignment/start request were complete at {q}" }
            | none => { m with fail := some s!"activity {b} started at {t} with nothing enabling it" }
          else m
    | none => m
  else if tok.startsWith "E@" then
    -- all_finish: acyclic, everything assigned and asked to start, live history => everything finished
    if m.live ∧ acyclic m.acts ∧ m.acts.all (fun x => x.assigned && x.asked) then
      match (List.range m.acts.length).filter (fun b => match m.acts[b]? with | some x => x.tFinish.isNone | none => false) with
      | [] => m
      | l => { m with fail := some s!"run ended but activities {l} never finished (acyclic, all assigned and started)" }
    else m
  else m

def monitor (c : Case) (m0 : Mon) (toks : List String) : Option String :=
  let fin := toks.filterMap fun t => match parseFTok t with | some (a, tf, _) => some (a, tf) | none => none
  (toks.foldl (monTok c) { m0 with fin := fin }).fail

/-! ### loader modes: the initial state is the dump printed by the harness after the loader returned -/

structure Dump where
  st : St
  kind : Kind
  amount : Rat
  succs : List Nat
  deps : List Nat
  flags : String

def parseNats (s : String) : Option (List Nat) :=
  if s = "" then some [] else (s.splitOn ",").mapM String.toNat?

def parseDump (tok : String) : Option (Nat × Dump) :=
  match ((tok.drop 1).toString).splitOn ":" with
  | [i, st, k, amount, succs, deps, _name, flags] => do
    pure (← i.toNat?, { st := ← charSt st, kind := ← parseKind k, amount := ← parseRat amount, succs := ← parseNats succs,
                        deps := ← parseNats deps, flags })
  | _ => none

def dumpAct (d : Dump) : Act :=
  let started := d.st = .started
  { kind := d.kind, dur := d.amount / 1048576, state := d.st, deps := d.deps, succs := d.succs, preds := d.deps
    hasHost := d.flags.contains 'h', hasSrc := d.flags.contains 's', hasDst := d.flags.contains 'd'
    tAssigned := if (d.kind = .comm ∧ d.flags.contains 's' ∧ d.flags.contains 'd') ∨ (d.kind ≠ .comm ∧ d.flags.contains 'h') then some 0 else none
    tReq := if d.st = .inited then none else some 0
    tStart := if started then some 0 else none }

def dumpMAct (d : Dump) : MAct :=
  let a := dumpAct d
  { kind := d.kind, preds := d.deps, host := a.hasHost, src := a.hasSrc, dst := a.hasDst, tAssigned := a.tAssigned,
    tReq := a.tReq, asked := d.st ≠ .inited, tStart := a.tStart }

/-- replay check.py's transcription of the loader on fresh activities (placeholders of the DAX loader are extra
indices `≥ n`, kind comm) -/
def loaderState (c : Case) : Sys :=
  let m := c.lops.foldl (fun m o => Nat.max m (Nat.max (o.a + 1) (o.b + 1))) c.n
  let s0 : Sys := init m (fun i => if i < c.n then (c.kinds[i]?).getD .exec else .comm)
    (fun i => (c.durs[i]?).getD 0) (fun _ => true)
  c.lops.foldl (fun s o =>
    match o.k with
    | .destroy => s.destroy o.b
    | _ => match opLabel o with
      | some l => (match step s l with | .ok s' => s' | .error _ => s)
      | none => s) s0

def sortNats (l : List Nat) : List Nat := (l.toArray.qsort (· < ·)).toList

/-- first difference between the model after the transcription and the dump of the real loader's result -/
def dumpDiff (c : Case) (s : Sys) (dumps : List (Nat × Dump)) : Option String :=
  if dumps.length ≠ c.n then some s!"loader returned {dumps.length} activities, expected {c.n}" else
  (List.range c.n).findSome? fun i =>
    match dumps.find? (·.1 = i) with
    | none => some s!"no dump for {i}"
    | some (_, d) =>
      let x := s.acts i
      let fl := (if x.kind ≠ .comm ∧ x.hasHost then "h" else "") ++ (if x.hasSrc then "s" else "") ++ (if x.hasDst then "d" else "")
      let fl := if fl = "" then "-" else fl
      if x.kind ≠ d.kind then some s!"kind of {i}"
      else if x.state ≠ d.st then some s!"state of {i}: model {stChar x.state} impl {stChar d.st}"
      else if x.succs ≠ d.succs then some s!"successors of {i}: model {x.succs} impl {d.succs}"
      else if sortNats x.deps ≠ sortNats d.deps then some s!"dependencies of {i}: model {x.deps} impl {d.deps}"
      else if fl ≠ d.flags then some s!"assignment of {i}: model {fl} impl {d.flags}"
      else if x.dur ≠ d.amount / 1048576 then some s!"amount of {i}: model {x.dur} impl {d.amount / 1048576}"
      else none

def judge (q a : List String) : Verdict :=
  match parseCase q with
  | none => .bad
  | some c =>
    if a = ["assert"] then
      match predict c (4 * (c.n + c.ops.length) + 8) (caseInit c) 0 with
      | .error .assert => .ok
      | .error e => .disagree s!"implementation aborted; model: {repr e}"
      | .ok _ => .disagree "implementation aborted (xbt_assert / signal); the model runs to the end"
    else
      -- loader modes: everything up to `L` belongs to the loader (checked by check.py), then the dump
      let (s0, m0, toks) : Sys × Mon × List String :=
        if c.mode = "api" then
          (caseInit c, { acts := c.kinds.map fun k => { kind := k } }, a)
        else
          let rest := (a.dropWhile (· ≠ "L")).drop 2
          let dumps := (rest.takeWhile (·.startsWith "D")).filterMap parseDump
          let tbl := fun i => match dumps.find? (·.1 = i) with | some (_, d) => dumpAct d | none => {}
          ({ n := dumps.length, acts := tbl, now := 0, trace := [] },
           { acts := (List.range dumps.length).map fun i => match dumps.find? (·.1 = i) with
               | some (_, d) => dumpMAct d | none => { kind := .exec } },
           rest.dropWhile (·.startsWith "D"))
      match monitor c m0 toks with
      | some why => .monfail why
      | none =>
        let loaderDiff : Option String :=
          if c.mode = "api" then none else
            let dumps := (((a.dropWhile (· ≠ "L")).drop 2).takeWhile (·.startsWith "D")).filterMap parseDump
            dumpDiff c (loaderState c) dumps
        match loaderDiff with
        | some d => .disagree ("loader: " ++ d)
        | none =>
          -- the replay continues from the model's own state after the loader transcription (clock 0)
          let s0 := if c.mode = "api" then s0 else loaderState c
          match accept c s0 toks with
          | .ok _ => .ok
          | .error e => .disagree e

end SgVerif.C13

def main : IO Unit := SgVerif.Proto.run SgVerif.C13.judge
