/-
C13 — Workflow dependencies.  Executable model of the dependency logic of `simgrid::s4u::Activity`
(include/simgrid/s4u/Activity.hpp, src/s4u/s4u_{Activity,Exec,Comm,Io}.cpp) and of the part of
`EngineImpl::handle_ended_actions` that completes maestro-owned activities.

Each activity runs on private resources: once started at date `t` it ends at `t + dur`.
The record carries *ghost* fields (`preds`, `tAssigned`, `tReq`, `tStart`, `tFinish`): they log what happened and are
never read by an operation; theorems are stated on them.
Core-only (the driver is compiled).
-/
namespace SgVerif.C13

/-- `XBT_DECLARE_ENUM_CLASS(State, INITED, STARTING, STARTED, FAILED, CANCELED, FINISHED)` -/
inductive St where
  | inited | starting | started | failed | canceled | finished
  deriving DecidableEq, Repr

inductive Kind where
  | exec | comm | io
  deriving DecidableEq, Repr

structure Act where
  kind : Kind := .exec
  /-- `remains_ > 0` (only read by `Comm::set_source/set_destination`) -/
  remPos : Bool := true
  dur : Rat := 0
  state : St := .inited
  /-- `std::set<ActivityPtr> dependencies_` (a set: insert-if-absent, erase-all) -/
  deps : List Nat := []
  /-- `std::vector<ActivityPtr> successors_` (ordered) -/
  succs : List Nat := []
  /-- Exec: `not hosts.empty()`; Io: `get_disk() != nullptr` (Io streams are not modelled: `get_host() == nullptr`) -/
  hasHost : Bool := false
  /-- Comm: `from_ != nullptr`, `to_ != nullptr` -/
  hasSrc : Bool := false
  hasDst : Bool := false
  -- ghost fields
  /-- activities `a` with a live dependency `a -> this` declared by `add_successor` (and not removed) -/
  preds : List Nat := []
  /-- date at which `is_assigned()` became true -/
  tAssigned : Option Rat := none
  /-- date of the first effective user `start()` -/
  tReq : Option Rat := none
  /-- date of `do_start()` (the `on_start` signal) -/
  tStart : Option Rat := none
  /-- date of `complete(FINISHED)` (the `on_completion` signal) -/
  tFinish : Option Rat := none

/-- observable signals -/
inductive Ev where
  | start (b : Nat) (t : Rat)
  | veto (b : Nat) (t : Rat)
  | finish (b : Nat) (t : Rat) (st : St)

structure Sys where
  n : Nat
  acts : Nat → Act
  now : Rat
  /-- most recent first -/
  trace : List Ev

def upd (f : Nat → Act) (i : Nat) (x : Act) : Nat → Act := fun j => if j = i then x else f j

/-- `Exec::is_assigned` / `Io::is_assigned` (disk mode) / `Comm::is_assigned` (host-to-host, no mailbox) -/
def Act.assigned (x : Act) : Bool :=
  match x.kind with
  | .exec => x.hasHost
  | .io => x.hasHost
  | .comm => x.hasSrc && x.hasDst

def St.isOpen (s : St) : Bool := s == .inited || s == .starting

/-- `Activity::start()`:
```
state_ = State::STARTING;
if (dependencies_solved() && is_assigned()) do_start();     // do_start: state_ = STARTED; fire_on_start()
else { vetoed_activities_->insert(this); fire_on_veto(); }
```
returns the new record and whether `do_start` ran. -/
def Act.start (now : Rat) (x : Act) : Act × Bool :=
  if x.deps.isEmpty && x.assigned then ({ x with state := .started, tStart := some now }, true)
  else ({ x with state := .starting }, false)

def Sys.startAct (s : Sys) (b : Nat) : Sys :=
  let r := (s.acts b).start s.now
  { s with acts := upd s.acts b r.1
           trace := (if r.2 then Ev.start b s.now else Ev.veto b s.now) :: s.trace }

/-- one iteration of `release_dependencies` seen from the successor `x`:
```
b->dependencies_.erase(this);
if (b->dependencies_solved()) b->start();
```
-/
def Act.release (now : Rat) (a : Nat) (x : Act) : Act × Option Bool :=
  let x1 := { x with deps := x.deps.filter (· != a) }
  if x1.deps.isEmpty then
    let r := x1.start now
    (r.1, some r.2)
  else (x1, none)

/-- `while (not successors_.empty()) { b = successors_.back(); …; successors_.pop_back(); }`:
the list given here is `successors_` reversed. -/
def Sys.release (a : Nat) : List Nat → Sys → Sys
  | [], s => s
  | b :: rest, s =>
    let r := (s.acts b).release s.now a
    Sys.release a rest
      { s with acts := upd s.acts b r.1
               trace := match r.2 with
                 | some true => Ev.start b s.now :: s.trace
                 | some false => Ev.veto b s.now :: s.trace
                 | none => s.trace }

/-- `Activity::complete(state)`: `state_ = state; fire_on_completion(); if (state == FINISHED) release_dependencies();`
For a Comm `fire_on_completion()` is an empty override (include/simgrid/s4u/Comm.hpp): the `on_completion` signal is
fired by `CommImpl::finish()`, which `EngineImpl::handle_ended_actions` calls *after* `complete()` returned — so the
signals of the successors started by `release_dependencies` come first in the stream (same date). -/
def Sys.complete (s : Sys) (a : Nat) (st : St) : Sys :=
  let x := s.acts a
  let late := x.kind == .comm
  let s1 : Sys := { s with acts := upd s.acts a { x with state := st, tFinish := some s.now }
                           trace := if late then s.trace else Ev.finish a s.now st :: s.trace }
  if st = .finished then
    let s2 := s1.release a x.succs.reverse
    { s2 with acts := upd s2.acts a { (s2.acts a) with succs := [] }
              trace := if late then Ev.finish a s.now st :: s2.trace else s2.trace }
  else { s1 with trace := if late then Ev.finish a s.now st :: s1.trace else s1.trace }

inductive Field where
  | host | src | dst
  deriving DecidableEq, Repr

/-- the calls a history is made of -/
inductive Label where
  | addSucc (a b : Nat)
  | remSucc (a b : Nat)
  | assign (b : Nat) (f : Field)
  | start (b : Nat)
  /-- the clock jumps to `t` and nothing completes (an actor wakes up) -/
  | advance (t : Rat)
  /-- the kernel reports the end of the action of `a` (`handle_ended_actions` → `complete(FINISHED)`) -/
  | complete (a : Nat)

inductive Err where
  /-- an `xbt_assert` of the code fails (the process aborts) -/
  | assert
  /-- a call outside the domain of the property (see each case) -/
  | misuse
  /-- a kernel label that the clock does not allow -/
  | notEnabled
  deriving DecidableEq, Repr

def finishDate (x : Act) : Option Rat := x.tStart.map (· + x.dur)

/-- no started activity ends strictly before `t` -/
def Sys.noneEndsBefore (s : Sys) (t : Rat) : Bool :=
  (List.range s.n).all fun c =>
    if (s.acts c).state = .started then
      match finishDate (s.acts c) with
      | some f => decide (t ≤ f)
      | none => false
    else true

def Field.okFor (f : Field) (k : Kind) : Bool :=
  match f, k with
  | .host, .exec => true
  | .host, .io => true
  | .src, .comm => true
  | .dst, .comm => true
  | _, _ => false

/-- does `add_successor(a,b)` throw `std::invalid_argument`? -/
def Sys.addSuccThrows (s : Sys) (a b : Nat) : Bool := a == b || (s.acts a).succs.contains b
/-- does `remove_successor(a,b)` throw? -/
def Sys.remSuccThrows (s : Sys) (a b : Nat) : Bool := a == b || !(s.acts a).succs.contains b

def Act.setField (x : Act) (f : Field) : Act :=
  match f with
  | .host => { x with hasHost := true }
  | .src => { x with hasSrc := true }
  | .dst => { x with hasDst := true }

def Act.hasField (x : Act) (f : Field) : Bool :=
  match f with
  | .host => x.hasHost
  | .src => x.hasSrc
  | .dst => x.hasDst

/-- does the setter call `start()` after storing the resource?
`Exec::set_host`, `Io::set_disk`: `if (state_ == STARTING) start();`
`Comm::set_source/set_destination`: `if (state_ == STARTING && remains_ <= 0) /*nothing*/ else start();` -/
def Act.setterStarts (x : Act) : Bool :=
  match x.kind with
  | .comm => !(x.state == .starting && !x.remPos)
  | _ => x.state == .starting

def step (s : Sys) : Label → Except Err Sys
  | .addSucc a b =>
    if ¬ (a < s.n ∧ b < s.n) then .error .misuse
    -- outside the property: declaring a new predecessor of an activity that already started
    else if ¬ (s.acts b).state.isOpen then .error .misuse
    else if s.addSuccThrows a b then .ok s
    else
      -- successors_.push_back(a); a->dependencies_.insert({this});
      let xa := s.acts a
      let acts1 := upd s.acts a { xa with succs := xa.succs ++ [b] }
      let xb := acts1 b
      .ok { s with acts := upd acts1 b { xb with deps := if xb.deps.contains a then xb.deps else a :: xb.deps
                                                 preds := a :: xb.preds } }
  | .remSucc a b =>
    if ¬ (a < s.n ∧ b < s.n) then .error .misuse
    else if s.remSuccThrows a b then .ok s
    else
      -- successors_.erase(p); a->dependencies_.erase({this});
      let xa := s.acts a
      let acts1 := upd s.acts a { xa with succs := xa.succs.erase b }
      let xb := acts1 b
      .ok { s with acts := upd acts1 b { xb with deps := xb.deps.filter (· != a), preds := xb.preds.filter (· != a) } }
  | .assign b f =>
    let x := s.acts b
    if ¬ b < s.n then .error .misuse
    else if ¬ f.okFor x.kind then .error .misuse
    -- Exec::set_host on a STARTED exec migrates it: not modelled
    else if x.kind = .exec ∧ x.state = .started then .error .misuse
    -- xbt_assert(state_ == INITED || state_ == STARTING [|| STARTED for Exec])
    else if ¬ x.state.isOpen then .error .assert
    -- CommImpl::set_source / set_destination: xbt_assert(from_ == nullptr) / xbt_assert(to_ == nullptr)
    else if x.kind = .comm ∧ x.hasField f then .error .assert
    else
      let x1 := x.setField f
      let x2 := { x1 with tAssigned := if x1.assigned && !x.assigned then some s.now else x.tAssigned }
      let s1 := { s with acts := upd s.acts b x2 }
      if x2.setterStarts then .ok (s1.startAct b) else .ok s1
  | .start b =>
    if ¬ b < s.n then .error .misuse
    -- a started / finished activity is not started again (outside the property; the harness guards the call)
    else if ¬ (s.acts b).state.isOpen then .ok s
    else
      let x := s.acts b
      let s1 := { s with acts := upd s.acts b { x with tReq := match x.tReq with | some t => some t | none => some s.now } }
      .ok (s1.startAct b)
  | .advance t =>
    if s.now ≤ t ∧ s.noneEndsBefore t then .ok { s with now := t } else .error .notEnabled
  | .complete a =>
    if ¬ a < s.n then .error .misuse
    else if (s.acts a).state ≠ .started then .error .notEnabled
    else match finishDate (s.acts a) with
      | none => .error .notEnabled
      | some f =>
        if s.now ≤ f ∧ s.noneEndsBefore f then .ok (({ s with now := f } : Sys).complete a .finished)
        else .error .notEnabled

def run (s : Sys) : List Label → Except Err Sys
  | [] => .ok s
  | l :: ls => match step s l with
    | .ok s' => run s' ls
    | .error e => .error e

/-- `n` freshly created activities (`Exec::init()`, `Comm::sendto_init()`, `Io::init()`), clock 0 -/
def init (n : Nat) (kind : Nat → Kind) (dur : Nat → Rat) (remPos : Nat → Bool) : Sys :=
  { n := n, acts := fun i => { kind := kind i, dur := dur i, remPos := remPos i }, now := 0, trace := [] }

/-- `Activity::destroy()` as used by the DAX loader on its placeholder comms (driver only, not part of `Label`):
remove every dependency and successor, then `cancel()` → `complete(CANCELED)`. -/
def Sys.destroy (s : Sys) (x : Nat) : Sys :=
  let s1 := (s.acts x).deps.foldl (fun s a => match step s (.remSucc a x) with | .ok s' => s' | .error _ => s) s
  let s2 := (s1.acts x).succs.foldl (fun s b => match step s (.remSucc x b) with | .ok s' => s' | .error _ => s) s1
  s2.complete x .canceled

/-- restrictions of the liveness theorems: no `remove_successor`, no dependency declared on an activity that already
finished (its `release_dependencies` has run: the successor would wait for ever), comms have a positive size. -/
def liveOk (s : Sys) : Label → Bool
  | .remSucc _ _ => false
  | .addSucc a _ => (s.acts a).state != .finished
  | _ => true

def runL (s : Sys) : List Label → Except Err Sys
  | [] => .ok s
  | l :: ls =>
    if liveOk s l then
      match step s l with
      | .ok s' => runL s' ls
      | .error e => .error e
    else .error .misuse

end SgVerif.C13
