import SgVerif.C13.Lemmas
/-
C13 — Workflow dependencies are respected.  Property theorems over the model of `Activity::{add_successor,
remove_successor, start, complete, release_dependencies}` and the resource setters (Model.lean).

Quantification: every number of activities, every kind/duration table, every *history* `h : List Label` of API calls
(`add_successor`, `remove_successor`, `set_host/set_disk/set_source/set_destination`, `start`) interleaved in any order
with clock jumps and kernel completions.  No bound on sizes or lengths.

`run`  accepts every history inside the property's domain (see `step`: no new predecessor for a started activity, no
       restart of a started activity, no Exec migration);
`runL` further forbids `remove_successor`, a dependency declared on an already finished activity, and zero-size comms:
       the three things that can leave a startable activity waiting for ever in the code as it is (see NOTES.md).
-/
namespace SgVerif.C13

/-- **Safety.**  Whenever an activity has started (its `on_start` fired, at date `t`), it is assigned to its resources
and every predecessor declared for it has finished, at a date `≤ t`.  Every valid history. -/
theorem starts_after_preds_and_assigned (n : Nat) (kind : Nat → Kind) (dur : Nat → Rat) (remPos : Nat → Bool)
    (h : List Label) (s : Sys) (hr : run (init n kind dur remPos) h = .ok s) (b : Nat)
    (hb : (s.acts b).state = .started ∨ (s.acts b).state = .finished) :
    ∃ t, (s.acts b).tStart = some t ∧ (s.acts b).assigned = true ∧
      ∀ a ∈ (s.acts b).preds, (s.acts a).state = .finished ∧ ∃ tf, (s.acts a).tFinish = some tf ∧ tf ≤ t := by
  have inv := run_inv _ s h (init_inv n kind dur remPos) hr
  obtain ⟨t, ht⟩ := inv.started_t b hb
  have := inv.start_ok b t ht
  exact ⟨t, ht, this.2.1, this.2.2.2⟩

/-- a started activity never has an unfinished dependency left, and a finished one ended exactly `dur` after its start -/
theorem finish_eq_start_plus_dur (n : Nat) (kind : Nat → Kind) (dur : Nat → Rat) (remPos : Nat → Bool)
    (h : List Label) (s : Sys) (hr : run (init n kind dur remPos) h = .ok s) (a : Nat) (tf : Rat)
    (hf : (s.acts a).tFinish = some tf) : ∃ ts, (s.acts a).tStart = some ts ∧ tf = ts + (s.acts a).dur := by
  have inv := run_inv _ s h (init_inv n kind dur remPos) hr
  exact (inv.fin_eq a tf hf).2

/-- **Liveness.**  In an acyclic workflow (the predecessor relation of the final state is well-founded — the induction
below *is* the termination argument), if every activity of the workflow was eventually assigned and `start()` was
called on each, nothing was removed / declared late, and the run went on until no activity is running any more, then
every activity has FINISHED. -/
theorem all_finish (n : Nat) (kind : Nat → Kind) (dur : Nat → Rat) (h : List Label) (s : Sys)
    (hr : runL (init n kind dur (fun _ => true)) h = .ok s)
    (hacyc : WellFounded (fun a b => a ∈ (s.acts b).preds))
    (hasg : ∀ b, b < n → (s.acts b).assigned = true)
    (hreq : ∀ b, b < n → Label.start b ∈ h)
    (hquiet : ∀ b, b < n → (s.acts b).state ≠ .started) :
    ∀ b, b < n → (s.acts b).state = .finished := by
  have hrun := runL_run _ s h hr
  obtain ⟨iS, iL⟩ := runL_inv _ s h (init_inv n kind dur _) (initL_inv n kind dur) hr
  have hp := preds_lt_run _ s h (init_inv n kind dur _) hrun (by simp [init])
  have hn : s.n = n := hp.2
  intro b
  induction b using hacyc.induction with
  | _ b ih =>
    intro hb
    have hdeps : (s.acts b).deps = [] := by
      cases hd : (s.acts b).deps with
      | nil => rfl
      | cons a rest =>
        have ha : a ∈ (s.acts b).deps := by rw [hd]; simp
        have hap := iL.deps_preds a b ha
        have := ih a hap (by rw [← hn]; exact hp.1 a b hap)
        exact absurd this (iL.deps_unfinished a b ha)
    have h1 := started_by_user _ s h (init_inv n kind dur _) hrun b hb (Or.inr (hreq b hb))
    have h2 := hquiet b hb
    have h3 := iS.reach b
    have h4 := iL.no_stuck b
    have h5 := hasg b hb
    cases hst : (s.acts b).state with
    | inited => exact absurd hst h1
    | starting => exact absurd ⟨hdeps, h5⟩ (h4 hst)
    | started => exact absurd hst h2
    | failed => exact absurd hst h3.1
    | canceled => exact absurd hst h3.2
    | finished => rfl

/-- `t` is the greatest element of the set `S` of dates -/
def IsMaxOf (t : Rat) (S : Rat → Prop) : Prop := S t ∧ ∀ q, S q → q ≤ t

/-- **Start date.**  The date at which an activity starts is exactly the latest of: the finish dates of its
predecessors, the date at which it became assigned, and the date of its own (first effective) `start()` call.
No acyclicity or completeness hypothesis is needed: it holds for every started activity of every live history. -/
theorem start_eq_max_pred_finish (n : Nat) (kind : Nat → Kind) (dur : Nat → Rat) (h : List Label) (s : Sys)
    (hr : runL (init n kind dur (fun _ => true)) h = .ok s) (b : Nat) (t : Rat)
    (ht : (s.acts b).tStart = some t) :
    IsMaxOf t (fun q => (∃ a ∈ (s.acts b).preds, (s.acts a).tFinish = some q) ∨
                        (s.acts b).tAssigned = some q ∨ (s.acts b).tReq = some q) := by
  obtain ⟨iS, iL⟩ := runL_inv _ s h (init_inv n kind dur _) (initL_inv n kind dur) hr
  have h7 := iL.start_is b t ht
  have h9 := iS.start_ok b t ht
  refine ⟨h7.1, ?_⟩
  intro q hq
  rcases hq with ⟨a, ha, haq⟩ | hq | hq
  · obtain ⟨_, tf, h1, h2⟩ := h9.2.2.2 a ha
    rw [h1] at haq; cases haq; exact h2
  · exact h7.2 q (Or.inl hq)
  · exact h7.2 q (Or.inr hq)

/-- every predecessor of a started activity does have a finish date (so the set above contains all of them) -/
theorem preds_have_finish_dates (n : Nat) (kind : Nat → Kind) (dur : Nat → Rat) (h : List Label) (s : Sys)
    (hr : runL (init n kind dur (fun _ => true)) h = .ok s) (b : Nat) (t : Rat)
    (ht : (s.acts b).tStart = some t) :
    ∀ a ∈ (s.acts b).preds, ∃ ts, (s.acts a).tStart = some ts ∧ (s.acts a).tFinish = some (ts + (s.acts a).dur) ∧
      ts + (s.acts a).dur ≤ t := by
  obtain ⟨iS, _⟩ := runL_inv _ s h (init_inv n kind dur _) (initL_inv n kind dur) hr
  intro a ha
  obtain ⟨_, tf, h1, h2⟩ := (iS.start_ok b t ht).2.2.2 a ha
  obtain ⟨_, ts, h3, h4⟩ := iS.fin_eq a tf h1
  subst h4
  exact ⟨ts, h3, h1, h2⟩

/-! ### Non-vacuity: a concrete history (Exec → Comm → Io, late assignment by an actor at t = 1/2) satisfies the
hypotheses of the three theorems, and the dates are the expected ones. -/

def exLabels : List Label :=
  [.addSucc 0 1, .addSucc 1 2, .assign 0 .host, .assign 1 .src, .start 0, .start 2, .start 1, .advance (1/2),
   .assign 1 .dst, .assign 2 .host, .complete 0, .complete 1, .complete 2]
def exInit : Sys :=
  init 3 (fun i => if i = 1 then .comm else if i = 2 then .io else .exec) (fun i => (i : Rat) + 1) (fun _ => true)
def stateOf (r : Except Err Sys) (b : Nat) : Option St :=
  match r with | .ok s => some (s.acts b).state | .error _ => none
def startOf (r : Except Err Sys) (b : Nat) : Option Rat :=
  match r with | .ok s => (s.acts b).tStart | .error _ => none

example : stateOf (runL exInit exLabels) 0 = some .finished ∧ stateOf (runL exInit exLabels) 1 = some .finished ∧
    stateOf (runL exInit exLabels) 2 = some .finished := by decide +kernel
example : startOf (runL exInit exLabels) 1 = some 1 ∧ startOf (runL exInit exLabels) 2 = some 3 := by decide +kernel
/-- the three quirks excluded by `runL` are real: a dependency declared on a finished activity blocks its successor
for ever (`run` accepts the history, activity 1 stays STARTING although everything it waits for is finished). -/
example : stateOf (run (init 2 (fun _ => .exec) (fun _ => 1) (fun _ => true))
    [.assign 0 .host, .assign 1 .host, .start 0, .complete 0, .addSucc 0 1, .start 1]) 1 = some .starting := by
  decide +kernel

end SgVerif.C13
