import SgVerif.C13.Model
/-
C13 helper lemmas: pointwise description of what each label does to the activity table, then the invariants.
-/
namespace SgVerif.C13

@[simp] theorem upd_same (f : Nat → Act) (i : Nat) (x : Act) : upd f i x i = x := by simp [upd]
theorem upd_other (f : Nat → Act) (i j : Nat) (x : Act) (h : j ≠ i) : upd f i x j = f j := by simp [upd, h]
theorem upd_apply (f : Nat → Act) (i j : Nat) (x : Act) : upd f i x j = if j = i then x else f j := rfl

@[simp] theorem isOpen_iff (s : St) : s.isOpen = true ↔ (s = .inited ∨ s = .starting) := by
  cases s <;> simp [St.isOpen]

/-! ### `Act.start`, `Act.release` field by field -/

theorem Act.start_fields (now : Rat) (x : Act) :
    let y := (x.start now).1
    y.kind = x.kind ∧ y.remPos = x.remPos ∧ y.dur = x.dur ∧ y.deps = x.deps ∧ y.succs = x.succs ∧
    y.hasHost = x.hasHost ∧ y.hasSrc = x.hasSrc ∧ y.hasDst = x.hasDst ∧ y.preds = x.preds ∧
    y.tAssigned = x.tAssigned ∧ y.tReq = x.tReq ∧ y.tFinish = x.tFinish ∧ y.assigned = x.assigned := by
  unfold Act.start
  split <;> simp [Act.assigned]

theorem Act.start_true (now : Rat) (x : Act) (h : (x.deps.isEmpty && x.assigned) = true) :
    (x.start now).1.state = .started ∧ (x.start now).1.tStart = some now := by
  unfold Act.start; simp [h]

theorem Act.start_false (now : Rat) (x : Act) (h : (x.deps.isEmpty && x.assigned) = false) :
    (x.start now).1.state = .starting ∧ (x.start now).1.tStart = x.tStart := by
  unfold Act.start; simp [h]

/-! ### `Sys.release` pointwise -/

theorem release_now (a : Nat) (L : List Nat) (s : Sys) : (Sys.release a L s).now = s.now := by
  induction L generalizing s with
  | nil => rfl
  | cons b rest ih => simp only [Sys.release]; rw [ih]

theorem release_n (a : Nat) (L : List Nat) (s : Sys) : (Sys.release a L s).n = s.n := by
  induction L generalizing s with
  | nil => rfl
  | cons b rest ih => simp only [Sys.release]; rw [ih]

theorem release_acts (a : Nat) (L : List Nat) (hnd : L.Nodup) (s : Sys) (c : Nat) :
    (Sys.release a L s).acts c = if c ∈ L then ((s.acts c).release s.now a).1 else s.acts c := by
  induction L generalizing s with
  | nil => simp [Sys.release]
  | cons b rest ih =>
    have hb : b ∉ rest := (List.nodup_cons.mp hnd).1
    have hr : rest.Nodup := (List.nodup_cons.mp hnd).2
    simp only [Sys.release]
    rw [ih hr]
    by_cases hc : c = b
    · subst hc
      simp [hb]
    · simp [hc, upd_other]


theorem nodup_rev (l : List Nat) (h : l.Nodup) : l.reverse.Nodup := by
  unfold List.Nodup at *
  rw [List.pairwise_reverse]
  exact h.imp (fun hab => Ne.symm hab)

theorem complete_acts (s : Sys) (a : Nat) (hnd : (s.acts a).succs.Nodup) (hself : a ∉ (s.acts a).succs) (c : Nat) :
    (s.complete a .finished).acts c =
      if c = a then { s.acts a with state := .finished, tFinish := some s.now, succs := [] }
      else if c ∈ (s.acts a).succs then ((s.acts c).release s.now a).1 else s.acts c := by
  simp only [Sys.complete, if_true]
  have hr : (s.acts a).succs.reverse.Nodup := nodup_rev _ hnd
  by_cases hc : c = a
  · subst hc
    simp
    rw [release_acts _ _ hr]
    simp [hself]
  · simp only [upd_apply, hc, if_false]
    rw [release_acts _ _ hr]
    simp [upd_apply, hc]

theorem complete_now (s : Sys) (a : Nat) (st : St) : (s.complete a st).now = s.now := by
  simp only [Sys.complete]
  split
  · simp [release_now]
  · rfl

theorem complete_n (s : Sys) (a : Nat) (st : St) : (s.complete a st).n = s.n := by
  simp only [Sys.complete]
  split
  · simp [release_n]
  · rfl

/-! ### Safety invariants (every valid history) -/

structure InvS (s : Sys) : Prop where
  succs_deps : ∀ a b, b ∈ (s.acts a).succs → a ∈ (s.acts b).deps
  deps_succs : ∀ a b, a ∈ (s.acts b).deps → b ∈ (s.acts a).succs
  nodup : ∀ a, (s.acts a).succs.Nodup
  deps_open : ∀ b, (s.acts b).deps ≠ [] → ((s.acts b).state = .inited ∨ (s.acts b).state = .starting)
  pred_cases : ∀ a b, a ∈ (s.acts b).preds → a ∈ (s.acts b).deps ∨ (s.acts a).state = .finished
  reach : ∀ b, (s.acts b).state ≠ .failed ∧ (s.acts b).state ≠ .canceled
  fin_time : ∀ a, (s.acts a).state = .finished → ∃ t, (s.acts a).tFinish = some t ∧ t ≤ s.now
  started_t : ∀ b, (s.acts b).state = .started ∨ (s.acts b).state = .finished → ∃ t, (s.acts b).tStart = some t
  start_ok : ∀ b t, (s.acts b).tStart = some t →
    ((s.acts b).state = .started ∨ (s.acts b).state = .finished) ∧ (s.acts b).assigned = true ∧ t ≤ s.now ∧
    ∀ a ∈ (s.acts b).preds, (s.acts a).state = .finished ∧ ∃ tf, (s.acts a).tFinish = some tf ∧ tf ≤ t
  fin_eq : ∀ a tf, (s.acts a).tFinish = some tf →
    (s.acts a).state = .finished ∧ ∃ ts, (s.acts a).tStart = some ts ∧ tf = ts + (s.acts a).dur


/-! ### Effects of each label, field by field -/

theorem setterStarts_iff (x : Act) : x.setterStarts = true ↔
    ((x.kind = .comm ∧ (x.state = .starting → x.remPos = true)) ∨ (x.kind ≠ .comm ∧ x.state = .starting)) := by
  unfold Act.setterStarts
  cases hk : x.kind <;> by_cases h : x.state = .starting <;> simp [h]

theorem assigned_congr (x y : Act) (hk : y.kind = x.kind) (h1 : y.hasHost = x.hasHost) (h2 : y.hasSrc = x.hasSrc)
    (h3 : y.hasDst = x.hasDst) : y.assigned = x.assigned := by
  unfold Act.assigned; rw [hk, h1, h2, h3]

/-- what `Activity::start()` does to the fields, as equations -/
theorem Act.start_eff (now : Rat) (x : Act) :
    let y := (x.start now).1
    y.kind = x.kind ∧ y.remPos = x.remPos ∧ y.dur = x.dur ∧ y.deps = x.deps ∧ y.succs = x.succs ∧
    y.hasHost = x.hasHost ∧ y.hasSrc = x.hasSrc ∧ y.hasDst = x.hasDst ∧ y.preds = x.preds ∧
    y.tAssigned = x.tAssigned ∧ y.tReq = x.tReq ∧ y.tFinish = x.tFinish ∧ y.assigned = x.assigned ∧
    y.state = (if x.deps = [] ∧ x.assigned = true then St.started else St.starting) ∧
    y.tStart = (if x.deps = [] ∧ x.assigned = true then some now else x.tStart) := by
  have ha : ((x.start now).1).assigned = x.assigned := by
    unfold Act.start; split <;> exact assigned_congr _ _ rfl rfl rfl rfl
  refine ⟨?_, ?_, ?_, ?_, ?_, ?_, ?_, ?_, ?_, ?_, ?_, ?_, ha, ?_, ?_⟩ <;>
    (unfold Act.start; by_cases h1 : x.deps = [] <;> by_cases h2 : x.assigned = true <;> simp [h1, h2])

theorem start_eff (s s' : Sys) (b : Nat) (hs : step s (.start b) = .ok s') :
    s' = s ∨ (((s.acts b).state = .inited ∨ (s.acts b).state = .starting) ∧ s'.now = s.now ∧ s'.n = s.n ∧
      (∀ c, c ≠ b → s'.acts c = s.acts c) ∧
      (let x := s.acts b; let y := s'.acts b
       y.kind = x.kind ∧ y.remPos = x.remPos ∧ y.dur = x.dur ∧ y.deps = x.deps ∧ y.succs = x.succs ∧
       y.hasHost = x.hasHost ∧ y.hasSrc = x.hasSrc ∧ y.hasDst = x.hasDst ∧ y.preds = x.preds ∧
       y.tAssigned = x.tAssigned ∧ y.tFinish = x.tFinish ∧ y.assigned = x.assigned ∧
       y.tReq = (match x.tReq with | some t => some t | none => some s.now) ∧
       y.state = (if x.deps = [] ∧ x.assigned = true then St.started else St.starting) ∧
       y.tStart = (if x.deps = [] ∧ x.assigned = true then some s.now else x.tStart))) := by
  simp only [step] at hs
  split at hs
  · cases hs
  split at hs
  · cases hs; exact Or.inl rfl
  rename_i h1 h2
  simp only [isOpen_iff, Decidable.not_not] at h2
  cases hs
  refine Or.inr ⟨h2, rfl, rfl, ?_, ?_⟩
  · intro c hc; simp [Sys.startAct, upd_apply, hc]
  · have := Act.start_eff s.now { s.acts b with tReq := match (s.acts b).tReq with | some t => some t | none => some s.now }
    simp only [Sys.startAct, upd_same]
    obtain ⟨e1, e2, e3, e4, e5, e6, e7, e8, e9, e10, e11, e12, e13, e14, e15⟩ := this
    have ea : Act.assigned { s.acts b with tReq := match (s.acts b).tReq with | some t => some t | none => some s.now } = (s.acts b).assigned :=
      assigned_congr _ _ rfl rfl rfl rfl
    rw [ea] at e13 e14 e15
    exact ⟨e1, e2, e3, e4, e5, e6, e7, e8, e9, e10, e12, e13, e11, e14, e15⟩

/-- fields that only the resource setters touch -/
def Act.sameRes (x y : Act) : Prop :=
  y.kind = x.kind ∧ y.remPos = x.remPos ∧ y.dur = x.dur ∧ y.hasHost = x.hasHost ∧ y.hasSrc = x.hasSrc ∧
  y.hasDst = x.hasDst ∧ y.tAssigned = x.tAssigned ∧ y.assigned = x.assigned

theorem addSucc_eff (s s' : Sys) (a b : Nat) (hs : step s (.addSucc a b) = .ok s') :
    s' = s ∨ (a ≠ b ∧ b ∉ (s.acts a).succs ∧ ((s.acts b).state = .inited ∨ (s.acts b).state = .starting) ∧
      s'.now = s.now ∧ s'.n = s.n ∧ ∀ c,
      (s.acts c).sameRes (s'.acts c) ∧ (s'.acts c).state = (s.acts c).state ∧ (s'.acts c).tReq = (s.acts c).tReq ∧
      (s'.acts c).tStart = (s.acts c).tStart ∧ (s'.acts c).tFinish = (s.acts c).tFinish ∧
      (s'.acts c).succs = (if c = a then (s.acts c).succs ++ [b] else (s.acts c).succs) ∧
      (s'.acts c).deps = (if c = b then (if a ∈ (s.acts c).deps then (s.acts c).deps else a :: (s.acts c).deps) else (s.acts c).deps) ∧
      (s'.acts c).preds = (if c = b then a :: (s.acts c).preds else (s.acts c).preds)) := by
  simp only [step] at hs
  split at hs
  · cases hs
  split at hs
  · cases hs
  split at hs
  · cases hs; exact Or.inl rfl
  rename_i h1 h2 h3
  simp only [Sys.addSuccThrows, Bool.or_eq_true, beq_iff_eq, List.contains_eq_mem, decide_eq_true_eq, not_or] at h3
  simp only [isOpen_iff, Decidable.not_not] at h2
  cases hs
  obtain ⟨hab, hnot⟩ := h3
  have hba : ¬ b = a := fun e => hab e.symm
  refine Or.inr ⟨hab, hnot, h2, rfl, rfl, ?_⟩
  intro c
  by_cases hca : c = a <;> by_cases hcb : c = b <;> simp [upd_apply, Act.sameRes, Act.assigned, *]

theorem addSucc_inv (s s' : Sys) (a b : Nat) (h : InvS s) (hs : step s (.addSucc a b) = .ok s') : InvS s' := by
  rcases addSucc_eff s s' a b hs with rfl | ⟨hab, hnot, hopen, hnow, hn, E⟩
  · exact h
  have ⟨i1, i2, i3, i4, i5, i6, i7, i8, i9, i10⟩ := h
  simp only [Act.sameRes] at E
  constructor
  · intro x y; have := E x; have := E y; grind
  · intro x y; have := E x; have := E y; grind
  · intro x; have := E x; grind [List.nodup_append]
  · intro x; have := E x; grind
  · intro x y; have := E x; have := E y; grind
  · intro x; have := E x; grind
  · intro x; have := E x; grind
  · intro x; have := E x; grind
  · intro x t; have := E x; grind
  · intro x t; have := E x; grind



theorem remSucc_eff (s s' : Sys) (a b : Nat) (hs : step s (.remSucc a b) = .ok s') :
    s' = s ∨ (a ≠ b ∧ b ∈ (s.acts a).succs ∧ s'.now = s.now ∧ s'.n = s.n ∧ ∀ c,
      (s.acts c).sameRes (s'.acts c) ∧ (s'.acts c).state = (s.acts c).state ∧ (s'.acts c).tReq = (s.acts c).tReq ∧
      (s'.acts c).tStart = (s.acts c).tStart ∧ (s'.acts c).tFinish = (s.acts c).tFinish ∧
      (s'.acts c).succs = (if c = a then (s.acts c).succs.erase b else (s.acts c).succs) ∧
      (s'.acts c).deps = (if c = b then (s.acts c).deps.filter (· != a) else (s.acts c).deps) ∧
      (s'.acts c).preds = (if c = b then (s.acts c).preds.filter (· != a) else (s.acts c).preds)) := by
  simp only [step] at hs
  split at hs
  · cases hs
  split at hs
  · cases hs; exact Or.inl rfl
  rename_i h1 h3
  simp only [Sys.remSuccThrows, Bool.or_eq_true, beq_iff_eq, List.contains_eq_mem, not_or,
    Bool.not_eq_true', decide_eq_false_iff_not, Decidable.not_not] at h3
  cases hs
  obtain ⟨hab, hin⟩ := h3
  have hba : ¬ b = a := fun e => hab e.symm
  refine Or.inr ⟨hab, hin, rfl, rfl, ?_⟩
  intro c
  by_cases hca : c = a <;> by_cases hcb : c = b <;> simp [upd_apply, Act.sameRes, Act.assigned, *]

theorem remSucc_inv (s s' : Sys) (a b : Nat) (h : InvS s) (hs : step s (.remSucc a b) = .ok s') : InvS s' := by
  rcases remSucc_eff s s' a b hs with rfl | ⟨hab, hin, hnow, hn, E⟩
  · exact h
  have ⟨i1, i2, i3, i4, i5, i6, i7, i8, i9, i10⟩ := h
  simp only [Act.sameRes] at E
  constructor
  · intro x y; have := E x; have := E y; have := i3 a; grind [List.Nodup.mem_erase_iff]
  · intro x y; have := E x; have := E y; have := i3 a; grind [List.Nodup.mem_erase_iff]
  · intro x; have := E x; have := i3 x; grind [List.Nodup.erase]
  · intro x; have := E x; grind
  · intro x y; have := E x; have := E y; grind
  · intro x; have := E x; grind
  · intro x; have := E x; grind
  · intro x; have := E x; grind
  · intro x t; have := E x; grind
  · intro x t; have := E x; grind


theorem setField_eff (x : Act) (f : Field) :
    (x.setField f).kind = x.kind ∧ (x.setField f).remPos = x.remPos ∧ (x.setField f).dur = x.dur ∧
    (x.setField f).state = x.state ∧ (x.setField f).deps = x.deps ∧ (x.setField f).succs = x.succs ∧
    (x.setField f).preds = x.preds ∧ (x.setField f).tAssigned = x.tAssigned ∧ (x.setField f).tReq = x.tReq ∧
    (x.setField f).tStart = x.tStart ∧ (x.setField f).tFinish = x.tFinish ∧
    (x.assigned = true → (x.setField f).assigned = true) := by
  cases f <;> simp [Act.setField, Act.assigned] <;> cases x.kind <;> simp <;> intros <;> simp_all

theorem assign_eff (s s' : Sys) (b : Nat) (f : Field) (hs : step s (.assign b f) = .ok s') :
    ((s.acts b).state = .inited ∨ (s.acts b).state = .starting) ∧ s'.now = s.now ∧ s'.n = s.n ∧
      (∀ c, c ≠ b → s'.acts c = s.acts c) ∧
      (let x := s.acts b; let y := s'.acts b
       y.kind = x.kind ∧ y.remPos = x.remPos ∧ y.dur = x.dur ∧ y.deps = x.deps ∧ y.succs = x.succs ∧
       y.preds = x.preds ∧ y.tFinish = x.tFinish ∧ y.tReq = x.tReq ∧
       y.assigned = (x.setField f).assigned ∧ (x.assigned = true → y.assigned = true) ∧
       y.tAssigned = (if y.assigned = true ∧ x.assigned = false then some s.now else x.tAssigned) ∧
       y.state = (if x.setterStarts = true then (if x.deps = [] ∧ y.assigned = true then St.started else St.starting) else x.state) ∧
       y.tStart = (if x.setterStarts = true ∧ x.deps = [] ∧ y.assigned = true then some s.now else x.tStart)) := by
  simp only [step] at hs
  split at hs
  · cases hs
  split at hs
  · cases hs
  split at hs
  · cases hs
  split at hs
  · cases hs
  split at hs
  · cases hs
  rename_i h1 h2 h3 h4 h5
  simp only [isOpen_iff, Decidable.not_not] at h4
  have sf := setField_eff (s.acts b) f
  obtain ⟨f1, f2, f3, f4, f5, f6, f7, f8, f9, f10, f11, f12⟩ := sf
  -- the record after the setter, before the possible start()
  generalize hx2 : ({ (s.acts b).setField f with tAssigned := if ((s.acts b).setField f).assigned && !(s.acts b).assigned then some s.now else (s.acts b).tAssigned } : Act) = x2 at hs
  have a2 : x2.assigned = ((s.acts b).setField f).assigned := by rw [← hx2]; exact assigned_congr _ _ rfl rfl rfl rfl
  have k2 : x2.kind = (s.acts b).kind := by rw [← hx2]; exact f1
  have st2 : x2.state = (s.acts b).state := by rw [← hx2]; exact f4
  have r2 : x2.remPos = (s.acts b).remPos := by rw [← hx2]; exact f2
  have ss : x2.setterStarts = (s.acts b).setterStarts := by unfold Act.setterStarts; rw [k2, st2, r2]
  have d2 : x2.deps = (s.acts b).deps := by rw [← hx2]; exact f5
  have ta2 : x2.tAssigned = (if ((s.acts b).setField f).assigned = true ∧ (s.acts b).assigned = false then some s.now else (s.acts b).tAssigned) := by
    rw [← hx2]; simp
  split at hs
  · rename_i htrig
    cases hs
    refine ⟨h4, rfl, rfl, ?_, ?_⟩
    · intro c hc; simp [Sys.startAct, upd_apply, hc]
    · have e := Act.start_eff s.now x2
      simp only [Sys.startAct, upd_same]
      obtain ⟨e1, e2, e3, e4, e5, e6, e7, e8, e9, e10, e11, e12, e13, e14, e15⟩ := e
      rw [ss] at htrig
      simp only [htrig, if_true, true_and]
      rw [e13, a2]
      refine ⟨by rw [e1, k2], by rw [e2, r2], by rw [e3, ← hx2]; exact f3, by rw [e4, d2], by rw [e5, ← hx2]; exact f6,
        by rw [e9, ← hx2]; exact f7, by rw [e12, ← hx2]; exact f11, by rw [e11, ← hx2]; exact f9, rfl, f12,
        by rw [e10, ta2], ?_, ?_⟩
      · rw [e14, d2, a2]
      · rw [e15, d2, a2, ← hx2]; simp [f10]
  · rename_i htrig
    cases hs
    refine ⟨h4, rfl, rfl, ?_, ?_⟩
    · intro c hc; simp [upd_apply, hc]
    · simp only [upd_same]
      rw [ss] at htrig
      simp only [htrig]
      rw [a2]
      refine ⟨k2, r2, by rw [← hx2]; exact f3, d2, by rw [← hx2]; exact f6, by rw [← hx2]; exact f7,
        by rw [← hx2]; exact f11, by rw [← hx2]; exact f9, rfl, f12, ta2, ?_, ?_⟩
      · simpa using st2
      · rw [← hx2]; simpa using f10



theorem assign_inv (s s' : Sys) (b : Nat) (f : Field) (h : InvS s) (hs : step s (.assign b f) = .ok s') : InvS s' := by
  obtain ⟨hopen, hnow, hn, E0, E⟩ := assign_eff s s' b f hs
  have ⟨i1, i2, i3, i4, i5, i6, i7, i8, i9, i10⟩ := h
  simp only at E
  constructor
  · intro x y; have := E0 x; have := E0 y; grind
  · intro x y; have := E0 x; have := E0 y; grind
  · intro x; have := E0 x; grind
  · intro x; have := E0 x; grind
  · intro x y; have := E0 x; have := E0 y; grind
  · intro x; have := E0 x; grind
  · intro x; have := E0 x; grind
  · intro x; have := E0 x; grind
  · intro x t; have := E0 x
    by_cases hx : x = b
    · subst hx
      intro ht
      refine ⟨by grind, by grind, by grind, ?_⟩
      intro a ha
      have := E0 a
      have := i5 a x
      have := i7 a
      grind
    · intro ht
      rw [E0 x hx] at ht ⊢
      have h9 := i9 x t ht
      refine ⟨h9.1, h9.2.1, by grind, ?_⟩
      intro a ha
      have := E0 a
      have := h9.2.2.2 a ha
      grind
  · intro x t; have := E0 x; grind

theorem start_inv (s s' : Sys) (b : Nat) (h : InvS s) (hs : step s (.start b) = .ok s') : InvS s' := by
  rcases start_eff s s' b hs with rfl | ⟨hopen, hnow, hn, E0, E⟩
  · exact h
  have ⟨i1, i2, i3, i4, i5, i6, i7, i8, i9, i10⟩ := h
  simp only at E
  constructor
  · intro x y; have := E0 x; have := E0 y; grind
  · intro x y; have := E0 x; have := E0 y; grind
  · intro x; have := E0 x; grind
  · intro x; have := E0 x; grind
  · intro x y; have := E0 x; have := E0 y; grind
  · intro x; have := E0 x; grind
  · intro x; have := E0 x; grind
  · intro x; have := E0 x; grind
  · intro x t; have := E0 x
    by_cases hx : x = b
    · subst hx
      intro ht
      refine ⟨by grind, by grind, by grind, ?_⟩
      intro a ha
      have := E0 a
      have := i5 a x
      have := i7 a
      grind
    · intro ht
      rw [E0 x hx] at ht ⊢
      have h9 := i9 x t ht
      refine ⟨h9.1, h9.2.1, by grind, ?_⟩
      intro a ha
      have := E0 a
      have := h9.2.2.2 a ha
      grind
  · intro x t; have := E0 x; grind



theorem Act.release_eff (now : Rat) (a : Nat) (x : Act) :
    let y := (x.release now a).1
    y.kind = x.kind ∧ y.remPos = x.remPos ∧ y.dur = x.dur ∧ y.succs = x.succs ∧
    y.preds = x.preds ∧ y.tAssigned = x.tAssigned ∧ y.tReq = x.tReq ∧ y.tFinish = x.tFinish ∧ y.assigned = x.assigned ∧
    y.deps = x.deps.filter (· != a) ∧
    y.state = (if x.deps.filter (· != a) = [] then (if x.assigned = true then St.started else St.starting) else x.state) ∧
    y.tStart = (if x.deps.filter (· != a) = [] ∧ x.assigned = true then some now else x.tStart) := by
  have e := Act.start_eff now { x with deps := x.deps.filter (· != a) }
  have ea : Act.assigned { x with deps := x.deps.filter (· != a) } = x.assigned := assigned_congr _ _ rfl rfl rfl rfl
  obtain ⟨e1, e2, e3, e4, e5, e6, e7, e8, e9, e10, e11, e12, e13, e14, e15⟩ := e
  rw [ea] at e13 e14 e15
  simp only at e4 e14 e15
  unfold Act.release
  dsimp only
  by_cases hf : x.deps.filter (· != a) = []
  · rw [if_pos (by simp [hf])]
    dsimp only
    refine ⟨e1, e2, e3, e5, e9, e10, e11, e12, e13, ?_, ?_, ?_⟩
    · rw [e4]
    · rw [e14]; by_cases h : x.assigned = true <;> simp [hf, h]
    · rw [e15]
  · rw [if_neg (by simp [hf])]
    dsimp only
    simp only [hf, false_and, if_false]
    simp only [true_and, and_true]
    exact assigned_congr _ _ rfl rfl rfl rfl

theorem complete_eff (s s' : Sys) (a : Nat) (h : InvS s) (hs : step s (.complete a) = .ok s') :
    (s.acts a).state = .started ∧ a ∉ (s.acts a).succs ∧ ∃ f ts, (s.acts a).tStart = some ts ∧ f = ts + (s.acts a).dur ∧
      s.now ≤ f ∧ s.noneEndsBefore f = true ∧
      s'.now = f ∧ s'.n = s.n ∧
      (∀ c, c ≠ a → c ∉ (s.acts a).succs → s'.acts c = s.acts c) ∧
      (let x := s.acts a; let y := s'.acts a
        y.kind = x.kind ∧ y.remPos = x.remPos ∧ y.dur = x.dur ∧ y.deps = x.deps ∧ y.preds = x.preds ∧
        y.tAssigned = x.tAssigned ∧ y.tReq = x.tReq ∧ y.tStart = x.tStart ∧ y.assigned = x.assigned ∧
        y.state = .finished ∧ y.tFinish = some f ∧ y.succs = []) ∧
      (∀ c, c ≠ a → c ∈ (s.acts a).succs →
        let x := s.acts c; let y := s'.acts c
        y.kind = x.kind ∧ y.remPos = x.remPos ∧ y.dur = x.dur ∧ y.succs = x.succs ∧
        y.preds = x.preds ∧ y.tAssigned = x.tAssigned ∧ y.tReq = x.tReq ∧ y.tFinish = x.tFinish ∧ y.assigned = x.assigned ∧
        y.deps = x.deps.filter (· != a) ∧
        y.state = (if x.deps.filter (· != a) = [] then (if x.assigned = true then St.started else St.starting) else x.state) ∧
        y.tStart = (if x.deps.filter (· != a) = [] ∧ x.assigned = true then some f else x.tStart)) := by
  simp only [step] at hs
  split at hs
  · cases hs
  split at hs
  · cases hs
  rename_i h1 h2
  simp only [ne_eq, Decidable.not_not] at h2
  have hself : a ∉ (s.acts a).succs := by
    intro hm
    have := h.succs_deps a a hm
    have := h.deps_open a (by intro e; rw [e] at this; cases this)
    rw [h2] at this
    cases this <;> rename_i h' <;> cases h'
  cases hts : (s.acts a).tStart with
  | none => simp [finishDate, hts] at hs
  | some ts =>
    simp only [finishDate, hts, Option.map_some] at hs
    split at hs
    · rename_i hen
      cases hs
      refine ⟨h2, hself, ts + (s.acts a).dur, ts, rfl, rfl, hen.1, hen.2, ?_, ?_, ?_, ?_, ?_⟩
      · rw [complete_now]
      · rw [complete_n]
      · intro c hca hcs
        rw [complete_acts { s with now := ts + (s.acts a).dur } a (h.nodup a) hself]
        simp [hca, hcs]
      · rw [complete_acts { s with now := ts + (s.acts a).dur } a (h.nodup a) hself]
        rw [if_pos rfl]
        exact ⟨rfl, rfl, rfl, rfl, rfl, rfl, rfl, rfl, assigned_congr _ _ rfl rfl rfl rfl, rfl, rfl, rfl⟩
      · intro c hca hcs
        rw [complete_acts { s with now := ts + (s.acts a).dur } a (h.nodup a) hself]
        rw [if_neg hca, if_pos hcs]
        exact Act.release_eff _ a (s.acts c)
    · cases hs



theorem filter_ne_mem (l : List Nat) (a c : Nat) : c ∈ l.filter (· != a) ↔ c ∈ l ∧ c ≠ a := by
  simp [List.mem_filter]

theorem complete_inv (s s' : Sys) (a : Nat) (h : InvS s) (hs : step s (.complete a) = .ok s') : InvS s' := by
  obtain ⟨hst, hself, f, ts, hts, hf, hle, hnone, hnow, hn, E0, Ea, Es⟩ := complete_eff s s' a h hs
  have ⟨i1, i2, i3, i4, i5, i6, i7, i8, i9, i10⟩ := h
  simp only at Ea Es
  have hdepsa : (s.acts a).deps = [] := by
    have := i4 a
    grind
  -- classification of any index
  have cls : ∀ c, c = a ∨ (c ≠ a ∧ c ∈ (s.acts a).succs) ∨ (c ≠ a ∧ c ∉ (s.acts a).succs) := by
    intro c; by_cases h1 : c = a <;> by_cases h2 : c ∈ (s.acts a).succs <;> simp [h1, h2]
  constructor
  · -- succs_deps
    intro x y hy
    rcases cls x with rfl | ⟨hxa, hxs⟩ | ⟨hxa, hxs⟩
    · rw [Ea.2.2.2.2.2.2.2.2.2.2.2] at hy; cases hy
    · have ex := Es x hxa hxs
      rw [ex.2.2.2.1] at hy
      have := i1 x y hy
      rcases cls y with rfl | ⟨hya, hys⟩ | ⟨hya, hys⟩
      · rw [hdepsa] at this; cases this
      · rw [(Es y hya hys).2.2.2.2.2.2.2.2.2.1, filter_ne_mem]; exact ⟨this, hxa⟩
      · rw [E0 y hya hys]; exact this
    · rw [E0 x hxa hxs] at hy
      have := i1 x y hy
      rcases cls y with rfl | ⟨hya, hys⟩ | ⟨hya, hys⟩
      · rw [hdepsa] at this; cases this
      · rw [(Es y hya hys).2.2.2.2.2.2.2.2.2.1, filter_ne_mem]; exact ⟨this, hxa⟩
      · rw [E0 y hya hys]; exact this
  · -- deps_succs
    intro x y hx
    have hx' : x ∈ (s.acts y).deps ∧ x ≠ a := by
      rcases cls y with rfl | ⟨hya, hys⟩ | ⟨hya, hys⟩
      · rw [Ea.2.2.2.1, hdepsa] at hx; cases hx
      · rw [(Es y hya hys).2.2.2.2.2.2.2.2.2.1, filter_ne_mem] at hx; exact hx
      · rw [E0 y hya hys] at hx
        refine ⟨hx, ?_⟩
        intro e; subst e; exact hys (i2 _ _ hx)
    have := i2 x y hx'.1
    rcases cls x with rfl | ⟨hxa, hxs⟩ | ⟨hxa, hxs⟩
    · exact absurd rfl hx'.2
    · rw [(Es x hxa hxs).2.2.2.1]; exact this
    · rw [E0 x hxa hxs]; exact this
  · intro x
    rcases cls x with rfl | ⟨hxa, hxs⟩ | ⟨hxa, hxs⟩
    · rw [Ea.2.2.2.2.2.2.2.2.2.2.2]; exact List.nodup_nil
    · rw [(Es x hxa hxs).2.2.2.1]; exact i3 x
    · rw [E0 x hxa hxs]; exact i3 x
  · intro x hx
    rcases cls x with rfl | ⟨hxa, hxs⟩ | ⟨hxa, hxs⟩
    · rw [Ea.2.2.2.1] at hx; exact absurd hdepsa hx
    · have ex := Es x hxa hxs
      rw [ex.2.2.2.2.2.2.2.2.2.1] at hx
      rw [ex.2.2.2.2.2.2.2.2.2.2.1, if_neg hx]
      apply i4 x
      intro e; rw [e] at hx; exact hx rfl
    · rw [E0 x hxa hxs] at hx ⊢; exact i4 x hx
  · -- pred_cases
    intro x y hx
    have hfa : (s'.acts a).state = .finished := Ea.2.2.2.2.2.2.2.2.2.1
    by_cases hxa : x = a
    · subst hxa; exact Or.inr hfa
    have hxfin : (s.acts x).state = .finished → (s'.acts x).state = .finished := by
      intro hfin
      rcases cls x with rfl | ⟨_, hxs⟩ | ⟨_, hxs⟩
      · exact hfa
      · have := i1 a x hxs
        have := i4 x (by intro e; rw [e] at this; cases this)
        rw [hfin] at this; cases this <;> rename_i h' <;> cases h'
      · rw [E0 x hxa hxs]; exact hfin
    rcases cls y with rfl | ⟨hya, hys⟩ | ⟨hya, hys⟩
    · rw [Ea.2.2.2.2.1] at hx
      rcases i5 x y hx with h1 | h1
      · rw [hdepsa] at h1; cases h1
      · exact Or.inr (hxfin h1)
    · have ey := Es y hya hys
      rw [ey.2.2.2.2.1] at hx
      rcases i5 x y hx with h1 | h1
      · left; rw [ey.2.2.2.2.2.2.2.2.2.1, filter_ne_mem]; exact ⟨h1, hxa⟩
      · exact Or.inr (hxfin h1)
    · rw [E0 y hya hys] at hx ⊢
      rcases i5 x y hx with h1 | h1
      · exact Or.inl h1
      · exact Or.inr (hxfin h1)
  · intro x
    rcases cls x with rfl | ⟨hxa, hxs⟩ | ⟨hxa, hxs⟩
    · rw [Ea.2.2.2.2.2.2.2.2.2.1]; simp
    · have ex := Es x hxa hxs
      have := i6 x
      rw [ex.2.2.2.2.2.2.2.2.2.2.1]
      grind
    · rw [E0 x hxa hxs]; exact i6 x
  · -- fin_time
    intro x hx
    rcases cls x with rfl | ⟨hxa, hxs⟩ | ⟨hxa, hxs⟩
    · exact ⟨f, Ea.2.2.2.2.2.2.2.2.2.2.1, by rw [hnow]; exact Rat.le_refl⟩
    · have ex := Es x hxa hxs
      rw [ex.2.2.2.2.2.2.2.2.2.2.1] at hx
      have := i7 x
      have := i1 a x hxs
      have := i4 x (by intro e; rw [e] at this; cases this)
      grind
    · rw [E0 x hxa hxs] at hx ⊢
      obtain ⟨t, h1, h2⟩ := i7 x hx
      exact ⟨t, h1, by rw [hnow]; exact Rat.le_trans h2 hle⟩
  · -- started_t
    intro x hx
    rcases cls x with rfl | ⟨hxa, hxs⟩ | ⟨hxa, hxs⟩
    · rw [Ea.2.2.2.2.2.2.2.1]; exact ⟨ts, hts⟩
    · have ex := Es x hxa hxs
      rw [ex.2.2.2.2.2.2.2.2.2.2.1] at hx
      rw [ex.2.2.2.2.2.2.2.2.2.2.2]
      have := i8 x
      grind
    · rw [E0 x hxa hxs] at hx ⊢; exact i8 x hx
  · -- start_ok
    intro x t ht
    have hfa : (s'.acts a).state = .finished := Ea.2.2.2.2.2.2.2.2.2.1
    have hfin : ∀ c tf, (s.acts c).state = .finished → (s.acts c).tFinish = some tf →
        (s'.acts c).state = .finished ∧ (s'.acts c).tFinish = some tf := by
      intro c tf hc htf
      rcases cls c with rfl | ⟨hca, hcs⟩ | ⟨hca, hcs⟩
      · rw [hst] at hc; cases hc
      · have := i1 a c hcs
        have := i4 c (by intro e; rw [e] at this; cases this)
        rw [hc] at this; cases this <;> rename_i h' <;> cases h'
      · rw [E0 c hca hcs]; exact ⟨hc, htf⟩
    rcases cls x with rfl | ⟨hxa, hxs⟩ | ⟨hxa, hxs⟩
    · rw [Ea.2.2.2.2.2.2.2.1] at ht
      have h9 := i9 x t ht
      refine ⟨Or.inr hfa, by rw [Ea.2.2.2.2.2.2.2.2.1]; exact h9.2.1, by rw [hnow]; exact Rat.le_trans h9.2.2.1 hle, ?_⟩
      intro c hc
      rw [Ea.2.2.2.2.1] at hc
      obtain ⟨h1, tf, h2, h3⟩ := h9.2.2.2 c hc
      have := hfin c tf h1 h2
      exact ⟨this.1, tf, this.2, h3⟩
    · have ex := Es x hxa hxs
      have hxopen := i4 x (by intro e; have := i1 a x hxs; rw [e] at this; cases this)
      have hnots : (s.acts x).tStart = none := by
        cases hq : (s.acts x).tStart with
        | none => rfl
        | some q => have := (i9 x q hq).1; grind
      rw [ex.2.2.2.2.2.2.2.2.2.2.2, hnots] at ht
      split at ht
      · rename_i hcond
        cases ht
        refine ⟨?_, by rw [ex.2.2.2.2.2.2.2.2.1]; exact hcond.2, by rw [hnow]; exact Rat.le_refl, ?_⟩
        · rw [ex.2.2.2.2.2.2.2.2.2.2.1, if_pos hcond.1, if_pos hcond.2]; exact Or.inl rfl
        · intro c hc
          rw [ex.2.2.2.2.1] at hc
          by_cases hca : c = a
          · subst hca; exact ⟨hfa, f, Ea.2.2.2.2.2.2.2.2.2.2.1, Rat.le_refl⟩
          · rcases i5 c x hc with h1 | h1
            · have : c ∈ (s.acts x).deps.filter (· != a) := by rw [filter_ne_mem]; exact ⟨h1, hca⟩
              rw [hcond.1] at this; cases this
            · obtain ⟨tf, h2, h3⟩ := i7 c h1
              have := hfin c tf h1 h2
              exact ⟨this.1, tf, this.2, Rat.le_trans h3 hle⟩
      · cases ht
    · rw [E0 x hxa hxs] at ht ⊢
      have h9 := i9 x t ht
      refine ⟨h9.1, h9.2.1, by rw [hnow]; exact Rat.le_trans h9.2.2.1 hle, ?_⟩
      intro c hc
      obtain ⟨h1, tf, h2, h3⟩ := h9.2.2.2 c hc
      have := hfin c tf h1 h2
      exact ⟨this.1, tf, this.2, h3⟩
  · -- fin_eq
    intro x tf htf
    rcases cls x with rfl | ⟨hxa, hxs⟩ | ⟨hxa, hxs⟩
    · rw [Ea.2.2.2.2.2.2.2.2.2.2.1] at htf
      cases htf
      exact ⟨Ea.2.2.2.2.2.2.2.2.2.1, ts, by rw [Ea.2.2.2.2.2.2.2.1]; exact hts, by rw [Ea.2.2.1]; exact hf⟩
    · have ex := Es x hxa hxs
      rw [ex.2.2.2.2.2.2.2.1] at htf
      have := (i10 x tf htf).1
      have := i1 a x hxs
      have := i4 x (by intro e; rw [e] at this; cases this)
      grind
    · rw [E0 x hxa hxs] at htf ⊢; exact i10 x tf htf

theorem advance_inv (s s' : Sys) (t : Rat) (h : InvS s) (hs : step s (.advance t) = .ok s') : InvS s' := by
  simp only [step] at hs
  split at hs
  · rename_i hen
    cases hs
    have ⟨i1, i2, i3, i4, i5, i6, i7, i8, i9, i10⟩ := h
    refine ⟨i1, i2, i3, i4, i5, i6, ?_, i8, ?_, i10⟩
    · intro a ha
      obtain ⟨q, h1, h2⟩ := i7 a ha
      exact ⟨q, h1, Rat.le_trans h2 hen.1⟩
    · intro b q hq
      have := i9 b q hq
      exact ⟨this.1, this.2.1, Rat.le_trans this.2.2.1 hen.1, this.2.2.2⟩
  · cases hs

theorem step_inv (s s' : Sys) (l : Label) (h : InvS s) (hs : step s l = .ok s') : InvS s' := by
  cases l with
  | addSucc a b => exact addSucc_inv s s' a b h hs
  | remSucc a b => exact remSucc_inv s s' a b h hs
  | assign b f => exact assign_inv s s' b f h hs
  | start b => exact start_inv s s' b h hs
  | advance t => exact advance_inv s s' t h hs
  | complete a => exact complete_inv s s' a h hs

theorem init_inv (n : Nat) (kind : Nat → Kind) (dur : Nat → Rat) (remPos : Nat → Bool) : InvS (init n kind dur remPos) := by
  constructor <;> simp [init]

theorem run_inv (s s' : Sys) (ls : List Label) (h : InvS s) (hs : run s ls = .ok s') : InvS s' := by
  induction ls generalizing s with
  | nil => simp [run] at hs; cases hs; exact h
  | cons l ls ih =>
    simp only [run] at hs
    split at hs
    · rename_i s1 h1
      exact ih s1 (step_inv s s1 l h h1) hs
    · cases hs



/-! ### Liveness invariants (histories accepted by `liveOk`, comms with a positive size) -/

structure InvL (s : Sys) : Prop where
  rem : ∀ b, (s.acts b).remPos = true
  no_stuck : ∀ b, (s.acts b).state = .starting → ¬ ((s.acts b).deps = [] ∧ (s.acts b).assigned = true)
  inited_req : ∀ b, (s.acts b).state = .inited → (s.acts b).tReq = none
  deps_unfinished : ∀ a b, a ∈ (s.acts b).deps → (s.acts a).state ≠ .finished
  deps_preds : ∀ a b, a ∈ (s.acts b).deps → a ∈ (s.acts b).preds
  t_le : ∀ b t, ((s.acts b).tAssigned = some t ∨ (s.acts b).tReq = some t) → t ≤ s.now
  asg_t : ∀ b, (s.acts b).assigned = true → ∃ t, (s.acts b).tAssigned = some t
  start_is : ∀ b t, (s.acts b).tStart = some t →
    ((∃ a ∈ (s.acts b).preds, (s.acts a).tFinish = some t) ∨ (s.acts b).tAssigned = some t ∨ (s.acts b).tReq = some t) ∧
    (∀ q, ((s.acts b).tAssigned = some q ∨ (s.acts b).tReq = some q) → q ≤ t)

theorem assign_guard (s s' : Sys) (b : Nat) (f : Field) (hs : step s (.assign b f) = .ok s') :
    (s.acts b).kind = .comm → (s.acts b).assigned = false := by
  simp only [step] at hs
  split at hs
  · cases hs
  split at hs
  · cases hs
  split at hs
  · cases hs
  split at hs
  · cases hs
  split at hs
  · cases hs
  rename_i h1 h2 h3 h4 h5
  clear hs
  revert h2 h5
  unfold Act.assigned Field.okFor Act.hasField
  intro h2 h5 hk
  rw [hk] at h2 h5 ⊢
  cases f <;> simp_all

theorem stepL_addSucc (s s' : Sys) (a b : Nat) (hS : InvS s) (hL : InvL s) (hok : liveOk s (.addSucc a b) = true) 
    (hs : step s (.addSucc a b) = .ok s') : InvL s' := by
  have ⟨i1, i2, i3, i4, i5, i6, i7, i8, i9, i10⟩ := hS
  have ⟨l0, l1, l2, l3, l4, l5, l6, l7⟩ := hL

  simp only [liveOk, bne_iff_ne, ne_eq] at hok
  rcases addSucc_eff s s' a b hs with rfl | ⟨hab, hnot, hopen, hnow, hn, E⟩
  · exact hL
  simp only [Act.sameRes] at E
  constructor
  · intro x; have := E x; grind
  · intro x; have := E x; grind
  · intro x; have := E x; grind
  · intro x y; have := E x; have := E y; grind
  · intro x y; have := E x; have := E y; grind
  · intro x t; have := E x; grind
  · intro x; have := E x; grind
  · intro x t ht; have ex := E x
    have hx : x ≠ b := by
      intro e; subst e
      have := (i9 x t (by grind)).1
      grind
    have h7 := l7 x t (by grind)
    refine ⟨?_, by grind⟩
    rcases h7.1 with ⟨c, hc, hct⟩ | h | h
    · left; exact ⟨c, by grind, by have := E c; grind⟩
    · right; left; grind
    · right; right; grind

theorem stepL_assign (s s' : Sys) (b : Nat) (f : Field) (hS : InvS s) (hL : InvL s) 
    (hs : step s (.assign b f) = .ok s') : InvL s' := by
  have ⟨i1, i2, i3, i4, i5, i6, i7, i8, i9, i10⟩ := hS
  have ⟨l0, l1, l2, l3, l4, l5, l6, l7⟩ := hL

  obtain ⟨hopen, hnow, hn, E0, E⟩ := assign_eff s s' b f hs
  have hg := assign_guard s s' b f hs
  simp only at E
  have hss := setterStarts_iff (s.acts b)
  constructor
  · intro x; have := E0 x; grind
  · intro x; have := E0 x; grind
  · intro x; have := E0 x; grind
  · intro x y; have := E0 x; have := E0 y; grind
  · intro x y; have := E0 x; have := E0 y; grind
  · intro x t; have := E0 x; grind
  · intro x; have := E0 x; grind
  · intro x t ht
    by_cases hx : x = b
    · subst hx
      have hnots : (s.acts x).tStart = none := by
        cases hq : (s.acts x).tStart with
        | none => rfl
        | some q => have := (i9 x q hq).1; grind
      have hstart : (s'.acts x).tStart = some s.now := by grind
      have ht' : t = s.now := by grind
      subst ht'
      refine ⟨?_, by grind⟩
      right; left
      grind
    · have ex := E0 x hx
      rw [ex] at ht ⊢
      have h7 := l7 x t ht
      refine ⟨?_, h7.2⟩
      rcases h7.1 with ⟨c, hc, hct⟩ | h | h
      · left; exact ⟨c, hc, by have := E0 c; have := (i10 c t hct).1; grind⟩
      · exact Or.inr (Or.inl h)
      · exact Or.inr (Or.inr h)

theorem stepL_start (s s' : Sys) (b : Nat) (hS : InvS s) (hL : InvL s) 
    (hs : step s (.start b) = .ok s') : InvL s' := by
  have ⟨i1, i2, i3, i4, i5, i6, i7, i8, i9, i10⟩ := hS
  have ⟨l0, l1, l2, l3, l4, l5, l6, l7⟩ := hL

  rcases start_eff s s' b hs with rfl | ⟨hopen, hnow, hn, E0, E⟩
  · exact hL
  simp only at E
  constructor
  · intro x; have := E0 x; grind
  · intro x; have := E0 x; grind
  · intro x; have := E0 x; grind
  · intro x y; have := E0 x; have := E0 y; grind
  · intro x y; have := E0 x; have := E0 y; grind
  · intro x t; have := E0 x; grind
  · intro x; have := E0 x; grind
  · intro x t ht
    by_cases hx : x = b
    · subst hx
      have hnots : (s.acts x).tStart = none := by
        cases hq : (s.acts x).tStart with
        | none => rfl
        | some q => have := (i9 x q hq).1; grind
      have ht' : t = s.now := by grind
      subst ht'
      refine ⟨?_, by grind⟩
      right; right
      grind
    · have ex := E0 x hx
      rw [ex] at ht ⊢
      have h7 := l7 x t ht
      refine ⟨?_, h7.2⟩
      rcases h7.1 with ⟨c, hc, hct⟩ | h | h
      · left; exact ⟨c, hc, by have := E0 c; have := (i10 c t hct).1; grind⟩
      · exact Or.inr (Or.inl h)
      · exact Or.inr (Or.inr h)

theorem stepL_complete (s s' : Sys) (a : Nat) (hS : InvS s) (hL : InvL s) 
    (hs : step s (.complete a) = .ok s') : InvL s' := by
  have ⟨i1, i2, i3, i4, i5, i6, i7, i8, i9, i10⟩ := hS
  have ⟨l0, l1, l2, l3, l4, l5, l6, l7⟩ := hL

  obtain ⟨hst, hself, f, ts, hts, hf, hle, hnone, hnow, hn, E0, Ea, Es⟩ := complete_eff s s' a hS hs
  simp only at Ea Es
  have hdepsa : (s.acts a).deps = [] := by have := i4 a; grind
  have cls : ∀ c, c = a ∨ (c ≠ a ∧ c ∈ (s.acts a).succs) ∨ (c ≠ a ∧ c ∉ (s.acts a).succs) := by
    intro c; by_cases h1 : c = a <;> by_cases h2 : c ∈ (s.acts a).succs <;> simp [h1, h2]
  constructor
  · intro x
    rcases cls x with rfl | ⟨hxa, hxs⟩ | ⟨hxa, hxs⟩
    · grind
    · have := Es x hxa hxs; grind
    · have := E0 x hxa hxs; grind
  · intro x
    rcases cls x with rfl | ⟨hxa, hxs⟩ | ⟨hxa, hxs⟩
    · grind
    · have := Es x hxa hxs; have := l1 x; grind
    · have := E0 x hxa hxs; grind
  · intro x
    rcases cls x with rfl | ⟨hxa, hxs⟩ | ⟨hxa, hxs⟩
    · grind
    · have := Es x hxa hxs; have := l2 x; grind
    · have := E0 x hxa hxs; grind
  · -- deps_unfinished
    intro x y hx
    have hx' : x ∈ (s.acts y).deps ∧ x ≠ a := by
      rcases cls y with rfl | ⟨hya, hys⟩ | ⟨hya, hys⟩
      · rw [Ea.2.2.2.1, hdepsa] at hx; cases hx
      · rw [(Es y hya hys).2.2.2.2.2.2.2.2.2.1, filter_ne_mem] at hx; exact hx
      · rw [E0 y hya hys] at hx
        refine ⟨hx, ?_⟩
        intro e; subst e; exact hys (i2 _ _ hx)
    have := l3 x y hx'.1
    rcases cls x with rfl | ⟨hxa, hxs⟩ | ⟨hxa, hxs⟩
    · exact absurd rfl hx'.2
    · have := Es x hxa hxs; have := i6 x; grind
    · rw [E0 x hxa hxs]; exact this
  · intro x y hx
    rcases cls y with rfl | ⟨hya, hys⟩ | ⟨hya, hys⟩
    · rw [Ea.2.2.2.1, hdepsa] at hx; cases hx
    · have ey := Es y hya hys
      rw [ey.2.2.2.2.2.2.2.2.2.1, filter_ne_mem] at hx
      rw [ey.2.2.2.2.1]; exact l4 x y hx.1
    · rw [E0 y hya hys] at hx ⊢; exact l4 x y hx
  · intro x t hq
    rw [hnow]
    refine Rat.le_trans (l5 x t ?_) hle
    rcases cls x with rfl | ⟨hxa, hxs⟩ | ⟨hxa, hxs⟩
    · grind
    · have := Es x hxa hxs; grind
    · have := E0 x hxa hxs; grind
  · intro x
    rcases cls x with rfl | ⟨hxa, hxs⟩ | ⟨hxa, hxs⟩
    · grind
    · have := Es x hxa hxs; have := l6 x; grind
    · have := E0 x hxa hxs; grind
  · -- start_is
    intro x t ht
    have keep : ∀ c q, (s.acts c).tFinish = some q → (s'.acts c).tFinish = some q := by
      intro c q hq
      rcases cls c with rfl | ⟨hca, hcs⟩ | ⟨hca, hcs⟩
      · have := (i10 c q hq).1; grind
      · have := Es c hca hcs; grind
      · rw [E0 c hca hcs]; exact hq
    rcases cls x with rfl | ⟨hxa, hxs⟩ | ⟨hxa, hxs⟩
    · have h7 := l7 x t (by grind)
      refine ⟨?_, by grind⟩
      rcases h7.1 with ⟨c, hc, hct⟩ | h | h
      · left; exact ⟨c, by grind, keep c t hct⟩
      · right; left; grind
      · right; right; grind
    · have ex := Es x hxa hxs
      have hxopen := i4 x (by intro e; have := i1 a x hxs; rw [e] at this; cases this)
      have hnots : (s.acts x).tStart = none := by
        cases hq : (s.acts x).tStart with
        | none => rfl
        | some q => have := (i9 x q hq).1; grind
      have ht' : t = f := by grind
      subst ht'
      refine ⟨?_, ?_⟩
      · left
        exact ⟨a, by rw [ex.2.2.2.2.1]; exact l4 a x (i1 a x hxs), Ea.2.2.2.2.2.2.2.2.2.2.1⟩
      · intro q hq
        refine Rat.le_trans (l5 x q ?_) hle
        grind
    · have ex := E0 x hxa hxs
      rw [ex] at ht ⊢
      have h7 := l7 x t ht
      refine ⟨?_, h7.2⟩
      rcases h7.1 with ⟨c, hc, hct⟩ | h | h
      · left; exact ⟨c, hc, keep c t hct⟩
      · exact Or.inr (Or.inl h)
      · exact Or.inr (Or.inr h)

theorem stepL_inv (s s' : Sys) (l : Label) (hS : InvS s) (hL : InvL s) (hok : liveOk s l = true)
    (hs : step s l = .ok s') : InvL s' := by
  cases l with
  | remSucc a b => simp [liveOk] at hok
  | addSucc a b => exact stepL_addSucc s s' a b hS hL hok hs
  | assign b f => exact stepL_assign s s' b f hS hL hs
  | start b => exact stepL_start s s' b hS hL hs
  | complete a => exact stepL_complete s s' a hS hL hs
  | advance t =>
    have ⟨l0, l1, l2, l3, l4, l5, l6, l7⟩ := hL

    simp only [step] at hs
    split at hs
    · rename_i hen
      cases hs
      refine ⟨l0, l1, l2, l3, l4, ?_, l6, l7⟩
      intro b q hq
      exact Rat.le_trans (l5 b q hq) hen.1
    · cases hs

theorem initL_inv (n : Nat) (kind : Nat → Kind) (dur : Nat → Rat) : InvL (init n kind dur (fun _ => true)) := by
  constructor <;> simp [init, Act.assigned] <;> intro b <;> cases kind b <;> simp

theorem runL_inv (s s' : Sys) (ls : List Label) (hS : InvS s) (hL : InvL s) (hs : runL s ls = .ok s') :
    InvS s' ∧ InvL s' := by
  induction ls generalizing s with
  | nil => simp [runL] at hs; cases hs; exact ⟨hS, hL⟩
  | cons l ls ih =>
    simp only [runL] at hs
    split at hs
    · rename_i hok
      split at hs
      · rename_i s1 h1
        exact ih s1 (step_inv s s1 l hS h1) (stepL_inv s s1 l hS hL hok h1) hs
      · cases hs
    · cases hs

/-! ### helpers of the liveness theorem -/

theorem runL_run (s s' : Sys) (h : List Label) (hr : runL s h = .ok s') : run s h = .ok s' := by
  induction h generalizing s with
  | nil => simpa [runL, run] using hr
  | cons l ls ih =>
    simp only [runL] at hr
    simp only [run]
    split at hr
    · split at hr
      · rename_i s1 h1
        exact ih s1 hr
      · cases hr
    · cases hr

/-! ### state is never `INITED` again once `start` was requested -/

theorem notInited_step (s s' : Sys) (l : Label) (hS : InvS s) (hs : step s l = .ok s') (b : Nat)
    (hb : (s.acts b).state ≠ .inited) : (s'.acts b).state ≠ .inited := by
  cases l with
  | addSucc a c =>
    rcases addSucc_eff s s' a c hs with rfl | ⟨_, _, _, _, _, E⟩
    · exact hb
    · rw [(E b).2.1]; exact hb
  | remSucc a c =>
    rcases remSucc_eff s s' a c hs with rfl | ⟨_, _, _, _, E⟩
    · exact hb
    · rw [(E b).2.1]; exact hb
  | assign c f =>
    obtain ⟨_, _, _, E0, E⟩ := assign_eff s s' c f hs
    by_cases hc : b = c
    · subst hc; simp only at E; grind
    · rw [E0 b hc]; exact hb
  | start c =>
    rcases start_eff s s' c hs with rfl | ⟨_, _, _, E0, E⟩
    · exact hb
    by_cases hc : b = c
    · subst hc; simp only at E; grind
    · rw [E0 b hc]; exact hb
  | advance t =>
    simp only [step] at hs
    split at hs
    · cases hs; exact hb
    · cases hs
  | complete a =>
    obtain ⟨_, _, f, ts, _, _, _, _, _, _, E0, Ea, Es⟩ := complete_eff s s' a hS hs
    by_cases hba : b = a
    · subst hba; simp only at Ea; grind
    · by_cases hbs : b ∈ (s.acts a).succs
      · have := Es b hba hbs; simp only at this; grind
      · rw [E0 b hba hbs]; exact hb

theorem start_notInited (s s' : Sys) (b : Nat) (hs : step s (.start b) = .ok s') :
    (s'.acts b).state ≠ .inited := by
  simp only [step] at hs
  split at hs
  · cases hs
  split at hs
  · rename_i h2
    cases hs
    simp only [isOpen_iff] at h2
    intro e; exact h2 (Or.inl e)
  · cases hs
    simp only [Sys.startAct, upd_same]
    have := Act.start_eff s.now { s.acts b with tReq := match (s.acts b).tReq with | some t => some t | none => some s.now }
    grind

theorem n_step (s s' : Sys) (l : Label) (hs : step s l = .ok s') : s'.n = s.n := by
  cases l with
  | addSucc a c => rcases addSucc_eff s s' a c hs with rfl | ⟨_, _, _, _, h, _⟩ <;> first | rfl | exact h
  | remSucc a c => rcases remSucc_eff s s' a c hs with rfl | ⟨_, _, _, h, _⟩ <;> first | rfl | exact h
  | assign c f => exact (assign_eff s s' c f hs).2.2.1
  | start c => rcases start_eff s s' c hs with rfl | ⟨_, _, h, _⟩ <;> first | rfl | exact h
  | advance t =>
    simp only [step] at hs
    split at hs
    · cases hs; rfl
    · cases hs
  | complete a =>
    simp only [step] at hs
    split at hs
    · cases hs
    split at hs
    · cases hs
    split at hs
    · cases hs
    · split at hs
      · cases hs; rw [complete_n]
      · cases hs

theorem started_by_user (s s' : Sys) (h : List Label) (hS : InvS s) (hr : run s h = .ok s') (b : Nat) (hb : b < s.n)
    (hreq : (s.acts b).state ≠ .inited ∨ Label.start b ∈ h) : (s'.acts b).state ≠ .inited := by
  induction h generalizing s with
  | nil =>
    simp only [run] at hr; cases hr
    rcases hreq with h1 | h1
    · exact h1
    · cases h1
  | cons l ls ih =>
    simp only [run] at hr
    split at hr
    · rename_i s1 h1
      have hn := n_step s s1 l h1
      apply ih s1 (step_inv s s1 l hS h1) hr (by rw [hn]; exact hb)
      rcases hreq with h2 | h2
      · exact Or.inl (notInited_step s s1 l hS h1 b h2)
      · rcases List.mem_cons.mp h2 with h3 | h3
        · subst h3; exact Or.inl (start_notInited s s1 b h1)
        · exact Or.inr h3
    · cases hr

/-! ### predecessors are activities of the workflow -/

theorem preds_lt_step (s s' : Sys) (l : Label) (hS : InvS s) (hs : step s l = .ok s')
    (hp : ∀ a b, a ∈ (s.acts b).preds → a < s.n) : ∀ a b, a ∈ (s'.acts b).preds → a < s'.n := by
  have hn := n_step s s' l hs
  intro a b hab
  rw [hn]
  cases l with
  | addSucc x y =>
    simp only [step] at hs
    split at hs
    · cases hs
    rename_i hlt
    simp only [Decidable.not_not] at hlt
    rcases addSucc_eff s s' x y (by simp only [step, hlt]; simpa using hs) with rfl | ⟨_, _, _, _, _, E⟩
    · exact hp a b hab
    · have := E b; have := hp a b; grind
  | remSucc x y =>
    rcases remSucc_eff s s' x y hs with rfl | ⟨_, _, _, _, E⟩
    · exact hp a b hab
    · have := E b; have := hp a b; grind
  | assign c f =>
    obtain ⟨_, _, _, E0, E⟩ := assign_eff s s' c f hs
    by_cases hc : b = c
    · subst hc; simp only at E; have := hp a b; grind
    · rw [E0 b hc] at hab; exact hp a b hab
  | start c =>
    rcases start_eff s s' c hs with rfl | ⟨_, _, _, E0, E⟩
    · exact hp a b hab
    by_cases hc : b = c
    · subst hc; simp only at E; have := hp a b; grind
    · rw [E0 b hc] at hab; exact hp a b hab
  | advance t =>
    simp only [step] at hs
    split at hs
    · cases hs; exact hp a b hab
    · cases hs
  | complete x =>
    obtain ⟨_, _, f, ts, _, _, _, _, _, _, E0, Ea, Es⟩ := complete_eff s s' x hS hs
    by_cases hbx : b = x
    · subst hbx; simp only at Ea; have := hp a b; grind
    · by_cases hbs : b ∈ (s.acts x).succs
      · have := Es b hbx hbs; simp only at this; have := hp a b; grind
      · rw [E0 b hbx hbs] at hab; exact hp a b hab

theorem preds_lt_run (s s' : Sys) (h : List Label) (hS : InvS s) (hr : run s h = .ok s')
    (hp : ∀ a b, a ∈ (s.acts b).preds → a < s.n) : (∀ a b, a ∈ (s'.acts b).preds → a < s'.n) ∧ s'.n = s.n := by
  induction h generalizing s with
  | nil => simp only [run] at hr; cases hr; exact ⟨hp, rfl⟩
  | cons l ls ih =>
    simp only [run] at hr
    split at hr
    · rename_i s1 h1
      have := ih s1 (step_inv s s1 l hS h1) hr (preds_lt_step s s1 l hS h1 hp)
      exact ⟨this.1, by rw [this.2, n_step s s1 l h1]⟩
    · cases hr


end SgVerif.C13
