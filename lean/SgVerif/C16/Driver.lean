import SgVerif.Lmm.DriverCore
def main : IO Unit := SgVerif.Proto.run (SgVerif.Lmm.judge "C16")
