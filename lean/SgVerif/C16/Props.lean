import SgVerif.Lmm.Model
namespace SgVerif.C16
open SgVerif.Lmm

theorem placeholder : True := trivial

end SgVerif.C16
