/-
C16 — max-min allocations are fair.  Theorems about the model lean/SgVerif/Lmm/Model.lean at eps = 0
(invariants: lean/SgVerif/Lmm/Lemmas.lean, lean/SgVerif/Lmm/Fair.lean); ∀ well-formed systems, ∀ fuel, ∀ initial values.
-/
import SgVerif.Lmm.Fair
import SgVerif.Lmm.Unique
import SgVerif.Lmm.SpecLemmas
import SgVerif.C15.Props
namespace SgVerif.C16
open SgVerif.Lmm

/-- **Every consumer gets a final, positive rate** (SHARED and FATPIPE, with variable bounds): when `maxmin_solve`
returns, the variable of every enabled element with a positive weight has been fixed (made inactive) with a value > 0. -/
theorem maxmin_all_fixed (S : Sys) (hwf : WF S) (val0 : Nat → Rat) (fuel : Nat) (st : St)
    (h : maxminSolve S 0 fuel val0 = some st) :
    ∀ c ∈ S.active, ∀ e ∈ (S.cnst c).elems, 0 < e.2 → st.fixed e.1 = true ∧ 0 < st.value e.1 := by
  unfold maxminSolve at h
  have hi := init_rinv S hwf val0
  obtain ⟨⟨sv', hR⟩, hl, _⟩ := loop_inv_frame S hwf fuel _ _ st hi.1 (sv_in_elems S _ hi.1.l hi.1.sel) h
  intro c hc e he hw
  have hnl : c ∉ st.light := by rw [hl]; simp
  have hp := hwf.el_pen c hc e he
  cases hfx : st.fixed e.1 with
  | true => exact ⟨rfl, hR.g.valpos e.1 hfx⟩
  | false =>
    exfalso
    cases hf : (S.cnst c).fatpipe with
    | false =>
      have h0 := hR.l.lt_sh c hc hnl hf
      have hle := sumBy_le_of_mem (fun e => if st.fixed e.1 then 0 else e.2 / (S.var e.1).penalty) (S.cnst c).elems
        (by
          intro e' he'; split
          · exact le_refl 0
          · exact div_nonneg (hwf.el_w c hc e' he') (le_of_lt (hwf.el_pen c hc e' he'))) e he
      unfold freeSum at h0
      rw [h0] at hle
      simp only [hfx] at hle
      have : 0 < e.2 / (S.var e.1).penalty := div_pos hw hp
      simp at hle
      linarith
    | true =>
      have h0 := hR.l.lt_ft c hc hnl hf
      have h1 := hR.k.ft_use c hc hf e he hfx hw
      have : 0 < e.2 / (S.var e.1).penalty := div_pos hw hp
      linarith

/-- **C16, maxmin, exact arithmetic, full strength: every well-formed system (SHARED and FATPIPE constraints, any
variable bounds).**  When `maxmin_solve` returns, every variable of an enabled element with positive weight is at its
bound, or uses (with positive weight) an active constraint whose `get_load()` — Σ w·value for a summing constraint,
max w·value for a FATPIPE one — equals its capacity and on which no consumer has a larger value·penalty.
(The FATPIPE case rests on `InvA`, Lmm/Fat.lean: usage_ of a light FATPIPE constraint is attained by an unfixed
consumer, which therefore gets `w·value = capacity` when the constraint saturates.) -/
theorem maxmin_bottleneck (S : Sys) (hwf : WF S)
    (val0 : Nat → Rat) (fuel : Nat) (st : St) (h : maxminSolve S 0 fuel val0 = some st) :
    ∀ c ∈ S.active, ∀ e ∈ (S.cnst c).elems, 0 < e.2 →
      (0 < (S.var e.1).bound ∧ st.value e.1 = (S.var e.1).bound) ∨
      ∃ c' ∈ S.active, (∃ e' ∈ (S.cnst c').elems, e'.1 = e.1 ∧ 0 < e'.2) ∧
        load S st.value c' = (S.cnst c').bound ∧
        ∀ e'' ∈ (S.cnst c').elems, 0 < e''.2 →
          st.value e''.1 * (S.var e''.1).penalty ≤ st.value e.1 * (S.var e.1).penalty := by
  have hfixed := maxmin_all_fixed S hwf val0 fuel st h
  have hfeas := (C15.maxmin_feasible S hwf val0 fuel st h).1
  unfold maxminSolve at h
  have hi := init_rinv S hwf val0
  have hbn0 : ∃ M, BN S M (initAll S 0 val0).fixed (initAll S 0 val0).value ∧
      ∀ c ∈ (initAll S 0 val0).light, M * (initAll S 0 val0).usage c ≤ (initAll S 0 val0).remaining c := by
    refine ⟨0, ⟨?_, ?_⟩, ?_⟩
    · intro u hu; rw [hi.2.2] at hu; simp at hu
    · intro u hu; rw [hi.2.2] at hu; simp at hu
    · intro c hc; simp only [zero_mul]; exact le_of_lt (hi.1.l.li_pos c hc).1
  obtain ⟨⟨M, hBN⟩, hR, _⟩ := loop_bn S hwf fuel _ st hi.1 (init_invA S hwf val0) hbn0 h
  intro c hc e he hw
  have hfx := (hfixed c hc e he hw).1
  rcases hBN.recd e.1 hfx with hb | ⟨c', hc', hmem, hcl, hsat, hmax⟩
  · exact Or.inl hb
  · right
    refine ⟨c', hc', hmem, ?_, hmax⟩
    rcases hsat with ⟨hfp, hsat⟩ | ⟨hfp, e0, he0, hw0, _, hv0⟩
    · rw [C15.load_shared S st.value c' hfp]
      have : sumBy (fun e => if 0 < e.2 then e.2 * st.value e.1 else 0) (S.cnst c').elems =
          fixedLoad S st.fixed st.value c' := by
        unfold fixedLoad
        apply sumBy_congr
        intro e' he'
        have hw' := hwf.el_w c' hc' e' he'
        cases hf' : st.fixed e'.1 with
        | false => rw [hR.g.val0 c' hc' e' he' hf']; simp
        | true =>
          by_cases h0 : 0 < e'.2
          · simp [h0]
          · have : e'.2 = 0 := by linarith
            simp [this]
      rw [this]; linarith
    · have h1 := load_fat_ge S st.value c' hfp e0 he0 hw0
      have h2 := hfeas c' hc'
      rw [hv0] at h1
      exact le_antisymm h2 h1

/-- the first-pass statement (summing constraints only) is a corollary -/
theorem maxmin_bottleneck_partial (S : Sys) (hwf : WF S) (_hsh : ∀ c ∈ S.active, (S.cnst c).fatpipe = false)
    (val0 : Nat → Rat) (fuel : Nat) (st : St) (h : maxminSolve S 0 fuel val0 = some st) :
    ∀ c ∈ S.active, ∀ e ∈ (S.cnst c).elems, 0 < e.2 →
      (0 < (S.var e.1).bound ∧ st.value e.1 = (S.var e.1).bound) ∨
      ∃ c' ∈ S.active, (∃ e' ∈ (S.cnst c').elems, e'.1 = e.1 ∧ 0 < e'.2) ∧
        load S st.value c' = (S.cnst c').bound ∧
        ∀ e'' ∈ (S.cnst c').elems, 0 < e''.2 →
          st.value e''.1 * (S.var e''.1).penalty ≤ st.value e.1 * (S.var e.1).penalty :=
  maxmin_bottleneck S hwf val0 fuel st h

/-- non-vacuity of `maxmin_bottleneck` on a mixed system: on `C15.exSys` (SHARED capacity 10 + FATPIPE capacity 4, v0
bounded by 1) the solver returns v0 = 1 (at its bound), v1 = 4 and v2 = 2: the FATPIPE constraint c1 has
load = max(2·2, 1·4) = 4 = capacity and v1·1 = v2·2 = 4 is the largest value·penalty on it -/
example : (maxminSolve C15.exSys 0 4 (fun _ => 0)).map
    (fun st => (st.value 0, st.value 1, st.value 2, load C15.exSys st.value 1)) = some (1, 4, 2, 4) := by
  decide +kernel

/-! ### non-vacuity -/

/-- two summing constraints (capacities 10 and 2), three variables, one bounded: c0 = {v0 (bound 1), v1, v2}, c1 = {v2} -/
def exSh : Sys :=
  { cnst := fun c => if c = 0 then { bound := 10, fatpipe := false, elems := [(2, 1), (1, 1), (0, 1)] }
                     else if c = 1 then { bound := 2, fatpipe := false, elems := [(2, 1)] }
                     else { bound := 0, fatpipe := false, elems := [] },
    var := fun v => if v = 0 then { penalty := 1, bound := 1, cnsts := [(0, 1)] }
                    else if v = 1 then { penalty := 2, bound := -1, cnsts := [(0, 1)] }
                    else if v = 2 then { penalty := 1, bound := -1, cnsts := [(0, 1), (1, 1)] }
                    else { penalty := 0, bound := -1, cnsts := [] },
    active := [0, 1], vorder := [2, 1, 0] }

/-- the solver returns on it: v0 at its bound 1, v2 = 2 limited by c1, v1 = 7 takes the rest of c0 -/
example : (maxminSolve exSh 0 5 (fun _ => 0)).map (fun st => (st.value 0, st.value 1, st.value 2)) = some (1, 7, 2) := by
  decide +kernel

example : ∀ c ∈ exSh.active, (exSh.cnst c).fatpipe = false := by
  intro c hc; simp [exSh] at hc; rcases hc with rfl | rfl <;> simp [exSh]

theorem exSh_wf : WF exSh := by
  constructor
  · decide
  · intro c hc; simp [exSh] at hc; rcases hc with rfl | rfl <;> simp [exSh]
  · intro c hc e he; simp [exSh] at hc
    rcases hc with rfl | rfl <;> simp [exSh] at he
    · rcases he with rfl | rfl | rfl <;> simp [exSh]
    · subst he; simp [exSh]
  · intro c hc e he; simp [exSh] at hc
    rcases hc with rfl | rfl <;> simp [exSh] at he
    · rcases he with rfl | rfl | rfl <;> norm_num
    · subst he; norm_num
  · intro v e he
    by_cases h0 : v = 0
    · subst h0; simp [exSh] at he; subst he; norm_num
    · by_cases h1 : v = 1
      · subst h1; simp [exSh] at he; subst he; norm_num
      · by_cases h2 : v = 2
        · subst h2; simp [exSh] at he; rcases he with rfl | rfl <;> norm_num
        · simp [exSh, h0, h1, h2] at he
  · intro c hc v hp
    simp [exSh] at hc
    by_cases h0 : v = 0
    · subst h0; rcases hc with rfl | rfl <;> simp [exSh, wOf, sumBy]
    · by_cases h1 : v = 1
      · subst h1; rcases hc with rfl | rfl <;> simp [exSh, wOf, sumBy]
      · by_cases h2 : v = 2
        · subst h2; rcases hc with rfl | rfl <;> simp [exSh, wOf, sumBy]
        · simp [exSh, h0, h1, h2] at hp

theorem exSh_wfv : WFV exSh := by
  constructor
  · intro c hc e he; simp [exSh] at hc
    rcases hc with rfl | rfl <;> simp [exSh] at he
    · rcases he with rfl | rfl | rfl <;> simp [exSh]
    · subst he; simp [exSh]
  · intro c hc e he; simp [exSh] at hc
    rcases hc with rfl | rfl <;> simp [exSh] at he
    · rcases he with rfl | rfl | rfl <;> simp [exSh]
    · subst he; simp [exSh]

/-! ### uniqueness; the model computes the reference allocation -/

/-- what `maxmin_solve` returns is a weighted max-min fair allocation in the sense of `FairAlloc` (capacities, variable
bounds, bottleneck condition) — every well-formed system -/
theorem maxmin_fair (S : Sys) (hwf : WF S) (val0 : Nat → Rat) (fuel : Nat) (st : St)
    (h : maxminSolve S 0 fuel val0 = some st) : FairAlloc S st.value := by
  have hf := C15.maxmin_feasible S hwf val0 fuel st h
  exact ⟨hf.1, fun c hc e he _ hb => (hf.2.1 c hc e he).2 hb, maxmin_bottleneck S hwf val0 fuel st h⟩

/-- **C16 `maxmin_unique_shared`, full strength (variable bounds allowed).**  On a well-formed system whose active
constraints are all summing (SHARED): (1) the allocation returned by `maxmin_solve` is weighted max-min fair;
(2) it is the *unique* one: every allocation `y` that respects the capacities and the variable bounds and satisfies the
bottleneck condition gives every consumer the same rate; (3) it equals the water-filling reference `Spec.alloc`
(an independent 60-line definition, Lmm/Spec.lean) on every consumer. -/
theorem maxmin_unique_shared (S : Sys) (hwf : WF S) (hwv : WFV S) (hsh : ∀ c ∈ S.active, (S.cnst c).fatpipe = false)
    (val0 : Nat → Rat) (fuel : Nat) (st : St) (h : maxminSolve S 0 fuel val0 = some st) :
    FairAlloc S st.value ∧
    (∀ y, FairAlloc S y → ∀ c ∈ S.active, ∀ e ∈ (S.cnst c).elems, 0 < e.2 → y e.1 = st.value e.1) ∧
    (∀ c ∈ S.active, ∀ e ∈ (S.cnst c).elems, 0 < e.2 → st.value e.1 = Spec.alloc S e.1) := by
  have hm := maxmin_fair S hwf val0 fuel st h
  refine ⟨hm, fun y hy => fairAlloc_unique S hwf hsh y st.value hy hm, ?_⟩
  exact fairAlloc_unique S hwf hsh st.value (Spec.alloc S) hm (Spec.alloc_fair S hwf hwv hsh)

/-- (2) alone does not need the `variable_set` facts `WFV` -/
theorem maxmin_unique_shared_wf (S : Sys) (hwf : WF S) (hsh : ∀ c ∈ S.active, (S.cnst c).fatpipe = false)
    (val0 : Nat → Rat) (fuel : Nat) (st : St) (h : maxminSolve S 0 fuel val0 = some st) :
    ∀ y, FairAlloc S y → ∀ c ∈ S.active, ∀ e ∈ (S.cnst c).elems, 0 < e.2 → y e.1 = st.value e.1 :=
  fun y hy => fairAlloc_unique S hwf hsh y st.value hy (maxmin_fair S hwf val0 fuel st h)

/-- with termination (`C15.maxmin_terminates`): the solver returns, and returns the reference allocation -/
theorem maxmin_total_eq_spec (S : Sys) (hwf : WF S) (hwv : WFV S) (hsh : ∀ c ∈ S.active, (S.cnst c).fatpipe = false)
    (nv : Nat) (hnv : ∀ c ∈ S.active, ∀ e ∈ (S.cnst c).elems, e.1 < nv) (val0 : Nat → Rat) :
    ∃ st, maxminSolve S 0 (nv + 1) val0 = some st ∧
      ∀ c ∈ S.active, ∀ e ∈ (S.cnst c).elems, 0 < e.2 → st.value e.1 = Spec.alloc S e.1 := by
  obtain ⟨st, hs, _⟩ := C15.maxmin_total_feasible S hwf nv hnv val0
  exact ⟨st, hs, (maxmin_unique_shared S hwf hwv hsh val0 (nv + 1) st hs).2.2⟩

/-- non-vacuity: `exSh` (two summing constraints, one bounded variable) meets all hypotheses; reference = (1, 7, 2),
the values the model returns (example above) -/
example : (Spec.alloc exSh 0, Spec.alloc exSh 1, Spec.alloc exSh 2) = (1, 7, 2) := by decide +kernel

example : FairAlloc exSh (Spec.alloc exSh) :=
  Spec.alloc_fair exSh exSh_wf exSh_wfv
    (by intro c hc; simp [exSh] at hc; rcases hc with rfl | rfl <;> simp [exSh])

/-! ### BMF: predicate ⇒ property -/

/-- the BMF fairness acceptance predicate unfolds to the statement of C16 for BMF: every enabled consuming variable is at
its bound (within `tol`) or has, on a saturated (or FATPIPE) constraint it uses, the largest share
`weight·penalty·value` -/
theorem bmfFair_sound (S : Sys) (tol : Rat) (val : Nat → Rat) (h : bmfFair S tol val = true) :
    ∀ v ∈ S.vorder, 0 < (S.var v).penalty → consumes S v = true →
      (0 < (S.var v).bound ∧ (S.var v).bound * (1 - tol) ≤ val v) ∨
      ∃ e ∈ (S.var v).cnsts, 0 < e.2 ∧
        ((S.cnst e.1).fatpipe = true ∨ (S.cnst e.1).bound * (1 - tol) ≤ load S val e.1) ∧
        ∀ e' ∈ (S.cnst e.1).elems, 0 < e'.2 →
          e'.2 * (S.var e'.1).penalty * val e'.1 ≤ e.2 * (S.var v).penalty * val v * (1 + tol) := by
  intro v hv hp hc
  unfold bmfFair at h
  simp only [List.all_eq_true] at h
  have := h v hv
  simp only [hp, hc, and_self, if_true, Bool.or_eq_true, Bool.and_eq_true, decide_eq_true_eq, List.any_eq_true] at this
  rcases this with h1 | ⟨e, he, hw, hs⟩
  · exact Or.inl h1
  · right
    refine ⟨e, he, hw, ?_⟩
    unfold bmfShareMax at hs
    simp only [Bool.and_eq_true, Bool.or_eq_true, decide_eq_true_eq, List.all_eq_true] at hs
    refine ⟨hs.1, ?_⟩
    intro e' he' hw'
    have := hs.2 e' he'
    simp only [hw', if_true, decide_eq_true_eq] at this
    exact this

end SgVerif.C16
