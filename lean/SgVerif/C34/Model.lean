/-
C34 — RMA windows behave like shared memory under their locks.

Part 1 (this file, section Spec): the *sequential specification* of the one-sided calls on windows of 32-bit ints and
the set of serialisations that locks / fences allow.

Part 2 (section Mech): the *mechanism* of `src/smpi/mpi/smpi_win.cpp` as far as it is logic: every RMA call becomes a
pair of requests (`rma_send_init` / `rma_recv_init`), all RMA sends are detached (the payload is copied when the
send is started, `Request::start`), the effect on the destination buffer happens when the communication completes
(any time before the `finish_comms` that waits for it), `Win::lock/unlock` with `lock_mut_`, `mode_`, `lockers_`,
`Win::accumulate`'s trailing `flush`, `get_accumulate`/`compare_and_swap` under `atomic_mut_`.

Core only (the driver is compiled).
-/
namespace SgVerif.C34

/-! ## Values and reduction operators (MPI_INT) -/

/-- `MPI_Op`s usable on MPI_INT in accumulate calls.  `smpi_op.cpp`: `SUM_OP (b) += (a)`, `PROD_OP (b) *= (a)`,
`MAX_OP (b) = (a) < (b) ? (b) : (a)`, `MIN_OP (b) = (a) < (b) ? (a) : (b)`, `BAND/BOR/BXOR (b) &= |= ^= (a)`,
`replace_func memcpy(b, a)`, `no_func` nothing.  `a` = incoming (origin) value, `b` = target value. -/
inductive ROp where
  | sum | prod | max | min | band | bor | bxor | replace | noop
  deriving DecidableEq, Repr

def bv (x : Int) : BitVec 32 := BitVec.ofInt 32 x

/-- new target value `b' = a op b` on C `int` (two's complement wrap-around for + and *). -/
def ROp.app : ROp → Int → Int → Int
  | .sum, a, b => (bv a + bv b).toInt
  | .prod, a, b => (bv a * bv b).toInt
  | .max, a, b => if a < b then b else a
  | .min, a, b => if a < b then a else b
  | .band, a, b => (bv a &&& bv b).toInt
  | .bor, a, b => (bv a ||| bv b).toInt
  | .bxor, a, b => (bv a ^^^ bv b).toInt
  | .replace, a, _ => a
  | .noop, _, b => b

/-- operators for which the order of application does not matter (commutative and associative) -/
def ROp.comm : ROp → Bool
  | .replace => false
  | _ => true

/-! ## Memory: window cells and result buffers -/

/-- a memory location: cell `i` of the window of rank `r`, or word `k` of the result buffer of call number `id`
(the `origin_addr`/`result_addr` buffer of a Get / Get_accumulate / Fetch_and_op / Compare_and_swap). -/
inductive Loc where
  | win (r i : Nat)
  | res (id k : Nat)
  deriving DecidableEq, Repr

abbrev Mem := Loc → Int

/-- `target_disp * disp_unit` bytes from the window base, as an index into the int array
(`recv_addr = base_ + target_disp * disp_unit_`).  `none` when the byte offset is not a multiple of `sizeof(int)`
(never generated; modelled as an explicit error rather than rounded). -/
def dispIndex (dispUnit disp : Nat) : Option Nat :=
  if (disp * dispUnit) % 4 = 0 then some (disp * dispUnit / 4) else none

/-- `disp_unit` is an argument of `MPI_Win_create` that every rank chooses for *its own* window (`Win::disp_unit_`), and
a displacement is scaled by the unit of the rank that owns the memory: `recv_win->base_ + target_disp *
recv_win->disp_unit_` in `Win::put` / `accumulate_unlocked`, `send_win->base_ + target_disp * send_win->disp_unit_` in
`Win::get` (hence Get_accumulate, Fetch_and_op, Compare_and_swap).  `dus` = the units of ranks 0..n-1; the origin's own
unit plays no role.  `none`: no such target, or misaligned. -/
def dispIndexAt (dus : List Nat) (t disp : Nat) : Option Nat :=
  match dus[t]? with
  | some du => dispIndex du disp
  | none => none

/-! ## The calls -/

/-- one RMA call, displacements already converted to int indices.  `id` names the result buffer. -/
inductive Call where
  | put (t d : Nat) (vals : List Int)
  | get (id t d n : Nat)
  | acc (t d : Nat) (op : ROp) (vals : List Int)
  | gacc (id t d : Nat) (op : ROp) (vals : List Int)     -- Get_accumulate / Fetch_and_op (count = vals.length)
  | cas (id t d : Nat) (cmp new : Int)
  deriving DecidableEq, Repr

def Call.count : Call → Nat
  | .put _ _ vals => vals.length
  | .get _ _ _ n => n
  | .acc _ _ _ vals => vals.length
  | .gacc _ _ _ _ vals => vals.length
  | .cas .. => 1

/-- `CHECK_RMA_REMOTE_WIN`: `target_count * extent > win->size_` ⇒ `MPI_ERR_RMA_RANGE`, nothing is done.
(The macro does not look at `target_disp`; neither does this function.  `compare_and_swap` has no such check.) -/
def Call.rangeErr (w : Nat) (c : Call) : Bool :=
  match c with
  | .cas .. => false
  | _ => c.count * 4 > w * 4

/-- Sequential semantics of one call on the whole memory: the new content of every location as a function of the old
memory (all reads are of the old memory: Get_accumulate and CAS return the value *before* their update). -/
def Call.exec (c : Call) (m : Mem) : Mem :=
  match c with
  | .put t d vals => fun loc =>
    match loc with
    | .win r i => if r = t ∧ d ≤ i then (match vals[i - d]? with | some v => v | none => m loc) else m loc
    | _ => m loc
  | .get id t d n => fun loc =>
    match loc with
    | .res j k => if j = id ∧ k < n then m (.win t (d + k)) else m loc
    | _ => m loc
  | .acc t d op vals => fun loc =>
    match loc with
    | .win r i => if r = t ∧ d ≤ i then (match vals[i - d]? with | some v => op.app v (m loc) | none => m loc) else m loc
    | _ => m loc
  | .gacc id t d op vals => fun loc =>
    match loc with
    | .win r i => if r = t ∧ d ≤ i then (match vals[i - d]? with | some v => op.app v (m loc) | none => m loc) else m loc
    | .res j k => if j = id ∧ k < vals.length then m (.win t (d + k)) else m loc
  | .cas id t d cmp new => fun loc =>
    match loc with
    | .win r i => if r = t ∧ i = d then (if m (.win t d) = cmp then new else m (.win t d)) else m loc
    | .res j k => if j = id ∧ k = 0 then m (.win t d) else m loc

/-- the rank whose window the call accesses -/
def Call.target : Call → Nat
  | .put t _ _ => t
  | .get _ t _ _ => t
  | .acc t _ _ _ => t
  | .gacc _ t _ _ _ => t
  | .cas _ t _ _ _ => t

/-- window sizes (in ints): every rank exposes a window of its own size (`MPI_Win_create(base, size, …)` is called by
each rank with its own arguments); the range check compares with the size of the *target's* window (`win->size_` where
`win = connected_wins_[target_rank]`) -/
abbrev WSizes := Nat → Nat

/-- with the range check of the code -/
def Call.execW (ws : WSizes) (c : Call) (m : Mem) : Mem := if c.rangeErr (ws c.target) then m else c.exec m

/-- locations a call may write -/
def Call.writes : Call → List Loc
  | .put t d vals => (List.range vals.length).map (fun k => .win t (d + k))
  | .get id _ _ n => (List.range n).map (fun k => .res id k)
  | .acc t d _ vals => (List.range vals.length).map (fun k => .win t (d + k))
  | .gacc id t d _ vals => (List.range vals.length).map (fun k => .win t (d + k)) ++
                           (List.range vals.length).map (fun k => .res id k)
  | .cas id t d _ _ => [.win t d, .res id 0]

/-- locations whose old value a call may depend on -/
def Call.reads : Call → List Loc
  | .put .. => []
  | .get _ t d n => (List.range n).map (fun k => .win t (d + k))
  | .acc t d _ vals => (List.range vals.length).map (fun k => .win t (d + k))
  | .gacc _ t d _ vals => (List.range vals.length).map (fun k => .win t (d + k))
  | .cas _ t d _ _ => [.win t d]

def Call.touch (c : Call) : List Loc := c.writes ++ c.reads

def disjointL (a b : List Loc) : Bool := a.all (fun x => !b.contains x)

/-- plain accumulate with a commutative-associative operator -/
def Call.commAcc : Call → Option ROp
  | .acc _ _ op _ => if op.comm then some op else none
  | _ => none

/-- decidable sufficient condition for two calls to commute: their footprints are disjoint (nobody writes what the
other reads or writes), or both are plain accumulates with the same commutative-associative operator. -/
def commuteC (a b : Call) : Bool :=
  (disjointL a.writes b.touch && disjointL b.writes a.touch) ||
  (match a.commAcc, b.commAcc with
   | some o1, some o2 => o1 == o2
   | _, _ => false)

/-! ## Epochs, phases, serialisations -/

/-- a sequence of calls executed atomically w.r.t. other origins: the calls of one exclusive-lock epoch, or a single
call under lock_all / between fences. -/
abbrev Block := List Call

def Block.exec (w : WSizes) (b : Block) (m : Mem) : Mem := b.foldl (fun m c => c.execW w m) m

def runBlocks (w : WSizes) (bs : List Block) (m : Mem) : Mem := bs.foldl (fun m b => Block.exec w b m) m

/-- all merges of two sequences that keep each sequence's own order -/
def merge2 {α : Type} : List α → List α → List (List α)
  | [], ys => [ys]
  | x :: xs, [] => [x :: xs]
  | x :: xs, y :: ys => (merge2 xs (y :: ys)).map (x :: ·) ++ (merge2 (x :: xs) ys).map (y :: ·)
termination_by xs ys => xs.length + ys.length

/-- all serialisations of per-origin block sequences: every total order that keeps program order per origin -/
def merges {α : Type} : List (List α) → List (List α)
  | [] => [[]]
  | l :: ls => (merges ls).flatMap (merge2 l)

/-- a phase: for each origin, its blocks in program order -/
abbrev Phase := List (List Block)

/-- every block of one origin commutes call-by-call with every block of every other origin -/
def blocksCommute (a b : Block) : Bool := a.all (fun x => b.all (fun y => commuteC x y))

def phaseCommutes : Phase → Bool
  | [] => true
  | o :: os => o.all (fun a => os.all (fun o' => o'.all (fun b => blocksCommute a b))) && phaseCommutes os

/-! ## What is observed, and the monitor -/

/-- observation after a phase: the windows of all ranks, and the result buffers -/
structure Obs where
  wins : List (List Int)                 -- per rank
  results : List (Nat × List Int)        -- (call id, result words)
  deriving Repr

def memOfWins (wins : List (List Int)) : Mem := fun loc =>
  match loc with
  | .win r i => match wins[r]? with
    | some l => (match l[i]? with | some v => v | none => 0)
    | none => 0
  | .res _ _ => 0

def winsOfMem (n w : Nat) (m : Mem) : List (List Int) :=
  (List.range n).map (fun r => (List.range w).map (fun i => m (.win r i)))

def matchesObs (n w : Nat) (m : Mem) (o : Obs) : Bool :=
  winsOfMem n w m == o.wins &&
  o.results.all (fun (id, vals) => (List.range vals.length).map (fun k => m (.res id k)) == vals)

/-- **Monitor.**  The observation is one of the results the specification allows for the phase started in `m0`. -/
def allowed (n w : Nat) (ws : WSizes) (m0 : Mem) (ph : Phase) (o : Obs) : Bool :=
  (merges ph).any (fun order => matchesObs n w (runBlocks ws order m0) o)

/-- the specification's result for one fixed serialisation: program order of origin 0, then origin 1, ... -/
def canonical (w : WSizes) (m0 : Mem) (ph : Phase) : Mem := runBlocks w ph.flatten m0

/-! ## Mech: the request plumbing of smpi_win.cpp

What is modelled (function by function):
* `Win::put` / `Win::get` / `Win::accumulate`: a remote call creates a send and a receive request.  Every RMA send is
  *detached* (`Request::start`: `(flags_ & MPI_REQ_RMA) != 0 ⇒ detached_ = true; buf = xbt_malloc; memcpy(buf, oldbuf)`),
  so the payload is the content of the source buffer **when the call is issued** — for a Get that is the target window
  at issue time — and waiting for the send side is a no-op.  The destination buffer is written (Put: copy, Accumulate:
  `op` applied, Get: result buffer) when the communication completes: event `deliver`, at any later point of the
  schedule, in any order (completion dates come from the network model, which is not modelled).
  `target_rank == rank_`: Put and Get are an immediate `Datatype::copy`; Accumulate always goes through requests.
* `CHECK_WIN_LOCKED`: with `opened_ == 0` the origin must be in the target's `lockers_`, else `MPI_ERR_WIN`, no effect.
* `Win::lock`: the branch structure on `mode_` (0 none, 1 = MPI_LOCK_EXCLUSIVE, 2 = MPI_LOCK_SHARED, sums when several
  shared lockers add up), `lock_mut_` (blocking when owned), `lockers_.push_back`, then `flush(rank)`.
* `Win::unlock`: `mode_ = 0; lockers_.remove(rank_); if (target_mode == EXCLUSIVE) lock_mut_->unlock(); flush(rank)`.
* `Win::flush(t)` = `finish_comms(t)` on the own window and on `t`'s window for me: blocks until no communication
  between the two ranks is pending (`flushWait`).
* `Win::accumulate` ends with `flush(target_rank)`.
* `Win::get_accumulate`: `atomic_mut_` of the target; `get` + `Request::wait`; `accumulate` (skipped for MPI_NO_OP).
* `Win::compare_and_swap`: `atomic_mut_`; `get` + wait; `if (!memcmp(result, compare)) put(...)` — the put is *not*
  waited for before `atomic_mut_` is released.
NOT modelled: the simulated `mut_` of each window (held by `finish_comms` during its `waitall`; it delays other ranks
pushing to the same request vector, i.e. it only removes schedules), fences / post-start-complete-wait, the `count_`
tags (`SMPI_RMA_TAG - 3 - count_`: matching of an accumulate's send with its own receive; the model pairs them by
construction), dates, `MPI_Rput`-style request handles, dynamic windows.  The evaluation of `Win::lock`'s branch
condition and the acquisition of `lock_mut_` are one atomic step here (the code tests `mode_` before it blocks).
-/

inductive Payload where
  | write (t d : Nat) (vals : List Int)
  | accum (t d : Nat) (op : ROp) (vals : List Int)
  | result (id : Nat) (vals : List Int)
  deriving Repr

structure Msg where
  origin : Nat
  target : Nat
  pl : Payload
  deriving Repr

/-- what an MPI call does between two points where the calling actor can be descheduled -/
inductive Micro where
  | acquire (t : Nat) (excl : Bool)
  | release (t : Nat)
  | flushWait (t : Nat)
  | issuePut (t d : Nat) (vals : List Int)
  | issueGet (id t d n : Nat)
  | issueAcc (t d : Nat) (op : ROp) (vals : List Int)
  | waitRes (id : Nat)
  | atomAcquire (t : Nat)
  | atomRelease (t : Nat)
  | casPut (id t d : Nat) (cmp new : Int)
  deriving Repr

/-- the three places where the code can be repaired (all `false` = the code as it is) -/
structure Variant where
  unlockFlushFirst : Bool := false    -- Win::unlock: flush(rank) *before* releasing lock_mut_
  casFlush : Bool := false            -- Win::compare_and_swap: flush(target_rank) after the put
  accAtomic : Bool := false           -- Win::accumulate takes the target's atomic_mut_
  deriving Repr

/-- the MPI-level calls of a rank -/
inductive MCall where
  | lock (t : Nat) | lockShared (t : Nat) | unlock (t : Nat) | flush (t : Nat)
  | lockAll (n : Nat) | unlockAll (n : Nat)
  | rma (c : Call)
  deriving Repr

def unlockMicros (v : Variant) (t : Nat) : List Micro :=
  if v.unlockFlushFirst then [.flushWait t, .release t] else [.release t, .flushWait t]

def accMicros (v : Variant) (t d : Nat) (op : ROp) (vals : List Int) : List Micro :=
  if v.accAtomic then [.atomAcquire t, .issueAcc t d op vals, .flushWait t, .atomRelease t]
  else [.issueAcc t d op vals, .flushWait t]

def compile (v : Variant) : MCall → List Micro
  | .lock t => [.acquire t true, .flushWait t]
  | .lockShared t => [.acquire t false, .flushWait t]
  | .unlock t => unlockMicros v t
  | .flush t => [.flushWait t]
  | .lockAll n => (List.range n).flatMap (fun i => [.acquire i false, .flushWait i])
  | .unlockAll n => (List.range n).flatMap (fun i => unlockMicros v i)
  | .rma (.put t d vals) => [.issuePut t d vals]
  | .rma (.get id t d n) => [.issueGet id t d n]
  | .rma (.acc t d op vals) => accMicros v t d op vals
  | .rma (.gacc id t d op vals) =>
    [.atomAcquire t, .issueGet id t d vals.length, .waitRes id] ++
    (if op = .noop then [] else [.issueAcc t d op vals, .flushWait t]) ++ [.atomRelease t]
  | .rma (.cas id t d cmp new) =>
    [.atomAcquire t, .issueGet id t d 1, .waitRes id, .casPut id t d cmp new] ++
    (if v.casFlush then [.flushWait t] else []) ++ [.atomRelease t]

structure MState where
  mem : Mem
  pending : List Msg
  lockOwner : Nat → Option Nat
  mode : Nat → Nat
  lockers : Nat → List Nat
  atomOwner : Nat → Option Nat
  pc : Nat → List Micro

def upd {β : Type} (f : Nat → β) (k : Nat) (v : β) : Nat → β := fun x => if x = k then v else f x

def MState.init (m : Mem) (progs : List (List Micro)) : MState :=
  { mem := m, pending := [], lockOwner := fun _ => none, mode := fun _ => 0, lockers := fun _ => [],
    atomOwner := fun _ => none, pc := fun r => match progs[r]? with | some p => p | none => [] }

def between (r t : Nat) (m : Msg) : Bool :=
  (m.origin == r && m.target == t) || (m.origin == t && m.target == r)

def isResult (id : Nat) (m : Msg) : Bool :=
  match m.pl with
  | .result j _ => j == id
  | _ => false

def readVals (m : Mem) (t d n : Nat) : List Int := (List.range n).map (fun k => m (.win t (d + k)))

def Payload.apply (p : Payload) (m : Mem) : Mem :=
  match p with
  | .write t d vals => (Call.put t d vals).exec m
  | .accum t d op vals => (Call.acc t d op vals).exec m
  | .result id vals => fun loc =>
    match loc with
    | .res j k => if j = id then (match vals[k]? with | some v => v | none => m loc) else m loc
    | _ => m loc

/-- one micro-action of rank `r`; `none` = not enabled (the actor is blocked) -/
def microStep (s : MState) (r : Nat) (a : Micro) (rest : List Micro) : Option MState :=
  let adv (s : MState) : MState := { s with pc := upd s.pc r rest }
  match a with
  | .acquire t excl =>
    let m := s.mode t
    let ty := if excl then 1 else 2
    if (excl ∧ m ≠ 2) ∨ m = 1 then
      if (s.lockOwner t).isSome then none
      else some (adv { s with mode := upd s.mode t (m + ty),
                              lockOwner := upd s.lockOwner t (if excl then some r else none),
                              lockers := upd s.lockers t (s.lockers t ++ [r]) })
    else if ¬ (m = 2 ∧ excl) then
      some (adv { s with mode := upd s.mode t (m + ty), lockers := upd s.lockers t (s.lockers t ++ [r]) })
    else some (adv { s with lockers := upd s.lockers t (s.lockers t ++ [r]) })
  | .release t =>
    let tm := s.mode t
    some (adv { s with mode := upd s.mode t 0, lockers := upd s.lockers t ((s.lockers t).filter (· ≠ r)),
                       lockOwner := if tm = 1 then upd s.lockOwner t none else s.lockOwner })
  | .flushWait t => if s.pending.any (between r t) then none else some (adv s)
  | .issuePut t d vals =>
    if ¬ (s.lockers t).contains r then some (adv s)            -- MPI_ERR_WIN
    else if t = r then some (adv { s with mem := (Call.put t d vals).exec s.mem })
    else some (adv { s with pending := s.pending ++ [⟨r, t, .write t d vals⟩] })
  | .issueGet id t d n =>
    if ¬ (s.lockers t).contains r then some (adv s)
    else if t = r then some (adv { s with mem := (Call.get id t d n).exec s.mem })
    else some (adv { s with pending := s.pending ++ [⟨r, t, .result id (readVals s.mem t d n)⟩] })
  | .issueAcc t d op vals =>
    if ¬ (s.lockers t).contains r then some (adv s)
    else some (adv { s with pending := s.pending ++ [⟨r, t, .accum t d op vals⟩] })
  | .waitRes id => if s.pending.any (isResult id) then none else some (adv s)
  | .atomAcquire t => if (s.atomOwner t).isSome then none else some (adv { s with atomOwner := upd s.atomOwner t (some r) })
  | .atomRelease t => some (adv { s with atomOwner := upd s.atomOwner t none })
  | .casPut id t d cmp new =>
    if s.mem (.res id 0) = cmp then
      (if t = r then some (adv { s with mem := (Call.put t d [new]).exec s.mem })
       else some (adv { s with pending := s.pending ++ [⟨r, t, .write t d [new]⟩] }))
    else some (adv s)

inductive Ev where
  | call (r : Nat)          -- rank r performs its next micro-action
  | deliver (k : Nat)       -- the k-th pending communication completes
  deriving Repr

def step (s : MState) : Ev → Option MState
  | .call r =>
    match s.pc r with
    | [] => none
    | a :: rest => microStep s r a rest
  | .deliver k =>
    match s.pending[k]? with
    | none => none
    | some msg => some { s with pending := s.pending.eraseIdx k, mem := msg.pl.apply s.mem }

def runMech (s : MState) : List Ev → Option MState
  | [] => some s
  | e :: es => match step s e with
    | none => none
    | some s' => runMech s' es

def MState.finished (s : MState) (n : Nat) : Bool :=
  s.pending.isEmpty && (List.range n).all (fun r => (s.pc r).isEmpty)

end SgVerif.C34
