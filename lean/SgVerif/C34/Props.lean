import SgVerif.C34.Lemmas
import SgVerif.C34.ExclInv
/-
C34 — RMA windows behave like shared memory under their locks.  Property theorems.

Specification level (all full strength: ∀ window sizes, ∀ memories, ∀ programs in the call language, ∀ serialisations):
  rma_spec_allowed_iff, rma_spec_determinate, rma_spec_determinate_obs, fence_epochs_commute,
  get_returns_value_at_its_position, cas_atomic
Mechanism level (model of smpi_win.cpp's request plumbing, section Mech of Model.lean):
  flush_drains, accumulate_returns_drained,
  and the three `…_counterexample`s: the mechanism *as the code is now* reaches observations that no serialisation
  explains.  The full-strength statement

      theorem mech_refines_spec : ∀ programs p (race-free in the sense of `phaseCommutes` outside exclusive epochs),
        ∀ schedules es, runMech (init p) es = some s → s.finished → allowed … (obsOf s) = true

  was FALSE on the code before the three fix commits (`mech_excl_unlock_counterexample`, `mech_cas_counterexample`,
  `mech_getacc_counterexample`, all three replayed on the real library, see NOTES.md).  For the repaired mechanism (all
  three switches on = /repo now) the part of it that the first defect broke is PROVED for all programs of exclusive-lock
  epochs and ALL schedules: `mech_fixed_excl_epochs_isolated` (every message in flight belongs to the current holder of
  the exclusive lock of its target window; a free or newly acquired lock means nothing is in flight to that window).
  Still NOT proved: that the final memory is the one of a serialisation (`mech_refines_spec`); what is missing is the
  argument inside ONE epoch (deliveries in any order of the holder's messages = the sequential `Block.exec`, for blocks
  whose Put / Get footprints are disjoint from the other calls of the block) and the composition over epochs.
-/
namespace SgVerif.C34

/-! ### addressing: displacement units and the range check (boundaries) -/

/-- The cell a displacement denotes is decided by the *target's* displacement unit alone: two assignments of units to the
ranks that agree on the target give the same cell, whatever the origin's (or anybody else's) unit is. -/
theorem dispIndexAt_target_only (dus dus' : List Nat) (t disp : Nat) (h : dus[t]? = dus'[t]?) :
    dispIndexAt dus t disp = dispIndexAt dus' t disp := by
  simp [dispIndexAt, h]

/-- with the same unit everywhere this is the single-unit conversion -/
theorem dispIndexAt_uniform (n du t disp : Nat) (h : t < n) :
    dispIndexAt (List.replicate n du) t disp = dispIndex du disp := by
  simp [dispIndexAt, h]

/-- units 4 / 1 / 8 on ranks 0 / 1 / 2: cell 2 of each window is displacement 2, 8, 1 -/
example : (dispIndexAt [4, 1, 8] 0 2, dispIndexAt [4, 1, 8] 1 8, dispIndexAt [4, 1, 8] 2 1, dispIndexAt [4, 1, 8] 1 3)
    = (some 2, some 2, some 2, none) := by decide

/-- `CHECK_RMA_REMOTE_WIN` at its boundary, for every window size: a transfer of exactly the whole window is accepted
(a one-element counter window can be read and updated), one element more is refused.  (CAS: no check.) -/
theorem rangeErr_iff (w : Nat) (c : Call) (h : ∀ id t d a b, c ≠ .cas id t d a b) :
    c.rangeErr w = true ↔ w < c.count := by
  cases c with
  | cas id t d a b => exact absurd rfl (h id t d a b)
  | put t d vals => simp [Call.rangeErr, Call.count]
  | get id t d n => simp [Call.rangeErr, Call.count]
  | acc t d op vals => simp [Call.rangeErr, Call.count]
  | gacc id t d op vals => simp [Call.rangeErr, Call.count]

theorem whole_window_accepted (ws : WSizes) (c : Call) (h : c.count ≤ ws c.target) : c.execW ws = c.exec := by
  funext m
  have : c.rangeErr (ws c.target) = false := by
    cases c <;> simp [Call.rangeErr, Call.count] at * <;> omega
  simp [Call.execW, this]

theorem past_the_end_refused (ws : WSizes) (c : Call) (h : ∀ id t d a b, c ≠ .cas id t d a b)
    (hc : ws c.target < c.count) (m : Mem) : c.execW ws m = m := by
  simp [Call.execW, (rangeErr_iff (ws c.target) c h).2 hc]

/-- the range check looks at the size of the TARGET's window only: two size assignments that agree on the target of a
call treat the call alike, whatever the size of the origin's own window is -/
theorem execW_target_only (ws ws' : WSizes) (c : Call) (h : ws c.target = ws' c.target) : c.execW ws = c.execW ws' := by
  funext m; simp [Call.execW, h]

example : (Call.put 1 0 [5]).rangeErr 1 = false ∧ (Call.gacc 7 1 0 .sum [5]).rangeErr 1 = false ∧
    (Call.get 7 1 0 4).rangeErr 4 = false ∧ (Call.get 7 1 0 5).rangeErr 4 = true := by decide

/-! ### specification -/

/-- Under exclusive locks (and for any phase) the observation is allowed iff it is the result of *some* serialisation
of the epochs that keeps each origin's program order: the result depends only on that order. -/
theorem rma_spec_allowed_iff (n w : Nat) (ws : WSizes) (m0 : Mem) (ph : Phase) (o : Obs) :
    allowed n w ws m0 ph o = true ↔ ∃ order ∈ merges ph, matchesObs n w (runBlocks ws order m0) o = true := by
  simp [allowed, List.any_eq_true]

theorem phaseCommutes_sound (w : WSizes) (o : List Block) (os : Phase) (h : phaseCommutes (o :: os) = true) :
    (∀ x ∈ o, ∀ y ∈ os.flatten, Commutes (Block.exec w x) (Block.exec w y)) ∧ phaseCommutes os = true := by
  simp only [phaseCommutes, Bool.and_eq_true, List.all_eq_true] at h
  refine ⟨?_, h.2⟩
  intro x hx y hy
  rw [List.mem_flatten] at hy
  rcases hy with ⟨o', ho', hy⟩
  exact blocksCommute_sound w x y (h.1 x hx o' ho' y hy)

/-- **Determinacy.**  When the blocks of different origins commute pairwise — disjoint footprints, or plain
accumulates with one commutative-associative operator — every allowed serialisation gives the same memory (windows
*and* result buffers): the one of the canonical order. -/
theorem rma_spec_determinate (w : WSizes) (ph : Phase) (h : phaseCommutes ph = true) (m : Mem) :
    ∀ order ∈ merges ph, runBlocks w order m = canonical w m ph := by
  induction ph generalizing m with
  | nil => intro order ho; simp [merges] at ho; subst ho; rfl
  | cons o os ih =>
    intro order ho
    simp only [merges, List.mem_flatMap] at ho
    rcases ho with ⟨l', hl', hl⟩
    have hs := phaseCommutes_sound w o os h
    have hc : ∀ x ∈ o, ∀ y ∈ l', Commutes (Block.exec w x) (Block.exec w y) := by
      intro x hx y hy
      exact hs.1 x hx y ((mem_merges os l' hl' y).mp hy)
    rw [run_merge2 w o l' order hl hc m, runBlocks_append, ih hs.2 (runBlocks w o m) l' hl']
    simp [canonical, runBlocks_append]

theorem append_mem_merge2 {α : Type} (xs ys : List α) : xs ++ ys ∈ merge2 xs ys := by
  fun_induction merge2 xs ys with
  | case1 ys => simp
  | case2 x xs => simp
  | case3 x xs y ys ih1 ih2 =>
    simp only [List.mem_append, List.mem_map]
    exact Or.inl ⟨xs ++ y :: ys, ih1, rfl⟩

theorem flatten_mem_merges {α : Type} (ls : List (List α)) : ls.flatten ∈ merges ls := by
  induction ls with
  | nil => simp [merges]
  | cons o os ih =>
    simp only [merges, List.mem_flatMap, List.flatten_cons]
    exact ⟨os.flatten, ih, append_mem_merge2 o os.flatten⟩

/-- in the commuting case the monitor has exactly one acceptable observation -/
theorem rma_spec_determinate_obs (n w : Nat) (ws : WSizes) (m0 : Mem) (ph : Phase) (o : Obs)
    (h : phaseCommutes ph = true) :
    allowed n w ws m0 ph o = matchesObs n w (canonical ws m0 ph) o := by
  rw [Bool.eq_iff_iff, rma_spec_allowed_iff]
  constructor
  · rintro ⟨order, ho, hm⟩
    rwa [rma_spec_determinate ws ph h m0 order ho] at hm
  · intro hm
    exact ⟨ph.flatten, flatten_mem_merges ph, hm⟩

/-- fence epochs (or any two blocks) whose calls pairwise have non-overlapping footprints or are same-operator
commutative accumulates can be executed in either order -/
theorem fence_epochs_commute (w : WSizes) (a b : Block) (h : blocksCommute a b = true) (m : Mem) :
    Block.exec w a (Block.exec w b m) = Block.exec w b (Block.exec w a m) :=
  blocksCommute_sound w a b h m

theorem foldl_frame (w : WSizes) (cs : List Call) (m : Mem) (loc : Loc) (h : ∀ c ∈ cs, loc ∉ c.writes) :
    cs.foldl (fun m c => c.execW w m) m loc = m loc := by
  induction cs generalizing m with
  | nil => rfl
  | cons c cs ih =>
    simp only [List.foldl_cons]
    rw [ih _ (fun c' hc' => h c' (by simp [hc']))]
    unfold Call.execW
    split
    · rfl
    · exact exec_frame c m loc (h c (by simp))

/-- **A Get returns the value at its position in the serialisation**: in any sequence of calls `pre ++ get :: post`
where no later call writes the same result word, word `k` of the Get's buffer is, at the end, the content of the
target cell in the memory produced by exactly the calls before the Get. -/
theorem get_returns_value_at_its_position (w : WSizes) (pre post : List Call) (m0 : Mem) (id t d n k : Nat)
    (hk : k < n) (hn : n ≤ w t) (hpost : ∀ c ∈ post, Loc.res id k ∉ c.writes) :
    (pre ++ Call.get id t d n :: post).foldl (fun m c => c.execW w m) m0 (.res id k) =
      (pre.foldl (fun m c => c.execW w m) m0) (.win t (d + k)) := by
  rw [List.foldl_append, List.foldl_cons, foldl_frame w post _ _ hpost]
  have : (Call.get id t d n).rangeErr (w t) = false := by
    simp [Call.rangeErr, Call.count]; omega
  simp [Call.execW, Call.target, this, Call.exec, hk]

/-- results returned by a sequence of compare-and-swap calls on cell `(t,d)` with compare value `c` -/
def casResults (t d : Nat) (c : Int) : List (Nat × Int) → Mem → List Int
  | [], _ => []
  | (id, new) :: rest, m =>
    let m' := (Call.cas id t d c new).exec m
    m' (.res id 0) :: casResults t d c rest m'

theorem cas_none_after (t d : Nat) (c : Int) (ops : List (Nat × Int)) (m : Mem) (h : m (.win t d) ≠ c) :
    ∀ r ∈ casResults t d c ops m, r ≠ c := by
  induction ops generalizing m with
  | nil => simp [casResults]
  | cons op ops ih =>
    obtain ⟨id, new⟩ := op
    intro r hr
    simp only [casResults, List.mem_cons] at hr
    rcases hr with rfl | hr
    · simpa [Call.exec] using h
    · apply ih _ _ r hr
      simp [Call.exec, h]

/-- **CAS is atomic**: among any number of compare-and-swap calls on one cell with the same compare value `c` and new
values different from `c`, applied in any serial order, at most one returns `c` (succeeds); exactly one when the cell
holds `c` initially and there is at least one call. -/
theorem cas_atomic (t d : Nat) (c : Int) (ops : List (Nat × Int)) (m : Mem) (hnew : ∀ op ∈ ops, op.2 ≠ c) :
    ((casResults t d c ops m).filter (· = c)).length ≤ 1 ∧
    (m (.win t d) = c → ops ≠ [] → ((casResults t d c ops m).filter (· = c)).length = 1) := by
  induction ops generalizing m with
  | nil => simp [casResults]
  | cons op ops ih =>
    obtain ⟨id, new⟩ := op
    have hn : new ≠ c := hnew (id, new) (by simp)
    have hrest : ∀ op ∈ ops, op.2 ≠ c := fun op h => hnew op (by simp [h])
    by_cases hm : m (.win t d) = c
    · -- this CAS succeeds; afterwards the cell holds `new ≠ c` and nobody else can succeed
      have hafter : ((Call.cas id t d c new).exec m) (.win t d) ≠ c := by simp [Call.exec, hm, hn]
      have hnone := cas_none_after t d c ops _ hafter
      have hz : ((casResults t d c ops ((Call.cas id t d c new).exec m)).filter (· = c)) = [] := by
        rw [List.filter_eq_nil_iff]
        intro r hr
        simpa using hnone r hr
      have hres : ((Call.cas id t d c new).exec m) (.res id 0) = c := by simp [Call.exec, hm]
      simp [casResults, hres, hz]
    · have hafter : ((Call.cas id t d c new).exec m) (.win t d) ≠ c := by simp [Call.exec, hm]
      have hres : ((Call.cas id t d c new).exec m) (.res id 0) ≠ c := by simp [Call.exec, hm]
      have hnone := cas_none_after t d c ops _ hafter
      have hz : ((casResults t d c ops ((Call.cas id t d c new).exec m)).filter (· = c)) = [] := by
        rw [List.filter_eq_nil_iff]
        intro r hr
        simpa using hnone r hr
      simp [casResults, hres, hz, hm]

/-! ### mechanism -/

/-- `Win::flush(t)` returns only when no communication between the two ranks is pending -/
theorem flush_drains (s s' : MState) (r t : Nat) (rest : List Micro)
    (h : microStep s r (.flushWait t) rest = some s') :
    s'.pending.any (between r t) = false ∧ s'.pending = s.pending ∧ s'.mem = s.mem := by
  simp only [microStep] at h
  split at h
  · cases h
  · rename_i hh
    injection h with h
    subst h
    refine ⟨?_, rfl, rfl⟩
    simpa using hh

/-- `Win::accumulate` = issue + `flush(target_rank)`: when the call has returned (both micro-actions done, whatever
happened in between), none of the caller's communications towards that target is pending — in particular its own
update has been applied, so accumulates of one origin to one target are applied in program order. -/
theorem accumulate_returns_drained (s1 s2 : MState) (r t d : Nat) (op : ROp) (vals : List Int)
    (rest : List Micro) (mid : List Ev) (s1' : MState)
    (_h1 : microStep s1 r (.issueAcc t d op vals) (.flushWait t :: rest) = some s1')
    (_hmid : runMech s1' mid = some s2)
    (s3 : MState) (h3 : microStep s2 r (.flushWait t) rest = some s3) :
    ∀ m ∈ s3.pending, ¬ (m.origin = r ∧ m.target = t) := by
  have := (flush_drains s2 s3 r t rest h3).1
  intro m hm hc
  rw [List.any_eq_false] at this
  apply this m hm
  simp [between, hc.1, hc.2]

/-! ### the repaired mechanism: exclusive-lock epochs are isolated, in-flight data included (∀ programs, ∀ schedules) -/

/-- **Exclusive epochs are atomic including their in-flight data** (repaired mechanism, `fixedV`).  For every initial
    memory, every number of ranks, every program in which each rank runs any sequence of exclusive-lock epochs
    (lock t; any Put / Get / Accumulate / Get_accumulate / Compare_and_swap addressed to t; unlock t — any targets, self
    included), and EVERY schedule of micro-actions and message deliveries that the mechanism can execute, in every state
    reached: (1) each RMA message in flight belongs to the rank that currently holds the exclusive lock of its target
    window; hence (2) while the lock of a window is free — in particular at the moment the next origin acquires it — no
    message to that window is in flight: nothing of a finished epoch can land inside the next one (what
    `mech_excl_unlock_counterexample` shows for the old `Win::unlock`); (3) `mode_` is 1 exactly while `lock_mut_` is
    owned (the odd branches of `Win::lock` for `mode_ = 2` are never taken).  Inductive invariant `GInv` (ExclInv.lean). -/
theorem mech_fixed_excl_epochs_isolated (m0 : Mem) (progs : List (List Epoch))
    (hok : ∀ es ∈ progs, ∀ e ∈ es, epochOk e) (evs : List Ev) (s : MState)
    (hrun : runMech (MState.init m0 (progs.map progMicros)) evs = some s) :
    (∀ msg ∈ s.pending, s.lockOwner msg.target = some msg.origin) ∧
    (∀ t, s.lockOwner t = none → ∀ msg ∈ s.pending, msg.target ≠ t) ∧
    (∀ t, s.mode t = if (s.lockOwner t).isSome then 1 else 0) := by
  have h := ginv_run evs _ s (ginv_init m0 progs hok) hrun
  refine ⟨h.owner, ?_, h.mode⟩
  intro t ht msg hm heq
  have := h.owner msg hm
  rw [heq, ht] at this
  cases this

/-! ### counterexamples: the code as it is (Variant all false) -/

def obsOf (n w : Nat) (ids : List Nat) (s : MState) : Obs :=
  { wins := winsOfMem n w s.mem, results := ids.map (fun id => (id, [s.mem (.res id 0)])) }

def allowedIn (n w : Nat) (ws : WSizes) (m0 : Mem) (orders : List (List Block)) (o : Obs) : Bool :=
  orders.any (fun order => matchesObs n w (runBlocks ws order m0) o)

theorem allowed_eq_allowedIn (n w : Nat) (ws : WSizes) (m0 : Mem) (ph : Phase) (o : Obs) :
    allowed n w ws m0 ph o = allowedIn n w ws m0 (merges ph) o := rfl

def badEnd (n w : Nat) (ws : WSizes) (m0 : Mem) (orders : List (List Block)) (ids : List Nat) (r : Option MState) : Bool :=
  match r with
  | some s => s.finished n && !(allowedIn n w ws m0 orders (obsOf n w ids s))
  | none => false

theorem badEnd_spec (n w : Nat) (ws : WSizes) (m0 : Mem) (ph : Phase) (ids : List Nat) (r : Option MState)
    (h : badEnd n w ws m0 (merges ph) ids r = true) :
    ∃ s, r = some s ∧ s.finished n = true ∧ allowed n w ws m0 ph (obsOf n w ids s) = false := by
  cases r with
  | none => simp [badEnd] at h
  | some s =>
    simp only [badEnd, Bool.and_eq_true, Bool.not_eq_true'] at h
    exact ⟨s, rfl, h.1, by rw [allowed_eq_allowedIn]; exact h.2⟩

theorem merges_two {α : Type} (a b : α) : merges [[a], [b]] = [[a, b], [b, a]] := by
  simp [merges, merge2]

def m0w : Mem := memOfWins [[1000, 1001], [2000, 2001], [3000, 3001]]

/-- the mechanism as it was BEFORE the three fix commits in /repo (449d71abd2, 89a6e6f865, a2a9f2f5cf): the
`…_counterexample` theorems below are about that variant and are kept as regressions; the `…_blocked_when_fixed`
theorems show the same schedules are not executable on the repaired mechanism (all three switches on), which is
what /repo contains now. -/
def preFix : Variant := {}

/-- witness 1: two exclusive-lock epochs on rank 2's window.
rank 0: lock 2; Put [0]:=7; Put [1]:=5; unlock 2        rank 1: lock 2; Get [0]; Get [1]; unlock 2 -/
def w1Epoch0 : Block := [.put 2 0 [7], .put 2 1 [5]]
def w1Epoch1 : Block := [.get 3 2 0 1, .get 4 2 1 1]
def w1Progs (v : Variant) : List (List Micro) :=
  [ ([MCall.lock 2] ++ w1Epoch0.map MCall.rma ++ [MCall.unlock 2]).flatMap (compile v),
    ([MCall.lock 2] ++ w1Epoch1.map MCall.rma ++ [MCall.unlock 2]).flatMap (compile v) ]
/-- rank 0 runs up to the release of `lock_mut_` (its puts are in flight); rank 1 gets the lock and issues its first
Get (the detached send copies cell 0 *now*: still 3000); rank 0's second put completes; rank 1 issues the second Get
(reads 5); everything completes. -/
def w1Sched : List Ev :=
  [.call 0, .call 0, .call 0, .call 0, .call 0, .call 1, .call 1, .call 1, .deliver 1, .call 1, .deliver 0, .call 0,
   .deliver 0, .deliver 0, .call 1, .call 1]

theorem mech_excl_unlock_counterexample :
    ∃ s, runMech (MState.init m0w (w1Progs preFix)) w1Sched = some s ∧ s.finished 3 = true ∧
      allowed 3 2 (fun _ => 2) m0w [[w1Epoch0], [w1Epoch1]] (obsOf 3 2 [3, 4] s) = false := by
  apply badEnd_spec
  rw [merges_two]
  decide +kernel

/-- with `flush` before the release of `lock_mut_` the same interleaving is impossible: rank 0 cannot release
while its puts are pending, so rank 1's acquire is not enabled -/
theorem mech_excl_unlock_blocked_when_fixed :
    runMech (MState.init m0w (w1Progs { unlockFlushFirst := true })) w1Sched = none := by
  decide +kernel

/-- witness 2: two compare-and-swap on cell 0 of rank 2 under lock_all; both compare with 3000. -/
def w2Progs (v : Variant) : List (List Micro) :=
  [ [MCall.lockAll 3, .rma (.cas 1 2 0 3000 11), .unlockAll 3].flatMap (compile v),
    [MCall.lockAll 3, .rma (.cas 2 2 0 3000 22), .unlockAll 3].flatMap (compile v) ]
def w2Sched : List Ev :=
  (List.replicate 6 (.call 0)) ++ (List.replicate 6 (.call 1)) ++
  [.call 0, .call 0, .deliver 0, .call 0, .call 0, .call 0,      -- rank 0: CAS done, its put in flight
   .call 1, .call 1, .deliver 1, .call 1, .call 1, .call 1,      -- rank 1: reads 3000 as well
   .deliver 0, .deliver 0] ++
  (List.replicate 6 (.call 0)) ++ (List.replicate 6 (.call 1))

theorem mech_cas_counterexample :
    ∃ s, runMech (MState.init m0w (w2Progs preFix)) w2Sched = some s ∧ s.finished 3 = true ∧
      allowed 3 2 (fun _ => 2) m0w [[[.cas 1 2 0 3000 11]], [[.cas 2 2 0 3000 22]]] (obsOf 3 2 [1, 2] s) = false := by
  apply badEnd_spec
  rw [merges_two]
  decide +kernel

theorem mech_cas_blocked_when_fixed :
    runMech (MState.init m0w (w2Progs { casFlush := true })) w2Sched = none := by
  decide +kernel

/-- witness 3: Fetch_and_op(REPLACE) by rank 0 and Accumulate(REPLACE) by rank 1 on the same cell under lock_all:
the accumulate lands between the read and the write of the fetch-and-op (`Win::accumulate` does not take
`atomic_mut_`). -/
def w3Progs (v : Variant) : List (List Micro) :=
  [ [MCall.lockAll 3, .rma (.gacc 1 2 0 .replace [11]), .unlockAll 3].flatMap (compile v),
    [MCall.lockAll 3, .rma (.acc 2 0 .replace [22]), .unlockAll 3].flatMap (compile v) ]
def w3Sched : List Ev :=
  (List.replicate 6 (.call 0)) ++ (List.replicate 6 (.call 1)) ++
  [.call 0, .call 0,                 -- rank 0: atomic_mut_, Get issued (payload 3000)
   .call 1, .deliver 1, .call 1,     -- rank 1: accumulate 22 applied, flush returns
   .deliver 0, .call 0, .call 0, .deliver 0, .call 0, .call 0] ++
  (List.replicate 6 (.call 0)) ++ (List.replicate 6 (.call 1))

theorem mech_getacc_counterexample :
    ∃ s, runMech (MState.init m0w (w3Progs preFix)) w3Sched = some s ∧ s.finished 3 = true ∧
      allowed 3 2 (fun _ => 2) m0w [[[.gacc 1 2 0 .replace [11]]], [[.acc 2 0 .replace [22]]]] (obsOf 3 2 [1] s) = false := by
  apply badEnd_spec
  rw [merges_two]
  decide +kernel

theorem mech_getacc_blocked_when_fixed :
    runMech (MState.init m0w (w3Progs { accAtomic := true })) w3Sched = none := by
  decide +kernel

/-! ### non-vacuity -/

/-- a phase with three origins whose blocks commute (disjoint puts, same-operator accumulates on one cell) -/
example : phaseCommutes [[[.put 2 0 [1, 2]], [.acc 2 3 .sum [5]]], [[.acc 2 3 .sum [7], .get 9 0 0 1]],
    [[.put 1 0 [4]]]] = true := by decide

/-- and one that does not (two puts on the same cell): determinacy's hypothesis is a real restriction -/
example : phaseCommutes [[[.put 2 0 [1]]], [[.put 2 0 [2]]]] = false := by decide

/-- the spec distinguishes orders when blocks conflict: two results, both allowed, a third one not -/
example : allowedIn 3 2 (fun _ => 2) m0w [[[.put 2 0 [1]], [.put 2 0 [2]]], [[.put 2 0 [2]], [.put 2 0 [1]]]]
    { wins := [[1000, 1001], [2000, 2001], [1, 3001]], results := [] } = true := by decide
example : allowedIn 3 2 (fun _ => 2) m0w [[[.put 2 0 [1]], [.put 2 0 [2]]], [[.put 2 0 [2]], [.put 2 0 [1]]]]
    { wins := [[1000, 1001], [2000, 2001], [3, 3001]], results := [] } = false := by decide

/-- cas_atomic's hypotheses are satisfiable and the count is exactly one -/
example : ((casResults 2 0 3000 [(1, 11), (2, 22), (3, 33)] m0w).filter (· = 3000)).length = 1 := by decide

/-- the old `Win::unlock` breaks the invariant of `mech_fixed_excl_epochs_isolated`: after rank 0's release its two puts are
    in flight towards window 2 whose lock is free -/
theorem mech_unfixed_inflight_after_release_counterexample :
    (runMech (MState.init m0w (w1Progs preFix)) (w1Sched.take 5)).map
      (fun s => (s.lockOwner 2, s.pending.map (fun m => (m.origin, m.target)))) = some (none, [(0, 2), (0, 2)]) := by
  decide +kernel

/-- non-vacuity of `mech_fixed_excl_epochs_isolated`: witness 1 as a program of epochs; on the repaired mechanism a
    complete run exists (rank 0's puts are delivered before it can release; then rank 1's epoch) and gives the
    serialisation epoch 0 ; epoch 1 -/
example : [[(⟨2, w1Epoch0⟩ : Epoch)], [⟨2, w1Epoch1⟩]].map progMicros = w1Progs fixedV := rfl
example : ∀ es ∈ [[(⟨2, w1Epoch0⟩ : Epoch)], [⟨2, w1Epoch1⟩]], ∀ e ∈ es, epochOk e := by
  intro es hes e he
  simp only [List.mem_cons, List.mem_nil_iff, or_false] at hes
  rcases hes with rfl | rfl
  · simp only [List.mem_singleton] at he
    subst he
    intro c hc
    simp only [w1Epoch0, List.mem_cons, List.mem_nil_iff, or_false] at hc
    rcases hc with rfl | rfl <;> rfl
  · simp only [List.mem_singleton] at he
    subst he
    intro c hc
    simp only [w1Epoch1, List.mem_cons, List.mem_nil_iff, or_false] at hc
    rcases hc with rfl | rfl <;> rfl
example : (runMech (MState.init m0w (w1Progs fixedV))
    [.call 0, .call 0, .call 0, .call 0, .deliver 0, .deliver 0, .call 0, .call 0, .call 1, .call 1, .call 1, .call 1,
     .deliver 1, .deliver 0, .call 1, .call 1]).map
      (fun s => (s.finished 3, s.mem (.win 2 0), s.mem (.win 2 1), s.mem (.res 3 0), s.mem (.res 4 0))) =
    some (true, 7, 5, 7, 5) := by decide +kernel

end SgVerif.C34
