import SgVerif.C34.Model
/-
C34 helper lemmas: operator algebra, frame/locality of calls, commutation, merges.
-/
namespace SgVerif.C34

/-! ### operators -/

theorem bv_toInt (x : BitVec 32) : bv x.toInt = x := by
  unfold bv; exact BitVec.ofInt_toInt

theorem app_left_comm (op : ROp) (h : op.comm = true) (a b x : Int) :
    op.app a (op.app b x) = op.app b (op.app a x) := by
  cases op <;> simp only [ROp.app, bv_toInt] <;> try (simp [ROp.comm] at h)
  · congr 1; ac_rfl
  · congr 1; ac_rfl
  · (repeat' split) <;> omega
  · (repeat' split) <;> omega
  · congr 1; ac_rfl
  · congr 1; ac_rfl
  · congr 1; ac_rfl

/-! ### membership in footprints -/

theorem mem_rangeMap {f : Nat → Loc} {n : Nat} {loc : Loc} :
    loc ∈ (List.range n).map f ↔ ∃ k, k < n ∧ f k = loc := by
  simp [List.mem_map, List.mem_range]

theorem disjointL_spec {a b : List Loc} (h : disjointL a b = true) {x : Loc} (ha : x ∈ a) : x ∉ b := by
  unfold disjointL at h
  rw [List.all_eq_true] at h
  have := h x ha
  simpa using this

/-! ### frame: a call changes only what it writes -/

theorem exec_frame (c : Call) (m : Mem) (loc : Loc) (h : loc ∉ c.writes) : c.exec m loc = m loc := by
  cases c with
  | put t d vals =>
    cases loc with
    | res j k => rfl
    | win r i =>
      simp only [Call.exec]
      split
      · rename_i hh
        split
        · rename_i v hv
          exfalso; apply h
          simp only [Call.writes, mem_rangeMap]
          have hlt : i - d < vals.length := by
            rcases List.getElem?_eq_some_iff.mp hv with ⟨hl, _⟩; exact hl
          exact ⟨i - d, hlt, by rw [hh.1]; congr 1; omega⟩
        · rfl
      · rfl
  | get id t d n =>
    cases loc with
    | win r i => rfl
    | res j k =>
      simp only [Call.exec]
      split
      · rename_i hh
        exfalso; apply h
        simp only [Call.writes, mem_rangeMap]
        exact ⟨k, hh.2, by rw [hh.1]⟩
      · rfl
  | acc t d op vals =>
    cases loc with
    | res j k => rfl
    | win r i =>
      simp only [Call.exec]
      split
      · rename_i hh
        split
        · rename_i v hv
          exfalso; apply h
          simp only [Call.writes, mem_rangeMap]
          have hlt : i - d < vals.length := by
            rcases List.getElem?_eq_some_iff.mp hv with ⟨hl, _⟩; exact hl
          exact ⟨i - d, hlt, by rw [hh.1]; congr 1; omega⟩
        · rfl
      · rfl
  | gacc id t d op vals =>
    cases loc with
    | res j k =>
      simp only [Call.exec]
      split
      · rename_i hh
        exfalso; apply h
        simp only [Call.writes, List.mem_append, mem_rangeMap]
        exact Or.inr ⟨k, hh.2, by rw [hh.1]⟩
      · rfl
    | win r i =>
      simp only [Call.exec]
      split
      · rename_i hh
        split
        · rename_i v hv
          exfalso; apply h
          simp only [Call.writes, List.mem_append, mem_rangeMap]
          have hlt : i - d < vals.length := by
            rcases List.getElem?_eq_some_iff.mp hv with ⟨hl, _⟩; exact hl
          exact Or.inl ⟨i - d, hlt, by rw [hh.1]; congr 1; omega⟩
        · rfl
      · rfl
  | cas id t d cmp new =>
    cases loc with
    | res j k =>
      simp only [Call.exec]
      split
      · rename_i hh
        exfalso; apply h
        simp [Call.writes, hh.1, hh.2]
      · rfl
    | win r i =>
      simp only [Call.exec]
      split
      · rename_i hh
        exfalso; apply h
        simp [Call.writes, hh.1, hh.2]
      · rfl

/-! ### locality: what a call writes depends only on what it reads -/

theorem exec_local (c : Call) (m1 m2 : Mem) (h : ∀ loc ∈ c.reads, m1 loc = m2 loc) (loc : Loc)
    (hw : loc ∈ c.writes) : c.exec m1 loc = c.exec m2 loc := by
  cases c with
  | put t d vals =>
    cases loc with
    | res j k => simp [Call.writes] at hw
    | win r i =>
      simp only [Call.exec]
      split
      · split
        · rfl
        · rename_i hh _ hv
          exfalso
          simp only [Call.writes, mem_rangeMap] at hw
          rcases hw with ⟨k, hk, he⟩
          injection he with h1 h2
          have : i - d = k := by omega
          rw [this] at hv
          have := List.getElem?_eq_none_iff.mp hv
          omega
      · rename_i hh
        exfalso; apply hh
        simp only [Call.writes, mem_rangeMap] at hw
        rcases hw with ⟨k, hk, he⟩
        injection he with h1 h2
        exact ⟨h1.symm, by omega⟩
  | get id t d n =>
    cases loc with
    | win r i => simp [Call.writes] at hw
    | res j k =>
      simp only [Call.exec]
      split
      · rename_i hh
        apply h
        simp only [Call.reads, mem_rangeMap]
        exact ⟨k, hh.2, rfl⟩
      · rename_i hh
        exfalso; apply hh
        simp only [Call.writes, mem_rangeMap] at hw
        rcases hw with ⟨k', hk, he⟩
        injection he with h1 h2
        exact ⟨h1.symm, by omega⟩
  | acc t d op vals =>
    cases loc with
    | res j k => simp [Call.writes] at hw
    | win r i =>
      have hr : m1 (.win r i) = m2 (.win r i) := by
        apply h
        simpa [Call.reads, Call.writes] using hw
      simp only [Call.exec, hr]
  | gacc id t d op vals =>
    cases loc with
    | res j k =>
      simp only [Call.exec]
      split
      · rename_i hh
        apply h
        simp only [Call.reads, mem_rangeMap]
        exact ⟨k, hh.2, rfl⟩
      · rename_i hh
        exfalso; apply hh
        simp only [Call.writes, List.mem_append, mem_rangeMap] at hw
        rcases hw with ⟨k', hk, he⟩ | ⟨k', hk, he⟩
        · cases he
        · injection he with h1 h2
          exact ⟨h1.symm, by omega⟩
    | win r i =>
      have hr : m1 (.win r i) = m2 (.win r i) := by
        apply h
        simp only [Call.writes, List.mem_append, mem_rangeMap] at hw
        rcases hw with ⟨k', hk, he⟩ | ⟨k', hk, he⟩
        · simp only [Call.reads, mem_rangeMap]; exact ⟨k', hk, he⟩
        · cases he
      simp only [Call.exec, hr]
  | cas id t d cmp new =>
    have hr : m1 (.win t d) = m2 (.win t d) := by
      apply h; simp [Call.reads]
    cases loc with
    | res j k =>
      simp only [Call.exec, hr]
      split
      · rfl
      · rename_i hh
        exfalso; apply hh
        simpa [Call.writes] using hw
    | win r i =>
      simp only [Call.exec, hr]
      split
      · rfl
      · rename_i hh
        exfalso; apply hh
        simpa [Call.writes] using hw

/-! ### commutation -/

/-- two memory transformers commute -/
def Commutes (f g : Mem → Mem) : Prop := ∀ m, f (g m) = g (f m)

theorem commutes_disjoint (a b : Call) (h1 : disjointL a.writes b.touch = true)
    (h2 : disjointL b.writes a.touch = true) : Commutes a.exec b.exec := by
  intro m
  funext loc
  by_cases ha : loc ∈ a.writes
  · have hnb : loc ∉ b.touch := disjointL_spec h1 ha
    have hnbw : loc ∉ b.writes := fun hh => hnb (by simp [Call.touch, hh])
    rw [exec_frame b (a.exec m) loc hnbw]
    apply exec_local a _ _ _ loc ha
    intro l hl
    apply exec_frame
    intro hbw
    exact disjointL_spec h2 hbw (by simp [Call.touch, hl])
  · by_cases hb : loc ∈ b.writes
    · rw [exec_frame a (b.exec m) loc ha]
      symm
      apply exec_local b _ _ _ loc hb
      intro l hl
      apply exec_frame
      intro haw
      exact disjointL_spec h1 haw (by simp [Call.touch, hl])
    · rw [exec_frame a _ loc ha, exec_frame b _ loc hb, exec_frame b _ loc hb, exec_frame a _ loc ha]

theorem ite_comm_lemma (P Q : Prop) [Decidable P] [Decidable Q] (f g : Int → Int)
    (hfg : ∀ x, f (g x) = g (f x)) (x : Int) :
    (if P then f (if Q then g x else x) else (if Q then g x else x)) =
    (if Q then g (if P then f x else x) else (if P then f x else x)) := by
  by_cases hp : P <;> by_cases hq : Q <;> simp [hp, hq, hfg]

theorem commutes_acc (t d t' d' : Nat) (op : ROp) (vals vals' : List Int) (h : op.comm = true) :
    Commutes (Call.acc t d op vals).exec (Call.acc t' d' op vals').exec := by
  intro m
  funext loc
  cases loc with
  | res j k => rfl
  | win r i =>
    simp only [Call.exec]
    generalize vals[i - d]? = o1
    generalize vals'[i - d']? = o2
    exact ite_comm_lemma (r = t ∧ d ≤ i) (r = t' ∧ d' ≤ i)
      (fun x => match o1 with | some v => op.app v x | none => x)
      (fun x => match o2 with | some v => op.app v x | none => x)
      (by
        intro x
        cases o1 <;> cases o2 <;> simp only []
        exact app_left_comm op h _ _ _)
      (m (.win r i))

theorem commuteC_sound (w : WSizes) (a b : Call) (h : commuteC a b = true) :
    Commutes (a.execW w) (b.execW w) := by
  intro m
  unfold Call.execW
  by_cases ea : a.rangeErr (w a.target) = true
  · simp [ea]
  · by_cases eb : b.rangeErr (w b.target) = true
    · simp [eb]
    · simp only [ea, eb]
      unfold commuteC at h
      rw [Bool.or_eq_true] at h
      rcases h with h | h
      · rw [Bool.and_eq_true] at h
        exact commutes_disjoint a b h.1 h.2 m
      · cases a <;> cases b <;> try (simp [Call.commAcc] at h; done)
        simp only [Call.commAcc] at h
        rename_i t d op vals t' d' op' vals'
        by_cases h1 : op.comm = true
        · by_cases h2 : op'.comm = true
          · simp only [h1, h2, if_true] at h
            have : op = op' := by simpa using h
            subst this
            exact commutes_acc t d t' d' op vals vals' h1 m
          · simp [h1, h2] at h
        · simp [h1] at h

theorem commutes_block_right (f : Mem → Mem) (w : WSizes) (b : Block)
    (h : ∀ c ∈ b, Commutes f (c.execW w)) : Commutes f (Block.exec w b) := by
  induction b with
  | nil => intro m; rfl
  | cons c cs ih =>
    intro m
    have hc := h c (by simp)
    have ih' := ih (fun c' hc' => h c' (by simp [hc']))
    simp only [Block.exec, List.foldl_cons] at *
    rw [← hc m]
    exact ih' (c.execW w m)

theorem blocksCommute_sound (w : WSizes) (a b : Block) (h : blocksCommute a b = true) :
    Commutes (Block.exec w a) (Block.exec w b) := by
  unfold blocksCommute at h
  rw [List.all_eq_true] at h
  intro m
  symm
  apply commutes_block_right (Block.exec w b) w a _ m
  intro c hc m'
  symm
  apply commutes_block_right (c.execW w) w b _ m'
  intro c' hc'
  have := h c hc
  rw [List.all_eq_true] at this
  exact commuteC_sound w c c' (this c' hc')

theorem commutes_run_right (f : Mem → Mem) (w : WSizes) (bs : List Block)
    (h : ∀ b ∈ bs, Commutes f (Block.exec w b)) : Commutes f (runBlocks w bs) := by
  induction bs with
  | nil => intro m; rfl
  | cons b bs ih =>
    intro m
    have hb := h b (by simp)
    have ih' := ih (fun b' hb' => h b' (by simp [hb']))
    simp only [runBlocks, List.foldl_cons] at *
    rw [← hb m]
    exact ih' (Block.exec w b m)

theorem runBlocks_append (w : WSizes) (xs ys : List Block) (m : Mem) :
    runBlocks w (xs ++ ys) m = runBlocks w ys (runBlocks w xs m) := by
  simp [runBlocks, List.foldl_append]

/-! ### merges -/

theorem mem_merge2 {α : Type} (xs ys l : List α) (h : l ∈ merge2 xs ys) (z : α) : z ∈ l ↔ z ∈ xs ∨ z ∈ ys := by
  fun_induction merge2 xs ys generalizing l with
  | case1 ys => simp at h; subst h; simp
  | case2 x xs => simp at h; subst h; simp
  | case3 x xs y ys ih1 ih2 =>
    simp only [List.mem_append, List.mem_map] at h
    rcases h with ⟨l', hl', rfl⟩ | ⟨l', hl', rfl⟩
    · have := ih1 l' hl'
      simp only [List.mem_cons] at *
      rw [this]; grind
    · have := ih2 l' hl'
      simp only [List.mem_cons] at *
      rw [this]; grind

theorem mem_merges {α : Type} (ls : List (List α)) (l : List α) (h : l ∈ merges ls) (z : α) :
    z ∈ l ↔ z ∈ ls.flatten := by
  induction ls generalizing l with
  | nil => simp [merges] at h; subst h; simp
  | cons o os ih =>
    simp only [merges, List.mem_flatMap] at h
    rcases h with ⟨l', hl', hl⟩
    rw [mem_merge2 o l' l hl z, ih l' hl']
    simp

/-- a merge of two sequences whose elements commute pairwise across the sequences runs like the concatenation -/
theorem run_merge2 (w : WSizes) (xs ys l : List Block) (h : l ∈ merge2 xs ys)
    (hc : ∀ x ∈ xs, ∀ y ∈ ys, Commutes (Block.exec w x) (Block.exec w y)) (m : Mem) :
    runBlocks w l m = runBlocks w (xs ++ ys) m := by
  fun_induction merge2 xs ys generalizing l m with
  | case1 ys => simp at h; subst h; simp
  | case2 x xs => simp at h; subst h; simp
  | case3 x xs y ys ih1 ih2 =>
    simp only [List.mem_append, List.mem_map] at h
    rcases h with ⟨l', hl', rfl⟩ | ⟨l', hl', rfl⟩
    · have := ih1 l' hl' (fun a ha b hb => hc a (by simp [ha]) b hb) (Block.exec w x m)
      simp only [runBlocks, List.foldl_cons, List.cons_append] at *
      exact this
    · have := ih2 l' hl' (fun a ha b hb => hc a ha b (by simp [hb])) (Block.exec w y m)
      have e1 : runBlocks w (y :: l') m = runBlocks w l' (Block.exec w y m) := by simp [runBlocks]
      rw [e1, this, runBlocks_append, runBlocks_append]
      have e2 : runBlocks w (y :: ys) (runBlocks w (x :: xs) m) =
          runBlocks w ys (Block.exec w y (runBlocks w (x :: xs) m)) := by simp [runBlocks]
      rw [e2]
      congr 1
      have := commutes_run_right (Block.exec w y) w (x :: xs)
        (fun b hb m' => (hc b hb y (by simp) m').symm) m
      exact this.symm

end SgVerif.C34
