import SgVerif.C34.Model
import SgVerif.Common.Proto
open SgVerif.Proto
/-
C34 driver.  One line per *phase* of a generated RMA program:

  ph <kind> <n> <w> <du> M <n*w ints: windows before the phase> (B <origin> | <call>)*  =>  W <n*w ints> (R <id> <k> <k ints>)* (E <id>)*

<w>: the window size in ints: one number (all ranks the same) or `w_0,..,w_{n-1}` (every rank exposes a window of its own
size; then the M and W sections have n * max_r w_r ints, each window padded with 0); the range check of a call uses the
size of the call's *target* (`Call.execW`).
<du>: the displacement unit every rank gave to MPI_Win_create: one number (all ranks the same) or `du_0,du_1,..,du_{n-1}`
(one per rank); the displacement of a call is converted with the unit of the call's *target* (`dispIndexAt`).

kind: X exclusive-lock epochs (a `B` starts an epoch = atomic block), S lock_all, F fence (every call is its own block;
`B <origin>` just switches the origin), N calls outside any epoch (every call must fail with an error, no effect).
calls:  put id t disp cnt v*  |  get id t disp cnt  |  acc id t disp cnt op v*  |  gacc id t disp cnt op v*
        |  cas id t disp cmp new
Verdict: `ok` iff the reported errors are the ones the model predicts and the observation (windows after the phase,
result buffers) is one of the results the specification allows (`allowed`); when the blocks commute
(`phaseCommutes`) that set is the single result of the canonical order (theorem rma_spec_determinate_obs).
-/
namespace SgVerif.C34

def parseOp : String → Option ROp
  | "sum" => some .sum | "prod" => some .prod | "max" => some .max | "min" => some .min
  | "band" => some .band | "bor" => some .bor | "bxor" => some .bxor | "replace" => some .replace
  | "noop" => some .noop | _ => none

def takeInts (n : Nat) (ts : List String) : Option (List Int × List String) :=
  if ts.length < n then none
  else
    let l := (ts.take n).map String.toInt?
    if l.all Option.isSome then some (l.filterMap id, ts.drop n) else none

structure PState where
  kind : String
  n : Nat
  w : Nat
  dus : List Nat                          -- displacement unit of every rank's window
  cur : Nat := 0                          -- current origin
  blocks : List (Nat × List (Nat × Call)) := []    -- reversed: (origin, calls reversed with ids)

def PState.addCall (p : PState) (id : Nat) (c : Call) : PState :=
  if p.kind == "X" then
    match p.blocks with
    | (o, cs) :: rest => { p with blocks := (o, (id, c) :: cs) :: rest }
    | [] => { p with blocks := [(p.cur, [(id, c)])] }
  else { p with blocks := (p.cur, [(id, c)]) :: p.blocks }

partial def parseCalls (p : PState) : List String → Option PState
  | [] => some p
  | "B" :: o :: rest => do
    let o ← o.toNat?
    let p := { p with cur := o }
    parseCalls (if p.kind == "X" then { p with blocks := (o, []) :: p.blocks } else p) rest
  | "put" :: id :: t :: d :: n :: rest => do
    let (id, t, d, n) := (← id.toNat?, ← t.toNat?, ← d.toNat?, ← n.toNat?)
    let (vals, rest) ← takeInts n rest
    parseCalls (p.addCall id (.put t (← dispIndexAt p.dus t d) vals)) rest
  | "get" :: id :: t :: d :: n :: rest => do
    let (id, t, d, n) := (← id.toNat?, ← t.toNat?, ← d.toNat?, ← n.toNat?)
    parseCalls (p.addCall id (.get id t (← dispIndexAt p.dus t d) n)) rest
  | "acc" :: id :: t :: d :: n :: op :: rest => do
    let (id, t, d, n) := (← id.toNat?, ← t.toNat?, ← d.toNat?, ← n.toNat?)
    let (vals, rest) ← takeInts n rest
    parseCalls (p.addCall id (.acc t (← dispIndexAt p.dus t d) (← parseOp op) vals)) rest
  | "gacc" :: id :: t :: d :: n :: op :: rest => do
    let (id, t, d, n) := (← id.toNat?, ← t.toNat?, ← d.toNat?, ← n.toNat?)
    let (vals, rest) ← takeInts n rest
    parseCalls (p.addCall id (.gacc id t (← dispIndexAt p.dus t d) (← parseOp op) vals)) rest
  | "cas" :: id :: t :: d :: cmp :: new :: rest => do
    let (id, t, d) := (← id.toNat?, ← t.toNat?, ← d.toNat?)
    parseCalls (p.addCall id (.cas id t (← dispIndexAt p.dus t d) (← cmp.toInt?) (← new.toInt?))) rest
  | _ => none

/-- `4` (uniform) or `4,1,8` (per rank; must have n entries) -/
def parseDus (n : Nat) (tok : String) : Option (List Nat) :=
  let l := (tok.splitOn ",").map String.toNat?
  if !l.all Option.isSome then none
  else
    match l.filterMap id with
    | [du] => some (List.replicate n du)
    | dus => if dus.length == n then some dus else none

def chunk (w : Nat) : Nat → List Int → List (List Int)
  | 0, _ => []
  | n + 1, l => l.take w :: chunk w n (l.drop w)

structure Ans where
  wins : List Int := []
  results : List (Nat × List Int) := []
  errs : List Nat := []

partial def parseAns (a : Ans) : List String → Option Ans
  | [] => some a
  | "R" :: id :: k :: rest => do
    let (vals, rest) ← takeInts (← k.toNat?) rest
    parseAns { a with results := a.results ++ [(← id.toNat?, vals)] } rest
  | "E" :: id :: rest => do parseAns { a with errs := a.errs ++ [← id.toNat?] } rest
  | _ => none

def sortNat (l : List Nat) : List Nat := (l.toArray.qsort (· < ·)).toList

def judge (q a : List String) : Verdict :=
  match q with
  | "ph" :: kind :: n :: w :: du :: "M" :: rest =>
    match n.toNat?, (n.toNat?).bind (fun n => parseDus n w), (n.toNat?).bind (fun n => parseDus n du) with
    | some n, some wl, some dus =>
      let w := wl.foldl max 0                               -- width of the M / W sections
      let ws : WSizes := fun r => wl.getD r 0               -- size of every rank's window
      match takeInts (n * w) rest with
      | none => .bad
      | some (m0l, rest) =>
        match parseCalls { kind := kind, n := n, w := w, dus := dus } rest, a with
        | some p, "W" :: arest =>
          match takeInts (n * w) arest with
          | none => .bad
          | some (winsAfter, arest) =>
            match parseAns {} arest with
            | none => .bad
            | some ans =>
              let blocks := p.blocks.reverse.map (fun (o, cs) => (o, cs.reverse))
              let allCalls := blocks.flatMap (fun (_, cs) => cs)
              let m0 := memOfWins (chunk w n m0l)
              let errModel := sortNat ((allCalls.filter (fun (_, c) => kind == "N" || c.rangeErr (ws c.target))).map (·.1))
              let errImpl := sortNat ans.errs
              if errModel != errImpl then .disagree s!"errors={errModel}"
              else
                let results := ans.results.filter (fun (id, _) => !errImpl.contains id)
                let obs : Obs := { wins := chunk w n winsAfter, results := results }
                if kind == "N" then
                  if obs.wins == chunk w n m0l then .ok
                  else .monfail "a call outside any epoch returned an error but changed a window"
                else
                  let ph : Phase := (List.range n).map (fun o =>
                    (blocks.filter (fun (o', _) => o' == o)).map (fun (_, cs) => cs.map (·.2)))
                  if phaseCommutes ph then
                    let mc := canonical ws m0 ph
                    if matchesObs n w mc obs then .ok
                    else .monfail s!"unique-result expected W {winsOfMem n w mc} R {results.map (fun (id, vals) => (id, (List.range vals.length).map (fun k => mc (.res id k))))}"
                  else if allowed n w ws m0 ph obs then .ok
                  else .monfail s!"no serialisation of the {blocks.length} blocks gives this observation ({(merges ph).length} orders tried)"
        | _, _ => .bad
    | _, _, _ => .bad
  | _ => .bad

end SgVerif.C34

def main : IO Unit := SgVerif.Proto.run SgVerif.C34.judge
