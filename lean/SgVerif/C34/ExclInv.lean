import SgVerif.C34.Model
/-
C34 — the repaired mechanism (all three switches on), programs made of exclusive-lock epochs: an inductive invariant
over ALL schedules.  "Every RMA message in flight belongs to the rank that currently holds the exclusive lock of its
target window" — so when a lock is released (and when the next origin acquires it) none of the previous epoch's data is
in flight: epochs on one window are atomic, including their in-flight data.
-/
set_option linter.unusedSimpArgs false
set_option linter.unusedVariables false
namespace SgVerif.C34

/-- the code after the three repairs (449d71abd2, 89a6e6f865, a2a9f2f5cf) -/
def fixedV : Variant := ⟨true, true, true⟩

-- `Call.target` (the rank whose window a call accesses) is defined in Model.lean

/-- one exclusive-lock epoch of a rank: MPI_Win_lock(EXCLUSIVE, t); the calls; MPI_Win_unlock(t) -/
structure Epoch where
  t : Nat
  calls : List Call

def epochBody (e : Epoch) : List Micro := e.calls.flatMap (fun c => compile fixedV (.rma c))

def epochMicros (e : Epoch) : List Micro :=
  [.acquire e.t true, .flushWait e.t] ++ (epochBody e ++ [.flushWait e.t, .release e.t])

def progMicros (es : List Epoch) : List Micro := es.flatMap epochMicros

theorem epochMicros_eq (e : Epoch) :
    epochMicros e = compile fixedV (.lock e.t) ++ epochBody e ++ compile fixedV (.unlock e.t) := by
  simp [epochMicros, compile, unlockMicros, fixedV]

/-- the calls of an epoch address the locked window (others are refused with MPI_ERR_WIN by CHECK_WIN_LOCKED) -/
def epochOk (e : Epoch) : Prop := ∀ c ∈ e.calls, c.target = e.t

/-- micro-actions of an RMA call towards `t`: no lock / unlock, every message goes to `t` -/
def bodyMicro (t : Nat) : Micro → Prop
  | .acquire _ _ => False
  | .release _ => False
  | .flushWait t' => t' = t
  | .issuePut t' _ _ => t' = t
  | .issueGet _ t' _ _ => t' = t
  | .issueAcc t' _ _ _ => t' = t
  | .casPut _ t' _ _ _ => t' = t
  | .waitRes _ => True
  | .atomAcquire _ => True
  | .atomRelease _ => True

theorem compile_body (c : Call) : ∀ m ∈ compile fixedV (.rma c), bodyMicro c.target m := by
  cases c with
  | put t d vals => intro m hm; simp [compile] at hm; subst hm; simp [bodyMicro, Call.target]
  | get id t d n => intro m hm; simp [compile] at hm; subst hm; simp [bodyMicro, Call.target]
  | acc t d op vals =>
    intro m hm
    simp [compile, accMicros, fixedV] at hm
    rcases hm with rfl | rfl | rfl | rfl <;> simp [bodyMicro, Call.target]
  | gacc id t d op vals =>
    intro m hm
    simp only [compile] at hm
    by_cases hop : op = .noop
    · simp [hop] at hm
      rcases hm with rfl | rfl | rfl | rfl <;> simp [bodyMicro, Call.target]
    · simp [hop] at hm
      rcases hm with rfl | rfl | rfl | rfl | rfl | rfl <;> simp [bodyMicro, Call.target]
  | cas id t d cmp new =>
    intro m hm
    simp [compile, fixedV] at hm
    rcases hm with rfl | rfl | rfl | rfl | rfl | rfl <;> simp [bodyMicro, Call.target]

theorem epochBody_body (e : Epoch) (h : epochOk e) : ∀ m ∈ epochBody e, bodyMicro e.t m := by
  intro m hm
  simp only [epochBody, List.mem_flatMap] at hm
  obtain ⟨c, hc, hmc⟩ := hm
  have := compile_body c m hmc
  rwa [h c hc] at this

/-- what a body micro-action of rank `r` towards `t` can change -/
theorem body_step (s s' : MState) (r t : Nat) (a : Micro) (rest : List Micro) (hb : bodyMicro t a)
    (h : microStep s r a rest = some s') :
    s'.lockOwner = s.lockOwner ∧ s'.mode = s.mode ∧ s'.pc = upd s.pc r rest ∧
    (s'.pending = s.pending ∨ ∃ pl, s'.pending = s.pending ++ [⟨r, t, pl⟩]) ∧
    (a = .flushWait t → s.pending.any (between r t) = false) := by
  cases a with
  | acquire _ _ => exact absurd hb (by simp [bodyMicro])
  | release _ => exact absurd hb (by simp [bodyMicro])
  | flushWait t' =>
    simp only [bodyMicro] at hb; subst hb
    simp only [microStep] at h
    split at h
    · cases h
    · rename_i hp
      injection h with h; subst h
      exact ⟨rfl, rfl, rfl, Or.inl rfl, fun _ => by simpa using hp⟩
  | issuePut t' d vals =>
    simp only [bodyMicro] at hb; subst hb
    simp only [microStep] at h
    split at h
    · injection h with h; subst h; exact ⟨rfl, rfl, rfl, Or.inl rfl, fun x => by cases x⟩
    · split at h
      · injection h with h; subst h; exact ⟨rfl, rfl, rfl, Or.inl rfl, fun x => by cases x⟩
      · injection h with h; subst h; exact ⟨rfl, rfl, rfl, Or.inr ⟨_, rfl⟩, fun x => by cases x⟩
  | issueGet id t' d n =>
    simp only [bodyMicro] at hb; subst hb
    simp only [microStep] at h
    split at h
    · injection h with h; subst h; exact ⟨rfl, rfl, rfl, Or.inl rfl, fun x => by cases x⟩
    · split at h
      · injection h with h; subst h; exact ⟨rfl, rfl, rfl, Or.inl rfl, fun x => by cases x⟩
      · injection h with h; subst h; exact ⟨rfl, rfl, rfl, Or.inr ⟨_, rfl⟩, fun x => by cases x⟩
  | issueAcc t' d op vals =>
    simp only [bodyMicro] at hb; subst hb
    simp only [microStep] at h
    split at h
    · injection h with h; subst h; exact ⟨rfl, rfl, rfl, Or.inl rfl, fun x => by cases x⟩
    · injection h with h; subst h; exact ⟨rfl, rfl, rfl, Or.inr ⟨_, rfl⟩, fun x => by cases x⟩
  | waitRes id =>
    simp only [microStep] at h
    split at h
    · cases h
    · injection h with h; subst h; exact ⟨rfl, rfl, rfl, Or.inl rfl, fun x => by cases x⟩
  | atomAcquire t' =>
    simp only [microStep] at h
    split at h
    · cases h
    · injection h with h; subst h; exact ⟨rfl, rfl, rfl, Or.inl rfl, fun x => by cases x⟩
  | atomRelease t' =>
    simp only [microStep] at h
    injection h with h; subst h; exact ⟨rfl, rfl, rfl, Or.inl rfl, fun x => by cases x⟩
  | casPut id t' d cmp new =>
    simp only [bodyMicro] at hb; subst hb
    simp only [microStep] at h
    split at h
    · split at h
      · injection h with h; subst h; exact ⟨rfl, rfl, rfl, Or.inl rfl, fun x => by cases x⟩
      · injection h with h; subst h; exact ⟨rfl, rfl, rfl, Or.inr ⟨_, rfl⟩, fun x => by cases x⟩
    · injection h with h; subst h; exact ⟨rfl, rfl, rfl, Or.inl rfl, fun x => by cases x⟩

/-! ### the invariant -/

/-- where rank `r` is in its program -/
inductive RankSt (s : MState) (r : Nat) : Prop where
  /-- between epochs -/
  | out (es : List Epoch) (hpc : s.pc r = progMicros es) (hok : ∀ e ∈ es, epochOk e)
  /-- inside an epoch on `t`: it owns the lock; `ms` = what is left of the lock's flush and of the calls -/
  | inside (t : Nat) (ms : List Micro) (es : List Epoch)
      (hpc : s.pc r = ms ++ ([.flushWait t, .release t] ++ progMicros es))
      (hms : ∀ m ∈ ms, bodyMicro t m) (hown : s.lockOwner t = some r) (hok : ∀ e ∈ es, epochOk e)
  /-- the unlock has flushed: nothing of `r` towards `t` is in flight; next micro-action: release the lock -/
  | rel (t : Nat) (es : List Epoch) (hpc : s.pc r = .release t :: progMicros es) (hown : s.lockOwner t = some r)
      (hnone : ∀ msg ∈ s.pending, ¬ (msg.origin = r ∧ msg.target = t)) (hok : ∀ e ∈ es, epochOk e)

structure GInv (s : MState) : Prop where
  ranks : ∀ r, RankSt s r
  /-- every message in flight belongs to the holder of the exclusive lock of its target window -/
  owner : ∀ msg ∈ s.pending, s.lockOwner msg.target = some msg.origin
  mode : ∀ t, s.mode t = if (s.lockOwner t).isSome then 1 else 0

theorem upd_same {β : Type} (f : Nat → β) (k : Nat) (v : β) : upd f k v k = v := by simp [upd]
theorem upd_other {β : Type} (f : Nat → β) (k k' : Nat) (v : β) (h : k' ≠ k) : upd f k v k' = f k' := by simp [upd, h]

/-- a rank other than the one that moved keeps its place, as long as its lock and its in-flight condition are kept -/
theorem rankSt_transfer (s s' : MState) (r' : Nat) (h : RankSt s r') (hpc : s'.pc r' = s.pc r')
    (hown : ∀ t, s.lockOwner t = some r' → s'.lockOwner t = some r')
    (hpend : ∀ msg ∈ s'.pending, msg.origin = r' → msg ∈ s.pending) : RankSt s' r' := by
  cases h with
  | out es h1 h2 => exact .out es (by rw [hpc]; exact h1) h2
  | inside t ms es h1 h2 h3 h4 => exact .inside t ms es (by rw [hpc]; exact h1) h2 (hown t h3) h4
  | rel t es h1 h2 h3 h4 =>
    refine .rel t es (by rw [hpc]; exact h1) (hown t h2) ?_ h4
    intro msg hm hc
    exact h3 msg (hpend msg hm hc.1) hc

theorem ginv_deliver (s : MState) (k : Nat) (msg : Msg) (h : GInv s) (hk : s.pending[k]? = some msg) :
    GInv { s with pending := s.pending.eraseIdx k, mem := msg.pl.apply s.mem } := by
  have hsub : ∀ m ∈ s.pending.eraseIdx k, m ∈ s.pending := fun m hm => List.mem_of_mem_eraseIdx hm
  refine ⟨?_, ?_, h.mode⟩
  · intro r
    exact rankSt_transfer s _ r (h.ranks r) rfl (fun t ht => ht) (fun m hm _ => hsub m hm)
  · intro m hm
    exact h.owner m (hsub m hm)

/-- a micro-action of rank `r` -/
theorem ginv_call (s s' : MState) (r : Nat) (a : Micro) (rest : List Micro) (h : GInv s) (hpc : s.pc r = a :: rest)
    (hs : microStep s r a rest = some s') : GInv s' := by
  cases hr : h.ranks r with
  | out es h1 h2 =>
    -- acquire the lock of the next epoch
    cases es with
    | nil => rw [h1] at hpc; simp [progMicros] at hpc
    | cons e es' =>
      rw [h1] at hpc
      simp only [progMicros, List.flatMap_cons, epochMicros, List.cons_append, List.nil_append, List.cons.injEq] at hpc
      obtain ⟨ha, hrest⟩ := hpc
      subst ha
      have hm := h.mode e.t
      simp only [microStep] at hs
      cases ho : s.lockOwner e.t with
      | some o =>
        rw [ho] at hm
        simp only [Option.isSome_some, if_true] at hm
        simp [hm, ho] at hs
      | none =>
        rw [ho] at hm
        simp only [Option.isSome_none, Bool.false_eq_true, if_false] at hm
        simp [hm, ho] at hs
        subst hs
        have hnomsg : ∀ msg ∈ s.pending, msg.target ≠ e.t := by
          intro msg hmsg heq
          have := h.owner msg hmsg
          rw [heq, ho] at this; cases this
        refine ⟨?_, ?_, ?_⟩
        · intro r'
          by_cases hrr : r' = r
          · subst hrr
            refine .inside e.t (.flushWait e.t :: epochBody e) es' ?_ ?_ (by simp [upd]) (fun x hx => h2 x (by simp [hx]))
            · simp only [upd_same]
              rw [← hrest]
              simp [progMicros]
            · intro m hm'
              simp only [List.mem_cons] at hm'
              rcases hm' with rfl | hm'
              · simp [bodyMicro]
              · exact epochBody_body e (h2 e (by simp)) m hm'
          · refine rankSt_transfer s _ r' (h.ranks r') (by simp [upd, hrr]) ?_ (fun m hm' _ => hm')
            intro t ht
            by_cases hte : t = e.t
            · subst hte; rw [ho] at ht; cases ht
            · simp [upd, hte, ht]
        · intro msg hmsg
          have := hnomsg msg hmsg
          simp [upd, this, h.owner msg hmsg]
        · intro t
          by_cases hte : t = e.t
          · subst hte; simp [upd]
          · simp [upd, hte, h.mode t]
  | inside t ms es h1 h2 h3 h4 =>
    cases ms with
    | nil =>
      -- the flush of the unlock
      rw [h1] at hpc
      simp only [List.nil_append, List.cons_append, List.cons.injEq] at hpc
      obtain ⟨ha, hrest⟩ := hpc
      subst ha
      obtain ⟨b1, b2, b3, b4, b5⟩ := body_step s s' r t _ rest (by simp [bodyMicro]) hs
      have hnone := b5 rfl
      have hpend : s'.pending = s.pending := by
        rcases b4 with b4 | ⟨pl, b4⟩
        · exact b4
        · -- a flushWait never adds a message
          simp only [microStep] at hs
          split at hs
          · cases hs
          · injection hs with hs; subst hs; rfl
      refine ⟨?_, ?_, ?_⟩
      · intro r'
        by_cases hrr : r' = r
        · subst hrr
          refine .rel t es ?_ (by rw [b1]; exact h3) ?_ h4
          · rw [b3, upd_same, ← hrest]
          · intro msg hmsg hc
            rw [hpend] at hmsg
            have := List.any_eq_false.mp hnone msg hmsg
            simp [between, hc.1, hc.2] at this
        · exact rankSt_transfer s s' r' (h.ranks r') (by rw [b3]; simp [upd, hrr]) (fun t' ht => by rw [b1]; exact ht)
            (fun m hm' _ => by rw [hpend] at hm'; exact hm')
      · intro msg hmsg; rw [hpend] at hmsg; rw [b1]; exact h.owner msg hmsg
      · intro t'; rw [b1, b2]; exact h.mode t'
    | cons m ms' =>
      rw [h1] at hpc
      simp only [List.cons_append, List.cons.injEq] at hpc
      obtain ⟨ha, hrest⟩ := hpc
      subst ha
      obtain ⟨b1, b2, b3, b4, _⟩ := body_step s s' r t _ rest (h2 _ (by simp)) hs
      refine ⟨?_, ?_, ?_⟩
      · intro r'
        by_cases hrr : r' = r
        · subst hrr
          exact .inside t ms' es (by rw [b3, upd_same, ← hrest]; simp) (fun x hx => h2 x (by simp [hx])) (by rw [b1]; exact h3) h4
        · refine rankSt_transfer s s' r' (h.ranks r') (by rw [b3]; simp [upd, hrr]) (fun t' ht => by rw [b1]; exact ht) ?_
          intro msg hmsg horig
          rcases b4 with b4 | ⟨pl, b4⟩
          · rw [b4] at hmsg; exact hmsg
          · rw [b4] at hmsg
            simp only [List.mem_append, List.mem_singleton] at hmsg
            rcases hmsg with hmsg | rfl
            · exact hmsg
            · exact absurd horig (Ne.symm hrr)
      · intro msg hmsg
        rw [b1]
        rcases b4 with b4 | ⟨pl, b4⟩
        · rw [b4] at hmsg; exact h.owner msg hmsg
        · rw [b4] at hmsg
          simp only [List.mem_append, List.mem_singleton] at hmsg
          rcases hmsg with hmsg | rfl
          · exact h.owner msg hmsg
          · exact h3
      · intro t'; rw [b1, b2]; exact h.mode t'
  | rel t es h1 h2 h3 h4 =>
    -- release the lock
    rw [h1] at hpc
    simp only [List.cons.injEq] at hpc
    obtain ⟨ha, hrest⟩ := hpc
    subst ha
    have hm := h.mode t
    rw [h2] at hm
    simp only [Option.isSome_some, if_true] at hm
    simp only [microStep, hm, if_true, Option.some.injEq] at hs
    subst hs
    have hnomsg : ∀ msg ∈ s.pending, msg.target ≠ t := by
      intro msg hmsg heq
      have ho := h.owner msg hmsg
      rw [heq, h2] at ho
      injection ho with ho
      exact h3 msg hmsg ⟨ho.symm, heq⟩
    refine ⟨?_, ?_, ?_⟩
    · intro r'
      by_cases hrr : r' = r
      · subst hrr
        exact .out es (by simp [upd, hrest]) h4
      · refine rankSt_transfer s _ r' (h.ranks r') (by simp [upd, hrr]) ?_ (fun m hm' _ => hm')
        intro t' ht
        by_cases hte : t' = t
        · subst hte; rw [h2] at ht; injection ht with ht; exact absurd ht.symm hrr
        · simp [upd, hte, ht]
    · intro msg hmsg
      have := hnomsg msg hmsg
      simp [upd, this, h.owner msg hmsg]
    · intro t'
      by_cases hte : t' = t
      · subst hte; simp [upd]
      · simp [upd, hte, h.mode t']

theorem ginv_step (s s' : MState) (e : Ev) (h : GInv s) (hs : step s e = some s') : GInv s' := by
  cases e with
  | call r =>
    simp only [step] at hs
    split at hs
    · cases hs
    · rename_i a rest hpc
      exact ginv_call s s' r a rest h hpc hs
  | deliver k =>
    simp only [step] at hs
    split at hs
    · cases hs
    · rename_i msg hk
      injection hs with hs; subst hs
      exact ginv_deliver s k msg h hk

theorem ginv_run : ∀ (evs : List Ev) (s s' : MState), GInv s → runMech s evs = some s' → GInv s' := by
  intro evs
  induction evs with
  | nil => intro s s' h hr; simp only [runMech, Option.some.injEq] at hr; subst hr; exact h
  | cons e es ih =>
    intro s s' h hr
    simp only [runMech] at hr
    split at hr
    · cases hr
    · rename_i s1 hs1
      exact ih s1 s' (ginv_step s s1 e h hs1) hr

theorem ginv_init (m : Mem) (progs : List (List Epoch)) (hok : ∀ es ∈ progs, ∀ e ∈ es, epochOk e) :
    GInv (MState.init m (progs.map progMicros)) := by
  refine ⟨?_, by intro msg hm; simp [MState.init] at hm, by intro t; simp [MState.init]⟩
  intro r
  cases hp : progs[r]? with
  | none =>
    refine .out [] ?_ (by simp)
    simp [MState.init, List.getElem?_map, hp, progMicros]
  | some es =>
    refine .out es ?_ (hok es (List.mem_of_getElem? hp))
    simp [MState.init, List.getElem?_map, hp]

end SgVerif.C34
