/-
C41 driver.  Lines (hex = the bytes of the string, two hex digits each, `-` for the empty string):
  `show a:tc … => <hex> <reparsed a:tc …|throw>`  or `=> throw`      RecordTrace::to_string then RecordTrace(string)
  `parse <hex> => a:tc … | throw`                                    RecordTrace(string)
  `path <kind> <path> <program…> => <pid/tc:KIND>…`                  reported counter-example (see DriverLib.judgePath)
-/
import SgVerif.McRef.DriverLib
import SgVerif.C41.Model
open SgVerif SgVerif.McRef SgVerif.Proto SgVerif.C41

def hexVal (c : Char) : Option Nat :=
  if '0' ≤ c ∧ c ≤ '9' then some (c.toNat - 48)
  else if 'a' ≤ c ∧ c ≤ 'f' then some (c.toNat - 87) else none

def unhex : List Char → Option (List Char)
  | [] => some []
  | [_] => none
  | a :: b :: r =>
    match hexVal a, hexVal b, unhex r with
    | some x, some y, some t => some (Char.ofNat (16 * x + y) :: t)
    | _, _, _ => none

def hexDigit (n : Nat) : Char := if n < 10 then Char.ofNat (48 + n) else Char.ofNat (87 + n)
def hex (s : List Char) : String :=
  if s.isEmpty then "-" else String.ofList (s.flatMap (fun c => [hexDigit (c.toNat / 16), hexDigit (c.toNat % 16)]))

def unhexTok (t : String) : Option (List Char) := if t = "-" then some [] else unhex t.toList

def chunkOf (t : String) : Option Chunk :=
  match t.splitOn ":" with
  | [a, b] => match a.toNat?, b.toNat? with | some x, some y => some (x, y) | _, _ => none
  | _ => none

def chunkStr (c : Chunk) : String := s!"{c.1}:{c.2}"

def judgeShow (q a : List String) : Verdict :=
  match q.mapM chunkOf with
  | none => .bad
  | some p0 =>
    -- a Transition stores (uint8_t)aid and (unsigned short)times_considered: the query is taken modulo the storage
    let p : List Chunk := p0.map (fun c => (c.1 % aidModulus, c.2 % tcModulus))
    match toStrChecked p with
    | none => cmpAns ["throw"] a
    | some str =>
      let reparsed := match parse str with | some l => l.map chunkStr | none => ["throw"]
      let model := hex str :: reparsed
      -- monitor: the implementation's own re-parse of its own string must give the path back
      let inRange := p ≠ [] && p.all (fun c => c.1 < aidModulus && c.1 != invalidAid && c.2 < tcModulus)
      if inRange && a.drop 1 ≠ p.map chunkStr then .monfail s!"re-parsing the printed path gives {a.drop 1}"
      else cmpAns model a

def judgeParse (q a : List String) : Verdict :=
  match q with
  | [h] =>
    match unhexTok h with
    | none => .bad
    | some str => cmpAns (match parse str with | some l => l.map chunkStr | none => ["throw"]) a
  | _ => .bad

def judge (q a : List String) : Verdict :=
  match q with
  | "show" :: rest => judgeShow rest a
  | "parse" :: rest => judgeParse rest a
  | "path" :: rest => judgePath rest a
  | _ => .bad

def main : IO Unit := driverMain judge
