/-
C41 — reported counter-examples are real and replayable (partial).

Proved:
  * `record_path_roundtrip`   ∀ non-empty paths of stored (aid : uint8_t ≠ Aid::INVALID, times_considered : unsigned short):
                              parse (to_string p) = p
  * `record_path_roundtrip_empty_counterexample`, `…_invalid_aid_counterexample`: the two excluded cases really fail
    (the empty path prints as "" which the parser rejects; to_string throws on Aid::INVALID = 31)
  * `replay_follows_path`     the reference LTS driven by a recorded path executes exactly that sequence of
                              (pid, times_considered), and the labels it yields form an execution of the LTS
  * `replay_deterministic`    in a given state a (pid, times_considered) designates at most one transition
NOT proved: that the paths printed by simgrid-mc are executions of the application ending in the reported violation
(`Exploration::get_record_trace`, `RecordTrace::replay` inside the real engine).  This is CHECKED per program by
props/C41/check.py: every reported path is replayed in the reference LTS and twice in the real binary.
-/
import SgVerif.C41.Lemmas
import SgVerif.McRef.Lts
namespace SgVerif.C41
open SgVerif.McRef

theorem toStr_length : ∀ p : List Chunk, p.length ≤ (toStr p).length
  | [] => by simp [toStr]
  | [c] => by
    have := showChunk_ne_nil c
    cases h : showChunk c with
    | nil => exact absurd h this
    | cons _ _ => simp [toStr, h]
  | c :: c' :: rest => by
    have ih := toStr_length (c' :: rest)
    simp only [toStr, List.length_append, List.length_cons] at ih ⊢
    omega

theorem toStr_ne_nil : ∀ p : List Chunk, p ≠ [] → toStr p ≠ []
  | [], h => absurd rfl h
  | [c], _ => by simpa [toStr] using showChunk_ne_nil c
  | c :: c' :: rest, _ => by
    simp only [toStr]
    intro h
    have := showChunk_ne_nil c
    cases hs : showChunk c <;> simp_all

theorem parseLoop_succ_ne (fuel : Nat) (s : List Char) (h : s ≠ []) :
    parseLoop (fuel + 1) s = (match scanChunk s with
      | none => none
      | some c => match afterSemi s with
        | none => some [c]
        | some r => (parseLoop fuel r).map (c :: ·)) := by
  cases s with
  | nil => exact absurd rfl h
  | cons ch t => rfl

theorem parseLoop_toStr : ∀ (p : List Chunk) (fuel : Nat), p ≠ [] → (∀ c ∈ p, c.1 < aidModulus ∧ c.2 < tcModulus) → p.length ≤ fuel →
    parseLoop fuel (toStr p) = some p
  | [], _, h, _, _ => absurd rfl h
  | [c], fuel, _, hc, hf => by
    cases fuel with
    | zero => simp at hf
    | succ fuel =>
      have hne := showChunk_ne_nil c
      have hscan := scanChunk_showChunk c (hc c List.mem_cons_self).1 (hc c List.mem_cons_self).2 [] (Or.inl rfl)
      simp only [List.append_nil] at hscan
      have hsemi := afterSemi_none (showChunk c) (showChunk_no_semi c)
      simp only [toStr]
      rw [parseLoop_succ_ne fuel _ hne, hscan, hsemi]
  | c :: c' :: rest, fuel, _, hc, hf => by
    cases fuel with
    | zero => simp at hf
    | succ fuel =>
      have hne := showChunk_ne_nil c
      have hscan := scanChunk_showChunk c (hc c List.mem_cons_self).1 (hc c List.mem_cons_self).2 (';' :: toStr (c' :: rest)) (Or.inr ⟨_, rfl⟩)
      have hsemi := afterSemi_append (showChunk c) (toStr (c' :: rest)) (showChunk_no_semi c)
      have ih := parseLoop_toStr (c' :: rest) fuel (by simp) (fun x hx => hc x (List.mem_cons_of_mem _ hx))
        (by simp at hf ⊢; omega)
      have hne2 : showChunk c ++ ';' :: toStr (c' :: rest) ≠ [] := by
        cases hs : showChunk c <;> simp_all
      simp only [toStr]
      rw [parseLoop_succ_ne fuel _ hne2]
      simp [hscan, hsemi, ih]

/-- `RecordTrace(to_string(p)) = p` for every non-empty path of stored values (aid: uint8_t other than Aid::INVALID,
times_considered: unsigned short). -/
theorem record_path_roundtrip (p : List Chunk) (hne : p ≠ [])
    (hrange : ∀ c ∈ p, c.1 < aidModulus ∧ c.1 ≠ invalidAid ∧ c.2 < tcModulus) :
    (toStrChecked p).bind parse = some p := by
  have hvalid : p.any (fun c => c.1 == invalidAid) = false := by
    rw [List.any_eq_false]
    intro c hc
    simpa using (hrange c hc).2.1
  unfold toStrChecked
  simp only [hvalid, Bool.false_eq_true, if_false, Option.bind_some]
  unfold parse
  have h1 := toStr_ne_nil p hne
  have h2 := toStr_length p
  cases hs : toStr p with
  | nil => exact absurd hs h1
  | cons ch t =>
    simp only [List.isEmpty_cons, Bool.false_eq_true, if_false]
    rw [← hs]
    exact parseLoop_toStr p _ hne (fun c hc => ⟨(hrange c hc).1, (hrange c hc).2.2⟩) (by omega)

/-- The full-strength statement (∀ paths) is false on the current code in two corner cases: the empty path prints as ""
which the parser rejects, and `Aid::INVALID` cannot be printed. -/
theorem record_path_roundtrip_empty_counterexample : (toStrChecked []).bind parse = none := by decide
theorem record_path_roundtrip_invalid_aid_counterexample : (toStrChecked [(31, 0)]).bind parse = none := by decide
/-- what the parser does with out-of-range input: truncation, not rejection -/
example : parse "300/-1;31".toList = some [(44, 65535), (31, 0)] := by decide

example : (toStrChecked [(1, 0), (2, 3), (12, 0)]).bind parse = some [(1, 0), (2, 3), (12, 0)] :=
  record_path_roundtrip _ (by simp) (by decide)
example : toStr [(1, 0), (2, 3), (12, 0)] = "1;2/3;12".toList := by decide

/-! ### replay in the reference LTS -/

theorem labelOf_aid_tc (s : State) (i tc : Nat) (p : Pend) : (labelOf s i tc p).aid = pidOf s i ∧ (labelOf s i tc p).tc = tc := by
  cases p <;> simp only [labelOf] <;> (repeat' split) <;> simp

theorem labelAt_aid_tc {s : State} {i tc : Nat} {l : Label} (h : labelAt s i tc = some l) :
    l.aid = pidOf s i ∧ l.tc = tc := by
  unfold labelAt at h
  split at h
  · cases h
  · split at h
    · cases h
    · split at h
      · cases h; exact labelOf_aid_tc ..
      · cases h

theorem indexOfPid_pidOf {s : State} {pid i : Nat} (h : indexOfPid s pid = some i) : pidOf s i = pid := by
  unfold indexOfPid at h
  split at h
  · cases h
  · rw [List.findIdx?_eq_some_iff_getElem] at h
    obtain ⟨hlt, hp, _⟩ := h
    unfold pidOf
    simp [List.getElem?_eq_getElem hlt]
    simpa using hp

/-- The reference LTS driven by a recorded path executes exactly that sequence of (pid, times_considered); the labels
it yields are an execution of the LTS from `s` to the returned state. -/
theorem replay_follows_path : ∀ (path : List (Nat × Nat)) (s s' : State) (acc ls : List Label),
    replay s path acc = .ok (s', ls) →
    ∃ ls', ls = acc.reverse ++ ls' ∧ ls'.map (fun l => (l.aid, l.tc)) = path ∧ mcLTS.run s ls' = some s'
  | [], s, s', acc, ls, h => by
    simp only [replay] at h
    cases h
    exact ⟨[], by simp, rfl, rfl⟩
  | (pid, tc) :: rest, s, s', acc, ls, h => by
    simp only [replay] at h
    split at h
    · cases h
    · rename_i i hi
      split at h
      · cases h
      · rename_i l hl
        obtain ⟨ls', h1, h2, h3⟩ := replay_follows_path rest _ s' (l :: acc) ls h
        have hat := labelAt_aid_tc hl
        have hpid := indexOfPid_pidOf hi
        refine ⟨l :: ls', by simp [h1], ?_, ?_⟩
        · simp [h2, hat.1, hat.2, hpid]
        · have hidx : indexOfPid s l.aid = some i := by rw [hat.1, hpid]; exact hi
          simp only [LTS.run, mcLTS, hidx, hat.2, hl, beq_self_eq_true, if_true]
          simpa [mcLTS, hidx, hat.2] using h3

/-- Determinism: in a given state, an issuer and a times_considered designate at most one transition. -/
theorem replay_deterministic (s : State) (l1 l2 : Label) (h1 : mcLTS.enabled s l1 = true) (h2 : mcLTS.enabled s l2 = true)
    (haid : l1.aid = l2.aid) (htc : l1.tc = l2.tc) : l1 = l2 ∧ mcLTS.exec s l1 = mcLTS.exec s l2 := by
  simp only [mcLTS] at h1 h2 ⊢
  rw [← haid] at h2
  cases hi : indexOfPid s l1.aid with
  | none => simp [hi] at h1
  | some i =>
    simp only [hi, beq_iff_eq] at h1 h2
    rw [← htc, h1] at h2
    cases h2
    exact ⟨rfl, by simp [hi]⟩

/-- non-vacuity: a concrete deadlocking program, its recorded path `1;1;2;2;1;2` is accepted and ends in a deadlock. -/
def demo : Program :=
  { nmutex := 2, statics := [[.lock 0, .lock 1, .unlock 1, .unlock 0], [.lock 1, .lock 0, .unlock 0, .unlock 1]] }

example : (match replay (initState demo) [(1, 0), (1, 0), (2, 0), (2, 0), (1, 0), (2, 0)] [] with
    | .ok (s, ls) => isDeadlock s && ls.length == 6
    | .error _ => false) = true := by decide

end SgVerif.C41
