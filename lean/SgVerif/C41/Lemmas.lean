/- Helper lemmas for C41: decimal printing / scanning round trip. -/
import SgVerif.C41.Model
namespace SgVerif.C41

def NoDigitHead (s : List Char) : Prop := ∀ c t, s = c :: t → isDigit c = false

theorem lt_ten_cases {d : Nat} (h : d < 10) :
    d = 0 ∨ d = 1 ∨ d = 2 ∨ d = 3 ∨ d = 4 ∨ d = 5 ∨ d = 6 ∨ d = 7 ∨ d = 8 ∨ d = 9 := by omega

theorem digitChar_props {d : Nat} (h : d < 10) :
    isDigit (digitChar d) = true ∧ digitVal (digitChar d) = d ∧ isSpace (digitChar d) = false ∧
    digitChar d ≠ '-' ∧ digitChar d ≠ '+' ∧ digitChar d ≠ ';' ∧ digitChar d ≠ '/' := by
  rcases lt_ten_cases h with rfl | rfl | rfl | rfl | rfl | rfl | rfl | rfl | rfl | rfl <;> decide

theorem digitsLE_lt : ∀ (fuel n : Nat), ∀ d ∈ digitsLE fuel n, d < 10
  | 0, n, d, h => by simp [digitsLE] at h; omega
  | fuel + 1, n, d, h => by
    simp only [digitsLE] at h
    split at h
    · simp at h; omega
    · simp at h
      rcases h with h | h
      · omega
      · exact digitsLE_lt fuel _ d h

theorem digitsLE_ne_nil : ∀ (fuel n : Nat), digitsLE fuel n ≠ []
  | 0, n => by simp [digitsLE]
  | fuel + 1, n => by simp only [digitsLE]; split <;> simp

theorem digitsLE_val : ∀ (fuel n : Nat), n ≤ fuel → (digitsLE fuel n).foldr (fun d v => 10 * v + d) 0 = n
  | 0, n, h => by
    have : n = 0 := by omega
    subst this; simp [digitsLE]
  | fuel + 1, n, h => by
    simp only [digitsLE]
    split
    · simp
    · simp only [List.foldr_cons]
      rw [digitsLE_val fuel (n / 10) (by omega)]
      omega

theorem readDigits_digits : ∀ (ds : List Nat) (rest : List Char) (v : Nat), (∀ d ∈ ds, d < 10) → NoDigitHead rest →
    readDigits (ds.map digitChar ++ rest) v = (ds.foldl (fun v d => 10 * v + d) v, rest)
  | [], rest, v, _, hr => by
    cases rest with
    | nil => simp [readDigits]
    | cons c t => simp [readDigits, hr c t rfl]
  | d :: ds, rest, v, hd, hr => by
    have hp := digitChar_props (hd d List.mem_cons_self)
    simp only [List.map_cons, List.cons_append, readDigits, hp.1, hp.2.1, if_true, List.foldl_cons]
    exact readDigits_digits ds rest _ (fun x hx => hd x (List.mem_cons_of_mem _ hx)) hr

theorem showNat_cons (n : Nat) : ∃ d t, d < 10 ∧ showNat n = digitChar d :: t := by
  unfold showNat
  have hne := digitsLE_ne_nil n n
  have hlt := digitsLE_lt n n
  cases hrev : (digitsLE n n).reverse with
  | nil => simp at hrev; exact absurd hrev hne
  | cons d t =>
    refine ⟨d, t.map digitChar, ?_, by simp⟩
    apply hlt
    have : d ∈ (digitsLE n n).reverse := by rw [hrev]; exact List.mem_cons_self
    simpa using this

theorem readDigits_showNat (n : Nat) (rest : List Char) (hr : NoDigitHead rest) :
    readDigits (showNat n ++ rest) 0 = (n, rest) := by
  unfold showNat
  rw [readDigits_digits _ rest 0 (fun d hd => digitsLE_lt n n d (by simpa using hd)) hr]
  rw [List.foldl_reverse]
  have := digitsLE_val n n (Nat.le_refl _)
  simp only [this]

theorem readNumber_showNat (n : Nat) (rest : List Char) (hr : NoDigitHead rest) :
    readNumber (showNat n ++ rest) = some (false, n, rest) := by
  obtain ⟨d, t, hd, hs⟩ := showNat_cons n
  have hp := digitChar_props hd
  have hrd := readDigits_showNat n rest hr
  rw [hs] at hrd ⊢
  have h1 : skipSpaces (digitChar d :: t ++ rest) = digitChar d :: (t ++ rest) := by
    simp [skipSpaces, hp.2.2.1]
  have h2 : stripSign (digitChar d :: (t ++ rest)) = (false, digitChar d :: (t ++ rest)) := by
    simp [stripSign, hp.2.2.2.1, hp.2.2.2.2.1]
  unfold readNumber
  simp only [h1, h2, hp.1, if_true]
  simp only [List.cons_append] at hrd
  rw [hrd]

theorem showNat_chars (n : Nat) : ∀ c ∈ showNat n, c ≠ ';' ∧ c ≠ '/' ∧ isDigit c = true := by
  intro c hc
  unfold showNat at hc
  simp only [List.mem_map, List.mem_reverse] at hc
  obtain ⟨d, hd, rfl⟩ := hc
  have hp := digitChar_props (digitsLE_lt n n d hd)
  exact ⟨hp.2.2.2.2.2.1, hp.2.2.2.2.2.2, hp.1⟩

theorem afterSemi_append : ∀ (l r : List Char), (∀ c ∈ l, c ≠ ';') → afterSemi (l ++ ';' :: r) = some r
  | [], r, _ => by simp [afterSemi]
  | c :: l, r, h => by
    have hc : c ≠ ';' := h c List.mem_cons_self
    simp only [List.cons_append, afterSemi]
    simp only [beq_iff_eq, hc, if_false]
    exact afterSemi_append l r (fun x hx => h x (List.mem_cons_of_mem _ hx))

theorem afterSemi_none : ∀ (l : List Char), (∀ c ∈ l, c ≠ ';') → afterSemi l = none
  | [], _ => rfl
  | c :: l, h => by
    have hc : c ≠ ';' := h c List.mem_cons_self
    simp only [afterSemi, beq_iff_eq, hc, if_false]
    exact afterSemi_none l (fun x hx => h x (List.mem_cons_of_mem _ hx))

theorem showChunk_no_semi (c : Chunk) : ∀ ch ∈ showChunk c, ch ≠ ';' := by
  intro ch hch
  unfold showChunk at hch
  simp only [List.mem_append] at hch
  rcases hch with h | h
  · exact (showNat_chars _ ch h).1
  · split at h
    · simp only [List.mem_cons] at h
      rcases h with h | h
      · subst h; decide
      · exact (showNat_chars _ ch h).1
    · simp at h

theorem showChunk_ne_nil (c : Chunk) : showChunk c ≠ [] := by
  obtain ⟨d, t, _, hs⟩ := showNat_cons c.1
  simp [showChunk, hs]

/-- scanning a printed chunk followed by nothing or by ';' gives the chunk back -/
theorem scanChunk_showChunk (c : Chunk) (ha : c.1 < aidModulus) (hc : c.2 < tcModulus) (rest : List Char)
    (hr : rest = [] ∨ ∃ r, rest = ';' :: r) :
    scanChunk (showChunk c ++ rest) = some c := by
  have hnd : NoDigitHead rest := by
    intro ch t h
    rcases hr with hr | ⟨r, hr⟩
    · rw [hr] at h; cases h
    · rw [hr] at h; cases h; decide
  obtain ⟨aid, tc⟩ := c
  simp only at hc ha
  have haid : aid % aidModulus = aid := Nat.mod_eq_of_lt ha
  by_cases hpos : tc > 0
  · have h1 : NoDigitHead ('/' :: (showNat tc ++ rest)) := by
      intro ch t h; simp at h; rw [← h.1]; decide
    have hs : showChunk (aid, tc) ++ rest = showNat aid ++ ('/' :: (showNat tc ++ rest)) := by
      simp [showChunk, hpos]
    rw [hs]
    unfold scanChunk
    rw [readNumber_showNat aid _ h1]
    simp only
    rw [readNumber_showNat tc rest hnd]
    simp only [Bool.false_eq_true, if_false, haid]
    have : ((tc : Int) % (tcModulus : Int)).toNat = tc := by
      unfold tcModulus at hc ⊢
      omega
    rw [this]
  · have htc : tc = 0 := by omega
    subst htc
    have hs : showChunk (aid, 0) ++ rest = showNat aid ++ rest := by simp [showChunk]
    rw [hs]
    unfold scanChunk
    rw [readNumber_showNat aid rest hnd]
    simp only [Bool.false_eq_true, if_false, haid]
    rcases hr with hr | ⟨r, hr⟩ <;> subst hr <;> rfl

end SgVerif.C41
