/-
C41 — model of the record/replay path syntax of src/mc/mc_record.cpp.  Core-only.

  std::string RecordTrace::to_string() const {
    for (auto i = transitions_.begin(); i != transitions_.end(); ++i) {
      if (*i == nullptr) continue;                       // never the case for recorded traces: not modelled
      if (i != transitions_.begin()) stream << ';';
      stream << static_cast<int>((*i)->aid_.value());
      if ((*i)->times_considered_ > 0) stream << '/' << (*i)->times_considered_;
    } }

  RecordTrace::RecordTrace(const std::string& path_string) {            // the "FILE:" form is not modelled
    if (data.empty()) throw std::invalid_argument("Could not parse record path");
    const char* current = data.c_str();
    while (*current) {
      unsigned aid; int times_considered = 0;
      if (int count = sscanf(current, "%u/%d", &aid, &times_considered); count != 2 && count != 1) throw ...;
      push_back(new Transition(UNKNOWN, aid, times_considered));
      const char* end = std::strchr(current, ';');
      if (end == nullptr) break; else current = end + 1;
    } }

Strings are `List Char`.  sscanf: `%u` and `%d` skip white space, accept an optional sign and a non-empty run of decimal
digits (numbers are unbounded here: the checks use values below 2^31; a '-' before `%u` wraps modulo 2^32 as strtoul does).
-/
namespace SgVerif.C41

/-- (aid, times_considered) as stored in a `Transition`: `Aid::storage_type` is `uint8_t` (max_threads = 32 <= 256,
src/mc/api/Aid.hpp; the value 31 is `Aid::INVALID`), `times_considered_` is an `unsigned short`. -/
abbrev Chunk := Nat × Nat
def aidModulus : Nat := 256
def tcModulus : Nat := 65536
def invalidAid : Nat := 31

def digitChar : Nat → Char
  | 0 => '0' | 1 => '1' | 2 => '2' | 3 => '3' | 4 => '4' | 5 => '5' | 6 => '6' | 7 => '7' | 8 => '8' | _ => '9'

def isDigit (c : Char) : Bool := c.toNat ≥ 48 && c.toNat ≤ 57
def digitVal (c : Char) : Nat := c.toNat - 48

/-- little-endian decimal digits (fuel = n suffices) -/
def digitsLE : Nat → Nat → List Nat
  | 0, n => [n % 10]
  | fuel + 1, n => if n < 10 then [n] else (n % 10) :: digitsLE fuel (n / 10)

/-- `stream << n` for a non-negative integer. -/
def showNat (n : Nat) : List Char := ((digitsLE n n).reverse).map digitChar

def showChunk (c : Chunk) : List Char :=
  showNat c.1 ++ (if c.2 > 0 then '/' :: showNat c.2 else [])

/-- `RecordTrace::to_string`. -/
def toStr : List Chunk → List Char
  | [] => []
  | [c] => showChunk c
  | c :: rest => showChunk c ++ ';' :: toStr rest

/-- `to_string` with its error branch: `aid_.value()` throws `InvalidAid` on `Aid::INVALID`. -/
def toStrChecked (p : List Chunk) : Option (List Char) :=
  if p.any (fun c => c.1 == invalidAid) then none else some (toStr p)

/-- maximal run of decimal digits -/
def readDigits : List Char → Nat → Nat × List Char
  | [], v => (v, [])
  | c :: cs, v => if isDigit c then readDigits cs (10 * v + digitVal c) else (v, c :: cs)

def isSpace (c : Char) : Bool := c == ' ' || c == '\t' || c == '\n' || c == '\x0b' || c == '\x0c' || c == '\r'

def skipSpaces : List Char → List Char
  | [] => []
  | c :: cs => if isSpace c then skipSpaces cs else c :: cs

/-- a conversion `%d` / `%u`: white space, optional sign, digits.  Returns (negative?, magnitude, rest). -/
def stripSign : List Char → Bool × List Char
  | [] => (false, [])
  | c :: r => if c == '-' then (true, r) else if c == '+' then (false, r) else (false, c :: r)

def readNumber (s : List Char) : Option (Bool × Nat × List Char) :=
  let sg := stripSign (skipSpaces s)
  match sg.2 with
  | c :: _ => if isDigit c then some (sg.1, (readDigits sg.2 0).1, (readDigits sg.2 0).2) else none
  | [] => none

/-- `sscanf(current, "%u/%d", &aid, &times_considered)` with `times_considered` preset to 0:
`none` when the count is neither 1 nor 2. -/
def scanChunk (s : List Char) : Option Chunk :=
  match readNumber s with
  | none => none
  | some (neg, v, rest) =>
    -- `unsigned aid` then `Aid(unsigned)`: static_cast<uint8_t>; `int times_considered` then `unsigned short`
    let aid : Nat := (if neg then (4294967296 - v % 4294967296) % 4294967296 else v) % aidModulus
    match rest with
    | '/' :: r =>
      match readNumber r with
      | some (neg2, w, _) => some (aid, ((if neg2 then -(w : Int) else (w : Int)) % (tcModulus : Int)).toNat)
      | none => some (aid, 0)
    | _ => some (aid, 0)

/-- `strchr(current, ';')`, returning what follows the ';'. -/
def afterSemi : List Char → Option (List Char)
  | [] => none
  | c :: cs => if c == ';' then some cs else afterSemi cs

theorem afterSemi_length : ∀ (s r : List Char), afterSemi s = some r → r.length < s.length
  | [], _, h => by simp [afterSemi] at h
  | c :: cs, r, h => by
    simp only [afterSemi] at h
    split at h
    · cases h; simp
    · have := afterSemi_length cs r h
      simp; omega

/-- the `while (*current)` loop -/
def parseLoop : Nat → List Char → Option (List Chunk)
  | 0, _ => some []
  | fuel + 1, s =>
    match s with
    | [] => some []
    | _ =>
      match scanChunk s with
      | none => none
      | some c =>
        match afterSemi s with
        | none => some [c]
        | some r => (parseLoop fuel r).map (c :: ·)

/-- `RecordTrace::RecordTrace(path_string)`: `none` = `std::invalid_argument`. -/
def parse (s : List Char) : Option (List Chunk) :=
  if s.isEmpty then none else parseLoop (s.length + 1) s

end SgVerif.C41
