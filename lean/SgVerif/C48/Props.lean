import SgVerif.C48.Model
import SgVerif.C48.Gen
/-
C48 — Configuration flags parse and validate values.  Property theorems (nothing else in this file).
All theorems but the last three are for every configuration set, every name and every value string; the last three
are enumerations of the item table generated from the built library (finite domain = the table).
-/
namespace SgVerif.C48
open SgVerif.Xbt

theorem find_update (items : List Item) (real : String) (f : Item → Item) (hf : ∀ it, (f it).name = it.name) :
    (updateItem items real f).find? (fun it => it.name == real) =
      (items.find? (fun it => it.name == real)).map f := by
  induction items with
  | nil => rfl
  | cons x t ih =>
    simp only [updateItem, List.map_cons, List.find?_cons]
    by_cases hx : (x.name == real) = true
    · simp [hx, hf]
    · have hx' : (x.name == real) = false := by simpa using hx
      simp only [hx', Bool.false_eq_true, if_false]
      exact ih

theorem any_update (items : List Item) (real n : String) (f : Item → Item) (hf : ∀ it, (f it).name = it.name) :
    (updateItem items real f).any (fun it => it.name == n) = items.any (fun it => it.name == n) := by
  induction items with
  | nil => rfl
  | cons x t ih =>
    simp only [updateItem, List.map_cons, List.any_cons]
    rw [show List.map (fun it => if (it.name == real) = true then f it else it) t = updateItem t real f from rfl, ih]
    congr 1
    split <;> simp [hf]

/-- updating an item never changes how names and aliases resolve -/
theorem resolve_update (c : Cfg) (real : String) (f : Item → Item) (hf : ∀ it, (f it).name = it.name) (n : String) :
    resolve { c with items := updateItem c.items real f } n = resolve c n := by
  unfold resolve
  simp only [any_update _ _ _ _ hf]

theorem findItem_some (c : Cfg) (name : String) (it : Item) (h : findItem c name = some it) :
    ∃ real, resolve c name = some real ∧ c.items.find? (fun i => i.name == real) = some it ∧ it.name = real := by
  unfold findItem at h
  cases hr : resolve c name with
  | none => rw [hr] at h; cases h
  | some real =>
    rw [hr] at h
    refine ⟨real, rfl, h, ?_⟩
    have := List.find?_some h
    simpa using this

/-- **set then get**: a value accepted through `set_as_string` (by name or alias) is the value the item's type parser
yields, and `get_value` returns exactly it. -/
theorem set_then_get (c c' : Cfg) (name : String) (s : List Char) (h : setAsString c name s = (.ok, c')) :
    ∃ it v, findItem c name = some it ∧ parse it.ty s = .ok v ∧ getValue c' name = some v := by
  unfold setAsString at h
  cases hf : findItem c name with
  | none => rw [hf] at h; cases h
  | some it =>
    rw [hf] at h
    simp only at h
    cases hp : parse it.ty s with
    | error e => rw [hp] at h; cases h
    | ok v =>
      rw [hp] at h
      simp only [Prod.mk.injEq, true_and] at h
      subst h
      refine ⟨it, v, rfl, hp, ?_⟩
      obtain ⟨real, hr, hfind, hname⟩ := findItem_some c name it hf
      unfold getValue findItem
      rw [resolve_update c it.name (applySet v) (fun _ => rfl), hr]
      simp only
      rw [hname, find_update _ _ (applySet v) (fun _ => rfl), hfind]
      rfl

/-- **bad values are rejected**: when the parser of the item's type refuses the string, `set_as_string` throws that
error and nothing is changed (value, default flag, callback count). -/
theorem bad_value_rejected (c : Cfg) (name : String) (s : List Char) (it : Item) (e : PErr)
    (hf : findItem c name = some it) (hp : parse it.ty s = .error e) :
    setAsString c name s = (.parseError e, c) := by
  unfold setAsString
  rw [hf]
  simp only [hp]

/-- … and conversely a `parseError` can only come from the parser of the item's type -/
theorem parse_error_only_from_parser (c c' : Cfg) (name : String) (s : List Char) (e : PErr)
    (h : setAsString c name s = (.parseError e, c')) :
    c' = c ∧ ∃ it, findItem c name = some it ∧ parse it.ty s = .error e := by
  unfold setAsString at h
  cases hf : findItem c name with
  | none => rw [hf] at h; cases h
  | some it =>
    rw [hf] at h
    simp only at h
    cases hp : parse it.ty s with
    | error e' =>
      rw [hp] at h
      simp only [Prod.mk.injEq, SetRes.parseError.injEq] at h
      exact ⟨h.2.symm, it, rfl, h.1 ▸ hp⟩
    | ok v => rw [hp] at h; cases h

/-- the booleans accepted are exactly the eight spellings, whatever the case (characterisation of `parse_bool`) -/
theorem parseBool_ok_iff (s : List Char) (b : Bool) :
    parseBool s = .ok b ↔
      (b = true ∧ (lowerS s = "yes".toList ∨ lowerS s = "on".toList ∨ lowerS s = "true".toList ∨ lowerS s = "1".toList)) ∨
      (b = false ∧ (lowerS s = "no".toList ∨ lowerS s = "off".toList ∨ lowerS s = "false".toList ∨ lowerS s = "0".toList)) := by
  unfold parseBool
  simp only
  by_cases h1 : lowerS s = "yes".toList ∨ lowerS s = "on".toList ∨ lowerS s = "true".toList ∨ lowerS s = "1".toList
  · rw [if_pos h1]
    constructor
    · intro h; cases h; exact Or.inl ⟨rfl, h1⟩
    · rintro (⟨rfl, _⟩ | ⟨rfl, h2⟩)
      · rfl
      · exfalso
        rcases h1 with h | h | h | h <;> rcases h2 with g | g | g | g <;> (rw [h] at g; revert g; decide)
  · rw [if_neg h1]
    by_cases h2 : lowerS s = "no".toList ∨ lowerS s = "off".toList ∨ lowerS s = "false".toList ∨ lowerS s = "0".toList
    · rw [if_pos h2]
      constructor
      · intro h; cases h; exact Or.inr ⟨rfl, h2⟩
      · rintro (⟨rfl, h⟩ | ⟨rfl, _⟩)
        · exact absurd h h1
        · rfl
    · rw [if_neg h2]
      constructor
      · intro h; cases h
      · rintro (⟨_, h⟩ | ⟨_, h⟩)
        · exact absurd h h1
        · exact absurd h h2

/-- an accepted `int` fits in 32 bits, an out-of-range integer is never stored -/
theorem parseInt_in_range (s : List Char) (v : Int) (h : parseInt s = .ok v) :
    -2147483648 ≤ v ∧ v ≤ 2147483647 := by
  unfold parseInt at h
  split at h
  · cases h
  · split at h
    · cases h
    · split at h
      · cases h
      · cases h; omega

/-- every string is a valid value of a `string` item and is stored unchanged -/
theorem string_always_accepted (s : List Char) : parse .string s = .ok (.s (String.ofList s)) := rfl

/-- **unknown names are rejected** (`out_of_range`), nothing is changed -/
theorem unknown_name_rejected (c : Cfg) (name : String) (s : List Char) (h : resolve c name = none) :
    setAsString c name s = (.unknownName, c) := by
  unfold setAsString findItem
  rw [h]

/-- … and only they: `unknownName` is answered exactly when neither an item nor an alias of an item has that name -/
theorem unknown_name_iff (c : Cfg) (name : String) (s : List Char) (hall : ∀ real, resolve c name = some real →
    c.items.any (fun it => it.name == real) = true) :
    (setAsString c name s).1 = .unknownName ↔ resolve c name = none := by
  constructor
  · intro h
    cases hr : resolve c name with
    | none => rfl
    | some real =>
      exfalso
      have hany := hall real hr
      obtain ⟨it, hit, hn⟩ := List.any_eq_true.mp hany
      have hs : (c.items.find? (fun i => i.name == real)).isSome = true := List.find?_isSome.mpr ⟨it, hit, hn⟩
      unfold setAsString findItem at h
      rw [hr] at h
      simp only at h
      cases hf : c.items.find? (fun i => i.name == real) with
      | none => rw [hf] at hs; cases hs
      | some it' =>
        rw [hf] at h
        simp only at h
        cases hp : parse it'.ty s with
        | error e => rw [hp] at h; cases h
        | ok v => rw [hp] at h; cases h
  · intro h; rw [unknown_name_rejected c name s h]

/-- **aliases resolve**: setting through an alias is setting through the current name (same answer, same state) -/
theorem alias_resolves (c : Cfg) (a r : String) (s : List Char)
    (ha : c.items.any (fun it => it.name == a) = false) (hl : c.aliases.lookup a = some r)
    (hr : c.items.any (fun it => it.name == r) = true) :
    setAsString c a s = setAsString c r s := by
  have h1 : resolve c a = some r := by unfold resolve; simp [ha, hl, hr]
  have h2 : resolve c r = some r := by unfold resolve; simp [hr]
  unfold setAsString findItem
  rw [h1, h2]

/-- **the callback runs exactly once** per accepted set (and `unset_default` happened); items with another name are
untouched.  (Rejected sets change nothing at all: `bad_value_rejected`, `unknown_name_rejected`.) -/
theorem callback_runs_once (c c' : Cfg) (name : String) (s : List Char) (h : setAsString c name s = (.ok, c')) :
    ∃ it it', findItem c name = some it ∧ findItem c' name = some it' ∧
      it'.cbRuns = it.cbRuns + 1 ∧ it'.isDefault = false ∧
      c'.items.length = c.items.length ∧
      ∀ j (hj : j < c.items.length) (hj' : j < c'.items.length), c.items[j].name ≠ it.name → c'.items[j] = c.items[j] := by
  unfold setAsString at h
  cases hf : findItem c name with
  | none => rw [hf] at h; cases h
  | some it =>
    rw [hf] at h
    simp only at h
    cases hp : parse it.ty s with
    | error e => rw [hp] at h; cases h
    | ok v =>
      rw [hp] at h
      simp only [Prod.mk.injEq, true_and] at h
      subst h
      obtain ⟨real, hr, hfind, hname⟩ := findItem_some c name it hf
      refine ⟨it, applySet v it, rfl, ?_, rfl, rfl, ?_, ?_⟩
      · unfold findItem
        rw [resolve_update c it.name (applySet v) (fun _ => rfl), hr]
        simp only
        rw [hname, find_update _ _ (applySet v) (fun _ => rfl), hfind]
        rfl
      · simp [updateItem]
      · intro j hj hj' hne
        simp only [updateItem, List.getElem_map]
        have : (c.items[j].name == it.name) = false := by simpa using hne
        simp [this]

/-! ### the generated table (enumerations over the finite table dumped from the library) -/

/-- registered names are pairwise distinct -/
theorem gen_names_distinct : (Gen.items.map (·.name)).Nodup := by decide +kernel

/-- every alias designates a registered item and is not itself the name of an item: `alias_resolves` applies to all -/
theorem gen_aliases_resolve :
    ∀ p ∈ Gen.aliases, Gen.items.any (fun d => d.name == p.2) = true ∧ Gen.items.any (fun d => d.name == p.1) = false := by
  decide +kernel

/-- every boolean / int default printed by the library is accepted again by the parser of its type -/
theorem gen_defaults_reparse :
    ∀ d ∈ Gen.items, (d.ty = .bool → (parseBool d.dflt.toList).isOk = true) ∧ (d.ty = .int → (parseInt d.dflt.toList).isOk = true) := by
  decide +kernel

/-! ### non-vacuity -/
def exCfg : Cfg := { items := [⟨"a/flag", .bool, .b false, true, 0⟩, ⟨"a/num", .int, .i 3, true, 0⟩],
                     aliases := [("old/num", "a/num")] }
example : (setAsString exCfg "old/num" "0x1F".toList).1 = .ok := by decide
example : (setAsString exCfg "a/flag" "YeS".toList).1 = .ok ∧ (setAsString exCfg "a/flag" "2".toList).1 = .parseError .notBoolean := by
  decide
example : (setAsString exCfg "a/num" "08".toList).1 = .parseError .invalidInteger ∧
    (setAsString exCfg "a/num" "2147483648".toList).1 = .parseError .overflow ∧
    (setAsString exCfg "a_num" "1".toList).1 = .unknownName := by decide

end SgVerif.C48
