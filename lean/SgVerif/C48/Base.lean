/-
C48 — types shared by the generated item table (Gen.lean, produced by props/C48/gen_config.py from the built library)
and the model.  Core-only.
-/
namespace SgVerif.C48

/-- `ConfigType<T>::type_name`: "boolean", "int", "double", "string" -/
inductive Ty where
  | bool | int | double | string
  deriving DecidableEq, Repr

/-- one registered configuration element as `simgrid::config::help()` shows it after the Engine is created -/
structure ItemDecl where
  name : String
  ty : Ty
  dflt : String          -- `get_string_value()` of the default
  deriving Repr

end SgVerif.C48
