import SgVerif.C48.Base
import SgVerif.Xbt.Strtod
/-
C48 — executable model of src/xbt/config.cpp: the per-type parsers (`parse_bool`, `parse_long` + `ConfigType<int>`,
`parse_double`, string), `Config::get_dict_element` (names, then aliases, else `out_of_range`),
`TypedConfigurationElement<T>::set_string_value` (parse, unset_default, callback) and `get_value`.  Core-only.
Callbacks are abstracted as a per-item run counter (what they do — assign the bound variable, validate, abort — is
outside the model; the correspondence accepts a rejection by a validating callback as a legitimate choice).
-/
namespace SgVerif.C48
open SgVerif.Xbt

/-! ## parsers -/

inductive PErr where
  | notBoolean            -- std::range_error("not a boolean")
  | invalidInteger        -- "invalid integer"
  | underflow             -- "underflow"
  | overflow              -- "overflow"
  | outOfRange            -- "out of range"   (strtod ERANGE)
  | invalidDouble         -- "invalid double"
  deriving DecidableEq, Repr

/-- a parsed double: exact value of the decimal/hexadecimal constant (sign applied), or ±inf, or nan -/
inductive DVal where
  | fin (v : Rat)
  | inf (neg : Bool)
  | nan
  deriving Repr

inductive Val where
  | b (v : Bool)
  | i (v : Int)
  | d (v : DVal)
  | s (v : String)
  deriving Repr

def lowerS (s : List Char) : List Char := s.map lower

/-- `parse_bool`: `strcasecmp` against yes/on/true/1 then no/off/false/0 -/
def parseBool (s : List Char) : Except PErr Bool :=
  let l := lowerS s
  if l = "yes".toList ∨ l = "on".toList ∨ l = "true".toList ∨ l = "1".toList then .ok true
  else if l = "no".toList ∨ l = "off".toList ∨ l = "false".toList ∨ l = "0".toList then .ok false
  else .error .notBoolean

def digitOfBase (base : Nat) (c : Char) : Option Nat :=
  match hexVal c with
  | some v => if v < base then some v else none
  | none => none

def natOfBase (base : Nat) (ds : List Char) : Nat :=
  ds.foldl (fun a c => a * base + (digitOfBase base c).getD 0) 0

/-- result of `strtol(value, &end, 0)`: `none` = no conversion (`end == value`); otherwise the mathematical value
(before clamping to `long`) and the rest -/
def strtol0 (s : List Char) : Option (Int × List Char) :=
  let (neg, s2) := takeSign (s.dropWhile isSpace)
  -- base detection: "0x"/"0X" followed by a hexadecimal digit → 16; leading "0" → 8; otherwise 10
  let (base, body) : Nat × List Char :=
    match s2 with
    | c :: x :: h :: t =>
      if c == '0' && lower x == 'x' && isHex h then (16, h :: t)
      else if c == '0' then (8, s2) else (10, s2)
    | c :: _ => if c == '0' then (8, s2) else (10, s2)
    | [] => (10, s2)
  let (ds, r) := spanP (fun c => (digitOfBase base c).isSome) body
  if ds.isEmpty then none
  else
    let m : Int := natOfBase base ds
    some (if neg then -m else m, r)

/-- `parse_long`: ERANGE first (`underflow` when clamped to LONG_MIN, else `overflow`), then full consumption -/
def parseLong (s : List Char) : Except PErr Int :=
  match strtol0 s with
  | none => .error .invalidInteger                          -- end == value
  | some (v, r) =>
    if v < -9223372036854775808 then .error .underflow      -- errno == ERANGE, res == LONG_MIN
    else if v > 9223372036854775807 then .error .overflow
    else if r ≠ [] then .error .invalidInteger              -- *end != '\0'
    else .ok v

/-- `ConfigType<int>::parse` -/
def parseInt (s : List Char) : Except PErr Int :=
  match parseLong s with
  | .error e => .error e
  | .ok v =>
    if v < -2147483648 then .error .underflow
    else if v > 2147483647 then .error .overflow
    else .ok v

/-- `parse_double` -/
def parseDouble (s : List Char) : Except PErr DVal :=
  match strtod s with
  | .erange => .error .outOfRange
  | .noconv => .error .invalidDouble                        -- end == value
  | .ok neg n r =>
    if r ≠ [] then .error .invalidDouble                    -- *end != '\0'
    else match n with
      | .fin v => .ok (.fin (if neg then -v else v))
      | .inf => .ok (.inf neg)
      | .nan => .ok .nan

/-- `ConfigType<T>::parse(value)` -/
def parse (t : Ty) (s : List Char) : Except PErr Val :=
  match t with
  | .bool => (parseBool s).map .b
  | .int => (parseInt s).map .i
  | .double => (parseDouble s).map .d
  | .string => .ok (.s (String.ofList s))

/-! ## the configuration set -/

structure Item where
  name : String
  ty : Ty
  val : Val
  isDefault : Bool
  cbRuns : Nat               -- how many times `update()` invoked the callback since the start of the observation
  deriving Repr

structure Cfg where
  items : List Item
  aliases : List (String × String)     -- alias ↦ key of the element it designates

inductive SetRes where
  | ok
  | parseError (e : PErr)              -- std::range_error from the parser: nothing was changed
  | unknownName                        -- std::out_of_range("Bad config key: …")
  deriving DecidableEq, Repr

/-- `Config::get_dict_element`: the options first, then the aliases -/
def resolve (c : Cfg) (name : String) : Option String :=
  if c.items.any (fun it => it.name == name) then some name
  else match c.aliases.lookup name with
    | some real => if c.items.any (fun it => it.name == real) then some real else none
    | none => none

def updateItem (items : List Item) (name : String) (f : Item → Item) : List Item :=
  items.map (fun it => if it.name == name then f it else it)

def findItem (c : Cfg) (name : String) : Option Item :=
  match resolve c name with
  | none => none
  | some real => c.items.find? (fun it => it.name == real)

/-- effect of an accepted `set_string_value` on the element: `content = v; unset_default(); update()` -/
def applySet (v : Val) (it : Item) : Item := { it with val := v, isDefault := false, cbRuns := it.cbRuns + 1 }

/-- `set_as_string(name, value)` = `(*simgrid_config)[name].set_string_value(value)`:
`content = parse(value); unset_default(); update();` -/
def setAsString (c : Cfg) (name : String) (value : List Char) : SetRes × Cfg :=
  match findItem c name with
  | none => (.unknownName, c)
  | some it =>
    match parse it.ty value with
    | .error e => (.parseError e, c)
    | .ok v =>
      (.ok, { c with items := updateItem c.items it.name (applySet v) })

/-- `get_value<T>(name)` -/
def getValue (c : Cfg) (name : String) : Option Val := (findItem c name).map (·.val)

/-- what `set_parse("name:value")` does with one well-formed token (the text before the first ':' is the name) -/
def splitNameValue (tok : List Char) : Option (List Char × List Char) :=
  match tok.span (· ≠ ':') with
  | (_, []) => none                                         -- xbt_assert: "badly formatted"
  | (n, _ :: v) => some (n, v)

end SgVerif.C48
