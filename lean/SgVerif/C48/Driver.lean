import SgVerif.C48.Model
import SgVerif.C48.Gen
import SgVerif.Common.Proto
open SgVerif.Proto
namespace SgVerif.C48
open SgVerif.Xbt

def unhex (h : String) : Option (List Char) :=
  if h == "-" then some [] else
  let rec go : List Char → List Char → Option (List Char)
    | [], acc => some acc.reverse
    | [_], _ => none
    | a :: b :: t, acc =>
      match hexVal a, hexVal b with
      | some x, some y => go t (Char.ofNat (x * 16 + y) :: acc)
      | _, _ => none
  go h.toList []

def parseRat (s : String) : Option Rat :=
  match s.splitOn "/" with
  | [n, d] => match n.toInt?, d.toNat? with
    | some n, some d => if d = 0 then none else some ((n : Rat) / (d : Rat))
    | _, _ => none
  | [n] => n.toInt?.map (fun n => (n : Rat))
  | _ => none

def ratAbs (x : Rat) : Rat := if x < 0 then -x else x

/-- the initial configuration: the generated items (values irrelevant: every query starts from a fresh process) -/
def cfg0 : Cfg :=
  { items := Gen.items.map (fun d => ⟨d.name, d.ty, .s d.dflt, true, 0⟩), aliases := Gen.aliases }

def errMsg : PErr → String
  | .notBoolean => "not a boolean"
  | .invalidInteger => "invalid integer"
  | .underflow => "underflow"
  | .overflow => "overflow"
  | .outOfRange => "out of range"
  | .invalidDouble => "invalid double"

/-- does the read-back text `rb` (decoded) denote the stored value `v`?  doubles: the library stores the correctly
rounded double of the exact constant (half an ulp). -/
def sameVal (v : Val) (rb : String) : Bool :=
  match v with
  | .b x => rb == (if x then "1" else "0")
  | .i x => rb == toString x
  | .s x => rb == x
  | .d (.inf neg) => rb == (if neg then "-inf" else "inf")
  | .d .nan => rb == "nan" || rb == "-nan"
  | .d (.fin x) =>
    match parseRat rb with
    | some y => decide (ratAbs (y - x) ≤ ratAbs x / two 53 + (if ratAbs x < 1 / two 1000 then 1 / two 1075 else 0))
    | none => false

def judge (q a : List String) : Verdict :=
  match q with
  | [_, api, hn, hv, cls] =>
    match unhex hn, unhex hv with
    | some n0, some v0 =>
      -- set_parse / Engine::set_config split "name:value" at the first ':'
      let nv : Option (List Char × List Char) :=
        -- "typ": the typed API simgrid::config::set_value<T>(name, v) (what Engine::set_config(name, T) calls): same store
        -- and default-flag semantics as set_as_string on the canonical text of the value
        if api == "str" || api == "typ" then some (n0, v0) else splitNameValue (n0 ++ ':' :: v0)
      match nv with
      | none => .bad
      | some (n, v) =>
        let (r, c') := setAsString cfg0 (String.ofList n) v
        let rejectedByCallback : Bool := match a with
          | ["abort"] => true
          | ["exit", _] => true
          | ["crash", _] => true                                       -- killed (time limit of the child, or a signal)
          | ["range", m] => m == "696e76616c69642076616c75652e"      -- "invalid value."
          | ["other", _] => true                                       -- another exception thrown by the callback
          | _ => false
        match r with
        | .unknownName =>
          if a == ["unknown"] then .ok else .monfail s!"unknown name accepted or misreported: {a}"
        | .parseError e =>
          match a with
          | "ok" :: _ => .monfail s!"unparsable value accepted (the type's parser says: {errMsg e})"
          | ["range", m] =>
            if (unhex m).map String.ofList == some (errMsg e) then .ok else .disagree s!"range {errMsg e}"
          | _ => .disagree s!"range {errMsg e}"
        | .ok =>
          match a, getValue c' (String.ofList n) with
          | ["ok", _, hrb, isdef, realeq], some val =>
            match unhex hrb with
            | none => .bad
            | some rb =>
              if !sameVal val (String.ofList rb) then .monfail s!"stored value {String.ofList rb} is not the parsed value {repr val}"
              else if isdef != "0" then .monfail "is_default still true after a set"
              else if realeq != "1" then .monfail "alias and current name read different values"
              else .ok
          | _, _ =>
            if cls == "validated" && rejectedByCallback then .ok
            else .disagree "ok"
    | _, _ => .bad
  | _ => .bad

end SgVerif.C48

def main : IO Unit := SgVerif.Proto.run SgVerif.C48.judge
