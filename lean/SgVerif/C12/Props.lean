import SgVerif.TimeCore.Exact
/-
C12 — Timed waits are exact.  Property theorems (nothing else here).
Model: SgVerif/TimeCore/Model.lean (ActivityImpl::wait_for / wait_any_for / test / cancel, Timer, EngineImpl::solve).

Full statement `wait_for_exact`: *wait_for(tau) called at t0 on an exec, comm, I/O or mess raises a timeout at exactly
t0+tau iff the activity has not completed by t0+tau; a completion at the deadline counts as completed.*
It is proved as its components, each for EVERY kernel state / every run:
  deadline set at exactly t0+tau, once         wait_for_sets_deadline, wait_without_timeout_no_timer
  the timer never fires early                  timeout_never_early            (all programs, ties, fuel)
  the clock never jumps over the deadline      clock_never_skips_deadline     (any state)
  at the deadline: completed => no timeout     completion_at_deadline_counts
  at the deadline: not completed => timeout    timeout_when_not_completed
The gluing invariant over runs (the actor is registered nowhere else, the timer and `timeout_cb_` point to each
other, no pending timer is in the past, callbacks run at exactly their date) is proved in the second pass:
`wait_for_exact`, `wait_any_for_spec`, `timeout_exact`, `no_stale_timeout` at the end of this file.
"completed by the deadline" is the kernel's notion: the activity's action is FINISHED when `Timer::execute_all` runs
(`update_actions_state` runs before).  A message whose put is executed by an actor woken at the deadline's date is
matched in a later scheduling round of that date, i.e. after the timer: the wait times out (corpus case).
-/
namespace SgVerif.C12
open SgVerif.TimeCore

/-- **wait_for_exact / the deadline**: `wait_for(tau)`, `tau ≥ 0`, on an unfinished activity registers the simcall once
and sets ONE timer at exactly `now + tau`. -/
theorem wait_for_sets_deadline (now : Rat) (k : K) (a i : Nat) (tau : Rat)
    (ha : a < k.actors.length) (hi : i < k.impls.length)
    (hst : (k.impl i).st = .waiting ∨ (k.impl i).st = .running) (htau : 0 ≤ tau) :
    let k' := k.handle now a (.waitFor i tau)
    k'.timers = k.timers ++ [{ id := k.nextT, date := now + tau, cb := .wto a i }] ∧
    (k'.actor a).tcb = some k.nextT ∧
    (k'.impl i).simcalls = (k.impl i).simcalls ++ [a] ∧
    (k'.actor a).waiting = (k.actor a).waiting ++ [i] ∧
    k'.toRun = k.toRun ∧ k'.heap = k.heap := handle_waitFor_sets_deadline now k a i tau ha hi hst htau

theorem wait_without_timeout_no_timer (now : Rat) (k : K) (a i : Nat) (tau : Rat) (hi : i < k.impls.length)
    (hst : (k.impl i).st = .waiting ∨ (k.impl i).st = .running) (htau : tau < 0) :
    (k.handle now a (.waitFor i tau)).timers = k.timers := handle_wait_no_timer now k a i tau hi hst htau

/-- the timeout of a wait (wait_for, wait_any_for) never fires before its date: all programs, tie resolutions, fuel -/
theorem timeout_never_early (progs : List (List Op)) (ties : List Nat) (fuel : Nat) :
    ∀ x ∈ (run fuel (initSt progs ties)).fired, x.2.date ≤ x.1 :=
  run_firedOnTime fuel _ (by simp [FiredOnTime, initSt])

/-- … and the clock never jumps over it: from any state, one maestro iteration stops at the earliest pending timer -/
theorem clock_never_skips_deadline (s : St) (t : Timer) (ht : t ∈ s.k.timers) (hf : s.now ≤ t.date) :
    (outer s).now ≤ t.date := outer_now_le_timer s t ht hf

/-- **completion_at_deadline_counts**: the callback's FINISHED/FAILED test.  When the timer fires and the action of the
activity has finished — in particular at this very date — nothing happens: no timeout, the actor stays registered and
is answered normally by `handle_ended_actions` right after the timers. -/
theorem completion_at_deadline_counts (k : K) (id : Nat) (date : Rat) (a i : Nat)
    (hfin : (k.impl i).act = .finished ∨ (k.impl i).act = .failed) :
    (k.fire { id := id, date := date, cb := .wto a i }).toRun = k.toRun ∧
    (k.fire { id := id, date := date, cb := .wto a i }).impls = k.impls ∧
    (k.fire { id := id, date := date, cb := .wto a i }).bad = k.bad := fire_wto_finished k id date a i hfin

/-- **timeout_when_not_completed**: otherwise the wait times out now: unregistered, result "timeout", scheduled. -/
theorem timeout_when_not_completed (k : K) (id : Nat) (date : Rat) (a i : Nat) (ha : a < k.actors.length)
    (hi : i < k.impls.length)
    (hrun : (k.impl i).act ≠ .finished ∧ (k.impl i).act ≠ .failed) (hb : (k.actor a).blocked = true) :
    let k' := k.fire { id := id, date := date, cb := .wto a i }
    k'.toRun = k.toRun ++ [a] ∧ (k'.actor a).res = .timeout ∧ (k'.actor a).blocked = false ∧
    (k'.impl i).simcalls = (k.impl i).simcalls.erase a ∧ (k'.actor a).waiting = (k.actor a).waiting.erase i ∧
    (k'.actor a).tcb = none ∧ k'.bad = k.bad := fire_wto_timeout k id date a i ha hi hrun hb

/-- **wait_for_or_cancel_cancels**: the `cancel()` made after the timeout removes the action from its heap at once (it
never completes; the private resource is free for the next activity — the harness re-uses it), queues it as failed
and the activity becomes CANCELED. -/
theorem wait_for_or_cancel_cancels (k : K) (i : Nat) (hi : i < k.impls.length)
    (hk : (k.impl i).kind = .exec ∨ (k.impl i).kind = .io) (hact : (k.impl i).act = .started) :
    let k' := k.cancel i
    (∀ e ∈ k'.heap, e.impl ≠ i) ∧ i ∈ k'.failedQ ∧ (k'.impl i).st = .canceled ∧ (k'.impl i).act = .failed ∧
    k'.toRun = k.toRun ∧ k'.timers = k.timers := cancel_running k i hi hk hact

/-- **wait_any_for_spec / at the deadline**: the timer callback of `wait_any_for` has no "finished right on time"
test: at the deadline the actor is answered with the timeout whatever the state of the activities.  So an activity
that completes exactly AT the deadline is not returned (it is then simply finished: a later `test` is true) — which the
property allows: it demands the activities "completed BEFORE the deadline", and otherwise a return "at the deadline".
Those, completed before the deadline, are returned when they complete (`timeout_never_early`: the timer has not
fired yet; `K.finish` answers the registered actor with the rank). -/
theorem wait_any_for_timeout_at_deadline (k : K) (id : Nat) (date : Rat) (a : Nat) (is : List Nat)
    (ha : a < k.actors.length) (hb : (k.actor a).blocked = true) :
    let k' := k.fire { id := id, date := date, cb := .wany a is }
    k'.toRun = k.toRun ++ [a] ∧ (k'.actor a).res = .timeout ∧ (k'.actor a).blocked = false ∧ k'.bad = k.bad :=
  fire_wany_timeout k id date a is ha hb

/-! ## Run-level theorems (second pass)

`run fuel (initSt progs ties)` ranges over all programs, tie resolutions and fuels.  The two invariants used are the
date invariants (`TimeCore/Dates.lean`: no pending timer in the past, every callback executed at exactly its date) and
the registration invariant (`TimeCore/Reg.lean`: no stale simcall registration; timeout timers and
`simcall_.timeout_cb_` point to each other). -/

/-- the timeout of a wait fires at EXACTLY its date (never early, never late): every run -/
theorem timeout_exact (progs : List (List Op)) (ties : List Nat) (fuel : Nat) :
    ∀ x ∈ (run fuel (initSt progs ties)).fired, x.1 = x.2.date :=
  (run_sinv fuel _ (initSt_sinv progs ties)).fired

/-- **wait_for_exact** (run level).  In EVERY reachable state, for every pending timeout timer `t` of a `wait_for`
made by a non-dying actor `a` on activity `i` (the timer was created by `wait_for_sets_deadline` with date exactly
`t0 + tau`, and `timeout_exact`: it is executed at exactly that date):
* the deadline has not passed; `a` is blocked in that simcall, registered on exactly `[i]` — once — and its
  `timeout_cb_` is this timer (so the wait can only end by the completion of `i`, by this timer, or by a kill);
* when `Timer::execute_all` pops it: if the action of `i` has FINISHED or FAILED — a completion at the deadline's
  date counts, `update_actions_state` ran before — NO timeout is raised, `a` stays blocked and registered on `[i]` and
  is answered normally by `handle_ended_actions`; otherwise the wait times out NOW: result `timeout`, `a` scheduled,
  registered nowhere, no timer left.  The invariant still holds afterwards. -/
theorem wait_for_exact (progs : List (List Op)) (ties : List Nat) (fuel : Nat) (j : Nat) (t : Timer) (a i : Nat)
    (ht : (run fuel (initSt progs ties)).k.timers[j]? = some t) (hcb : t.cb = .wto a i)
    (hwd : ((run fuel (initSt progs ties)).k.actor a).wannadie = false) :
    let s := run fuel (initSt progs ties)
    let k' := ({ s.k with timers := removeNth s.k.timers j } : K).fire t
    (s.now ≤ t.date ∧ (s.k.actor a).blocked = true ∧ (s.k.actor a).waiting = [i] ∧
      (s.k.actor a).tcb = some t.id ∧ (s.k.impl i).simcalls.count a = 1) ∧
    (((s.k.impl i).act = .finished ∨ (s.k.impl i).act = .failed) →
        k'.toRun = s.k.toRun ∧ (k'.actor a).blocked = true ∧ (k'.actor a).waiting = [i] ∧
        (k'.actor a).res = (s.k.actor a).res ∧ (k'.actor a).tcb = none) ∧
    (((s.k.impl i).act ≠ .finished ∧ (s.k.impl i).act ≠ .failed) →
        k'.toRun = s.k.toRun ++ [a] ∧ (k'.actor a).res = .timeout ∧ (k'.actor a).blocked = false ∧
        (k'.actor a).waiting = [] ∧ a ∉ (k'.impl i).simcalls ∧ (k'.actor a).tcb = none) ∧
    RegInv k' := by
  obtain ⟨h, d⟩ := reachable_inv progs ties fuel
  obtain ⟨p1, p2, _, p4, p5, p6, _, _⟩ := wto_timer_spec h d t a i (List.mem_of_getElem? ht) hcb hwd
  obtain ⟨q1, q2, q3⟩ := wto_fire_spec h d j t a i ht hcb hwd
  exact ⟨⟨p1, p2, p4, p5, p6⟩, q2, q3, q1⟩

/-- **wait_any_for_spec** (run level).  In every reachable state, for every pending timeout timer of a
`wait_any_for` over `is` made by a non-dying actor `a`: the deadline has not passed, `a` is blocked in that simcall
(`anyList = is`), registered on a sub-multiset of `is` (the activities registered before a finished one was found —
all of them if none was), and when the timer is executed — at exactly the deadline, `timeout_exact` — `a` is answered
with the timeout, whatever the state of the activities (`wait_any_for_timeout_at_deadline`), and is then registered
nowhere.  An activity of the set that completes BEFORE the deadline answers `a` when it completes
(`K.finish` → `unregister_first_simcall`, which removes this timer: `no_stale_timeout` below). -/
theorem wait_any_for_spec (progs : List (List Op)) (ties : List Nat) (fuel : Nat) (j : Nat) (t : Timer) (a : Nat)
    (is : List Nat) (ht : (run fuel (initSt progs ties)).k.timers[j]? = some t) (hcb : t.cb = .wany a is)
    (hwd : ((run fuel (initSt progs ties)).k.actor a).wannadie = false) :
    let s := run fuel (initSt progs ties)
    let k' := ({ s.k with timers := removeNth s.k.timers j } : K).fire t
    (s.now ≤ t.date ∧ (s.k.actor a).blocked = true ∧ (s.k.actor a).anyList = is ∧
      (∀ i, (s.k.actor a).waiting.count i ≤ is.count i) ∧ (s.k.actor a).tcb = some t.id) ∧
    k'.toRun = s.k.toRun ++ [a] ∧ (k'.actor a).res = .timeout ∧ (k'.actor a).blocked = false ∧
    ((k'.actor a).wannadie = false → (k'.actor a).waiting = [] ∧ ∀ i, a ∉ (k'.impl i).simcalls) ∧ RegInv k' := by
  obtain ⟨h, d⟩ := reachable_inv progs ties fuel
  obtain ⟨p1, p2, _, p4, p5, p6, _⟩ := wany_timer_spec h d t a is (List.mem_of_getElem? ht) hcb hwd
  obtain ⟨q1, q2, q3, q4, q5⟩ := wany_fire_spec h d j t a is ht hcb hwd
  exact ⟨⟨p1, p2, p4, p5, p6⟩, q2, q3, q4, q5, q1⟩

/-- **no_stale_timeout** (run level): an actor that is not blocked in a handled simcall has no timeout timer pending —
a wait that ended by completion removed its timer (`unregister_first_simcall`), so no timeout can fire later on
another simcall of the same actor. -/
theorem no_stale_timeout (progs : List (List Op)) (ties : List Nat) (fuel : Nat) (a : Nat)
    (hwd : ((run fuel (initSt progs ties)).k.actor a).wannadie = false)
    (hid : ((run fuel (initSt progs ties)).k.actor a).idle = true) :
    ((run fuel (initSt progs ties)).k.actor a).tcb = none ∧
    ∀ t ∈ (run fuel (initSt progs ties)).k.timers, cbActor t.cb ≠ some a :=
  let r := (reachable_registration progs ties fuel a hwd).2.1 hid
  ⟨r.2.1, r.2.2⟩

/-- the deadline of a pending timeout is never passed: every run -/
theorem deadline_never_passed (progs : List (List Op)) (ties : List Nat) (fuel : Nat) :
    ∀ t ∈ (run fuel (initSt progs ties)).k.timers, (run fuel (initSt progs ties)).now ≤ t.date :=
  (run_sinv fuel _ (initSt_sinv progs ties)).d.tim

/-! non-vacuity -/

/-- the fixed `wait_for` on a waiting message: one timer, the actor registered once; after its firing nothing is left
(the old double registration leaves a stale registration: `wait_for_double_registration_regression`) -/
example : kNew.timers = [{ id := 0, date := 0 + 0, cb := .wto 0 0 }] ∧ (kNew.actor 0).wannadie = false := by
  simp [kNew, kReg0, K.handle, K.register, K.setImpl, K.setActor, K.actor, K.impl, upd, K.timerSet]

/-- a state satisfying the registration invariant with a pending `wait_for` timer of a non-dying actor; popping and
firing it keeps the invariant (`fire_reg`) -/
example : RegInv kNew ∧ kNew.timers[0]? = some { id := 0, date := 0 + 0, cb := .wto 0 0 } ∧
    (kNew.actor 0).wannadie = false ∧ RegInv kNewFired :=
  ⟨kNew_reg, kNew_shape.2.2.2, kNew_shape.2.2.1, fire_reg kNew 0 _ kNew_reg kNew_shape.2.2.2⟩

example : (kNewFired.actor 0).waiting = [] ∧ ¬ RegInv kOldFired :=
  ⟨kNewFired_clean.1, wait_for_double_registration_regression⟩

/-- a timer whose date is the clock is executed and recorded: the `fired` trace is not vacuous -/
example (s : St) (t : Timer) (h : s.k.timers = [t]) (hd : t.date = s.now) :
    (execAll 1 s false).1.fired = s.fired ++ [(s.now, t)] := by
  have : ¬ (s.now < s.now) := Rat.lt_irrefl
  simp [execAll, h, hd, minDate, pick, List.range, List.range.loop, this]

example : ((run 0 (initSt [[.waitFor 0 1]] [])).k.actor 0).wannadie = false ∧
    ((run 0 (initSt [[.waitFor 0 1]] [])).k.actor 0).idle = true := by
  simp [run, initSt, K.actor, Actor.idle]


def kEx : K := { impls := [{ kind := .exec, st := .running, act := .started, simcalls := [0] }],
                 actors := [{ prog := [], blocked := true, waiting := [0] }] }

example : 0 < kEx.actors.length ∧ 0 < kEx.impls.length ∧ (kEx.impl 0).st = .running ∧ (kEx.actor 0).blocked = true ∧
    ((kEx.impl 0).act ≠ .finished ∧ (kEx.impl 0).act ≠ .failed) ∧ (kEx.impl 0).kind = .exec ∧
    (kEx.impl 0).act = .started := by decide

example : ((kEx.setImpl 0 (fun x => { x with act := .finished })).impl 0).act = .finished := by decide

end SgVerif.C12
