import SgVerif.TimeCore.Lemmas
/-
C12 — Timed waits are exact.  Property theorems (nothing else here).
-/
namespace SgVerif.C12
open SgVerif.TimeCore

/-- the timeout of a wait never fires before its date -/
theorem timeout_never_early (progs : List (List Op)) (ties : List Nat) (fuel : Nat) :
    ∀ x ∈ (run fuel (initSt progs ties)).fired, x.2.date ≤ x.1 :=
  run_firedOnTime fuel _ (by simp [FiredOnTime, initSt])

end SgVerif.C12
