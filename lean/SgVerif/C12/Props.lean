import SgVerif.TimeCore.Waits
/-
C12 — Timed waits are exact.  Property theorems (nothing else here).
Model: SgVerif/TimeCore/Model.lean (ActivityImpl::wait_for / wait_any_for / test / cancel, Timer, EngineImpl::solve).

Full statement `wait_for_exact`: *wait_for(tau) called at t0 on an exec, comm, I/O or mess raises a timeout at exactly
t0+tau iff the activity has not completed by t0+tau; a completion at the deadline counts as completed.*
It is proved as its components, each for EVERY kernel state / every run:
  deadline set at exactly t0+tau, once         wait_for_sets_deadline, wait_without_timeout_no_timer
  the timer never fires early                  timeout_never_early            (all programs, ties, fuel)
  the clock never jumps over the deadline      clock_never_skips_deadline     (any state)
  at the deadline: completed => no timeout     completion_at_deadline_counts
  at the deadline: not completed => timeout    timeout_when_not_completed
The gluing invariant over runs (the timer stays pending until it fires or the activity finishes; the actor is
registered nowhere else) is NOT proved in Lean: it is what the model replay and the monitor check on every program.
"completed by the deadline" is the kernel's notion: the activity's action is FINISHED when `Timer::execute_all` runs
(`update_actions_state` runs before).  A message whose put is executed by an actor woken at the deadline's date is
matched in a later scheduling round of that date, i.e. after the timer: the wait times out (corpus case).
-/
namespace SgVerif.C12
open SgVerif.TimeCore

/-- **wait_for_exact / the deadline**: `wait_for(tau)`, `tau ≥ 0`, on an unfinished activity registers the simcall once
and sets ONE timer at exactly `now + tau`. -/
theorem wait_for_sets_deadline (now : Rat) (k : K) (a i : Nat) (tau : Rat)
    (ha : a < k.actors.length) (hi : i < k.impls.length)
    (hst : (k.impl i).st = .waiting ∨ (k.impl i).st = .running) (htau : 0 ≤ tau) :
    let k' := k.handle now a (.waitFor i tau)
    k'.timers = k.timers ++ [{ id := k.nextT, date := now + tau, cb := .wto a i }] ∧
    (k'.actor a).tcb = some k.nextT ∧
    (k'.impl i).simcalls = (k.impl i).simcalls ++ [a] ∧
    (k'.actor a).waiting = (k.actor a).waiting ++ [i] ∧
    k'.toRun = k.toRun ∧ k'.heap = k.heap := handle_waitFor_sets_deadline now k a i tau ha hi hst htau

theorem wait_without_timeout_no_timer (now : Rat) (k : K) (a i : Nat) (tau : Rat) (hi : i < k.impls.length)
    (hst : (k.impl i).st = .waiting ∨ (k.impl i).st = .running) (htau : tau < 0) :
    (k.handle now a (.waitFor i tau)).timers = k.timers := handle_wait_no_timer now k a i tau hi hst htau

/-- the timeout of a wait (wait_for, wait_any_for) never fires before its date: all programs, tie resolutions, fuel -/
theorem timeout_never_early (progs : List (List Op)) (ties : List Nat) (fuel : Nat) :
    ∀ x ∈ (run fuel (initSt progs ties)).fired, x.2.date ≤ x.1 :=
  run_firedOnTime fuel _ (by simp [FiredOnTime, initSt])

/-- … and the clock never jumps over it: from any state, one maestro iteration stops at the earliest pending timer -/
theorem clock_never_skips_deadline (s : St) (t : Timer) (ht : t ∈ s.k.timers) (hf : s.now ≤ t.date) :
    (outer s).now ≤ t.date := outer_now_le_timer s t ht hf

/-- **completion_at_deadline_counts**: the callback's FINISHED/FAILED test.  When the timer fires and the action of the
activity has finished — in particular at this very date — nothing happens: no timeout, the actor stays registered and
is answered normally by `handle_ended_actions` right after the timers. -/
theorem completion_at_deadline_counts (k : K) (id : Nat) (date : Rat) (a i : Nat)
    (hfin : (k.impl i).act = .finished ∨ (k.impl i).act = .failed) :
    (k.fire { id := id, date := date, cb := .wto a i }).toRun = k.toRun ∧
    (k.fire { id := id, date := date, cb := .wto a i }).impls = k.impls ∧
    (k.fire { id := id, date := date, cb := .wto a i }).bad = k.bad := fire_wto_finished k id date a i hfin

/-- **timeout_when_not_completed**: otherwise the wait times out now: unregistered, result "timeout", scheduled. -/
theorem timeout_when_not_completed (k : K) (id : Nat) (date : Rat) (a i : Nat) (ha : a < k.actors.length)
    (hi : i < k.impls.length)
    (hrun : (k.impl i).act ≠ .finished ∧ (k.impl i).act ≠ .failed) (hb : (k.actor a).blocked = true) :
    let k' := k.fire { id := id, date := date, cb := .wto a i }
    k'.toRun = k.toRun ++ [a] ∧ (k'.actor a).res = .timeout ∧ (k'.actor a).blocked = false ∧
    (k'.impl i).simcalls = (k.impl i).simcalls.erase a ∧ (k'.actor a).waiting = (k.actor a).waiting.erase i ∧
    (k'.actor a).tcb = none ∧ k'.bad = k.bad := fire_wto_timeout k id date a i ha hi hrun hb

/-- **wait_for_or_cancel_cancels**: the `cancel()` made after the timeout removes the action from its heap at once (it
never completes; the private resource is free for the next activity — the harness re-uses it), queues it as failed
and the activity becomes CANCELED. -/
theorem wait_for_or_cancel_cancels (k : K) (i : Nat) (hi : i < k.impls.length)
    (hk : (k.impl i).kind = .exec ∨ (k.impl i).kind = .io) (hact : (k.impl i).act = .started) :
    let k' := k.cancel i
    (∀ e ∈ k'.heap, e.impl ≠ i) ∧ i ∈ k'.failedQ ∧ (k'.impl i).st = .canceled ∧ (k'.impl i).act = .failed ∧
    k'.toRun = k.toRun ∧ k'.timers = k.timers := cancel_running k i hi hk hact

/-- **wait_any_for_spec / at the deadline**: the timer callback of `wait_any_for` has no "finished right on time"
test: at the deadline the actor is answered with the timeout whatever the state of the activities.  So an activity
that completes exactly AT the deadline is not returned (it is then simply finished: a later `test` is true) — which the
property allows: it demands the activities "completed BEFORE the deadline", and otherwise a return "at the deadline".
Those, completed before the deadline, are returned when they complete (`timeout_never_early`: the timer has not
fired yet; `K.finish` answers the registered actor with the rank). -/
theorem wait_any_for_timeout_at_deadline (k : K) (id : Nat) (date : Rat) (a : Nat) (is : List Nat)
    (ha : a < k.actors.length) (hb : (k.actor a).blocked = true) :
    let k' := k.fire { id := id, date := date, cb := .wany a is }
    k'.toRun = k.toRun ++ [a] ∧ (k'.actor a).res = .timeout ∧ (k'.actor a).blocked = false ∧ k'.bad = k.bad :=
  fire_wany_timeout k id date a is ha hb

/-! non-vacuity -/

def kEx : K := { impls := [{ kind := .exec, st := .running, act := .started, simcalls := [0] }],
                 actors := [{ prog := [], blocked := true, waiting := [0] }] }

example : 0 < kEx.actors.length ∧ 0 < kEx.impls.length ∧ (kEx.impl 0).st = .running ∧ (kEx.actor 0).blocked = true ∧
    ((kEx.impl 0).act ≠ .finished ∧ (kEx.impl 0).act ≠ .failed) ∧ (kEx.impl 0).kind = .exec ∧
    (kEx.impl 0).act = .started := by decide

example : ((kEx.setImpl 0 (fun x => { x with act := .finished })).impl 0).act = .finished := by decide

end SgVerif.C12
