import SgVerif.C19.Model
import SgVerif.Common.Proto
/-
C19 driver.  One line per generated workload, after it ran under every valid configuration:

  c19 <nacts> [ISO <cost> <start> <peak> <npieces> {<dur> <scale>}]  =>  { C <cfg> <finish_1> … <finish_nacts> }

finish = exact rational of `Activity::get_finish_time` (-1: never completed).
  * monitor = the property itself: for every activity the finish dates of all configurations agree within 1e-9 relative
    (absolute 1e-9 near 0), and it completed everywhere;
  * model agreement (ISO lines: one exec alone on its host, started at `start`, optional repeating speed profile): the Lazy
    heap date of the model (`LAction.resolve`), resp. the date of `stepThrough` on the unrolled profile, equals every
    configuration's finish date.
-/
open SgVerif.Proto
namespace SgVerif.C19
open SgVerif.C21

def parseRat (s : String) : Option Rat :=
  match s.splitOn "/" with
  | [n, d] => match n.toInt?, d.toNat? with
    | some n, some d => if d = 0 then none else some ((n : Rat) / (d : Rat))
    | _, _ => none
  | [n] => n.toInt?.map (fun n => (n : Rat))
  | _ => none

def rabs (x : Rat) : Rat := if x < 0 then -x else x
def close (x y : Rat) : Bool :=
  let m := if rabs x < rabs y then rabs y else rabs x
  -- 1e-9 relative + the `sg_precision_timing` window (1e-9 s) inside which the Lazy heap pops a completion early
  decide (rabs (x - y) ≤ (1 / 1000000000) * (if m < 1 then 1 else m) + 2 / 1000000000)

partial def parseCfgs (n : Nat) : List String → List (String × List Rat) → Option (List (String × List Rat))
  | [], acc => some acc.reverse
  | "C" :: name :: rest, acc =>
    let vals := (rest.take n).filterMap parseRat
    if vals.length = n then parseCfgs n (rest.drop n) ((name, vals) :: acc) else none
  | _, _ => none

partial def parsePieces : Nat → List String → List Piece → Option (List Piece)
  | 0, _, acc => some acc.reverse
  | n + 1, d :: s :: rest, acc =>
    match parseRat d, parseRat s with
    | some d, some s => parsePieces n rest ({ dur := d, speed := s } :: acc)
    | _, _ => none
  | _, _, _ => none

def repeatL (l : List Piece) : Nat → List Piece
  | 0 => []
  | n + 1 => l ++ repeatL l n

/-- the model's completion date of an exec alone on its host -/
def isoDate (cost start peak : Rat) (pieces : List Piece) : Option Rat :=
  if pieces.isEmpty then
    -- constant speed: date put in the heap by next_occurring_event_lazy at `start`
    let a : LAction := { cost := cost, remains := cost, start := start, lastUpdate := start }
    (a.resolve { work := 0, timing := 0 } start peak).heap
  else
    -- speed profile (started at date 0 of the profile): step through the unrolled periods
    stepThrough (repeatL (pieces.map (fun q => { q with speed := q.speed * peak })) 4096) start cost

def judge (q ans : List String) : Verdict :=
  match q with
  | "c19tie" :: n :: _ =>
    -- tie stream: an operation is dated exactly at a completion; only "everything completes everywhere" is compared
    match n.toNat? with
    | none => .bad
    | some n =>
      match parseCfgs n ans [] with
      | none => .bad
      | some cfgs =>
        match cfgs.find? (fun (_, f) => f.any (· < 0)) with
        | some (c, _) => .monfail s!"an activity never completed under {c}"
        | none => .ok
  | "c19" :: n :: rest =>
    match n.toNat? with
    | none => .bad
    | some n =>
      match parseCfgs n ans [] with
      | none => .bad
      | some [] => .ok          -- no valid configuration (recorded by the check)
      | some ((c0, f0) :: cfgs) => Id.run do
        -- monitor
        for (i, x) in (List.range n).zip f0 do
          if x < 0 then return .monfail s!"activity #{i} never completed under {c0}"
          for (c, f) in cfgs do
            let y := f.getD i (-1)
            if y < 0 then return .monfail s!"activity #{i} never completed under {c} (finishes at {x} under {c0})"
            if !close x y then return .monfail s!"activity #{i} finishes at {x} under {c0} and at {y} under {c}"
        -- model agreement
        match rest with
        | "ISO" :: cost :: start :: peak :: np :: ps =>
          match parseRat cost, parseRat start, parseRat peak, np.toNat? with
          | some cost, some start, some peak, some np =>
            match parsePieces np ps [] with
            | some pieces =>
              match isoDate cost start peak pieces with
              | some d =>
                if ((c0, f0) :: cfgs).all (fun (_, f) => close d (f.getD 0 (-1))) then return .ok
                else return .disagree s!"{d}"
              | none => return .disagree "no-date"
            | none => return .bad
          | _, _, _, _ => return .bad
        | [] => return .ok
        | _ => return .bad
  | _ => .bad

end SgVerif.C19

def main : IO Unit := SgVerif.Proto.run SgVerif.C19.judge
