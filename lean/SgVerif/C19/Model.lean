import SgVerif.C21.Model
/-
C19 — the Lazy update algorithm (heap of predicted completion dates) and the TI integration, next to the Full algorithm
of SgVerif/C21/Model.lean.  One action is followed through a history; the rates are an input (piecewise constant).

Mirrors:
  src/kernel/resource/CpuImpl.cpp           CpuAction::update_remains_lazy, CpuModel::update_actions_state_lazy
  src/kernel/resource/Action.cpp            Action::{suspend, resume, set_bound, set_sharing_penalty} (Lazy branches),
                                            ActionHeap::{update, remove}
  src/kernel/lmm/System.cpp                 update_variable_penalty (early return when the penalty is unchanged: the
                                            action does NOT enter the modified set — hence `changed` in Action::resume /
                                            set_sharing_penalty), update_variable_bound
  src/kernel/resource/Model.cpp             Model::next_occurring_event_lazy (loop body for one modified action)
  src/kernel/resource/models/cpu_ti.cpp     CpuTiProfile (time points / integral), integrate_simple_point, solve_simple
-/
namespace SgVerif.C19
open SgVerif.C21

/-- `ActionHeap::Type` -/
inductive HType where
  | latency | maxDuration | normal | unset
  deriving DecidableEq, Repr

structure LAction where
  cost : Rat
  remains : Rat
  start : Rat := 0
  maxDuration : Option Rat := none
  lastUpdate : Rat := 0
  lastValue : Rat := 0
  /-- `Action::sharing_penalty_` -/
  penalty : Rat := 1
  /-- LMM variable: penalty (0 = disabled) and value of the last solve -/
  varPenalty : Rat := 1
  varValue : Rat := 0
  suspended : Bool := false
  /-- `heap_hook_`: the date under which the action sits in the heap, if any -/
  heap : Option Rat := none
  htype : HType := .unset
  /-- the action is in the LMM modified set: the next `next_occurring_event_lazy` will recompute its date -/
  modified : Bool := true
  finished : Bool := false
  finish : Option Rat := none
  deriving Repr

namespace LAction

/-- `CpuAction::update_remains_lazy(now)` (then `set_last_value(get_rate())` with the current LMM value) -/
def updateRemainsLazy (p : Prec) (now : Rat) (a : LAction) : LAction :=
  let delta := now - a.lastUpdate
  let a := if 0 < a.remains then { a with remains := doubleUpdate p.work a.remains (a.lastValue * delta) } else a
  { a with lastUpdate := now, lastValue := if 0 < a.varPenalty then a.varValue else 0 }

/-- `System::update_variable_penalty(var, q)`: nothing happens — in particular no entry in the modified set — when the
penalty is unchanged; disabling zeroes the value -/
def lmmSetPenalty (a : LAction) (q : Rat) : LAction :=
  if q = a.varPenalty then a
  else { a with varPenalty := q, varValue := if 0 < q then a.varValue else 0, modified := decide (0 < q) }

/-- `Action::suspend()` under Lazy -/
def suspend (p : Prec) (now : Rat) (a : LAction) : LAction :=
  let b := a.lmmSetPenalty 0
  let b := { b with heap := none, htype := .unset }
  let b := if ¬ a.finished ∧ 0 < a.penalty then b.updateRemainsLazy p now else b
  { b with suspended := true }

/-- `Action::resume()` under Lazy:
```
bool changed = get_variable()->get_penalty() != get_sharing_penalty();
update_variable_penalty(get_variable(), get_sharing_penalty());  suspended_ = RUNNING;
if (changed && model_->is_update_lazy()) model_->get_action_heap().remove(this);
```
the heap entry is dropped only when the LMM system is modified (the action then enters the modified set) -/
def resume (a : LAction) : LAction :=
  let b := a.lmmSetPenalty a.penalty
  if a.penalty = a.varPenalty then { b with suspended := false }
  else { b with suspended := false, heap := none, htype := .unset }

/-- `Action::set_sharing_penalty(q)` under Lazy: idem (`changed = get_variable()->get_penalty() != sharing_penalty`) -/
def setPenalty (a : LAction) (q : Rat) : LAction :=
  let b := { a with penalty := q }.lmmSetPenalty q
  if q = a.varPenalty then b else { b with heap := none, htype := .unset }

/-- `Action::resume()` BEFORE the fix "re-setting an unchanged sharing penalty under the lazy update lost the completion
date of the action": the heap entry was dropped whether or not the LMM system was modified.  Kept for the regression
theorems `lazy_noop_*_regression`. -/
def resumePre (a : LAction) : LAction :=
  let b := a.lmmSetPenalty a.penalty
  { b with suspended := false, heap := none, htype := .unset }

/-- `Action::set_sharing_penalty(q)` BEFORE that fix -/
def setPenaltyPre (a : LAction) (q : Rat) : LAction :=
  let b := { a with penalty := q }.lmmSetPenalty q
  { b with heap := none, htype := .unset }

/-- `Action::set_bound(b)` under Lazy: `update_variable_bound` always flags the constraints as modified -/
def setBound (now : Rat) (a : LAction) : LAction :=
  let b := { a with modified := decide (0 < a.varPenalty) }
  if a.lastUpdate ≠ now then { b with heap := none, htype := .unset } else b

/-- `solve()` followed by the body of the loop of `Model::next_occurring_event_lazy(now)` for this action: only actions of
the modified set are visited; `r` is the value the solver gives to the variable. -/
def resolve (p : Prec) (now r : Rat) (a : LAction) : LAction :=
  if ¬ a.modified then a else
  let a := { a with modified := false, varValue := if 0 < a.varPenalty then r else a.varValue }
  if a.finished then a else
  if a.penalty ≤ 0 ∨ a.htype = .latency then a else
  let a := a.updateRemainsLazy p now
  let share := if 0 < a.varPenalty then a.varValue else 0
  let min : Option Rat := if 0 < share then some (now + (if 0 < a.remains then a.remains / share else 0)) else none
  match a.maxDuration, min with
  | some d, none => { a with heap := some (a.start + d), htype := .maxDuration }
  | some d, some m => if a.start + d < m then { a with heap := some (a.start + d), htype := .maxDuration }
                      else { a with heap := some m, htype := .normal }
  | none, some m => { a with heap := some m, htype := .normal }
  | none, none => a     -- DIE_IMPOSSIBLE in the code (share 0 without deadline in the modified set)

/-- `CpuModel::update_actions_state_lazy(now)` seen from this action (it is popped when its date equals `now` within
`sg_precision_timing`; with `timing = 0`: exactly) -/
def updateStateLazy (p : Prec) (now : Rat) (a : LAction) : LAction :=
  match a.heap with
  | some d => if (if d - now < 0 then now - d else d - now) < p.timing ∨ d = now
              then { a with heap := none, htype := .unset, finished := true, finish := some now, remains := 0 } else a
  | none => a

end LAction

/-! ### the piecewise-constant history of one action, seen by both algorithms -/

/-- a segment: the solver gives rate `rate` at the start of the segment (the action is in the modified set), then `dur`
seconds pass (possibly cut by other actions' events into the sub-steps `cuts`, `cuts.sum ≤ dur` — the last sub-step is the
rest) -/
structure Seg where
  rate : Rat
  dur : Rat

/-- Lazy: `resolve` at the start of each segment -/
def lazyRun (p : Prec) : List Seg → Rat → LAction → Rat × LAction
  | [], now, a => (now, a)
  | s :: ss, now, a => lazyRun p ss (now + s.dur) ((a.resolve p now s.rate) |> fun b => { b with modified := true })

/-- Full: `remains -= rate·dur` at the end of each segment (`Action.updateRemains`) -/
def fullRun (p : Prec) : List Seg → Rat → Rat → Rat × Rat
  | [], now, rem => (now, rem)
  | s :: ss, now, rem => fullRun p ss (now + s.dur) (doubleUpdate p.work rem (s.rate * s.dur))

def work : List Seg → Rat
  | [] => 0
  | s :: ss => s.rate * s.dur + work ss

/-! ### histories of user operations and solver rounds, seen by both algorithms -/

/-- user operations on a started action (simcalls issued between two engine rounds, at the current date) -/
inductive UOp where
  | suspend
  | resume
  | setPenalty (q : Rat)
  | setBound
  deriving Repr

/-- one engine round: the user operations issued at the current date; then `solve()`, in which the constraints of the action
were modified by something else when `touch` and which gives `rate` to the variable if it is enabled; then `dur` seconds
pass -/
structure Step where
  ops : List UOp
  touch : Bool
  rate : Rat
  dur : Rat

/-- the operation under Lazy -/
def LAction.apply (p : Prec) (now : Rat) (a : LAction) : UOp → LAction
  | .suspend => a.suspend p now
  | .resume => a.resume
  | .setPenalty q => a.setPenalty q
  | .setBound => a.setBound now

/-- the operation under Full (C21's model; `set_bound` changes the bound of the variable, which this model only sees
through the rates the solver gives) -/
def applyF (f : Action) : UOp → Action
  | .suspend => f.suspend
  | .resume => f.resume
  | .setPenalty q => f.setPenalty q
  | .setBound => f

/-- Lazy: the operations, then `Model::next_occurring_event_lazy(now)`.  `System::solve` puts an enabled variable in the
modified set when one of its constraints was modified (`touch`); a variable whose value changes is always in that case
(selective update, C17) -/
def lazyStep (p : Prec) (now : Rat) (a : LAction) (s : Step) : LAction :=
  let a := s.ops.foldl (LAction.apply p now) a
  let a := if 0 < a.varPenalty ∧ (s.touch = true ∨ s.rate ≠ a.varValue) then { a with modified := true } else a
  a.resolve p now s.rate

/-- Full: the operations, then `solve()` (`assignFrom`: only enabled variables get a value) -/
def fullSolve (f : Action) (s : Step) : Action :=
  let f := s.ops.foldl applyF f
  if 0 < f.varPenalty then { f with varValue := s.rate } else f

/-- … then `update_actions_state_full` after `dur`: `update_remains(get_rate() * delta)` -/
def fullStep (p : Prec) (f : Action) (s : Step) : Action :=
  (fullSolve f s).updateRemains p ((fullSolve f s).rate * s.dur)

def runOps (p : Prec) : List Step → Rat → LAction → Action → Rat × LAction × Action
  | [], now, a, f => (now, a, f)
  | s :: ss, now, a, f => runOps p ss (now + s.dur) (lazyStep p now a s) (fullStep p f s)

/-- Full's action does not complete during the history (its completion is what the theorem is about) -/
def StaysAlive (p : Prec) : List Step → Action → Prop
  | [], _ => True
  | s :: ss, f => (fullSolve f s).rate * s.dur < (fullSolve f s).remains ∧ StaysAlive p ss (fullStep p f s)

/-- priorities are positive (`Exec::update_priority(priority)` passes `1/priority`) -/
def OpOk : UOp → Prop
  | .setPenalty q => 0 < q
  | _ => True

def StepOk (s : Step) : Prop := (∀ o ∈ s.ops, OpOk o) ∧ 0 ≤ s.rate ∧ 0 ≤ s.dur

/-! ### TI: integration of a speed profile (one period) -/

/-- one piece of a profile: `dur` seconds at speed scale `speed` -/
structure Piece where
  dur : Rat
  speed : Rat

/-- `CpuTiProfile::integrate_simple_point(t)` for `t` inside the period: area under the profile on `[0, t]`
(the code looks the piece up with a binary search in `time_points_`; the linear scan finds the same piece) -/
def integral : List Piece → Rat → Rat
  | [], _ => 0
  | q :: qs, t => if t ≤ q.dur then q.speed * t else q.speed * q.dur + integral qs (t - q.dur)

/-- `CpuTiProfile::solve_simple(0, amount)`: the date at which `amount` is available — the piece is found in `integral_`,
then `time += (amount - integral_[ind]) / slope` -/
def solveSimple : List Piece → Rat → Option Rat
  | [], _ => none
  | q :: qs, amount =>
    if amount ≤ q.speed * q.dur then some (amount / q.speed)
    else (solveSimple qs (amount - q.speed * q.dur)).map (q.dur + ·)

/-- what Full/Lazy do on the same profile: the speed changes at each piece boundary (a profile event), `remains` decreases
by `speed·dur` per piece, and the action completes inside the piece where `remains/speed ≤ dur` -/
def stepThrough : List Piece → Rat → Rat → Option Rat
  | [], _, _ => none
  | q :: qs, now, rem =>
    if rem / q.speed ≤ q.dur then some (now + rem / q.speed)
    else stepThrough qs (now + q.dur) (rem - q.speed * q.dur)

end SgVerif.C19
