import SgVerif.C19.Model
/-
C19 — helper lemmas: the relation kept between the Lazy view (`LAction`) and the Full view (`C21.Action`) of one action
through user operations, solver rounds and time advances (exact arithmetic, `prec = 0`).
-/
namespace SgVerif.C19
open SgVerif.C21

def p0 : Prec := { work := 0, timing := 0 }

/-- what `get_remains()` would return now: the stored `remains` minus what the last rate consumed since `last_update` -/
def virt (a : LAction) (now : Rat) : Rat := a.remains - a.lastValue * (now - a.lastUpdate)

theorem du0 {v d : Rat} (h : d ≤ v) : doubleUpdate 0 v d = v - d := by
  unfold doubleUpdate; simp only; split <;> grind

/-- the Lazy and the Full view of the same started CPU action (no deadline, positive priority) at date `now` -/
structure Rel (now : Rat) (a : LAction) (f : Action) : Prop where
  /-- Full's `remains` is what Lazy's `get_remains()` would return -/
  rem : f.remains = virt a now
  vp : a.varPenalty = f.varPenalty
  pn : a.penalty = f.penalty
  vv : a.varValue = f.varValue
  fac : f.factor = 1
  nsl : f.susp ≠ .sleeping
  pen : 0 < a.penalty
  nf : a.finished = false
  nl : a.htype ≠ .latency
  md : a.maxDuration = none
  vpn : 0 ≤ a.varPenalty
  /-- only enabled variables are in the modified set -/
  men : a.modified = true → 0 < a.varPenalty
  /-- outside the modified set `last_value_` is the rate of the variable -/
  lv : a.modified = false → a.lastValue = (if 0 < a.varPenalty then a.varValue else 0)
  lv0 : 0 ≤ a.lastValue
  lu : a.lastUpdate ≤ now
  alive : 0 < f.remains
  dis0 : a.varPenalty = 0 → a.varValue = 0
  /-- the heap holds the date at which `remains` is exhausted at the current rate -/
  date : a.modified = false → 0 < a.varPenalty → 0 < a.lastValue →
    a.heap = some (a.lastUpdate + a.remains / a.lastValue)

theorem Rel.prod_nonneg {now : Rat} {a : LAction} {f : Action} (h : Rel now a f) :
    0 ≤ a.lastValue * (now - a.lastUpdate) :=
  Rat.mul_nonneg h.lv0 (by have := h.lu; grind)

theorem Rel.rem_pos {now : Rat} {a : LAction} {f : Action} (h : Rel now a f) : 0 < a.remains := by
  have h1 := h.prod_nonneg; have h2 := h.alive; have h3 := h.rem; unfold virt at h3; grind

theorem Rel.amount_le {now : Rat} {a : LAction} {f : Action} (h : Rel now a f) :
    a.lastValue * (now - a.lastUpdate) ≤ a.remains := by
  have h2 := h.alive; have h3 := h.rem; unfold virt at h3; grind

theorem Rel.en_or_dis {now : Rat} {a : LAction} {f : Action} (h : Rel now a f) :
    0 < a.varPenalty ∨ a.varPenalty = 0 := by
  have := h.vpn; grind

/-! ### user operations -/

theorem rel_suspend {now : Rat} {a : LAction} {f : Action} (h : Rel now a f) :
    Rel now (a.suspend p0 now) f.suspend := by
  have hrem := h.rem_pos
  have hle := h.amount_le
  have hvirt : f.remains = a.remains - a.lastValue * (now - a.lastUpdate) := h.rem
  have ⟨_, vp, pn, vv, fac, nsl, pen, nf, nl, md, vpn, men, lv, lv0, lu, alive, dis0, date⟩ := h
  rcases h.en_or_dis with hen | hdis
  · have hne : ¬ (0 : Rat) = a.varPenalty := by grind
    constructor <;>
      (try simp [LAction.suspend, LAction.lmmSetPenalty, LAction.updateRemainsLazy, Action.suspend, virt, hne, nf, pen,
        hrem, p0, du0 hle, nsl, hvirt, pn.symm, fac, md]) <;> (try assumption) <;> (try grind)
  · have hm : a.modified = false := by
      cases hmm : a.modified with
      | false => rfl
      | true => have := men hmm; grind
    have hv0 := dis0 hdis
    constructor <;>
      (try simp [LAction.suspend, LAction.lmmSetPenalty, LAction.updateRemainsLazy, Action.suspend, virt, hdis, nf, pen,
        hrem, p0, du0 hle, nsl, hvirt, pn.symm, fac, md, hm, hv0]) <;> (try assumption) <;> (try grind)

theorem rel_resume {now : Rat} {a : LAction} {f : Action} (h : Rel now a f) :
    Rel now a.resume f.resume := by
  have hvirt : f.remains = a.remains - a.lastValue * (now - a.lastUpdate) := h.rem
  have ⟨_, vp, pn, vv, fac, nsl, pen, nf, nl, md, vpn, men, lv, lv0, lu, alive, dis0, date⟩ := h
  by_cases hq : a.penalty = a.varPenalty
  · -- nothing changes in the LMM system: the heap entry is kept
    have hfv : f.penalty = f.varPenalty := by rw [← pn, ← vp]; exact hq
    have hen : 0 < a.varPenalty := by rw [← hq]; exact pen
    constructor <;>
      (try simp [LAction.resume, LAction.lmmSetPenalty, Action.resume, virt, hq, nsl, hfv]) <;>
      (try assumption) <;> (try grind)
  · constructor <;>
      (try simp [LAction.resume, LAction.lmmSetPenalty, Action.resume, virt, hq, nsl, pen]) <;>
      (try assumption) <;> (try grind)

theorem rel_setPenalty {now : Rat} {a : LAction} {f : Action} (q : Rat) (hqp : 0 < q) (h : Rel now a f) :
    Rel now (a.setPenalty q) (f.setPenalty q) := by
  have hvirt : f.remains = a.remains - a.lastValue * (now - a.lastUpdate) := h.rem
  have ⟨_, vp, pn, vv, fac, nsl, pen, nf, nl, md, vpn, men, lv, lv0, lu, alive, dis0, date⟩ := h
  by_cases hq : q = a.varPenalty
  · have hen : 0 < a.varPenalty := by rw [← hq]; exact hqp
    constructor <;>
      (try simp [LAction.setPenalty, LAction.lmmSetPenalty, Action.setPenalty, virt, hq, hen]) <;>
      (try assumption) <;> (try grind)
  · constructor <;>
      (try simp [LAction.setPenalty, LAction.lmmSetPenalty, Action.setPenalty, virt, hq, hqp]) <;>
      (try assumption) <;> (try grind)

theorem rel_setBound {now : Rat} {a : LAction} {f : Action} (h : Rel now a f) :
    Rel now (a.setBound now) f := by
  have hvirt : f.remains = a.remains - a.lastValue * (now - a.lastUpdate) := h.rem
  have ⟨_, vp, pn, vv, fac, nsl, pen, nf, nl, md, vpn, men, lv, lv0, lu, alive, dis0, date⟩ := h
  have hd : a.varPenalty = 0 → a.lastValue = 0 := by
    intro hdis
    have hm : a.modified = false := by
      cases hmm : a.modified with
      | false => rfl
      | true => have := men hmm; grind
    have := lv hm; rw [this]; simp [hdis]
  rcases h.en_or_dis with hen | hdis
  · unfold LAction.setBound
    split <;> (constructor <;> (try simp [virt, hen]) <;> (try assumption) <;> (try grind))
  · have hl0 := hd hdis
    unfold LAction.setBound
    split <;> (constructor <;> (try simp [virt, hdis, hl0]) <;> (try assumption) <;> (try grind))

theorem rel_apply {now : Rat} {a : LAction} {f : Action} (o : UOp) (ho : OpOk o) (h : Rel now a f) :
    Rel now (a.apply p0 now o) (applyF f o) := by
  cases o with
  | suspend => exact rel_suspend h
  | resume => exact rel_resume h
  | setPenalty q => exact rel_setPenalty q ho h
  | setBound => exact rel_setBound h

theorem rel_ops {now : Rat} : ∀ (ops : List UOp) (a : LAction) (f : Action), (∀ o ∈ ops, OpOk o) → Rel now a f →
    Rel now (ops.foldl (LAction.apply p0 now) a) (ops.foldl applyF f) := by
  intro ops
  induction ops with
  | nil => intro a f _ h; exact h
  | cons o os ih =>
    intro a f ho h
    simp only [List.foldl]
    exact ih _ _ (fun u hu => ho u (by simp [hu])) (rel_apply o (ho o (by simp)) h)

/-! ### solver round and time advance -/

/-- a round in which the action is in the modified set: `remains` is brought up to date, the new rate recorded and the
completion date recomputed -/
theorem rel_resolve_modified {now : Rat} {a : LAction} {f : Action} (r : Rat) (hr : 0 ≤ r) (h : Rel now a f)
    (hm : a.modified = true) :
    Rel now (a.resolve p0 now r) { f with varValue := r } ∧ (a.resolve p0 now r).modified = false := by
  have hrem := h.rem_pos
  have hle := h.amount_le
  have hvirt : f.remains = a.remains - a.lastValue * (now - a.lastUpdate) := h.rem
  have ⟨_, vp, pn, vv, fac, nsl, pen, nf, nl, md, vpn, men, lv, lv0, lu, alive, dis0, date⟩ := h
  have hen := men hm
  have hnb : ¬ (a.penalty ≤ 0 ∨ a.htype = .latency) := by
    intro hc; rcases hc with hc | hc
    · exact absurd pen (Rat.not_lt.mpr hc)
    · exact nl hc
  have hvpos : 0 < a.remains - a.lastValue * (now - a.lastUpdate) := by rw [← hvirt]; exact alive
  unfold LAction.resolve
  rw [if_neg (by simp [hm])]
  simp only [hen, if_true, nf]
  rw [if_neg (by simp), if_neg hnb]
  unfold LAction.updateRemainsLazy
  simp only [hrem, if_true, hen, md, p0, du0 hle]
  by_cases hr0 : 0 < r
  · simp only [hr0, if_true, hvpos]
    refine ⟨?_, trivial⟩
    constructor <;> (try simp [virt]) <;> (try assumption) <;> (try grind)
  · have hr00 : r = 0 := by grind
    simp only [hr0, if_false]
    refine ⟨?_, trivial⟩
    constructor <;> (try simp [virt, hr00]) <;> (try assumption) <;> (try grind)

/-- a round in which the action is not in the modified set: nothing is recomputed — the date in the heap must still be
the right one (field `date` of `Rel`) -/
theorem rel_resolve_untouched {now : Rat} {a : LAction} {f : Action} (r : Rat) (h : Rel now a f)
    (hm : a.modified = false) (hsame : 0 < a.varPenalty → r = a.varValue) :
    Rel now (a.resolve p0 now r) (if 0 < f.varPenalty then { f with varValue := r } else f) ∧
    (a.resolve p0 now r).modified = false := by
  have hid : a.resolve p0 now r = a := by unfold LAction.resolve; simp [hm]
  rw [hid]
  refine ⟨?_, hm⟩
  have hvirt : f.remains = a.remains - a.lastValue * (now - a.lastUpdate) := h.rem
  have ⟨_, vp, pn, vv, fac, nsl, pen, nf, nl, md, vpn, men, lv, lv0, lu, alive, dis0, date⟩ := h
  by_cases hen : 0 < f.varPenalty
  · have hr : r = a.varValue := hsame (by rw [vp]; exact hen)
    simp only [hen, if_true]
    constructor <;> (try simp [virt]) <;> (try assumption) <;> (try grind)
  · simp only [hen, if_false]
    exact h

/-- `solve()` + `next_occurring_event_lazy` after the user operations of the round -/
theorem rel_round {now : Rat} {a : LAction} {f : Action} (touch : Bool) (r : Rat) (hr : 0 ≤ r) (h : Rel now a f) :
    Rel now ((if 0 < a.varPenalty ∧ (touch = true ∨ r ≠ a.varValue) then { a with modified := true } else a).resolve p0 now r)
      (if 0 < f.varPenalty then { f with varValue := r } else f) ∧
    ((if 0 < a.varPenalty ∧ (touch = true ∨ r ≠ a.varValue) then { a with modified := true } else a).resolve p0 now r).modified
      = false := by
  by_cases hc : 0 < a.varPenalty ∧ (touch = true ∨ r ≠ a.varValue)
  · have hfen : 0 < f.varPenalty := by rw [← h.vp]; exact hc.1
    rw [if_pos hc, if_pos hfen]
    have h' : Rel now { a with modified := true } f := by
      have hvirt : f.remains = a.remains - a.lastValue * (now - a.lastUpdate) := h.rem
      have ⟨_, vp, pn, vv, fac, nsl, pen, nf, nl, md, vpn, men, lv, lv0, lu, alive, dis0, date⟩ := h
      constructor <;> (try simp [virt]) <;> (try assumption) <;> (try grind)
    exact rel_resolve_modified r hr h' rfl
  · rw [if_neg hc]
    cases hm : a.modified with
    | true =>
      have hfen : 0 < f.varPenalty := by rw [← h.vp]; exact h.men hm
      rw [if_pos hfen]
      exact rel_resolve_modified r hr h hm
    | false =>
      exact rel_resolve_untouched r h hm (fun hen => by
        apply Classical.byContradiction; intro hne; exact hc ⟨hen, Or.inr hne⟩)

/-- `dur` seconds pass after a round (the action is not in the modified set any more), Full's action does not complete -/
theorem rel_advance {now : Rat} {a : LAction} {f : Action} (dur : Rat) (hd : 0 ≤ dur) (h : Rel now a f)
    (hm : a.modified = false) (hal : f.rate * dur < f.remains) :
    Rel (now + dur) a (f.updateRemains p0 (f.rate * dur)) := by
  have hvirt : f.remains = a.remains - a.lastValue * (now - a.lastUpdate) := h.rem
  have ⟨_, vp, pn, vv, fac, nsl, pen, nf, nl, md, vpn, men, lv, lv0, lu, alive, dis0, date⟩ := h
  have hrate : f.rate = a.lastValue := by
    rw [lv hm]; unfold Action.rate; rw [← vp, ← vv, fac]; split <;> simp
  have hal' : a.lastValue * dur < f.remains := by rw [← hrate]; exact hal
  have hle : a.lastValue * dur ≤ f.remains := Rat.le_of_lt hal'
  constructor <;>
    (try simp [Action.updateRemains, p0, virt, hrate, du0 hle]) <;> (try assumption) <;> (try grind)

theorem rel_step {now : Rat} {a : LAction} {f : Action} (s : Step) (hs : StepOk s) (h : Rel now a f)
    (hal : (fullSolve f s).rate * s.dur < (fullSolve f s).remains) :
    Rel (now + s.dur) (lazyStep p0 now a s) (fullStep p0 f s) ∧ (lazyStep p0 now a s).modified = false := by
  have h1 := rel_ops s.ops a f hs.1 h
  have h2 := rel_round s.touch s.rate hs.2.1 h1
  unfold lazyStep fullStep
  exact ⟨rel_advance s.dur hs.2.2 h2.1 h2.2 hal, h2.2⟩

/-- through any history: the relation is kept, and after at least one round the action is out of the modified set -/
theorem rel_run : ∀ (steps : List Step) (now : Rat) (a : LAction) (f : Action), Rel now a f →
    (∀ s ∈ steps, StepOk s) → StaysAlive p0 steps f →
    Rel (runOps p0 steps now a f).1 (runOps p0 steps now a f).2.1 (runOps p0 steps now a f).2.2 ∧
    ((steps ≠ [] ∨ a.modified = false) → (runOps p0 steps now a f).2.1.modified = false) := by
  intro steps
  induction steps with
  | nil =>
    intro now a f h _ _
    simp only [runOps]
    exact ⟨h, fun hc => by rcases hc with hc | hc; exact absurd rfl hc; exact hc⟩
  | cons s ss ih =>
    intro now a f h hok hal
    simp only [runOps]
    have hs := rel_step s (hok s (by simp)) h hal.1
    have := ih (now + s.dur) _ _ hs.1 (fun u hu => hok u (by simp [hu])) hal.2
    exact ⟨this.1, fun _ => this.2 (Or.inr hs.2)⟩

/-- the date in the heap, seen from Full: the date at which Full's `remains` is exhausted at Full's rate -/
theorem rel_heap_date {now : Rat} {a : LAction} {f : Action} (h : Rel now a f) (hm : a.modified = false)
    (hr : 0 < f.rate) : a.heap = some (now + f.remains / f.rate) := by
  have hvirt : f.remains = a.remains - a.lastValue * (now - a.lastUpdate) := h.rem
  have ⟨_, vp, pn, vv, fac, nsl, pen, nf, nl, md, vpn, men, lv, lv0, lu, alive, dis0, date⟩ := h
  have hrate : f.rate = a.lastValue := by
    rw [lv hm]; unfold Action.rate; rw [← vp, ← vv, fac]; split <;> simp
  have hen : 0 < a.varPenalty := by
    unfold Action.rate at hr; rw [← vp] at hr; split at hr
    · assumption
    · exact absurd hr (by simp)
  rw [hrate] at hr
  rw [date hm hen hr, hrate, hvirt]
  congr 1
  have hne : a.lastValue ≠ 0 := by grind
  grind

end SgVerif.C19
