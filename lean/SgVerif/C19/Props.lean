import SgVerif.C19.Lemmas
import SgVerif.C21.Lemmas
/-
C19 — Update algorithms give the same timings.  Property theorems (exact arithmetic: `prec.work = 0`; the precision
clamps shift each date by less than `sg_precision_timing`, which the correspondence absorbs in its 1e-9 tolerance).

Full statement (DESIGN §8 C19):  for every history of rate changes, suspend/resume, bound and penalty changes, the
date at which the Lazy heap completes the action equals the date at which Full's `remains` reaches 0, and TI's integral
inversion gives the same date as stepping through the profile.
What is proved:
  * `lazy_eq_full_dates` (FULL for a CPU action without deadline and with positive priorities): every history of engine
    rounds, each made of user operations (suspend, resume, set_bound, set_sharing_penalty — whether or not they modify
    the LMM system), a solve that may or may not touch the action, and a time advance.  It holds on the code since the
    fix "re-setting an unchanged sharing penalty under the lazy update lost the completion date of the action";
  * `lazy_noop_penalty_regression`, `lazy_noop_resume_regression`: on the code BEFORE that fix (`setPenaltyPre`,
    `resumePre`) the statement was false for operations that do not modify the LMM system (the heap entry was dropped,
    nothing re-inserted it); `setPenalty_noop_keeps`, `resume_noop_keeps`: the fixed functions leave the state alone;
  * `lazy_remains_eq_full`, `lazy_eq_full_dates_rates`: the special case of histories of rate changes (every round touches
    the action), kept from before the fix;
  * `ti_integral_eq_partial`: inside one period of the profile (the cyclic reduction `floor(amount/total)` of
    `CpuTiTmgr::solve` is not modelled).
-/
namespace SgVerif.C19
open SgVerif.C21

/-- an action the Lazy loop handles normally: running, enabled, positive penalty, no deadline, not in latency -/
structure Live (a : LAction) : Prop where
  en : 0 < a.varPenalty
  pen : 0 < a.penalty
  nf : a.finished = false
  nl : a.htype ≠ .latency
  md : a.maxDuration = none
  mo : a.modified = true

/-- one `resolve` of a live action whose virtual remains is positive: `remains` becomes the virtual remains, the rate is
recorded, and the heap holds `now + remains/rate` -/
theorem resolve_live (a : LAction) (now r : Rat) (h : Live a) (hv : 0 < virt a now)
    (hfit : 0 ≤ a.lastValue * (now - a.lastUpdate)) :
    let b := a.resolve p0 now r
    b.remains = virt a now ∧ b.lastUpdate = now ∧ b.lastValue = r ∧ b.varPenalty = a.varPenalty ∧
    b.penalty = a.penalty ∧ b.finished = false ∧ b.maxDuration = none ∧ b.htype ≠ .latency ∧
    (0 < r → b.heap = some (now + virt a now / r)) := by
  have hrem : 0 < a.remains := by unfold virt at hv; grind
  have hle : a.lastValue * (now - a.lastUpdate) ≤ a.remains := by unfold virt at hv; grind
  unfold LAction.resolve
  rw [if_neg (by simp [h.mo])]
  simp only [h.en, if_true, h.nf]
  rw [if_neg (by simp), if_neg (by intro hc; rcases hc with hc | hc; exact absurd h.pen (Rat.not_lt.mpr hc); exact h.nl hc)]
  unfold LAction.updateRemainsLazy
  simp only [hrem, if_true, h.en, h.md, p0, du0 hle]
  have hv' : a.remains - a.lastValue * (now - a.lastUpdate) = virt a now := rfl
  by_cases hr : 0 < r
  · simp only [hr, if_true, hv']
    simp only [hv, if_true]
    simp [hv']
  · simp only [hr, if_false]
    simp [hv', h.nl]

/-- **Lazy = Full on `remains`**: through any history of rate changes during which the action stays alive, the remains
Lazy would report (`get_remains()`) equals Full's `remains`, at every segment boundary -/
theorem lazy_remains_eq_full : ∀ (segs : List Seg) (now : Rat) (a : LAction), Live a →
    (∀ s ∈ segs, 0 ≤ s.rate ∧ 0 ≤ s.dur) → 0 ≤ a.lastValue * (now - a.lastUpdate) → work segs < virt a now →
    (lazyRun p0 segs now a).1 = (fullRun p0 segs now (virt a now)).1 ∧
    virt (lazyRun p0 segs now a).2 (lazyRun p0 segs now a).1 = (fullRun p0 segs now (virt a now)).2 ∧
    (fullRun p0 segs now (virt a now)).2 = virt a now - work segs ∧ Live (lazyRun p0 segs now a).2 ∧
    0 ≤ (lazyRun p0 segs now a).2.lastValue * ((lazyRun p0 segs now a).1 - (lazyRun p0 segs now a).2.lastUpdate) := by
  intro segs
  induction segs with
  | nil =>
    intro now a hl _ hf _
    simp only [lazyRun, fullRun, work]
    exact ⟨trivial, trivial, by grind, hl, hf⟩
  | cons s ss ih =>
    intro now a hl hs hf hw
    have hs0 := hs s (by simp)
    have hwk : 0 ≤ work ss := by
      clear ih hw
      induction ss with
      | nil => simp [work]
      | cons t ts iht =>
        have ht := hs t (by simp)
        have := iht (fun u hu => hs u (by simp at hu ⊢; rcases hu with rfl | hu; exact Or.inl rfl; exact Or.inr (Or.inr hu)))
        simp only [work]; have := Rat.mul_nonneg ht.1 ht.2; grind
    have hsd := Rat.mul_nonneg hs0.1 hs0.2
    simp only [work] at hw
    have hv : 0 < virt a now := by grind
    obtain ⟨h1, h2, h3, h4, h5, h6, h7, h8, _⟩ := resolve_live a now s.rate hl hv hf
    simp only [lazyRun, fullRun, p0] at *
    generalize hb : ({ (a.resolve { work := 0, timing := 0 } now s.rate) with modified := true } : LAction) = b
    have hb1 : b.remains = virt a now := by rw [← hb]; exact h1
    have hb2 : b.lastUpdate = now := by rw [← hb]; exact h2
    have hb3 : b.lastValue = s.rate := by rw [← hb]; exact h3
    have hlb : Live b := ⟨by rw [← hb]; simp only; rw [h4]; exact hl.en, by rw [← hb]; simp only; rw [h5]; exact hl.pen,
                          by rw [← hb]; exact h6, by rw [← hb]; exact h8, by rw [← hb]; exact h7, by rw [← hb]⟩
    have hvb : virt b (now + s.dur) = virt a now - s.rate * s.dur := by
      unfold virt; rw [hb1, hb2, hb3]; unfold virt; grind
    have hfb : 0 ≤ b.lastValue * (now + s.dur - b.lastUpdate) := by rw [hb2, hb3]; grind
    have := ih (now + s.dur) b hlb (fun u hu => hs u (by simp [hu])) hfb (by rw [hvb]; grind)
    rw [hvb] at this
    rw [du0 (by grind : s.rate * s.dur ≤ virt a now)]
    refine ⟨this.1, this.2.1, ?_, this.2.2.2⟩
    rw [this.2.2.1]; simp only [work]; grind

/-- special case of `lazy_eq_full_dates` (histories of rate changes; kept from before the fix).  After any such history, when the solver gives the final
rate `r > 0`, the completion date stored in the Lazy heap is `now + R/r`, where `R` is Full's `remains` at that date; and
Full, stepping at rate `r` (with arbitrary intermediate events), has `remains > 0` strictly before that date and exactly 0
at it — so `update_actions_state_full` finishes the action at the date at which `update_actions_state_lazy` pops it. -/
theorem lazy_eq_full_dates_rates (segs : List Seg) (t0 : Rat) (a : LAction) (r : Rat) (hr : 0 < r) (hl : Live a)
    (hs : ∀ s ∈ segs, 0 ≤ s.rate ∧ 0 ≤ s.dur) (hf : 0 ≤ a.lastValue * (t0 - a.lastUpdate)) (hw : work segs < virt a t0) :
    let L := lazyRun p0 segs t0 a
    let F := fullRun p0 segs t0 (virt a t0)
    (L.2.resolve p0 L.1 r).heap = some (F.1 + F.2 / r) ∧
    doubleUpdate 0 F.2 (r * (F.2 / r)) = 0 ∧
    (∀ δ, 0 ≤ δ → δ < F.2 / r → 0 < doubleUpdate 0 F.2 (r * δ)) := by
  obtain ⟨h1, h2, h3, h4, h5⟩ := lazy_remains_eq_full segs t0 a hl hs hf hw
  simp only
  have hpos : 0 < (fullRun p0 segs t0 (virt a t0)).2 := by rw [h3]; grind
  have hv : 0 < virt (lazyRun p0 segs t0 a).2 (lazyRun p0 segs t0 a).1 := by rw [h2]; exact hpos
  have hres := (resolve_live _ _ r h4 hv h5).2.2.2.2.2.2.2.2 hr
  refine ⟨by rw [hres, h2, h1], ?_, ?_⟩
  · have : r * ((fullRun p0 segs t0 (virt a t0)).2 / r) = (fullRun p0 segs t0 (virt a t0)).2 := by
      rw [Rat.mul_comm]; exact Rat.div_mul_cancel (by grind)
    rw [this]; unfold doubleUpdate; simp only [Rat.sub_self]; split <;> rfl
  · intro δ _ hδ
    have h := (Rat.lt_div_iff hr).mp hδ
    rw [du0 (by rw [Rat.mul_comm]; exact Rat.le_of_lt h)]
    rw [Rat.mul_comm]; grind

/-! ### user operations under Lazy -/

/-- `suspend()` brings `remains` up to date before the variable is disabled: nothing is lost -/
theorem suspend_keeps_virtual (a : LAction) (now : Rat) (hl : Live a) (hv : 0 < virt a now)
    (hf : 0 ≤ a.lastValue * (now - a.lastUpdate)) :
    (a.suspend p0 now).remains = virt a now ∧ (a.suspend p0 now).lastValue = 0 ∧ (a.suspend p0 now).lastUpdate = now ∧
    (a.suspend p0 now).heap = none := by
  have hrem : 0 < a.remains := by unfold virt at hv; grind
  have hle : a.lastValue * (now - a.lastUpdate) ≤ a.remains := by unfold virt at hv; grind
  have hne : ¬ (0 : Rat) = a.varPenalty := by have := hl.en; grind
  unfold LAction.suspend LAction.lmmSetPenalty LAction.updateRemainsLazy
  simp only [hne, if_false, hl.nf, hl.pen, hrem, p0, du0 hle]
  simp [virt]

/-- a penalty change that really changes the LMM penalty puts the action in the modified set: the next round recomputes
its date (`resolve`) -/
theorem setPenalty_changed (a : LAction) (q : Rat) (hq : q ≠ a.varPenalty) (hpos : 0 < q) :
    (a.setPenalty q).modified = true ∧ (a.setPenalty q).heap = none ∧ (a.setPenalty q).varPenalty = q := by
  unfold LAction.setPenalty LAction.lmmSetPenalty
  simp [hq, hpos]

theorem resume_changed (a : LAction) (hq : a.penalty ≠ a.varPenalty) (hpos : 0 < a.penalty) :
    a.resume.modified = true ∧ a.resume.heap = none ∧ a.resume.varPenalty = a.penalty := by
  unfold LAction.resume LAction.lmmSetPenalty
  simp [hq, hpos]

theorem setBound_modified (a : LAction) (now : Rat) (h : 0 < a.varPenalty) : (a.setBound now).modified = true := by
  unfold LAction.setBound; split <;> simp [h]

/-- `set_sharing_penalty` with the penalty the variable already has leaves the whole Lazy state alone (heap entry and
`ActionHeap::Type` included): `update_variable_penalty` returns at once and `changed` is false -/
theorem setPenalty_noop_keeps (a : LAction) (hq : a.varPenalty = a.penalty) : a.setPenalty a.penalty = a := by
  cases a
  simp_all [LAction.setPenalty, LAction.lmmSetPenalty]

/-- `resume()` of an action whose variable is already enabled with its penalty (e.g. after a priority change made while
it was suspended, which re-enables the variable) only resets `suspended_` -/
theorem resume_noop_keeps (a : LAction) (hq : a.varPenalty = a.penalty) : a.resume = { a with suspended := false } := by
  unfold LAction.resume LAction.lmmSetPenalty
  simp [hq]

/-- **Regression (code before the fix).**  From any settled state (the action is not in the modified set, e.g. right after
a solve) `set_sharing_penalty` with the current penalty dropped the heap entry and left the action out of the modified
set; no later round gave it a date (`resolve` is the identity), whatever the solver computed — while Full completes it
(C21 `completion_exact`).  Witness on the library before the fix: `exec 1000 flops @100; update_priority(1)` at t=5 never
completed under cpu/optim:Lazy and completed at t=10 under Full (props/C19/corpus.txt). -/
theorem lazy_noop_penalty_regression (p : Prec) (a : LAction) (hm : a.modified = false)
    (hq : a.varPenalty = a.penalty) :
    ∀ t r, ((a.setPenaltyPre a.penalty).resolve p t r).heap = none ∧
           ((a.setPenaltyPre a.penalty).resolve p t r).modified = false ∧
           (((a.setPenaltyPre a.penalty).resolve p t r).updateStateLazy p t).finished = a.finished := by
  intro t r
  have h1 : a.setPenaltyPre a.penalty = { a with heap := none, htype := .unset } := by
    unfold LAction.setPenaltyPre LAction.lmmSetPenalty; simp [hq]
  rw [h1]
  unfold LAction.resolve
  simp [hm, LAction.updateStateLazy]

/-- same defect (before the fix) through `resume()` on an action whose variable is already enabled -/
theorem lazy_noop_resume_regression (p : Prec) (a : LAction) (hm : a.modified = false)
    (hq : a.varPenalty = a.penalty) :
    ∀ t r, (a.resumePre.resolve p t r).heap = none ∧ (a.resumePre.resolve p t r).modified = false := by
  intro t r
  have h1 : a.resumePre = { a with suspended := false, heap := none, htype := .unset } := by
    unfold LAction.resumePre LAction.lmmSetPenalty; simp [hq]
  rw [h1]
  unfold LAction.resolve
  simp [hm]

/-- **lazy_eq_full_dates** (full, CPU action without deadline, positive priorities).  Take the Lazy view `a` and the Full
view `f` of an action (`Rel`), and any history of engine rounds — user operations at the current date (suspend, resume,
set_bound, set_sharing_penalty with any positive value, including the ones that do not modify the LMM system), a solve
that touches the action or not and gives it any rate ≥ 0 (the same as before when the action is not touched), a time
advance — during which Full's action does not complete.  Then the two views still agree (`get_remains()` under Lazy =
Full's `remains`), and whenever the action progresses (`rate > 0`) the date under which it sits in the Lazy heap is
`now + R/rate` with `R` Full's `remains`: Full, stepping at that rate through arbitrary intermediate events, has
`remains > 0` strictly before that date and exactly 0 at it — `update_actions_state_full` finishes the action at the date
at which `update_actions_state_lazy` pops it. -/
theorem lazy_eq_full_dates (steps : List Step) (t0 : Rat) (a : LAction) (f : Action) (hR : Rel t0 a f)
    (hok : ∀ s ∈ steps, StepOk s) (hal : StaysAlive p0 steps f) :
    let now := (runOps p0 steps t0 a f).1
    let L := (runOps p0 steps t0 a f).2.1
    let F := (runOps p0 steps t0 a f).2.2
    F.remains = virt L now ∧
    ((steps ≠ [] ∨ a.modified = false) → 0 < F.rate →
      L.heap = some (now + F.remains / F.rate) ∧
      doubleUpdate 0 F.remains (F.rate * (F.remains / F.rate)) = 0 ∧
      (∀ δ, 0 ≤ δ → δ < F.remains / F.rate → 0 < doubleUpdate 0 F.remains (F.rate * δ))) := by
  obtain ⟨hrel, hmod⟩ := rel_run steps t0 a f hR hok hal
  simp only
  refine ⟨hrel.rem, fun hc hr => ⟨rel_heap_date hrel (hmod hc) hr, ?_, ?_⟩⟩
  · have : (runOps p0 steps t0 a f).2.2.rate *
        ((runOps p0 steps t0 a f).2.2.remains / (runOps p0 steps t0 a f).2.2.rate) =
        (runOps p0 steps t0 a f).2.2.remains := by
      rw [Rat.mul_comm]; exact Rat.div_mul_cancel (by grind)
    rw [this]; unfold doubleUpdate; simp only [Rat.sub_self]; split <;> rfl
  · intro δ _ hδ
    have h := (Rat.lt_div_iff hr).mp hδ
    rw [du0 (by rw [Rat.mul_comm]; exact Rat.le_of_lt h)]
    rw [Rat.mul_comm]; grind

/-! ### TI -/

theorem div_le_iff_pos {a s d : Rat} (hs : 0 < s) : a / s ≤ d ↔ a ≤ s * d := by
  constructor
  · intro h
    have h1 : ¬ (d < a / s) := Rat.not_lt.mpr h
    rw [Rat.lt_div_iff hs] at h1
    have := Rat.not_lt.mp h1
    rw [Rat.mul_comm]; exact this
  · intro h
    apply Rat.not_lt.mp
    rw [Rat.lt_div_iff hs]
    apply Rat.not_lt.mpr
    rw [Rat.mul_comm]; exact h

/-- **ti_integral_eq** (partial: one period).  The date TI obtains by inverting the integral of the profile
(`solve_simple`) is the date Full/Lazy reach by stepping through the pieces of the profile (a profile event at each piece
boundary), for every profile with positive speeds, every start date and every amount — including "the amount does not fit
in the period" (`none` on both sides). -/
theorem ti_integral_eq_partial : ∀ (pieces : List Piece) (now amount : Rat), (∀ q ∈ pieces, 0 < q.speed) →
    stepThrough pieces now amount = (solveSimple pieces amount).map (now + ·) := by
  intro pieces
  induction pieces with
  | nil => intro now amount _; rfl
  | cons q qs ih =>
    intro now amount hs
    have hq := hs q (by simp)
    unfold stepThrough solveSimple
    by_cases hc : amount ≤ q.speed * q.dur
    · rw [if_pos hc, if_pos ((div_le_iff_pos hq).mpr hc)]; rfl
    · rw [if_neg hc, if_neg (fun h => hc ((div_le_iff_pos hq).mp h))]
      rw [ih (now + q.dur) _ (fun u hu => hs u (by simp [hu]))]
      cases solveSimple qs (amount - q.speed * q.dur) with
      | none => rfl
      | some x => simp [Rat.add_assoc]

/-! ### non-vacuity -/

/-- hypotheses of `lazy_eq_full_dates_rates` on a non-trivial history: cost 10, rate 2 for 1 s, suspended (rate 0) for
3 s, rate 1 for 2 s — 6 units of work still to do when the final rate arrives -/
example : let a : LAction := { cost := 10, remains := 10 }
    Live a ∧ (∀ s ∈ [Seg.mk 2 1, Seg.mk 0 3, Seg.mk 1 2], 0 ≤ s.rate ∧ 0 ≤ s.dur) ∧
    0 ≤ a.lastValue * (0 - a.lastUpdate) ∧ work [Seg.mk 2 1, Seg.mk 0 3, Seg.mk 1 2] < virt a 0 := by
  refine ⟨⟨by show (0 : Rat) < 1; grind, by show (0 : Rat) < 1; grind, rfl, by decide, rfl, rfl⟩, ?_, ?_, ?_⟩
  · intro s hs; simp at hs; rcases hs with rfl | rfl | rfl <;> constructor <;> simp <;> grind
  · show (0 : Rat) ≤ 0 * (0 - 0); grind
  · show (2 : Rat) * 1 + (0 * 3 + (1 * 2 + 0)) < 10 - 0 * (0 - 0); grind

/-- hypotheses of `lazy_eq_full_dates`: a fresh exec of 10 flops (`Action` constructor on both sides) and the history
"update_priority(current priority), rate 2 for 1 s; suspend, 3 s; resume + set_bound, rate 1 for 2 s" -/
example : let a : LAction := { cost := 10, remains := 10 }
    let f : Action := { cost := 10, remains := 10 }
    let steps : List Step := [⟨[.setPenalty 1], true, 2, 1⟩, ⟨[.suspend], false, 0, 3⟩, ⟨[.resume, .setBound], false, 1, 2⟩]
    Rel 0 a f ∧ (∀ s ∈ steps, StepOk s) ∧ StaysAlive p0 steps f := by
  refine ⟨?_, ?_, ?_⟩
  · constructor <;> simp [virt] <;> grind
  · intro s hs
    simp at hs
    rcases hs with rfl | rfl | rfl <;> (refine ⟨?_, ?_, ?_⟩ <;> simp [OpOk] <;> grind)
  · simp [StaysAlive, fullStep, fullSolve, applyF, Action.setPenalty, Action.suspend, Action.resume, Action.rate,
      Action.updateRemains, p0, doubleUpdate]
    grind

/-- the witness of the fixed defect on the model: `exec 1000 flops @100; update_priority(1)` at t=5 (the solver does not
touch the action in that round): the heap still holds t=10 one second later -/
example : (runOps p0 [⟨[], true, 100, 5⟩, ⟨[.setPenalty 1], false, 100, 1⟩] 0
    ({ cost := 1000, remains := 1000 } : LAction) ({ cost := 1000, remains := 1000 } : Action)).2.1.heap = some 10 := by
  simp [runOps, lazyStep, fullStep, fullSolve, LAction.apply, LAction.setPenalty, LAction.lmmSetPenalty, LAction.resolve,
    LAction.updateRemainsLazy, p0, doubleUpdate]
  grind

/-- hypotheses of the regression theorems and of the `_noop_keeps` lemmas: the state right after a solve (not in the
modified set, variable enabled with the action's penalty) -/
example : let a : LAction := { cost := 1000, remains := 1000, modified := false, heap := some 10, htype := .normal }
    a.modified = false ∧ a.varPenalty = a.penalty := ⟨rfl, rfl⟩

/-- hypothesis of `ti_integral_eq_partial` -/
example : ∀ q ∈ [Piece.mk 2 1, Piece.mk 2 (1/2), Piece.mk 4 (1/4)], 0 < q.speed := by
  intro q hq; simp at hq; rcases hq with rfl | rfl | rfl <;> simp <;> grind

end SgVerif.C19
