import SgVerif.TimeCore.Exact
/-
C03 — Simulated time is monotone and events happen exactly at their date.  Property theorems (nothing else here).
Model: SgVerif/TimeCore/Model.lean (EngineImpl::run/solve, Timer, ActionHeap, CpuCas01::sleep, ActivityImpl, ActorImpl).
Every theorem is for ALL programs of the op language, ALL resolutions of the equal-date ties (`ties`) and ALL fuel.
-/
namespace SgVerif.C03
open SgVerif.TimeCore

/-- `solve`: `time_delta >= 0` — the step by which `now_` is bumped is never negative. -/
theorem solve_delta_nonneg (now : Rat) (tnext top : Option Rat) (d : Rat)
    (ht : ∀ t, tnext = some t → now ≤ t) (h : timeDelta now tnext top = some d) : 0 ≤ d :=
  timeDelta_nonneg now tnext top d ht h

/-- **clock_monotone** (state form): from any state, whatever is run, the clock never decreases. -/
theorem clock_monotone (fuel : Nat) (s : St) : s.now ≤ (run fuel s).now := run_now_le fuel s

/-- **clock_monotone** (log form): the stamps of the observations made by the actors are non-decreasing in the order
of observation, and no observation is stamped in the future. -/
theorem log_sorted (progs : List (List Op)) (ties : List Nat) (fuel : Nat) :
    ((run fuel (initSt progs ties)).log.Pairwise (fun a b => a.1 ≤ b.1)) ∧
    (∀ e ∈ (run fuel (initSt progs ties)).log, e.1 ≤ (run fuel (initSt progs ties)).now) :=
  let h := run_logInv fuel _ (initSt_logInv progs ties)
  ⟨h.2, h.1⟩

/-- **no_early_event** (actions): an action (sleep, exec, comm, its latency phase, I/O) is completed by
`update_actions_state` at clock `t` only if it is *due* at `t`: its date is within the timing precision of `t` for
the lazily updated models (`double_equals(top_date, now, sg_precision_timing)`), and reached for the disk model. -/
theorem no_early_event (progs : List (List Op)) (ties : List Nat) (fuel : Nat) :
    ∀ x ∈ (run fuel (initSt progs ties)).popped, x.2.due x.1 = true :=
  run_poppedDue fuel _ (by simp [PoppedDue, initSt])

/-- never more than the timing precision early, in numbers -/
theorem no_early_event_bound (progs : List (List Op)) (ties : List Nat) (fuel : Nat) :
    ∀ x ∈ (run fuel (initSt progs ties)).popped, x.2.date - prec < x.1 := by
  intro x hx
  have h := no_early_event progs ties fuel x hx
  unfold HeapE.due dblEq ratAbs at h
  have hp : (0 : Rat) < prec := by unfold prec; grind
  split at h
  · simp only [decide_eq_true_eq] at h; grind
  · simp only [decide_eq_true_eq] at h
    split at h <;> grind

/-- **no_early_event** (timers: timeouts of wait_for / wait_any_for, kill times): a timer callback runs at clock `t`
only if its date is `≤ t`. -/
theorem timer_never_early (progs : List (List Op)) (ties : List Nat) (fuel : Nat) :
    ∀ x ∈ (run fuel (initSt progs ties)).fired, x.2.date ≤ x.1 :=
  run_firedOnTime fuel _ (by simp [FiredOnTime, initSt])

/-- `CpuCas01::sleep`: a positive duration is raised to the timing precision, others are kept. -/
theorem sleep_clamp (p d : Rat) :
    (0 < d → clampSleep p d = (if d < p then p else d) ∧ p ≤ clampSleep p d ∧ d ≤ clampSleep p d) ∧
    (d ≤ 0 → clampSleep p d = d) := by
  unfold clampSleep
  constructor
  · intro h; simp only [h, if_true]; split <;> grind
  · intro h; have : ¬ (d > 0) := by grind
    simp [this]

/-! ### timers and kill times fire exactly at their date

Full statement `timer_exact`: *every timer (timeout of a wait, kill time) set for date t by a run from `initSt` is
executed at clock exactly t.*  Proved here as its three components, each unbounded:
`timer_never_early` (global, above: executed only when `date ≤ clock`), `clock_never_skips_timer` (one maestro
iteration from ANY state: the clock stops at the earliest pending timer, so `clock ≤ date` still holds when
`Timer::execute_all` runs) and `kill_time_set_exactly` / C12 `wait_for_sets_deadline` (the only places where timers
are created: at `now + tau`, `tau ≥ 0`, or at a kill time `> now`, never in the past).  The gluing frame invariant
("no other kernel function adds a timer", "no pending timer is ever in the past") is proved in the second pass:
`timer_exact`, `timers_never_past`, `kill_time_exact` below are the full run-level statements. -/

/-- one iteration of the maestro loop never moves the clock beyond a pending timer -/
theorem clock_never_skips_timer (s : St) (t : Timer) (ht : t ∈ s.k.timers) (hf : s.now ≤ t.date) :
    (outer s).now ≤ t.date := outer_now_le_timer s t ht hf

/-- **kill_time_exact** (setting): `set_kill_time(t)` creates exactly one timer, at exactly `t`, iff `t > now` -/
theorem kill_time_set_exactly (now : Rat) (k : K) (a : Nat) (t : Rat) :
    (now < t → (k.handle now a (.killAt t)).timers = k.timers ++ [{ id := k.nextT, date := t, cb := .kill a }]) ∧
    (t ≤ now → (k.handle now a (.killAt t)).timers = k.timers) := handle_killAt_timer now k a t

/-- **kill_time_exact** (firing): when the kill timer fires the actor is scheduled at that very date (it then runs its
on_exit functions and leaves: `runAll`/`K.die`) -/
theorem kill_timer_schedules_actor (k : K) (id : Nat) (date : Rat) (a : Nat) :
    a ∈ (k.fire { id := id, date := date, cb := .kill a }).toRun := fire_kill_scheduled k id date a

/-- **timer_exact_partial**: a timer that is pending and not in the past before an iteration of the maestro loop, and
that this iteration executes, is executed at exactly its date — given (hypothesis `hexec`) that it is among the
timers executed by this iteration. -/
theorem timer_exact_partial (s : St) (t : Timer) (ht : t ∈ s.k.timers) (hf : s.now ≤ t.date)
    (hexec : t.date ≤ (outer s).now) : (outer s).now = t.date :=
  Rat.le_antisymm (outer_now_le_timer s t ht hf) hexec

/-! ### sleeps

Full statement `sleep_exact`: *an actor that calls `sleep_for d` (d > 0) at `t` and is not killed resumes at a clock r
with `t + clamp d - prec < r ≤ t + clamp d`, `r = t + clamp d` when no other event lies in that window, and at no
other date — in every reachable state.*  (The window is `double_equals(top_date, now, sg_precision_timing)` in
`update_actions_state_lazy`: `no_early_event` above.)  Proved: the date that is set (`sleep_date_exact`: exactly
`t + clamp d`, the actor registered on that activity only by this call, no timer), the window (`no_early_event`,
`no_early_event_bound`), the clamp (`sleep_clamp`).  NOT proved: the reachable-state invariant "an actor is
registered only on the activities of its current simcall" (no stale registration — where the fixed defect
4c67abe5fd lived); it is checked on every replayed program by the monitor (`sleep not exact`) and by the model
replay (a stale registration makes `K.answer` hit the `xbt_assert(simcall_.call_ != NONE)` branch or wakes the
sleeper early, both rejected). -/

/-- **sleep_date_exact** -/
theorem sleep_date_exact (now : Rat) (k : K) (a : Nat) (d : Rat) (ha : a < k.actors.length) :
    let k' := k.handle now a (.sleep d)
    k'.heap = k.heap ++ [{ impl := k.impls.length, date := now + clampSleep prec d }] ∧
    (k'.impl k.impls.length).simcalls = [a] ∧ (k'.impl k.impls.length).kind = .sleep ∧
    (k'.impl k.impls.length).start = now ∧
    (k'.actor a).waiting = (k.actor a).waiting ++ [k.impls.length] ∧
    k'.timers = k.timers ∧ k'.toRun = k.toRun := handle_sleep_date now k a d ha

/-! ### activities: created ≤ start ≤ finish

`activity_order_partial`: the start time of an activity is the clock at its start (= its creation: the op language
starts an activity when it creates it), its action is due at exactly `start + d`; the finish time is the clock at
which `update_actions_state` completed it (`K.handleEnded`: `finish := now`), which is later by `clock_monotone`.
NOT proved as one invariant over runs (needs the frame "no other function writes start/finish"); the monitor checks
`start = date of the start ≤ finish ≤ now` and `finish = start + d` on every log. -/
theorem activity_start_partial (now : Rat) (k : K) (a slot : Nat) (kind : Kind) (d : Rat)
    (hk : kind = .exec ∨ kind = .io) :
    let k' := k.handle now a (.start slot kind d)
    k'.heap = k.heap ++ [{ impl := k.impls.length, date := now + d, full := kind == .io }] ∧
    (k'.impl k.impls.length).start = now ∧ k'.timers = k.timers := handle_start_date now k a slot kind d hk

/-! ## Run-level theorems (second pass): invariants of EVERY reachable state

`run fuel (initSt progs ties)` ranges over all programs, all resolutions of the equal-date ties and all fuels.
The proofs are invariants pushed through every function of the model (`TimeCore/Frame.lean`, `Dates.lean`, `Reg.lean`). -/

/-- **timer_exact** (full, run level): every timer callback ever executed — timeout of a `wait_for` / `wait_any_for`,
kill time — was executed at a clock EXACTLY equal to the timer's date. -/
theorem timer_exact (progs : List (List Op)) (ties : List Nat) (fuel : Nat) :
    ∀ x ∈ (run fuel (initSt progs ties)).fired, x.1 = x.2.date :=
  (run_sinv fuel _ (initSt_sinv progs ties)).fired

/-- … and no pending timer is ever in the past (`clock_never_skips_timer` at run level): with `timer_exact` and
`timer_never_early`, a timer set for date t either fires at exactly t or is removed before (completion, death). -/
theorem timers_never_past (progs : List (List Op)) (ties : List Nat) (fuel : Nat) :
    ∀ t ∈ (run fuel (initSt progs ties)).k.timers, (run fuel (initSt progs ties)).now ≤ t.date :=
  (run_sinv fuel _ (initSt_sinv progs ties)).d.tim

/-- **progress**: when the run stops (`done`: nothing to run, no next event) no timer and no action is left pending —
so every timer set during the run was executed (at exactly its date, `timer_exact`) or removed (completion of the
wait, death of the actor), and every action was completed or canceled. -/
theorem no_pending_at_end (progs : List (List Op)) (ties : List Nat) (fuel : Nat)
    (hd : (run fuel (initSt progs ties)).done = true) :
    (run fuel (initSt progs ties)).k.timers = [] ∧ (run fuel (initSt progs ties)).k.heap = [] :=
  run_noPend fuel _ (initSt_sinv progs ties) (by intro h; simp [initSt] at h) hd

/-- **kill_time_exact** (full, run level): a kill timer fires at exactly the kill time … -/
theorem kill_time_exact (progs : List (List Op)) (ties : List Nat) (fuel : Nat) (a : Nat) :
    ∀ x ∈ (run fuel (initSt progs ties)).fired, x.2.cb = .kill a → x.1 = x.2.date :=
  fun x hx _ => timer_exact progs ties fuel x hx
-- … it was created with that date (`kill_time_set_exactly`) and its firing schedules the actor at that very clock
-- (`kill_timer_schedules_actor`): the actor runs its on_exit functions in the next sub-round, the clock unchanged.

/-- the clock never skips a pending action either: no heap entry is ever in the past -/
theorem heap_never_past (progs : List (List Op)) (ties : List Nat) (fuel : Nat) :
    ∀ e ∈ (run fuel (initSt progs ties)).k.heap, (run fuel (initSt progs ties)).now ≤ e.date :=
  fun e he => ((run_sinv fuel _ (initSt_sinv progs ties)).d.heap e he).1

/-- **no late event** (run level): an action (sleep, exec, comm phase, I/O) is never completed after its date;
with `no_early_event_bound`: it completes at a clock r with `date - prec < r ≤ date`. -/
theorem no_late_event (progs : List (List Op)) (ties : List Nat) (fuel : Nat) :
    ∀ x ∈ (run fuel (initSt progs ties)).popped, x.1 ≤ x.2.date :=
  run_poppedLe fuel _ (initSt_sinv progs ties) (by simp [PoppedLe, initSt])

/-- **action_exact_window**: every action completes at a clock r with `date - prec < r ≤ date`, and a disk I/O
(full update, no precision window) at exactly its date. -/
theorem action_exact_window (progs : List (List Op)) (ties : List Nat) (fuel : Nat) :
    ∀ x ∈ (run fuel (initSt progs ties)).popped,
      x.2.date - prec < x.1 ∧ x.1 ≤ x.2.date ∧ (x.2.full = true → x.1 = x.2.date) := by
  intro x hx
  have h1 := no_early_event_bound progs ties fuel x hx
  have h2 := no_late_event progs ties fuel x hx
  refine ⟨h1, h2, fun hf => ?_⟩
  have h3 := no_early_event progs ties fuel x hx
  unfold HeapE.due at h3
  simp only [hf, if_true, decide_eq_true_eq] at h3
  exact Rat.le_antisymm h2 h3

/-- the clock only ever stops at the date of a pending timer or action (`solve`): with `action_exact_window`, a sleep
of date D completes at exactly D unless another event has its date in `(D - prec, D)`. -/
theorem clock_lands_on_event (s : St) :
    (solveStep s (outerDelta s)).now = s.now ∨ (∃ t ∈ s.k.timers, t.date = (solveStep s (outerDelta s)).now) ∨
    (∃ e ∈ s.k.heap, e.date = (solveStep s (outerDelta s)).now) := solveStep_lands s

/-- **activity_order** (full, run level): for every activity of every run, `start ≤ now`, and once the finish time is
set (≠ -1) `start ≤ finish ≤ now`.  (In the op language an activity is started when it is created: created = start.) -/
theorem activity_order (progs : List (List Op)) (ties : List Nat) (fuel : Nat) :
    ∀ im ∈ (run fuel (initSt progs ties)).k.impls,
      im.start ≤ (run fuel (initSt progs ties)).now ∧
      (im.finish = -1 ∨ (im.start ≤ im.finish ∧ im.finish ≤ (run fuel (initSt progs ties)).now)) :=
  (run_sinv fuel _ (initSt_sinv progs ties)).d.ord

/-- **no_stale_registration** (the invariant behind `sleep_exact`, full, run level): in every reachable state, every
actor that is not dying is registered on activity i exactly as many times as i occurs in its `waiting_synchros_`;
when it is not in a handled simcall it is registered NOWHERE and no timeout timer of it is pending; in a simcall it is
registered on at most one activity (sleep, wait, wait_for) or on a sub-multiset of the activities of its wait_any;
a simcall not yet handled belongs to an actor blocked in it. -/
theorem no_stale_registration (progs : List (List Op)) (ties : List Nat) (fuel : Nat) (a : Nat)
    (hwd : ((run fuel (initSt progs ties)).k.actor a).wannadie = false) :
    let k := (run fuel (initSt progs ties)).k
    (∀ i, (k.impl i).simcalls.count a = (k.actor a).waiting.count i) ∧
    ((k.actor a).idle = true → (∀ i, a ∉ (k.impl i).simcalls) ∧ (k.actor a).tcb = none ∧
        ∀ t ∈ k.timers, cbActor t.cb ≠ some a) ∧
    ((k.actor a).waiting.length ≤ 1 ∨ ∀ j, (k.actor a).waiting.count j ≤ (k.actor a).anyList.count j) ∧
    ((k.actor a).pending.isSome = true → (k.actor a).blocked = true) :=
  reachable_registration progs ties fuel a hwd

/-- **a sleeper is woken by nothing else** (run level, consequence of `no_stale_registration`): in every reachable
state, `finish()` of an activity `j` leaves untouched every non-dying actor that does not wait for `j` — in
particular an actor blocked in `sleep_for`, whose `waiting_synchros_` is its sleep activity: no other completion
answers it; and (`timeout_of_other_actor_is_inert`, any state) neither does the timeout of another actor's wait. -/
theorem completion_wakes_only_waiters (progs : List (List Op)) (ties : List Nat) (fuel : Nat) (a j : Nat)
    (hwd : ((run fuel (initSt progs ties)).k.actor a).wannadie = false)
    (hj : j ∉ ((run fuel (initSt progs ties)).k.actor a).waiting) :
    ((run fuel (initSt progs ties)).k.finish j).actor a = (run fuel (initSt progs ties)).k.actor a :=
  finish_other _ j a (run_ri fuel _ (initSt_ri progs ties)).reg hwd hj

/-- **the completion of the awaited activity does wake the waiter** (run level): in every reachable state, when
`finish()` of activity i reaches the simcall of a blocked, non-dying actor a at the front of `simcalls_`, a is
answered — scheduled in actors_to_run_ at this very clock, no longer in a simcall — and is then registered nowhere,
with no timeout timer.  (For a sleep: `handle_ended_actions` calls `finish()` right after `update_actions_state`
popped the action, at the clock of `action_exact_window`.) -/
theorem completion_wakes_waiter (progs : List (List Op)) (ties : List Nat) (fuel : Nat) (i a : Nat) (rest : List Nat)
    (hs : ((run fuel (initSt progs ties)).k.impl i).simcalls = a :: rest)
    (hb : ((run fuel (initSt progs ties)).k.actor a).blocked = true)
    (hwd : ((run fuel (initSt progs ties)).k.actor a).wannadie = false) :
    let k := (run fuel (initSt progs ties)).k
    a ∈ (k.finishOne i a).toRun ∧ ((k.finishOne i a).actor a).blocked = false ∧
    ((k.finishOne i a).actor a).waiting = [] ∧ ((k.finishOne i a).actor a).tcb = none :=
  finishOne_wakes _ i a rest (run_ri fuel _ (initSt_ri progs ties)).reg hs hb hwd

theorem timeout_of_other_actor_is_inert (k : K) (t : Timer) (b a : Nat) (hcb : cbActor t.cb = some b) (h : a ≠ b) :
    (k.fire t).actor a = k.actor a := fire_timeout_other k t b a hcb h

/-- **regression of 4c67abe5fd**: with the double registration of the old `MessImpl::wait_for`
(`K.handleWaitForOld`), the state after the timeout has the actor answered but still registered on the message:
the invariant fails (the fixed code, `kNewFired_clean`, leaves it registered nowhere). -/
theorem no_stale_registration_regression :
    ¬ RegInv kOldFired ∧ (kOldFired.actor 0).waiting = [0] ∧ (kNewFired.actor 0).waiting = [] :=
  ⟨wait_for_double_registration_regression, kOldFired_stale.1, kNewFired_clean.1⟩

/-! `sleep_exact` (full statement above) is now proved up to one gluing step.  Proved for every run:
the sleep's action is created due at exactly `t + clamp d` with the sleeper alone registered on it (`sleep_date_exact`);
no registration is ever stale (`no_stale_registration`); hence nothing but the completion of the activities of its
`waiting_synchros_` wakes a blocked actor (`completion_wakes_only_waiters`, `timeout_of_other_actor_is_inert`, and no
timer of its own is pending without `timeout_cb_`), and that completion does wake it, at that very clock
(`completion_wakes_waiter`); an action completes at a clock r with `date - prec < r ≤ date`
(`action_exact_window`), r being the date of a pending event (`clock_lands_on_event`), hence r = t + clamp d when no
other event lies in the window; actions and timers are never in the past (`heap_never_past`); when the run stops
nothing is left pending (`no_pending_at_end`).  NOT proved as one theorem: that the `waiting_synchros_` of an actor
blocked in `sleep_for` is, in every later state, still exactly its sleep activity with its heap entry unchanged, and
that nobody else cancels that activity (the per-operation footprint invariant); the monitor (`sleep not exact`) and
the replay check it on every program. -/

/-! non-vacuity (concrete runs are evaluated by the compiled driver on the corpus: `decide` does not reduce `Rat`) -/

/-- a timer whose date is the clock is executed and recorded: the `fired` trace is not vacuous -/
example (s : St) (t : Timer) (h : s.k.timers = [t]) (hd : t.date = s.now) :
    (execAll 1 s false).1.fired = s.fired ++ [(s.now, t)] := by
  have : ¬ (s.now < s.now) := Rat.lt_irrefl
  simp [execAll, h, hd, minDate, pick, List.range, List.range.loop, this]

/-- a run that is over (`no_pending_at_end`): the empty simulation stops at once -/
example : (run 1 (initSt [] [])).done = true := by
  simp [run, step, initSt, outer_eq, outerPast, outerDelta, minDate, timeDelta, solveStep, outerTail, timersLoop,
    execAll, K.handleEndedAll, K.handleEnded, K.alive]

/-- hypotheses of `completion_wakes_only_waiters`: an actor that waits for nothing -/
example : ((run 0 (initSt [[.sleep 1]] [])).k.actor 0).wannadie = false ∧
    5 ∉ ((run 0 (initSt [[.sleep 1]] [])).k.actor 0).waiting := by
  simp [run, initSt, K.actor]

example : cbActor (Cb.wto 1 0) = some 1 ∧ (0 : Nat) ≠ 1 := by simp [cbActor]

/-- a state satisfying the invariant with a registered, blocked, non-dying waiter (hypotheses of
`completion_wakes_waiter` at the kernel level: `finishOne_wakes`) -/
example : RegInv kNew ∧ (kNew.impl 0).simcalls = [0] ∧ (kNew.actor 0).blocked = true ∧
    (kNew.actor 0).wannadie = false := ⟨kNew_reg, kNew_shape.1, kNew_shape.2.1, kNew_shape.2.2.1⟩

/-- the hypothesis of `no_stale_registration` holds for the actors of an initial state -/
example : ((run 0 (initSt [[.sleep 1]] [])).k.actor 0).wannadie = false := by
  simp [run, initSt, K.actor]

/-- the invariants hold in every reachable state (instances for `activity_order`, `timers_never_past`, …) -/
example : RI (run 7 (initSt [[.sleep 1, .killAt 2]] [1])) ∧ SInv (run 7 (initSt [[.sleep 1, .killAt 2]] [1])) :=
  reachable_inv _ _ _


example : timeDelta 0 (some 1) (some (1/2)) = some (1/2) ∧ (∀ t, some (1 : Rat) = some t → (0 : Rat) ≤ t) := by
  constructor
  · simp [timeDelta]; grind
  · intro t h; injection h with h; subst h; grind

/-- a due entry is completed, and recorded in the ghost trace -/
example (s : St) (e : HeapE) (h : s.k.heap = [e]) (hd : e.due s.now = true) (hl : e.lat = false) :
    (popWindow 1 s []).1.popped = s.popped ++ [(s.now, e)] := by
  simp [popWindow, h, hd, hl, pick, List.range, List.range.loop]

/-- a sub-precision sleep is clamped to the precision; a zero sleep is not -/
example : clampSleep prec (1/4294967296) = prec ∧ clampSleep prec 0 = 0 ∧ clampSleep prec 1 = 1 := by
  unfold clampSleep prec; grind

/-- a kernel with one blocked actor and a pending timer in the future: hypotheses of the timer theorems are satisfiable -/
example : let s : St := { k := { timers := [{ id := 0, date := 1, cb := .kill 0 }], actors := [{ prog := [] }] } }
    ({ id := 0, date := 1, cb := .kill 0 } : Timer) ∈ s.k.timers ∧ s.now ≤ (1 : Rat) := by
  constructor
  · simp
  · show (0 : Rat) ≤ 1; grind

end SgVerif.C03
