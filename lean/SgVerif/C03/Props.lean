import SgVerif.TimeCore.Lemmas
/-
C03 — Simulated time is monotone and events happen exactly at their date.  Property theorems (nothing else here).
Model: SgVerif/TimeCore/Model.lean (EngineImpl::run/solve, Timer, ActionHeap, CpuCas01::sleep, ActivityImpl, ActorImpl).
Every theorem is for ALL programs of the op language, ALL resolutions of the equal-date ties (`ties`) and ALL fuel.
-/
namespace SgVerif.C03
open SgVerif.TimeCore

/-- `solve`: `time_delta >= 0` — the step by which `now_` is bumped is never negative. -/
theorem solve_delta_nonneg (now : Rat) (tnext top : Option Rat) (d : Rat)
    (ht : ∀ t, tnext = some t → now ≤ t) (h : timeDelta now tnext top = some d) : 0 ≤ d :=
  timeDelta_nonneg now tnext top d ht h

/-- **clock_monotone** (state form): from any state, whatever is run, the clock never decreases. -/
theorem clock_monotone (fuel : Nat) (s : St) : s.now ≤ (run fuel s).now := run_now_le fuel s

/-- **clock_monotone** (log form): the stamps of the observations made by the actors are non-decreasing in the order
of observation, and no observation is stamped in the future. -/
theorem log_sorted (progs : List (List Op)) (ties : List Nat) (fuel : Nat) :
    ((run fuel (initSt progs ties)).log.Pairwise (fun a b => a.1 ≤ b.1)) ∧
    (∀ e ∈ (run fuel (initSt progs ties)).log, e.1 ≤ (run fuel (initSt progs ties)).now) :=
  let h := run_logInv fuel _ (initSt_logInv progs ties)
  ⟨h.2, h.1⟩

/-- **no_early_event** (actions): an action (sleep, exec, comm, its latency phase, I/O) is completed by
`update_actions_state` at clock `t` only if it is *due* at `t`: its date is within the timing precision of `t` for
the lazily updated models (`double_equals(top_date, now, sg_precision_timing)`), and reached for the disk model. -/
theorem no_early_event (progs : List (List Op)) (ties : List Nat) (fuel : Nat) :
    ∀ x ∈ (run fuel (initSt progs ties)).popped, x.2.due x.1 = true :=
  run_poppedDue fuel _ (by simp [PoppedDue, initSt])

/-- never more than the timing precision early, in numbers -/
theorem no_early_event_bound (progs : List (List Op)) (ties : List Nat) (fuel : Nat) :
    ∀ x ∈ (run fuel (initSt progs ties)).popped, x.2.date - prec < x.1 := by
  intro x hx
  have h := no_early_event progs ties fuel x hx
  unfold HeapE.due dblEq ratAbs at h
  have hp : (0 : Rat) < prec := by unfold prec; grind
  split at h
  · simp only [decide_eq_true_eq] at h; grind
  · simp only [decide_eq_true_eq] at h
    split at h <;> grind

/-- **no_early_event** (timers: timeouts of wait_for / wait_any_for, kill times): a timer callback runs at clock `t`
only if its date is `≤ t`. -/
theorem timer_never_early (progs : List (List Op)) (ties : List Nat) (fuel : Nat) :
    ∀ x ∈ (run fuel (initSt progs ties)).fired, x.2.date ≤ x.1 :=
  run_firedOnTime fuel _ (by simp [FiredOnTime, initSt])

/-- `CpuCas01::sleep`: a positive duration is raised to the timing precision, others are kept. -/
theorem sleep_clamp (p d : Rat) :
    (0 < d → clampSleep p d = (if d < p then p else d) ∧ p ≤ clampSleep p d ∧ d ≤ clampSleep p d) ∧
    (d ≤ 0 → clampSleep p d = d) := by
  unfold clampSleep
  constructor
  · intro h; simp only [h, if_true]; split <;> grind
  · intro h; have : ¬ (d > 0) := by grind
    simp [this]

/-! non-vacuity (concrete runs are evaluated by the compiled driver on the corpus: `decide` does not reduce `Rat`) -/

example : timeDelta 0 (some 1) (some (1/2)) = some (1/2) ∧ (∀ t, some (1 : Rat) = some t → (0 : Rat) ≤ t) := by
  constructor
  · simp [timeDelta]; grind
  · intro t h; injection h with h; subst h; grind

/-- a due entry is completed, and recorded in the ghost trace -/
example (s : St) (e : HeapE) (h : s.k.heap = [e]) (hd : e.due s.now = true) (hl : e.lat = false) :
    (popWindow 1 s []).1.popped = s.popped ++ [(s.now, e)] := by
  simp [popWindow, h, hd, hl, pick, List.range, List.range.loop]

/-- a sub-precision sleep is clamped to the precision; a zero sleep is not -/
example : clampSleep prec (1/4294967296) = prec ∧ clampSleep prec 0 = 0 ∧ clampSleep prec 1 = 1 := by
  unfold clampSleep prec; grind

end SgVerif.C03
