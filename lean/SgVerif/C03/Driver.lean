import SgVerif.TimeCore.DriverCore
/- driver of C03: the shared time-core judge (monitor + model replay with oracle search) -/
def main : IO Unit := SgVerif.Proto.run SgVerif.TimeCore.judge
