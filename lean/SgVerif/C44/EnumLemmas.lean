import SgVerif.C44.Model
/-
C44 — the enumerators of src/xbt/utils/iter (`variable_for_loop`, `subsets_iterator`/`LazyKSubsets`, `powerset_iterator`)
as modelled in Model.lean are EQUAL to their recursive specifications `product` / `combos`, and what these contain.
Core-only.
-/
namespace SgVerif.C44

/-! ### generic: the states visited by iterating a partial successor function -/

/-- `Chain nx s L t`: starting in `s` and applying `nx` repeatedly visits exactly the states `L` (first `s`, last `t`) -/
inductive Chain {σ : Type} (nx : σ → Option σ) : σ → List σ → σ → Prop
  | one (s : σ) : Chain nx s [s] s
  | cons {s s' : σ} {L : List σ} {t : σ} : nx s = some s' → Chain nx s' L t → Chain nx s (s :: L) t

theorem Chain.append {σ : Type} {nx : σ → Option σ} {s t u v : σ} {L1 L2 : List σ}
    (h1 : Chain nx s L1 t) (h : nx t = some u) (h2 : Chain nx u L2 v) : Chain nx s (L1 ++ L2) v := by
  induction h1 with
  | one s => exact Chain.cons h h2
  | cons hs _ ih => exact Chain.cons hs (ih h)

theorem Chain.map {σ τ : Type} {nx1 : σ → Option σ} {nx2 : τ → Option τ} (f : σ → τ)
    (hf : ∀ a b, nx1 a = some b → nx2 (f a) = some (f b)) {s t : σ} {L : List σ}
    (h : Chain nx1 s L t) : Chain nx2 (f s) (L.map f) (f t) := by
  induction h with
  | one s => exact Chain.one _
  | cons hs _ ih => exact Chain.cons (hf _ _ hs) ih

theorem Chain.ne_nil {σ : Type} {nx : σ → Option σ} {s t : σ} {L : List σ} (h : Chain nx s L t) : L ≠ [] := by
  cases h <;> simp

/-! ### variable_for_loop (odometer) -/

theorem vflGo_nil : vflIncr.go [] [] = ([], true) := by simp [vflIncr.go]

theorem vflGo_cons (s : Nat) (ss : List Nat) (c : Nat) (cs : List Nat) :
    vflIncr.go (s :: ss) (c :: cs) =
      if (vflIncr.go ss cs).2 then
        (if c + 1 == s then (0 :: (vflIncr.go ss cs).1, true) else ((c + 1) :: (vflIncr.go ss cs).1, false))
      else (c :: (vflIncr.go ss cs).1, false) := by
  rw [vflIncr.go]

theorem vflIncr_eq (sizes cur : List Nat) :
    vflIncr sizes cur = if (vflIncr.go sizes cur).2 then none else some (vflIncr.go sizes cur).1 := by
  unfold vflIncr; rfl

def zeros (ss : List Nat) : List Nat := ss.map (fun _ => 0)
def maxes (ss : List Nat) : List Nat := ss.map (· - 1)

theorem vflIncr_lift (s : Nat) (ss : List Nat) (i : Nat) (a b : List Nat) (h : vflIncr ss a = some b) :
    vflIncr (s :: ss) (i :: a) = some (i :: b) := by
  rw [vflIncr_eq] at h ⊢
  rw [vflGo_cons]
  split at h
  · cases h
  · rename_i hc
    simp only [hc]
    simp at h
    simp [h]

/-- the odometer started at 0…0 visits `product ss` in order, ends at the all-max tuple, where it reports completion -/
theorem vfl_chain (ss : List Nat) (hpos : ∀ s ∈ ss, 0 < s) :
    Chain (vflIncr ss) (zeros ss) (product ss) (maxes ss) ∧ vflIncr.go ss (maxes ss) = (zeros ss, true) := by
  induction ss with
  | nil => exact ⟨Chain.one _, vflGo_nil⟩
  | cons s ss ih =>
    have hs : 0 < s := hpos s (by simp)
    obtain ⟨hch, hgo⟩ := ih (fun x hx => hpos x (by simp [hx]))
    have hblock : ∀ i, Chain (vflIncr (s :: ss)) (i :: zeros ss) ((product ss).map (i :: ·)) (i :: maxes ss) :=
      fun i => Chain.map (i :: ·) (fun a b h => vflIncr_lift s ss i a b h) hch
    have hcarry : ∀ i, i + 1 < s → vflIncr (s :: ss) (i :: maxes ss) = some ((i + 1) :: zeros ss) := by
      intro i hi
      rw [vflIncr_eq, vflGo_cons, hgo]
      have : (i + 1 == s) = false := by simp; omega
      simp [this]
    -- blocks a, a+1, …, s-1
    have hrun : ∀ d a, a + d + 1 = s →
        Chain (vflIncr (s :: ss)) (a :: zeros ss)
          ((List.range' a (d + 1)).flatMap (fun i => (product ss).map (i :: ·))) ((s - 1) :: maxes ss) := by
      intro d
      induction d with
      | zero =>
        intro a ha
        have : s - 1 = a := by omega
        rw [this]
        simpa using hblock a
      | succ d ihd =>
        intro a ha
        rw [List.range'_succ, List.flatMap_cons]
        exact Chain.append (hblock a) (hcarry a (by omega)) (ihd (a + 1) (by omega))
    refine ⟨?_, ?_⟩
    · have := hrun (s - 1) 0 (by omega)
      have h2 : s - 1 + 1 = s := by omega
      rw [h2] at this
      simpa [product, zeros, maxes, List.range_eq_range'] using this
    · show vflIncr.go (s :: ss) ((s - 1) :: maxes ss) = _
      rw [vflGo_cons, hgo]
      have : (s - 1 + 1 == s) = true := by simp; omega
      simp [this, zeros]

theorem vflCollect_chain (sizes : List Nat) {c t : List Nat} {L : List (List Nat)}
    (h : Chain (vflIncr sizes) c L t) (hend : vflIncr sizes t = none) :
    ∀ (fuel : Nat) (acc : List (List Nat)), L.length ≤ fuel → vflCollect sizes fuel (some c) acc = acc.reverse ++ L := by
  induction h with
  | one s =>
    intro fuel acc hf
    cases fuel with
    | zero => simp at hf
    | succ fuel =>
      rw [vflCollect, hend]
      cases fuel <;> simp [vflCollect]
  | cons hs _ ih =>
    intro fuel acc hf
    cases fuel with
    | zero => simp at hf
    | succ fuel =>
      rw [vflCollect, hs, ih hend fuel _ (by simpa using hf)]
      simp

theorem product_nil_of_zero (ss : List Nat) (h : 0 ∈ ss) : product ss = [] := by
  induction ss with
  | nil => cases h
  | cons s ss ih =>
    rcases List.mem_cons.mp h with h | h
    · subst h; simp [product]
    · simp [product, ih h]

/-- **variable_for_loop = product**: for every non-empty list of collection sizes the odometer yields exactly the tuples of
`product sizes`, in that order (no tuple when one of the collections is empty) -/
theorem variableForLoop_eq_product (sizes : List Nat) (hne : sizes ≠ []) (fuel : Nat)
    (hf : (product sizes).length ≤ fuel) : variableForLoop sizes fuel = product sizes := by
  unfold variableForLoop vflInit
  by_cases h0 : 0 ∈ sizes
  · have : sizes.any (· == 0) = true := by simpa using h0
    rw [product_nil_of_zero sizes h0]
    simp only [this, Bool.or_true, if_true]
    cases fuel <;> simp [vflCollect]
  · have hany : sizes.any (· == 0) = false := by
      rw [Bool.eq_false_iff]; intro h; apply h0; simpa using h
    have hemp : sizes.isEmpty = false := by cases sizes <;> simp_all
    simp only [hany, hemp, Bool.or_false, Bool.false_eq_true, if_false]
    have hpos : ∀ s ∈ sizes, 0 < s := by
      intro s hs
      rcases Nat.eq_zero_or_pos s with h | h
      · subst h; exact absurd hs h0
      · exact h
    obtain ⟨hch, hgo⟩ := vfl_chain sizes hpos
    have hend : vflIncr sizes (maxes sizes) = none := by rw [vflIncr_eq, hgo]; simp
    have := vflCollect_chain sizes hch hend fuel [] hf
    simpa [zeros] using this

/-- what `product` contains: exactly the tuples below the sizes, each once -/
theorem mem_product (ss : List Nat) (t : List Nat) :
    t ∈ product ss ↔ t.length = ss.length ∧ ∀ i, i < ss.length → (t[i]?).getD 0 < (ss[i]?).getD 0 := by
  induction ss generalizing t with
  | nil =>
    simp [product]
  | cons s ss ih =>
    simp only [product, List.mem_flatMap, List.mem_range, List.mem_map]
    constructor
    · rintro ⟨i, hi, r, hr, rfl⟩
      obtain ⟨h1, h2⟩ := (ih r).mp hr
      refine ⟨by simp [h1], ?_⟩
      intro j hj
      cases j with
      | zero => simpa using hi
      | succ j => simpa using h2 j (by simpa using hj)
    · rintro ⟨h1, h2⟩
      cases t with
      | nil => simp at h1
      | cons i r =>
        refine ⟨i, by simpa using h2 0 (by simp), r, (ih r).mpr ⟨by simpa using h1, ?_⟩, rfl⟩
        intro j hj
        simpa using h2 (j + 1) (by simpa using hj)

theorem nodup_map_cons {α : Type} (i : α) {l : List (List α)} (h : l.Nodup) : (l.map (i :: ·)).Nodup := by
  show List.Pairwise _ _
  rw [List.pairwise_map]
  exact List.Pairwise.imp (fun hab h => hab (by simpa using h)) h

theorem product_nodup (ss : List Nat) : (product ss).Nodup := by
  induction ss with
  | nil => simp [product]
  | cons s ss ih =>
    simp only [product]
    show List.Pairwise _ _
    rw [List.pairwise_flatMap]
    refine ⟨?_, ?_⟩
    · intro i _
      exact nodup_map_cons i ih
    · refine List.Pairwise.imp ?_ (List.nodup_range (n := s))
      intro a b hab
      intro x hx1 y hx2
      simp only [List.mem_map] at hx1 hx2
      obtain ⟨r1, _, rfl⟩ := hx1
      obtain ⟨r2, _, rfl⟩ := hx2
      intro h
      simp at h
      exact hab h.1

/-! ### subsets_iterator -/

theorem getD_append (A B : List Nat) (i : Nat) :
    ((A ++ B)[i]?).getD 0 = if i < A.length then (A[i]?).getD 0 else (B[i - A.length]?).getD 0 := by
  split
  · rename_i h; rw [List.getElem?_append_left h]
  · rename_i h; rw [List.getElem?_append_right (by omega)]

theorem ext_getD {l1 l2 : List Nat} (hl : l1.length = l2.length)
    (h : ∀ i, i < l1.length → (l1[i]?).getD 0 = (l2[i]?).getD 0) : l1 = l2 := by
  apply List.ext_getElem hl
  intro i h1 h2
  have := h i h1
  simpa [List.getElem?_eq_getElem h1, List.getElem?_eq_getElem h2] using this

theorem getD_range' (s m i : Nat) (h : i < m) : ((List.range' s m)[i]?).getD 0 = s + i := by
  simp [h]

theorem getD_last (A M : List Nat) (p x : Nat) : ((A ++ p :: (M ++ [x]))[A.length + (M.length + 1)]?).getD 0 = x := by
  rw [getD_append]
  have h1 : ¬ A.length + (M.length + 1) < A.length := by omega
  have h2 : A.length + (M.length + 1) - A.length = M.length + 1 := by omega
  simp only [h1, if_false, h2, List.getElem?_cons_succ]
  rw [List.getElem?_append_right (by omega)]
  simp

/-- the backward search of `increment` stops at the last position that is not "as far right as it can be" -/
theorem findL_eq (P : List Nat) (n k a : Nat)
    (hmax : ∀ j, a < j → j ≤ k - 2 → (P[j]?).getD 0 = n - (k - j))
    (hp : a = 0 ∨ (P[a]?).getD 0 ≠ n - (k - a)) : ∀ j, a ≤ j → j ≤ k - 2 → findL P n k j = a := by
  intro j
  induction j with
  | zero => intro h1 _; simp [findL]; omega
  | succ j ih =>
    intro h1 h2
    rw [findL]
    by_cases hj : j + 1 = a
    · rcases hp with h0 | hne
      · omega
      · rw [hj]; simp [hne]
    · have := hmax (j + 1) (by omega) h2
      simp only [this, bne_self_eq_false, Bool.false_eq_true, if_false]
      exact ih (by omega) (by omega)

/-- the successor computed by `increment`, `none` when the iterator reaches its end -/
def nxK (k n : Nat) (P : List Nat) : Option (List Nat) :=
  if (SubsetsIter.increment ⟨k, n, false, P⟩).ended then none else some (SubsetsIter.increment ⟨k, n, false, P⟩).P

theorem incr_k (it : SubsetsIter) : it.increment.k = it.k ∧ it.increment.n = it.n := by
  unfold SubsetsIter.increment
  dsimp only
  (repeat' split) <;> simp

/-- **increment is the lexicographic successor**: with the last `m` positions as far right as possible (`n-m … n-1`) and
the position `p` before them not, the positions before `p` are kept, `p` moves one step and the others follow it -/
theorem incr_shape (A : List Nat) (p m n : Nat) (hp : p + m + 1 < n)
    (hA : ∀ a, A.head? = some a → a + (A.length + 1 + m) ≤ n) :
    nxK (A.length + 1 + m) n (A ++ p :: List.range' (n - m) m) = some (A ++ List.range' (p + 1) (m + 1)) := by
  unfold nxK SubsetsIter.increment
  have hk1 : A.length + 1 + m - 1 = A.length + m := by omega
  have hk0 : (A.length + 1 + m == 0) = false := by simp
  simp only [Bool.false_or, hk0, Bool.false_eq_true, if_false, hk1]
  cases m with
  | zero =>
    have h1 : ((A ++ p :: List.range' (n - 0) 0)[A.length + 0]?).getD 0 = p := by simp
    have h2 : (A ++ p :: List.range' (n - 0) 0).set (A.length + 0) (p + 1) = A ++ [p + 1] := by simp
    rw [h1, h2]
    have h3 : ((A ++ [p + 1])[A.length + 0]?).getD 0 = p + 1 := by simp
    rw [h3]
    have h4 : (p + 1 == n) = false := by simp; omega
    simp [h4]
  | succ m' =>
    have hM : List.range' (n - (m' + 1)) (m' + 1) = List.range' (n - (m' + 1)) m' ++ [n - 1] := by
      rw [List.range'_concat]; congr 2; omega
    rw [hM]
    generalize hMd : List.range' (n - (m' + 1)) m' = M'
    have hMl : M'.length = m' := by rw [← hMd]; simp
    have hMg : ∀ i, i < m' → (M'[i]?).getD 0 = n - (m' + 1) + i := by
      intro i hi; rw [← hMd]; exact getD_range' _ _ _ hi
    have h1 : ((A ++ p :: (M' ++ [n - 1]))[A.length + (m' + 1)]?).getD 0 = n - 1 := by
      rw [← hMl]; exact getD_last A M' p (n - 1)
    have h2 : (A ++ p :: (M' ++ [n - 1])).set (A.length + (m' + 1)) (n - 1 + 1) = A ++ p :: (M' ++ [n]) := by
      rw [List.set_append_right _ _ (by omega)]
      have : A.length + (m' + 1) - A.length = m' + 1 := by omega
      rw [this, List.set_cons_succ, List.set_append_right _ _ (by omega)]
      have : n - 1 + 1 = n := by omega
      simp [hMl, this]
    rw [h1, h2]
    have h3 : ((A ++ p :: (M' ++ [n]))[A.length + (m' + 1)]?).getD 0 = n := by
      rw [← hMl]; exact getD_last A M' p n
    rw [h3]
    have hk2 : (A.length + 1 + (m' + 1) == 1) = false := by simp; omega
    have hk3 : A.length + 1 + (m' + 1) - 2 = A.length + m' := by omega
    simp only [beq_self_eq_true, if_true, hk2, Bool.false_eq_true, if_false, hk3]
    -- the search finds position |A|
    have hg : ∀ j, A.length < j → j ≤ A.length + m' →
        ((A ++ p :: (M' ++ [n]))[j]?).getD 0 = n - (A.length + 1 + (m' + 1) - j) := by
      intro j h1 h2
      rw [getD_append]
      have : ¬ j < A.length := by omega
      simp only [this, if_false]
      obtain ⟨d, hd⟩ : ∃ d, j - A.length = d + 1 := ⟨j - A.length - 1, by omega⟩
      rw [hd, List.getElem?_cons_succ, List.getElem?_append_left (by omega), hMg d (by omega)]
      omega
    have hpA : ((A ++ p :: (M' ++ [n]))[A.length]?).getD 0 = p := by
      rw [getD_append]; simp
    have hl : findL (A ++ p :: (M' ++ [n])) n (A.length + 1 + (m' + 1)) (A.length + m') = A.length := by
      apply findL_eq _ _ _ A.length
      · intro j h1 h2; exact hg j h1 (by omega)
      · by_cases h0 : A.length = 0
        · exact Or.inl h0
        · right; rw [hpA]; omega
      · omega
      · omega
    rw [hl, hpA]
    have h5 : (A ++ p :: (M' ++ [n])).set A.length (p + 1) = A ++ (p + 1) :: (M' ++ [n]) := by
      rw [List.set_append_right _ _ (by omega)]; simp
    rw [h5]
    have h6 : ¬ ((A ++ (p + 1) :: (M' ++ [n]))[0]?).getD 0 > n - (A.length + 1 + (m' + 1)) := by
      cases A with
      | nil => simp; omega
      | cons a A' =>
        have := hA a rfl
        simp at this ⊢
        omega
    have h7 : ((A ++ (p + 1) :: (M' ++ [n]))[A.length]?).getD 0 = p + 1 := by
      rw [getD_append]; simp
    simp only [h6, if_false, h7]
    refine congrArg some (ext_getD (by simp; omega) ?_)
    intro i hi
    simp only [List.length_map, List.length_range] at hi
    rw [List.getElem?_map, List.getElem?_range hi]
    simp only [Option.map_some, Option.getD_some]
    rw [getD_append, getD_append]
    by_cases h1 : i < A.length
    · have : i ≤ A.length := by omega
      simp [h1, this]
    · simp only [h1, if_false]
      by_cases h2 : i = A.length
      · subst h2; simp
      · have : ¬ i ≤ A.length := by omega
        simp only [this, if_false]
        rw [getD_range' _ _ _ (by omega)]

/-- at the last subset (`n-k … n-1`) `increment` reports the end -/
theorem incr_last (k n : Nat) (hk : 0 < k) (hkn : k ≤ n) : nxK k n (List.range' (n - k) k) = none := by
  unfold nxK SubsetsIter.increment
  have hk0 : (k == 0) = false := by simp; omega
  simp only [Bool.false_or, hk0, Bool.false_eq_true, if_false]
  obtain ⟨m, rfl⟩ : ∃ m, k = m + 1 := ⟨k - 1, by omega⟩
  have hM : List.range' (n - (m + 1)) (m + 1) = List.range' (n - (m + 1)) m ++ [n - 1] := by
    rw [List.range'_concat]; congr 2; omega
  rw [hM]
  generalize hMd : List.range' (n - (m + 1)) m = M'
  have hMl : M'.length = m := by rw [← hMd]; simp
  have hMg : ∀ i, i < m → (M'[i]?).getD 0 = n - (m + 1) + i := by
    intro i hi; rw [← hMd]; exact getD_range' _ _ _ hi
  have hk1 : m + 1 - 1 = m := by omega
  rw [hk1]
  have h1 : ((M' ++ [n - 1])[m]?).getD 0 = n - 1 := by
    rw [List.getElem?_append_right (by omega)]; simp [hMl]
  have h2 : (M' ++ [n - 1]).set m (n - 1 + 1) = M' ++ [n] := by
    rw [List.set_append_right _ _ (by omega)]
    have : n - 1 + 1 = n := by omega
    simp [hMl, this]
  rw [h1, h2]
  have h3 : ((M' ++ [n])[m]?).getD 0 = n := by
    rw [List.getElem?_append_right (by omega)]; simp [hMl]
  rw [h3]
  simp only [beq_self_eq_true, if_true]
  cases m with
  | zero => simp
  | succ m' =>
    have hk2 : (m' + 1 + 1 == 1) = false := by simp
    have hk3 : m' + 1 + 1 - 2 = m' := by omega
    simp only [hk2, Bool.false_eq_true, if_false, hk3]
    have hg : ∀ j, 0 < j → j ≤ m' → ((M' ++ [n])[j]?).getD 0 = n - (m' + 1 + 1 - j) := by
      intro j h1 h2
      rw [List.getElem?_append_left (by omega), hMg j (by omega)]
      omega
    have hl : findL (M' ++ [n]) n (m' + 1 + 1) m' = 0 := by
      apply findL_eq _ _ _ 0
      · intro j h1 h2; exact hg j h1 (by omega)
      · exact Or.inl rfl
      · omega
      · omega
    rw [hl]
    have h0 : ((M' ++ [n])[0]?).getD 0 = n - (m' + 1 + 1) := by
      rw [List.getElem?_append_left (by omega), hMg 0 (by omega)]; omega
    rw [h0]
    have h5 : (((M' ++ [n]).set 0 (n - (m' + 1 + 1) + 1))[0]?).getD 0 = n - (m' + 1 + 1) + 1 := by
      cases M' with
      | nil => simp at hMl
      | cons x r => simp
    rw [h5]
    have : n - (m' + 1 + 1) + 1 > n - (m' + 1 + 1) := by omega
    simp [this]

theorem combos_short (k : Nat) (xs : List Nat) (h : xs.length < k) : combos k xs = [] := by
  induction xs generalizing k with
  | nil => cases k with
    | zero => simp at h
    | succ k => simp [combos]
  | cons x r ih =>
    cases k with
    | zero => simp at h
    | succ k =>
      simp only [combos]
      rw [ih k (by simpa using h), ih (k + 1) (by simp at h; omega)]
      simp

/-- started on the first `j`-subset of `[lo, n)` behind a fixed prefix `A`, the iterator visits `A ++ c` for every `c` of
`combos j [lo, n)` in order and stops on the last one (`n-j … n-1`) -/
theorem kchain (n : Nat) : ∀ (d j lo : Nat) (A : List Nat), n - lo = d → lo ≤ n → j ≤ d →
    (∀ a, A.head? = some a → a + (A.length + j) ≤ n) →
    Chain (nxK (A.length + j) n) (A ++ List.range' lo j) ((combos j (List.range' lo d)).map (A ++ ·))
      (A ++ List.range' (n - j) j) := by
  intro d
  induction d with
  | zero =>
    intro j lo A _ _ hj _
    have : j = 0 := by omega
    subst this
    simpa [combos] using Chain.one (nx := nxK (A.length + 0) n) A
  | succ d ih =>
    intro j lo A hd hlo hj hA
    cases j with
    | zero => simpa [combos] using Chain.one (nx := nxK (A.length + 0) n) A
    | succ j =>
      rw [List.range'_succ (s := lo) (n := d), combos, List.map_append, List.map_map]
      have hA1 : ∀ a, (A ++ [lo]).head? = some a → a + ((A ++ [lo]).length + j) ≤ n := by
        intro a ha
        cases A with
        | nil => simp at ha; subst ha; simp; omega
        | cons x A' =>
          have := hA a (by simpa using ha)
          simp at this ⊢; omega
      have h1 := ih j (lo + 1) (A ++ [lo]) (by omega) (by omega) (by omega) hA1
      have hlen : (A ++ [lo]).length + j = A.length + (j + 1) := by simp; omega
      rw [hlen] at h1
      have hs : A ++ [lo] ++ List.range' (lo + 1) j = A ++ List.range' lo (j + 1) := by
        rw [List.range'_succ]; simp
      have hf : ((fun x => A ++ x) ∘ fun x => lo :: x) = fun x => A ++ [lo] ++ x := by
        funext x; simp
      rw [hs] at h1
      rw [hf]
      by_cases hjd : j + 1 ≤ d
      · have h2 := ih (j + 1) (lo + 1) A (by omega) (by omega) hjd hA
        have hstep : nxK (A.length + (j + 1)) n (A ++ [lo] ++ List.range' (n - j) j)
            = some (A ++ List.range' (lo + 1) (j + 1)) := by
          have := incr_shape A lo j n (by omega) (by intro a ha; have := hA a ha; omega)
          have hk : A.length + 1 + j = A.length + (j + 1) := by omega
          rw [hk] at this
          simpa using this
        exact Chain.append h1 hstep h2
      · rw [combos_short (j + 1) (List.range' (lo + 1) d) (by simp; omega)]
        have he : A ++ [lo] ++ List.range' (n - j) j = A ++ List.range' (n - (j + 1)) (j + 1) := by
          rw [List.range'_succ]
          have h1 : n - (j + 1) = lo := by omega
          have h2 : n - j = lo + 1 := by omega
          simp [h1, h2]
        rw [he] at h1
        simpa using h1

theorem kcollect_ended (fuel : Nat) (it : SubsetsIter) (acc : List (List Nat)) (h : it.ended = true) :
    SubsetsIter.collect fuel it acc = acc.reverse := by
  cases fuel <;> simp [SubsetsIter.collect, SubsetsIter.atEnd, h]

theorem incr_eta (k n : Nat) (P : List Nat) :
    SubsetsIter.increment ⟨k, n, false, P⟩ =
      ⟨k, n, (SubsetsIter.increment ⟨k, n, false, P⟩).ended, (SubsetsIter.increment ⟨k, n, false, P⟩).P⟩ := by
  have := incr_k ⟨k, n, false, P⟩
  cases h : SubsetsIter.increment ⟨k, n, false, P⟩
  simp_all

theorem kcollect_chain (k n : Nat) (hk : k ≠ 0) {P Q : List Nat} {L : List (List Nat)}
    (h : Chain (nxK k n) P L Q) (hend : nxK k n Q = none) :
    ∀ (fuel : Nat) (acc : List (List Nat)), L.length ≤ fuel →
      SubsetsIter.collect fuel ⟨k, n, false, P⟩ acc = acc.reverse ++ L := by
  have hk0 : (k == 0) = false := by simpa using hk
  induction h with
  | one s =>
    intro fuel acc hf
    cases fuel with
    | zero => simp at hf
    | succ fuel =>
      rw [SubsetsIter.collect]
      simp only [SubsetsIter.atEnd, hk0, Bool.or_false, Bool.false_eq_true, if_false]
      rw [kcollect_ended]
      · simp
      · unfold nxK at hend
        split at hend
        · assumption
        · cases hend
  | cons hs _ ih =>
    intro fuel acc hf
    cases fuel with
    | zero => simp at hf
    | succ fuel =>
      rw [SubsetsIter.collect]
      simp only [SubsetsIter.atEnd, hk0, Bool.or_false, Bool.false_eq_true, if_false]
      rw [incr_eta]
      unfold nxK at hs
      split at hs
      · cases hs
      · rename_i hne
        simp only [Bool.not_eq_true] at hne
        injection hs with hs
        rw [hne, hs, ih hend fuel _ (by simpa using hf)]
        simp

/-- **LazyKSubsets = combos**: for `k ≥ 1` the iterator yields exactly `combos k [0, n)`, in that order -/
theorem kSubsets_eq_combos (k n : Nat) (hk : 0 < k) (fuel : Nat) (hf : (combos k (List.range n)).length ≤ fuel) :
    kSubsets k n fuel = combos k (List.range n) := by
  unfold kSubsets SubsetsIter.init
  by_cases hkn : n < k
  · simp only [hkn, if_true]
    rw [kcollect_ended _ _ _ rfl, combos_short k _ (by simpa using hkn)]
    rfl
  · simp only [hkn, if_false]
    have hch := kchain n n k 0 [] (by omega) (by omega) (by omega) (by simp)
    have hend := incr_last k n hk (by omega)
    simp only [List.length_nil, Nat.zero_add, List.nil_append] at hch
    have hid : (fun x : List Nat => x) = id := rfl
    rw [hid, List.map_id] at hch
    simp only [List.range_eq_range'] at hf ⊢
    have := kcollect_chain k n (by omega) hch hend fuel [] hf
    simpa using this

theorem combos_length_le (k : Nat) (xs : List Nat) : (combos k xs).length ≤ 2 ^ xs.length := by
  induction xs generalizing k with
  | nil => cases k <;> simp [combos]
  | cons x r ih =>
    cases k with
    | zero => simp [combos]; exact Nat.one_le_two_pow
    | succ k =>
      simp only [combos, List.length_append, List.length_map, List.length_cons, Nat.pow_succ]
      have := ih k; have := ih (k + 1); omega

/-- **powerset_iterator**: the empty set, then the 1-subsets, the 2-subsets, … -/
theorem powerset_eq_combos (n fuel : Nat) (hf : 2 ^ n ≤ fuel) :
    powerset n fuel = (List.range (n + 1)).flatMap (fun k => combos k (List.range n)) := by
  unfold powerset
  rw [List.range_succ_eq_map, List.flatMap_cons, List.flatMap_map]
  have h0 : combos 0 (List.range n) = [[]] := by simp [combos]
  rw [h0, List.flatMap_def]
  congr 2
  apply List.map_congr_left
  intro k _
  apply kSubsets_eq_combos _ _ (by omega)
  have := combos_length_le (k + 1) (List.range n)
  simp at this; omega

/-- what `combos` contains: exactly the `k`-element sub-lists (subsets in position order) … -/
theorem mem_combos (k : Nat) (xs l : List Nat) : l ∈ combos k xs ↔ l.Sublist xs ∧ l.length = k := by
  induction xs generalizing k l with
  | nil =>
    cases k with
    | zero => simp [combos]
    | succ k =>
      simp only [combos, List.not_mem_nil, false_iff, List.sublist_nil]
      rintro ⟨rfl, h⟩; simp at h
  | cons x r ih =>
    cases k with
    | zero =>
      simp only [combos, List.mem_singleton]
      constructor
      · rintro rfl; simp
      · rintro ⟨_, h⟩; exact List.length_eq_zero_iff.mp h
    | succ k =>
      simp only [combos, List.mem_append, List.mem_map, ih, List.sublist_cons_iff]
      constructor
      · rintro (⟨l', ⟨h1, h2⟩, rfl⟩ | ⟨h1, h2⟩)
        · exact ⟨Or.inr ⟨l', rfl, h1⟩, by simp [h2]⟩
        · exact ⟨Or.inl h1, h2⟩
      · rintro ⟨h1 | ⟨l', rfl, h1⟩, h2⟩
        · exact Or.inr ⟨h1, h2⟩
        · exact Or.inl ⟨l', ⟨h1, by simpa using h2⟩, rfl⟩

/-- … each exactly once -/
theorem combos_nodup (k : Nat) (xs : List Nat) (hx : xs.Nodup) : (combos k xs).Nodup := by
  induction xs generalizing k with
  | nil => cases k <;> simp [combos]
  | cons x r ih =>
    cases k with
    | zero => simp [combos]
    | succ k =>
      have hx' := List.nodup_cons.mp hx
      simp only [combos]
      rw [List.nodup_append]
      refine ⟨nodup_map_cons x (ih k hx'.2), ih (k + 1) hx'.2, ?_⟩
      intro a ha b hb hab
      subst hab
      obtain ⟨l', _, rfl⟩ := List.mem_map.mp ha
      have := ((mem_combos _ _ _).mp hb).1
      exact hx'.1 (this.subset (by simp))

/-- sub-lists of `[lo, lo+d)` = strictly increasing lists of numbers of that interval -/
theorem sublist_range'_iff (l : List Nat) : ∀ (lo d : Nat),
    l.Sublist (List.range' lo d) ↔ l.Pairwise (· < ·) ∧ ∀ x ∈ l, lo ≤ x ∧ x < lo + d := by
  induction l with
  | nil => intro lo d; simp
  | cons x l ih =>
    intro lo d
    constructor
    · intro h
      refine ⟨List.Pairwise.sublist h List.pairwise_lt_range', ?_⟩
      intro y hy
      have := h.subset hy
      simp [List.mem_range'] at this
      omega
    · rintro ⟨hp, hb⟩
      have hp' := List.pairwise_cons.mp hp
      obtain ⟨hx1, hx2⟩ := hb x (by simp)
      have hsplit : List.range' lo d = List.range' lo (x - lo) ++ x :: List.range' (x + 1) (lo + d - x - 1) := by
        have h1 : d = (x - lo) + ((lo + d - x - 1) + 1) := by omega
        have h2 : x = lo + (x - lo) := by omega
        conv => lhs; rw [h1, ← List.range'_append_1]
        rw [List.range'_succ, ← h2]
      rw [hsplit]
      apply List.Sublist.trans _ (List.sublist_append_right _ _)
      apply List.Sublist.cons_cons
      apply (ih (x + 1) (lo + d - x - 1)).mpr
      refine ⟨hp'.2, ?_⟩
      intro y hy
      have := hp'.1 y hy
      have := (hb y (by simp [hy])).2
      omega

end SgVerif.C44
