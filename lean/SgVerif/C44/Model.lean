/-
C44 — executable model of the UDPOR set algebra (src/mc/explo/udpor/{EventSet,History,UnfoldingEvent,Configuration,
maximal_subsets_iterator}.cpp) and of the generic enumerators of src/xbt/utils/iter/{subsets,powerset,variable_for_loop}.hpp.
Core-only (no Mathlib).

Events are `Nat` ids `0 … N-1`; `ES.causes[i]` = `UnfoldingEvent::immediate_causes` of event `i`.
`dep i j` = `event_i->is_dependent_with(event_j)` = `transition_i->dispatch_depends(transition_j)` is a PARAMETER
(arbitrary relation; its correctness is C39).

An `EventSet` (`std::unordered_set<const UnfoldingEvent*>`) is a `List Nat` read as a set: the operations below never
rely on the order or multiplicity of the list and every theorem is stated on membership.  Where the C++ takes "the
first element of the hash set" (`*frontier.begin()`), the model takes a PARAMETER `pick` about which the theorems only
assume that it returns a member of a non-empty list — i.e. the theorems hold for every hash order.
-/
namespace SgVerif.C44

abbrev EventSet := List Nat

namespace EventSet
/-- `EventSet::contains(e)` -/
def contains (s : EventSet) (e : Nat) : Bool := s.elem e
/-- `EventSet::insert(e)` (set semantics of unordered_set::insert) -/
def insert (s : EventSet) (e : Nat) : EventSet := if s.elem e then s else s ++ [e]
/-- `EventSet::remove(e)` -/
def remove (s : EventSet) (e : Nat) : EventSet := s.filter (· != e)
/-- `EventSet::subtracting(other)`: copy, then erase every element of `other` -/
def subtract (s o : EventSet) : EventSet := s.filter (fun e => !o.elem e)
/-- `EventSet::make_union(other)`: copy, then insert every element of `other` -/
def union (s o : EventSet) : EventSet := o.foldl insert s
/-- `EventSet::make_intersection(other)` -/
def inter (s o : EventSet) : EventSet := o.filter (fun e => s.elem e)
/-- `EventSet::is_subset_of(other)`: `subtracting(other).empty()` -/
def isSubsetOf (s o : EventSet) : Bool := (subtract s o).isEmpty
/-- `EventSet::operator==` (unordered_set equality: same elements) -/
def eqSet (s o : EventSet) : Bool := isSubsetOf s o && isSubsetOf o s
/-- `EventSet::intersects(other)` -/
def intersects (s o : EventSet) : Bool := o.any (fun e => s.elem e)
end EventSet

/-- a finite event structure: immediate causes per event id -/
structure ES where
  causes : List (List Nat)

def ES.n (es : ES) : Nat := es.causes.length
/-- `UnfoldingEvent::get_immediate_causes()` -/
def ES.causesOf (es : ES) (e : Nat) : List Nat := (es.causes[e]?).getD []

/-- state of `History::Iterator` (without configuration) -/
structure HistState where
  frontier : EventSet
  history : EventSet      -- current_history
  maximal : EventSet      -- maximal_events

/-- `History::Iterator::Iterator(initial_events)` -/
def HistState.init (s : EventSet) : HistState := ⟨s, [], s⟩

section
variable (pick : List Nat → Option Nat)

/-- `History::Iterator::increment()` with `configuration == nullopt`:
```
const UnfoldingEvent* e = *frontier.begin();  frontier.remove(e);
current_history.insert(e);
EventSet candidates = e->get_immediate_causes();
maximal_events.subtract(candidates);
candidates.subtract(current_history);
frontier.form_union(candidates);
``` -/
def histStep (es : ES) (st : HistState) : HistState :=
  match pick st.frontier with
  | none => st        -- `if (not frontier.empty())` is false
  | some e =>
    let frontier := EventSet.remove st.frontier e
    let history := EventSet.insert st.history e
    let cands := es.causesOf e
    let maximal := EventSet.subtract st.maximal cands
    let cands := EventSet.subtract cands history
    ⟨EventSet.union frontier cands, history, maximal⟩

/-- `for (; first != last; ++first);` — `last` has an empty frontier and `equal` compares frontiers.  The loop is
bounded by `fuel`; `Lemmas.histRun_done` proves that `es.n` steps always suffice (each step adds a new event). -/
def histRun (es : ES) : Nat → HistState → HistState
  | 0, st => st
  | fuel + 1, st => if st.frontier.isEmpty then st else histRun es fuel (histStep pick es st)

/-- final iterator state of `History(events)` -/
def histFinal (es : ES) (s : EventSet) : HistState := histRun pick es es.n (HistState.init s)

/-- `History::get_all_events()` (also `EventSet::get_local_config`) -/
def getAllEvents (es : ES) (s : EventSet) : EventSet := (histFinal pick es s).history
/-- `History::get_all_maximal_events()` = `EventSet::get_largest_maximal_subset()` -/
def getAllMaximalEvents (es : ES) (s : EventSet) : EventSet := (histFinal pick es s).maximal
/-- `History::contains(e)`: `std::any_of(begin, end, == e)`; the iteration dereferences every popped event, i.e. exactly
the events that end up in `current_history` -/
def historyContains (es : ES) (s : EventSet) (e : Nat) : Bool := (getAllEvents pick es s).elem e

/-- `UnfoldingEvent::get_local_config()` = `History(this).get_all_events()` -/
def localConfig (es : ES) (e : Nat) : EventSet := getAllEvents pick es [e]
/-- `UnfoldingEvent::get_history()` -/
def getHistory (es : ES) (e : Nat) : EventSet := EventSet.remove (localConfig pick es e) e
/-- `this->in_history_of(other)` = `History(other).contains(this)` (reflexive!) -/
def inHistoryOf (es : ES) (e other : Nat) : Bool := historyContains pick es [other] e
/-- `UnfoldingEvent::related_to` -/
def relatedTo (es : ES) (a b : Nat) : Bool := inHistoryOf pick es a b || inHistoryOf pick es b a

variable (dep : Nat → Nat → Bool)

/-- `UnfoldingEvent::conflicts_with(other)` -/
def conflictsWith (es : ES) (a b : Nat) : Bool :=
  if relatedTo pick es a b then false
  else
    let mine := localConfig pick es a
    let theirs := localConfig pick es b
    let uniqueToMe := EventSet.subtract mine theirs
    let uniqueToOther := EventSet.subtract theirs mine
    uniqueToMe.any (fun e => dep e b) || uniqueToOther.any (fun e => dep e a)

/-- `this->conflicts_with_any(events)`: `any_of(events, e->conflicts_with(this))` -/
def conflictsWithAny (es : ES) (a : Nat) (s : EventSet) : Bool := s.any (fun e => conflictsWith pick dep es e a)

/-- `EventSet::is_conflict_free()`: `none_of` over `variable_for_loop{*this, *this}` (all ordered pairs) -/
def isConflictFree (es : ES) (s : EventSet) : Bool :=
  !(s.any (fun e1 => s.any (fun e2 => conflictsWith pick dep es e1 e2)))

/-- `EventSet::contains(const History&)`: `all_of(history, contains)` -/
def containsHistory (es : ES) (s hist : EventSet) : Bool := (getAllEvents pick es hist).all (fun e => s.elem e)

/-- `EventSet::is_valid_configuration()`: `contains(History(*this)) && is_conflict_free()` -/
def isValidConfiguration (es : ES) (s : EventSet) : Bool :=
  containsHistory pick es s s && isConflictFree pick dep es s

/-- `EventSet::is_maximal()`: `*this == get_largest_maximal_subset()` -/
def isMaximal (es : ES) (s : EventSet) : Bool := EventSet.eqSet s (getAllMaximalEvents pick es s)

/-- `UnfoldingEvent::immediately_conflicts_with(other)` -/
def immediatelyConflictsWith (es : ES) (a b : Nat) : Bool :=
  if !conflictsWith pick dep es a b then false
  else
    let combined := getAllEvents pick es [a, b]
    if !isValidConfiguration pick dep es (EventSet.remove combined a) then false
    else if !isValidConfiguration pick dep es (EventSet.remove combined b) then false
    else true

/-- outcome of `Configuration::add_event(e)` on a configuration whose event set is `c` -/
inductive AddResult where
  | unchanged          -- already a member
  | conflict           -- throws: conflicts with the configuration
  | missingHistory     -- throws: dependencies missing (NB: the event HAS been inserted at that point)
  | added
  deriving DecidableEq, Repr

/-- `Configuration::add_event(e)`: membership test, `conflicts_with_any`, insert, `contains(History(e))` -/
def addEvent (es : ES) (c : EventSet) (e : Nat) : AddResult :=
  if c.elem e then .unchanged
  else if conflictsWithAny pick dep es e c then .conflict
  else if !containsHistory pick es (EventSet.insert c e) [e] then .missingHistory
  else .added

/-- `Configuration::is_compatible_with(e)` -/
def isCompatibleWith (es : ES) (c : EventSet) (e : Nat) : Bool :=
  (getHistory pick es e).all (fun x => c.elem x) && !conflictsWithAny pick dep es e c

end

/-! ### maximal_subsets_iterator -/

/-- iterator state.  `ord` = `topological_ordering` (events of the set, effects before causes);
`backtrack` = stack of positions in `ord` (head = top); `counts[e]` = `Bookkeeper::event_counts` -/
structure MaxIter where
  ord : List Nat
  started : Bool
  maxSize : Option Nat
  cur : Option EventSet
  backtrack : List Nat
  counts : List Nat

/-- `Bookkeeper::is_candidate_event` -/
def MaxIter.isCandidate (it : MaxIter) (e : Nat) : Bool := (it.counts[e]?).getD 0 == 0

/-- `Bookkeeper::find_next_candidate_event(first, end)`: position of the first candidate at or after `first` -/
def MaxIter.findNext (it : MaxIter) (first : Nat) : Option Nat :=
  ((List.range it.ord.length).drop first).find? (fun p => match it.ord[p]? with
    | some e => it.isCandidate e
    | none => false)

def bump (f : Nat → Nat) (counts : List Nat) (lc : EventSet) : List Nat :=
  lc.foldl (fun c h => if h < c.length then c.set h (f ((c[h]?).getD 0)) else c ++ List.replicate (h - c.length) 0 ++ [f 0]) counts

/-- `can_grow_maximal_set` -/
def MaxIter.canGrow (it : MaxIter) : Bool :=
  match it.cur, it.maxSize with
  | none, _ => true
  | some c, some m => decide (c.length < m)
  | some _, none => true

section
variable (pick : List Nat → Option Nat)

/-- `add_element_to_current_maximal_set(e)` + `backtrack_points.push(pos)` -/
def MaxIter.add (es : ES) (it : MaxIter) (pos e : Nat) : MaxIter :=
  { it with cur := it.cur.map (fun c => EventSet.insert c e),
            counts := bump (· + 1) it.counts (localConfig pick es e),
            backtrack := pos :: it.backtrack }

/-- `remove_element_from_current_maximal_set(e)` -/
def MaxIter.del (es : ES) (it : MaxIter) (e : Nat) : MaxIter :=
  { it with cur := it.cur.map (fun c => EventSet.remove c e),
            counts := bump (· - 1) it.counts (localConfig pick es e) }

/-- the backtracking `while` loop of `continue_traversal_of_maximal_events_tree` -/
def MaxIter.backtrackLoop (es : ES) : Nat → MaxIter → MaxIter × Option Nat
  | 0, it => (it, none)
  | fuel + 1, it =>
    match it.backtrack with
    | [] => (it, none)
    | latest :: restStack =>
      let it := (MaxIter.del pick es it ((it.ord[latest]?).getD 0))
      let it := { it with backtrack := restStack }
      match it.findNext (latest + 1) with
      | some p => (it, some p)
      | none => MaxIter.backtrackLoop es fuel it

/-- `continue_traversal_of_maximal_events_tree()` -/
def MaxIter.continueTraversal (es : ES) (it : MaxIter) : MaxIter × Option Nat :=
  match it.backtrack with
  | [] => (it, none)
  | latest :: _ =>
    match (if it.canGrow then it.findNext latest else none) with
    | some p => (it, some p)
    | none => MaxIter.backtrackLoop pick es (it.backtrack.length + 1) it

/-- `maximal_subsets_iterator::increment()` -/
def MaxIter.increment (es : ES) (it : MaxIter) : MaxIter :=
  match it.cur with
  | none => it
  | some _ =>
    if it.ord.isEmpty then { it with cur := none }
    else
      let (it, next) :=
        if !it.started then ({ it with started := true }, { it with started := true }.findNext 0)
        else MaxIter.continueTraversal pick es it
      match next with
      | none => { it with cur := none }
      | some p => MaxIter.add pick es it p ((it.ord[p]?).getD 0)

/-- `for (it = begin; it != end; ++it) yield *it` — `end` has `current_maximal_set == nullopt` -/
def MaxIter.collect (es : ES) : Nat → MaxIter → List EventSet → List EventSet
  | 0, _, acc => acc.reverse
  | fuel + 1, it, acc =>
    match it.cur with
    | none => acc.reverse
    | some c => MaxIter.collect es fuel (MaxIter.increment pick es it) (c :: acc)

/-- `maximal_subsets_iterator(events, nullopt, maxSize)` given the topological ordering of the reverse graph that the
constructor computed; `current_maximal_set({EventSet()})` -/
def maximalSubsets (es : ES) (ord : List Nat) (maxSize : Option Nat) (fuel : Nat) : List EventSet :=
  MaxIter.collect pick es fuel ⟨ord, false, maxSize, some [], [], []⟩ []

end

/-! ### src/xbt/utils/iter -/

/-- `subsets_iterator` over a container of `n` elements; `P` = positions (`current_subset[i] = begin + P[i]`, kept in
lock-step by the code); `ended` = `end == nullopt` -/
structure SubsetsIter where
  k : Nat
  n : Nat
  ended : Bool
  P : List Nat

/-- `subsets_iterator(k, begin, end)`: fewer than `k` elements → equivalent to the end iterator -/
def SubsetsIter.init (k n : Nat) : SubsetsIter :=
  if n < k then ⟨k, n, true, (List.range k).map (· + k)⟩ else ⟨k, n, false, List.range k⟩

/-- the search `for (j = k-2; j > 0; j--) if (P[j] != n - (k - j)) { l = j; break; }` (l = 0 by default) -/
def findL (P : List Nat) (n k : Nat) : Nat → Nat
  | 0 => 0
  | j + 1 => if (P[j + 1]?).getD 0 != n - (k - (j + 1)) then j + 1 else findL P n k j

/-- `subsets_iterator::increment()` -/
def SubsetsIter.increment (it : SubsetsIter) : SubsetsIter :=
  if it.ended || it.k == 0 then it
  else
    let k := it.k
    let P := it.P.set (k - 1) ((it.P[k - 1]?).getD 0 + 1)
    if (P[k - 1]?).getD 0 == it.n then          -- current_subset[k-1] == end
      if k == 1 then { it with ended := true, P := P }
      else
        let n := (P[k - 1]?).getD 0
        let l := findL P n k (k - 2)
        let P := P.set l ((P[l]?).getD 0 + 1)
        if (P[0]?).getD 0 > n - k then { it with ended := true, P := P }
        else
          let pl := (P[l]?).getD 0
          let P := (List.range k).map (fun i => if i ≤ l then (P[i]?).getD 0 else pl + (i - l))
          { it with P := P }
    else { it with P := P }

/-- `it != end` for `end = subsets_iterator(k)`: equal iff `it.ended`, or `k == 0` -/
def SubsetsIter.atEnd (it : SubsetsIter) : Bool := it.ended || it.k == 0

/-- `for (it = begin; it != end; ++it) yield *it` (`LazyKSubsets`) -/
def SubsetsIter.collect : Nat → SubsetsIter → List (List Nat) → List (List Nat)
  | 0, _, acc => acc.reverse
  | fuel + 1, it, acc => if it.atEnd then acc.reverse else SubsetsIter.collect fuel it.increment (it.P :: acc)

def kSubsets (k n fuel : Nat) : List (List Nat) := SubsetsIter.collect fuel (SubsetsIter.init k n) []

/-- `powerset_iterator`: yields the (empty) dereference of the k = 0 iterator first, then for n = 1, 2, … all the
n-subsets, until the constructor of the n-subsets iterator is immediately at its end -/
def powerset (n fuel : Nat) : List (List Nat) :=
  [] :: ((List.range n).map (fun k => kSubsets (k + 1) n fuel)).flatten

/-- `variable_for_loop` over collections of the given sizes: state = positions, `none` = `current_subset.empty()` -/
def vflInit (sizes : List Nat) : Option (List Nat) :=
  if sizes.isEmpty || sizes.any (· == 0) then none else some (sizes.map (fun _ => 0))

/-- `variable_for_loop::increment()`: odometer from the last index -/
def vflIncr (sizes : List Nat) (cur : List Nat) : Option (List Nat) :=
  -- walk from the last index: returns (new suffix, carry)
  let rec go : List Nat → List Nat → List Nat × Bool
    | [], [] => ([], true)
    | s :: ss, c :: cs =>
      let (rest, carry) := go ss cs
      if carry then
        if c + 1 == s then (0 :: rest, true) else ((c + 1) :: rest, false)
      else (c :: rest, false)
    | _, _ => ([], true)
  let (r, completed) := go sizes cur
  if completed then none else some r

def vflCollect (sizes : List Nat) : Nat → Option (List Nat) → List (List Nat) → List (List Nat)
  | 0, _, acc => acc.reverse
  | _ + 1, none, acc => acc.reverse
  | fuel + 1, some c, acc => vflCollect sizes fuel (vflIncr sizes c) (c :: acc)

def variableForLoop (sizes : List Nat) (fuel : Nat) : List (List Nat) := vflCollect sizes fuel (vflInit sizes) []

/-! ### EventSet::get_topological_ordering (src/mc/explo/udpor/EventSet.cpp) -/

/-- local variables of `get_topological_ordering`: `event_stack` (head = top), `topological_ordering`, `unknown_events`,
`temporarily_marked_events`, `permanently_marked_events`, `discovered_events` -/
structure TopoState where
  stack : List Nat
  out : List Nat
  unknown : EventSet
  temp : EventSet
  perm : EventSet
  disc : EventSet

inductive InnerRes where
  | cycle                    -- `throw std::invalid_argument(... contain a cycle ...)`
  | fuel                     -- the bound of the model was hit (proved impossible, `Props.topological_ordering_valid`)
  | done (st : TopoState)

inductive TopoRes where
  | cycle | fuel | ok (l : List Nat)
  deriving DecidableEq, Repr

/-- the largest number of immediate causes of an event -/
def ES.maxCauses (es : ES) : Nat := (es.causes.map List.length).foldl max 0

section
/- `skipEmitted = true` is the code after commit e7a2e0d8bb ("already-emitted events are skipped"); `false` the code
before it (kept for the regression theorem).  `pick` = `*unknown_events.begin()`; `order evt l` = the order in which
`std::for_each(immediate_causes.begin(), …)` visits the remaining causes `l` of `evt` (hash order: any permutation). -/
variable (skipEmitted : Bool) (pick : List Nat → Option Nat) (order : Nat → List Nat → List Nat)

/-- the inner `while (not event_stack.empty())` loop -/
def topoInner (es : ES) (s : EventSet) : Nat → TopoState → InnerRes
  | 0, st => if st.stack.isEmpty then .done st else .fuel
  | fuel + 1, st =>
    match st.stack with
    | [] => .done st
    | evt :: rest =>
      -- `if (permanently_marked_events.contains(evt)) { event_stack.pop(); continue; }`
      if skipEmitted && st.perm.elem evt then topoInner es s fuel { st with stack := rest }
      else
        let disc := EventSet.insert st.disc evt
        if !st.temp.elem evt then
          let temp := EventSet.insert st.temp evt
          let causes := es.causesOf evt
          if !causes.isEmpty && EventSet.isSubsetOf causes temp then .cycle
          else
            let c := EventSet.subtract (EventSet.subtract causes disc) st.perm
            -- each remaining cause is pushed: the last one visited by `for_each` ends on top
            topoInner es s fuel { st with disc := disc, temp := temp, stack := (order evt c).reverse ++ st.stack }
        else
          topoInner es s fuel
            { stack := rest,
              out := if s.elem evt then st.out ++ [evt] else st.out,      -- `if (this->contains(evt)) push_back`
              unknown := EventSet.remove st.unknown evt,
              temp := EventSet.remove st.temp evt,
              perm := EventSet.insert st.perm evt,
              disc := disc }

/-- enough for the inner loop (`Lemmas`: every step decreases `stack.length + (maxCauses + 1) * #unmarked events`) -/
def ES.innerFuel (es : ES) : Nat := 1 + (es.maxCauses + 1) * es.n

/-- the outer `while (not unknown_events.empty())` loop -/
def topoOuter (es : ES) (s : EventSet) : Nat → TopoState → TopoRes
  | 0, st =>
    match pick st.unknown with
    | none => .ok st.out
    | some _ => .fuel
  | fuel + 1, st =>
    match pick st.unknown with
    | none => .ok st.out
    | some u =>
      match topoInner skipEmitted order es s es.innerFuel { st with disc := [], stack := [u] } with
      | .cycle => .cycle
      | .fuel => .fuel
      | .done st' => topoOuter es s fuel st'

/-- `EventSet::get_topological_ordering()` -/
def getTopologicalOrdering (es : ES) (s : EventSet) : TopoRes :=
  if s.isEmpty then .ok [] else topoOuter skipEmitted pick order es s s.length ⟨[], [], s, [], [], []⟩

/-- `EventSet::get_topological_ordering_of_reverse_graph()` -/
def getTopologicalOrderingOfReverseGraph (es : ES) (s : EventSet) : TopoRes :=
  match getTopologicalOrdering skipEmitted pick order es s with
  | .ok l => .ok l.reverse
  | r => r

end

/-! ### recursive SPECIFICATIONS of the enumerators (what the machines above are proved equal to in Props.lean) -/

/-- all `k`-element sub-lists of `xs`, in lexicographic order of positions -/
def combos : Nat → List Nat → List (List Nat)
  | 0, _ => [[]]
  | _ + 1, [] => []
  | k + 1, x :: r => (combos k r).map (x :: ·) ++ combos (k + 1) r

/-- all tuples `(i₀, i₁, …)` with `i_j < sizes[j]`, in lexicographic order -/
def product : List Nat → List (List Nat)
  | [] => [[]]
  | s :: r => (List.range s).flatMap (fun i => (product r).map (i :: ·))

/-- `maximal_subsets_iterator::can_grow_maximal_set` on a set of `len` events -/
def canGrowLen (maxSize : Option Nat) (len : Nat) : Bool :=
  match maxSize with
  | some m => decide (len < m)
  | none => true

/-- depth-first (pre-order) enumeration of the non-empty extensions `c ++ s` of `c` by sub-lists `s` of the candidate
list whose every element `e` passes the test `ok` against the set built so far, limited to `maxSize` elements -/
def dfsL (ok : EventSet → Nat → Bool) (maxSize : Option Nat) : EventSet → List Nat → List EventSet
  | _, [] => []
  | c, e :: r =>
    if ok c e then
      (c ++ [e]) :: ((if canGrowLen maxSize (c.length + 1) then dfsL ok maxSize (c ++ [e]) r else []) ++ dfsL ok maxSize c r)
    else dfsL ok maxSize c r

end SgVerif.C44
