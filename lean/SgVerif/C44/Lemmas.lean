import SgVerif.C44.Model
/-
C44 — EventSet algebra at membership level, the causal order `Le` (the SPEC), the invariant of the History work-list
iteration, and its termination within `es.n` steps.  Core-only.
-/
namespace SgVerif.C44

/-! ### EventSet algebra -/
namespace EventSet

theorem mem_insert {s : EventSet} {e x : Nat} : x ∈ insert s e ↔ x ∈ s ∨ x = e := by
  unfold insert
  split
  · rename_i h
    constructor
    · exact Or.inl
    · rintro (h1 | rfl)
      · exact h1
      · simpa using h
  · simp

theorem mem_remove {s : EventSet} {e x : Nat} : x ∈ remove s e ↔ x ∈ s ∧ x ≠ e := by
  unfold remove; simp

theorem mem_subtract {s o : EventSet} {x : Nat} : x ∈ subtract s o ↔ x ∈ s ∧ x ∉ o := by
  unfold subtract; simp

theorem mem_union {s o : EventSet} {x : Nat} : x ∈ union s o ↔ x ∈ s ∨ x ∈ o := by
  unfold union
  induction o generalizing s with
  | nil => simp
  | cons a r ih =>
    simp only [List.foldl_cons, List.mem_cons]
    rw [ih, mem_insert]
    constructor
    · rintro ((h | h) | h)
      · exact Or.inl h
      · exact Or.inr (Or.inl h)
      · exact Or.inr (Or.inr h)
    · rintro (h | h | h)
      · exact Or.inl (Or.inl h)
      · exact Or.inl (Or.inr h)
      · exact Or.inr h

theorem mem_inter {s o : EventSet} {x : Nat} : x ∈ inter s o ↔ x ∈ s ∧ x ∈ o := by
  unfold inter; simp [And.comm]

theorem isSubsetOf_iff {s o : EventSet} : isSubsetOf s o = true ↔ ∀ x ∈ s, x ∈ o := by
  unfold isSubsetOf
  rw [List.isEmpty_iff]
  constructor
  · intro h x hx
    apply Classical.byContradiction
    intro hn
    have : x ∈ subtract s o := mem_subtract.mpr ⟨hx, hn⟩
    rw [h] at this; cases this
  · intro h
    apply List.eq_nil_iff_forall_not_mem.mpr
    intro x hx
    obtain ⟨h1, h2⟩ := mem_subtract.mp hx
    exact h2 (h x h1)

theorem eqSet_iff {s o : EventSet} : eqSet s o = true ↔ ∀ x, x ∈ s ↔ x ∈ o := by
  unfold eqSet
  rw [Bool.and_eq_true, isSubsetOf_iff, isSubsetOf_iff]
  constructor
  · intro ⟨h1, h2⟩ x; exact ⟨h1 x, h2 x⟩
  · intro h; exact ⟨fun x hx => (h x).mp hx, fun x hx => (h x).mpr hx⟩

theorem intersects_iff {s o : EventSet} : intersects s o = true ↔ ∃ x, x ∈ s ∧ x ∈ o := by
  unfold intersects
  simp only [List.any_eq_true, List.elem_eq_mem, decide_eq_true_eq]
  constructor
  · rintro ⟨x, h1, h2⟩; exact ⟨x, h2, h1⟩
  · rintro ⟨x, h1, h2⟩; exact ⟨x, h2, h1⟩

end EventSet

/-! ### the causal order (SPEC) -/

/-- `Le es x y`: `x` is `y` or a (transitive) cause of `y` — the reflexive-transitive closure of "immediate cause" -/
inductive Le (es : ES) : Nat → Nat → Prop
  | refl (x : Nat) : Le es x x
  | step {x c y : Nat} : c ∈ es.causesOf y → Le es x c → Le es x y

/-- strict: `x` is below an immediate cause of `y` -/
def Lt (es : ES) (x y : Nat) : Prop := ∃ c, c ∈ es.causesOf y ∧ Le es x c

theorem Le.trans {es : ES} {x y z : Nat} (h1 : Le es x y) (h2 : Le es y z) : Le es x z := by
  induction h2 with
  | refl => exact h1
  | step hc _ ih => exact Le.step hc ih

theorem lt_of_cause_le {es : ES} {m x y : Nat} (hm : m ∈ es.causesOf x) (h : Le es x y) : Lt es m y := by
  induction h with
  | refl => exact ⟨m, hm, Le.refl m⟩
  | step hc _ ih =>
    obtain ⟨c'', hc'', hle⟩ := ih
    exact ⟨_, hc, Le.step hc'' hle⟩

theorem cause_of_lt {es : ES} {m y : Nat} (h : Lt es m y) : ∃ x, Le es x y ∧ m ∈ es.causesOf x := by
  obtain ⟨c, hc, hle⟩ := h
  have key : ∀ {m c : Nat}, Le es m c → ∀ y, c ∈ es.causesOf y → ∃ x, Le es x y ∧ m ∈ es.causesOf x := by
    intro m c hle
    induction hle with
    | refl => intro y hc; exact ⟨y, Le.refl y, hc⟩
    | step hc2 _ ih =>
      intro y hc
      obtain ⟨x, hx, hm⟩ := ih _ hc2
      exact ⟨x, Le.step hc hx, hm⟩
  exact key hle y hc

/-- every cause of every event is an event id below `es.n` -/
def ES.Valid (es : ES) : Prop := ∀ e c, c ∈ es.causesOf e → c < es.n

/-! ### the History iteration -/

section
variable {pick : List Nat → Option Nat}

/-- what the theorems assume about `*frontier.begin()`: it is an element of the (non-empty) frontier -/
structure PickOk (pick : List Nat → Option Nat) : Prop where
  mem : ∀ l x, pick l = some x → x ∈ l
  some : ∀ l, l ≠ [] → ∃ x, pick l = some x

/-- invariant of the iterator state while traversing the history of `s` -/
structure HInv (es : ES) (s : EventSet) (st : HistState) : Prop where
  sound : ∀ x, x ∈ st.history ∨ x ∈ st.frontier → ∃ y, y ∈ s ∧ Le es x y
  cover : ∀ y, y ∈ s → y ∈ st.history ∨ y ∈ st.frontier
  closed : ∀ x, x ∈ st.history → ∀ c, c ∈ es.causesOf x → c ∈ st.history ∨ c ∈ st.frontier
  disjoint : ∀ x, x ∈ st.frontier → x ∉ st.history
  maxi : ∀ m, m ∈ st.maximal ↔ m ∈ s ∧ ∀ x, x ∈ st.history → m ∉ es.causesOf x
  bounded : ∀ x, x ∈ st.frontier → x < es.n

theorem hinv_init (es : ES) (s : EventSet) (hs : ∀ x ∈ s, x < es.n) : HInv es s (HistState.init s) := by
  refine ⟨?_, ?_, ?_, ?_, ?_, ?_⟩
  · intro x hx
    rcases hx with hx | hx
    · simp [HistState.init] at hx
    · exact ⟨x, hx, Le.refl x⟩
  · intro y hy; exact Or.inr hy
  · intro x hx; simp [HistState.init] at hx
  · intro x _ hx; simp [HistState.init] at hx
  · intro m; simp [HistState.init]
  · intro x hx; exact hs x hx

theorem hinv_step (hp : PickOk pick) {es : ES} (hv : es.Valid) {s : EventSet} {st : HistState} (h : HInv es s st)
    {e : Nat} (he : pick st.frontier = some e) : HInv es s (histStep pick es st) := by
  have hef : e ∈ st.frontier := hp.mem _ _ he
  unfold histStep
  simp only [he]
  refine ⟨?_, ?_, ?_, ?_, ?_, ?_⟩
  · intro x hx
    rcases hx with hx | hx
    · rcases EventSet.mem_insert.mp hx with hx | rfl
      · exact h.sound x (Or.inl hx)
      · exact h.sound x (Or.inr hef)
    · rcases EventSet.mem_union.mp hx with hx | hx
      · exact h.sound x (Or.inr (EventSet.mem_remove.mp hx).1)
      · obtain ⟨hc, _⟩ := EventSet.mem_subtract.mp hx
        obtain ⟨y, hy, hle⟩ := h.sound e (Or.inr hef)
        exact ⟨y, hy, (Le.step hc (Le.refl x)).trans hle⟩
  · intro y hy
    rcases h.cover y hy with hy | hy
    · exact Or.inl (EventSet.mem_insert.mpr (Or.inl hy))
    · by_cases hye : y = e
      · exact Or.inl (EventSet.mem_insert.mpr (Or.inr hye))
      · exact Or.inr (EventSet.mem_union.mpr (Or.inl (EventSet.mem_remove.mpr ⟨hy, hye⟩)))
  · intro x hx c hc
    have cases_c : ∀ c, (c ∈ st.history ∨ c ∈ st.frontier) →
        c ∈ EventSet.insert st.history e ∨
        c ∈ EventSet.union (EventSet.remove st.frontier e) (EventSet.subtract (es.causesOf e) (EventSet.insert st.history e)) := by
      intro c hc
      rcases hc with hc | hc
      · exact Or.inl (EventSet.mem_insert.mpr (Or.inl hc))
      · by_cases hce : c = e
        · exact Or.inl (EventSet.mem_insert.mpr (Or.inr hce))
        · exact Or.inr (EventSet.mem_union.mpr (Or.inl (EventSet.mem_remove.mpr ⟨hc, hce⟩)))
    rcases EventSet.mem_insert.mp hx with hx | rfl
    · exact cases_c c (h.closed x hx c hc)
    · by_cases hch : c ∈ EventSet.insert st.history x
      · exact Or.inl hch
      · exact Or.inr (EventSet.mem_union.mpr (Or.inr (EventSet.mem_subtract.mpr ⟨hc, hch⟩)))
  · intro x hx hxh
    rcases EventSet.mem_union.mp hx with hx | hx
    · obtain ⟨h1, h2⟩ := EventSet.mem_remove.mp hx
      rcases EventSet.mem_insert.mp hxh with h3 | h3
      · exact h.disjoint x h1 h3
      · exact h2 h3
    · exact (EventSet.mem_subtract.mp hx).2 hxh
  · intro m
    rw [EventSet.mem_subtract, h.maxi m]
    constructor
    · rintro ⟨⟨h1, h2⟩, h3⟩
      refine ⟨h1, fun x hx => ?_⟩
      rcases EventSet.mem_insert.mp hx with hx | rfl
      · exact h2 x hx
      · exact h3
    · rintro ⟨h1, h2⟩
      exact ⟨⟨h1, fun x hx => h2 x (EventSet.mem_insert.mpr (Or.inl hx))⟩, h2 e (EventSet.mem_insert.mpr (Or.inr rfl))⟩
  · intro x hx
    rcases EventSet.mem_union.mp hx with hx | hx
    · exact h.bounded x (EventSet.mem_remove.mp hx).1
    · exact hv e x (EventSet.mem_subtract.mp hx).1

/-! termination: the number of events not yet in `current_history` decreases at every step -/

theorem filter_length_le (l : List Nat) (p q : Nat → Bool) (hqp : ∀ x, q x = true → p x = true) :
    (l.filter q).length ≤ (l.filter p).length := by
  induction l with
  | nil => simp
  | cons a r ih =>
    by_cases hpa : p a = true <;> by_cases hqa : q a = true
    · simp [List.filter_cons, hpa, hqa]; omega
    · simp [List.filter_cons, hpa, hqa]; omega
    · exact absurd (hqp a hqa) hpa
    · simp [List.filter_cons, hpa, hqa]; omega

theorem filter_length_lt (l : List Nat) (p q : Nat → Bool) (hqp : ∀ x, q x = true → p x = true) (e : Nat)
    (he : e ∈ l) (hpe : p e = true) (hqe : q e = false) : (l.filter q).length < (l.filter p).length := by
  induction l with
  | nil => simp at he
  | cons a r ih =>
    have hle := filter_length_le r p q hqp
    rcases List.mem_cons.mp he with rfl | her
    · simp [List.filter_cons, hpe, hqe]; omega
    · have := ih her
      by_cases hpa : p a = true <;> by_cases hqa : q a = true
      · simp [List.filter_cons, hpa, hqa]; omega
      · simp [List.filter_cons, hpa, hqa]; omega
      · exact absurd (hqp a hqa) hpa
      · simp [List.filter_cons, hpa, hqa]; omega

def mu (es : ES) (st : HistState) : Nat := ((List.range es.n).filter (fun x => !st.history.elem x)).length

theorem mu_step (hp : PickOk pick) {es : ES} {s : EventSet} {st : HistState} (h : HInv es s st) {e : Nat}
    (he : pick st.frontier = some e) : mu es (histStep pick es st) < mu es st := by
  have hef : e ∈ st.frontier := hp.mem _ _ he
  unfold mu histStep
  simp only [he]
  apply filter_length_lt _ _ _ _ e (List.mem_range.mpr (h.bounded e hef))
  · have := h.disjoint e hef; simpa using this
  · simp [EventSet.insert]
    split <;> simp_all
  · intro x hx
    simp only [Bool.not_eq_true', List.elem_eq_mem, decide_eq_false_iff_not] at hx ⊢
    intro hxh
    exact hx (EventSet.mem_insert.mpr (Or.inl hxh))

theorem histRun_done (hp : PickOk pick) {es : ES} (hv : es.Valid) {s : EventSet} :
    ∀ (fuel : Nat) (st : HistState), HInv es s st → mu es st ≤ fuel →
      (histRun pick es fuel st).frontier = [] ∧ HInv es s (histRun pick es fuel st) := by
  intro fuel
  induction fuel with
  | zero =>
    intro st h hmu
    refine ⟨?_, h⟩
    show st.frontier = []
    apply List.eq_nil_iff_forall_not_mem.mpr
    intro x hx
    have hmem : x ∈ (List.range es.n).filter (fun x => !st.history.elem x) := by
      rw [List.mem_filter]
      exact ⟨List.mem_range.mpr (h.bounded x hx), by have := h.disjoint x hx; simpa using this⟩
    unfold mu at hmu
    have : ((List.range es.n).filter (fun x => !st.history.elem x)).length = 0 := by omega
    rw [List.length_eq_zero_iff.mp this] at hmem
    cases hmem
  | succ fuel ih =>
    intro st h hmu
    unfold histRun
    by_cases hem : st.frontier.isEmpty = true
    · simp only [hem, if_true]
      exact ⟨List.isEmpty_iff.mp hem, h⟩
    · simp only [hem, Bool.false_eq_true, if_false]
      have hne : st.frontier ≠ [] := fun e => hem (List.isEmpty_iff.mpr e)
      obtain ⟨e, he⟩ := hp.some _ hne
      have := mu_step hp h he
      exact ih _ (hinv_step hp hv h he) (by omega)

theorem mu_le (es : ES) (st : HistState) : mu es st ≤ es.n := by
  unfold mu
  have := List.length_filter_le (fun x => !st.history.elem x) (List.range es.n)
  simpa using this

/-- the iteration over `History(s)` terminates within `es.n` steps with the invariant -/
theorem histFinal_spec (hp : PickOk pick) {es : ES} (hv : es.Valid) {s : EventSet} (hs : ∀ x ∈ s, x < es.n) :
    (histFinal pick es s).frontier = [] ∧ HInv es s (histFinal pick es s) :=
  histRun_done hp hv es.n _ (hinv_init es s hs) (mu_le es _)

end
end SgVerif.C44
