import SgVerif.C44.Lemmas
/-
C44 — Unfolding set algebra is correct.  Property theorems.

Every theorem is for EVERY finite event structure `es` (any number of events, any immediate-cause lists whose entries
are event ids — no acyclicity or irredundancy needed), EVERY dependency relation `dep`, EVERY set of events, and EVERY
`pick` (= which element `*frontier.begin()` returns, i.e. every hash order) — `PickOk` only says that `pick` returns
an element of a non-empty list.

NOT proved here (tied by the correspondence and monitored on every case only — see NOTES.md):
`maximal_subsets_complete_nodup`, `subsets_enumerators_complete_nodup`, validity of `get_topological_ordering`.
-/
namespace SgVerif.C44

section
variable {pick : List Nat → Option Nat} (hp : PickOk pick) {es : ES} (hv : es.Valid)
include hp hv

/-- **history_is_causal_closure**: `History(s).get_all_events()` (the iterator run to its end) is exactly the causal
closure of `s`: the events that are below-or-equal some event of `s`. -/
theorem history_is_causal_closure (s : EventSet) (hs : ∀ x ∈ s, x < es.n) (x : Nat) :
    x ∈ getAllEvents pick es s ↔ ∃ y, y ∈ s ∧ Le es x y := by
  obtain ⟨hdone, hinv⟩ := histFinal_spec hp hv hs
  unfold getAllEvents
  constructor
  · intro hx; exact hinv.sound x (Or.inl hx)
  · rintro ⟨y, hy, hle⟩
    have hyh : y ∈ (histFinal pick es s).history := by
      rcases hinv.cover y hy with h | h
      · exact h
      · rw [hdone] at h; cases h
    clear hy
    induction hle with
    | refl => exact hyh
    | step hc _ ih =>
      apply ih
      rcases hinv.closed _ hyh _ hc with h | h
      · exact h
      · rw [hdone] at h; cases h

/-- **maximal_events_spec**: `get_all_maximal_events()` / `get_largest_maximal_subset()` keeps exactly the events of
`s` that are not strictly below another event of `s`. -/
theorem maximal_events_spec (s : EventSet) (hs : ∀ x ∈ s, x < es.n) (m : Nat) :
    m ∈ getAllMaximalEvents pick es s ↔ m ∈ s ∧ ¬ ∃ y, y ∈ s ∧ Lt es m y := by
  obtain ⟨_, hinv⟩ := histFinal_spec hp hv hs
  have hclos := history_is_causal_closure hp hv s hs
  unfold getAllMaximalEvents
  rw [hinv.maxi m]
  unfold getAllEvents at hclos
  constructor
  · rintro ⟨h1, h2⟩
    refine ⟨h1, ?_⟩
    rintro ⟨y, hy, hlt⟩
    obtain ⟨x, hxy, hmx⟩ := cause_of_lt hlt
    exact h2 x ((hclos x).mpr ⟨y, hy, hxy⟩) hmx
  · rintro ⟨h1, h2⟩
    refine ⟨h1, fun x hx hmx => ?_⟩
    obtain ⟨y, hy, hxy⟩ := (hclos x).mp hx
    exact h2 ⟨y, hy, lt_of_cause_le hmx hxy⟩

/-- `get_local_config()` of an event = everything below-or-equal it -/
theorem local_config_spec (e : Nat) (he : e < es.n) (x : Nat) : x ∈ localConfig pick es e ↔ Le es x e := by
  unfold localConfig
  rw [history_is_causal_closure hp hv [e] (by simpa using he)]
  simp

/-- `get_history()` = the strict causal past -/
theorem get_history_spec (e : Nat) (he : e < es.n) (x : Nat) : x ∈ getHistory pick es e ↔ Le es x e ∧ x ≠ e := by
  unfold getHistory
  rw [EventSet.mem_remove, local_config_spec hp hv e he]

/-- `a->in_history_of(b)` is the (reflexive) causal order -/
theorem in_history_of_spec (a b : Nat) (hb : b < es.n) : inHistoryOf pick es a b = true ↔ Le es a b := by
  unfold inHistoryOf historyContains
  rw [List.elem_eq_mem, decide_eq_true_eq, history_is_causal_closure hp hv [b] (by simpa using hb)]
  simp

end

/-- SPEC of `this # other` as `conflicts_with` computes it, in terms of the causal order only: the two events are
causally unrelated and some event in the past of one (and not of the other) is dependent with the other. -/
def Conflict (es : ES) (dep : Nat → Nat → Bool) (a b : Nat) : Prop :=
  ¬ (Le es a b ∨ Le es b a) ∧
  ((∃ e, Le es e a ∧ ¬ Le es e b ∧ dep e b = true) ∨ (∃ e, Le es e b ∧ ¬ Le es e a ∧ dep e a = true))

section
variable {pick : List Nat → Option Nat} (hp : PickOk pick) {es : ES} (hv : es.Valid) (dep : Nat → Nat → Bool)
include hp hv

theorem related_to_spec (a b : Nat) (ha : a < es.n) (hb : b < es.n) :
    relatedTo pick es a b = true ↔ Le es a b ∨ Le es b a := by
  unfold relatedTo
  rw [Bool.or_eq_true, in_history_of_spec hp hv a b hb, in_history_of_spec hp hv b a ha]

/-- **conflict_spec** -/
theorem conflict_spec (a b : Nat) (ha : a < es.n) (hb : b < es.n) :
    conflictsWith pick dep es a b = true ↔ Conflict es dep a b := by
  have hrs := related_to_spec hp hv a b ha hb
  unfold conflictsWith Conflict
  by_cases hrel : relatedTo pick es a b = true
  · simp only [hrel, if_true]
    constructor
    · intro h; cases h
    · rintro ⟨h, _⟩; exact absurd (hrs.mp hrel) h
  · simp only [hrel, Bool.false_eq_true, if_false]
    rw [Bool.or_eq_true, List.any_eq_true, List.any_eq_true]
    simp only [EventSet.mem_subtract, local_config_spec hp hv a ha, local_config_spec hp hv b hb]
    constructor
    · rintro (⟨e, ⟨h1, h2⟩, h3⟩ | ⟨e, ⟨h1, h2⟩, h3⟩)
      · exact ⟨fun h => hrel (hrs.mpr h), Or.inl ⟨e, h1, h2, h3⟩⟩
      · exact ⟨fun h => hrel (hrs.mpr h), Or.inr ⟨e, h1, h2, h3⟩⟩
    · rintro ⟨_, (⟨e, h1, h2, h3⟩ | ⟨e, h1, h2, h3⟩)⟩
      · exact Or.inl ⟨e, ⟨h1, h2⟩, h3⟩
      · exact Or.inr ⟨e, ⟨h1, h2⟩, h3⟩

/-- `e->conflicts_with_any(S)` -/
theorem conflicts_with_any_spec (a : Nat) (s : EventSet) (ha : a < es.n) (hs : ∀ x ∈ s, x < es.n) :
    conflictsWithAny pick dep es a s = true ↔ ∃ e, e ∈ s ∧ Conflict es dep e a := by
  unfold conflictsWithAny
  rw [List.any_eq_true]
  constructor
  · rintro ⟨e, he, h⟩; exact ⟨e, he, (conflict_spec hp hv dep e a (hs e he) ha).mp h⟩
  · rintro ⟨e, he, h⟩; exact ⟨e, he, (conflict_spec hp hv dep e a (hs e he) ha).mpr h⟩

/-- `is_conflict_free()` -/
theorem conflict_free_spec (s : EventSet) (hs : ∀ x ∈ s, x < es.n) :
    isConflictFree pick dep es s = true ↔ ∀ a, a ∈ s → ∀ b, b ∈ s → ¬ Conflict es dep a b := by
  unfold isConflictFree
  rw [Bool.not_eq_true', ← Bool.not_eq_true, List.any_eq_true]
  constructor
  · intro h a ha b hb hc
    exact h ⟨a, ha, List.any_eq_true.mpr ⟨b, hb, (conflict_spec hp hv dep a b (hs a ha) (hs b hb)).mpr hc⟩⟩
  · rintro h ⟨a, ha, h2⟩
    obtain ⟨b, hb, hc⟩ := List.any_eq_true.mp h2
    exact h a ha b hb ((conflict_spec hp hv dep a b (hs a ha) (hs b hb)).mp hc)

/-- **valid_configuration_iff**: `is_valid_configuration()` ⇔ causally closed ∧ conflict-free -/
theorem valid_configuration_iff (s : EventSet) (hs : ∀ x ∈ s, x < es.n) :
    isValidConfiguration pick dep es s = true ↔
      (∀ y, y ∈ s → ∀ x, Le es x y → x ∈ s) ∧ (∀ a, a ∈ s → ∀ b, b ∈ s → ¬ Conflict es dep a b) := by
  unfold isValidConfiguration containsHistory
  rw [Bool.and_eq_true, conflict_free_spec hp hv dep s hs, List.all_eq_true]
  have hclos := history_is_causal_closure hp hv s hs
  constructor
  · rintro ⟨h1, h2⟩
    refine ⟨fun y hy x hle => ?_, h2⟩
    have := h1 x ((hclos x).mpr ⟨y, hy, hle⟩)
    simpa using this
  · rintro ⟨h1, h2⟩
    refine ⟨fun x hx => ?_, h2⟩
    obtain ⟨y, hy, hle⟩ := (hclos x).mp hx
    simpa using h1 y hy x hle

/-- `is_maximal()` ⇔ no event of the set is strictly below another one (the "maximal sets" the iterator enumerates) -/
theorem is_maximal_spec (s : EventSet) (hs : ∀ x ∈ s, x < es.n) :
    isMaximal pick es s = true ↔ ∀ a, a ∈ s → ∀ b, b ∈ s → ¬ Lt es a b := by
  unfold isMaximal
  rw [EventSet.eqSet_iff]
  have hm := maximal_events_spec hp hv s hs
  constructor
  · intro h a ha b hb hlt
    exact ((hm a).mp ((h a).mp ha)).2 ⟨b, hb, hlt⟩
  · intro h x
    rw [hm x]
    constructor
    · intro hx; exact ⟨hx, fun ⟨y, hy, hlt⟩ => h x hx y hy hlt⟩
    · intro hx; exact hx.1

/-- `Configuration::add_event(e)` succeeds exactly when its two preconditions hold: `e` conflicts with no event of the
configuration and the whole causal past of `e` is in it -/
theorem add_event_spec (c : EventSet) (e : Nat) (he : e < es.n) (hc : ∀ x ∈ c, x < es.n) :
    addEvent pick dep es c e = AddResult.added ↔
      e ∉ c ∧ (¬ ∃ x, x ∈ c ∧ Conflict es dep x e) ∧ ∀ x, Le es x e → x = e ∨ x ∈ c := by
  unfold addEvent containsHistory
  have hcw := conflicts_with_any_spec hp hv dep e c he hc
  have hclos := history_is_causal_closure hp hv [e] (by simpa using he)
  by_cases h1 : e ∈ c
  · simp [h1]
  · by_cases h2 : conflictsWithAny pick dep es e c = true
    · simp only [List.elem_eq_mem, h1, decide_false, Bool.false_eq_true, if_false, h2, if_true]
      constructor
      · intro h; cases h
      · rintro ⟨_, h, _⟩; exact absurd (hcw.mp h2) h
    · have h2' : ¬ ∃ x, x ∈ c ∧ Conflict es dep x e := fun h => h2 (hcw.mpr h)
      have h1f : c.elem e = false := by simpa using h1
      have h2f : conflictsWithAny pick dep es e c = false := by simpa using h2
      by_cases h3 : (getAllEvents pick es [e]).all (fun x => (EventSet.insert c e).elem x) = true
      · simp only [h1f, h2f, h3, Bool.not_true, Bool.false_eq_true, if_false, true_iff]
        refine ⟨h1, h2', fun x hle => ?_⟩
        rw [List.all_eq_true] at h3
        have := h3 x ((hclos x).mpr ⟨e, by simp, hle⟩)
        rcases EventSet.mem_insert.mp (by simpa using this) with h | h
        · exact Or.inr h
        · exact Or.inl h
      · have h3f : (getAllEvents pick es [e]).all (fun x => (EventSet.insert c e).elem x) = false := by simpa using h3
        simp only [h1f, h2f, h3f, Bool.not_false, Bool.false_eq_true, if_false, if_true]
        constructor
        · intro h; cases h
        · rintro ⟨_, _, h⟩
          exfalso; apply h3
          rw [List.all_eq_true]
          intro x hx
          obtain ⟨y, hy, hle⟩ := (hclos x).mp hx
          simp at hy; subst hy
          rcases h x hle with rfl | hxc
          · simpa using EventSet.mem_insert.mpr (Or.inr rfl)
          · simpa using EventSet.mem_insert.mpr (Or.inl hxc)

end

/-! ### non-vacuity: the corpus unfolding (two lock requests on one mutex, their waits, a join of both branches) -/

def exES : ES := ⟨[[], [], [0], [1], [0, 1]]⟩
/-- dependency matrix printed by the harness for that unfolding -/
def exDep (i j : Nat) : Bool :=
  (([[true, true, true, false, false], [true, true, false, true, false], [true, false, true, false, false],
     [false, true, false, true, false], [false, false, false, false, true]][i]?).getD [])[j]?.getD false
def pickHead (l : List Nat) : Option Nat := l.head?

theorem pickHead_ok : PickOk pickHead :=
  ⟨fun l x h => by cases l <;> simp_all [pickHead], fun l h => by cases l <;> simp_all [pickHead]⟩
theorem exES_valid : exES.Valid := by
  intro e c hc
  have hn : exES.n = 5 := rfl
  rw [hn]
  unfold ES.causesOf exES at hc
  match e with
  | 0 | 1 => simp at hc
  | 2 | 3 => simp at hc; omega
  | 4 => simp at hc; omega
  | n + 5 => simp at hc

/-- the closure of {2,3} is {0,1,2,3}; event 2 (wait of the first lock request) conflicts with event 1 (the competing
lock request), so {0,1,2} is causally closed but NOT a valid configuration while {0,2} is one -/
example : getAllEvents pickHead exES [2, 3] = [2, 3, 0, 1] ∧ conflictsWith pickHead exDep exES 2 1 = true ∧
    isValidConfiguration pickHead exDep exES [0, 1, 2] = false ∧
    isValidConfiguration pickHead exDep exES [0, 2] = true ∧
    getAllMaximalEvents pickHead exES [0, 2, 4] = [2, 4] := by decide

example : Conflict exES exDep 2 1 :=
  (conflict_spec pickHead_ok exES_valid exDep 2 1 (by decide) (by decide)).mp (by decide)

end SgVerif.C44
