import SgVerif.C44.Lemmas
import SgVerif.C44.EnumLemmas
import SgVerif.C44.MaxLemmas
import SgVerif.C44.TopoLemmas
/-
C44 — Unfolding set algebra is correct.  Property theorems.

Every theorem is for EVERY finite event structure `es` (any number of events, any immediate-cause lists whose entries
are event ids — no acyclicity or irredundancy needed), EVERY dependency relation `dep`, EVERY set of events, and EVERY
`pick` (= which element `*frontier.begin()` returns, i.e. every hash order) — `PickOk` only says that `pick` returns
an element of a non-empty list.

`maximal_subsets_complete_nodup`, `subsets_enumerators_complete_nodup` (second half of this file): the stack machine of
`maximal_subsets_iterator` and the machines of src/xbt/utils/iter are EQUAL to recursive definitions, for all inputs, and
these contain every qualifying subset exactly once.  `topological_ordering_valid`: `get_topological_ordering` (as fixed
by e7a2e0d8bb) returns, on every acyclic structure, for every hash order, each event of the set exactly once, causes first.
-/
namespace SgVerif.C44

section
variable {pick : List Nat → Option Nat} (hp : PickOk pick) {es : ES} (hv : es.Valid)
include hp hv

/-- **history_is_causal_closure**: `History(s).get_all_events()` (the iterator run to its end) is exactly the causal
closure of `s`: the events that are below-or-equal some event of `s`. -/
theorem history_is_causal_closure (s : EventSet) (hs : ∀ x ∈ s, x < es.n) (x : Nat) :
    x ∈ getAllEvents pick es s ↔ ∃ y, y ∈ s ∧ Le es x y := by
  obtain ⟨hdone, hinv⟩ := histFinal_spec hp hv hs
  unfold getAllEvents
  constructor
  · intro hx; exact hinv.sound x (Or.inl hx)
  · rintro ⟨y, hy, hle⟩
    have hyh : y ∈ (histFinal pick es s).history := by
      rcases hinv.cover y hy with h | h
      · exact h
      · rw [hdone] at h; cases h
    clear hy
    induction hle with
    | refl => exact hyh
    | step hc _ ih =>
      apply ih
      rcases hinv.closed _ hyh _ hc with h | h
      · exact h
      · rw [hdone] at h; cases h

/-- **maximal_events_spec**: `get_all_maximal_events()` / `get_largest_maximal_subset()` keeps exactly the events of
`s` that are not strictly below another event of `s`. -/
theorem maximal_events_spec (s : EventSet) (hs : ∀ x ∈ s, x < es.n) (m : Nat) :
    m ∈ getAllMaximalEvents pick es s ↔ m ∈ s ∧ ¬ ∃ y, y ∈ s ∧ Lt es m y := by
  obtain ⟨_, hinv⟩ := histFinal_spec hp hv hs
  have hclos := history_is_causal_closure hp hv s hs
  unfold getAllMaximalEvents
  rw [hinv.maxi m]
  unfold getAllEvents at hclos
  constructor
  · rintro ⟨h1, h2⟩
    refine ⟨h1, ?_⟩
    rintro ⟨y, hy, hlt⟩
    obtain ⟨x, hxy, hmx⟩ := cause_of_lt hlt
    exact h2 x ((hclos x).mpr ⟨y, hy, hxy⟩) hmx
  · rintro ⟨h1, h2⟩
    refine ⟨h1, fun x hx hmx => ?_⟩
    obtain ⟨y, hy, hxy⟩ := (hclos x).mp hx
    exact h2 ⟨y, hy, lt_of_cause_le hmx hxy⟩

/-- `get_local_config()` of an event = everything below-or-equal it -/
theorem local_config_spec (e : Nat) (he : e < es.n) (x : Nat) : x ∈ localConfig pick es e ↔ Le es x e := by
  unfold localConfig
  rw [history_is_causal_closure hp hv [e] (by simpa using he)]
  simp

/-- `get_history()` = the strict causal past -/
theorem get_history_spec (e : Nat) (he : e < es.n) (x : Nat) : x ∈ getHistory pick es e ↔ Le es x e ∧ x ≠ e := by
  unfold getHistory
  rw [EventSet.mem_remove, local_config_spec hp hv e he]

/-- `a->in_history_of(b)` is the (reflexive) causal order -/
theorem in_history_of_spec (a b : Nat) (hb : b < es.n) : inHistoryOf pick es a b = true ↔ Le es a b := by
  unfold inHistoryOf historyContains
  rw [List.elem_eq_mem, decide_eq_true_eq, history_is_causal_closure hp hv [b] (by simpa using hb)]
  simp

end

/-- SPEC of `this # other` as `conflicts_with` computes it, in terms of the causal order only: the two events are
causally unrelated and some event in the past of one (and not of the other) is dependent with the other. -/
def Conflict (es : ES) (dep : Nat → Nat → Bool) (a b : Nat) : Prop :=
  ¬ (Le es a b ∨ Le es b a) ∧
  ((∃ e, Le es e a ∧ ¬ Le es e b ∧ dep e b = true) ∨ (∃ e, Le es e b ∧ ¬ Le es e a ∧ dep e a = true))

section
variable {pick : List Nat → Option Nat} (hp : PickOk pick) {es : ES} (hv : es.Valid) (dep : Nat → Nat → Bool)
include hp hv

theorem related_to_spec (a b : Nat) (ha : a < es.n) (hb : b < es.n) :
    relatedTo pick es a b = true ↔ Le es a b ∨ Le es b a := by
  unfold relatedTo
  rw [Bool.or_eq_true, in_history_of_spec hp hv a b hb, in_history_of_spec hp hv b a ha]

/-- **conflict_spec** -/
theorem conflict_spec (a b : Nat) (ha : a < es.n) (hb : b < es.n) :
    conflictsWith pick dep es a b = true ↔ Conflict es dep a b := by
  have hrs := related_to_spec hp hv a b ha hb
  unfold conflictsWith Conflict
  by_cases hrel : relatedTo pick es a b = true
  · simp only [hrel, if_true]
    constructor
    · intro h; cases h
    · rintro ⟨h, _⟩; exact absurd (hrs.mp hrel) h
  · simp only [hrel, Bool.false_eq_true, if_false]
    rw [Bool.or_eq_true, List.any_eq_true, List.any_eq_true]
    simp only [EventSet.mem_subtract, local_config_spec hp hv a ha, local_config_spec hp hv b hb]
    constructor
    · rintro (⟨e, ⟨h1, h2⟩, h3⟩ | ⟨e, ⟨h1, h2⟩, h3⟩)
      · exact ⟨fun h => hrel (hrs.mpr h), Or.inl ⟨e, h1, h2, h3⟩⟩
      · exact ⟨fun h => hrel (hrs.mpr h), Or.inr ⟨e, h1, h2, h3⟩⟩
    · rintro ⟨_, (⟨e, h1, h2, h3⟩ | ⟨e, h1, h2, h3⟩)⟩
      · exact Or.inl ⟨e, ⟨h1, h2⟩, h3⟩
      · exact Or.inr ⟨e, ⟨h1, h2⟩, h3⟩

/-- `e->conflicts_with_any(S)` -/
theorem conflicts_with_any_spec (a : Nat) (s : EventSet) (ha : a < es.n) (hs : ∀ x ∈ s, x < es.n) :
    conflictsWithAny pick dep es a s = true ↔ ∃ e, e ∈ s ∧ Conflict es dep e a := by
  unfold conflictsWithAny
  rw [List.any_eq_true]
  constructor
  · rintro ⟨e, he, h⟩; exact ⟨e, he, (conflict_spec hp hv dep e a (hs e he) ha).mp h⟩
  · rintro ⟨e, he, h⟩; exact ⟨e, he, (conflict_spec hp hv dep e a (hs e he) ha).mpr h⟩

/-- `is_conflict_free()` -/
theorem conflict_free_spec (s : EventSet) (hs : ∀ x ∈ s, x < es.n) :
    isConflictFree pick dep es s = true ↔ ∀ a, a ∈ s → ∀ b, b ∈ s → ¬ Conflict es dep a b := by
  unfold isConflictFree
  rw [Bool.not_eq_true', ← Bool.not_eq_true, List.any_eq_true]
  constructor
  · intro h a ha b hb hc
    exact h ⟨a, ha, List.any_eq_true.mpr ⟨b, hb, (conflict_spec hp hv dep a b (hs a ha) (hs b hb)).mpr hc⟩⟩
  · rintro h ⟨a, ha, h2⟩
    obtain ⟨b, hb, hc⟩ := List.any_eq_true.mp h2
    exact h a ha b hb ((conflict_spec hp hv dep a b (hs a ha) (hs b hb)).mp hc)

/-- **valid_configuration_iff**: `is_valid_configuration()` ⇔ causally closed ∧ conflict-free -/
theorem valid_configuration_iff (s : EventSet) (hs : ∀ x ∈ s, x < es.n) :
    isValidConfiguration pick dep es s = true ↔
      (∀ y, y ∈ s → ∀ x, Le es x y → x ∈ s) ∧ (∀ a, a ∈ s → ∀ b, b ∈ s → ¬ Conflict es dep a b) := by
  unfold isValidConfiguration containsHistory
  rw [Bool.and_eq_true, conflict_free_spec hp hv dep s hs, List.all_eq_true]
  have hclos := history_is_causal_closure hp hv s hs
  constructor
  · rintro ⟨h1, h2⟩
    refine ⟨fun y hy x hle => ?_, h2⟩
    have := h1 x ((hclos x).mpr ⟨y, hy, hle⟩)
    simpa using this
  · rintro ⟨h1, h2⟩
    refine ⟨fun x hx => ?_, h2⟩
    obtain ⟨y, hy, hle⟩ := (hclos x).mp hx
    simpa using h1 y hy x hle

/-- `is_maximal()` ⇔ no event of the set is strictly below another one (the "maximal sets" the iterator enumerates) -/
theorem is_maximal_spec (s : EventSet) (hs : ∀ x ∈ s, x < es.n) :
    isMaximal pick es s = true ↔ ∀ a, a ∈ s → ∀ b, b ∈ s → ¬ Lt es a b := by
  unfold isMaximal
  rw [EventSet.eqSet_iff]
  have hm := maximal_events_spec hp hv s hs
  constructor
  · intro h a ha b hb hlt
    exact ((hm a).mp ((h a).mp ha)).2 ⟨b, hb, hlt⟩
  · intro h x
    rw [hm x]
    constructor
    · intro hx; exact ⟨hx, fun ⟨y, hy, hlt⟩ => h x hx y hy hlt⟩
    · intro hx; exact hx.1

/-- `Configuration::add_event(e)` succeeds exactly when its two preconditions hold: `e` conflicts with no event of the
configuration and the whole causal past of `e` is in it -/
theorem add_event_spec (c : EventSet) (e : Nat) (he : e < es.n) (hc : ∀ x ∈ c, x < es.n) :
    addEvent pick dep es c e = AddResult.added ↔
      e ∉ c ∧ (¬ ∃ x, x ∈ c ∧ Conflict es dep x e) ∧ ∀ x, Le es x e → x = e ∨ x ∈ c := by
  unfold addEvent containsHistory
  have hcw := conflicts_with_any_spec hp hv dep e c he hc
  have hclos := history_is_causal_closure hp hv [e] (by simpa using he)
  by_cases h1 : e ∈ c
  · simp [h1]
  · by_cases h2 : conflictsWithAny pick dep es e c = true
    · simp only [List.elem_eq_mem, h1, decide_false, Bool.false_eq_true, if_false, h2, if_true]
      constructor
      · intro h; cases h
      · rintro ⟨_, h, _⟩; exact absurd (hcw.mp h2) h
    · have h2' : ¬ ∃ x, x ∈ c ∧ Conflict es dep x e := fun h => h2 (hcw.mpr h)
      have h1f : c.elem e = false := by simpa using h1
      have h2f : conflictsWithAny pick dep es e c = false := by simpa using h2
      by_cases h3 : (getAllEvents pick es [e]).all (fun x => (EventSet.insert c e).elem x) = true
      · simp only [h1f, h2f, h3, Bool.not_true, Bool.false_eq_true, if_false, true_iff]
        refine ⟨h1, h2', fun x hle => ?_⟩
        rw [List.all_eq_true] at h3
        have := h3 x ((hclos x).mpr ⟨e, by simp, hle⟩)
        rcases EventSet.mem_insert.mp (by simpa using this) with h | h
        · exact Or.inr h
        · exact Or.inl h
      · have h3f : (getAllEvents pick es [e]).all (fun x => (EventSet.insert c e).elem x) = false := by simpa using h3
        simp only [h1f, h2f, h3f, Bool.not_false, Bool.false_eq_true, if_false, if_true]
        constructor
        · intro h; cases h
        · rintro ⟨_, _, h⟩
          exfalso; apply h3
          rw [List.all_eq_true]
          intro x hx
          obtain ⟨y, hy, hle⟩ := (hclos x).mp hx
          simp at hy; subst hy
          rcases h x hle with rfl | hxc
          · simpa using EventSet.mem_insert.mpr (Or.inr rfl)
          · simpa using EventSet.mem_insert.mpr (Or.inl hxc)

end

/-! ### non-vacuity: the corpus unfolding (two lock requests on one mutex, their waits, a join of both branches) -/

def exES : ES := ⟨[[], [], [0], [1], [0, 1]]⟩
/-- dependency matrix printed by the harness for that unfolding -/
def exDep (i j : Nat) : Bool :=
  (([[true, true, true, false, false], [true, true, false, true, false], [true, false, true, false, false],
     [false, true, false, true, false], [false, false, false, false, true]][i]?).getD [])[j]?.getD false
def pickHead (l : List Nat) : Option Nat := l.head?

theorem pickHead_ok : PickOk pickHead :=
  ⟨fun l x h => by cases l <;> simp_all [pickHead], fun l h => by cases l <;> simp_all [pickHead]⟩
theorem exES_valid : exES.Valid := by
  intro e c hc
  have hn : exES.n = 5 := rfl
  rw [hn]
  unfold ES.causesOf exES at hc
  match e with
  | 0 | 1 => simp at hc
  | 2 | 3 => simp at hc; omega
  | 4 => simp at hc; omega
  | n + 5 => simp at hc

/-- the closure of {2,3} is {0,1,2,3}; event 2 (wait of the first lock request) conflicts with event 1 (the competing
lock request), so {0,1,2} is causally closed but NOT a valid configuration while {0,2} is one -/
example : getAllEvents pickHead exES [2, 3] = [2, 3, 0, 1] ∧ conflictsWith pickHead exDep exES 2 1 = true ∧
    isValidConfiguration pickHead exDep exES [0, 1, 2] = false ∧
    isValidConfiguration pickHead exDep exES [0, 2] = true ∧
    getAllMaximalEvents pickHead exES [0, 2, 4] = [2, 4] := by decide

example : Conflict exES exDep 2 1 :=
  (conflict_spec pickHead_ok exES_valid exDep 2 1 (by decide) (by decide)).mp (by decide)

/-! ### the enumerators -/

/-- **k-subsets**: for every `k ≥ 1` and `n`, `LazyKSubsets` (the `subsets_iterator` machine: positions `P`, backward
search, reset) yields exactly the list `combos k [0, n)` — i.e. every `k`-element subset of the `n` positions (strictly
increasing position lists) exactly once, in lexicographic order. -/
theorem k_subsets_complete_nodup (k n : Nat) (hk : 0 < k) (fuel : Nat) (hf : 2 ^ n ≤ fuel) :
    kSubsets k n fuel = combos k (List.range n) ∧ (kSubsets k n fuel).Nodup ∧
    ∀ l, l ∈ kSubsets k n fuel ↔ l.length = k ∧ l.Pairwise (· < ·) ∧ ∀ x ∈ l, x < n := by
  have hlen := combos_length_le k (List.range n)
  rw [List.length_range] at hlen
  have heq := kSubsets_eq_combos k n hk fuel (by omega)
  rw [heq]
  refine ⟨rfl, combos_nodup k _ List.nodup_range, ?_⟩
  intro l
  rw [mem_combos, List.range_eq_range', sublist_range'_iff]
  constructor
  · rintro ⟨⟨h1, h2⟩, h3⟩; exact ⟨h3, h1, fun x hx => by have := h2 x hx; omega⟩
  · rintro ⟨h1, h2, h3⟩; exact ⟨⟨h2, fun x hx => by have := h3 x hx; omega⟩, h1⟩

/-- **powerset**: `powerset_iterator` yields every subset of the `n` positions exactly once (by increasing size). -/
theorem powerset_complete_nodup (n fuel : Nat) (hf : 2 ^ n ≤ fuel) :
    powerset n fuel = (List.range (n + 1)).flatMap (fun k => combos k (List.range n)) ∧ (powerset n fuel).Nodup ∧
    ∀ l, l ∈ powerset n fuel ↔ l.Pairwise (· < ·) ∧ ∀ x ∈ l, x < n := by
  rw [powerset_eq_combos n fuel hf]
  refine ⟨rfl, ?_, ?_⟩
  · show List.Pairwise _ _
    rw [List.pairwise_flatMap]
    refine ⟨fun k _ => combos_nodup k _ List.nodup_range, ?_⟩
    refine List.Pairwise.imp ?_ (List.nodup_range (n := n + 1))
    intro a b hab x hx y hy hxy
    subst hxy
    exact hab (((mem_combos _ _ _).mp hx).2.symm.trans ((mem_combos _ _ _).mp hy).2)
  · intro l
    simp only [List.mem_flatMap, List.mem_range, mem_combos]
    rw [List.range_eq_range', sublist_range'_iff]
    constructor
    · rintro ⟨k, _, ⟨h1, h2⟩, _⟩; exact ⟨h1, fun x hx => by have := h2 x hx; omega⟩
    · rintro ⟨h1, h2⟩
      have hs : l.Sublist (List.range' 0 n) := (sublist_range'_iff l 0 n).mpr ⟨h1, fun x hx => by have := h2 x hx; omega⟩
      have := hs.length_le
      simp at this
      exact ⟨l.length, by omega, ⟨h1, fun x hx => by have := h2 x hx; omega⟩, rfl⟩

/-- **variable_for_loop** (odometer): for every non-empty list of collection sizes it yields every tuple of positions
exactly once, in lexicographic order (nothing when a collection is empty). -/
theorem variable_for_loop_complete_nodup (sizes : List Nat) (hne : sizes ≠ []) (fuel : Nat)
    (hf : (product sizes).length ≤ fuel) :
    variableForLoop sizes fuel = product sizes ∧ (variableForLoop sizes fuel).Nodup ∧
    ∀ t, t ∈ variableForLoop sizes fuel ↔
      t.length = sizes.length ∧ ∀ i, i < sizes.length → (t[i]?).getD 0 < (sizes[i]?).getD 0 := by
  rw [variableForLoop_eq_product sizes hne fuel hf]
  exact ⟨rfl, product_nodup sizes, mem_product sizes⟩

/-- **subsets_enumerators_complete_nodup**: the three machines of src/xbt/utils/iter together. -/
theorem subsets_enumerators_complete_nodup :
    (∀ k n fuel, 0 < k → 2 ^ n ≤ fuel → (kSubsets k n fuel).Nodup ∧
      ∀ l, l ∈ kSubsets k n fuel ↔ l.length = k ∧ l.Pairwise (· < ·) ∧ ∀ x ∈ l, x < n) ∧
    (∀ n fuel, 2 ^ n ≤ fuel → (powerset n fuel).Nodup ∧
      ∀ l, l ∈ powerset n fuel ↔ l.Pairwise (· < ·) ∧ ∀ x ∈ l, x < n) ∧
    (∀ sizes fuel, sizes ≠ [] → (product sizes).length ≤ fuel → (variableForLoop sizes fuel).Nodup ∧
      ∀ t, t ∈ variableForLoop sizes fuel ↔
        t.length = sizes.length ∧ ∀ i, i < sizes.length → (t[i]?).getD 0 < (sizes[i]?).getD 0) :=
  ⟨fun k n fuel hk hf => (k_subsets_complete_nodup k n hk fuel hf).2,
   fun n fuel hf => (powerset_complete_nodup n fuel hf).2,
   fun sizes fuel hne hf => (variable_for_loop_complete_nodup sizes hne fuel hf).2⟩

example : kSubsets 2 4 16 = [[0, 1], [0, 2], [0, 3], [1, 2], [1, 3], [2, 3]] ∧
    powerset 3 8 = [[], [0], [1], [2], [0, 1], [0, 2], [1, 2], [0, 1, 2]] ∧
    variableForLoop [2, 1, 3] 6 = [[0, 0, 0], [0, 0, 1], [0, 0, 2], [1, 0, 0], [1, 0, 1], [1, 0, 2]] := by decide

/-! ### maximal_subsets_iterator -/

section
variable {pick : List Nat → Option Nat} (hp : PickOk pick) {es : ES} (hv : es.Valid)
include hp hv

/-- **maximal_subsets_complete_nodup**: for EVERY list `ord` of distinct events in which no event comes before one of its
(transitive) effects' … precisely: an earlier event is never below a later one (what `get_topological_ordering_of_reverse_
graph` must deliver: effects before causes), EVERY size limit other than 0 (the C++ `xbt_assert`s on 0) and EVERY hash
order, the stack machine of `maximal_subsets_iterator` (backtrack points, `Bookkeeper::event_counts`,
`find_next_candidate_event`, `can_grow_maximal_set`)
  * is equal to the recursive depth-first enumeration `dfsL`, preceded by the empty set;
  * never yields the same list twice, yields only sub-lists of `ord`;
  * yields a sub-list `t` of `ord` iff its events are pairwise causally unrelated and it respects the size limit;
  * two yielded sets with the same elements are the same: every qualifying subset is yielded exactly once. -/
theorem maximal_subsets_complete_nodup (ord : List Nat) (hnd : ord.Nodup) (hb : ∀ x ∈ ord, x < es.n)
    (htopo : ord.Pairwise (fun x y => ¬ Le es x y)) (maxSize : Option Nat) (hm : maxSize ≠ some 0)
    (fuel : Nat) (hf : 2 ^ ord.length ≤ fuel) :
    maximalSubsets pick es ord maxSize fuel = [] :: dfsL (okLC pick es) maxSize [] ord ∧
    (maximalSubsets pick es ord maxSize fuel).Nodup ∧
    (∀ t ∈ maximalSubsets pick es ord maxSize fuel, t.Sublist ord) ∧
    (∀ t, t.Sublist ord → (t ∈ maximalSubsets pick es ord maxSize fuel ↔
        t.Pairwise (fun a b => ¬ Le es a b ∧ ¬ Le es b a) ∧ ∀ mm, maxSize = some mm → t.length ≤ mm)) ∧
    (∀ t1 ∈ maximalSubsets pick es ord maxSize fuel, ∀ t2 ∈ maximalSubsets pick es ord maxSize fuel,
        (∀ x, x ∈ t1 ↔ x ∈ t2) → t1 = t2) := by
  have hself : ∀ x ∈ ord, x ∈ localConfig pick es x :=
    fun x hx => (local_config_spec hp hv x (hb x hx) x).mpr (Le.refl x)
  have hlen := dfsL_length (okLC pick es) maxSize ord []
  have heq := maximalSubsets_eq_dfsL pick es hnd hself maxSize fuel (by omega)
  have hsub : ∀ t ∈ ([] :: dfsL (okLC pick es) maxSize [] ord : List EventSet), t.Sublist ord := by
    intro t ht
    rcases List.mem_cons.mp ht with rfl | ht
    · simp
    · obtain ⟨s, _, h2, h3, _⟩ := (mem_dfsL _ _ _ _ _).mp ht
      simpa [h3] using h2
  have hok : ∀ c e, (∀ x ∈ c, x < es.n) → (okLC pick es c e = true ↔ ∀ x ∈ c, ¬ Le es e x) := by
    intro c e hc
    unfold okLC
    rw [List.all_eq_true]
    constructor
    · intro h x hx hle
      have := h x hx
      rw [Bool.not_eq_true', List.elem_eq_mem, decide_eq_false_iff_not] at this
      exact this ((local_config_spec hp hv x (hc x hx) e).mpr hle)
    · intro h x hx
      rw [Bool.not_eq_true', List.elem_eq_mem, decide_eq_false_iff_not]
      exact fun hm => h x hx ((local_config_spec hp hv x (hc x hx) e).mp hm)
  rw [heq]
  refine ⟨rfl, ?_, hsub, ?_, ?_⟩
  · rw [List.nodup_cons]
    refine ⟨?_, dfsL_nodup _ _ _ _ hnd⟩
    intro h
    obtain ⟨s, h1, _, h3, _⟩ := (mem_dfsL _ _ _ _ _).mp h
    exact h1 (by simpa using h3.symm)
  · intro t ht
    have htb : ∀ x ∈ t, x < es.n := fun x hx => hb x (ht.subset hx)
    have hgood := good_iff (okLC pick es) (Le es) (· < es.n) hok t [] (by simp) htb
    have htt : t.Pairwise (fun x y => ¬ Le es x y) := List.Pairwise.sublist ht htopo
    rw [List.mem_cons, mem_dfsL]
    constructor
    · rintro (rfl | ⟨s, h1, h2, h3, h4, h5⟩)
      · simp
      · simp only [List.nil_append] at h3
        subst h3
        refine ⟨List.Pairwise.and htt (hgood.mp h4).2, ?_⟩
        intro mm hmm
        subst hmm
        simp only [sizeOk, List.length_nil, Nat.zero_add] at h5
        have : mm ≠ 0 := fun h => hm (by rw [h])
        omega
    · rintro ⟨h1, h2⟩
      by_cases hte : t = []
      · exact Or.inl hte
      · right
        refine ⟨t, hte, ht, by simp, hgood.mpr ⟨by simp, List.Pairwise.imp (fun h => h.2) h1⟩, ?_⟩
        cases maxSize with
        | none => trivial
        | some mm => simp only [sizeOk, List.length_nil, Nat.zero_add]; exact Or.inr (h2 mm rfl)
  · intro t1 h1 t2 h2 hx
    exact sublist_ext hnd (hsub t1 h1) (hsub t2 h2) hx

end

/-- non-vacuity: on the corpus unfolding, with the events in decreasing id order (effects before causes), the iterator
yields the 13 sets of pairwise unrelated events ({4,3,2}, {3,0}, {2,1}, … but never 2 with its cause 0) -/
example : maximalSubsets pickHead exES [4, 3, 2, 1, 0] none 40 =
    [[], [4], [4, 3], [4, 3, 2], [4, 2], [3], [3, 2], [3, 0], [2], [2, 1], [1], [1, 0], [0]] ∧
    maximalSubsets pickHead exES [4, 3, 2, 1, 0] (some 2) 40 =
    [[], [4], [4, 3], [4, 2], [3], [3, 2], [3, 0], [2], [2, 1], [1], [1, 0], [0]] := by decide

example : ([4, 3, 2, 1, 0] : List Nat).Pairwise (fun x y => ¬ Le exES x y) := by
  have key : ∀ x y, y < 5 → inHistoryOf pickHead exES x y = false → ¬ Le exES x y := by
    intro x y hy h hle
    rw [(in_history_of_spec pickHead_ok exES_valid x y hy).mpr hle] at h
    cases h
  refine List.Pairwise.imp_of_mem (R := fun x y => inHistoryOf pickHead exES x y = false) ?_ (by decide)
  intro a b _ hb h
  exact key a b (by simp at hb; omega) h

/-! ### get_topological_ordering -/

section
variable {pick : List Nat → Option Nat} (hp : PickOk pick) {order : Nat → List Nat → List Nat}
  (hord : ∀ e l, (order e l).Perm l) {es : ES} (hv : es.Valid) (hac : ∀ x, ¬ Lt es x x)
include hp hord hv hac

/-- **topological_ordering_valid**: on every ACYCLIC event structure (no event strictly below itself), for every set `s`,
every choice of `*unknown_events.begin()` and every iteration order of the immediate causes (every hash order),
`EventSet::get_topological_ordering()` — the coloured depth-first search with an explicit stack, as it is since the fix
e7a2e0d8bb — terminates without raising its cycle exception and returns a list that contains each event of `s` exactly
once in which no event comes before one of its (transitive) causes. -/
theorem topological_ordering_valid (s : EventSet) (hs : ∀ x ∈ s, x < es.n) :
    ∃ out, getTopologicalOrdering true pick order es s = .ok out ∧ out.Nodup ∧ (∀ x, x ∈ out ↔ x ∈ s) ∧
      out.Pairwise (fun a b => ¬ Lt es b a) := by
  unfold getTopologicalOrdering
  by_cases hem : s.isEmpty = true
  · have : s = [] := List.isEmpty_iff.mp hem
    subst this
    exact ⟨[], by simp, by simp, by simp, by simp⟩
  · simp only [hem, Bool.false_eq_true, if_false]
    exact topoOuter_ok hp hord hv hac hs s.length ⟨[], [], s, [], [], []⟩
      ⟨(fun x hx => nomatch hx), List.nodup_nil, (fun x => by simp), List.Pairwise.nil, (List.filter_eq_self.mpr (fun _ _ => rfl)).symm, rfl⟩ (Nat.le_refl _)

/-- the ordering handed to `maximal_subsets_iterator` (`get_topological_ordering_of_reverse_graph`): each event of `s`
once, and an earlier event is never below-or-equal a later one (effects first) -/
theorem topological_ordering_of_reverse_graph_valid (s : EventSet) (hs : ∀ x ∈ s, x < es.n) :
    ∃ ord, getTopologicalOrderingOfReverseGraph true pick order es s = .ok ord ∧ ord.Nodup ∧ (∀ x, x ∈ ord ↔ x ∈ s) ∧
      ord.Pairwise (fun x y => ¬ Le es x y) := by
  obtain ⟨out, h1, h2, h3, h4⟩ := topological_ordering_valid hp hord hv hac s hs
  refine ⟨out.reverse, by simp [getTopologicalOrderingOfReverseGraph, h1], ?_, by simpa using h3, ?_⟩
  · show List.Pairwise _ _
    rw [List.pairwise_reverse]
    exact List.Pairwise.imp (fun h => Ne.symm h) h2
  · rw [List.pairwise_reverse]
    refine List.Pairwise.imp ?_ (List.Pairwise.and h2 h4)
    rintro a b ⟨hne, hlt⟩ hle
    rcases le_iff_eq_or_lt hle with h | h
    · exact hne h.symm
    · exact hlt h

/-- **the iterator as the C++ constructs it** (`maximal_subsets_iterator(events, nullopt, maxSize)`): the ordering computed
by the constructor satisfies the hypotheses of `maximal_subsets_complete_nodup`, hence for every set `s` of an acyclic
structure the iteration yields every subset of pairwise causally unrelated events of `s` (within the size limit) exactly
once — whatever the hash order. -/
theorem maximal_subsets_of_event_set_complete_nodup (s : EventSet) (hs : ∀ x ∈ s, x < es.n) (maxSize : Option Nat)
    (hm : maxSize ≠ some 0) (fuel : Nat) (hf : 2 ^ s.length ≤ fuel) :
    ∃ ord, getTopologicalOrderingOfReverseGraph true pick order es s = .ok ord ∧ (∀ x, x ∈ ord ↔ x ∈ s) ∧
      (maximalSubsets pick es ord maxSize fuel).Nodup ∧
      (∀ t, t.Sublist ord → (t ∈ maximalSubsets pick es ord maxSize fuel ↔
          t.Pairwise (fun a b => ¬ Le es a b ∧ ¬ Le es b a) ∧ ∀ mm, maxSize = some mm → t.length ≤ mm)) ∧
      (∀ t1 ∈ maximalSubsets pick es ord maxSize fuel, ∀ t2 ∈ maximalSubsets pick es ord maxSize fuel,
          (∀ x, x ∈ t1 ↔ x ∈ t2) → t1 = t2) := by
  obtain ⟨ord, h1, h2, h3, h4⟩ := topological_ordering_of_reverse_graph_valid hp hord hv hac s hs
  have hlen : ord.length ≤ s.length := List.Nodup.length_le_of_subset h2 (fun x hx => (h3 x).mp hx)
  have hpow : 2 ^ ord.length ≤ fuel := Nat.le_trans (Nat.pow_le_pow_right (by omega) hlen) hf
  obtain ⟨_, g2, _, g4, g5⟩ := maximal_subsets_complete_nodup hp hv ord h2 (fun x hx => hs x ((h3 x).mp hx)) h4
    maxSize hm fuel hpow
  exact ⟨ord, h1, h3, g2, g4, g5⟩

end

/-- regression (finding `topological-ordering-repeats-events-when-immediate-causes-are-related`, fixed by e7a2e0d8bb):
events 0, 1 (cause 0), 2 (causes 1 AND 0) — the code before the fix (`skipEmitted = false`) emitted event 0 twice, the
second time after its effect 1; the fixed code emits 0 1 2 -/
theorem topological_ordering_prefix_regression :
    getTopologicalOrdering false pickHead (fun _ l => l.reverse) ⟨[[], [0], [1, 0]]⟩ [2, 1, 0] = .ok [0, 1, 0, 2] ∧
    getTopologicalOrdering true pickHead (fun _ l => l.reverse) ⟨[[], [0], [1, 0]]⟩ [2, 1, 0] = .ok [0, 1, 2] := by
  decide

theorem exES_acyclic : ∀ x, ¬ Lt exES x x := by
  apply acyclic_of_decreasing
  intro e c hc
  unfold ES.causesOf exES at hc
  match e with
  | 0 | 1 => simp at hc
  | 2 | 3 => simp at hc; omega
  | 4 => simp at hc; omega
  | n + 5 => simp at hc

/-- non-vacuity: the corpus unfolding is acyclic; the ordering of {2,3,4,0} computed with "first element / causes in list
order" puts 0 first, and the theorem applies to it -/
example : getTopologicalOrdering true pickHead (fun _ l => l) exES [4, 3, 2, 0] = .ok [0, 4, 3, 2] := by decide
example : ∃ out, getTopologicalOrdering true pickHead (fun _ l => l) exES [4, 3, 2, 0] = .ok out ∧ out.Nodup ∧
    (∀ x, x ∈ out ↔ x ∈ [4, 3, 2, 0]) ∧ out.Pairwise (fun a b => ¬ Lt exES b a) :=
  topological_ordering_valid pickHead_ok (fun _ l => List.Perm.refl l) exES_valid exES_acyclic [4, 3, 2, 0]
    (by decide)

end SgVerif.C44
