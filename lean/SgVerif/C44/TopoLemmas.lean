import SgVerif.C44.Lemmas
/-
C44 — `EventSet::get_topological_ordering` (Model.lean: `topoInner`, `topoOuter`): invariant of the coloured depth-first
search with an explicit stack, termination within the fuel of the model, no `cycle` exception on acyclic structures.
Core-only.
-/
namespace SgVerif.C44

/-! ### order facts -/

theorem Lt.le {es : ES} {x y : Nat} (h : Lt es x y) : Le es x y := by
  obtain ⟨c, hc, hle⟩ := h; exact Le.step hc hle

theorem Lt.trans {es : ES} {x y z : Nat} (h1 : Lt es x y) (h2 : Lt es y z) : Lt es x z := by
  obtain ⟨c, hc, hle⟩ := h2
  exact ⟨c, hc, h1.le.trans hle⟩

theorem lt_of_cause {es : ES} {c y : Nat} (h : c ∈ es.causesOf y) : Lt es c y := ⟨c, h, Le.refl c⟩

theorem le_iff_eq_or_lt {es : ES} {x y : Nat} (h : Le es x y) : x = y ∨ Lt es x y := by
  cases h with
  | refl => exact Or.inl rfl
  | step hc hle => exact Or.inr ⟨_, hc, hle⟩

/-! ### list facts -/

theorem mem_split_first {l : List Nat} {x : Nat} (h : x ∈ l) : ∃ a b, l = a ++ x :: b ∧ x ∉ a := by
  induction l with
  | nil => cases h
  | cons y l ih =>
    by_cases hxy : x = y
    · subst hxy; exact ⟨[], l, rfl, by simp⟩
    · rcases List.mem_cons.mp h with h | h
      · exact absurd h hxy
      · obtain ⟨a, b, h1, h2⟩ := ih h
        refine ⟨y :: a, b, by simp [h1], ?_⟩
        intro hm
        rcases List.mem_cons.mp hm with hm | hm
        · exact hxy hm
        · exact h2 hm

theorem split_skip : ∀ {P r above below : List Nat} {t : Nat}, P ++ r = above ++ t :: below → t ∉ P → t ∉ above →
    ∃ above', above = P ++ above' ∧ r = above' ++ t :: below := by
  intro P
  induction P with
  | nil => intro r above below t h _ _; exact ⟨above, rfl, by simpa using h⟩
  | cons x P ih =>
    intro r above below t h htP hta
    cases above with
    | nil =>
      simp at h
      exact absurd h.1.symm (by intro e; exact htP (by simp [e]))
    | cons y a' =>
      simp at h
      obtain ⟨hxy, h⟩ := h
      obtain ⟨above', h1, h2⟩ := ih h (fun hm => htP (by simp [hm])) (fun hm => hta (by simp [hm]))
      exact ⟨above', by simp [hxy, h1], h2⟩

theorem le_foldl_max (l : List Nat) : ∀ (init : Nat), init ≤ l.foldl max init ∧ ∀ x ∈ l, x ≤ l.foldl max init := by
  induction l with
  | nil => intro init; simp
  | cons a l ih =>
    intro init
    obtain ⟨h1, h2⟩ := ih (max init a)
    simp only [List.foldl_cons]
    refine ⟨by omega, ?_⟩
    intro x hx
    rcases List.mem_cons.mp hx with rfl | hx
    · omega
    · exact h2 x hx

theorem causesOf_length_le (es : ES) (e : Nat) : (es.causesOf e).length ≤ es.maxCauses := by
  unfold ES.causesOf ES.maxCauses
  cases h : es.causes[e]? with
  | none => simp
  | some l =>
    have hm : l ∈ es.causes := List.mem_of_getElem? h
    exact (le_foldl_max _ 0).2 _ (List.mem_map.mpr ⟨l, hm, rfl⟩)

/-! ### the invariant of the inner loop -/

structure TInv (es : ES) (s : EventSet) (K : List Nat) (st : TopoState) : Prop where
  bounded : ∀ x ∈ st.stack, x < es.n
  permClosed : ∀ x ∈ st.perm, ∀ c ∈ es.causesOf x, c ∈ st.perm
  outNodup : st.out.Nodup
  outMem : ∀ x, x ∈ st.out ↔ x ∈ s ∧ x ∈ st.perm
  outOrd : st.out.Pairwise (fun a b => ¬ Lt es b a)
  unk : st.unknown = s.filter (fun x => !st.perm.elem x)
  tempStack : ∀ t ∈ st.temp, t ∈ st.stack ∧ t ∉ st.perm
  tempAbove : ∀ above t below, st.stack = above ++ t :: below → t ∈ st.temp → t ∉ above →
      (∀ x ∈ above, Lt es x t) ∧ (∀ c ∈ es.causesOf t, c ∈ st.perm ∨ c ∈ above)
  disc : ∀ x ∈ st.disc, x ∈ st.temp ∨ x ∈ st.perm
  tempDisc : ∀ t ∈ st.temp, t ∈ st.disc
  start : ∀ u ∈ K, u ∈ st.stack ∨ u ∈ st.perm

theorem perm_down {es : ES} {perm : EventSet} (h : ∀ x ∈ perm, ∀ c ∈ es.causesOf x, c ∈ perm)
    {x y : Nat} (hle : Le es y x) (hx : x ∈ perm) : y ∈ perm := by
  induction hle with
  | refl => exact hx
  | step hc _ ih => exact ih (h _ hx _ hc)

/-- the number of events carrying no mark -/
def fresh (es : ES) (st : TopoState) : Nat :=
  ((List.range es.n).filter (fun x => !st.temp.elem x && !st.perm.elem x)).length

/-- the termination measure of the inner loop -/
def tmu (es : ES) (st : TopoState) : Nat := st.stack.length + (es.maxCauses + 1) * fresh es st

section
variable {es : ES} {s : EventSet} {K : List Nat}

/-- the three successor states of the inner loop -/
def stSkip (st : TopoState) (rest : List Nat) : TopoState := { st with stack := rest }
def stSecond (s : EventSet) (st : TopoState) (evt : Nat) (rest : List Nat) : TopoState :=
  { stack := rest, out := if s.elem evt then st.out ++ [evt] else st.out,
    unknown := EventSet.remove st.unknown evt, temp := EventSet.remove st.temp evt,
    perm := EventSet.insert st.perm evt, disc := EventSet.insert st.disc evt }
def stFirst (st : TopoState) (evt : Nat) (pushed : List Nat) : TopoState :=
  { st with disc := EventSet.insert st.disc evt, temp := EventSet.insert st.temp evt, stack := pushed ++ st.stack }

/-- an event already emitted comes back on top: popped -/
theorem tinv_skip {st : TopoState} {evt : Nat} {rest : List Nat} (h : TInv es s K st) (hst : st.stack = evt :: rest)
    (hp : evt ∈ st.perm) : TInv es s K (stSkip st rest) := by
  have hsplit : ∀ above t below, rest = above ++ t :: below → st.stack = (evt :: above) ++ t :: below := by
    intro above t below hr; rw [hst, hr]; simp
  refine ⟨?_, h.permClosed, h.outNodup, h.outMem, h.outOrd, h.unk, ?_, ?_, h.disc, h.tempDisc, ?_⟩
  · intro x hx; exact h.bounded x (by rw [hst]; exact List.mem_cons_of_mem _ hx)
  · intro t ht
    obtain ⟨h1, h2⟩ := h.tempStack t ht
    refine ⟨?_, h2⟩
    rw [hst] at h1
    rcases List.mem_cons.mp h1 with rfl | h1
    · exact absurd hp h2
    · exact h1
  · intro above t below hr ht hta
    have htne : t ≠ evt := fun e => (h.tempStack t ht).2 (e ▸ hp)
    obtain ⟨g1, g2⟩ := h.tempAbove (evt :: above) t below (hsplit _ _ _ hr) ht
      (by intro hm; rcases List.mem_cons.mp hm with hm | hm; exact htne hm; exact hta hm)
    refine ⟨fun x hx => g1 x (by simp [hx]), ?_⟩
    intro c hc
    rcases g2 c hc with g | g
    · exact Or.inl g
    · rcases List.mem_cons.mp g with rfl | g
      · exact Or.inl hp
      · exact Or.inr g
  · intro u hu
    rcases h.start u hu with hs | hs
    · rw [hst] at hs
      rcases List.mem_cons.mp hs with rfl | hs
      · exact Or.inr hp
      · exact Or.inl hs
    · exact Or.inr hs

/-- second visit: the event is emitted and permanently marked -/
theorem tinv_second {st : TopoState} {evt : Nat} {rest : List Nat} (h : TInv es s K st) (hst : st.stack = evt :: rest)
    (hp : evt ∉ st.perm) (ht : evt ∈ st.temp) :
    TInv es s K (stSecond s st evt rest) := by
  have hcauses : ∀ c ∈ es.causesOf evt, c ∈ st.perm := by
    intro c hc
    rcases (h.tempAbove [] evt rest (by simpa using hst) ht (by simp)).2 c hc with g | g
    · exact g
    · cases g
  have hclosed : ∀ x ∈ EventSet.insert st.perm evt, ∀ c ∈ es.causesOf x, c ∈ EventSet.insert st.perm evt := by
    intro x hx c hc
    rcases EventSet.mem_insert.mp hx with hx | rfl
    · exact EventSet.mem_insert.mpr (Or.inl (h.permClosed x hx c hc))
    · exact EventSet.mem_insert.mpr (Or.inl (hcauses c hc))
  have hnotout : evt ∉ st.out := fun hm => hp ((h.outMem evt).mp hm).2
  refine ⟨?_, hclosed, ?_, ?_, ?_, ?_, ?_, ?_, ?_, ?_, ?_⟩
  · intro x hx; exact h.bounded x (by rw [hst]; exact List.mem_cons_of_mem _ hx)
  · show (if s.elem evt then st.out ++ [evt] else st.out).Nodup
    split
    · rw [List.nodup_append]
      refine ⟨h.outNodup, by simp, ?_⟩
      intro a ha b hb hab
      simp at hb; subst hb; subst hab
      exact hnotout ha
    · exact h.outNodup
  · intro x
    show x ∈ (if s.elem evt then st.out ++ [evt] else st.out) ↔ x ∈ s ∧ x ∈ EventSet.insert st.perm evt
    rw [EventSet.mem_insert]
    split
    · rename_i hs
      have hs' : evt ∈ s := by simpa using hs
      rw [List.mem_append, h.outMem x]
      constructor
      · rintro (⟨h1, h2⟩ | h1)
        · exact ⟨h1, Or.inl h2⟩
        · simp at h1; subst h1; exact ⟨hs', Or.inr rfl⟩
      · rintro ⟨h1, h2 | h2⟩
        · exact Or.inl ⟨h1, h2⟩
        · right; simp [h2]
    · rename_i hs
      have hs' : evt ∉ s := by simpa using hs
      rw [h.outMem x]
      constructor
      · rintro ⟨h1, h2⟩; exact ⟨h1, Or.inl h2⟩
      · rintro ⟨h1, h2 | h2⟩
        · exact ⟨h1, h2⟩
        · subst h2; exact absurd h1 hs'
  · show (if s.elem evt then st.out ++ [evt] else st.out).Pairwise _
    split
    · rw [List.pairwise_append]
      refine ⟨h.outOrd, by simp, ?_⟩
      intro a ha b hb hlt
      simp at hb; subst hb
      obtain ⟨c, hc, hle⟩ := hlt
      have hap := ((h.outMem a).mp ha).2
      exact hp (perm_down h.permClosed hle (h.permClosed a hap c hc))
    · exact h.outOrd
  · show EventSet.remove st.unknown evt = s.filter (fun x => !(EventSet.insert st.perm evt).elem x)
    rw [h.unk]
    unfold EventSet.remove
    rw [List.filter_filter]
    apply List.filter_congr
    intro x _
    have : (EventSet.insert st.perm evt).elem x = (st.perm.elem x || x == evt) := by
      rw [Bool.eq_iff_iff]
      simp only [List.elem_eq_mem, decide_eq_true_eq, Bool.or_eq_true, beq_iff_eq]
      exact EventSet.mem_insert
    rw [this]
    simp only [bne]
    cases st.perm.elem x <;> cases (x == evt) <;> rfl
  · intro t htm
    obtain ⟨h1, h2⟩ := EventSet.mem_remove.mp htm
    obtain ⟨g1, g2⟩ := h.tempStack t h1
    refine ⟨?_, ?_⟩
    · show t ∈ rest
      rw [hst] at g1
      rcases List.mem_cons.mp g1 with g1 | g1
      · exact absurd g1 h2
      · exact g1
    · intro hm
      rcases EventSet.mem_insert.mp hm with hm | hm
      · exact g2 hm
      · exact h2 hm
  · intro above t below hr htm hta
    obtain ⟨h1, h2⟩ := EventSet.mem_remove.mp htm
    have hr' : rest = above ++ t :: below := hr
    obtain ⟨g1, g2⟩ := h.tempAbove (evt :: above) t below (by rw [hst, hr']; simp) h1
      (by intro hm; rcases List.mem_cons.mp hm with hm | hm; exact h2 hm; exact hta hm)
    refine ⟨fun x hx => g1 x (by simp [hx]), ?_⟩
    intro c hc
    rcases g2 c hc with g | g
    · exact Or.inl (EventSet.mem_insert.mpr (Or.inl g))
    · rcases List.mem_cons.mp g with rfl | g
      · exact Or.inl (EventSet.mem_insert.mpr (Or.inr rfl))
      · exact Or.inr g
  · intro x hx
    rcases EventSet.mem_insert.mp hx with hx | rfl
    · rcases h.disc x hx with g | g
      · by_cases hxe : x = evt
        · exact Or.inr (EventSet.mem_insert.mpr (Or.inr hxe))
        · exact Or.inl (EventSet.mem_remove.mpr ⟨g, hxe⟩)
      · exact Or.inr (EventSet.mem_insert.mpr (Or.inl g))
    · exact Or.inr (EventSet.mem_insert.mpr (Or.inr rfl))
  · intro t htm
    exact EventSet.mem_insert.mpr (Or.inl (h.tempDisc t (EventSet.mem_remove.mp htm).1))
  · intro u hu
    rcases h.start u hu with hs | hs
    · rw [hst] at hs
      rcases List.mem_cons.mp hs with rfl | hs
      · exact Or.inr (EventSet.mem_insert.mpr (Or.inr rfl))
      · exact Or.inl hs
    · exact Or.inr (EventSet.mem_insert.mpr (Or.inl hs))

/-- first visit on an acyclic structure: every immediate cause is already emitted or is pushed now; in particular the
cycle exception is not raised -/
theorem first_causes (hac : ∀ x, ¬ Lt es x x) {st : TopoState} {evt : Nat} {rest : List Nat} (h : TInv es s K st)
    (hst : st.stack = evt :: rest) (c : Nat) (hc : c ∈ es.causesOf evt) :
    c ≠ evt ∧ c ∉ st.temp := by
  have hne : c ≠ evt := by
    intro e; subst e; exact hac c (lt_of_cause hc)
  refine ⟨hne, ?_⟩
  intro hct
  have hcs := (h.tempStack c hct).1
  rw [hst] at hcs
  rcases List.mem_cons.mp hcs with hcs | hcs
  · exact hne hcs
  · obtain ⟨a, b, hab, hca⟩ := mem_split_first hcs
    have := (h.tempAbove (evt :: a) c b (by rw [hst, hab]; simp) hct
      (by intro hm; rcases List.mem_cons.mp hm with hm | hm; exact hne hm; exact hca hm)).1 evt (by simp)
    exact hac evt (this.trans (lt_of_cause hc))

theorem tinv_first (hv : es.Valid) (hac : ∀ x, ¬ Lt es x x) {st : TopoState} {evt : Nat} {rest : List Nat}
    (h : TInv es s K st) (hst : st.stack = evt :: rest) (hp : evt ∉ st.perm) (ht : evt ∉ st.temp)
    (pushed : List Nat)
    (hpushed : ∀ x, x ∈ pushed ↔ x ∈ es.causesOf evt ∧ x ∉ EventSet.insert st.disc evt ∧ x ∉ st.perm) :
    TInv es s K (stFirst st evt pushed) := by
  have hevtP : evt ∉ pushed := fun hm => hac evt (lt_of_cause ((hpushed evt).mp hm).1)
  refine ⟨?_, h.permClosed, h.outNodup, h.outMem, h.outOrd, h.unk, ?_, ?_, ?_, ?_, ?_⟩
  · intro x hx
    rcases List.mem_append.mp hx with hx | hx
    · exact hv evt x ((hpushed x).mp hx).1
    · exact h.bounded x hx
  · intro t htm
    rcases EventSet.mem_insert.mp htm with htm | rfl
    · obtain ⟨g1, g2⟩ := h.tempStack t htm
      exact ⟨List.mem_append.mpr (Or.inr g1), g2⟩
    · exact ⟨List.mem_append.mpr (Or.inr (by rw [hst]; simp)), hp⟩
  · intro above t below hr htm hta
    have hr' : pushed ++ st.stack = above ++ t :: below := hr
    by_cases hte : t = evt
    · subst hte
      have hr2 : pushed ++ t :: rest = above ++ t :: below := by rw [← hst]; exact hr'
      have hr3 : (pushed ++ [t]) ++ rest = above ++ t :: below := by simpa using hr2
      -- `above = pushed`
      have habove : above = pushed := by
        obtain ⟨a', h1, _⟩ := split_skip (P := pushed) (r := t :: rest) hr2 hevtP hta
        obtain ⟨b', h2, _⟩ := split_skip (P := above) (r := t :: below) hr2.symm hta hevtP
        have := congrArg List.length h1
        have := congrArg List.length h2
        simp at *
        have ha' : a' = [] := List.length_eq_zero_iff.mp (by omega)
        rw [h1, ha']; simp
      subst habove
      refine ⟨fun x hx => lt_of_cause ((hpushed x).mp hx).1, ?_⟩
      intro c hc
      by_cases hcp : c ∈ st.perm
      · exact Or.inl hcp
      · right
        obtain ⟨hne, hnt⟩ := first_causes hac h hst c hc
        refine (hpushed c).mpr ⟨hc, ?_, hcp⟩
        intro hd
        rcases EventSet.mem_insert.mp hd with hd | hd
        · rcases h.disc c hd with g | g
          · exact hnt g
          · exact hcp g
        · exact hne hd
    · have htt : t ∈ st.temp := by
        rcases EventSet.mem_insert.mp htm with g | g
        · exact g
        · exact absurd g hte
      have htP : t ∉ pushed := by
        intro hm
        exact ((hpushed t).mp hm).2.1 (EventSet.mem_insert.mpr (Or.inl (h.tempDisc t htt)))
      have hr3 : (pushed ++ [evt]) ++ rest = above ++ t :: below := by rw [← hr', hst]; simp
      obtain ⟨a', h1, h2⟩ := split_skip hr3
        (by intro hm; rcases List.mem_append.mp hm with hm | hm; exact htP hm; simp at hm; exact hte hm) hta
      have hta' : t ∉ evt :: a' := by
        intro hm
        rcases List.mem_cons.mp hm with hm | hm
        · exact hte hm
        · exact hta (by rw [h1]; simp [hm])
      obtain ⟨g1, g2⟩ := h.tempAbove (evt :: a') t below (by rw [hst, h2]; simp) htt hta'
      refine ⟨?_, ?_⟩
      · intro x hx
        rw [h1] at hx
        rcases List.mem_append.mp hx with hx | hx
        · rcases List.mem_append.mp hx with hx | hx
          · exact (lt_of_cause ((hpushed x).mp hx).1).trans (g1 evt (by simp))
          · simp at hx; subst hx; exact g1 x (by simp)
        · exact g1 x (by simp [hx])
      · intro c hc
        rcases g2 c hc with g | g
        · exact Or.inl g
        · right
          rw [h1]
          rcases List.mem_cons.mp g with rfl | g
          · simp
          · simp [g]
  · intro x hx
    rcases EventSet.mem_insert.mp hx with hx | rfl
    · rcases h.disc x hx with g | g
      · exact Or.inl (EventSet.mem_insert.mpr (Or.inl g))
      · exact Or.inr g
    · exact Or.inl (EventSet.mem_insert.mpr (Or.inr rfl))
  · intro t htm
    rcases EventSet.mem_insert.mp htm with htm | rfl
    · exact EventSet.mem_insert.mpr (Or.inl (h.tempDisc t htm))
    · exact EventSet.mem_insert.mpr (Or.inr rfl)
  · intro u hu
    rcases h.start u hu with hs | hs
    · exact Or.inl (List.mem_append.mpr (Or.inr hs))
    · exact Or.inr hs

/-! ### termination measure -/

theorem fresh_le_of {st st' : TopoState}
    (h : ∀ x, (!st'.temp.elem x && !st'.perm.elem x) = true → (!st.temp.elem x && !st.perm.elem x) = true) :
    fresh es st' ≤ fresh es st := filter_length_le _ _ _ h

theorem fresh_lt_of {st st' : TopoState} (e : Nat) (he : e < es.n)
    (h : ∀ x, (!st'.temp.elem x && !st'.perm.elem x) = true → (!st.temp.elem x && !st.perm.elem x) = true)
    (h1 : (!st.temp.elem e && !st.perm.elem e) = true) (h2 : (!st'.temp.elem e && !st'.perm.elem e) = false) :
    fresh es st' < fresh es st := filter_length_lt _ _ _ h e (List.mem_range.mpr he) h1 h2

end

/-! ### the inner loop runs to its end -/

theorem topoInner_nil (order : Nat → List Nat → List Nat) (es : ES) (s : EventSet) (fuel : Nat) (st : TopoState)
    (h : st.stack = []) : topoInner true order es s fuel st = .done st := by
  cases fuel <;> simp [topoInner, h]

theorem tmu_skip (es : ES) {st : TopoState} {evt : Nat} {rest : List Nat} (hst : st.stack = evt :: rest) :
    tmu es (stSkip st rest) + 1 ≤ tmu es st := by
  have : fresh es (stSkip st rest) = fresh es st := rfl
  unfold tmu
  rw [this]
  simp only [hst, stSkip, List.length_cons]
  omega

theorem tmu_second (es : ES) (s : EventSet) {st : TopoState} {evt : Nat} {rest : List Nat}
    (hst : st.stack = evt :: rest) : tmu es (stSecond s st evt rest) + 1 ≤ tmu es st := by
  have hf : fresh es (stSecond s st evt rest) ≤ fresh es st := by
    apply fresh_le_of
    intro x hx
    simp only [stSecond, Bool.and_eq_true, Bool.not_eq_true', List.elem_eq_mem, decide_eq_false_iff_not] at hx ⊢
    obtain ⟨h1, h2⟩ := hx
    have h2' : x ∉ st.perm ∧ x ≠ evt :=
      ⟨fun g => h2 (EventSet.mem_insert.mpr (Or.inl g)), fun g => h2 (EventSet.mem_insert.mpr (Or.inr g))⟩
    exact ⟨fun g => h1 (EventSet.mem_remove.mpr ⟨g, h2'.2⟩), h2'.1⟩
  have := Nat.mul_le_mul_left (es.maxCauses + 1) hf
  unfold tmu
  simp only [hst, List.length_cons]
  have hl : (stSecond s st evt rest).stack.length = rest.length := rfl
  omega

theorem tmu_first (es : ES) {st : TopoState} {evt : Nat} (hevt : evt < es.n) (hp : evt ∉ st.perm) (ht : evt ∉ st.temp)
    (pushed : List Nat) (hlen : pushed.length ≤ es.maxCauses) : tmu es (stFirst st evt pushed) + 1 ≤ tmu es st := by
  have hf : fresh es (stFirst st evt pushed) < fresh es st := by
    apply fresh_lt_of evt hevt
    · intro x hx
      simp only [stFirst, Bool.and_eq_true, Bool.not_eq_true', List.elem_eq_mem, decide_eq_false_iff_not] at hx ⊢
      exact ⟨fun g => hx.1 (EventSet.mem_insert.mpr (Or.inl g)), hx.2⟩
    · simp [hp, ht]
    · have : (EventSet.insert st.temp evt).elem evt = true := by
        simpa using EventSet.mem_insert.mpr (Or.inr rfl)
      simp only [stFirst, this, Bool.not_true, Bool.false_and]
  have hl : (stFirst st evt pushed).stack.length = pushed.length + st.stack.length := by simp [stFirst]
  unfold tmu
  rw [hl]
  generalize fresh es st = f0 at hf
  generalize fresh es (stFirst st evt pushed) = f1 at hf
  have : (es.maxCauses + 1) * (f1 + 1) ≤ (es.maxCauses + 1) * f0 := Nat.mul_le_mul_left _ hf
  rw [Nat.mul_add] at this
  omega

theorem topoInner_done {order : Nat → List Nat → List Nat} (hord : ∀ e l, (order e l).Perm l)
    {es : ES} (hv : es.Valid) (hac : ∀ x, ¬ Lt es x x) {s : EventSet} {K : List Nat} :
    ∀ (fuel : Nat) (st : TopoState), TInv es s K st → tmu es st ≤ fuel →
      ∃ st', topoInner true order es s fuel st = .done st' ∧ TInv es s K st' ∧ st'.stack = [] := by
  intro fuel
  induction fuel with
  | zero =>
    intro st h hm
    have : st.stack = [] := List.length_eq_zero_iff.mp (by unfold tmu at hm; omega)
    exact ⟨st, topoInner_nil _ _ _ _ _ this, h, this⟩
  | succ fuel ih =>
    intro st h hm
    cases hst : st.stack with
    | nil => exact ⟨st, topoInner_nil _ _ _ _ _ hst, h, hst⟩
    | cons evt rest =>
      have hevt : evt < es.n := h.bounded evt (by rw [hst]; simp)
      rw [topoInner]
      simp only [hst, Bool.true_and]
      by_cases hp : evt ∈ st.perm
      · have hpe : st.perm.elem evt = true := by simpa using hp
        simp only [hpe, if_true]
        exact ih (stSkip st rest) (tinv_skip h hst hp) (by have := tmu_skip es hst; omega)
      · have hpe : st.perm.elem evt = false := by simpa using hp
        simp only [hpe, Bool.false_eq_true, if_false]
        by_cases ht : evt ∈ st.temp
        · have hte : st.temp.elem evt = true := by simpa using ht
          simp only [hte, Bool.not_true, Bool.false_eq_true, if_false]
          exact ih (stSecond s st evt rest) (tinv_second h hst hp ht) (by have := tmu_second es s hst; omega)
        · have hte : st.temp.elem evt = false := by simpa using ht
          simp only [hte, Bool.not_false, if_true]
          -- no cycle exception
          have hnocyc : (!(es.causesOf evt).isEmpty &&
              EventSet.isSubsetOf (es.causesOf evt) (EventSet.insert st.temp evt)) = false := by
            rw [Bool.eq_false_iff]
            intro hcy
            simp only [Bool.and_eq_true, Bool.not_eq_true', EventSet.isSubsetOf_iff] at hcy
            obtain ⟨hne, hsub⟩ := hcy
            cases hcs : es.causesOf evt with
            | nil => simp [hcs] at hne
            | cons c cs =>
              have hc : c ∈ es.causesOf evt := by rw [hcs]; simp
              obtain ⟨g1, g2⟩ := first_causes hac h hst c hc
              rcases EventSet.mem_insert.mp (hsub c hc) with g | g
              · exact g2 g
              · exact g1 g
          simp only [hnocyc, Bool.false_eq_true, if_false]
          have hpushed : ∀ x, x ∈ (order evt (EventSet.subtract (EventSet.subtract (es.causesOf evt)
              (EventSet.insert st.disc evt)) st.perm)).reverse ↔
              x ∈ es.causesOf evt ∧ x ∉ EventSet.insert st.disc evt ∧ x ∉ st.perm := by
            intro x
            rw [List.mem_reverse, (hord _ _).mem_iff, EventSet.mem_subtract, EventSet.mem_subtract]
            exact and_assoc
          have hlen : (order evt (EventSet.subtract (EventSet.subtract (es.causesOf evt)
              (EventSet.insert st.disc evt)) st.perm)).reverse.length ≤ es.maxCauses := by
            rw [List.length_reverse, (hord _ _).length_eq]
            unfold EventSet.subtract
            exact Nat.le_trans (List.length_filter_le _ _)
              (Nat.le_trans (List.length_filter_le _ _) (causesOf_length_le es evt))
          have hstep := tmu_first es hevt hp ht _ hlen
          rw [← hst]
          exact ih (stFirst st evt _) (tinv_first hv hac h hst hp ht _ hpushed) (by omega)

/-! ### the outer loop -/

/-- what holds between two runs of the inner loop -/
structure OInv (es : ES) (s : EventSet) (st : TopoState) : Prop where
  permClosed : ∀ x ∈ st.perm, ∀ c ∈ es.causesOf x, c ∈ st.perm
  outNodup : st.out.Nodup
  outMem : ∀ x, x ∈ st.out ↔ x ∈ s ∧ x ∈ st.perm
  outOrd : st.out.Pairwise (fun a b => ¬ Lt es b a)
  unk : st.unknown = s.filter (fun x => !st.perm.elem x)
  temp : st.temp = []

theorem tmu_start (es : ES) (st : TopoState) (u : Nat) :
    tmu es { st with disc := [], stack := [u] } ≤ es.innerFuel := by
  unfold tmu ES.innerFuel fresh
  have := List.length_filter_le (fun x => !st.temp.elem x && !st.perm.elem x) (List.range es.n)
  rw [List.length_range] at this
  have := Nat.mul_le_mul_left (es.maxCauses + 1) this
  simp only [List.length_cons, List.length_nil]
  omega

theorem topoOuter_ok {pick : List Nat → Option Nat} (hp : PickOk pick) {order : Nat → List Nat → List Nat}
    (hord : ∀ e l, (order e l).Perm l) {es : ES} (hv : es.Valid) (hac : ∀ x, ¬ Lt es x x) {s : EventSet}
    (hs : ∀ x ∈ s, x < es.n) :
    ∀ (fuel : Nat) (st : TopoState), OInv es s st → st.unknown.length ≤ fuel →
      ∃ out, topoOuter true pick order es s fuel st = .ok out ∧ out.Nodup ∧ (∀ x, x ∈ out ↔ x ∈ s) ∧
        out.Pairwise (fun a b => ¬ Lt es b a) := by
  intro fuel
  induction fuel with
  | zero =>
    intro st h hf
    have hu : st.unknown = [] := List.length_eq_zero_iff.mp (by omega)
    have hpk : pick st.unknown = none := by
      cases hpk : pick st.unknown with
      | none => rfl
      | some x => have := hp.mem _ _ hpk; rw [hu] at this; cases this
    refine ⟨st.out, by rw [topoOuter]; simp [hpk], h.outNodup, ?_, h.outOrd⟩
    intro x
    rw [h.outMem x]
    constructor
    · exact fun g => g.1
    · intro hx
      refine ⟨hx, ?_⟩
      apply Classical.byContradiction
      intro hnp
      have : x ∈ st.unknown := by rw [h.unk, List.mem_filter]; exact ⟨hx, by simpa using hnp⟩
      rw [hu] at this; cases this
  | succ fuel ih =>
    intro st h hf
    rw [topoOuter]
    cases hpk : pick st.unknown with
    | none =>
      have hu : st.unknown = [] := by
        apply Classical.byContradiction
        intro hne
        obtain ⟨x, hx⟩ := hp.some _ hne
        rw [hpk] at hx; cases hx
      refine ⟨st.out, rfl, h.outNodup, ?_, h.outOrd⟩
      intro x
      rw [h.outMem x]
      constructor
      · exact fun g => g.1
      · intro hx
        refine ⟨hx, ?_⟩
        apply Classical.byContradiction
        intro hnp
        have : x ∈ st.unknown := by rw [h.unk, List.mem_filter]; exact ⟨hx, by simpa using hnp⟩
        rw [hu] at this; cases this
    | some u =>
      simp only []
      have hum : u ∈ st.unknown := hp.mem _ _ hpk
      have hus : u ∈ s ∧ u ∉ st.perm := by
        rw [h.unk, List.mem_filter] at hum
        exact ⟨hum.1, by simpa using hum.2⟩
      have h0 : TInv es s (u :: st.perm) { st with disc := [], stack := [u] } := by
        refine ⟨?_, h.permClosed, h.outNodup, h.outMem, h.outOrd, h.unk, ?_, ?_, ?_, ?_, ?_⟩
        · intro x hx; simp at hx; subst hx; exact hs x hus.1
        · intro t ht; rw [show ({ st with disc := [], stack := [u] } : TopoState).temp = st.temp from rfl, h.temp] at ht; cases ht
        · intro above t below _ ht
          rw [show ({ st with disc := [], stack := [u] } : TopoState).temp = st.temp from rfl, h.temp] at ht; cases ht
        · intro x hx; cases hx
        · intro t ht; rw [show ({ st with disc := [], stack := [u] } : TopoState).temp = st.temp from rfl, h.temp] at ht; cases ht
        · intro x hx
          rcases List.mem_cons.mp hx with rfl | hx
          · left; simp
          · right; exact hx
      obtain ⟨st', hrun, hinv, hstk⟩ := topoInner_done hord hv hac es.innerFuel _ h0 (tmu_start es st u)
      rw [hrun]
      simp only []
      have htemp : st'.temp = [] := by
        apply List.eq_nil_iff_forall_not_mem.mpr
        intro t ht
        have := (hinv.tempStack t ht).1
        rw [hstk] at this; cases this
      have hkeep : ∀ x ∈ u :: st.perm, x ∈ st'.perm := by
        intro x hx
        rcases hinv.start x hx with g | g
        · rw [hstk] at g; cases g
        · exact g
      have hup : u ∈ st'.perm := hkeep u (by simp)
      apply ih st' ⟨hinv.permClosed, hinv.outNodup, hinv.outMem, hinv.outOrd, hinv.unk, htemp⟩
      -- `u` left `unknown_events`
      have hlt : st'.unknown.length < st.unknown.length := by
        rw [hinv.unk, h.unk]
        apply filter_length_lt _ _ _ _ u hus.1
        · simpa using hus.2
        · simpa using hup
        · intro x hx
          simp only [Bool.not_eq_true', List.elem_eq_mem, decide_eq_false_iff_not] at hx ⊢
          intro hxp
          exact hx (hkeep x (by simp [hxp]))
      omega

/-- an event structure whose causes always have smaller ids is acyclic -/
theorem le_of_decreasing {es : ES} (h : ∀ e c, c ∈ es.causesOf e → c < e) {x y : Nat} (hle : Le es x y) : x ≤ y := by
  induction hle with
  | refl => exact Nat.le_refl _
  | step hc _ ih => have := h _ _ hc; omega

theorem acyclic_of_decreasing {es : ES} (h : ∀ e c, c ∈ es.causesOf e → c < e) : ∀ x, ¬ Lt es x x := by
  rintro x ⟨c, hc, hle⟩
  have := h _ _ hc
  have := le_of_decreasing h hle
  omega

end SgVerif.C44
