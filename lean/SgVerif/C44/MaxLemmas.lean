import SgVerif.C44.Lemmas
/-
C44 — the stack machine of `maximal_subsets_iterator` (Model.lean: `MaxIter.increment`, `continueTraversal`,
`backtrackLoop`, `Bookkeeper` counts) is EQUAL to the recursive depth-first enumeration `dfsL`, for every ordering,
every size limit, every event structure; and what `dfsL` contains.  Core-only.
-/
namespace SgVerif.C44

/-! ### `current_history` never holds an event twice -/

theorem insert_nodup (s : EventSet) (e : Nat) (h : s.Nodup) : (EventSet.insert s e).Nodup := by
  unfold EventSet.insert
  split
  · exact h
  · rename_i hne
    rw [List.nodup_append]
    refine ⟨h, by simp, ?_⟩
    intro a ha b hb hab
    simp at hb; subst hb; subst hab
    exact hne (by simpa using ha)

theorem histStep_nodup (pick : List Nat → Option Nat) (es : ES) (st : HistState) (h : st.history.Nodup) :
    (histStep pick es st).history.Nodup := by
  unfold histStep
  split
  · exact h
  · exact insert_nodup _ _ h

theorem histRun_nodup (pick : List Nat → Option Nat) (es : ES) (fuel : Nat) (st : HistState) (h : st.history.Nodup) :
    (histRun pick es fuel st).history.Nodup := by
  induction fuel generalizing st with
  | zero => exact h
  | succ fuel ih =>
    unfold histRun
    split
    · exact h
    · exact ih _ (histStep_nodup pick es st h)

theorem localConfig_nodup (pick : List Nat → Option Nat) (es : ES) (e : Nat) : (localConfig pick es e).Nodup :=
  histRun_nodup pick es _ _ (by simp [HistState.init])

/-! ### the Bookkeeper counts -/

theorem bump_step_getD (f : Nat → Nat) (c : List Nat) (h e : Nat) :
    (((if h < c.length then c.set h (f ((c[h]?).getD 0)) else c ++ List.replicate (h - c.length) 0 ++ [f 0])[e]?).getD 0)
      = if e = h then f ((c[e]?).getD 0) else (c[e]?).getD 0 := by
  split
  · rename_i hlt
    rw [List.getElem?_set]
    by_cases heh : h = e
    · subst heh; simp [hlt]
    · have : ¬ e = h := fun x => heh x.symm
      simp [heh, this]
  · rename_i hge
    by_cases h1 : e < c.length
    · have : ¬ e = h := by omega
      simp only [this, if_false]
      rw [List.append_assoc, List.getElem?_append_left h1]
    · rw [List.append_assoc, List.getElem?_append_right (by omega)]
      have hce : c[e]? = none := List.getElem?_eq_none (by omega)
      rw [hce]
      by_cases h2 : e - c.length < h - c.length
      · have : ¬ e = h := by omega
        simp only [this, if_false]
        rw [List.getElem?_append_left (by simpa using h2)]
        simp [h2]
      · rw [List.getElem?_append_right (by simp; omega)]
        simp only [List.length_replicate]
        by_cases h3 : e = h
        · subst h3; simp
        · have : e - c.length - (h - c.length) ≠ 0 := by omega
          simp only [h3, if_false]
          obtain ⟨d, hd⟩ : ∃ d, e - c.length - (h - c.length) = d + 1 := ⟨_, (Nat.succ_pred_eq_of_ne_zero this).symm⟩
          rw [hd]; simp

theorem bump_getD (f : Nat → Nat) (lc : List Nat) (hnd : lc.Nodup) : ∀ (c : List Nat) (e : Nat),
    ((bump f c lc)[e]?).getD 0 = if e ∈ lc then f ((c[e]?).getD 0) else (c[e]?).getD 0 := by
  induction lc with
  | nil => intro c e; simp [bump]
  | cons h t ih =>
    intro c e
    have hnd' := List.nodup_cons.mp hnd
    unfold bump at ih ⊢
    rw [List.foldl_cons, ih hnd'.2, bump_step_getD]
    by_cases h1 : e = h
    · subst h1; simp [hnd'.1]
    · by_cases h2 : e ∈ t <;> simp [h1, h2]

/-! ### the machine against `dfsL` -/

section
variable (pick : List Nat → Option Nat) (es : ES)

/-- the candidate test of the Bookkeeper as a function of the current set: `e` is in no local configuration of a member -/
def okLC (c : EventSet) (e : Nat) : Bool := c.all (fun x => !(localConfig pick es x).elem e)

/-- the set held by the iterator, from its stack of positions (top first) -/
def curOf (ord : List Nat) (st : List Nat) : EventSet := st.reverse.map (fun p => (ord[p]?).getD 0)

theorem curOf_cons (ord : List Nat) (p : Nat) (st : List Nat) :
    curOf ord (p :: st) = curOf ord st ++ [(ord[p]?).getD 0] := by simp [curOf]

theorem curOf_length (ord st : List Nat) : (curOf ord st).length = st.length := by simp [curOf]

/-- what is still to be yielded once the sub-trees of the elements on the stack are left, bottom-up -/
def remStack (ord : List Nat) (m : Option Nat) : List Nat → List EventSet
  | [] => []
  | p :: st => dfsL (okLC pick es) m (curOf ord st) (ord.drop (p + 1)) ++ remStack ord m st

/-- everything the iterator yields after the set described by the stack -/
def remaining (ord : List Nat) (m : Option Nat) : List Nat → List EventSet
  | [] => []
  | p :: st =>
    (if canGrowLen m (st.length + 1) then dfsL (okLC pick es) m (curOf ord (p :: st)) (ord.drop (p + 1)) else [])
      ++ remStack pick es ord m (p :: st)

/-- the stack holds decreasing valid positions (top = latest = largest) -/
def StackOk (ord : List Nat) (st : List Nat) : Prop := st.Pairwise (· > ·) ∧ ∀ p ∈ st, p < ord.length

structure MInv (ord : List Nat) (m : Option Nat) (it : MaxIter) (st : List Nat) : Prop where
  ord_eq : it.ord = ord
  max_eq : it.maxSize = m
  started : it.started = true
  stack : it.backtrack = st
  cur : it.cur = some (curOf ord st)
  cnt : ∀ e, (it.counts[e]?).getD 0 = (curOf ord st).countP (fun x => (localConfig pick es x).elem e)

theorem getD_mem {ord : List Nat} {p : Nat} (h : p < ord.length) : (ord[p]?).getD 0 ∈ ord := by
  rw [List.getElem?_eq_getElem h]; simp

theorem ordGetD_inj {ord : List Nat} (hnd : ord.Nodup) {p q : Nat} (hp : p < ord.length) (hq : q < ord.length)
    (h : (ord[p]?).getD 0 = (ord[q]?).getD 0) : p = q := by
  rw [List.getElem?_eq_getElem hp, List.getElem?_eq_getElem hq] at h
  simp only [Option.getD_some] at h
  exact (List.getElem_inj hnd).mp h

theorem not_mem_curOf {ord : List Nat} (hnd : ord.Nodup) {p : Nat} {st : List Nat} (hs : StackOk ord (p :: st)) :
    (ord[p]?).getD 0 ∉ curOf ord st := by
  intro h
  simp only [curOf, List.mem_map, List.mem_reverse] at h
  obtain ⟨q, hq, heq⟩ := h
  have h1 := List.pairwise_cons.mp hs.1
  have := ordGetD_inj hnd (hs.2 q (by simp [hq])) (hs.2 p (by simp)) heq
  have := h1.1 q hq
  omega

theorem isCandidate_iff {ord : List Nat} {m : Option Nat} {it : MaxIter} {st : List Nat}
    (h : MInv pick es ord m it st) (e : Nat) : it.isCandidate e = okLC pick es (curOf ord st) e := by
  unfold MaxIter.isCandidate okLC
  rw [h.cnt e]
  rw [Bool.eq_iff_iff]
  simp only [beq_iff_eq, List.countP_eq_zero, List.all_eq_true, Bool.not_eq_true']
  constructor
  · intro h1 x hx
    have := h1 x hx
    simpa using this
  · intro h1 x hx
    have := h1 x hx
    simpa using this

/-- `find_next_candidate_event(first, end)` against the recursive enumeration of the candidates from `first` on -/
theorem findNext_spec {ord : List Nat} {m : Option Nat} {it : MaxIter} {st : List Nat}
    (h : MInv pick es ord m it st) : ∀ (d q : Nat), ord.length - q = d → q ≤ ord.length →
    (it.findNext q = none → dfsL (okLC pick es) m (curOf ord st) (ord.drop q) = []) ∧
    (∀ p, it.findNext q = some p → q ≤ p ∧ p < ord.length ∧
      dfsL (okLC pick es) m (curOf ord st) (ord.drop q) =
        (curOf ord st ++ [(ord[p]?).getD 0]) ::
          ((if canGrowLen m ((curOf ord st).length + 1)
              then dfsL (okLC pick es) m (curOf ord st ++ [(ord[p]?).getD 0]) (ord.drop (p + 1)) else [])
            ++ dfsL (okLC pick es) m (curOf ord st) (ord.drop (p + 1)))) := by
  intro d
  induction d with
  | zero =>
    intro q hd hq
    have hqe : q = ord.length := by omega
    subst hqe
    unfold MaxIter.findNext
    rw [h.ord_eq]
    have : (List.range ord.length).drop ord.length = [] := List.drop_eq_nil_of_le (by simp)
    simp [dfsL, this]
  | succ d ih =>
    intro q hd hq
    have hql : q < ord.length := by omega
    have hdrop : ord.drop q = (ord[q]?).getD 0 :: ord.drop (q + 1) := by
      rw [List.getElem?_eq_getElem hql]; simp
    have hr : (List.range ord.length).drop q = q :: (List.range ord.length).drop (q + 1) := by
      have hq' : q < (List.range ord.length).length := by simpa using hql
      rw [List.drop_eq_getElem_cons hq']; simp
    have hfn : it.findNext q =
        if it.isCandidate ((ord[q]?).getD 0) then some q else it.findNext (q + 1) := by
      unfold MaxIter.findNext
      rw [h.ord_eq, hr, List.find?_cons]
      rw [List.getElem?_eq_getElem hql]
      simp only [Option.getD_some]
      split <;> simp_all
    obtain ⟨ih1, ih2⟩ := ih (q + 1) (by omega) (by omega)
    rw [hfn, isCandidate_iff pick es h, hdrop, dfsL]
    by_cases hok : okLC pick es (curOf ord st) ((ord[q]?).getD 0) = true
    · simp only [hok, if_true]
      refine ⟨(fun hx => nomatch hx), ?_⟩
      intro p hp
      injection hp with hp
      subst hp
      exact ⟨Nat.le_refl _, hql, rfl⟩
    · simp only [hok, Bool.false_eq_true, if_false]
      refine ⟨ih1, ?_⟩
      intro p hp
      obtain ⟨h1, h2, h3⟩ := ih2 p hp
      exact ⟨by omega, h2, h3⟩

theorem countP_snoc (p : Nat → Bool) (l : List Nat) (a : Nat) :
    (l ++ [a]).countP p = l.countP p + (if p a then 1 else 0) := by
  rw [List.countP_append]; simp [List.countP_cons]

/-- `add_element_to_current_maximal_set` + push -/
theorem add_inv {ord : List Nat} (hnd : ord.Nodup) {m : Option Nat} {it : MaxIter} {st : List Nat}
    (h : MInv pick es ord m it st) {p : Nat} (hs : StackOk ord (p :: st)) :
    MInv pick es ord m (MaxIter.add pick es it p ((it.ord[p]?).getD 0)) (p :: st) := by
  have hnm := not_mem_curOf hnd hs
  rw [h.ord_eq]
  refine ⟨h.ord_eq, h.max_eq, h.started, by simp [MaxIter.add, h.stack], ?_, ?_⟩
  · simp only [MaxIter.add, h.cur, Option.map_some, curOf_cons]
    congr 1
    unfold EventSet.insert
    have : (curOf ord st).elem ((ord[p]?).getD 0) = false := by simpa using hnm
    rw [this]; simp
  · intro e
    simp only [MaxIter.add]
    rw [bump_getD _ _ (localConfig_nodup pick es _), curOf_cons, countP_snoc, h.cnt e]
    by_cases he : e ∈ localConfig pick es ((ord[p]?).getD 0) <;> simp [he]

/-- `remove_element_from_current_maximal_set` + pop -/
theorem del_inv {ord : List Nat} (hnd : ord.Nodup) {m : Option Nat} {it : MaxIter} {p : Nat} {st : List Nat}
    (h : MInv pick es ord m it (p :: st)) (hs : StackOk ord (p :: st)) :
    MInv pick es ord m { MaxIter.del pick es it ((it.ord[p]?).getD 0) with backtrack := st } st := by
  have hnm := not_mem_curOf hnd hs
  rw [h.ord_eq]
  refine ⟨h.ord_eq, h.max_eq, h.started, rfl, ?_, ?_⟩
  · simp only [MaxIter.del, h.cur, Option.map_some, curOf_cons]
    congr 1
    unfold EventSet.remove
    rw [List.filter_append]
    have h1 : (curOf ord st).filter (fun x => x != (ord[p]?).getD 0) = curOf ord st := by
      apply List.filter_eq_self.mpr
      intro a ha
      have : a ≠ (ord[p]?).getD 0 := fun x => hnm (x ▸ ha)
      simpa using this
    rw [h1]; simp
  · intro e
    simp only [MaxIter.del]
    rw [bump_getD _ _ (localConfig_nodup pick es _)]
    have := h.cnt e
    rw [curOf_cons, countP_snoc] at this
    rw [this]
    by_cases he : e ∈ localConfig pick es ((ord[p]?).getD 0) <;> simp [he]

theorem stackOk_tail {ord : List Nat} {p : Nat} {st : List Nat} (hs : StackOk ord (p :: st)) : StackOk ord st :=
  ⟨(List.pairwise_cons.mp hs.1).2, fun q hq => hs.2 q (by simp [hq])⟩

theorem stackOk_push {ord : List Nat} {p p' : Nat} {st : List Nat} (hs : StackOk ord (p :: st)) (h1 : p < p')
    (h2 : p' < ord.length) : StackOk ord (p' :: p :: st) := by
  refine ⟨List.pairwise_cons.mpr ⟨?_, hs.1⟩, ?_⟩
  · intro q hq
    rcases List.mem_cons.mp hq with rfl | hq
    · exact h1
    · have := (List.pairwise_cons.mp hs.1).1 q hq
      show p' > q
      omega
  · intro q hq
    rcases List.mem_cons.mp hq with rfl | hq
    · exact h2
    · exact hs.2 q hq

theorem stackOk_replace {ord : List Nat} {p p' : Nat} {st : List Nat} (hs : StackOk ord (p :: st)) (h1 : p < p')
    (h2 : p' < ord.length) : StackOk ord (p' :: st) := by
  have := stackOk_push hs h1 h2
  refine ⟨?_, fun q hq => this.2 q (by rcases List.mem_cons.mp hq with rfl | hq <;> simp [*])⟩
  have h3 := List.pairwise_cons.mp this.1
  have h4 := List.pairwise_cons.mp h3.2
  exact List.pairwise_cons.mpr ⟨fun q hq => h3.1 q (by simp [hq]), h4.2⟩

/-- the backtracking `while` loop: either nothing is left at all, or it stops below a position `p'` whose event extends
the set of the remaining stack, and what was left is that new set followed by what is left after it -/
theorem backtrack_spec {ord : List Nat} (hnd : ord.Nodup) {m : Option Nat} :
    ∀ (st : List Nat) (fuel : Nat) (it : MaxIter), MInv pick es ord m it st → StackOk ord st → st.length ≤ fuel →
    ((MaxIter.backtrackLoop pick es fuel it).2 = none → remStack pick es ord m st = []) ∧
    (∀ p', (MaxIter.backtrackLoop pick es fuel it).2 = some p' →
      ∃ st', MInv pick es ord m (MaxIter.backtrackLoop pick es fuel it).1 st' ∧ StackOk ord (p' :: st') ∧
        remStack pick es ord m st = curOf ord (p' :: st') :: remaining pick es ord m (p' :: st')) := by
  intro st
  induction st with
  | nil =>
    intro fuel it h _ _
    have hb : it.backtrack = [] := h.stack
    cases fuel with
    | zero => simp [MaxIter.backtrackLoop, remStack]
    | succ fuel => simp [MaxIter.backtrackLoop, hb, remStack]
  | cons p st ih =>
    intro fuel it h hs hf
    cases fuel with
    | zero => simp at hf
    | succ fuel =>
      have hb : it.backtrack = p :: st := h.stack
      have h2 := del_inv pick es hnd h hs
      have hs2 := stackOk_tail hs
      obtain ⟨f1, f2⟩ := findNext_spec pick es h2 _ (p + 1) rfl (by have := hs.2 p (by simp); omega)
      rw [MaxIter.backtrackLoop]
      simp only [hb]
      cases hfn : MaxIter.findNext { MaxIter.del pick es it ((it.ord[p]?).getD 0) with backtrack := st } (p + 1) with
      | none =>
        simp only []
        have := ih fuel _ h2 hs2 (by simpa using hf)
        rw [remStack, f1 hfn, List.nil_append]
        exact this
      | some p' =>
        simp only []
        refine ⟨(fun hx => nomatch hx), ?_⟩
        intro q hq
        injection hq with hq
        subst hq
        obtain ⟨g1, g2, g3⟩ := f2 p' hfn
        refine ⟨st, h2, stackOk_replace hs (by omega) g2, ?_⟩
        rw [remStack, g3, remaining, remStack, curOf_cons, curOf_length]
        simp [List.append_assoc]

theorem canGrow_eq {ord : List Nat} {m : Option Nat} {it : MaxIter} {st : List Nat}
    (h : MInv pick es ord m it st) : it.canGrow = canGrowLen m st.length := by
  unfold MaxIter.canGrow canGrowLen
  rw [h.cur, h.max_eq]
  cases m <;> simp [curOf_length]

/-- one `increment` of a started iterator: it yields the next set of the enumeration, or ends when none is left -/
theorem increment_spec {ord : List Nat} (hnd : ord.Nodup) (hself : ∀ x ∈ ord, x ∈ localConfig pick es x)
    {m : Option Nat} {it : MaxIter} {p : Nat} {st : List Nat}
    (h : MInv pick es ord m it (p :: st)) (hs : StackOk ord (p :: st)) :
    ((MaxIter.increment pick es it).cur = none ∧ remaining pick es ord m (p :: st) = []) ∨
    (∃ st', st' ≠ [] ∧ MInv pick es ord m (MaxIter.increment pick es it) st' ∧ StackOk ord st' ∧
      remaining pick es ord m (p :: st) = curOf ord st' :: remaining pick es ord m st') := by
  have hpl : p < ord.length := hs.2 p (by simp)
  have hne : ord.isEmpty = false := by cases ord <;> simp_all
  have hb : it.backtrack = p :: st := h.stack
  -- the search from `latest` never returns `latest` itself
  have hfnp : it.findNext p = it.findNext (p + 1) := by
    have hr : (List.range ord.length).drop p = p :: (List.range ord.length).drop (p + 1) := by
      have hq' : p < (List.range ord.length).length := by simpa using hpl
      rw [List.drop_eq_getElem_cons hq']; simp
    have hnc : it.isCandidate ((ord[p]?).getD 0) = false := by
      rw [isCandidate_iff pick es h]
      unfold okLC
      rw [Bool.eq_false_iff]
      intro hall
      rw [List.all_eq_true] at hall
      have := hall ((ord[p]?).getD 0) (by rw [curOf_cons]; simp)
      have hm := hself _ (getD_mem hpl)
      simp [hm] at this
    unfold MaxIter.findNext
    rw [h.ord_eq, hr, List.find?_cons, List.getElem?_eq_getElem hpl]
    rw [List.getElem?_eq_getElem hpl] at hnc
    simp only [Option.getD_some] at hnc
    simp [hnc]
  obtain ⟨f1, f2⟩ := findNext_spec pick es h _ (p + 1) rfl (by omega)
  -- the two exits
  have hgrow : ∀ p', it.findNext (p + 1) = some p' → canGrowLen m (st.length + 1) = true →
      ∃ st', st' ≠ [] ∧ MInv pick es ord m (MaxIter.add pick es it p' ((it.ord[p']?).getD 0)) st' ∧ StackOk ord st' ∧
        remaining pick es ord m (p :: st) = curOf ord st' :: remaining pick es ord m st' := by
    intro p' hp' hg
    obtain ⟨g1, g2, g3⟩ := f2 p' hp'
    have hs' := stackOk_push hs (by omega) g2
    refine ⟨p' :: p :: st, by simp, add_inv pick es hnd h hs', hs', ?_⟩
    rw [remaining, hg, if_pos rfl, g3, curOf_length]
    conv => rhs; rw [remaining, remStack]
    rw [curOf_cons ord p' (p :: st)]
    simp [List.append_assoc]
  have hback : (canGrowLen m (st.length + 1) = false ∨ it.findNext (p + 1) = none) →
      (((MaxIter.backtrackLoop pick es (it.backtrack.length + 1) it).2 = none ∧ remaining pick es ord m (p :: st) = []) ∨
       (∃ p' st', (MaxIter.backtrackLoop pick es (it.backtrack.length + 1) it).2 = some p' ∧
          MInv pick es ord m (MaxIter.backtrackLoop pick es (it.backtrack.length + 1) it).1 st' ∧
          StackOk ord (p' :: st') ∧
          remaining pick es ord m (p :: st) = curOf ord (p' :: st') :: remaining pick es ord m (p' :: st'))) := by
    intro hcase
    have hrem : remaining pick es ord m (p :: st) = remStack pick es ord m (p :: st) := by
      rw [remaining]
      rcases hcase with hg | hn
      · simp [hg]
      · rw [f1 hn]; simp
    obtain ⟨b1, b2⟩ := backtrack_spec pick es hnd (p :: st) (it.backtrack.length + 1) it h hs (by rw [hb]; simp)
    cases hbt : (MaxIter.backtrackLoop pick es (it.backtrack.length + 1) it).2 with
    | none => exact Or.inl ⟨rfl, by rw [hrem]; exact b1 hbt⟩
    | some p' =>
      obtain ⟨st', i1, i2, i3⟩ := b2 p' hbt
      exact Or.inr ⟨p', st', rfl, i1, i2, by rw [hrem]; exact i3⟩
  unfold MaxIter.increment
  rw [h.cur]
  simp only [h.ord_eq, hne, Bool.false_eq_true, if_false, h.started, Bool.not_true]
  unfold MaxIter.continueTraversal
  simp only [hb]
  rw [canGrow_eq pick es h, hfnp]
  simp only [List.length_cons]
  by_cases hg : canGrowLen m (st.length + 1) = true
  · simp only [hg, if_true]
    cases hfn : it.findNext (p + 1) with
    | some p' =>
      simp only []
      exact Or.inr (hgrow p' hfn hg)
    | none =>
      simp only []
      rcases hback (Or.inr hfn) with ⟨c1, c2⟩ | ⟨p', st', c1, c2, c3, c4⟩
      · left
        rw [hb] at c1
        simp only [List.length_cons] at c1
        refine ⟨?_, c2⟩
        generalize MaxIter.backtrackLoop pick es (st.length + 1 + 1) it = r at c1 ⊢
        obtain ⟨r1, r2⟩ := r
        simp only at c1; subst c1; rfl
      · right
        rw [hb] at c1 c2
        simp only [List.length_cons] at c1 c2
        generalize MaxIter.backtrackLoop pick es (st.length + 1 + 1) it = r at c1 c2 ⊢
        obtain ⟨r1, r2⟩ := r
        simp only at c1 c2; subst c1
        exact ⟨p' :: st', by simp, add_inv pick es hnd c2 c3, c3, c4⟩
  · have hg' : canGrowLen m (st.length + 1) = false := by simpa using hg
    simp only [hg', Bool.false_eq_true, if_false]
    rcases hback (Or.inl hg') with ⟨c1, c2⟩ | ⟨p', st', c1, c2, c3, c4⟩
    · left
      rw [hb] at c1
      simp only [List.length_cons] at c1
      refine ⟨?_, c2⟩
      generalize MaxIter.backtrackLoop pick es (st.length + 1 + 1) it = r at c1 ⊢
      obtain ⟨r1, r2⟩ := r
      simp only at c1; subst c1; rfl
    · right
      rw [hb] at c1 c2
      simp only [List.length_cons] at c1 c2
      generalize MaxIter.backtrackLoop pick es (st.length + 1 + 1) it = r at c1 c2 ⊢
      obtain ⟨r1, r2⟩ := r
      simp only at c1 c2; subst c1
      exact ⟨p' :: st', by simp, add_inv pick es hnd c2 c3, c3, c4⟩

theorem collect_none (fuel : Nat) (it : MaxIter) (acc : List EventSet) (h : it.cur = none) :
    MaxIter.collect pick es fuel it acc = acc.reverse := by
  cases fuel <;> simp [MaxIter.collect, h]

/-- the `for (it = begin; it != end; ++it)` loop from a started iterator -/
theorem collect_spec {ord : List Nat} (hnd : ord.Nodup) (hself : ∀ x ∈ ord, x ∈ localConfig pick es x)
    {m : Option Nat} : ∀ (fuel : Nat) (it : MaxIter) (st : List Nat) (acc : List EventSet),
    st ≠ [] → MInv pick es ord m it st → StackOk ord st → (remaining pick es ord m st).length + 1 ≤ fuel →
    MaxIter.collect pick es fuel it acc = acc.reverse ++ curOf ord st :: remaining pick es ord m st := by
  intro fuel
  induction fuel with
  | zero => intro it st acc _ _ _ hf; simp at hf
  | succ fuel ih =>
    intro it st acc hne h hs hf
    cases st with
    | nil => exact absurd rfl hne
    | cons p st =>
      rw [MaxIter.collect, h.cur]
      simp only []
      rcases increment_spec pick es hnd hself h hs with ⟨c1, c2⟩ | ⟨st', c1, c2, c3, c4⟩
      · rw [collect_none pick es _ _ _ c1, c2]; simp
      · rw [ih _ st' _ c1 c2 c3 (by rw [c4] at hf; simpa using hf), c4]; simp

/-- **the stack machine = the recursive enumeration**, for every ordering without repetition, every size limit -/
theorem maximalSubsets_eq_dfsL {ord : List Nat} (hnd : ord.Nodup) (hself : ∀ x ∈ ord, x ∈ localConfig pick es x)
    (m : Option Nat) (fuel : Nat) (hf : (dfsL (okLC pick es) m [] ord).length + 1 ≤ fuel) :
    maximalSubsets pick es ord m fuel = [] :: dfsL (okLC pick es) m [] ord := by
  unfold maximalSubsets
  cases fuel with
  | zero => simp at hf
  | succ fuel =>
    rw [MaxIter.collect]
    simp only []
    by_cases hemp : ord = []
    · subst hemp
      rw [collect_none]
      · simp [dfsL]
      · simp [MaxIter.increment]
    · have hne : ord.isEmpty = false := by cases ord <;> simp_all
      -- the iterator after `has_started_searching = true`, before the first event is added
      have h0 : MInv pick es ord m ⟨ord, true, m, some [], [], []⟩ [] :=
        ⟨rfl, rfl, rfl, rfl, by simp [curOf], by intro e; simp [curOf]⟩
      obtain ⟨f1, f2⟩ := findNext_spec pick es h0 _ 0 rfl (by omega)
      have hcur : curOf ord [] = [] := by simp [curOf]
      rw [hcur] at f1 f2
      simp only [List.drop_zero, List.nil_append, List.length_nil, Nat.zero_add] at f1 f2
      cases hfn : MaxIter.findNext ⟨ord, true, m, some [], [], []⟩ 0 with
      | none =>
        have hinc : (MaxIter.increment pick es ⟨ord, false, m, some [], [], []⟩).cur = none := by
          simp [MaxIter.increment, hne, hfn]
        rw [collect_none _ _ _ _ _ hinc, f1 hfn]; simp
      | some p =>
        have hinc : MaxIter.increment pick es ⟨ord, false, m, some [], [], []⟩ =
            MaxIter.add pick es ⟨ord, true, m, some [], [], []⟩ p ((ord[p]?).getD 0) := by
          simp [MaxIter.increment, hne, hfn]
        rw [hinc]
        obtain ⟨_, g2, g3⟩ := f2 p hfn
        have hs : StackOk ord [p] := ⟨by simp, by simpa using g2⟩
        have hi := add_inv pick es hnd h0 hs
        have hrem : dfsL (okLC pick es) m [] ord = curOf ord [p] :: remaining pick es ord m [p] := by
          rw [g3, remaining, remStack, remStack, curOf_cons, hcur]
          simp
        rw [hrem] at hf ⊢
        rw [collect_spec pick es hnd hself fuel _ [p] _ (by simp) hi hs (by simpa using hf)]
        simp

end

/-! ### what `dfsL` contains -/

section
variable (ok : EventSet → Nat → Bool)

/-- every element passes the test against the set built before it -/
def Good : EventSet → List Nat → Prop
  | _, [] => True
  | c, e :: s => ok c e = true ∧ Good (c ++ [e]) s

/-- the size limit as the iterator applies it: the first event is added unconditionally, the next ones only while
`can_grow_maximal_set` -/
def sizeOk (m : Option Nat) (c s : List Nat) : Prop :=
  match m with
  | none => True
  | some mm => s.length = 1 ∨ c.length + s.length ≤ mm

theorem mem_dfsL (m : Option Nat) : ∀ (r : List Nat) (c t : EventSet),
    t ∈ dfsL ok m c r ↔ ∃ s, s ≠ [] ∧ s.Sublist r ∧ t = c ++ s ∧ Good ok c s ∧ sizeOk m c s := by
  intro r
  induction r with
  | nil =>
    intro c t
    simp only [dfsL, List.not_mem_nil, false_iff]
    rintro ⟨s, h1, h2, _⟩
    exact h1 (List.sublist_nil.mp h2)
  | cons e r ih =>
    intro c t
    rw [dfsL]
    constructor
    · intro h
      by_cases hok : ok c e = true
      · simp only [hok, if_true, List.mem_cons, List.mem_append] at h
        rcases h with h | h | h
        · refine ⟨[e], by simp, by simp, h, ⟨hok, trivial⟩, ?_⟩
          cases m <;> simp [sizeOk]
        · split at h
          · rename_i hg
            obtain ⟨s, h1, h2, h3, h4, h5⟩ := (ih _ _).mp h
            refine ⟨e :: s, by simp, List.Sublist.cons_cons e h2, by simp [h3], ⟨hok, h4⟩, ?_⟩
            cases m with
            | none => trivial
            | some mm =>
              simp only [sizeOk, canGrowLen, decide_eq_true_eq, List.length_append, List.length_cons,
                List.length_nil] at h5 hg ⊢
              right; omega
          · cases h
        · obtain ⟨s, h1, h2, h3, h4, h5⟩ := (ih _ _).mp h
          exact ⟨s, h1, List.Sublist.cons e h2, h3, h4, h5⟩
      · simp only [hok, Bool.false_eq_true, if_false] at h
        obtain ⟨s, h1, h2, h3, h4, h5⟩ := (ih _ _).mp h
        exact ⟨s, h1, List.Sublist.cons e h2, h3, h4, h5⟩
    · rintro ⟨s, h1, h2, h3, h4, h5⟩
      rcases List.sublist_cons_iff.mp h2 with h2' | ⟨s', rfl, h2'⟩
      · have : t ∈ dfsL ok m c r := (ih _ _).mpr ⟨s, h1, h2', h3, h4, h5⟩
        split
        · simp [this]
        · exact this
      · obtain ⟨hok, hgood⟩ := h4
        simp only [hok, if_true, List.mem_cons, List.mem_append]
        by_cases hs' : s' = []
        · subst hs'; left; exact h3
        · right; left
          have hlen : 0 < s'.length := List.length_pos_iff.mpr hs'
          have hg : canGrowLen m (c.length + 1) = true := by
            cases m with
            | none => rfl
            | some mm =>
              simp only [sizeOk, List.length_cons] at h5
              simp only [canGrowLen, decide_eq_true_eq]
              omega
          rw [hg, if_pos rfl]
          refine (ih _ _).mpr ⟨s', hs', h2', by simp [h3], hgood, ?_⟩
          cases m with
          | none => trivial
          | some mm =>
            simp only [sizeOk, List.length_cons, List.length_append, List.length_nil] at h5 ⊢
            right; omega

theorem dfsL_nodup (m : Option Nat) : ∀ (r : List Nat) (c : EventSet), r.Nodup → (dfsL ok m c r).Nodup := by
  intro r
  induction r with
  | nil => intro c _; simp [dfsL]
  | cons e r ih =>
    intro c hnd
    have hnd' := List.nodup_cons.mp hnd
    rw [dfsL]
    split
    · have hY : ∀ t, t ∈ dfsL ok m c r → ∀ s', t ≠ c ++ e :: s' := by
        intro t ht s' heq
        obtain ⟨s, _, h2, h3, _⟩ := (mem_dfsL ok m r c t).mp ht
        rw [h3] at heq
        have := List.append_cancel_left heq
        subst this
        exact hnd'.1 (h2.subset (by simp))
      rw [List.nodup_cons, List.nodup_append]
      refine ⟨?_, ?_, ih c hnd'.2, ?_⟩
      · intro hmem
        rcases List.mem_append.mp hmem with h | h
        · split at h
          · obtain ⟨s, h1, _, h3, _⟩ := (mem_dfsL ok m r _ _).mp h
            have := congrArg List.length h3
            simp only [List.length_append] at this
            exact h1 (List.length_eq_zero_iff.mp (by omega))
          · cases h
        · exact hY _ h [] rfl
      · split
        · exact ih _ hnd'.2
        · simp
      · intro a ha b hb hab
        subst hab
        split at ha
        · obtain ⟨s, _, _, h3, _⟩ := (mem_dfsL ok m r _ _).mp ha
          exact hY a hb s (by simp [h3])
        · cases ha
    · exact ih c hnd'.2

theorem dfsL_length (m : Option Nat) : ∀ (r : List Nat) (c : EventSet), (dfsL ok m c r).length + 1 ≤ 2 ^ r.length := by
  intro r
  induction r with
  | nil => intro c; simp [dfsL]
  | cons e r ih =>
    intro c
    rw [dfsL]
    have h1 := ih c
    have h2 := ih (c ++ [e])
    simp only [List.length_cons, Nat.pow_succ]
    split
    · split <;> simp <;> omega
    · omega

/-- a sub-list of a list without repetition is determined by its elements -/
theorem sublist_eq_filter : ∀ (l t : List Nat), l.Nodup → t.Sublist l → t = l.filter (fun x => t.elem x) := by
  intro l
  induction l with
  | nil => intro t _ h; simp [List.sublist_nil.mp h]
  | cons a l ih =>
    intro t hnd h
    have hnd' := List.nodup_cons.mp hnd
    rcases List.sublist_cons_iff.mp h with h' | ⟨t', rfl, h'⟩
    · have hat : a ∉ t := fun x => hnd'.1 (h'.subset x)
      rw [List.filter_cons]
      have : t.elem a = false := by simpa using hat
      simp only [this, Bool.false_eq_true, if_false]
      exact ih t hnd'.2 h'
    · rw [List.filter_cons]
      simp only [List.elem_eq_mem, List.mem_cons, true_or, decide_true, if_true]
      congr 1
      have := ih t' hnd'.2 h'
      conv => lhs; rw [this]
      apply List.filter_congr
      intro x hx
      have : x ≠ a := fun e => hnd'.1 (e ▸ hx)
      simp [this]

theorem sublist_ext {l t1 t2 : List Nat} (hnd : l.Nodup) (h1 : t1.Sublist l) (h2 : t2.Sublist l)
    (h : ∀ x, x ∈ t1 ↔ x ∈ t2) : t1 = t2 := by
  rw [sublist_eq_filter l t1 hnd h1, sublist_eq_filter l t2 hnd h2]
  apply List.filter_congr
  intro x _
  simp [h x]

end

/-- `Good` in terms of an order `le` that the test `ok` decides (on the events satisfying `B`) -/
theorem good_iff (ok : EventSet → Nat → Bool) (le : Nat → Nat → Prop) (B : Nat → Prop)
    (hok : ∀ c e, (∀ x ∈ c, B x) → (ok c e = true ↔ ∀ x ∈ c, ¬ le e x)) :
    ∀ (s c : List Nat), (∀ x ∈ c, B x) → (∀ x ∈ s, B x) →
      (Good ok c s ↔ (∀ e ∈ s, ∀ x ∈ c, ¬ le e x) ∧ s.Pairwise (fun a b => ¬ le b a)) := by
  intro s
  induction s with
  | nil => intro c _ _; simp [Good]
  | cons e s ih =>
    intro c hc hs
    have hc' : ∀ x ∈ c ++ [e], B x := by
      intro x hx
      rcases List.mem_append.mp hx with h | h
      · exact hc x h
      · simp at h; subst h; exact hs _ (by simp)
    rw [Good, hok c e hc, ih (c ++ [e]) hc' (fun x hx => hs x (by simp [hx])), List.pairwise_cons]
    constructor
    · rintro ⟨h1, h2, h3⟩
      refine ⟨?_, ?_, h3⟩
      · intro e' he' x hx
        rcases List.mem_cons.mp he' with rfl | he'
        · exact h1 x hx
        · exact h2 e' he' x (by simp [hx])
      · intro b hb; exact h2 b hb e (by simp)
    · rintro ⟨h1, h2, h3⟩
      refine ⟨fun x hx => h1 e (by simp) x hx, ?_, h3⟩
      intro e' he' x hx
      rcases List.mem_append.mp hx with hx | hx
      · exact h1 e' (by simp [he']) x hx
      · simp at hx; subst hx; exact h2 e' he'

end SgVerif.C44
