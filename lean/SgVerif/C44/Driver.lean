import SgVerif.C44.Model
import SgVerif.Common.Proto
open SgVerif.Proto
namespace SgVerif.C44

def pickHead (l : List Nat) : Option Nat := l.head?

/-! parsing -/
def parseBits (s : String) : List Bool := s.toList.map (· == '1')
def bitsToString (l : List Bool) : String := String.ofList (l.map (fun b => if b then '1' else '0'))
def dropPrefix (c : Char) (s : String) : Option String :=
  match s.toList with
  | x :: r => if x = c then some (String.ofList r) else none
  | [] => none
def maskToList (n m : Nat) : List Nat := (List.range n).filter (fun i => m.testBit i)
def listToMask (l : List Nat) : Nat := (l.eraseDups).foldl (fun m i => m + 2 ^ i) 0
def parseDots (s : String) : Option (List Nat) := if s = "-" then some [] else (s.splitOn ".").mapM String.toNat?
def showDots (l : List Nat) : String := if l.isEmpty then "-" else ".".intercalate (l.map toString)

/-- causes of an event token `<causes>:<transition>` -/
def tokCauses (tok : String) : Option (List Nat) :=
  match (tok.splitOn ":").head? with
  | some "-" => some []
  | some cs => (cs.splitOn "+").mapM String.toNat?
  | none => none

/-! independent specifications (the monitor): plain set theory over `le` -/
/-- `x ≤ y` in the causal order: `x = y` or `x ≤` some immediate cause of `y` (fuel = number of events) -/
def leB (es : ES) : Nat → Nat → Nat → Bool
  | 0, x, y => x == y
  | f + 1, x, y => x == y || (es.causesOf y).any (fun c => leB es f x c)

structure Spec where
  es : ES
  n : Nat
  dep : Nat → Nat → Bool
  le : Nat → Nat → Bool

def Spec.closure (sp : Spec) (s : List Nat) : List Nat := (List.range sp.n).filter (fun x => s.any (fun y => sp.le x y))
def Spec.maximal (sp : Spec) (s : List Nat) : List Nat := s.filter (fun m => !s.any (fun y => y != m && sp.le m y))
def Spec.conflict (sp : Spec) (a b : Nat) : Bool :=
  !(sp.le a b || sp.le b a) &&
  ((List.range sp.n).any (fun e => sp.le e a && !sp.le e b && sp.dep e b) ||
   (List.range sp.n).any (fun e => sp.le e b && !sp.le e a && sp.dep e a))
def Spec.conflictFree (sp : Spec) (s : List Nat) : Bool := s.all (fun a => s.all (fun b => !sp.conflict a b))
def Spec.closed (sp : Spec) (s : List Nat) : Bool := (sp.closure s).all (fun x => s.elem x)
def Spec.valid (sp : Spec) (s : List Nat) : Bool := sp.closed s && sp.conflictFree s
def Spec.immConflict (sp : Spec) (a b : Nat) : Bool :=
  sp.conflict a b &&
  sp.valid ((sp.closure [a, b]).filter (· != a)) && sp.valid ((sp.closure [a, b]).filter (· != b))
/-- all sets of pairwise causally unrelated events of `s` with at most `mx` elements (as masks) -/
def Spec.antichains (sp : Spec) (mx : Option Nat) : List Nat → List (List Nat)
  | [] => [[]]
  | e :: r =>
    let rest := Spec.antichains sp mx r
    rest ++ (rest.filter (fun a => a.all (fun x => !(sp.le x e || sp.le e x)) &&
      (match mx with | some m => decide (a.length + 1 ≤ m) | none => true))).map (fun a => e :: a)

def sortNat (l : List Nat) : List Nat := l.mergeSort (fun a b => decide (a ≤ b))
def lexLe : List Nat → List Nat → Bool
  | [], _ => true
  | _ :: _, [] => false
  | a :: r, b :: s => a < b || (a == b && lexLe r s)
def sortLists (l : List (List Nat)) : List (List Nat) := l.mergeSort lexLe

/-- parse the common prefix `n=<n> d<row>*n` -/
def parseUnf (toks : List String) (a : List String) : Option (Spec × List String) :=
  match a with
  | nTok :: rest =>
    match toks.mapM tokCauses, (nTok.splitOn "=")[1]? >>= String.toNat? with
    | some causes, some n =>
      if n ≠ toks.length ∨ rest.length < n then none else
      match (rest.take n).mapM (dropPrefix 'd') with
      | some dRows =>
        let d : Array (Array Bool) := (dRows.map (fun s => (parseBits s).toArray)).toArray
        let es : ES := ⟨causes⟩
        -- precompute `le` as a table
        let tbl : Array (Array Bool) := ((List.range n).map (fun x => ((List.range n).map (fun y => leB es n x y)).toArray)).toArray
        some (⟨es, n, fun i j => (d.getD i #[]).getD j false, fun x y => (tbl.getD x #[]).getD y false⟩, rest.drop n)
      | none => none
    | _, _ => none
  | [] => none

/-- the `o<order>` tokens (one per event) that follow the d rows of `subs` / `maxs` answers: iteration order of the
immediate causes of each event in the implementation's hash sets -/
def parseOrders (n : Nat) (rest : List String) : Option (List (List Nat) × List String) :=
  if rest.length < n then none else
  match (rest.take n).mapM (fun t => dropPrefix 'o' t >>= parseDots) with
  | some os => some (os, rest.drop n)
  | none => none

/-- `*unknown_events.begin()`: the first element, in the iteration order of the implementation's set, still present -/
def pickBy (sorder : List Nat) (l : List Nat) : Option Nat := sorder.find? (fun x => l.elem x)
/-- the order in which `for_each` visits the remaining causes of `evt` -/
def orderBy (corders : List (List Nat)) (evt : Nat) (l : List Nat) : List Nat :=
  ((corders[evt]?).getD []).filter (fun x => l.elem x)

def showTopo : TopoRes → String
  | .ok l => showDots l
  | .cycle => "CYCLE"
  | .fuel => "FUEL"

def splitSemi (q : List String) : List String × List String :=
  (q.takeWhile (· ≠ ";"), (q.dropWhile (· ≠ ";")).drop 1)

def rowsOf (n : Nat) (f : Nat → Nat → Bool) : List String :=
  (List.range n).map (fun i => bitsToString ((List.range n).map (fun j => f i j)))

def judgePairs (sp : Spec) (rest : List String) : Verdict :=
  let n := sp.n
  if rest.length ≠ 5 * n then .bad else
  let es := sp.es
  let lc := fun e => localConfig pickHead es e
  let specAns :=
    (List.range n).map (fun e => s!"H{listToMask ((sp.closure [e]).filter (· != e))}") ++
    (List.range n).map (fun e => s!"L{listToMask (sp.closure [e])}") ++
    (rowsOf n (fun a b => sp.le a b)).map ("i" ++ ·) ++
    (rowsOf n (fun a b => sp.conflict a b)).map ("c" ++ ·) ++
    (rowsOf n (fun a b => sp.immConflict a b)).map ("x" ++ ·)
  if specAns ≠ rest then .monfail s!"histories / in_history_of / conflicts differ from their set-theoretic definitions: spec={specAns}" else
  let modelAns :=
    (List.range n).map (fun e => s!"H{listToMask (getHistory pickHead es e)}") ++
    (List.range n).map (fun e => s!"L{listToMask (lc e)}") ++
    (rowsOf n (fun a b => inHistoryOf pickHead es a b)).map ("i" ++ ·) ++
    (rowsOf n (fun a b => conflictsWith pickHead sp.dep es a b)).map ("c" ++ ·) ++
    (rowsOf n (fun a b => immediatelyConflictsWith pickHead sp.dep es a b)).map ("x" ++ ·)
  cmpAns modelAns rest

def addChar : AddResult → Char
  | .unchanged => 'u' | .conflict => 'c' | .missingHistory => 'm' | .added => 'a'

/-- is `topo` a valid topological ordering of `s`: exactly the elements of `s`, once each, every event after all the
events of `s` that are below it -/
def topoValid (sp : Spec) (s topo : List Nat) : Bool :=
  sortNat topo == sortNat s &&
  (List.range topo.length).all (fun i => (List.range topo.length).all (fun j =>
    !(i < j && (topo[i]?).getD 0 != (topo[j]?).getD 0 && sp.le ((topo[j]?).getD 0) ((topo[i]?).getD 0))))

def judgeSubs (sp : Spec) (corders : List (List Nat)) (masks : List Nat) (rest : List String) : Verdict :=
  let n := sp.n
  let es := sp.es
  if rest.length ≠ masks.length then .bad else
  let idx := List.range masks.length
  let check (specSide : Bool) : List String := idx.map (fun i =>
    let m := (masks[i]?).getD 0
    let t := maskToList n ((masks[(i + 1) % masks.length]?).getD 0)
    let s := maskToList n m
    let topoTok := (((rest[i]?).getD "").splitOn ":")[5]?.getD "?"
    let topoStr := (topoTok.splitOn "/")[0]?.getD "?"
    let sorderStr := (topoTok.splitOn "/")[1]?.getD "?"
    let topoOk := match parseDots topoStr with
      | some topo => topoValid sp s topo
      | none => false
    -- the model replays the search with the implementation's hash orders: the same ordering must come out
    let topoField :=
      if specSide then (if topoOk then topoTok else "INVALID-ORDER")
      else match parseDots sorderStr with
        | some sorder => showTopo (getTopologicalOrdering true (pickBy sorder) (orderBy corders) es s) ++ "/" ++ sorderStr
        | none => "BAD-ORDER-TOKEN"
    let closure := if specSide then sp.closure s else getAllEvents pickHead es s
    let maxi := if specSide then sp.maximal s else getAllMaximalEvents pickHead es s
    let isMax := if specSide then sortNat (sp.maximal s) == sortNat s else isMaximal pickHead es s
    let cf := if specSide then sp.conflictFree s else isConflictFree pickHead sp.dep es s
    let valid := if specSide then sp.valid s else isValidConfiguration pickHead sp.dep es s
    let cwa := (List.range n).filter (fun e => if specSide then s.any (fun x => sp.conflict x e)
                                               else conflictsWithAny pickHead sp.dep es e s)
    let addS := if !valid then "x" else String.ofList ((List.range n).map (fun e =>
      if specSide then
        (if s.elem e then 'u' else if s.any (fun x => sp.conflict x e) then 'c'
         else if !(sp.closure [e]).all (fun x => x == e || s.elem x) then 'm' else 'a')
      else addChar (addEvent pickHead sp.dep es s e)))
    let compat := if !valid then "x" else toString (listToMask ((List.range n).filter (fun e =>
      if specSide then ((sp.closure [e]).all (fun x => x == e || s.elem x)) && !s.any (fun x => sp.conflict x e)
      else isCompatibleWith pickHead sp.dep es s e)))
    let alg :=
      if specSide then
        s!"{listToMask (s ++ t)}.{listToMask (s.filter (!t.elem ·))}.{listToMask (s.filter (t.elem ·))}.{if s.all (t.elem ·) then 1 else 0}.{if s.any (t.elem ·) then 1 else 0}"
      else
        s!"{listToMask (EventSet.union s t)}.{listToMask (EventSet.subtract s t)}.{listToMask (EventSet.inter s t)}.{if EventSet.isSubsetOf s t then 1 else 0}.{if EventSet.intersects s t then 1 else 0}"
    let b := fun (x : Bool) => if x then "1" else "0"
    s!"S{m}:{listToMask closure}:{listToMask maxi}:{b isMax}{b cf}{b valid}:{listToMask cwa}:{topoField}:{addS}:{compat}:{alg}")
  let specAns := check true
  if specAns ≠ rest then
    let bad := (specAns.zip rest).filter (fun (a, b) => a ≠ b)
    .monfail s!"set algebra differs from its set-theoretic definition: (spec, impl) = {bad.take 2}" else
  cmpAns (check false) rest

def judge (q0 a : List String) : Verdict :=
  let q := q0.filter (fun t => !t.startsWith "@")     -- `@<seed>`: placement of the events in memory (harness only)
  match q with
  | "pairs" :: toks =>
    match parseUnf toks a with
    | some (sp, rest) => judgePairs sp rest
    | none => .bad
  | "subs" :: r =>
    let (toks, ms) := splitSemi r
    match parseUnf toks a, ms.mapM String.toNat? with
    | some (sp, rest0), some masks =>
      match parseOrders sp.n rest0 with
      | some (corders, rest) => judgeSubs sp corders masks rest
      | none => .bad
    | _, _ => .bad
  | "maxs" :: r =>
    let (toks, ms) := splitSemi r
    match parseUnf toks a, ms with
    | some (sp, rest0), [mTok, mxTok] =>
      match parseOrders sp.n rest0 with
      | some (corders, qTok :: rest) =>
        match mTok.toNat?, rest.mapM String.toNat?, dropPrefix 'q' qTok >>= parseDots with
        | some m, some impl, some sorder =>
          let mx := mxTok.toNat?
          let s := maskToList sp.n m
          let specL := sortNat ((sp.antichains mx s).map listToMask)
          -- monitor: every qualifying set exactly once
          if sortNat impl ≠ specL then
            .monfail s!"maximal_subsets_iterator does not yield every set of pairwise unrelated events exactly once: spec={specL}"
          else
            -- the model: the constructor's ordering, replayed with the implementation's hash orders, then the stack machine;
            -- the SEQUENCE of yielded sets must be the same
            match getTopologicalOrderingOfReverseGraph true (pickBy sorder) (orderBy corders) sp.es s with
            | .ok ord =>
              let model := (maximalSubsets pickHead sp.es ord mx (2 ^ s.length + 2)).map listToMask
              if model = impl then .ok else .disagree s!"{model} (ordering {ord})"
            | r => .disagree s!"ordering: {showTopo r}"
        | _, _, _ => .bad
      | _ => .bad
    | _, _ => .bad
  | ["ksub", k, n] =>
    match k.toNat?, n.toNat?, a.mapM parseDots with
    | some k, some n, some impl =>
      let spec := if k = 0 then [] else combos k (List.range n)
      if sortLists impl ≠ sortLists spec then .monfail s!"k-subsets: not every k-subset exactly once: spec={spec.map showDots}"
      else cmpAns ((kSubsets k n (spec.length + 2)).map showDots) a
    | _, _, _ => .bad
  | ["pset", n] =>
    match n.toNat?, a.mapM parseDots with
    | some n, some impl =>
      let spec := (List.range (n + 1)).flatMap (fun k => combos k (List.range n))
      if sortLists impl ≠ sortLists spec then .monfail s!"powerset: not every subset exactly once: spec={spec.map showDots}"
      else cmpAns ((powerset n (2 ^ n + 2)).map showDots) a
    | _, _ => .bad
  | "vfl" :: sizes =>
    match sizes.mapM String.toNat?, a.mapM parseDots with
    | some sizes, some impl =>
      let spec := if sizes.isEmpty then [] else product sizes
      if sortLists impl ≠ sortLists spec then .monfail s!"variable_for_loop: not every tuple exactly once: spec={spec.map showDots}"
      else cmpAns ((variableForLoop sizes (spec.length + 2)).map showDots) a
    | _, _ => .bad
  | _ => .bad

end SgVerif.C44

def main : IO Unit := SgVerif.Proto.run SgVerif.C44.judge
