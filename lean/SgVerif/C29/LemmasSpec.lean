import SgVerif.C29.Lemmas
import SgVerif.C29.LemmasPair
/-
C29 helper lemmas for the algebra of the collective specifications (core only): chunks / flatten / slices / transpose.
-/
namespace SgVerif.C29
variable {α : Type}

theorem offsets_length (o : Nat) (cs : List Nat) : (offsets o cs).length = cs.length := by
  induction cs generalizing o with
  | nil => rfl
  | cons c cs ih => simp [offsets, ih]

/-- cutting a concatenation of `n` blocks of `c` cells gives the blocks back -/
theorem chunks_flatten (c n : Nat) (bl : List (List α)) (hl : bl.length = n) (hc : ∀ b ∈ bl, b.length = c) :
    chunks c n bl.flatten = bl := by
  induction bl generalizing n with
  | nil => subst hl; rfl
  | cons b bl ih =>
    subst hl
    have hb : b.length = c := hc b (by simp)
    simp only [List.length_cons, chunks, List.flatten_cons]
    rw [List.take_left' hb, List.drop_left' hb, ih bl.length rfl (fun x hx => hc x (by simp [hx]))]

/-- concatenating the `n` chunks of a buffer of at most `n * c` cells gives the buffer back -/
theorem flatten_chunks (c n : Nat) (b : List α) (h : b.length ≤ n * c) : (chunks c n b).flatten = b := by
  induction n generalizing b with
  | zero =>
    have : b = [] := List.eq_nil_of_length_eq_zero (by omega)
    subst this; rfl
  | succ n ih =>
    simp only [chunks, List.flatten_cons]
    rw [ih (b.drop c) (by rw [List.length_drop, Nat.succ_mul] at *; omega), List.take_append_drop]

theorem chunks_mem_length (c n : Nat) (b : List α) (h : b.length = n * c) : ∀ x ∈ chunks c n b, x.length = c := by
  induction n generalizing b with
  | zero => intro x hx; cases hx
  | succ n ih =>
    intro x hx
    rw [Nat.succ_mul] at h
    simp only [chunks, List.mem_cons] at hx
    rcases hx with rfl | hx
    · rw [List.length_take]; omega
    · exact ih (b.drop c) (by rw [List.length_drop]; omega) x hx

theorem flatten_length_const (c : Nat) (bl : List (List α)) (hc : ∀ b ∈ bl, b.length = c) :
    bl.flatten.length = bl.length * c := by
  induction bl with
  | nil => simp
  | cons b bl ih =>
    rw [List.flatten_cons, List.length_append, ih (fun x hx => hc x (by simp [hx])), hc b (by simp), List.length_cons,
      Nat.succ_mul, Nat.add_comm]

/-- the `n` slices of `c` cells starting at `o` are the chunks -/
theorem slices_replicate (c n o : Nat) (v : List α) (h : o + n * c ≤ v.length) :
    allSome (((List.replicate n c).zip (offsets o (List.replicate n c))).map fun (c, o) => slice v o c)
      = some (chunks c n (v.drop o)) := by
  induction n generalizing o with
  | zero => rfl
  | succ n ih =>
    rw [Nat.succ_mul] at h
    simp only [List.replicate_succ, offsets, List.zip_cons_cons, List.map_cons, chunks]
    have hs : slice v o c = some ((v.drop o).take c) := by
      unfold slice; rw [if_pos (by omega)]
    rw [hs]
    simp only [allSome]
    rw [ih (o + c) (by omega), List.drop_drop]
    rfl

theorem transposeN_length {β : Type} (n : Nat) (m : List (List β)) : (transposeN n m).length = n := by
  induction n generalizing m with
  | zero => rfl
  | succ n ih => simp [transposeN, ih]

/-- two `List (List β)` with the same shape and the same entries are equal -/
theorem matrix_ext {β : Type} (n k : Nat) (A B : List (List β)) (hA : A.length = n) (hB : B.length = n)
    (hAr : ∀ row ∈ A, row.length = k) (hBr : ∀ row ∈ B, row.length = k)
    (h : ∀ r j, r < n → j < k → (A[r]?).bind (·[j]?) = (B[r]?).bind (·[j]?)) : A = B := by
  apply List.ext_getElem (by omega)
  intro r h1 h2
  have hra : (A[r]).length = k := hAr _ (List.getElem_mem h1)
  have hrb : (B[r]).length = k := hBr _ (List.getElem_mem h2)
  apply List.ext_getElem (by omega)
  intro j h3 h4
  have := h r j (by omega) (by omega)
  rw [List.getElem?_eq_getElem h1, List.getElem?_eq_getElem h2] at this
  simp only [Option.bind_some] at this
  rw [List.getElem?_eq_getElem h3, List.getElem?_eq_getElem h4] at this
  exact Option.some.inj this

/-- elements of a column come from the rows -/
theorem filterMap_col_mem {β : Type} (m : List (List β)) (r : Nat) (x : β) (hx : x ∈ m.filterMap (·[r]?)) :
    ∃ row ∈ m, x ∈ row := by
  obtain ⟨row, hrow, hget⟩ := List.mem_filterMap.mp hx
  exact ⟨row, hrow, List.mem_of_getElem? hget⟩

end SgVerif.C29
