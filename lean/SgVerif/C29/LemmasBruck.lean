import SgVerif.C29.Model
/-
C29 helper lemmas for the Bruck allgather schedule (core only).
-/
namespace SgVerif.C29
variable {β : Type}

/-- the partner arithmetic of allgather-bruck.cpp: the `dst` of `src = (r + p) % np` is `r` -/
theorem bruck_dst (np p r : Nat) (hr : r < np) (hp : p ≤ np) : ((r + p) % np + np - p) % np = r := by
  by_cases h : r + p < np
  · rw [Nat.mod_eq_of_lt h]
    have : r + p + np - p = r + np := by omega
    rw [this, Nat.add_mod_right, Nat.mod_eq_of_lt hr]
  · have e : r + p = (r + p - np) + np := by omega
    have hm : (r + p) % np = r + p - np := by rw [e, Nat.add_mod_right, Nat.mod_eq_of_lt (by omega)]; omega
    rw [hm]
    have : r + p - np + np - p = r := by omega
    rw [this, Nat.mod_eq_of_lt hr]

/-- `tmp_buff` of rank `r` holds the blocks of ranks `r, r+1, …, r+n-1` (cyclically) -/
def bruckInv (x : Nat → β) (np n : Nat) (st : Nat → List β) : Prop :=
  ∀ r, r < np → st r = (List.range n).map fun j => x ((r + j) % np)

theorem bruckRound_inv (x : Nat → β) (np p n : Nat) (st : Nat → List β) (hp : p ≤ np) (hn : n ≤ p) (hnp : 0 < np)
    (h : bruckInv x np p st) : bruckInv x np (p + n) (bruckRound np p n st) := by
  intro r hr
  unfold bruckRound
  simp only
  rw [if_pos (bruck_dst np p r hr hp), h r hr, h ((r + p) % np) (Nat.mod_lt _ hnp)]
  rw [List.take_of_length_le (by simp), ← List.map_take, List.take_range, Nat.min_eq_left hn, List.range_add,
    List.map_append, List.map_map]
  congr 1
  apply List.map_congr_left
  intro j _
  simp only [Function.comp]
  rw [Nat.mod_add_mod, Nat.add_assoc]

theorem bruckLoop_spec (x : Nat → β) (np : Nat) (hnp : 0 < np) (fuel k : Nat) (st : Nat → List β) (hk : 2 ^ k ≤ np)
    (hf : np < 2 ^ (k + fuel)) (h : bruckInv x np (2 ^ k) st) :
    ∃ K st', bruckLoop np fuel (2 ^ k) st = (2 ^ K, st') ∧ bruckInv x np (2 ^ K) st' ∧ 2 ^ K ≤ np ∧ np < 2 * 2 ^ K := by
  induction fuel generalizing k st with
  | zero => exact ⟨k, st, rfl, h, hk, by rw [Nat.add_zero] at hf; omega⟩
  | succ fuel ih =>
    unfold bruckLoop
    by_cases hc : 2 ^ k ≤ np / 2
    · rw [if_pos hc, ← Nat.pow_succ]
      have h2 : 2 ^ (k + 1) = 2 ^ k + 2 ^ k := by rw [Nat.pow_succ]; omega
      apply ih (k + 1) _ (by omega) (by rw [show k + 1 + fuel = k + (fuel + 1) by omega]; exact hf)
      rw [h2]
      exact bruckRound_inv x np (2 ^ k) (2 ^ k) st hk (Nat.le_refl _) hnp h
    · rw [if_neg hc]
      exact ⟨k, st, rfl, h, hk, by omega⟩

/-- the whole schedule: slot `i` of every rank's receive buffer holds the block of rank `i` -/
theorem allgatherBruck_eq (x : Nat → β) (np rank : Nat) (hr : rank < np) :
    allgatherBruck x np rank = (List.range np).map fun i => some (x i) := by
  have hnp : 0 < np := by omega
  obtain ⟨K, st', hl, hinv, h1, h2⟩ := bruckLoop_spec x np hnp np 0 (fun r => [x r]) (by rw [Nat.pow_zero]; omega)
    (by rw [Nat.zero_add]; exact Nat.lt_two_pow_self)
    (by intro r hr'; simp [Nat.mod_eq_of_lt hr'])
  unfold allgatherBruck
  rw [show (1 : Nat) = 2 ^ 0 from rfl, hl]
  simp only
  have hfin : bruckInv x np np (if np - 2 ^ K ≠ 0 then bruckRound np (2 ^ K) (np - 2 ^ K) st' else st') := by
    by_cases hrem : np - 2 ^ K ≠ 0
    · rw [if_pos hrem]
      have := bruckRound_inv x np (2 ^ K) (np - 2 ^ K) st' h1 (by omega) hnp hinv
      rw [show 2 ^ K + (np - 2 ^ K) = np by omega] at this
      exact this
    · rw [if_neg hrem]
      have : 2 ^ K = np := by omega
      rw [this] at hinv; exact hinv
  rw [hfin rank hr]
  apply List.map_congr_left
  intro i hi
  have hin : i < np := List.mem_range.mp hi
  split
  · rw [List.getElem?_map, List.getElem?_range (by omega)]
    simp only [Option.map_some]
    rw [show rank + (i - rank) = i by omega, Nat.mod_eq_of_lt hin]
  · rw [List.getElem?_map, List.getElem?_range (by omega)]
    simp only [Option.map_some]
    rw [show rank + (np - rank + i) = i + np by omega, Nat.add_mod_right, Nat.mod_eq_of_lt hin]

end SgVerif.C29
