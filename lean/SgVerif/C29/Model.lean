/-
C29 — Every collective algorithm computes the MPI result.

Part 1 (this file, section Spec): the MPI *specification* of each collective as a pure function on the per-rank
buffers.  `bufs : List (List α)` is indexed by rank (`bufs[r]` = send buffer of rank `r`, a list of *cells*);
the result is one `Option (List α)` per rank (`none` = the receive buffer is not significant on that rank, e.g.
non-root ranks of `MPI_Reduce`, rank 0 of `MPI_Exscan`).  An invalid call (root out of range, a block that does not
fit in the receive buffer) is the outer `none` — the error branch is explicit, nothing is totalised.
The operator is an arbitrary `op : α → α → α`; the theorems in Props.lean assume associativity (+ commutativity
where MPI allows implementations to reorder).

Part 2 (section Sched): round-based message-passing *schedules* of nine algorithms, following
  /repo/src/smpi/colls/bcast/bcast-binomial-tree.cpp, allreduce/allreduce-rdb.cpp, allgather/allgather-ring.cpp,
  alltoall/alltoall-pair.cpp, reduce/reduce-flat-tree.cpp, reduce/reduce-binomial.cpp, allreduce/allreduce-lr.cpp,
  allgather/allgather-bruck.cpp, alltoall/alltoall-ring.cpp
branch by branch (quoted below).  Props.lean proves them equal to the spec for every communicator size.
The other algorithms of /repo/src/smpi/colls are NOT modelled: they are covered by the correspondence only.
-/
namespace SgVerif.C29

/-! ## Spec -/
section Spec
variable {α : Type}

abbrev Bufs (α : Type) := List (List α)
abbrev Res (α : Type) := List (Option (List α))

/-- MPI reductions are element-wise -/
def zipOp (op : α → α → α) (a b : List α) : List α := List.zipWith op a b

/-- `x_0 op x_1 op … op x_{n-1}` element-wise, in rank order (MPI-3.1 §5.9.1); no value on an empty communicator -/
def reduceAll (op : α → α → α) : Bufs α → Option (List α)
  | [] => none
  | b :: bs => some (bs.foldl (zipOp op) b)

/-- the same vector on every rank -/
def everywhere (n : Nat) (v : List α) : Res α := (List.range n).map fun _ => some v
/-- `v` on `root`, nothing elsewhere -/
def onlyAt (n root : Nat) (v : List α) : Res α := (List.range n).map fun r => if r = root then some v else none

def bcast (root : Nat) (bufs : Bufs α) : Option (Res α) :=
  bufs[root]?.map fun b => everywhere bufs.length b

def reduce (op : α → α → α) (root : Nat) (bufs : Bufs α) : Option (Res α) :=
  if root < bufs.length then (reduceAll op bufs).map (onlyAt bufs.length root) else none

def allreduce (op : α → α → α) (bufs : Bufs α) : Option (Res α) :=
  (reduceAll op bufs).map (everywhere bufs.length)

def gather (root : Nat) (bufs : Bufs α) : Option (Res α) :=
  if root < bufs.length then some (onlyAt bufs.length root bufs.flatten) else none

def allgather (bufs : Bufs α) : Option (Res α) := some (everywhere bufs.length bufs.flatten)

/-- cut `l` into `n` consecutive chunks of `c` cells -/
def chunks (c : Nat) : Nat → List α → List (List α)
  | 0, _ => []
  | n+1, l => l.take c :: chunks c n (l.drop c)

def scatter (root c : Nat) (bufs : Bufs α) : Option (Res α) :=
  match bufs[root]? with
  | none => none
  | some b => if b.length = bufs.length * c then some ((chunks c bufs.length b).map some) else none

/-- first `n` columns of a matrix given by rows -/
def transposeN {β : Type} : Nat → List (List β) → List (List β)
  | 0, _ => []
  | n+1, m => m.filterMap List.head? :: transposeN n (m.map List.tail)

/-- `MPI_Alltoall`: block `j` of the receive buffer of rank `r` is block `r` of the send buffer of rank `j` -/
def alltoall (c : Nat) (bufs : Bufs α) : Option (Res α) :=
  if bufs.all (fun b => b.length = bufs.length * c) then
    some ((transposeN bufs.length (bufs.map (chunks c bufs.length))).map fun row => some row.flatten)
  else none

/-- write `blk` at offset `off` of `buf`; `none` when it does not fit (MPI: erroneous) -/
def place (buf : List α) (off : Nat) (blk : List α) : Option (List α) :=
  if off + blk.length ≤ buf.length then some (buf.take off ++ blk ++ buf.drop (off + blk.length)) else none

/-- place the blocks one after the other (rank order) at their displacements -/
def placeAll : List α → List (Nat × List α) → Option (List α)
  | buf, [] => some buf
  | buf, (off, blk) :: rest => (place buf off blk).bind fun b => placeAll b rest

/-- sub-list `[off, off+len)`; `none` if out of the buffer -/
def slice (buf : List α) (off len : Nat) : Option (List α) :=
  if off + len ≤ buf.length then some ((buf.drop off).take len) else none

/-- `MPI_Gatherv`: `init` = previous content of the root's receive buffer, block of rank `j` lands at `displs[j]` -/
def gatherv (root : Nat) (init : List α) (displs : List Nat) (bufs : Bufs α) : Option (Res α) :=
  if root < bufs.length ∧ displs.length = bufs.length then
    (placeAll init (displs.zip bufs)).map (onlyAt bufs.length root)
  else none

def allgatherv (init : List α) (displs : List Nat) (bufs : Bufs α) : Option (Res α) :=
  if displs.length = bufs.length then (placeAll init (displs.zip bufs)).map (everywhere bufs.length) else none

def allSome {β : Type} : List (Option β) → Option (List β)
  | [] => some []
  | none :: _ => none
  | some x :: r => (allSome r).map (x :: ·)

/-- `MPI_Scatterv`: rank `r` receives `cnts[r]` cells starting at `displs[r]` of the root's buffer -/
def scatterv (root : Nat) (cnts displs : List Nat) (bufs : Bufs α) : Option (Res α) :=
  match bufs[root]? with
  | none => none
  | some b =>
    if cnts.length = bufs.length ∧ displs.length = bufs.length then
      (allSome ((cnts.zip displs).map fun (c, d) => slice b d c)).map (·.map some)
    else none

/-- `MPI_Alltoallv` for rank `r`: from every rank `j`, `scnt[j][r]` cells taken at `sdsp[j][r]` of `bufs[j]`,
written at `rdsp[r][j]` of `init` -/
def alltoallvAt (r : Nat) (init : List α) (rdsp : List Nat) (scnt sdsp : List (List Nat)) (bufs : Bufs α) :
    Option (List α) :=
  let blocks := (bufs.zip (scnt.zip sdsp)).map fun (b, cs, ds) =>
    match cs[r]?, ds[r]? with
    | some c, some d => slice b d c
    | _, _ => none
  (allSome blocks).bind fun bl => if rdsp.length = bl.length then placeAll init (rdsp.zip bl) else none

def alltoallv (inits : Bufs α) (rdsp scnt sdsp : List (List Nat)) (bufs : Bufs α) : Option (Res α) :=
  if inits.length = bufs.length ∧ rdsp.length = bufs.length ∧ scnt.length = bufs.length ∧ sdsp.length = bufs.length then
    (allSome ((List.range bufs.length).map fun r =>
      alltoallvAt r (inits.getD r []) (rdsp.getD r []) scnt sdsp bufs)).map (·.map some)
  else none

/-- offsets of consecutive segments of the given lengths -/
def offsets : Nat → List Nat → List Nat
  | _, [] => []
  | o, c :: cs => o :: offsets (o + c) cs

/-- `MPI_Reduce_scatter`: rank `r` gets segment `r` (of `cnts[r]` cells) of the element-wise reduction -/
def reduceScatter (op : α → α → α) (cnts : List Nat) (bufs : Bufs α) : Option (Res α) :=
  if cnts.length = bufs.length then
    (reduceAll op bufs).bind fun v =>
      (allSome ((cnts.zip (offsets 0 cnts)).map fun (c, o) => slice v o c)).map (·.map some)
  else none

/-- `MPI_Scan`: rank `r` gets the reduction of ranks `0..r` -/
def scan (op : α → α → α) (bufs : Bufs α) : Option (Res α) :=
  some ((List.range bufs.length).map fun r => reduceAll op (bufs.take (r + 1)))

/-- `MPI_Exscan`: rank `r > 0` gets the reduction of ranks `0..r-1`; rank 0: undefined -/
def exscan (op : α → α → α) (bufs : Bufs α) : Option (Res α) :=
  some ((List.range bufs.length).map fun r => if r = 0 then none else reduceAll op (bufs.take r))

/-- `MPI_Barrier`: nobody leaves before everybody entered (dates as exact rationals `num/den`, `den > 0`) -/
def barrierOk (enter leave : List (Int × Nat)) : Bool :=
  leave.all fun (ln, ld) => enter.all fun (en, ed) => en * ld ≤ ln * ed

end Spec

/-! ## A reduction tree (any order, any bracketing) -/
inductive RTree (α : Type) where
  | leaf : α → RTree α
  | node : RTree α → RTree α → RTree α

namespace RTree
variable {α : Type}
def leaves : RTree α → List α
  | leaf x => [x]
  | node l r => l.leaves ++ r.leaves
def eval (op : α → α → α) : RTree α → α
  | leaf x => x
  | node l r => op (l.eval op) (r.eval op)
end RTree

/-! ## Schedules -/
section Sched
variable {α : Type}

/-- ### bcast binomial tree (bcast-binomial-tree.cpp)
```
  relative_rank = (rank >= root) ? rank - root : rank - root + num_procs;
  mask = 0x1;
  while (mask < num_procs) {
    if (relative_rank & mask) { src = rank - mask; if (src < 0) src += num_procs; recv(buff, src); break; }
    mask <<= 1; }
  mask >>= 1;
  while (mask > 0) {
    if (relative_rank + mask < num_procs) { dst = rank + mask; if (dst >= num_procs) dst -= num_procs; send(buff, dst); }
    mask >>= 1; }
```
The first loop ends with `mask` = lowest set bit of `relative_rank` (or the first power of two `≥ num_procs` for the
root); the second loop sends at every smaller power of two `m` with `relative_rank + m < num_procs`.
`recvMask fuel rr np mask`: the mask at which the first loop stops and whether a receive was posted. -/
def recvMask : Nat → Nat → Nat → Nat → Nat × Bool
  | 0, _, _, mask => (mask, false)
  | fuel+1, rr, np, mask =>
    if mask < np then
      if (rr / mask) % 2 = 1 then (mask, true)        -- relative_rank & mask   (mask is a power of two)
      else recvMask fuel rr np (mask * 2)
    else (mask, false)

/-- does relative rank `rr` send at mask `m` (second loop)?  `m` ranges over the powers of two below the stop mask -/
def sendsAt (rr np m : Nat) : Bool :=
  let stop := (recvMask (np + 1) rr np 1).1
  decide (m < stop) && decide (rr + m < np)

/-- one round of the global execution at mask `m`: relative rank `d` receives in this round iff its first loop stopped
at `m` with a receive posted; the matching sender is `d - m`, which must send at `m` and already hold the data.
(`none` = buffer not yet valid.)  State is indexed by *relative* rank. -/
def bcastRound (np m : Nat) (st : List (Option α)) : List (Option α) :=
  (List.range np).map fun d =>
    match recvMask (np + 1) d np 1 with
    | (mk, true) =>
      if mk = m ∧ m ≤ d ∧ sendsAt (d - m) np m then st.getD (d - m) none else st.getD d none
    | _ => st.getD d none

/-- rounds at masks `2^(k-1), …, 2, 1` -/
def bcastRounds (np : Nat) : Nat → List (Option α) → List (Option α)
  | 0, st => st
  | k+1, st => bcastRounds np k (bcastRound np (2 ^ k) st)

/-- number of doublings until `2^k ≥ np` -/
def log2up (np : Nat) : Nat := (List.range (np + 1)).findIdx fun k => decide (np ≤ 2 ^ k)

/-- whole schedule, in relative ranks: initially only the root (relative rank 0) holds `v` -/
def bcastBinomialRel (np : Nat) (v : α) : List (Option α) :=
  bcastRounds np (log2up np) ((List.range np).map fun d => if d = 0 then some v else none)

/-- in absolute ranks, for a root `< np` -/
def bcastBinomial (np root : Nat) (v : α) : List (Option α) :=
  let rel := bcastBinomialRel np v
  (List.range np).map fun r => rel.getD (if r ≥ root then r - root else r + np - root) none

/-- ### allreduce recursive doubling (allreduce-rdb.cpp)
```
  sendrecv(sbuff -> rbuff)                       // local copy
  pof2 = largest power of two <= nprocs;  rem = nprocs - pof2;
  if (rank < 2*rem) { if (rank%2==0) { send(rbuff, rank+1); newrank=-1; }
                      else { recv(tmp, rank-1); op->apply(tmp, rbuff); newrank = rank/2; } }      // rbuff = tmp op rbuff
  else newrank = rank - rem;
  if (newrank != -1) { mask=1; while (mask < pof2) {
      newdst = newrank ^ mask;  dst = (newdst < rem) ? newdst*2+1 : newdst+rem;
      sendrecv(rbuff -> dst, tmp <- dst);
      if (dst < rank) op->apply(tmp, rbuff);                  // rbuff = tmp op rbuff
      else { op->apply(rbuff, tmp); copy tmp -> rbuff; }      // rbuff = rbuff op tmp
      mask <<= 1; } }
  if (rank < 2*rem) { if (rank%2) send(rbuff, rank-1); else recv(rbuff, rank+1); }
```
`op->apply(in, inout)` computes `inout = in op inout` (smpi_op.cpp: `func(x[i], y[i])` with `b = a op b`). -/
def pof2le (np : Nat) : Nat := 2 ^ (Nat.log2 np)

/-- pre-phase: value held by new rank `nr < pof2` -/
def rdbPre (op : α → α → α) (x : Nat → α) (rem nr : Nat) : α :=
  if nr < rem then op (x (2 * nr)) (x (2 * nr + 1)) else x (nr + rem)

/-- partner in the round of mask `2^k`: `newrank ^ mask` flips bit `k` -/
def rdbPartner (nr k : Nat) : Nat := if (nr / 2 ^ k) % 2 = 1 then nr - 2 ^ k else nr + 2 ^ k

/-- value of new rank `nr` after `k` rounds.  `dst < rank` ⇔ `newdst < newrank` (the map newrank ↦ rank is increasing) -/
def rdbVal (op : α → α → α) (g : Nat → α) : Nat → Nat → α
  | 0, nr => g nr
  | k+1, nr =>
    let p := rdbPartner nr k
    if p < nr then op (rdbVal op g k p) (rdbVal op g k nr) else op (rdbVal op g k nr) (rdbVal op g k p)

/-- final value on absolute rank `r` of `np` ranks -/
def allreduceRdb (op : α → α → α) (x : Nat → α) (np r : Nat) : α :=
  let pof2 := pof2le np
  let rem := np - pof2
  let fin := fun nr => rdbVal op (rdbPre op x rem) (Nat.log2 np) nr
  if r < 2 * rem then fin (r / 2)       -- odd: newrank = rank/2 ; even: receives from rank+1 whose newrank = rank/2
  else fin (r - rem)

/-- ### allgather ring (allgather-ring.cpp)
```
  sendrecv(sendptr -> recvptr + rank*chunk)                                   // own block
  for (i = 1; i < num_procs; i++) { src = (rank - i + num_procs) % num_procs; dst = (rank + i) % num_procs;
    sendrecv(sendptr -> dst,  recvptr + src*chunk <- src); }
```
Every message carries the sender's *send* buffer.  Slots of the receive buffer of `rank` after rounds `1..k`. -/
def setSlot (slots : List (Option (List α))) (i : Nat) (b : List α) : List (Option (List α)) := slots.set i (some b)

def ringRounds (bufs : Bufs α) (rank : Nat) : Nat → List (Option (List α)) → List (Option (List α))
  | 0, slots => slots
  | k+1, slots =>
    let np := bufs.length
    let slots := ringRounds bufs rank k slots
    let i := k + 1
    let src := (rank + np - i) % np
    -- the matching send: rank `src` sends to `(src + i) % np` in its round `i`; that must be `rank`
    if (src + i) % np = rank then
      match bufs[src]? with
      | some b => setSlot slots src b
      | none => slots
    else slots

def allgatherRing (bufs : Bufs α) (rank : Nat) : List (Option (List α)) :=
  match bufs[rank]? with
  | none => []
  | some own => ringRounds bufs rank (bufs.length - 1) (setSlot (List.replicate bufs.length none) rank own)

/-- ### alltoall pairwise exchange (alltoall-pair.cpp), power-of-two sizes only (the code throws otherwise)
```
  if (num_procs & (num_procs-1)) throw std::invalid_argument(...)
  for (i = 0; i < num_procs; i++) { src = dst = rank ^ i;
    sendrecv(send_ptr + dst*chunk -> dst, recv_ptr + src*chunk <- src); }
``` -/
def isPow2 (n : Nat) : Bool := n != 0 && (n &&& (n - 1)) == 0

def pairRounds (blocks : List (List (List α))) (rank : Nat) : Nat → List (Option (List α)) → List (Option (List α))
  | 0, slots => slots
  | k+1, slots =>
    let slots := pairRounds blocks rank k slots
    let src := rank ^^^ k
    -- matching send: `src` sends its block number `src ^ k` to `src ^ k` in round `k`; that must be `rank`
    if src ^^^ k = rank then
      match (blocks.getD src [])[rank]? with
      | some b => slots.set src (some b)
      | none => slots
    else slots

/-- `blocks[j][r]` = block that rank `j` sends to rank `r`; `none` = the algorithm refuses this size -/
def alltoallPair (blocks : List (List (List α))) (rank : Nat) : Option (List (Option (List α))) :=
  let np := blocks.length
  if isPow2 np then some (pairRounds blocks rank np (List.replicate np none)) else none

/-- ### reduce flat tree (reduce-flat-tree.cpp)
```
  if (rank != root) { send(sbuf, root); return 0; }
  if (rank == size-1) sendrecv(sbuf -> rbuf) else recv(rbuf, size-1);          // rbuf = x[size-1]
  for (i = size-2; i >= 0; --i) {
    if (rank == i) inbuf = sbuf; else { recv(origin, i); inbuf = origin; }      // inbuf = x[i]
    op->apply(inbuf, rbuf); }                                                   // rbuf = x[i] op rbuf
```
Every non-root rank sends exactly one message (its send buffer) and the root receives one message from every other
rank, each from a named source: the matching is forced.  `flatLoop op x i acc` = the loop from index `i-1` down to 0. -/
def flatLoop (op : α → α → α) (x : Nat → α) : Nat → α → α
  | 0, acc => acc
  | i+1, acc => flatLoop op x i (op (x i) acc)

/-- value in the root's receive buffer (`np ≥ 1`) -/
def reduceFlatTree (op : α → α → α) (x : Nat → α) (np : Nat) : α := flatLoop op x (np - 1) (x (np - 1))

/-- ### reduce binomial tree (reduce-binomial.cpp)
```
  if (count == 0) return 0;
  is_commutative = op->is_commutative();   lroot = is_commutative ? root : 0;
  relrank = (rank - lroot + comm_size) % comm_size;
  copy sendbuf -> recvbuf                    // (a temporary on non-root ranks)
  mask = 1;
  while (mask < comm_size) {
    if ((mask & relrank) == 0) {
      source = relrank | mask;
      if (source < comm_size) { source = (source + lroot) % comm_size; recv(tmp_buf, source);
        if (is_commutative) op->apply(tmp_buf, recvbuf);                         // recvbuf = tmp op recvbuf
        else { op->apply(recvbuf, tmp_buf); copy tmp_buf -> recvbuf; } }         // recvbuf = recvbuf op tmp
    } else { dst = ((relrank & ~mask) + lroot) % comm_size; send(recvbuf, dst); break; }
    mask <<= 1; }
  if (!is_commutative && root != 0) { if (rank == 0) send(recvbuf, root); else if (rank == root) recv(recvbuf, 0); }
```
In relative ranks: `binVal k rr` = content of `recvbuf` of relative rank `rr` after the rounds at masks `1 … 2^(k-1)`
(meaningful while `rr` is still in the loop, i.e. `rr % 2^k = 0`).  In the round at mask `2^k` it receives from
`src = rr | 2^k = rr + 2^k` if that rank exists; the model also checks that `src` really sends to `rr` in that round:
it is still in its loop (`src % 2^k = 0`), its bit `k` is set, and its destination `src & ~mask` is `rr`. -/
def binVal (op : α → α → α) (comm : Bool) (g : Nat → α) (np : Nat) : Nat → Nat → α
  | 0, rr => g rr
  | k+1, rr =>
    let src := rr + 2 ^ k
    if src < np ∧ src % 2 ^ k = 0 ∧ (src / 2 ^ k) % 2 = 1 ∧ src - 2 ^ k = rr then
      if comm then op (binVal op comm g np k src) (binVal op comm g np k rr)
      else op (binVal op comm g np k rr) (binVal op comm g np k src)
    else binVal op comm g np k rr

/-- value in the root's receive buffer (`np ≥ 1`, `root < np`); `x r` = send buffer of absolute rank `r`.
(For a non-commutative operator the value is computed on rank 0 and then sent to `root`.) -/
def reduceBinomial (op : α → α → α) (comm : Bool) (x : Nat → α) (np root : Nat) : α :=
  let lroot := if comm then root else 0
  binVal op comm (fun d => x ((d + lroot) % np)) np (log2up np) 0

/-- ### allreduce logical ring (allreduce-lr.cpp): ring reduce-scatter, then ring allgather
```
  if (rcount < size) { allreduce__redbcast(...); return; }            // NOT modelled
  if (rcount % size != 0) { remainder … }  count = rcount / size;      // remainder -> colls::allreduce on the tail: NOT modelled
  // copy partial data
  send_offset = recv_offset = ((rank - 1 + size) % size) * count * extent;
  sendrecv(sbuf + send_offset -> rbuf + recv_offset)                   // to itself
  // reduce-scatter
  for (i = 0; i < size - 1; i++) {
    send_offset = ((rank - 1 - i + 2 * size) % size) * count * extent;
    recv_offset = ((rank - 2 - i + 2 * size) % size) * count * extent;
    sendrecv(rbuf + send_offset -> (rank + 1) % size, tag + i;  rbuf + recv_offset <- (rank + size - 1) % size, tag + i);
    op->apply(sbuf + recv_offset, rbuf + recv_offset); }               // rbuf[blk] = sbuf[blk] op rbuf[blk]
  // all-gather
  for (i = 0; i < size - 1; i++) {
    send_offset = ((rank - i + 2 * size) % size) * count * extent;
    recv_offset = ((rank - 1 - i + 2 * size) % size) * count * extent;
    sendrecv(rbuf + send_offset -> (rank + 1) % size, tag + i;  rbuf + recv_offset <- (rank + size - 1) % size, tag + i); }
```
Model for `rcount = size * count` (`count ≥ 1`): the buffers are `size` blocks; `x r b` = block `b` of the send buffer of
rank `r`; the state gives, per rank and block, the content of `rbuf` (`none` = never written).  In round `i` rank `r`
receives what `p = (r + size - 1) % size` sends in ITS round `i` (tags `tag + i`, one source: the matching is forced; the
model checks that `p`'s destination `(p + 1) % size` is `r`). -/
abbrev LrState (β : Type) := Nat → Nat → Option β

def lrInit {β : Type} (x : Nat → Nat → β) (np : Nat) : LrState β :=
  fun r b => if b = (r + np - 1) % np then some (x r b) else none

def lrRsRound {β : Type} (op : β → β → β) (x : Nat → Nat → β) (np i : Nat) (st : LrState β) : LrState β :=
  fun r b =>
    let p := (r + np - 1) % np
    if b = (r + 2 * np - (2 + i)) % np ∧ (p + 1) % np = r then
      (st p ((p + 2 * np - (1 + i)) % np)).map fun v => op (x r b) v
    else st r b

def lrAgRound {β : Type} (np i : Nat) (st : LrState β) : LrState β :=
  fun r b =>
    let p := (r + np - 1) % np
    if b = (r + 2 * np - (1 + i)) % np ∧ (p + 1) % np = r then st p ((p + 2 * np - i) % np) else st r b

/-- rounds `0 … k-1` -/
def lrIter {σ : Type} (f : Nat → σ → σ) : Nat → σ → σ
  | 0, s => s
  | k+1, s => f k (lrIter f k s)

def allreduceLr {β : Type} (op : β → β → β) (x : Nat → Nat → β) (np : Nat) : LrState β :=
  lrIter (lrAgRound np) (np - 1) (lrIter (lrRsRound op x np) (np - 1) (lrInit x np))

/-- ### allgather Bruck (allgather-bruck.cpp)
```
  count = recv_count;  pof2 = 1;
  copy send_buff -> tmp_buff                                   // tmp[0] = own block
  while (pof2 <= num_procs / 2) {
    src = (rank + pof2) % num_procs;  dst = (rank - pof2 + num_procs) % num_procs;
    sendrecv(tmp_buff, count -> dst;  tmp_buff + count * recv_extent, count <- src);
    count *= 2;  pof2 *= 2; }
  remainder = num_procs - pof2;
  if (remainder) { src = (rank + pof2) % num_procs;  dst = (rank - pof2 + num_procs) % num_procs;
    sendrecv(tmp_buff, remainder * recv_count -> dst;  tmp_buff + count * recv_extent, remainder * recv_count <- src); }
  copy tmp_buff [0, num_procs - rank) -> recv_ptr + rank * recv_count …            // blocks rank … np-1
  if (rank) copy tmp_buff [num_procs - rank, num_procs) -> recv_ptr                // blocks 0 … rank-1
```
State: per rank the list of blocks of `tmp_buff`.  One round: rank `r` keeps its first `pof2` blocks and receives, at
block offset `pof2`, the first `n` blocks of `src = (r + pof2) % np`; the model checks that `src`'s destination
`(src - pof2 + np) % np` is `r`. -/
def bruckRound {β : Type} (np pof2 n : Nat) (st : Nat → List β) : Nat → List β := fun r =>
  let src := (r + pof2) % np
  if (src + np - pof2) % np = r then (st r).take pof2 ++ (st src).take n else st r

/-- the `while (pof2 <= num_procs / 2)` loop; returns the final `pof2` and the state -/
def bruckLoop {β : Type} (np : Nat) : Nat → Nat → (Nat → List β) → Nat × (Nat → List β)
  | 0, pof2, st => (pof2, st)
  | fuel+1, pof2, st =>
    if pof2 ≤ np / 2 then bruckLoop np fuel (pof2 * 2) (bruckRound np pof2 pof2 st) else (pof2, st)

/-- receive buffer of `rank` (one slot per rank; `none` = never written); `x r` = send buffer of rank `r` -/
def allgatherBruck {β : Type} (x : Nat → β) (np rank : Nat) : List (Option β) :=
  let (pof2, st) := bruckLoop np np 1 (fun r => [x r])
  let rem := np - pof2
  let st := if rem ≠ 0 then bruckRound np pof2 rem st else st
  (List.range np).map fun i => if rank ≤ i then (st rank)[i - rank]? else (st rank)[np - rank + i]?

/-- ### alltoall ring (alltoall-ring.cpp), every communicator size
```
  for (i = 0; i < num_procs; i++) { src = (rank - i + num_procs) % num_procs;  dst = (rank + i) % num_procs;
    sendrecv(send_ptr + dst * send_chunk -> dst,  recv_ptr + src * recv_chunk <- src); }
```
(round 0 is the local copy).  `blocks[j][r]` = block that rank `j` sends to rank `r`. -/
def a2aRingRounds {β : Type} (blocks : List (List β)) (rank : Nat) : Nat → List (Option β) → List (Option β)
  | 0, slots => slots
  | k+1, slots =>
    let np := blocks.length
    let slots := a2aRingRounds blocks rank k slots
    let src := (rank + np - k) % np
    -- matching send: `src` sends its block number `(src + k) % np` to that rank in round `k`; that must be `rank`
    if (src + k) % np = rank then
      match (blocks.getD src [])[rank]? with
      | some b => slots.set src (some b)
      | none => slots
    else slots

def alltoallRing {β : Type} (blocks : List (List β)) (rank : Nat) : List (Option β) :=
  a2aRingRounds blocks rank blocks.length (List.replicate blocks.length none)

end Sched
end SgVerif.C29
