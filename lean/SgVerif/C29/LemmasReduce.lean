import SgVerif.C29.Lemmas
import SgVerif.C29.LemmasBcast
/-
C29 helper lemmas for the flat-tree and binomial-tree reduce schedules (core only).
-/
namespace SgVerif.C29
variable {α : Type}

/-! ### flat tree: a right-nested fold -/

theorem segFold_zero_succ (op : α → α → α) (f : Nat → α) (n : Nat) :
    segFold op f 0 (n + 1) = op (segFold op f 0 n) (f (n + 1)) := by
  simp [segFold]

theorem flatLoop_eq (op : α → α → α) (hA : ∀ a b c, op (op a b) c = op a (op b c)) (x : Nat → α) (i : Nat) (acc : α) :
    flatLoop op x (i + 1) acc = op (segFold op x 0 i) acc := by
  induction i generalizing acc with
  | zero => rfl
  | succ i ih =>
    rw [flatLoop, ih, segFold_zero_succ, hA]

theorem reduceFlatTree_eq (op : α → α → α) (hA : ∀ a b c, op (op a b) c = op a (op b c)) (x : Nat → α) (n : Nat) :
    reduceFlatTree op x (n + 1) = segFold op x 0 n := by
  unfold reduceFlatTree
  cases n with
  | zero => rfl
  | succ n =>
    simp only [Nat.add_sub_cancel]
    rw [flatLoop_eq op hA, segFold_zero_succ]

/-! ### binomial tree -/

theorem segFold_congr (op : α → α → α) (f g : Nat → α) (lo n : Nat) (h : ∀ i, lo ≤ i → i ≤ lo + n → f i = g i) :
    segFold op f lo n = segFold op g lo n := by
  induction n with
  | zero => simp only [segFold]; exact h lo (Nat.le_refl _) (by omega)
  | succ n ih =>
    simp only [segFold]
    rw [ih (fun i h1 h2 => h i h1 (by omega)), h (lo + n + 1) (by omega) (by omega)]

/-- while relative rank `rr` is in its loop (`rr % 2^k = 0`) it holds the fold of the relative ranks
`rr … min (rr + 2^k, np) - 1`, in this order (a commutative operator is needed when the code applies `tmp op recvbuf`) -/
theorem binVal_eq_segFold (op : α → α → α) (hA : ∀ a b c, op (op a b) c = op a (op b c)) (comm : Bool)
    (hC : comm = true → ∀ a b, op a b = op b a) (g : Nat → α) (np k rr : Nat) (hrr : rr % 2 ^ k = 0) (hlt : rr < np) :
    binVal op comm g np k rr = segFold op g rr (min (2 ^ k) (np - rr) - 1) := by
  induction k generalizing rr with
  | zero =>
    have : min (2 ^ 0) (np - rr) - 1 = 0 := by simp; omega
    rw [this]; rfl
  | succ k ih =>
    have hpos := Nat.two_pow_pos k
    have hm := mod_two_pow_succ rr k
    have hlow : rr % 2 ^ k = 0 := by
      have := Nat.mod_mod_of_dvd rr (Nat.pow_dvd_pow 2 (Nat.le_succ k))
      rw [hrr, Nat.zero_mod] at this; exact this.symm
    have hp2 : 2 ^ (k + 1) = 2 ^ k + 2 ^ k := by rw [Nat.pow_succ]; omega
    simp only [binVal]
    by_cases hsrc : rr + 2 ^ k < np
    · -- the partner exists and does send to `rr` in this round
      have hs1 : (rr + 2 ^ k) % 2 ^ k = 0 := by rw [Nat.add_mod_right]; exact hlow
      have hbit0 : rr / 2 ^ k % 2 = 0 := by
        rcases Nat.mod_two_eq_zero_or_one (rr / 2 ^ k) with h | h
        · exact h
        · rw [hlow, h] at hm; omega
      have hs2 : (rr + 2 ^ k) / 2 ^ k % 2 = 1 := by
        rw [Nat.add_div_right _ hpos]; omega
      have hc : rr + 2 ^ k < np ∧ (rr + 2 ^ k) % 2 ^ k = 0 ∧ (rr + 2 ^ k) / 2 ^ k % 2 = 1 ∧ rr + 2 ^ k - 2 ^ k = rr :=
        ⟨hsrc, hs1, hs2, by omega⟩
      rw [if_pos hc, ih rr hlow hlt, ih (rr + 2 ^ k) hs1 hsrc]
      have e1 : min (2 ^ k) (np - rr) - 1 = 2 ^ k - 1 := by omega
      have e2 : min (2 ^ (k + 1)) (np - rr) - 1 = (2 ^ k - 1) + (min (2 ^ k) (np - (rr + 2 ^ k)) - 1) + 1 := by omega
      have e3 : rr + 2 ^ k = rr + (2 ^ k - 1) + 1 := by omega
      rw [e1, e2, segFold_append op hA, ← e3]
      cases comm with
      | true => simp only [if_true]; exact hC rfl _ _
      | false => simp
    · have hc : ¬ (rr + 2 ^ k < np ∧ (rr + 2 ^ k) % 2 ^ k = 0 ∧ (rr + 2 ^ k) / 2 ^ k % 2 = 1 ∧ rr + 2 ^ k - 2 ^ k = rr) :=
        fun h => hsrc h.1
      rw [if_neg hc, ih rr hlow hlt]
      congr 1; omega

/-! ### a reduction does not depend on the order of the ranks (associative + commutative operator) -/

theorem reduceAll_perm (op : α → α → α) (hA : ∀ a b c, op (op a b) c = op a (op b c)) (hC : ∀ a b, op a b = op b a)
    (l1 l2 : Bufs α) (hp : l1.Perm l2) : reduceAll op l1 = reduceAll op l2 := by
  cases l1 with
  | nil => have := hp.length_eq; cases l2 with
    | nil => rfl
    | cons b bs => simp at this
  | cons a as =>
    cases l2 with
    | nil => have := hp.length_eq; simp at this
    | cons b bs =>
      simp only [reduceAll]
      rw [fold_perm (zipOp op) (zipOp_assoc op hA) (zipOp_comm op hC) a b as bs hp]

/-- the relative ranks `d ↦ (d + root) % np` enumerate the ranks: a rotation of `0 … np-1` -/
theorem rot_range (np root : Nat) (hr : root < np) :
    (List.range np).map (fun d => (d + root) % np) = List.range' root (np - root) ++ List.range root := by
  apply List.ext_getElem
  · simp; omega
  · intro i h1 h2
    simp only [List.length_map, List.length_range] at h1
    simp only [List.getElem_map, List.getElem_range]
    by_cases hi : i < np - root
    · rw [List.getElem_append_left (by simpa using hi), List.getElem_range', Nat.mod_eq_of_lt (by omega)]; omega
    · rw [List.getElem_append_right (by simpa using hi)]
      simp only [List.length_range', List.getElem_range]
      have : i + root = (i - (np - root)) + np := by omega
      rw [this, Nat.add_mod_right, Nat.mod_eq_of_lt (by omega)]

theorem rot_perm (np root : Nat) (hr : root < np) :
    ((List.range np).map (fun d => (d + root) % np)).Perm (List.range np) := by
  rw [rot_range np root hr]
  have h : List.range np = List.range root ++ List.range' root (np - root) := by
    rw [List.range_eq_range', List.range_eq_range']
    have := @List.range'_append 0 root (np - root) 1
    simp only [Nat.one_mul, Nat.zero_add] at this
    rw [this]; congr 1; omega
  rw [h]
  exact List.perm_append_comm

end SgVerif.C29
