import SgVerif.C29.Lemmas
/-
C29 — Every collective algorithm computes the MPI result.  Property theorems.

(A) theorems on the SPEC (Model.lean §Spec), for every communicator size, count, buffers, and every operator that is
    associative (+ commutative where stated);
(B) schedule theorems: the round-based models of allreduce-rdb (incl. its non-power-of-two pre/post phase) and of
    allgather-ring compute the spec's result for EVERY communicator size and rank (`allreduce_rdb_eq_spec`,
    `allgather_ring_eq_spec`).
    NOT proved (modelled in Model.lean and compared with the library on the grid only): bcast binomial_tree,
    alltoall pair.  The ≈180 other selectable algorithms are not modelled at all: they are tied to the
    spec by the correspondence only.
-/
namespace SgVerif.C29
variable {α : Type}

/-! ## (A) the specification -/

/-- **Any reduction tree equals the left fold.**  For an associative and commutative operator, whatever tree an
algorithm uses (any bracketing, any order of the ranks' contributions — `t.leaves` is any permutation of
`x :: xs`), the value is `x ⊕ xs₀ ⊕ xs₁ ⊕ …`: this is why every algorithm must equal the one reference. -/
theorem reduce_any_tree_eq_fold (op : α → α → α) (hA : ∀ a b c, op (op a b) c = op a (op b c))
    (hC : ∀ a b, op a b = op b a) (t : RTree α) (x : α) (xs : List α) (hp : t.leaves.Perm (x :: xs)) :
    t.eval op = xs.foldl op x := by
  obtain ⟨y, ys, hl, he⟩ := tree_eval_fold op hA t
  rw [he]
  exact fold_perm op hA hC y x ys xs (hl ▸ hp)

/-- the same on whole buffers: MPI reductions are element-wise, and the element-wise operator is associative and
commutative as soon as `op` is; `reduceAll` is the value of every tree over the ranks' buffers -/
theorem reduce_any_tree_eq_reduceAll (op : α → α → α) (hA : ∀ a b c, op (op a b) c = op a (op b c))
    (hC : ∀ a b, op a b = op b a) (t : RTree (List α)) (b : List α) (bs : List (List α)) (hp : t.leaves.Perm (b :: bs)) :
    reduceAll op (b :: bs) = some (t.eval (zipOp op)) := by
  rw [reduce_any_tree_eq_fold (zipOp op) (zipOp_assoc op hA) (zipOp_comm op hC) t b bs hp]
  rfl

/-- a tree that keeps the rank order needs associativity only (what MPI requires for non-commutative operators) -/
theorem reduce_ordered_tree_eq_fold (op : α → α → α) (hA : ∀ a b c, op (op a b) c = op a (op b c))
    (t : RTree α) (x : α) (xs : List α) (hl : t.leaves = x :: xs) : t.eval op = xs.foldl op x := by
  obtain ⟨y, ys, hl', he⟩ := tree_eval_fold op hA t
  rw [hl] at hl'
  cases hl'
  exact he

/-- `allreduce = bcast ∘ reduce`: put the root's reduce result in the root's buffer and broadcast it -/
theorem allreduce_eq_bcast_reduce (op : α → α → α) (root : Nat) (bufs : Bufs α) (res : Res α) (v : List α)
    (hr : reduce op root bufs = some res) (hv : res[root]? = some (some v)) :
    bcast root (bufs.set root v) = allreduce op bufs := by
  unfold reduce at hr
  split at hr
  · rename_i hlt
    cases hra : reduceAll op bufs with
    | none => simp [hra] at hr
    | some w =>
      simp only [hra, Option.map_some, Option.some.injEq] at hr
      subst hr
      rw [onlyAt_getElem? _ _ _ _ hlt] at hv
      simp only [if_true, Option.some.injEq] at hv
      subst hv
      simp [bcast, allreduce, hra, hlt]
  · cases hr

/-- `allgather = bcast ∘ gather` -/
theorem allgather_eq_bcast_gather (root : Nat) (bufs : Bufs α) (res : Res α) (v : List α)
    (hr : gather root bufs = some res) (hv : res[root]? = some (some v)) :
    bcast root (bufs.set root v) = allgather bufs := by
  unfold gather at hr
  split at hr
  · rename_i hlt
    simp only [Option.some.injEq] at hr
    subst hr
    rw [onlyAt_getElem? _ _ _ _ hlt] at hv
    simp only [if_true, Option.some.injEq] at hv
    subst hv
    simp [bcast, allgather, hlt]
  · cases hr

/-- **scan, prefix property**: rank 0 gets its own buffer, rank `r+1` gets (result of rank `r`) ⊕ (buffer of `r+1`),
and the last rank gets the allreduce value -/
theorem scan_zero (op : α → α → α) (b : List α) (bs : Bufs α) (res : Res α) (h : scan op (b :: bs) = some res) :
    res[0]? = some (some b) := by
  simp only [scan, Option.some.injEq] at h
  subst h
  simp [reduceAll]

theorem scan_succ (op : α → α → α) (bufs : Bufs α) (res : Res α) (r : Nat) (x : List α) (h : scan op bufs = some res)
    (hx : bufs[r + 1]? = some x) :
    ∃ p, res[r]? = some (some p) ∧ res[r + 1]? = some (some (zipOp op p x)) := by
  simp only [scan, Option.some.injEq] at h
  subst h
  have hlt : r + 1 < bufs.length := by
    rcases List.getElem?_eq_some_iff.mp hx with ⟨h1, _⟩; exact h1
  cases bufs with
  | nil => simp at hlt
  | cons b bs =>
    have h2 : (b :: bs).take (r + 1 + 1) = (b :: bs).take (r + 1) ++ [x] := by
      rw [List.take_add_one, hx]; rfl
    refine ⟨(bs.take r).foldl (zipOp op) b, ?_, ?_⟩
    · have hr' : r < (b :: bs).length := by omega
      simp only [List.getElem?_map, List.getElem?_range hr', Option.map_some]
      simp [reduceAll]
    · simp only [List.getElem?_map, List.getElem?_range hlt, Option.map_some, h2]
      simp [reduceAll, List.foldl_append]

theorem scan_last_eq_allreduce (op : α → α → α) (bufs : Bufs α) (res : Res α) (h : scan op bufs = some res)
    (hne : bufs ≠ []) : res[bufs.length - 1]? = some (reduceAll op bufs) := by
  simp only [scan, Option.some.injEq] at h
  subst h
  have : 0 < bufs.length := List.length_pos_iff.mpr hne
  simp [show bufs.length - 1 < bufs.length by omega, show bufs.length - 1 + 1 = bufs.length by omega]

/-- exscan is scan shifted by one rank -/
theorem exscan_succ_eq_scan (op : α → α → α) (bufs : Bufs α) (rs re : Res α) (r : Nat) (hs : scan op bufs = some rs)
    (he : exscan op bufs = some re) (hr : r + 1 < bufs.length) : re[r + 1]? = rs[r]? := by
  simp only [scan, exscan, Option.some.injEq] at hs he
  subst hs; subst he
  simp [hr, show r < bufs.length by omega]

/-- **alltoall is the block transpose**: block `j` of the receive buffer of rank `r` is block `r` of the send buffer
of rank `j` -/
theorem transposeN_getElem? {β : Type} (n : Nat) (m : List (List β)) (r : Nat) (hr : r < n) :
    (transposeN n m)[r]? = some (m.filterMap (·[r]?)) := by
  induction n generalizing m r with
  | zero => omega
  | succ n ih =>
    cases r with
    | zero =>
      simp only [transposeN, List.getElem?_cons_zero, Option.some.injEq]
      congr 1; funext l; cases l <;> simp
    | succ r =>
      simp only [transposeN, List.getElem?_cons_succ]
      rw [ih _ _ (by omega), List.filterMap_map]
      congr 2; funext l; cases l <;> simp

theorem alltoall_block (c : Nat) (bufs : Bufs α) (res : Res α) (r : Nat) (hr : r < bufs.length)
    (h : alltoall c bufs = some res) :
    res[r]? = some (some ((bufs.filterMap fun b => (chunks c bufs.length b)[r]?).flatten)) := by
  unfold alltoall at h
  split at h
  · simp only [Option.some.injEq] at h
    subst h
    simp [transposeN_getElem? _ _ _ hr, List.filterMap_map, Function.comp_def]
  · cases h

theorem filterMap_col {β : Type} (m : List (List β)) (r j : Nat) (hrow : ∀ row ∈ m, r < row.length) :
    (m.filterMap (·[r]?))[j]? = (m[j]?).bind (·[r]?) := by
  induction m generalizing j with
  | nil => simp
  | cons row m ih =>
    have hr : r < row.length := hrow row (by simp)
    have hm : ∀ row' ∈ m, r < row'.length := fun row' h => hrow row' (by simp [h])
    rw [List.filterMap_cons, List.getElem?_eq_getElem hr]
    cases j with
    | zero => simp [List.getElem?_eq_getElem hr]
    | succ j => simp [ih j hm]

/-- entry `(r, j)` of the transpose is entry `(j, r)` of the matrix (all rows long enough): with `alltoall_block`,
`alltoall = transpose` of the block matrix; applying it twice gives the matrix back entry by entry -/
theorem transpose_entry {β : Type} (n : Nat) (m : List (List β)) (r j : Nat) (hr : r < n)
    (hrow : ∀ row ∈ m, r < row.length) :
    ((transposeN n m)[r]?).bind (·[j]?) = (m[j]?).bind (·[r]?) := by
  rw [transposeN_getElem? n m r hr]
  simp only [Option.bind_some]
  exact filterMap_col m r j hrow

/-! ## (B) schedules -/

/-- **allreduce recursive doubling = the spec, for every communicator size** (power of two or not: the pre/post phase
of allreduce-rdb.cpp is part of the model) and every rank, for any ASSOCIATIVE operator: the schedule keeps the rank
order, commutativity is not needed.  `x r` = send buffer of rank `r`. -/
theorem allreduce_rdb_eq_spec (op : α → α → α) (hA : ∀ a b c, op (op a b) c = op a (op b c)) (x : Nat → List α)
    (np r : Nat) (hnp : 1 ≤ np) (hr : r < np) :
    some (allreduceRdb (zipOp op) x np r) = reduceAll op ((List.range np).map x) := by
  have hP1 : 2 ^ np.log2 ≤ np := Nat.log2_self_le (by omega)
  have hP2 : np < 2 ^ (np.log2 + 1) := Nat.lt_log2_self
  rw [Nat.pow_succ] at hP2
  have hPpos : 0 < 2 ^ np.log2 := Nat.pos_of_ne_zero (by simp)
  obtain ⟨n, rfl⟩ : ∃ n, np = n + 1 := ⟨np - 1, by omega⟩
  rw [reduceAll_range]
  congr 1
  have key : ∀ nr, nr < 2 ^ (n + 1).log2 →
      rdbVal (zipOp op) (rdbPre (zipOp op) x (n + 1 - 2 ^ (n + 1).log2)) (n + 1).log2 nr = segFold (zipOp op) x 0 n := by
    intro nr hnr
    rw [rdbVal_eq_segFold (zipOp op) (zipOp_assoc op hA), Nat.mod_eq_of_lt hnr, Nat.sub_self,
      segFold_rdbPre (zipOp op) (zipOp_assoc op hA)]
    have h1 : ¬ (2 ^ (n + 1).log2 - 1 < n + 1 - 2 ^ (n + 1).log2) := by omega
    simp only [h1, if_false]
    congr 1; omega
  unfold allreduceRdb pof2le
  simp only
  split
  · exact key _ (by omega)
  · exact key _ (by omega)

/-- **allgather ring = the spec, for every communicator size and rank**: after the `np-1` rounds every slot of the
receive buffer of `rank` holds the block of the corresponding rank (every posted receive is matched by the send the
schedule pairs it with: the `(src + i) % np = rank` test of the model never fails). -/
theorem allgather_ring_eq_spec (bufs : Bufs α) (rank : Nat) (hr : rank < bufs.length) :
    allgatherRing bufs rank = bufs.map some := by
  unfold allgatherRing
  rw [List.getElem?_eq_getElem hr]
  simp only
  apply List.ext_getElem?
  intro s
  by_cases hs : s < bufs.length
  · rw [ringRounds_get bufs rank (bufs.length - 1) _ hr (by omega) (by simp [setSlot]) s hs]
    simp only [List.getElem?_map, List.getElem?_eq_getElem hs, Option.map_some]
    by_cases hd : 1 ≤ ringDist bufs.length rank s ∧ ringDist bufs.length rank s ≤ bufs.length - 1
    · rw [if_pos hd]
    · rw [if_neg hd]
      have hsr : s = rank := by unfold ringDist at hd; split at hd <;> omega
      subst hsr
      simp [setSlot, hs]
  · have h1 : (ringRounds bufs rank (bufs.length - 1) (setSlot (List.replicate bufs.length none) rank bufs[rank])).length
        = bufs.length := by rw [ringRounds_length]; simp [setSlot]
    rw [List.getElem?_eq_none (by omega), List.getElem?_eq_none (by simp; omega)]

/-- non-vacuity: 5 ranks -/
example : allgatherRing [[1], [2], [3], [4], [5]] 3 = [some [1], some [2], some [3], some [4], some [5]] := by decide

/-- the model writes `newrank ^ mask` arithmetically; finite sanity check (enumeration, not a proof for all sizes) -/
example : ∀ nr < 64, ∀ k < 6, rdbPartner nr k = nr ^^^ 2 ^ k := by decide

/-- non-vacuity: 6 ranks (not a power of two), `+` on Int -/
example : allreduceRdb (zipOp (· + ·)) (fun r => [(r : Int), 10 * r]) 6 3 = [15, 150] := by decide

end SgVerif.C29
